/-
  Abstract sleep/wake protocol of the thread pool (src/Future.cpp:85-99, 168-181, 334-351):
  a resource counter guarded by a `FastSignal` (`_state` + `Signal`).

    supplier:  add one unit;  FastSignal::set()            -- run(): push job, _enqueuedSignal.set()
                                                            -- worker: pop (frees a slot), _dequeuedSignal.set()
    consumer:  while(!take()) { reset(); if(take()) break; wait(); }   -- worker waiting for a job /
                                                                        -- run() waiting for a free slot
  Both uses of FastSignal in the pool are instances (units = queued jobs with consumers = workers,
  units = free queue slots with consumers = threads in run()).  `take`/`add` are atomic here (the ring
  is verified separately), `Signal` operations are atomic (they run under its mutex), a thread blocked
  in `Signal::wait` continues only while `signaled` holds (spurious wake-ups only add re-checks).

  `repaired = true`:  reset() { swap(_state,0); _signal.reset(); if(load(_state)) _signal.set(); }     (fixes 0001 + 0005)
  `repaired = false`: reset() { if(swap(_state,0)==1) _signal.reset(); }          (original code, defect D17)
  `handoff = true`:   a consumer that leaves for good (worker that took a terminate job) calls set() first
-/
namespace Nstd.Future.Proto

inductive CPc where      -- consumer
  | take1                -- first take() of the loop
  | rstX                 -- reset(): swap(_state, 0)
  | rstSig               -- reset(): _signal.reset()
  | rstLoad              -- reset(): load(_state)            (repaired code only)
  | rstSet               -- reset(): _signal.set()           (repaired code only)
  | take2                -- the re-check
  | waitLoad             -- wait(): load(_state)
  | blocked              -- wait(): inside _signal.wait()
  | work                 -- got a unit; uses it, then comes back or leaves for good (a worker that took a terminate job)
  | leaveX               -- leaving: set(): testAndSet(_state)      (repaired code only: the worker passes the wake-up on)
  | leaveSig             -- leaving: set(): _signal.set()
  | gone                 -- has left the protocol
  deriving DecidableEq, Repr

inductive SPc where      -- supplier
  | idle                 -- may add a unit at any time
  | setX                 -- set(): testAndSet(_state)
  | setSig               -- set(): _signal.set()
  deriving DecidableEq, Repr

structure PState where
  units : Nat            -- available units
  st : Nat               -- FastSignal._state
  sig : Bool             -- Signal.signaled
  cons : Nat → CPc       -- consumers 0 .. nc-1
  sup : Nat → SPc        -- suppliers 0 .. ns-1

structure PCfg where
  nc : Nat
  ns : Nat
  repaired : Bool        -- FastSignal::reset re-signals (fix 0001)
  handoff : Bool         -- a leaving consumer calls set() first (fix 0003)

def PState.init : PState := { units := 0, st := 0, sig := false, cons := fun _ => .take1, sup := fun _ => .idle }

def updC (f : Nat → CPc) (i : Nat) (v : CPc) : Nat → CPc := fun j => if j = i then v else f j
def updS (f : Nat → SPc) (i : Nat) (v : SPc) : Nat → SPc := fun j => if j = i then v else f j

/-- step of consumer `i`; `none` = blocked -/
def stepC (cfg : PCfg) (s : PState) (i : Nat) : Option PState :=
  if i ≥ cfg.nc then none else
  match s.cons i with
  | .take1 => if s.units > 0 then some { s with units := s.units - 1, cons := updC s.cons i .work }
              else some { s with cons := updC s.cons i .rstX }
  | .rstX => some { s with st := 0, cons := updC s.cons i (if cfg.repaired || s.st = 1 then .rstSig else .take2) }
  | .rstSig => some { s with sig := false, cons := updC s.cons i (if cfg.repaired then .rstLoad else .take2) }
  | .rstLoad => some { s with cons := updC s.cons i (if s.st ≠ 0 then .rstSet else .take2) }
  | .rstSet => some { s with sig := true, cons := updC s.cons i .take2 }
  | .take2 => if s.units > 0 then some { s with units := s.units - 1, cons := updC s.cons i .work }
              else some { s with cons := updC s.cons i .waitLoad }
  | .waitLoad => some { s with cons := updC s.cons i (if s.st ≠ 0 then .take1 else .blocked) }
  | .blocked => if s.sig then some { s with cons := updC s.cons i .take1 } else none
  | .work => some { s with cons := updC s.cons i .take1 }      -- (the alternative "leave" is `leaveC`)
  | .leaveX => some { s with st := 1, cons := updC s.cons i (if s.st = 0 then .leaveSig else .gone) }
  | .leaveSig => some { s with sig := true, cons := updC s.cons i .gone }
  | .gone => none

/-- consumer `i`, having taken a unit, leaves for good -/
def leaveC (cfg : PCfg) (s : PState) (i : Nat) : Option PState :=
  if i ≥ cfg.nc then none else
  match s.cons i with
  | .work => some { s with cons := updC s.cons i (if cfg.handoff then .leaveX else .gone) }
  | _ => none

/-- step of supplier `j`: an idle supplier adds a unit and starts `set()` -/
def stepS (cfg : PCfg) (s : PState) (j : Nat) : Option PState :=
  if j ≥ cfg.ns then none else
  match s.sup j with
  | .idle => some { s with units := s.units + 1, sup := updS s.sup j .setX }
  | .setX => some { s with st := 1, sup := updS s.sup j (if s.st = 0 then .setSig else .idle) }
  | .setSig => some { s with sig := true, sup := updS s.sup j .idle }

inductive PReach (cfg : PCfg) : PState → Prop where
  | init : PReach cfg PState.init
  | stepC {s s' : PState} (i : Nat) : PReach cfg s → stepC cfg s i = some s' → PReach cfg s'
  | stepS {s s' : PState} (j : Nat) : PReach cfg s → stepS cfg s j = some s' → PReach cfg s'
  | leaveC {s s' : PState} (i : Nat) : PReach cfg s → leaveC cfg s i = some s' → PReach cfg s'

/-- a consumer that is neither asleep nor gone (it will look at the counter or the signal again) -/
def consActive (cfg : PCfg) (s : PState) (i : Nat) : Prop := i < cfg.nc ∧ s.cons i ≠ .blocked ∧ s.cons i ≠ .gone
/-- a supplier in the middle of `set()` -/
def supBusy (cfg : PCfg) (s : PState) (j : Nat) : Prop := j < cfg.ns ∧ s.sup j ≠ .idle
/-- the lost wake-up: units are available, a consumer sleeps, the signal is reset and nobody is going to touch it -/
def Stuck (cfg : PCfg) (s : PState) : Prop :=
  s.units > 0 ∧ (∃ i, i < cfg.nc ∧ s.cons i = .blocked) ∧ s.sig = false ∧
  (∀ i, ¬ consActive cfg s i) ∧ (∀ j, ¬ supBusy cfg s j)

end Nstd.Future.Proto
