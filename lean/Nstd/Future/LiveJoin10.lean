/-
  Join side of deadlock freedom, part 10: `FlagPublished` is an invariant.
-/
import Nstd.Future.LiveJoin9
set_option linter.unusedSimpArgs false
set_option linter.unusedVariables false
namespace Nstd.Future.LJ

/-- completion is published: once the current call of a joinable future has completed, the signal of the future is
    set, or its executor is between the exchange of `_state` and the store of `Signal::set`, or a thread has seen the
    signal in `join()` and not yet cleared `_joinable` -/
def FlagPublished (s : State) : Prop :=
  ∀ f c, (s.futs f).curCall = some c → s.completed c = true → (s.futs f).joinable = true →
    (s.sigs (f + 2)).signaled = true ∨ (∃ u, Role s u .exec f) ∨ (∃ u, Role s u .passed f ∨ Role s u .rstDone f)

theorem roleOf_mono {ev ev' : Nat → Option CallRec} (hev : ∀ c r, ev c = some r → ev' c = some r) {x : Frame}
    {kf : RK × Nat} (h : roleOf ev x = some kf) : roleOf ev' x = some kf := by
  cases x <;> simp only [roleOf] at h ⊢ <;> first | exact h | skip
  all_goals
    cases hv : ev _ with
    | none => rw [hv] at h; cases h
    | some r => rw [hv] at h; rw [hev _ _ hv]; exact h

/-- new stack of the frames of the handshake protocol -/
theorem stack_pSetX {s : State} {t : Tid} {th th' : Thread} {c : Nat} {ab : Bool} {rest : List Frame} {r : CallRec}
    (hst : th.stack = .pSetX c ab :: rest) (hr : s.calls c = some r)
    (h : (stepFrame s t th (.pSetX c ab)).1.threads t = some th') : th'.stack = .pSig c :: rest := by
  simp [stepFrame, hr, setThread, setFut, upd_same] at h; subst h; simp [Thread.cont, hst]
theorem stack_pSig {s : State} {t : Tid} {th th' : Thread} {c : Nat} {rest : List Frame} {r : CallRec}
    (hst : th.stack = .pSig c :: rest) (hr : s.calls c = some r)
    (h : (stepFrame s t th (.pSig c)).1.threads t = some th') :
    th'.stack = .sSetLock (r.fut + 2) :: .pDelete c :: rest := by
  simp [stepFrame, hr, setThread, upd_same] at h; subst h; simp [Thread.cont, hst]
theorem stack_sSetLock {s : State} {t : Tid} {th th' : Thread} {σ : Nat} {rest : List Frame}
    (hst : th.stack = .sSetLock σ :: rest)
    (h : (stepFrame s t th (.sSetLock σ)).1.threads t = some th') : th'.stack = .sSetStore σ :: rest := by
  simp [stepFrame, setThread, setSig, upd_same] at h; subst h; simp [Thread.cont, hst]
theorem stack_sRstLock {s : State} {t : Tid} {th th' : Thread} {σ : Nat} {rest : List Frame}
    (hst : th.stack = .sRstLock σ :: rest)
    (h : (stepFrame s t th (.sRstLock σ)).1.threads t = some th') : th'.stack = .sRstStore σ :: rest := by
  simp [stepFrame, setThread, setSig, upd_same] at h; subst h; simp [Thread.cont, hst]
theorem stack_sRstStore {s : State} {t : Tid} {th th' : Thread} {σ : Nat} {rest : List Frame}
    (hst : th.stack = .sRstStore σ :: rest)
    (h : (stepFrame s t th (.sRstStore σ)).1.threads t = some th') : th'.stack = .sRstUnlock σ :: rest := by
  simp [stepFrame, setThread, setSig, upd_same] at h; subst h; simp [Thread.cont, hst]
theorem stack_sRstUnlock {s : State} {t : Tid} {th th' : Thread} {σ : Nat} {rest : List Frame}
    (hst : th.stack = .sRstUnlock σ :: rest)
    (h : (stepFrame s t th (.sRstUnlock σ)).1.threads t = some th') : th'.stack = rest := by
  simp [stepFrame, setThread, setSig, upd_same] at h; subst h; simp [Thread.cont, hst]
theorem stack_sWaitUnlock {s : State} {t : Tid} {th th' : Thread} {σ : Nat} {rest : List Frame}
    (hst : th.stack = .sWaitUnlock σ :: rest)
    (h : (stepFrame s t th (.sWaitUnlock σ)).1.threads t = some th') : th'.stack = rest := by
  simp [stepFrame, setThread, setSig, upd_same] at h; subst h; simp [Thread.cont, hst]

theorem fut_joinClr {s : State} {t : Tid} {th : Thread} {f : Nat} :
    ((stepFrame s t th (.joinClr f)).1.futs f).joinable = false := by
  simp [stepFrame, setThread, setFut, upd]
theorem fut_destroyF {s : State} {t : Tid} {th : Thread} {f : Nat} :
    ((stepFrame s t th (.destroyF f)).1.futs f).curCall = none := by
  simp [stepFrame, setThread, setFut, destroySig, setSig, upd]

theorem role_sigma {σ f : Nat} {k k' : RK} (h : (if 2 ≤ σ then some (k', σ - 2) else none) = some (k, f)) :
    σ = f + 2 := by
  split at h
  · injection h with h; injection h with _ h; omega
  · cases h

theorem flag_step {cfg : Config} {s s' : State} {t : Tid} {o : List String} (hwf : cfg.WellFormed)
    (hr : Reach cfg s) (hI : FlagPublished s) (h : step s t = some (s', o)) : FlagPublished s' := by
  have hstab : ∀ c r, s.everCalls c = some r → s'.everCalls c = some r := fun c r => everCalls_stable hr h
  obtain ⟨th, fr, rest, hth, hst, hfin, rfl⟩ := step_inv h
  have hSim := reach_inv hr
  have hSafe := reach_safe hr
  have h0 := reach_inv0 hr
  have hHs := reach_hs hwf execFacts_of_reach hr
  have hrest : NoSpec rest := by
    have := hSim.ringTopOnly t th hth
    rw [hst] at this; exact this
  have hok : StackOk (fr :: rest) := by rw [← hst]; exact hSafe.stk t th hth
  have hS := shapeS s t th fr rest hth hst hrest hok
  obtain ⟨th', hth', _⟩ := (shape1 s t th fr rest hth hst hfin hrest).self
  have hrec := Safe.top_record_alive hr hth hst
  have hH := shapeH s t th fr rest hth hst hrec
  have hfrmem : fr ∈ th.stack := by rw [hst]; exact List.mem_cons_self ..
  have hchain := h0.chain t th hth
  rw [hst] at hchain
  -- roles of the other threads survive
  have roleOld : ∀ u k f, u ≠ t → Role s u k f → Role (stepFrame s t th fr).1 u k f := by
    intro u k f hu ⟨x, ⟨thu, hthu, hx⟩, hro⟩
    refine ⟨x, ⟨thu, ?_, hx⟩, roleOf_mono hstab hro⟩
    rcases hS.others u hu with h2 | ⟨h2, _⟩
    · rw [h2]; exact hthu
    · have := hSim.fresh u (by rw [h2]; exact Nat.le_refl _)
      rw [hthu] at this; cases this
  -- the role of the new top frame of `t`
  have roleNew : ∀ x k f, th'.stack.head? = some x → roleOf (stepFrame s t th fr).1.everCalls x = some (k, f) →
      Role (stepFrame s t th fr).1 t k f := fun x k f hx hro => ⟨x, ⟨th', hth', hx⟩, hro⟩
  intro f c hc' hcomp' hj'
  have hnj : fr ≠ .joinClr f := by intro e; subst e; rw [fut_joinClr] at hj'; cases hj'
  have hnd : fr ≠ .destroyF f := by intro e; subst e; rw [fut_destroyF] at hc'; cases hc'
  rcases hH.fut f with ⟨h1, h2⟩ | ⟨c0, r, hfr, hcalls, hrf, h1, _⟩ | ⟨h1, _⟩ | ⟨h1, _⟩
  · rw [h1] at hc'; rw [h2] at hj'
    obtain ⟨r, hevc, hrf⟩ := h0.curLt f c hc'
    rcases hH.comp c with hcs | ⟨ab, hfr, _⟩
    · have hcomp : s.completed c = true := by rw [← hcs]; exact hcomp'
      rcases hI f c hc' hcomp hj' with hsg | ⟨u, hex⟩ | ⟨u, hps⟩
      · -- the signal was set
        rcases hH.sg (f + 2) with h3 | ⟨_, h3⟩ | ⟨hfr, h3⟩ | ⟨f', hfr, hff⟩
        · left; rw [h3]; exact hsg
        · left; exact h3
        · right; right
          subst hfr
          exact ⟨t, Or.inr (roleNew (.sRstUnlock (f + 2)) _ _ (by rw [stack_sRstStore hst hth']; rfl) (by simp [roleOf]))⟩
        · have : f' = f := by omega
          subst this; exact absurd hfr hnd
      · -- an executor before the store
        by_cases hu : u = t
        · subst hu
          obtain ⟨x, ⟨thx, hthx, hx⟩, hro⟩ := hex
          rw [hth] at hthx; injection hthx with e; subst e
          rw [hst] at hx; simp only [List.head?_cons, Option.some.injEq] at hx; subst hx
          cases fr <;> simp only [roleOf] at hro
          case pSig c1 =>
            cases hv : s.everCalls c1 with
            | none => rw [hv] at hro; cases hro
            | some r1 =>
              rw [hv] at hro; simp only [Option.map_some, Option.some.injEq, Prod.mk.injEq, true_and] at hro
              have hcalls : s.calls c1 = some r1 := by
                cases hcl : s.calls c1 with
                | none => exact absurd hcl (hrec c1 rfl)
                | some r2 => rw [h0.callsEv c1 r2 hcl] at hv; exact congrArg some (Option.some.inj hv) ▸ rfl
              right; left
              refine ⟨u, roleNew (.sSetLock (r1.fut + 2)) _ _ (by rw [stack_pSig hst hcalls hth']; rfl) ?_⟩
              simp [roleOf, hro]
          case sSetLock σ =>
            have hσ := role_sigma hro
            subst hσ
            right; left
            exact ⟨u, roleNew (.sSetStore (f + 2)) _ _ (by rw [stack_sSetLock hst hth']; rfl) (by simp [roleOf])⟩
          case sSetStore σ =>
            have hσ := role_sigma hro
            subst hσ
            left
            rcases hH.sg (f + 2) with h3 | ⟨_, h3⟩ | ⟨hfr, _⟩ | ⟨f', hfr, _⟩
            · simp [stepFrame, setThread, setSig, upd]
            · exact h3
            · cases hfr
            · cases hfr
          all_goals (first | (cases hv : s.everCalls _ with
                               | none => rw [hv] at hro; cases hro
                               | some r1 => rw [hv] at hro; simp at hro)
                           | (split at hro <;> simp at hro)
                           | (simp at hro))
        · exact Or.inr (Or.inl ⟨u, roleOld u _ f hu hex⟩)
      · -- a thread has seen the signal
        by_cases hu : u = t
        · subst hu
          have hcase : ∀ k, (k = RK.passed ∨ k = RK.rstDone) → Role s u k f →
              ((stepFrame s u th fr).1.sigs (f + 2)).signaled = true ∨
              (∃ v, Role (stepFrame s u th fr).1 v .exec f) ∨
              (∃ v, Role (stepFrame s u th fr).1 v .passed f ∨ Role (stepFrame s u th fr).1 v .rstDone f) := by
            intro k hk ⟨x, ⟨thx, hthx, hx⟩, hro⟩
            rw [hth] at hthx; injection hthx with e; subst e
            rw [hst] at hx; simp only [List.head?_cons, Option.some.injEq] at hx; subst hx
            cases fr <;> simp only [roleOf] at hro
            case sWaitUnlock σ =>
              have hσ := role_sigma hro
              subst hσ
              -- returns to `sRstLock (f+2)`
              have hb := hchain.1
              simp only [kindA, RelO] at hb
              rcases hb with ⟨hb, _⟩ | ⟨_, hb⟩
              · omega
              · right; right
                exact ⟨u, Or.inl (roleNew (.sRstLock (f + 2)) _ _ (by rw [stack_sWaitUnlock hst hth']; exact hb)
                  (by simp [roleOf]))⟩
            case sRstLock σ =>
              have hσ := role_sigma hro
              subst hσ
              right; right
              exact ⟨u, Or.inl (roleNew (.sRstStore (f + 2)) _ _ (by rw [stack_sRstLock hst hth']; rfl) (by simp [roleOf]))⟩
            case sRstStore σ =>
              have hσ := role_sigma hro
              subst hσ
              right; right
              exact ⟨u, Or.inr (roleNew (.sRstUnlock (f + 2)) _ _ (by rw [stack_sRstStore hst hth']; rfl) (by simp [roleOf]))⟩
            case sRstUnlock σ =>
              have hσ := role_sigma hro
              subst hσ
              have hb := hchain.1
              simp only [kindA, RelO] at hb
              rcases hb with ⟨hb, _⟩ | ⟨_, hb⟩
              · omega
              · right; right
                simp only [Nat.add_sub_cancel] at hb
                exact ⟨u, Or.inr (roleNew (.joinClr f) _ _ (by rw [stack_sRstUnlock hst hth']; exact hb) (by simp [roleOf]))⟩
            case joinClr f1 =>
              simp only [Option.some.injEq, Prod.mk.injEq] at hro
              obtain ⟨_, rfl⟩ := hro
              exact absurd rfl hnj
            all_goals (first | (simp at hro; done)
                             | (cases hv : s.everCalls _ with
                                 | none => rw [hv] at hro; cases hro
                                 | some r1 => rw [hv] at hro; simp at hro; rcases hk with rfl | rfl <;> simp at hro)
                             | (split at hro <;> simp at hro <;> rcases hk with rfl | rfl <;> simp at hro)
                             | (simp at hro; rcases hk with rfl | rfl <;> simp at hro))
          rcases hps with hps | hps
          · exact hcase _ (Or.inl rfl) hps
          · exact hcase _ (Or.inr rfl) hps
        · right; right
          rcases hps with hps | hps
          · exact ⟨u, Or.inl (roleOld u _ f hu hps)⟩
          · exact ⟨u, Or.inr (roleOld u _ f hu hps)⟩
    · -- the call completes with this step: its executor is at `pSig c`
      subst hfr
      cases hcl : s.calls c with
      | none => exact absurd hcl (hrec c rfl)
      | some r2 =>
        right; left
        refine ⟨t, roleNew (.pSig c) _ _ (by rw [stack_pSetX hst hcl hth']; rfl) ?_⟩
        simp [roleOf, hstab c r hevc, hrf]
  · -- `cArm`: the new current call has not completed
    rw [h1] at hc'; injection hc' with hc'; subst hc'; subst hfr
    exfalso
    have hpa : PreArmed s c0 := ⟨t, th, .cArm c0, hth, hfrmem, by simp [hsPreArm]⟩
    have hnc := hHs.c0 c0 hpa
    rcases hH.comp c0 with hcs | ⟨ab, hfr, _⟩
    · rw [hcs, hnc] at hcomp'; cases hcomp'
    · cases hfr
  · exact absurd h1 hnj
  · exact absurd h1 hnd

theorem flag_init (cfg : Config) : FlagPublished (State.init cfg) := by
  intro f c hc; simp [State.init] at hc

theorem reach_flag {cfg : Config} {s : State} (hwf : cfg.WellFormed) (h : Reach cfg s) : FlagPublished s := by
  induction h with
  | init => exact flag_init cfg
  | step t hr hs ih => exact flag_step hwf hr ih hs

end Nstd.Future.LJ
