/-
  Completion handshake of a Future, part 1: vocabulary (`ExecFacts`, ownership, stack adjacency), the
  classification of the frames whose step does not touch the handshake state (`quiet`) and the generic
  shape lemmas over `stepFrame`.
-/
import Nstd.Future.SimRing
set_option linter.unusedSimpArgs false
set_option linter.unusedVariables false
namespace Nstd.Future

/-- frames of `startProc` for call record `c` before `threadPool->run` -/
def hsPreArm (c : Nat) : Frame → Bool
  | .cRdTp c' | .cSpin c' | .cRdTp2 c' | .cSwapTp c' | .cUnlockTp c' | .cJoin c' | .cArm c' => c' == c
  | _ => false

/-- frames of `proc` for call record `c` up to and including the exchange of `_state` -/
def hsPreX (c : Nat) : Frame → Bool
  | .pCall c' | .pBody c' | .pStore c' | .pSetRd c' => c' == c
  | .pSetX c' _ => c' == c
  | _ => false

/-- facts about executors (delivered by `Safety.lean`): one executor per record, a record reaches a worker only
    after its client has left the prefix of `startProc`, the body is not run again after completion -/
structure ExecFacts (s : State) : Prop where
  unique : ∀ t u c, executes s t c → executes s u c → t = u
  started : ∀ t c, executes s t c → c < s.nextCall ∧
      ∀ u thu fr, s.threads u = some thu → fr ∈ thu.stack → hsPreArm c fr = false
  notDone : ∀ t th fr c, s.threads t = some th → fr ∈ th.stack → hsPreX c fr = true → s.completed c = false

/-! ### ownership -/

/-- thread `t` is the client whose script uses future `f` -/
def Owns (s : State) (t : Tid) (f : Nat) : Prop :=
  ∃ (i : Nat) (sc : List ClientOp), s.clientTids[i]? = some t ∧ s.cfg.scripts[i]? = some sc ∧ ∃ a ∈ sc, opFut a = f

theorem owns_unique {s : State} (hwf : s.cfg.WellFormed) {t u : Tid} {f : Nat}
    (ht : Owns s t f) (hu : Owns s u f) : t = u := by
  obtain ⟨i, si, h1, h2, a, ha, hfa⟩ := ht
  obtain ⟨j, sj, h3, h4, b, hb, hfb⟩ := hu
  by_cases hij : i = j
  · subst hij; rw [h1] at h3; injection h3
  · exact absurd (hfa.trans hfb.symm) (hwf.1 i j si sj h2 h4 hij a ha b hb)

/-- the futures a frame of a client works on belong to that client (`O`); FastSignal indices are 0/1 -/
def FrOwn (ev : Nat → Option CallRec) (O : Nat → Prop) : Frame → Prop
  | .sRstLock σ | .sRstStore σ | .sRstUnlock σ
  | .sWaitLock σ | .sWaitChk σ | .sWaitUnlock σ | .sWaitCwait σ | .sWaitCwake σ | .sWaitRelock σ => σ < 2 ∨ O (σ - 2)
  | .join f | .joinClr f | .evJoined f | .evResult f | .destroyF f => O f
  | .cRdTp c | .cSpin c | .cRdTp2 c | .cSwapTp c | .cUnlockTp c | .cJoin c | .cArm c => ∃ r, ev c = some r ∧ O r.fut
  | _ => True

def AllOwn (ev : Nat → Option CallRec) (O : Nat → Prop) (l : List Frame) : Prop := ∀ x ∈ l, FrOwn ev O x
theorem allOwn_nil {ev O} : AllOwn ev O [] := by intro x hx; cases hx
theorem allOwn_cons {ev O a l} : AllOwn ev O (a :: l) ↔ FrOwn ev O a ∧ AllOwn ev O l := by simp [AllOwn]

/-! ### adjacency of frames in a stack -/

inductive Kind where
  | other | exit | set (σ : Nat) | rst (σ : Nat) | wait (σ : Nat) | jn (f : Nat) | fs (k : Nat)

def kindA : Frame → Kind
  | .sSetLock σ | .sSetStore σ | .sSetUnlock σ | .sSetBcast σ _ => .set σ
  | .sRstLock σ | .sRstStore σ | .sRstUnlock σ => .rst σ
  | .sWaitLock σ | .sWaitChk σ | .sWaitUnlock σ | .sWaitCwait σ | .sWaitCwake σ | .sWaitRelock σ => .wait σ
  | .fSet k | .fRst k | .fRstLoad k | .fWait k => .fs k
  | .join f | .joinClr f => .jn f
  | .tExit | .cNext | .cEnd _ => .exit
  | .wPop1 | .wChk1 | .wPop2 | .wChk2 | .wDeq | .wDispatch | .wAdd | .wTerm => .exit
  | .mInit | .mSpawn _ | .mSpawned _ _ | .mJoin _ | .mDel
  | .dPush _ | .dChk1 _ | .dPush2 _ | .dChk2 _ | .dSet _ | .dJoin _ | .dFin => .exit
  | _ => .other

/-- frames that ordinary code may return to -/
def openB : Frame → Bool
  | .pDelete _ | .joinClr _ | .cArm _ | .evJoined _ | .evResult _ | .destroyF _ => false
  | .pStore _ | .pSetRd _ | .pSetX _ _ | .pSig _ => false
  | .sRstLock σ | .sRstStore σ | .sRstUnlock σ | .sWaitUnlock σ | .sSetLock σ | .sSetStore σ => decide (σ < 2)
  | .sSetUnlock σ | .sSetBcast σ _ | .sWaitLock σ | .sWaitChk σ | .sWaitCwait σ | .sWaitCwake σ | .sWaitRelock σ => decide (σ < 2)
  | _ => true

/-- `b` is a continuation of `join()` of future `f` -/
def AfterB (ev : Nat → Option CallRec) (f : Nat) : Frame → Prop
  | .cArm c => ∃ r, ev c = some r ∧ r.fut = f
  | .evJoined f' | .evResult f' | .destroyF f' => f' = f
  | _ => False

def RelOther (o : Option Frame) : Prop := ∀ b, o = some b → openB b = true

/-- what may lie directly below a frame of kind `k` -/
def RelO (ev : Nat → Option CallRec) : Kind → Option Frame → Prop
  | .other, o => RelOther o
  | .exit, o => o = none
  | .set σ, o => (σ < 2 ∧ RelOther o) ∨ (2 ≤ σ ∧ ∃ c r, o = some (.pDelete c) ∧ ev c = some r ∧ r.fut + 2 = σ)
  | .rst σ, o => (σ < 2 ∧ RelOther o) ∨ (2 ≤ σ ∧ o = some (.joinClr (σ - 2)))
  | .wait σ, o => (σ < 2 ∧ RelOther o) ∨ (2 ≤ σ ∧ o = some (.sRstLock σ))
  | .jn f, o => ∃ b, o = some b ∧ AfterB ev f b
  | .fs k, o => k < 2 ∧ RelOther o

def ChainOk (ev : Nat → Option CallRec) : List Frame → Prop
  | [] => True
  | a :: l => RelO ev (kindA a) l.head? ∧ ChainOk ev l

theorem chainOk_nil {ev} : ChainOk ev [] := trivial
theorem chainOk_cons {ev a l} : ChainOk ev (a :: l) ↔ RelO ev (kindA a) l.head? ∧ ChainOk ev l := Iff.rfl

/-! ### quiet frames -/

/-- frames whose step does not touch the handshake state of any future and does not put a frame with an
    obligation on top -/
def quiet : Frame → Bool
  | .sSetLock σ | .sSetStore σ | .sRstLock σ | .sRstStore σ | .sRstUnlock σ | .sWaitChk σ | .sWaitUnlock σ => decide (σ < 2)
  | .fSet k | .fRst k | .fRstLoad k | .fWait k => decide (k < 2)
  | .pStore _ | .pSetRd _ | .pSetX _ _ | .pSig _ => false
  | .cNext | .cArm _ | .join _ | .joinClr _ | .destroyF _ => false
  | _ => true

/-- frames without an obligation when they are on top of a stack -/
def dull : Frame → Bool
  | .cArm _ | .evJoined _ | .evResult _ | .destroyF _ | .joinClr _ => false
  | .pSetRd _ | .pSetX _ _ | .pSig _ => false
  | .sRstLock σ | .sRstStore σ | .sRstUnlock σ | .sWaitUnlock σ | .sSetLock σ | .sSetStore σ => decide (σ < 2)
  | _ => true

theorem openB_dull {b : Frame} (h : openB b = true) : dull b = true := by
  cases b <;> first | rfl | exact h | (simp [openB] at h)

theorem dull_of_other {ev} {b : Frame} (h : RelO ev .other (some b)) : dull b = true :=
  openB_dull (h b rfl)
theorem dull_of_set {ev σ} {b : Frame} (h : RelO ev (.set σ) (some b)) : dull b = true := by
  rcases h with ⟨_, h⟩ | ⟨_, c, r, h, _⟩
  · exact openB_dull (h b rfl)
  · injection h with h; subst h; rfl
theorem dull_of_rst {ev σ} {b : Frame} (hσ : σ < 2) (h : RelO ev (.rst σ) (some b)) : dull b = true := by
  rcases h with ⟨_, h⟩ | ⟨h2, _⟩
  · exact openB_dull (h b rfl)
  · omega
theorem dull_of_wait {ev σ} {b : Frame} (hσ : σ < 2) (h : RelO ev (.wait σ) (some b)) : dull b = true := by
  rcases h with ⟨_, h⟩ | ⟨h2, _⟩
  · exact openB_dull (h b rfl)
  · omega
theorem dull_of_fs {ev σ} {b : Frame} (h : RelO ev (.fs σ) (some b)) : dull b = true :=
  openB_dull (h.2 b rfl)

/-- effect of the step of a quiet frame -/
structure HsShapeQ (s s' : State) (t : Tid) (fr : Frame) (rest : List Frame) : Prop where
  futs : s'.futs = s.futs
  sigs : ∀ σ, 2 ≤ σ → (s'.sigs σ).signaled = (s.sigs σ).signaled
  compl : s'.completed = s.completed
  ev : s'.everCalls = s.everCalls
  top : ∃ th', s'.threads t = some th' ∧ ∀ x, th'.stack.head? = some x → dull x = true
  pre : ∃ th', s'.threads t = some th' ∧
      ∀ c, (∃ x ∈ th'.stack, hsPreArm c x = true) ↔ (∃ x ∈ fr :: rest, hsPreArm c x = true)

structure HsShapeQa (s s' : State) : Prop where
  futs : s'.futs = s.futs
  sigs : ∀ σ, 2 ≤ σ → (s'.sigs σ).signaled = (s.sigs σ).signaled
  compl : s'.completed = s.completed
  ev : s'.everCalls = s.everCalls

structure HsShapeQb (s s' : State) (t : Tid) (fr : Frame) (rest : List Frame) : Prop where
  top : ∃ th', s'.threads t = some th' ∧ ∀ x, th'.stack.head? = some x → dull x = true
  pre : ∃ th', s'.threads t = some th' ∧
      ∀ c, (∃ x ∈ th'.stack, hsPreArm c x = true) ↔ (∃ x ∈ fr :: rest, hsPreArm c x = true)

set_option maxHeartbeats 8000000 in
theorem hsShapeQa (s : State) (t : Tid) (th : Thread) (fr : Frame) (hq : quiet fr = true) :
    HsShapeQa s (stepFrame s t th fr).1 := by
  cases fr <;> simp only [quiet, Bool.false_eq_true, decide_eq_true_eq] at hq <;>
    simp only [stepFrame] <;> repeat' split
  all_goals
    constructor
    · simp [setThread, setSig, setPool, setFut, withFault, destroySig]
    · intro σ hσ
      simp [setThread, setSig, setPool, setFut, withFault, destroySig, upd]
      try grind
    · simp [setThread, setSig, setPool, setFut, withFault, destroySig]
    · simp [setThread, setSig, setPool, setFut, withFault, destroySig]

set_option maxHeartbeats 8000000 in
theorem hsShapeQb (s : State) (t : Tid) (th : Thread) (fr : Frame) (rest : List Frame)
    (hth : s.threads t = some th) (hst : th.stack = fr :: rest) (hq : quiet fr = true)
    (hlink : RelO s.everCalls (kindA fr) rest.head?) :
    HsShapeQb s (stepFrame s t th fr).1 t fr rest := by
  cases fr <;> simp only [quiet, Bool.false_eq_true, decide_eq_true_eq] at hq <;> simp only [kindA] at hlink <;>
    simp only [stepFrame] <;> repeat' split
  all_goals
    constructor
    · simp [setThread, setSig, setPool, setFut, withFault, destroySig, upd_same, Thread.cont, hst, hth, dull, hq]
      try (intro x hx; rw [hx] at hlink
           first
             | exact dull_of_other hlink
             | exact dull_of_set hlink
             | exact dull_of_rst hq hlink
             | exact dull_of_wait hq hlink
             | exact dull_of_fs hlink)
    · simp [setThread, setSig, setPool, setFut, withFault, destroySig, upd_same, Thread.cont, hst, hth, hsPreArm]
      try (intro c x hx
           cases rest with
           | nil => cases hx
           | cons a l => simp [RelO] at hlink)

theorem hsShapeQ (s : State) (t : Tid) (th : Thread) (fr : Frame) (rest : List Frame)
    (hth : s.threads t = some th) (hst : th.stack = fr :: rest) (hq : quiet fr = true)
    (hlink : RelO s.everCalls (kindA fr) rest.head?) :
    HsShapeQ s (stepFrame s t th fr).1 t fr rest :=
  have ha := hsShapeQa s t th fr hq
  have hb := hsShapeQb s t th fr rest hth hst hq hlink
  ⟨ha.futs, ha.sigs, ha.compl, ha.ev, hb.top, hb.pre⟩

end Nstd.Future
