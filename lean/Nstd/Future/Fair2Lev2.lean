/-
  LEVEL 2 of the weak-fairness termination measure of the repaired model (definitions: Fair2Pot.lean).

  MAIN RESULTS (all proved, no extra hypotheses):
    `lev2_step`            : on every micro-step of the repaired model that is not a work event (`¬ workFr s th fr`)
                             `lev2 s' < lev2 s ∨ (lev2 s' = lev2 s ∧ FlagsLe s' s t)`
    `lev2_set_strict`      : every micro-step inside `Signal::set` (`sSetLock/sSetStore/sSetBcast/sSetUnlock`) strictly decreases `lev2`
    `lev2_spurious_strict` : a spurious wake-up (`sWaitCwake σ` with `t ∈ waiters σ`) strictly decreases `lev2` (no `hrep` needed)
    `l2_reach_ok`          : STACK INVARIANT `l2Ok` of every reachable state (repaired or not): Signal/FastSignal operation
                             frames (`sSet*`, `sRstStore`, `sRstUnlock`, `fRst`, `fRstLoad`) are only on top of a stack, except
                             `fRstLoad σ` directly below `sRstLock/sRstStore/sRstUnlock σ`; `fRst σ`/`fRstLoad σ` only with σ < 2.
  The `_disc` variants (`lev2_step_disc`, …) take the stack discipline `l2Disc fr rest` (and `hσ`) as hypotheses instead of
  `Reach`-derived facts; the unprimed theorems discharge them with `l2_reach_ok`.
  Per-group lemmas (local form `l2L`, thread `t` isolated with `tsum_upd`): `l2_plain` (all frames that touch neither a flag
  nor a wait set, incl. `sWaitLock/Unlock/Cwait/Relock`), `l2_setA`, `l2_rst`, `l2_cwake`, `l2_frst`, `l2_frstLoad`.
  OPEN: nothing in this file.
-/
import Nstd.Future.Fair2Pot
set_option linter.unusedVariables false
set_option linter.unusedSimpArgs false
namespace Nstd.Future.F2
open Nstd.Future

variable {cfg : Config} {s s' : State} {t : Tid} {out : List String} {th : Thread} {fr : Frame} {rest : List Frame}

/-- `lev2` with the contribution of thread `t` made explicit (`C`, `R0`, `R1` = contributions of the other threads) -/
def l2L (s : State) (t : Tid) (C R0 R1 : Nat) : Nat :=
  s.spurious + (C + setCredit (thStack s t)) +
    (if stSet s 0 then 7 * (1 + (R0 + (if inReset 0 (thStack s t) then 1 else 0))) else 0) +
    (if stSet s 1 then 7 * (1 + (R1 + (if inReset 1 (thStack s t) then 1 else 0))) else 0)

def l2Oth (s : State) (t : Tid) (f : List Frame → Nat) : Nat :=
  tsum s.nthreads (fun u => if u = t then 0 else f (thStack s u))

theorem l2_split (f : List Frame → Nat) (ht : t < s.nthreads) :
    tsum s.nthreads (fun u => f (thStack s u)) = l2Oth s t f + f (thStack s t) := by
  have := tsum_upd (n := s.nthreads) (t := t) (f := fun u => f (thStack s u))
    (g := fun u => if u = t then 0 else f (thStack s u)) ht (by intro u _ hne; simp [hne])
  simp only [if_true] at this
  unfold l2Oth; omega

theorem l2_lev2 (ht : t < s.nthreads) :
    lev2 s = l2L s t (l2Oth s t setCredit) (l2Oth s t (fun l => if inReset 0 l then 1 else 0))
      (l2Oth s t (fun l => if inReset 1 l then 1 else 0)) := by
  have hc := l2_split setCredit ht
  have h0 : rCount s 0 = l2Oth s t (fun l => if inReset 0 l then 1 else 0) + (if inReset 0 (thStack s t) then 1 else 0) :=
    l2_split (fun l => if inReset 0 l then 1 else 0) ht
  have h1 : rCount s 1 = l2Oth s t (fun l => if inReset 1 l then 1 else 0) + (if inReset 1 (thStack s t) then 1 else 0) :=
    l2_split (fun l => if inReset 1 l then 1 else 0) ht
  unfold lev2 l2L
  rw [hc, h0, h1]

theorem l2Oth_eq (f : List Frame → Nat) (hn : s'.nthreads = s.nthreads)
    (hoth : ∀ u, u < s.nthreads → u ≠ t → thStack s' u = thStack s u) : l2Oth s' t f = l2Oth s t f := by
  unfold l2Oth
  rw [hn]
  apply tsum_congr
  intro u hu
  by_cases h : u = t
  · simp [h]
  · simp [h, hoth u hu h]

theorem l2_core (ht : t < s.nthreads) (hn : s'.nthreads = s.nthreads)
    (hoth : ∀ u, u < s.nthreads → u ≠ t → thStack s' u = thStack s u)
    (hloc : ∀ C R0 R1, l2L s' t C R0 R1 < l2L s t C R0 R1 ∨ (l2L s' t C R0 R1 = l2L s t C R0 R1 ∧ FlagsLe s' s t)) :
    lev2 s' < lev2 s ∨ (lev2 s' = lev2 s ∧ FlagsLe s' s t) := by
  rw [l2_lev2 ht, l2_lev2 (s := s') (t := t) (by rw [hn]; exact ht), l2Oth_eq _ hn hoth, l2Oth_eq _ hn hoth, l2Oth_eq _ hn hoth]
  exact hloc _ _ _

/-- the work events that change the pool / create threads / enter `Signal::set` / destroy a Signal -/
def l2Hard : Frame → Bool
  | .mSpawn _ | .runSpStart _ | .mInit | .cRdTp2 _ | .dFin | .fSet _ | .pSig _ | .destroyF _ => true
  | _ => false

theorem l2Hard_work (s : State) (th : Thread) (fr : Frame) (h : l2Hard fr = true) : workFr s th fr := by
  cases fr <;> first | (simp [l2Hard] at h; done) | (simp [workFr]; done)

/-- frames handled by the generic lemma: no Signal write, no `_state` write, no re-check -/
def l2Plain : Frame → Bool
  | .mSpawn _ | .runSpStart _ | .mInit | .cRdTp2 _ | .dFin | .fSet _ | .pSig _ | .destroyF _ => false
  | .sSetLock _ | .sSetStore _ | .sSetUnlock _ | .sSetBcast _ _ => false
  | .sRstLock _ | .sRstStore _ | .sRstUnlock _ => false
  | .sWaitCwake _ => false
  | .fRst _ | .fRstLoad _ => false
  | _ => true

/-- frames that carry a `Signal::set` credit or take part in `inReset` -/
def l2Sf : Frame → Bool
  | .sSetLock _ | .sSetStore _ | .sSetUnlock _ | .sSetBcast _ _ => true
  | .sRstLock _ | .sRstStore _ | .sRstUnlock _ | .fRstLoad _ => true
  | _ => false

theorem l2_sc_plain {x : Frame} {l : List Frame} (h : l2Sf x = false) : setCredit (x :: l) = 0 := by
  cases x <;> first | rfl | (simp [l2Sf] at h; done)

theorem l2_ir_plain {x : Frame} {l : List Frame} {σ : Nat} (h : l2Sf x = false) : inReset σ (x :: l) = false := by
  cases x <;> first | rfl | (simp [l2Sf] at h; done)

/-- a quiet step: no flag, no wait set, no budget changes; afterwards the thread has no credit and is not in a reset -/
structure L2Q (s S : State) (t : Tid) : Prop where
  st : ∀ σ, stSet S σ = stSet s σ
  sp : S.spurious = s.spurious
  cr : setCredit (thStack S t) = 0
  ir : ∀ σ, inReset σ (thStack S t) = false

theorem l2_thStack_same (s0 : State) (t : Tid) (th0 : Thread) : thStack (setThread s0 t th0) t = th0.stack := by
  simp [thStack, setThread, upd]

theorem l2_thStack_fault (s0 : State) (m : String) (t : Tid) : thStack (withFault s0 m) t = thStack s0 t := rfl

theorem l2_stSet_same {S s : State} {σ : Nat} (h : S.pool = s.pool) : stSet S σ = stSet s σ := by
  unfold stSet; rw [h]

theorem l2_stSet_of_pool {S s : State} {σ : Nat} {p P : Pool} (hp : s.pool = some p) (hP : S.pool = some P)
    (he : P.enq = p.enq) (hd : P.deq = p.deq) : stSet S σ = stSet s σ := by
  have h : fsState P σ = fsState p σ := by simp only [fsState, he, hd]
  unfold stSet; rw [hp, hP]; simp only [h]

set_option hygiene false in
macro "l2_q" : tactic => `(tactic| (
  refine ⟨fun σ => ?_, rfl, ?_, fun σ => ?_⟩
  · first | exact l2_stSet_same rfl | (apply l2_stSet_of_pool (hP := rfl) <;> first | assumption | rfl)
  · (simp [l2_thStack_same, l2_thStack_fault, hold, Thread.cont, hst]
     first | exact hc | exact l2_sc_plain rfl | rfl | (simp [thStack, hth, hst]; exact l2_sc_plain rfl))
  · (simp [l2_thStack_same, l2_thStack_fault, hold, Thread.cont, hst]
     first | exact hi σ | exact l2_ir_plain rfl | rfl | (simp [thStack, hth, hst]; exact l2_ir_plain rfl))))

set_option maxHeartbeats 4000000 in
theorem l2_plainQ (hth : s.threads t = some th) (hst : th.stack = fr :: rest) (hk : l2Plain fr = true)
    (hc : setCredit rest = 0) (hi : ∀ σ, inReset σ rest = false) : L2Q s (stepFrame s t th fr).1 t := by
  have hold : thStack s t = fr :: rest := by simp [thStack, hth, hst]
  cases fr
  case ring pc =>
    cases hp : s.pool with
    | none =>
      simp only [stepFrame, hp]
      l2_q
    | some p =>
      simp only [stepFrame, hp]
      rcases hrs : ringStep p.ring pc with ⟨r', res⟩
      cases res with
      | cont pc' => l2_q
      | pushed ok => l2_q
      | popped o => rcases o with _ | _ | j <;> l2_q
  all_goals first
    | (simp [l2Plain] at hk; done)
    | (simp only [stepFrame]
       repeat' split
       all_goals l2_q)

/-- the frames of `l2Plain` that write a Signal (mutex owner / wait set only) -/
def l2Wt : Frame → Bool
  | .sWaitLock _ | .sWaitUnlock _ | .sWaitCwait _ | .sWaitRelock _ => true
  | _ => false

theorem l2_flags_same {S : State} (hst' : ∀ σ, stSet S σ = stSet s σ) (hsg : S.sigs = s.sigs) : FlagsLe S s t := by
  intro σ
  rw [hst' σ, hsg]
  exact ⟨id, id, fun _ _ h => h⟩

theorem l2_flags_setSig {S : State} {a : Nat} {g : SigSt} (hst' : ∀ σ, stSet S σ = stSet s σ) (hsg : S.sigs = upd s.sigs a g)
    (h1 : g.signaled = true → (s.sigs a).signaled = true)
    (h2 : ∀ u, u ≠ t → u ∈ (s.sigs a).waiters → u ∈ g.waiters) : FlagsLe S s t := by
  intro σ
  rw [hst' σ, hsg]
  unfold upd
  by_cases h : σ = a
  · subst h; simp only [if_true]; exact ⟨id, h1, h2⟩
  · simp only [h, if_false]; exact ⟨id, id, fun _ _ h => h⟩

theorem l2_plain_eq (hth : s.threads t = some th) (hst : th.stack = fr :: rest) (hk : l2Plain fr = true)
    (hc : setCredit rest = 0) (hi : ∀ σ, inReset σ rest = false) (C R0 R1 : Nat) :
    l2L (stepFrame s t th fr).1 t C R0 R1 = l2L s t C R0 R1 := by
  have q := l2_plainQ hth hst hk hc hi
  have hold : thStack s t = fr :: rest := by simp [thStack, hth, hst]
  have hsf : l2Sf fr = false := by cases fr <;> first | rfl | (simp [l2Plain] at hk; done)
  unfold l2L
  rw [q.cr, q.sp, q.st 0, q.st 1, q.ir 0, q.ir 1, hold, l2_sc_plain hsf, l2_ir_plain hsf, l2_ir_plain hsf]

theorem l2_plain_flags (hth : s.threads t = some th) (hst : th.stack = fr :: rest) (hk : l2Plain fr = true)
    (hc : setCredit rest = 0) (hi : ∀ σ, inReset σ rest = false) : FlagsLe (stepFrame s t th fr).1 s t := by
  have q := l2_plainQ hth hst hk hc hi
  by_cases hw : l2Wt fr = true
  · cases fr <;> first
      | (simp [l2Wt] at hw; done)
      | (refine l2_flags_setSig (a := _) (g := _) q.st rfl ?_ ?_
         · exact id
         · intro u hu hm; first | exact hm | (simp; exact Or.inl hm))
  · have hsg : (stepFrame s t th fr).1.sigs = s.sigs := by
      funext σ
      apply lkSigs_eq
      cases fr <;> first | rfl | (simp [l2Plain] at hk; done) | (simp [l2Wt] at hw; done)
    exact l2_flags_same q.st hsg

theorem l2_plain (hth : s.threads t = some th) (hst : th.stack = fr :: rest) (hk : l2Plain fr = true)
    (hc : setCredit rest = 0) (hi : ∀ σ, inReset σ rest = false) (C R0 R1 : Nat) :
    l2L (stepFrame s t th fr).1 t C R0 R1 = l2L s t C R0 R1 ∧ FlagsLe (stepFrame s t th fr).1 s t :=
  ⟨l2_plain_eq hth hst hk hc hi C R0 R1, l2_plain_flags hth hst hk hc hi⟩

/-! ### the explicit frames -/

theorem l2L_setThread (S0 : State) (t : Tid) (th0 : Thread) (C R0 R1 : Nat) :
    l2L (setThread S0 t th0) t C R0 R1 = S0.spurious + (C + setCredit th0.stack) +
      (if stSet S0 0 then 7 * (1 + (R0 + (if inReset 0 th0.stack then 1 else 0))) else 0) +
      (if stSet S0 1 then 7 * (1 + (R1 + (if inReset 1 th0.stack then 1 else 0))) else 0) := by
  unfold l2L; rw [l2_thStack_same]; rfl

theorem l2L_old (hth : s.threads t = some th) (hst : th.stack = fr :: rest) (C R0 R1 : Nat) :
    l2L s t C R0 R1 = s.spurious + (C + setCredit (fr :: rest)) +
      (if stSet s 0 then 7 * (1 + (R0 + (if inReset 0 (fr :: rest) then 1 else 0))) else 0) +
      (if stSet s 1 then 7 * (1 + (R1 + (if inReset 1 (fr :: rest) then 1 else 0))) else 0) := by
  have hold : thStack s t = fr :: rest := by simp [thStack, hth, hst]
  unfold l2L; rw [hold]

theorem l2_stSet_setSig (s0 : State) (a : Nat) (g : SigSt) (σ : Nat) : stSet (setSig s0 a g) σ = stSet s0 σ := rfl
theorem l2_spur_setSig (s0 : State) (a : Nat) (g : SigSt) : (setSig s0 a g).spurious = s0.spurious := rfl
theorem l2_cont_stack (hst : th.stack = fr :: rest) (l : List Frame) : (th.cont l).stack = l ++ rest := by
  simp [Thread.cont, hst]

def l2Cf : Frame → Bool
  | .sSetLock _ | .sSetStore _ | .sSetUnlock _ | .sSetBcast _ _ => true
  | _ => false
def l2Rf : Frame → Bool
  | .sRstLock _ | .sRstStore _ | .sRstUnlock _ | .fRstLoad _ => true
  | _ => false
theorem l2_sc_nc {x : Frame} {l : List Frame} (h : l2Cf x = false) : setCredit (x :: l) = 0 := by
  cases x <;> first | rfl | (simp [l2Cf] at h; done)
theorem l2_ir_nr {x : Frame} {l : List Frame} {σ : Nat} (h : l2Rf x = false) : inReset σ (x :: l) = false := by
  cases x <;> first | rfl | (simp [l2Rf] at h; done)

/-- `Signal::set` frames: strict decrease -/
theorem l2_setA {a g : Nat} (hrep : s.cfg.repaired = true) (hth : s.threads t = some th) (hst : th.stack = fr :: rest)
    (hfr : fr = .sSetLock a ∨ fr = .sSetStore a ∨ fr = .sSetBcast a g ∨ fr = .sSetUnlock a)
    (hc : setCredit rest = 0) (hi : ∀ σ, inReset σ rest = false) (C R0 R1 : Nat) :
    l2L (stepFrame s t th fr).1 t C R0 R1 < l2L s t C R0 R1 := by
  rw [l2L_old hth hst]
  rcases hfr with rfl | rfl | rfl | rfl <;>
    simp only [stepFrame, hrep, if_true, l2L_setThread, l2_stSet_setSig, l2_spur_setSig, l2_cont_stack hst,
      List.cons_append, List.nil_append, hc, hi] <;>
    rw [l2_ir_nr rfl, l2_ir_nr rfl] <;>
    (try rw [l2_ir_nr rfl, l2_ir_nr rfl]) <;>
    simp only [setCredit] <;>
    omega

/-- STACK DISCIPLINE needed below the top frame `fr`: either `fr` is a `Signal::reset` frame of σ directly above the
    re-check `fRstLoad σ`, or the rest of the stack carries no credit and is not inside a reset -/
def l2Disc (fr : Frame) (rest : List Frame) : Prop :=
  (∃ a tl, (fr = .sRstLock a ∨ fr = .sRstStore a ∨ fr = .sRstUnlock a) ∧ rest = .fRstLoad a :: tl) ∨
  (setCredit rest = 0 ∧ ∀ σ, inReset σ rest = false)

theorem l2_ir_rst1 (σ a b : Nat) (l : List Frame) : inReset σ (.sRstLock a :: .fRstLoad b :: l) = (a == σ && b == σ) := rfl
theorem l2_ir_rst2 (σ a b : Nat) (l : List Frame) : inReset σ (.sRstStore a :: .fRstLoad b :: l) = (a == σ && b == σ) := rfl
theorem l2_ir_rst3 (σ a b : Nat) (l : List Frame) : inReset σ (.sRstUnlock a :: .fRstLoad b :: l) = (a == σ && b == σ) := rfl
theorem l2_ir_load (σ b : Nat) (l : List Frame) : inReset σ (.fRstLoad b :: l) = (b == σ) := rfl

theorem l2_rst_neutral {a σ : Nat} (hi : ∀ σ, inReset σ rest = false) :
    inReset σ (.sRstLock a :: rest) = false ∧ inReset σ (.sRstStore a :: rest) = false ∧
      inReset σ (.sRstUnlock a :: rest) = false := by
  cases rest with
  | nil => exact ⟨rfl, rfl, rfl⟩
  | cons y tl =>
    cases y <;> first
      | exact ⟨rfl, rfl, rfl⟩
      | (have h := hi σ
         rw [l2_ir_load] at h
         simp only [l2_ir_rst1, l2_ir_rst2, l2_ir_rst3, h, Bool.and_false]
         exact ⟨trivial, trivial, trivial⟩)

/-- `Signal::reset` frames: `lev2` unchanged, no flag raised -/
theorem l2_rst {a : Nat} (hth : s.threads t = some th) (hst : th.stack = fr :: rest)
    (hfr : fr = .sRstLock a ∨ fr = .sRstStore a ∨ fr = .sRstUnlock a) (hd : l2Disc fr rest) (C R0 R1 : Nat) :
    l2L (stepFrame s t th fr).1 t C R0 R1 = l2L s t C R0 R1 ∧ FlagsLe (stepFrame s t th fr).1 s t := by
  constructor
  · rw [l2L_old hth hst]
    rcases hd with ⟨a', tl, hfr', hrest⟩ | ⟨hc, hi⟩
    · have haa : a' = a := by
        rcases hfr with rfl | rfl | rfl <;> rcases hfr' with h | h | h <;> cases h <;> rfl
      subst haa; subst hrest
      rcases hfr with rfl | rfl | rfl <;>
        simp only [stepFrame, l2L_setThread, l2_stSet_setSig, l2_spur_setSig, l2_cont_stack hst,
          List.cons_append, List.nil_append, l2_ir_rst1, l2_ir_rst2, l2_ir_rst3, l2_ir_load, Bool.and_self] <;>
        rfl
    · have hn := fun σ => l2_rst_neutral (a := a) (σ := σ) hi
      rcases hfr with rfl | rfl | rfl <;>
        simp only [stepFrame, l2L_setThread, l2_stSet_setSig, l2_spur_setSig, l2_cont_stack hst,
          List.cons_append, List.nil_append, (hn _).1, (hn _).2.1, (hn _).2.2, hc, hi] <;>
        rfl
  · rcases hfr with rfl | rfl | rfl <;>
      (refine l2_flags_setSig (a := a) (g := _) (fun σ => l2_stSet_same rfl) rfl ?_ ?_
       · first | exact id | (intro h; cases h)
       · intro u hu hm; exact hm)

/-- the wake-up frame: a spurious wake-up consumes budget, a regular one changes nothing -/
theorem l2_cwake {a : Nat} (hth : s.threads t = some th) (hst : th.stack = .sWaitCwake a :: rest)
    (hb : blockedFrame s t (.sWaitCwake a) = false)
    (hc : setCredit rest = 0) (hi : ∀ σ, inReset σ rest = false) (C R0 R1 : Nat) :
    (t ∈ (s.sigs a).waiters → l2L (stepFrame s t th (.sWaitCwake a)).1 t C R0 R1 < l2L s t C R0 R1) ∧
    (t ∉ (s.sigs a).waiters → l2L (stepFrame s t th (.sWaitCwake a)).1 t C R0 R1 = l2L s t C R0 R1 ∧
      FlagsLe (stepFrame s t th (.sWaitCwake a)).1 s t) := by
  rw [l2L_old hth hst]
  constructor
  · intro hm
    have hct : (s.sigs a).waiters.contains t = true := by simpa using hm
    have hsp : s.spurious ≠ 0 := by
      simp only [blockedFrame, hct, Bool.true_and, beq_eq_false_iff_ne, ne_eq] at hb
      exact hb
    simp only [stepFrame, hct, if_true, l2L_setThread, l2_cont_stack hst, List.cons_append, List.nil_append]
    rw [l2_ir_nr rfl, l2_ir_nr rfl, l2_ir_nr rfl, l2_ir_nr rfl, l2_sc_nc rfl, l2_sc_nc rfl]
    show (s.spurious - 1) + _ + (if stSet s 0 = true then _ else _) + (if stSet s 1 = true then _ else _) < _
    omega
  · intro hm
    have hct : (s.sigs a).waiters.contains t = false := by simpa using hm
    simp only [stepFrame, hct, if_false, Bool.false_eq_true, l2L_setThread, l2_cont_stack hst, List.cons_append, List.nil_append]
    rw [l2_ir_nr rfl, l2_ir_nr rfl, l2_ir_nr rfl, l2_ir_nr rfl, l2_sc_nc rfl, l2_sc_nc rfl]
    exact ⟨rfl, l2_flags_same (fun σ => l2_stSet_same rfl) rfl⟩

theorem l2_flags_le {S : State} (hst' : ∀ σ, stSet S σ = true → stSet s σ = true) (hsg : S.sigs = s.sigs) : FlagsLe S s t := by
  intro σ
  rw [hsg]
  exact ⟨hst' σ, id, fun _ _ h => h⟩

theorem l2_stSet_pool {p : Pool} (hp : s.pool = some p) (σ : Nat) : stSet s σ = decide (fsState p σ ≠ 0) := by
  unfold stSet; rw [hp]

theorem l2_stSet_rst {p : Pool} {a : Nat} (hp : s.pool = some p) (σ : Nat) :
    stSet (setPool s (setFsState p a 0)) σ = (if (σ = 0 ↔ a = 0) then false else stSet s σ) := by
  rw [l2_stSet_pool hp]
  unfold stSet
  simp only [setPool]
  by_cases h1 : σ = 0 <;> by_cases h2 : a = 0 <;> simp [fsState, setFsState, h1, h2]

theorem l2L_fault (m : String) (C R0 R1 : Nat) : l2L (withFault s m) t C R0 R1 = l2L s t C R0 R1 := rfl

/-- `FastSignal::reset`, the `xchg`: `_state` can only be cleared -/
theorem l2_frst {a : Nat} (hrep : s.cfg.repaired = true) (hth : s.threads t = some th) (hst : th.stack = .fRst a :: rest)
    (hc : setCredit rest = 0) (hi : ∀ σ, inReset σ rest = false) (C R0 R1 : Nat) :
    l2L (stepFrame s t th (.fRst a)).1 t C R0 R1 < l2L s t C R0 R1 ∨
      (l2L (stepFrame s t th (.fRst a)).1 t C R0 R1 = l2L s t C R0 R1 ∧ FlagsLe (stepFrame s t th (.fRst a)).1 s t) := by
  cases hp : s.pool with
  | none =>
    simp only [stepFrame, hp]
    exact Or.inr ⟨l2L_fault _ _ _ _, l2_flags_same (fun σ => l2_stSet_same rfl) rfl⟩
  | some p =>
    have hfl : FlagsLe (stepFrame s t th (.fRst a)).1 s t := by
      simp only [stepFrame, hp, hrep, if_true]
      refine l2_flags_le (fun σ => ?_) rfl
      show stSet (setPool s (setFsState p a 0)) σ = true → _
      rw [l2_stSet_rst hp]
      split
      · intro h; cases h
      · exact id
    rw [l2L_old hth hst]
    rw [l2_ir_nr rfl, l2_ir_nr rfl, l2_sc_nc rfl]
    simp only [stepFrame, hp, hrep, if_true, l2L_setThread, l2_cont_stack hst, List.cons_append, List.nil_append,
      l2_ir_rst1] at hfl ⊢
    rw [l2_sc_nc rfl, l2_stSet_rst hp, l2_stSet_rst hp]
    show s.spurious + _ + _ + _ < _ ∨ (s.spurious + _ + _ + _ = _ ∧ _)
    by_cases ha : a = 0
    · subst ha
      cases h0 : stSet s 0 <;> cases h1 : stSet s 1 <;> simp [hfl] <;> omega
    · have ha' : (a == 0) = false := by simpa using ha
      cases h0 : stSet s 0 <;> cases h1 : stSet s 1 <;> simp [hfl, ha, ha'] <;> omega

/-- `FastSignal::reset`, the re-check (`σ < 2`) -/
theorem l2_frstLoad {a : Nat} (ha : a < 2) (hth : s.threads t = some th) (hst : th.stack = .fRstLoad a :: rest)
    (hc : setCredit rest = 0) (hi : ∀ σ, inReset σ rest = false) (C R0 R1 : Nat) :
    l2L (stepFrame s t th (.fRstLoad a)).1 t C R0 R1 < l2L s t C R0 R1 ∨
      (l2L (stepFrame s t th (.fRstLoad a)).1 t C R0 R1 = l2L s t C R0 R1 ∧
        FlagsLe (stepFrame s t th (.fRstLoad a)).1 s t) := by
  cases hp : s.pool with
  | none =>
    simp only [stepFrame, hp]
    exact Or.inr ⟨l2L_fault _ _ _ _, l2_flags_same (fun σ => l2_stSet_same rfl) rfl⟩
  | some p =>
    rw [l2L_old hth hst, l2_sc_nc rfl]
    simp only [l2_ir_load]
    have hsa := l2_stSet_pool hp a
    by_cases hz : fsState p a = 0
    · right
      simp only [stepFrame, hp, hz, ne_eq, not_true_eq_false, if_false, l2L_setThread, l2_cont_stack hst, List.nil_append, hc, hi]
      refine ⟨?_, l2_flags_same (fun σ => l2_stSet_same rfl) rfl⟩
      simp only [hz, ne_eq, not_true_eq_false, decide_false] at hsa
      have h2 : a = 0 ∨ a = 1 := by omega
      rcases h2 with rfl | rfl <;> simp [hsa]
    · left
      simp only [stepFrame, hp, hz, ne_eq, not_false_eq_true, if_true, l2L_setThread, l2_cont_stack hst,
        List.cons_append, List.nil_append]
      rw [l2_ir_nr rfl, l2_ir_nr rfl]
      simp only [hz, ne_eq, not_false_eq_true, decide_true] at hsa
      have h2 : a = 0 ∨ a = 1 := by omega
      rcases h2 with rfl | rfl <;> cases h0 : stSet s 0 <;> cases h1 : stSet s 1 <;>
        simp [setCredit, h0, h1] at hsa ⊢ <;> omega

/-! ### assembly -/

theorem l2_core_lt (ht : t < s.nthreads) (hn : s'.nthreads = s.nthreads)
    (hoth : ∀ u, u < s.nthreads → u ≠ t → thStack s' u = thStack s u)
    (hloc : ∀ C R0 R1, l2L s' t C R0 R1 < l2L s t C R0 R1) : lev2 s' < lev2 s := by
  rw [l2_lev2 ht, l2_lev2 (s := s') (t := t) (by rw [hn]; exact ht), l2Oth_eq _ hn hoth, l2Oth_eq _ hn hoth, l2Oth_eq _ hn hoth]
  exact hloc _ _ _

theorem l2_setup (hr : Reach cfg s) (h : step s t = some (s', out)) (hth : s.threads t = some th)
    (hst : th.stack = fr :: rest) :
    s' = (stepFrame s t th fr).1 ∧ blockedFrame s t fr = false ∧ t < s.nthreads ∧ s.cfg = cfg := by
  obtain ⟨th1, fr1, rest1, hth1, hst1, hfin, hb, hs'⟩ := lkStep_inv h
  rw [hth] at hth1; cases hth1
  rw [hst] at hst1; cases hst1
  exact ⟨hs', hb, thread_lt hr hth, reach_cfg hr⟩

theorem l2_others (ht : t < s.nthreads) (hsp : FR.spawns fr = false) :
    (stepFrame s t th fr).1.nthreads = s.nthreads ∧
      ∀ u, u < s.nthreads → u ≠ t → thStack (stepFrame s t th fr).1 u = thStack s u := by
  refine ⟨FR.flNth s t th fr hsp, ?_⟩
  intro u hu hne
  unfold thStack
  rw [FR.flOthers s t th fr u hne (Nat.ne_of_lt hu)]

theorem l2_neutral (hd : l2Disc fr rest)
    (hne : ∀ a, fr ≠ .sRstLock a ∧ fr ≠ .sRstStore a ∧ fr ≠ .sRstUnlock a) :
    setCredit rest = 0 ∧ ∀ σ, inReset σ rest = false := by
  rcases hd with ⟨a, tl, h3, _⟩ | h2
  · exfalso
    rcases h3 with h | h | h
    · exact (hne a).1 h
    · exact (hne a).2.1 h
    · exact (hne a).2.2 h
  · exact h2

/-- LEVEL 2 never increases on a non-work step of the repaired model; if it stays equal no flag was raised and nobody
    but `t` left a wait set.  Extra hypotheses: `hσ` (the re-check frame belongs to a pool FastSignal, σ < 2) and the
    stack discipline `hd : l2Disc fr rest`. -/
theorem lev2_step_disc (hrep : cfg.repaired = true) (hr : Reach cfg s) (h : step s t = some (s', out))
    (hth : s.threads t = some th) (hst : th.stack = fr :: rest) (hnw : ¬ workFr s th fr)
    (hσ : ∀ σ, fr = .fRstLoad σ → σ < 2) (hd : l2Disc fr rest) :
    lev2 s' < lev2 s ∨ (lev2 s' = lev2 s ∧ FlagsLe s' s t) := by
  obtain ⟨hs', hb, ht, hcfg⟩ := l2_setup hr h hth hst
  subst hs'
  have hrep' : s.cfg.repaired = true := by rw [hcfg]; exact hrep
  have hk : l2Hard fr = false := by
    cases hh : l2Hard fr
    · rfl
    · exact absurd (l2Hard_work s th fr hh) hnw
  have hsp : FR.spawns fr = false := by cases fr <;> first | rfl | (simp [l2Hard] at hk; done)
  obtain ⟨hn, hoth⟩ := l2_others (th := th) ht hsp
  apply l2_core ht hn hoth
  intro C R0 R1
  have hneu := l2_neutral hd
  cases fr
  case sRstLock a => exact Or.inr (l2_rst hth hst (Or.inl rfl) hd C R0 R1)
  case sRstStore a => exact Or.inr (l2_rst hth hst (Or.inr (Or.inl rfl)) hd C R0 R1)
  case sRstUnlock a => exact Or.inr (l2_rst hth hst (Or.inr (Or.inr rfl)) hd C R0 R1)
  all_goals
    obtain ⟨hc, hi⟩ := hneu (by intro a; simp)
  case sSetLock a => exact Or.inl (l2_setA (g := 0) hrep' hth hst (Or.inl rfl) hc hi C R0 R1)
  case sSetStore a => exact Or.inl (l2_setA (g := 0) hrep' hth hst (Or.inr (Or.inl rfl)) hc hi C R0 R1)
  case sSetBcast a g => exact Or.inl (l2_setA hrep' hth hst (Or.inr (Or.inr (Or.inl rfl))) hc hi C R0 R1)
  case sSetUnlock a => exact Or.inl (l2_setA (g := 0) hrep' hth hst (Or.inr (Or.inr (Or.inr rfl))) hc hi C R0 R1)
  case sWaitCwake a =>
    have hw := l2_cwake hth hst hb hc hi C R0 R1
    by_cases hm : t ∈ (s.sigs a).waiters
    · exact Or.inl (hw.1 hm)
    · exact Or.inr (hw.2 hm)
  case fRst a => exact l2_frst hrep' hth hst hc hi C R0 R1
  case fRstLoad a => exact l2_frstLoad (hσ a rfl) hth hst hc hi C R0 R1
  all_goals first
    | (simp [l2Hard] at hk; done)
    | exact Or.inr (l2_plain hth hst rfl hc hi C R0 R1)

/-- strict case 1: every micro-step inside `Signal::set` -/
theorem lev2_set_strict_disc {σ g : Nat} (hrep : cfg.repaired = true) (hr : Reach cfg s) (h : step s t = some (s', out))
    (hth : s.threads t = some th) (hst : th.stack = fr :: rest) (hd : l2Disc fr rest)
    (hfr : fr = .sSetLock σ ∨ fr = .sSetStore σ ∨ fr = .sSetBcast σ g ∨ fr = .sSetUnlock σ) :
    lev2 s' < lev2 s := by
  obtain ⟨hs', hb, ht, hcfg⟩ := l2_setup hr h hth hst
  subst hs'
  have hrep' : s.cfg.repaired = true := by rw [hcfg]; exact hrep
  have hsp : FR.spawns fr = false := by rcases hfr with rfl | rfl | rfl | rfl <;> rfl
  obtain ⟨hn, hoth⟩ := l2_others (th := th) ht hsp
  obtain ⟨hc, hi⟩ := l2_neutral hd (by intro a; rcases hfr with rfl | rfl | rfl | rfl <;> simp)
  exact l2_core_lt ht hn hoth (fun C R0 R1 => l2_setA hrep' hth hst hfr hc hi C R0 R1)

/-- strict case 2: a spurious wake-up -/
theorem lev2_spurious_strict_disc {σ : Nat} (hr : Reach cfg s) (h : step s t = some (s', out))
    (hth : s.threads t = some th) (hst : th.stack = fr :: rest) (hd : l2Disc fr rest)
    (hfr : fr = .sWaitCwake σ) (hm : t ∈ (s.sigs σ).waiters) : lev2 s' < lev2 s := by
  subst hfr
  obtain ⟨hs', hb, ht, hcfg⟩ := l2_setup hr h hth hst
  subst hs'
  obtain ⟨hn, hoth⟩ := l2_others (th := th) (fr := .sWaitCwake σ) ht rfl
  obtain ⟨hc, hi⟩ := l2_neutral hd (by intro a; simp)
  exact l2_core_lt ht hn hoth (fun C R0 R1 => (l2_cwake hth hst hb hc hi C R0 R1).1 hm)

/-! ### the stack discipline is an invariant of the model (repaired or not) -/

/-- frames that may sit below the top of a stack -/
def l2Dp : Frame → Bool
  | .sSetLock _ | .sSetStore _ | .sSetUnlock _ | .sSetBcast _ _ => false
  | .sRstStore _ | .sRstUnlock _ | .fRstLoad _ | .fRst _ => false
  | _ => true

/-- `FastSignal::reset` frames only of the pool FastSignals 0, 1 -/
def l2T : Frame → Bool
  | .fRst a | .fRstLoad a => decide (a < 2)
  | _ => true

def l2D (l : List Frame) : Prop := ∀ y ∈ l, l2Dp y = true
theorem l2D_nil : l2D [] := by intro y h; cases h
theorem l2D_cons {y : Frame} {l : List Frame} (h1 : l2Dp y = true) (h2 : l2D l) : l2D (y :: l) := by
  intro z hz
  rcases List.mem_cons.1 hz with rfl | h
  · exact h1
  · exact h2 z h
theorem l2D_tail {y : Frame} {l : List Frame} (h : l2D (y :: l)) : l2D l := fun z hz => h z (List.mem_cons_of_mem _ hz)
theorem l2D_head {y : Frame} {l : List Frame} (h : l2D (y :: l)) : l2Dp y = true := h y (List.mem_cons_self ..)

def l2R (x : Frame) (rest : List Frame) : Prop :=
  ∃ a tl, a < 2 ∧ (x = .sRstLock a ∨ x = .sRstStore a ∨ x = .sRstUnlock a) ∧ rest = .fRstLoad a :: tl ∧ l2D tl

/-- STACK INVARIANT: Signal/FastSignal operation frames are only ever on top of the stack, except `fRstLoad σ`
    directly below `sRst* σ` (and `sRstLock` of a future's Signal below `sWait*` inside `join`) -/
def l2Ok : List Frame → Prop
  | [] => True
  | x :: rest => l2T x = true ∧ (l2D rest ∨ l2R x rest)

theorem l2Ok_nil : l2Ok [] := True.intro
theorem l2Dp_T {y : Frame} (h : l2Dp y = true) : l2T y = true := by
  cases y <;> first | rfl | (simp [l2Dp] at h; done)
theorem l2Ok_of_D {l : List Frame} (h : l2D l) : l2Ok l := by
  cases l with
  | nil => exact l2Ok_nil
  | cons y tl => exact ⟨l2Dp_T (l2D_head h), Or.inl (l2D_tail h)⟩
theorem l2Ok_push {a : Frame} {rest : List Frame} (h1 : l2T a = true) (h2 : l2D rest) : l2Ok (a :: rest) := ⟨h1, Or.inl h2⟩
theorem l2Ok_D {x : Frame} {rest : List Frame} (h : l2Ok (x :: rest))
    (hne : ∀ a, x ≠ .sRstLock a ∧ x ≠ .sRstStore a ∧ x ≠ .sRstUnlock a) : l2D rest := by
  rcases h with ⟨_, hD | ⟨a, tl, _, hx, _, _⟩⟩
  · exact hD
  · exfalso
    rcases hx with h | h | h
    · exact (hne a).1 h
    · exact (hne a).2.1 h
    · exact (hne a).2.2 h
theorem l2Ok_frst {a : Nat} {rest : List Frame} (ha : a < 2) (hD : l2D rest) : l2Ok (.sRstLock a :: .fRstLoad a :: rest) :=
  ⟨rfl, Or.inr ⟨a, rest, ha, Or.inl rfl, rfl, hD⟩⟩
theorem l2Ok_rst {a : Nat} {x y : Frame} {rest : List Frame}
    (hx : x = .sRstLock a ∨ x = .sRstStore a ∨ x = .sRstUnlock a)
    (hy : y = .sRstLock a ∨ y = .sRstStore a ∨ y = .sRstUnlock a) (h : l2Ok (x :: rest)) : l2Ok (y :: rest) := by
  have hty : l2T y = true := by rcases hy with rfl | rfl | rfl <;> rfl
  rcases h with ⟨_, hD | ⟨b, tl, hb, hx', hr, htl⟩⟩
  · exact ⟨hty, Or.inl hD⟩
  · have hba : b = a := by
      rcases hx with rfl | rfl | rfl <;> rcases hx' with h | h | h <;> cases h <;> rfl
    subst hba
    exact ⟨hty, Or.inr ⟨b, tl, hb, hy, hr, htl⟩⟩
theorem l2Ok_ret {a : Nat} {x : Frame} {rest : List Frame}
    (hx : x = .sRstLock a ∨ x = .sRstStore a ∨ x = .sRstUnlock a) (h : l2Ok (x :: rest)) : l2Ok rest := by
  rcases h with ⟨_, hD | ⟨b, tl, hb, hx', hr, htl⟩⟩
  · exact l2Ok_of_D hD
  · subst hr
    exact ⟨by simp [l2T, hb], Or.inl htl⟩

theorem l2_deep_neutral {rest : List Frame} (hD : l2D rest) : setCredit rest = 0 ∧ ∀ σ, inReset σ rest = false := by
  cases rest with
  | nil => exact ⟨rfl, fun _ => rfl⟩
  | cons y tl =>
    have hy := l2D_head hD
    cases y <;> first
      | (simp [l2Dp] at hy; done)
      | exact ⟨rfl, fun _ => rfl⟩
      | (refine ⟨rfl, fun σ => ?_⟩
         cases tl with
         | nil => rfl
         | cons z tl2 =>
           have hz := l2D_head (l2D_tail hD)
           cases z <;> first | (simp [l2Dp] at hz; done) | rfl)

theorem l2Disc_of_ok (h : l2Ok (fr :: rest)) : l2Disc fr rest := by
  rcases h with ⟨_, hD | ⟨a, tl, ha, hx, hr, htl⟩⟩
  · exact Or.inr (l2_deep_neutral hD)
  · exact Or.inl ⟨a, tl, hx, hr⟩

set_option hygiene false in
macro "l2_ok" : tactic => `(tactic| (
  simp [l2_thStack_same, l2_thStack_fault, hold, Thread.cont, hst]
  first
    | exact hok
    | exact l2Ok_nil
    | exact l2Ok_of_D (hD (by intro a; simp))
    | exact l2Ok_push rfl (hD (by intro a; simp))
    | exact l2Ok_push rfl (l2D_cons rfl (hD (by intro a; simp)))
    | exact l2Ok_push rfl (l2D_cons rfl (l2D_cons rfl (hD (by intro a; simp))))
    | (simp [thStack, hth, hst]; exact hok)))

set_option maxHeartbeats 4000000 in
theorem l2_ok_self (hth : s.threads t = some th) (hst : th.stack = fr :: rest) (hok : l2Ok (fr :: rest)) :
    l2Ok (thStack (stepFrame s t th fr).1 t) := by
  have hold : thStack s t = fr :: rest := by simp [thStack, hth, hst]
  have hD := l2Ok_D hok
  cases fr
  case ring pc =>
    cases hp : s.pool with
    | none =>
      simp only [stepFrame, hp]
      l2_ok
    | some p =>
      simp only [stepFrame, hp]
      rcases hrs : ringStep p.ring pc with ⟨r', res⟩
      cases res with
      | cont pc' => l2_ok
      | pushed ok => l2_ok
      | popped o => rcases o with _ | _ | j <;> l2_ok
  case sRstLock a =>
    simp only [stepFrame]
    simp [l2_thStack_same, Thread.cont, hst]
    exact l2Ok_rst (Or.inl rfl) (Or.inr (Or.inl rfl)) hok
  case sRstStore a =>
    simp only [stepFrame]
    simp [l2_thStack_same, Thread.cont, hst]
    exact l2Ok_rst (Or.inr (Or.inl rfl)) (Or.inr (Or.inr rfl)) hok
  case sRstUnlock a =>
    simp only [stepFrame]
    simp [l2_thStack_same, Thread.cont, hst]
    exact l2Ok_ret (Or.inr (Or.inr rfl)) hok
  case fRst a =>
    have ha : a < 2 := by simpa [l2T] using hok.1
    have hD' := hD (by intro a; simp)
    simp only [stepFrame]
    repeat' split
    all_goals first
      | l2_ok
      | (simp [l2_thStack_same, Thread.cont, hst]; exact l2Ok_frst ha hD')
  all_goals
    simp only [stepFrame]
    repeat' split
  all_goals l2_ok

set_option maxHeartbeats 4000000 in
theorem l2_ok_new (hne : t ≠ s.nthreads) (hfresh : s.threads s.nthreads = none) :
    l2Ok (thStack (stepFrame s t th fr).1 s.nthreads) := by
  have hne' : ¬ s.nthreads = t := fun e => hne e.symm
  cases fr
  case ring pc =>
    cases hp : s.pool with
    | none => simp only [stepFrame, hp]; simp [thStack, withFault, hfresh]; exact l2Ok_nil
    | some p =>
      simp only [stepFrame, hp]
      rcases hrs : ringStep p.ring pc with ⟨r', res⟩
      cases res with
      | cont pc' => simp [thStack, setThread, setPool, upd, hfresh, hne']; exact l2Ok_nil
      | pushed ok => simp [thStack, setThread, setPool, upd, hfresh, hne']; exact l2Ok_nil
      | popped o => rcases o with _ | _ | j <;> (simp [thStack, setThread, setPool, withFault, upd, hfresh, hne']; exact l2Ok_nil)
  all_goals
    simp only [stepFrame]
    repeat' split
  all_goals
    simp [thStack, setThread, setSig, setPool, setFut, withFault, destroySig, upd, hfresh, hne']
    first | exact l2Ok_nil | exact l2Ok_push rfl (l2D_cons rfl l2D_nil)

theorem l2_reach_ok (hr : Reach cfg s) : ∀ u, l2Ok (thStack s u) := by
  induction hr with
  | init =>
    intro u
    by_cases h0 : u = 0
    · simp [thStack, State.init, h0]; exact l2Ok_push rfl l2D_nil
    · simp [thStack, State.init, h0]; exact l2Ok_nil
  | @step s s' o t hr hs ih =>
    obtain ⟨th, fr, rest, hth, hst, _, _, hs'⟩ := lkStep_inv hs
    subst hs'
    intro u
    have hokt : l2Ok (fr :: rest) := by
      have := ih t
      simpa [thStack, hth, hst] using this
    by_cases hut : u = t
    · subst hut; exact l2_ok_self hth hst hokt
    · by_cases hun : u = s.nthreads
      · subst hun
        exact l2_ok_new (fun e => hut e.symm) ((reach_inv hr).fresh _ (Nat.le_refl _))
      · unfold thStack
        rw [FR.flOthers s t th fr u hut hun]
        exact ih u

/-- MAIN THEOREM (no extra hypotheses: `hσ` and `l2Disc` are discharged by the invariant `l2_reach_ok`) -/
theorem lev2_step (hrep : cfg.repaired = true) (hr : Reach cfg s) (h : step s t = some (s', out))
    (hth : s.threads t = some th) (hst : th.stack = fr :: rest) (hnw : ¬ workFr s th fr) :
    lev2 s' < lev2 s ∨ (lev2 s' = lev2 s ∧ FlagsLe s' s t) := by
  have hok : l2Ok (fr :: rest) := by
    have := l2_reach_ok hr t
    simpa [thStack, hth, hst] using this
  refine lev2_step_disc hrep hr h hth hst hnw ?_ (l2Disc_of_ok hok)
  intro σ hfr
  subst hfr
  simpa [l2T] using hok.1

theorem lev2_set_strict {σ g : Nat} (hrep : cfg.repaired = true) (hr : Reach cfg s) (h : step s t = some (s', out))
    (hth : s.threads t = some th) (hst : th.stack = fr :: rest)
    (hfr : fr = .sSetLock σ ∨ fr = .sSetStore σ ∨ fr = .sSetBcast σ g ∨ fr = .sSetUnlock σ) :
    lev2 s' < lev2 s := by
  have hok : l2Ok (fr :: rest) := by
    have := l2_reach_ok hr t
    simpa [thStack, hth, hst] using this
  exact lev2_set_strict_disc hrep hr h hth hst (l2Disc_of_ok hok) hfr

theorem lev2_spurious_strict {σ : Nat} (hr : Reach cfg s) (h : step s t = some (s', out))
    (hth : s.threads t = some th) (hst : th.stack = fr :: rest)
    (hfr : fr = .sWaitCwake σ) (hm : t ∈ (s.sigs σ).waiters) : lev2 s' < lev2 s := by
  have hok : l2Ok (fr :: rest) := by
    have := l2_reach_ok hr t
    simpa [thStack, hth, hst] using this
  exact lev2_spurious_strict_disc hr h hth hst (l2Disc_of_ok hok) hfr hm

/-- the invariant in thread-record form -/
theorem l2_reach_ok_thread (hr : Reach cfg s) (hth : s.threads t = some th) : l2Ok th.stack := by
  have := l2_reach_ok hr t
  simpa [thStack, hth] using this

-- primed aliases (same statements)
theorem lev2_step' (hrep : cfg.repaired = true) (hr : Reach cfg s) (h : step s t = some (s', out))
    (hth : s.threads t = some th) (hst : th.stack = fr :: rest) (hnw : ¬ workFr s th fr) :
    lev2 s' < lev2 s ∨ (lev2 s' = lev2 s ∧ FlagsLe s' s t) := lev2_step hrep hr h hth hst hnw
theorem lev2_set_strict' {σ g : Nat} (hrep : cfg.repaired = true) (hr : Reach cfg s) (h : step s t = some (s', out))
    (hth : s.threads t = some th) (hst : th.stack = fr :: rest)
    (hfr : fr = .sSetLock σ ∨ fr = .sSetStore σ ∨ fr = .sSetBcast σ g ∨ fr = .sSetUnlock σ) :
    lev2 s' < lev2 s := lev2_set_strict hrep hr h hth hst hfr
theorem lev2_spurious_strict' {σ : Nat} (hr : Reach cfg s) (h : step s t = some (s', out))
    (hth : s.threads t = some th) (hst : th.stack = fr :: rest)
    (hfr : fr = .sWaitCwake σ) (hm : t ∈ (s.sigs σ).waiters) : lev2 s' < lev2 s :=
  lev2_spurious_strict hr h hth hst hfr hm

end Nstd.Future.F2
