/-
  LEVEL 1: the two thread creations `mSpawn i` / `runSpStart k`.
-/
import Nstd.Future.Fair2L1E
set_option linter.unusedVariables false
set_option linter.unusedSimpArgs false
namespace Nstd.Future
open FR F2 L1

variable {cfg : Config}

theorem lev1_spawn_eq {s s' : State} {t : Tid} {th th' nth : Thread} (ht : t < s.nthreads)
    (hth : s.threads t = some th) (hcfg : s'.cfg = s.cfg) (hn : s'.nthreads = s.nthreads + 1)
    (hself : s'.threads t = some th') (hnew : s'.threads s.nthreads = some nth)
    (hoth : ∀ u, u ≠ t → u ≠ s.nthreads → s'.threads u = s.threads u) (hpool : poolTerm s' = poolTerm s) :
    lev1 s' + thw (nCfg s.cfg.scripts) s.cfg.scripts th
      = lev1 s + thw (nCfg s.cfg.scripts) s.cfg.scripts th' + thw (nCfg s.cfg.scripts) s.cfg.scripts nth := by
  have hoth' : ∀ u, u < s.nthreads → u ≠ t → L1.thAt s' u = L1.thAt s u := by
    intro u hu hne
    simp only [L1.thAt, hcfg, hoth u hne (Nat.ne_of_lt hu)]
  have hsum := tsum_upd (f := L1.thAt s) (g := L1.thAt s') ht hoth'
  have h0 : L1.thAt s t = thw (nCfg s.cfg.scripts) s.cfg.scripts th := by simp only [L1.thAt, hth]
  have h1 : L1.thAt s' t = thw (nCfg s.cfg.scripts) s.cfg.scripts th' := by simp only [L1.thAt, hself, hcfg]
  have h2 : L1.thAt s' s.nthreads = thw (nCfg s.cfg.scripts) s.cfg.scripts nth := by
    simp only [L1.thAt, hnew, hcfg]
  simp only [lev1, hn, tsum, hpool]
  omega

theorem drop_of_get {α : Type} {l : List α} {i : Nat} {x : α} (h : l[i]? = some x) :
    l.drop i = x :: l.drop (i + 1) := by
  induction l generalizing i with
  | nil => simp at h
  | cons a l ih =>
    cases i with
    | zero => simp at h; subst h; rfl
    | succ k => simp at h; simpa using ih h

theorem drop_of_none {α : Type} {l : List α} {i : Nat} (h : l[i]? = none) : l.drop i = [] := by
  induction l generalizing i with
  | nil => simp
  | cons a l ih =>
    cases i with
    | zero => simp at h
    | succ k => simp at h; simpa using ih (by simpa using h)

/-- `mSpawn i` -/
theorem lev1_step_mSpawn {s s' : State} {t : Tid} {o : List String} (hr : Reach cfg s)
    (hs : step s t = some (s', o)) {th : Thread} {i : Nat} {rest : List Frame}
    (hth : s.threads t = some th) (hst : th.stack = .mSpawn i :: rest) : lev1 s' < lev1 s := by
  have he := step_eq_stepFrame hs hth hst
  have ht : t < s.nthreads := thread_lt hr hth
  have htne : t ≠ s.nthreads := Nat.ne_of_lt ht
  cases hsc : s.cfg.scripts[i]? with
  | none =>
    have hd := drop_of_none hsc
    have hoth : ∀ u, u < s.nthreads → u ≠ t → L1.thAt s' u = L1.thAt s u := by
      intro u hu hne
      subst he
      simp [L1.thAt, stepFrame, hsc, setThread, upd, hne]
    have hsum := tsum_upd (f := L1.thAt s) (g := L1.thAt s') ht hoth
    have h0 : L1.thAt s t = thw (nCfg s.cfg.scripts) s.cfg.scripts th := by simp only [L1.thAt, hth]
    subst he
    by_cases hem : s.cfg.scripts.isEmpty = true <;>
      (simp [lev1, L1.thAt, stepFrame, hsc, setThread, upd, poolTerm, hem] at hsum ⊢
       simp [thw, hst, Thread.cont, w1, wonOf, ringOf, hd, hth] at h0 hsum ⊢
       omega)
  | some sc0 =>
    have hd := drop_of_get hsc
    have hcfg : s'.cfg = s.cfg := by subst he; simp [stepFrame, hsc, setThread]
    have hn : s'.nthreads = s.nthreads + 1 := by subst he; simp [stepFrame, hsc, setThread]
    have hpool : poolTerm s' = poolTerm s := by subst he; simp [stepFrame, hsc, setThread, poolTerm]
    have hself : s'.threads t = some (th.cont [.mSpawned i s.nthreads]) := by
      subst he; simp [stepFrame, hsc, setThread, upd]
    have hnew : s'.threads s.nthreads = some { stack := [.tStart, .cNext], script := sc0 } := by
      subst he; simp [stepFrame, hsc, setThread, upd, Ne.symm htne]
    have hoth : ∀ u, u ≠ t → u ≠ s.nthreads → s'.threads u = s.threads u := by
      intro u h1 h2; subst he; simp [stepFrame, hsc, setThread, upd, h1, h2]
    have heq := lev1_spawn_eq ht hth hcfg hn hself hnew hoth hpool
    simp [thw, hst, Thread.cont, w1, wonOf, ringOf, hd] at heq
    omega

/-- `runSpStart k` -/
theorem lev1_step_runSpStart {s s' : State} {t : Tid} {o : List String} (hr : Reach cfg s)
    (hs : step s t = some (s', o)) {th : Thread} {k : Nat} {rest : List Frame}
    (hth : s.threads t = some th) (hst : th.stack = .runSpStart k :: rest) : lev1 s' < lev1 s := by
  have he := step_eq_stepFrame hs hth hst
  have hr' : Reach cfg s' := Reach.step t hr hs
  have hflt : s'.fault = none := no_fault hr'
  have ht : t < s.nthreads := thread_lt hr hth
  have htne : t ≠ s.nthreads := Nat.ne_of_lt ht
  cases hp : s.pool with
  | none =>
    subst he
    have h0 := no_fault hr
    simp [stepFrame, hp, withFault, h0] at hflt
  | some p =>
    have hcfg : s'.cfg = s.cfg := by subst he; simp [stepFrame, hp, setThread, setPool]
    have hn : s'.nthreads = s.nthreads + 1 := by subst he; simp [stepFrame, hp, setThread, setPool]
    have hpool : poolTerm s' = poolTerm s := by
      subst he; simp [stepFrame, hp, setThread, setPool, poolTerm, poolw]
    have hself : s'.threads t = some (th.cont [.runSpawned s.nthreads]) := by
      subst he; simp [stepFrame, hp, setThread, setPool, upd]
    have hnew : s'.threads s.nthreads = some { stack := [.tStart, .wPop1], isWorker := true } := by
      subst he; simp [stepFrame, hp, setThread, setPool, upd, Ne.symm htne]
    have hoth : ∀ u, u ≠ t → u ≠ s.nthreads → s'.threads u = s.threads u := by
      intro u h1 h2; subst he; simp [stepFrame, hp, setThread, setPool, upd, h1, h2]
    have heq := lev1_spawn_eq ht hth hcfg hn hself hnew hoth hpool
    simp [thw, hst, Thread.cont, w1, wonOf, ringOf] at heq
    omega

end Nstd.Future
