/-
  Simulation of the ring system by the full Future/ThreadPool model, part 4:
  per-frame facts for the join reasoning "after `~ThreadPool` (`dFin`) no pool is created again":
  main-thread frames sit at the bottom of a stack, non-client code never reaches client code,
  `clientTids` grows only in `mSpawn`, signal 0 dies only in `dFin`.
-/
import Nstd.Future.SimRing1
set_option linter.unusedSimpArgs false
namespace Nstd.Future

/-- frames of the main thread's own code (always the bottom frame of its stack) -/
def bottomFr : Frame → Bool
  | .mInit | .mSpawn _ | .mSpawned _ _ | .mJoin _ | .mDel
  | .dPush _ | .dChk1 _ | .dPush2 _ | .dChk2 _ | .dSet _ | .dJoin _ | .dFin => true
  | _ => false

/-- code that is not client code (and never calls client code): signals, queue, worker, proc, main -/
def ncFr : Frame → Bool
  | .sSetLock _ | .sSetStore _ | .sSetUnlock _ | .sSetBcast _ _ | .sRstLock _ | .sRstStore _ | .sRstUnlock _
  | .sWaitLock _ | .sWaitChk _ | .sWaitUnlock _ | .sWaitCwait _ | .sWaitCwake _ | .sWaitRelock _ => true
  | .fSet _ | .fRst _ | .fRstLoad _ | .fWait _ | .ring _ => true
  | .wPop1 | .wChk1 | .wPop2 | .wChk2 | .wDeq | .wDispatch | .wAdd | .wTerm => true
  | .pCall _ | .pBody _ | .pStore _ | .pSetRd _ | .pSetX _ _ | .pSig _ | .pDelete _ => true
  | .mInit | .mSpawn _ | .mSpawned _ _ | .mJoin _ | .mDel
  | .dPush _ | .dChk1 _ | .dPush2 _ | .dChk2 _ | .dSet _ | .dJoin _ | .dFin | .tStart | .tExit => true
  | _ => false

def NoBot (l : List Frame) : Prop := ∀ f ∈ l, bottomFr f = false
def AllNC (l : List Frame) : Prop := ∀ f ∈ l, ncFr f = true
/-- main frames only as the last (bottom) frame -/
def BotOnly (l : List Frame) : Prop := NoBot l.dropLast

theorem noBot_nil : NoBot [] := by intro f hf; cases hf
theorem noBot_cons {a : Frame} {l : List Frame} : NoBot (a :: l) ↔ bottomFr a = false ∧ NoBot l := by
  simp [NoBot]
theorem allNC_nil : AllNC [] := by intro f hf; cases hf
theorem allNC_cons {a : Frame} {l : List Frame} : AllNC (a :: l) ↔ ncFr a = true ∧ AllNC l := by
  simp [AllNC]
theorem botOnly_nil : BotOnly [] := by simp [BotOnly, noBot_nil]
theorem botOnly_singleton (a : Frame) : BotOnly [a] := by simp [BotOnly, noBot_nil]
theorem botOnly_cons_of {a : Frame} {l : List Frame} (h : bottomFr a = false) :
    BotOnly (a :: l) ↔ BotOnly l := by
  cases l with
  | nil => simp [botOnly_nil, botOnly_singleton]
  | cons b l => simp [BotOnly, List.dropLast, noBot_cons, h]
theorem botOnly_cons_bot {a : Frame} {l : List Frame} (h : bottomFr a = true) (hb : BotOnly (a :: l)) :
    l = [] := by
  cases l with
  | nil => rfl
  | cons b l =>
    simp only [BotOnly, List.dropLast, noBot_cons] at hb
    rw [h] at hb; cases hb.1
theorem botOnly_cons_iff {a : Frame} {l : List Frame} :
    BotOnly (a :: l) ↔ l = [] ∨ (bottomFr a = false ∧ BotOnly l) := by
  cases l with
  | nil => simp [botOnly_singleton]
  | cons b l => simp [BotOnly, List.dropLast, noBot_cons]
theorem NoBot.botOnly {l : List Frame} (h : NoBot l) : BotOnly l :=
  fun f hf => h f (List.dropLast_subset l hf)
theorem BotOnly.tail {l : List Frame} (h : BotOnly l) : BotOnly l.tail := by
  cases l with
  | nil => exact botOnly_nil
  | cons a l =>
    cases l with
    | nil => exact botOnly_nil
    | cons b l =>
      simp only [BotOnly, List.dropLast, noBot_cons] at h
      exact h.2

/-- every frame of `l` is a non-main frame or was already below the top frame -/
def OkNew (rest l : List Frame) : Prop := ∀ f ∈ l, bottomFr f = false ∨ f ∈ rest
theorem okNew_nil (rest : List Frame) : OkNew rest [] := by intro f hf; cases hf
theorem okNew_self (rest : List Frame) : OkNew rest rest := fun _ hf => Or.inr hf
theorem okNew_cons {rest l : List Frame} {a : Frame} :
    OkNew rest (a :: l) ↔ (bottomFr a = false ∨ a ∈ rest) ∧ OkNew rest l := by
  simp [OkNew]

structure Shape4 (s s' : State) (t : Tid) (fr : Frame) (rest : List Frame) : Prop where
  ct : s'.clientTids = s.clientTids ∨ (∃ i, fr = .mSpawn i) ∧ s'.clientTids = s.clientTids ++ [s.nthreads] ∧
      (s'.threads s.nthreads).isSome = true
  others : ∀ u, u ≠ t → s'.threads u = s.threads u ∨
      (u = s.nthreads ∧ ∃ thw, s'.threads u = some thw ∧ thw.finished = false ∧
        (thw.stack = [.tStart, .wPop1] ∨
          (thw.stack = [.tStart, .cNext] ∧ s'.clientTids = s.clientTids ++ [s.nthreads])))
  bot : BotOnly (fr :: rest) → ∃ th', s'.threads t = some th' ∧ BotOnly th'.stack
  nobot : NoBot (fr :: rest) → ∃ th', s'.threads t = some th' ∧ NoBot th'.stack
  newFr : bottomFr fr = false → ∃ th', s'.threads t = some th' ∧ OkNew rest th'.stack
  nc : AllNC (fr :: rest) → ∃ th', s'.threads t = some th' ∧ AllNC th'.stack
  liveKeep : fr ≠ .dFin → (s.sigs 0).live = true → (s'.sigs 0).live = true
  poolNone : fr ≠ .mInit → (∀ c, fr ≠ .cRdTp2 c) → s.pool = none → s'.pool = none

set_option maxHeartbeats 8000000 in
theorem shape4 (s : State) (t : Tid) (th : Thread) (fr : Frame) (rest : List Frame)
    (hth : s.threads t = some th) (hst : th.stack = fr :: rest) :
    Shape4 s (stepFrame s t th fr).1 t fr rest := by
  cases fr <;> simp only [stepFrame] <;> repeat' split
  all_goals
    constructor
    · simp [setThread, setSig, setPool, setFut, withFault, destroySig, upd]
      try (split <;> rfl)
    · intro u hu
      simp [setThread, setSig, setPool, setFut, withFault, destroySig, upd_ne _ _ hu]
      try (by_cases hw : u = s.nthreads
           · right; subst hw; exact ⟨rfl, _, by rw [upd_same], rfl, by simp⟩
           · left; exact upd_ne _ _ hw)
    · intro hb
      first
        | (have hr := botOnly_cons_bot (a := _) rfl hb; subst hr)
        | (rw [botOnly_cons_of rfl] at hb)
      simp [setThread, setSig, setPool, setFut, withFault, destroySig, upd_same, Thread.cont, hst, hth, hb,
        bottomFr, botOnly_cons_iff, botOnly_nil]
    · intro hb
      rw [noBot_cons] at hb
      simp [setThread, setSig, setPool, setFut, withFault, destroySig, upd_same, Thread.cont, hst, hth, hb,
        bottomFr, noBot_cons, noBot_nil]
      try (simp [bottomFr] at hb; done)
    · intro hb
      simp [setThread, setSig, setPool, setFut, withFault, destroySig, upd_same, Thread.cont, hst, hth,
        bottomFr, okNew_cons, okNew_self, okNew_nil]
      try (simp [bottomFr] at hb; done)
    · intro hb
      rw [allNC_cons] at hb
      simp [setThread, setSig, setPool, setFut, withFault, destroySig, upd_same, Thread.cont, hst, hth, hb,
        ncFr, allNC_cons, allNC_nil]
      try (simp [ncFr] at hb; done)
    · simp [setThread, setSig, setPool, setFut, withFault, destroySig, upd]
      try grind
    · simp [setThread, setSig, setPool, setFut, withFault, destroySig, setPool]
      try (intros; simp_all; done)

end Nstd.Future
