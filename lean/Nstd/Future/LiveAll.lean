import Nstd.Future.LiveGlue
import Nstd.Future.LiveJoin
import Nstd.Future.LiveShutdown
/-
  Composition of the side theorems of deadlock freedom (repaired code, well-formed configurations).
-/
namespace Nstd.Future

/-- the join side without the "nobody sleeps on the dequeued signal" proviso: that case is the producer side -/
theorem joinSide_holds {cfg : Config} (hrep : cfg.repaired = true) (hwf : cfg.WellFormed) : JoinSide cfg := by
  intro s h hsl hw
  cases Classical.em (∃ t, asleepOnDeq s t) with
  | inl hd =>
    obtain ⟨w, hww⟩ := hw
    obtain ⟨p, hp⟩ := lg_live_worker_pool h hww
    exact no_stuck_sleeper_on_deq hrep h hp hd ⟨w, hww⟩
  | inr hd => exact no_stuck_join_side hrep hwf h hsl hw hd

/-- never deadlocked while a worker thread is alive, given the shutdown side -/
theorem no_stuck_while_a_worker_lives_of_shutdown {cfg : Config} {s : State} (hrep : cfg.repaired = true)
    (hwf : cfg.WellFormed) (hs : ShutdownSide cfg) (h : Reach cfg s) (hw : ∃ w, liveWorker s w) :
    ∃ t, enabled s t = true :=
  no_stuck_while_a_worker_lives_of hrep (joinSide_holds hrep hwf) hs h hw

theorem shutdownSide_holds {cfg : Config} (hrep : cfg.repaired = true) : ShutdownSide cfg :=
  fun _ h hd => no_stuck_shutdown_side hrep h hd

/-- THE REPAIRED SYSTEM IS NEVER DEADLOCKED WHILE A WORKER THREAD IS ALIVE (every schedule, any number of threads,
    any capacity; each future used by one client thread) -/
theorem no_stuck_while_a_worker_lives {cfg : Config} {s : State} (hrep : cfg.repaired = true) (hwf : cfg.WellFormed)
    (h : Reach cfg s) (hw : ∃ w, liveWorker s w) : ∃ t, enabled s t = true :=
  no_stuck_while_a_worker_lives_of hrep (joinSide_holds hrep hwf) (shutdownSide_holds hrep) h hw

end Nstd.Future
