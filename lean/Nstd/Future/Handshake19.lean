/-
  Completion handshake of a Future, part 19: the second layer holds in every reachable state; the handshake
  theorems relative to the executor facts `ExecFacts`.
-/
import Nstd.Future.Handshake18
set_option linter.unusedSimpArgs false
set_option linter.unusedVariables false
namespace Nstd.Future

theorem hs2_step {cfg : Config} {s s' : State} {t : Tid} {o : List String}
    (hS : SimInv cfg s) (h0 : Inv0 s) (hX : ExecFacts s) (hH : HsInv s) (hI : HsInv2 s)
    (h : step s t = some (s', o)) : HsInv2 s' := by
  obtain ⟨th, fr, rest, hth, hst, hnf, hblk, rfl⟩ := step_inv2 h
  by_cases hq : quiet2 fr = true
  · exact hs2_quiet hS h0 hX hI hth hst hq
  · cases fr with
    | pStore c => exact hs2_pStore hS h0 hX hH hI hth hst
    | pSetRd c => exact hs2_pSetRd hS h0 hX hH hI hth hst
    | pSetX c ab => exact hs2_pSetX hS h0 hX hH hI hth hst
    | cArm c => exact hs2_cArm hS h0 hX hH hI hth hst
    | joinClr f => exact hs2_joinClr hS h0 hI hth hst
    | destroyF f => exact hs2_destroyF hS h0 hX hH hI hth hst
    | cNext => exact hs2_cNext hS h0 hX hI hth hst
    | _ => exact absurd rfl hq

theorem hs2_init (cfg : Config) : HsInv2 (State.init cfg) := by
  have htop : ∀ u x, TopIs (State.init cfg) u x → x = .mInit := by
    rintro u x ⟨thu, h1, h2⟩
    simp only [State.init] at h1
    split at h1
    · injection h1 with h1; subst h1; simp at h2; exact h2.symm
    · cases h1
  constructor
  · intro f c h; cases h
  · intro f c r h; cases h
  · intro u c r h; cases htop u _ h
  · intro u c ab r h; cases htop u _ h

theorem reach_hs2 {cfg : Config} (hwf : cfg.WellFormed) (hex : ∀ s, Reach cfg s → ExecFacts s)
    {s : State} (h : Reach cfg s) : HsInv2 s := by
  induction h with
  | init => exact hs2_init cfg
  | step t hr hs ih =>
    exact hs2_step (reach_inv hr) (reach_inv0 hr) (hex _ hr) (reach_hs hwf hex hr) ih hs

/-- the value `result()` reads (after its `join()`) is the value returned by the body of the call started last -/
theorem result_is_return_value_of {cfg : Config} {s : State} {t : Tid} {f c : Nat} {r : CallRec}
    (hwf : cfg.WellFormed) (hex : ∀ s, Reach cfg s → ExecFacts s) (h : Reach cfg s)
    (htop : topFrame s t = some (.evResult f)) (hf : f < 8) (hc : (s.futs f).curCall = some c)
    (hr : s.everCalls c = some r) : (s.futs f).result = some (r.a * 100 + r.b) := by
  have hH := reach_hs hwf hex h
  have hj : jn s f = false := hH.top t .after f ⟨_, role_of_topFrame htop, rfl⟩
  have hcc := hH.g2 f hj c hc
  obtain ⟨r0, h1, h2⟩ := (reach_inv0 h).curLt f c hc
  rw [hr] at h1; injection h1 with h1; subst h1
  have := (reach_hs2 hwf hex h).res f c r hc hcc hr
  rw [← h2] at hf ⊢; exact this hf

/-- after a join the state of the future is finished or aborted; aborted only if `abort()` was called since the start -/
theorem state_after_join_of {cfg : Config} {s : State} {f c : Nat}
    (hwf : cfg.WellFormed) (hex : ∀ s, Reach cfg s → ExecFacts s) (h : Reach cfg s)
    (hj : (s.futs f).joinable = false) (hc : (s.futs f).curCall = some c) :
    ((s.futs f).state = 2 ∨ (s.futs f).state = 3) ∧ ((s.futs f).state = 3 → (s.futs f).abortReq = true) :=
  (reach_hs2 hwf hex h).st f c hc ((reach_hs hwf hex h).g2 f hj c hc)

end Nstd.Future
