/-
  FIFO potential of a queued ticket (`spPot`), part 3: the potential across one step of the repaired model
  (`spp_pot_plain`, `spp_pot_ring`, `spp_pot_create`).
-/
import Nstd.Future.LiveSpawnP1
import Nstd.Future.LiveSpawnP2
set_option linter.unusedSimpArgs false
set_option linter.unusedVariables false
namespace Nstd.Future.SPP

open LS SP

open Classical in
/-- FIFO potential of ticket `x`: `_threadCount` (0 once the destructor has left its push loop) + terminate tickets
    `≥ x` in the push log − O-weight (retire jobs in flight, terminate jobs queued by the destructor loop) -/
noncomputable def spPot (s : State) (p : Pool) (x : Nat) : Int :=
  ((if lsDone s then 0 else p.threadCount : Nat) : Int) + (LS.lsTq x p.ring.pushLog : Int)
    - (tsum s.nthreads (SP.spOAt s) : Int)

theorem spPot_done {s : State} (p : Pool) (x : Nat) (h : lsDone s) :
    spPot s p x = (LS.lsTq x p.ring.pushLog : Int) - (tsum s.nthreads (SP.spOAt s) : Int) := by
  simp only [spPot, if_pos h]; omega

theorem spPot_notDone {s : State} (p : Pool) (x : Nat) (h : ¬ lsDone s) :
    spPot s p x = (p.threadCount : Int) + (LS.lsTq x p.ring.pushLog : Int) - (tsum s.nthreads (SP.spOAt s) : Int) := by
  simp only [spPot, if_neg h]

theorem sppOVal_fresh_worker : spOVal (some { stack := [.tStart, .wPop1], isWorker := true }) = 0 := by
  simp [spOVal, spOW, spOFr, lsRingOf]

theorem sppOVal_fresh_client (sc : List ClientOp) : spOVal (some { stack := [.tStart, .cNext], script := sc }) = 0 := by
  simp [spOVal, spOW, spOFr, lsRingOf]

/-! ### a step of a frame that neither is a `push`/`pop` frame nor creates the pool -/

theorem spp_pot_plain {cfg : Config} {s : State} {t : Tid} {th : Thread} {fr : Frame} {rest : List Frame}
    {p p' : Pool} {x : Nat}
    (hrep : cfg.repaired = true) (hr : Reach cfg s) (hI : LseInv s)
    (hth : s.threads t = some th) (hst : th.stack = fr :: rest) (hfin : th.finished = false)
    (hnr : lsRingOf fr = none) (hni : fr ≠ .mInit) (hnc : ∀ c, fr = .cRdTp2 c → s.tp = true)
    (hp : s.pool = some p) (hp' : (stepFrame s t th fr).1.pool = some p') :
    spPot s p x ≤ spPot (stepFrame s t th fr).1 p' x := by
  have hrep' : s.cfg.repaired = true := by rw [reach_cfg hr]; exact hrep
  have htlt := ls_thread_lt hr hth
  have hK := LW.shapeK s t th fr rest hth hst hrep'
  have hN := lsShapeN s t th fr rest hth hst hnr hrep' (Nat.ne_of_gt htlt) hni hnc
  have hcb : lseC fr = true → LsAllB rest := by
    have := hI.cb t th hth; rw [hst] at this; exact this.1
  have htc : fr = .runRetAfter → th.retB = true → 0 < lsTc s := by
    intro hfr _
    subst hfr
    have := hI.r p t hp (by simp [lsRaAt, hth, hst, lsRA])
    simp only [lsTc, hp]; omega
  have hE := lseShapeN s t th fr rest hth hst hnr hrep' hni hnc hcb htc
  have h0 : fr = .tExit → ∀ rb ab, spOStk rb ab rest = 0 :=
    fun h rb ab => sppOStk_base rb ab (hcb (by subst h; simp [lseC]))
  have hD0 : fr = .tExit → lsum lsDJ rest = 0 := fun h => lsDJ_base (hcb (by subst h; simp [lseC]))
  have hsome : (stepFrame s t th fr).1.pool.isSome = true := by rw [hp']; rfl
  have h1 := sppShape1 s t th fr rest hth hst hnr hrep' hni hnc h0 htc hsome
  have h2 := sppShape2 s t th fr rest hth hst hnr hrep' hni hnc h0 hsome
  have h3 := sppShape3 s t th fr rest hth hst hnr hrep' hni hnc h0 hD0 hsome
  simp only [lsTc, hp, hp'] at h1 h3
  have hring : p'.ring = p.ring := by
    rcases hN.ring with h | h
    · rw [hp'] at h; cases h
    · simpa [lsRing, hp, hp'] using h
  have hoth : ∀ u, u < s.nthreads → u ≠ t → spOAt (stepFrame s t th fr).1 u = spOAt s u := by
    intro u hu hne
    simp only [spOAt]
    rcases hK.others u hne with h2 | ⟨h2, _⟩
    · rw [h2]
    · have : (u : Nat) = s.nthreads := h2
      omega
  have hn : (stepFrame s t th fr).1.nthreads = s.nthreads ∨ (stepFrame s t th fr).1.nthreads = s.nthreads + 1 := by
    rcases hN.nth with h | ⟨h, _⟩
    · exact Or.inl h
    · exact Or.inr h
  have hsum := ls_sum (s := s) (s' := (stepFrame s t th fr).1) (f := spOAt s)
    (g := spOAt (stepFrame s t th fr).1) htlt hoth hn
  have hnw : (if (stepFrame s t th fr).1.nthreads = s.nthreads then 0
      else spOAt (stepFrame s t th fr).1 s.nthreads) = 0 := by
    split
    · rfl
    · rcases hK.others s.nthreads (Nat.ne_of_gt htlt) with h | ⟨_, h | ⟨sc, h⟩⟩
      · simp only [spOAt, h, (reach_inv hr).fresh _ (Nat.le_refl _)]; rfl
      · simp only [spOAt, h, sppOVal_fresh_worker]
      · simp only [spOAt, h, sppOVal_fresh_client]
  rw [hnw] at hsum
  have hdk : lsDone s → lsDone (stepFrame s t th fr).1 := by
    rintro ⟨u, thu, hthu, hdj1⟩
    by_cases hu : u = t
    · subst hu
      have := hE.dk hsome (by simpa [lsDjAt, hthu] using hdj1)
      simp only [lsDjAt] at this
      cases hth' : (stepFrame s u th fr).1.threads u with
      | none => rw [hth'] at this; simp at this
      | some th' => rw [hth'] at this; exact ⟨u, th', hth', this⟩
    · exact ⟨u, thu, LW.step_keep hr hth hst hrep' u thu hu hthu, hdj1⟩
  have hdd : lsDone (stepFrame s t th fr).1 → ¬ lsDone s →
      spOAt (stepFrame s t th fr).1 t + p.threadCount ≤ spOAt s t := by
    intro hd' hds
    rcases ls_done_cases hK hd' with h | h
    · exact absurd h hds
    · rcases h3 h with h4 | h4
      · exact absurd ⟨t, th, hth, by simpa [lsDjAt, hth] using h4⟩ hds
      · exact h4
  by_cases hds : lsDone s
  · rw [spPot_done p x hds, spPot_done p' x (hdk hds), hring]
    omega
  · by_cases hds' : lsDone (stepFrame s t th fr).1
    · have := hdd hds' hds
      rw [spPot_notDone p x hds, spPot_done p' x hds', hring]
      omega
    · rw [spPot_notDone p x hds, spPot_notDone p' x hds', hring]
      omega

/-! ### a `push`/`pop` micro-step -/

theorem spp_pot_ring {cfg : Config} {s : State} {t : Tid} {th : Thread} {pc : RingPc Job} {rest : List Frame}
    {p p' : Pool} {x : Nat}
    (hrep : cfg.repaired = true) (hr : Reach cfg s) (hI : LseInv s)
    (hth : s.threads t = some th) (hst : th.stack = .ring pc :: rest) (hp : s.pool = some p)
    (hp' : (stepFrame s t th (.ring pc)).1.pool = some p') (hx : x ≤ p.ring.pushLog.length) :
    spPot s p x ≤ spPot (stepFrame s t th (.ring pc)).1 p' x := by
  have hrep' : s.cfg.repaired = true := by rw [reach_cfg hr]; exact hrep
  have htlt := ls_thread_lt hr hth
  have hK := LW.shapeK s t th (.ring pc) rest hth hst hrep'
  have hadj := (LW.stk_reach hrep hr).adj t th hth
  rw [hst] at hadj
  have hcall0 : LW.callerOk pc rest.head? = true := hadj.1
  obtain ⟨c, rest2, hrest⟩ : ∃ c rest2, rest = c :: rest2 := by
    cases rest with
    | nil => simp [LW.callerOk] at hcall0
    | cons c rest2 => exact ⟨c, rest2, rfl⟩
  subst hrest
  have hcall : LW.callerOk pc (some c) = true := hcall0
  have hpay : lsePayC pc (some c) = true := by
    have := hI.pay t th hth; rw [hst] at this; exact this.1
  have hallB : LsAllB rest2 := by
    have := hI.cb t th hth; rw [hst] at this
    exact this.2.1 (by simp [lseC, lsC_of_caller hcall])
  obtain ⟨th', h1, h2, h3, h4, h5, h6⟩ := ls_ring_desc s t th pc (c :: rest2) p hp hst
  have hthr : ∀ u, u ≠ t → (stepFrame s t th (.ring pc)).1.threads u = s.threads u := by
    intro u hu; rw [h1, upd_ne _ _ hu]
  have hdj : lsDjAt (stepFrame s t th (.ring pc)).1 t = lsDjAt s t := by
    simp only [lsDjAt, h1, upd_same, hth, h6, hst]
    exact lsum_afterStk (fun _ => rfl) _ pc _
  have hdone : lsDone (stepFrame s t th (.ring pc)).1 ↔ lsDone s := by
    constructor
    · intro hd
      rcases ls_done_cases hK hd with hd | hd
      · exact hd
      · rw [hdj] at hd; exact ⟨t, th, hth, by simpa [lsDjAt, hth] using hd⟩
    · rintro ⟨u, thu, hthu, hd⟩
      by_cases hu : u = t
      · subst hu
        have : 1 ≤ lsDjAt s u := by simpa [lsDjAt, hthu] using hd
        rw [← hdj] at this
        simp only [lsDjAt, h1, upd_same] at this
        exact ⟨u, th', by rw [h1, upd_same], this⟩
      · exact ⟨u, thu, by rw [hthr u hu]; exact hthu, hd⟩
  rw [h2] at hp'; injection hp' with hp'; subst hp'
  have hpure := spp_ring_pure p.ring pc c th.retB th.retJob x hcall hpay hx
  have ha : spOAt s t = spOFr th.retB (some pc) c := by
    simp [spOAt, spOVal, hth, spOW, hst, sppOFr_ring, lsRingOf, sppOStk_base _ _ hallB]
  have ha' : spOAt (stepFrame s t th (.ring pc)).1 t =
      spOFr (lsAfter th.retB th.retJob (ringStep p.ring pc).2).1
        (lsAfter th.retB th.retJob (ringStep p.ring pc).2).2.2 c := by
    simp only [spOAt, h1, upd_same, spOVal, spOW, h4, h6]
    cases hres : (ringStep p.ring pc).2 with
    | cont pc' => simp [lsAfter, lsAfterStk, sppOFr_ring, lsRingOf, sppOStk_base _ _ hallB]
    | pushed ok => simp [lsAfter, lsAfterStk, sppOFr_ring, lsRingOf, sppOStk_base _ _ hallB]
    | popped x =>
      rcases x with _ | _ | j <;> simp [lsAfter, lsAfterStk, sppOFr_ring, lsRingOf, sppOStk_base _ _ hallB]
  have hoth : ∀ u, u < s.nthreads → u ≠ t → spOAt (stepFrame s t th (.ring pc)).1 u = spOAt s u := by
    intro u hu hne
    simp only [spOAt, h1, upd_ne _ _ hne]
  have hsum := ls_sum (s := s) (s' := (stepFrame s t th (.ring pc)).1) (f := spOAt s)
    (g := spOAt (stepFrame s t th (.ring pc)).1) htlt hoth (Or.inl h3)
  rw [if_pos h3] at hsum
  by_cases hds : lsDone s
  · rw [spPot_done p x hds, spPot_done _ x (hdone.mpr hds)]
    simp only []
    omega
  · rw [spPot_notDone p x hds, spPot_notDone _ x (fun h => hds (hdone.mp h))]
    simp only []
    omega

/-! ### the step `cRdTp2` with `tp = false` while a (fresh) pool exists -/

theorem spp_pot_zero {s s' : State} {p p' : Pool} {x : Nat}
    (hI' : LseInv s') (hp : s.pool = some p) (hp' : s'.pool = some p')
    (hlog : p.ring.pushLog = []) (htc : p.threadCount = 0) (htc' : p'.threadCount = 0) :
    spPot s p x ≤ spPot s' p' x := by
  have hz : tsum s'.nthreads (spOAt s') = 0 := by
    apply tsum_zero_of
    intro u _
    have h1 := sppOAt_le s' u
    have h2 := hI'.l p' u hp'
    have h3 : lsRaAt s' u = 0 := by
      cases Nat.eq_zero_or_pos (lsRaAt s' u) with
      | inl h => exact h
      | inr h => have := hI'.r p' u hp' h; omega
    omega
  have hq : lsTq x p.ring.pushLog = 0 := by rw [hlog]; simp [lsTq, lsCnt]
  have e1 : spPot s p x ≤ 0 := by
    unfold spPot; split <;> omega
  have e2 : 0 ≤ spPot s' p' x := by
    unfold spPot; split <;> omega
  omega

end Nstd.Future.SPP
