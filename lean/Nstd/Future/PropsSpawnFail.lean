import Nstd.Future.SpawnFailLemmas
import Nstd.Future.Handshake
/-
  Property C10 with a FAILING creation of pool workers (round 3).  `Thread::start` returning false in `ThreadPool::run`
  (src/Future.cpp: `if(!context->_thread.start(..)) context->_terminated = true;`) is an environment choice of the extended
  system `XReach` (`SpawnFail.lean`): at every creation of a worker the environment may refuse; `_threadCount` stays
  incremented, the job stays queued, the refused thread never runs.

  What holds (all schedules, all failure patterns, any number of threads / capacity):   the SAFETY clauses of C10.
  What fails:  the LIVENESS clause (`join_eventually`) — when no worker can be created nobody serves the queue, `join()` waits
  forever (`join_eventually_fails_when_no_worker_can_be_created`); and, because nothing undoes `++_threadCount`, `~ThreadPool`
  queues a terminate job for every thread that never existed and waits forever for a slot once the queue is full
  (`destructor_hangs_after_failed_creations`).  Both schedules come from runs of the REAL pool under the controlled scheduler with a
  failing `pthread_create` (corpus/C10/spawn-failure-*.txt) and are kernel-evaluated here.
-/
namespace Nstd.Future.C10

/-- Every state the pool reaches with failing thread creations is a reachable state of the model in which the refused
    threads are simply never scheduled: all theorems over `Reach` (Props.lean) apply to it. -/
theorem failing_thread_creation_is_a_reachable_state {cfg : Config} {x : XState} (h : XReach cfg x) : Reach cfg x.s :=
  xreach_reach h

/-- The encoding is faithful about the refused thread: in every later state it is still the untouched record of a new
    worker — it cannot be scheduled and is inside no call. -/
theorem failed_thread_never_runs {cfg : Config} {x : XState} (h : XReach cfg x) {w : Tid} (hw : w ∈ x.dead) :
    x.s.threads w = some freshWorker ∧ xenabled x w = false ∧ ∀ c, ¬ executes x.s w c := by
  have hth := dead_fresh h w hw
  refine ⟨hth, ?_, ?_⟩
  · simp [xenabled, hw]
  · intro c ⟨th, hth', fr, hfr, hp⟩
    rw [hth] at hth'; injection hth' with hth'; subst hth'
    simp only [freshWorker, List.mem_cons, List.not_mem_nil, or_false] at hfr
    rcases hfr with rfl | rfl <;> simp [inProc] at hp

/-- `exactly_once` / "with the arguments given" with failing thread creations: at most one execution, by an existing worker
    thread (never by a refused one), one executor, completed ⇒ executed exactly once, body arguments = `start` arguments. -/
theorem exactly_once_with_failing_thread_creation {cfg : Config} {x : XState} (h : XReach cfg x) (c : Nat) :
    x.s.execCount c ≤ 1 ∧
    (∀ t, executes x.s t c → t ∉ x.dead ∧ ∃ th, x.s.threads t = some th ∧ th.isWorker = true) ∧
    (∀ t u, executes x.s t c → executes x.s u c → t = u) ∧
    (x.s.completed c = true → x.s.execCount c = 1) ∧
    (∀ a b, x.s.execArgs c = some (a, b) → ∃ r, x.s.everCalls c = some r ∧ r.a = a ∧ r.b = b) :=
  have hr := xreach_reach h
  ⟨exec_at_most_once hr c,
   fun _ he => ⟨fun hd => (failed_thread_never_runs h hd).2.2 c he, exec_by_worker hr he⟩,
   fun _ _ ht hu => executor_unique hr ht hu,
   fun hc => completed_exec_once hr hc,
   fun _ _ he => exec_args_are_start_args hr he⟩

/-- `join_after_completion` with failing thread creations: a `join()` that returns has waited for the call's body, result store
    and state publication, and the body ran exactly once.  (A join may never return: see below.) -/
theorem join_after_completion_with_failing_thread_creation {cfg : Config} {x : XState} (hwf : cfg.WellFormed)
    (h : XReach cfg x) {t : Tid} {f c : Nat} (htop : topFrame x.s t = some (.joinClr f))
    (hc : (x.s.futs f).curCall = some c) : x.s.completed c = true ∧ x.s.execCount c = 1 :=
  join_after_completion_once hwf (xreach_reach h) htop hc

/-- result conversion and flags after join with failing thread creations -/
theorem result_and_state_with_failing_thread_creation {cfg : Config} {x : XState} (hwf : cfg.WellFormed)
    (h : XReach cfg x) {f c : Nat} (hc : (x.s.futs f).curCall = some c) :
    (∀ t r, topFrame x.s t = some (.evResult f) → f < 8 → x.s.everCalls c = some r →
        (x.s.futs f).result = some (r.a * 100 + r.b)) ∧
    ((x.s.futs f).joinable = false →
        ((x.s.futs f).state = 2 ∨ (x.s.futs f).state = 3) ∧ ((x.s.futs f).state = 3 → (x.s.futs f).abortReq = true)) :=
  ⟨fun _ _ htop hf hr => Nstd.Future.result_is_return_value hwf (xreach_reach h) htop hf hc hr,
   fun hj => Nstd.Future.state_after_join hwf (xreach_reach h) hj hc⟩

/-- record lifetime with failing thread creations: freed at most once, no use after delete, no other model fault -/
theorem record_lifetime_with_failing_thread_creation {cfg : Config} {x : XState} (h : XReach cfg x) (c : Nat) :
    x.s.freeCount c ≤ 1 ∧ x.s.fault = none :=
  ⟨call_record_freed_once (xreach_reach h) c, no_fault (xreach_reach h)⟩

theorem sfJoinCfg_wf : sfJoinCfg.WellFormed := by
  constructor
  · intro i j si sj hi hj hij
    rcases i with _ | i <;> rcases j with _ | j <;> simp [sfJoinCfg] at hi hj
    exact absurd rfl hij
  · decide

/-- NEGATION of `join_eventually` once thread creation may fail (any repair of the library leaves this: `start()` has no way to
    report the failure and nobody else may run the call): `Future<int> f; f.start(..); f.join();` on an empty pool whose first
    worker is refused ends with the job queued, `_threadCount = 1`, no worker, the client asleep in `join()` and no thread able
    to step.  The liveness clause of C10 therefore carries the hypothesis "worker threads can be created". -/
theorem join_eventually_fails_when_no_worker_can_be_created :
    ∃ x, XReach sfJoinCfg x ∧ sfJoinCfg.repaired = true ∧ sfJoinCfg.WellFormed ∧
      (∀ t, t < x.s.nthreads → xenabled x t = false) ∧ clientAsleepInJoin x.s 1 0 = true ∧
      x.s.nextCall = 1 ∧ x.s.execCount 0 = 0 ∧ queuedJobs x.s = 1 ∧ poolThreadCount x.s = 1 ∧ x.dead = [2] := by
  have h := sfJoin_check
  unfold sfJoinCheck at h
  cases hr : xrun 1 { s := State.init sfJoinCfg } sfJoinSched with
  | none => rw [hr] at h; exact absurd h (by decide)
  | some x =>
    rw [hr] at h
    simp only [Bool.and_eq_true, beq_iff_eq] at h
    obtain ⟨⟨⟨⟨⟨⟨⟨h1, h2⟩, h3⟩, h4⟩, h5⟩, h6⟩, h7⟩, _⟩ := h
    refine ⟨x, xrun_reach XReach.init hr, rfl, sfJoinCfg_wf, ?_, h2, h3, h4, h5, h6, h7⟩
    intro t ht
    simp only [xAllBlocked, List.all_eq_true, List.mem_range, Bool.not_eq_eq_eq_not, Bool.not_true] at h1
    exact h1 t ht

/-- The count leak of the failing branch (`_threadCount` is incremented under the mutex before `Thread::start` and never
    decremented when the start fails): two clients, three calls, queue size 1, the second and third worker refused.  All three
    calls are executed exactly once, completed and freed, every client has finished — and `~ThreadPool`, which queues one
    terminate job per counted thread (`_threadCount = 3`, one real worker), sleeps forever in `_dequeuedSignal.wait()` for a free
    slot: no thread can step.  (A finding outside the quantifier of C10 — the property does not range over refused thread
    creations — recorded with the proposed repair in docs/future.md.) -/
theorem destructor_hangs_after_failed_creations :
    ∃ x, XReach sfDtorCfg x ∧ (∀ t, t < x.s.nthreads → xenabled x t = false) ∧ mainAsleepOnDeq x.s = true ∧
      x.s.nextCall = 3 ∧ allCallsDone x.s = true ∧ clientsFinished x.s = true ∧ poolThreadCount x.s = 3 ∧
      liveRealWorkers x = 0 ∧ x.dead.length = 2 := by
  have h := sfDtor_check
  unfold sfDtorCheck at h
  cases hr : xrun 6 { s := State.init sfDtorCfg } sfDtorSched with
  | none => rw [hr] at h; exact absurd h (by decide)
  | some x =>
    rw [hr] at h
    simp only [Bool.and_eq_true, beq_iff_eq] at h
    obtain ⟨⟨⟨⟨⟨⟨⟨⟨h1, h2⟩, h3⟩, h4⟩, h5⟩, h6⟩, h7⟩, h8⟩, _⟩ := h
    refine ⟨x, xrun_reach XReach.init hr, ?_, h2, h3, h4, h5, h6, h7, h8⟩
    intro t ht
    simp only [xAllBlocked, List.all_eq_true, List.mem_range, Bool.not_eq_eq_eq_not, Bool.not_true] at h1
    exact h1 t ht

/-! ## round 4: the tail rule, finite progress, the REPAIRED failure branch (fixes/future/0006) -/

/-- What the driver replays at the end of a run with refused threads (unrepaired branch) — `Thread::join` of a never-started thread
    returns at once — rewrites the top frame of the joining (main) thread and nothing else: every ghost counter, record, future,
    signal, the pool and every other thread are untouched, so every safety statement above that does not mention the main
    thread's program counter carries over that step unchanged. -/
theorem tail_rule_is_safety_neutral {x x' : XState} {t : Tid} (h : xpass x t = some x') :
    x'.dead = x.dead ∧ x'.s.execCount = x.s.execCount ∧ x'.s.completed = x.s.completed ∧ x'.s.freeCount = x.s.freeCount ∧
    x'.s.execArgs = x.s.execArgs ∧ x'.s.everCalls = x.s.everCalls ∧ x'.s.calls = x.s.calls ∧ x'.s.futs = x.s.futs ∧
    x'.s.sigs = x.s.sigs ∧ x'.s.pool = x.s.pool ∧ x'.s.fault = x.s.fault ∧ x'.s.nextCall = x.s.nextCall ∧
    (∀ u, u ≠ t → x'.s.threads u = x.s.threads u) ∧
    (∃ th i rest, x.s.threads t = some th ∧ th.stack = .dJoin i :: rest) :=
  xpass_changes_only_the_joining_stack h

/-- In the REPAIRED branch the refused context stays in `_threads` as (terminated, never started); `Model.lean`'s own join loop
    passes such a context without blocking and without an operation — the tail of `~ThreadPool` needs no extra rule there. -/
theorem join_loop_skips_never_started_context (s : State) (t : Tid) (th : Thread) (p : Pool) (i : Nat) (c : Ctx)
    (hp : s.pool = some p) (hc : p.ctxs[i]? = some c) (hn : c.tid = none) :
    blockedFrame s t (.dJoin i) = false ∧
    stepFrame s t th (.dJoin i) = (setThread s t (th.cont [if i + 1 < p.ctxs.length then .dJoin (i + 1) else .dFin]), []) :=
  Nstd.Future.join_loop_skips_never_started_context s t th p i c hp hc hn

/-- Positive liveness, the part that survives refused threads: on `XReach` the relation "an ordinary micro-step changes the state" is
    well-founded — with any failure pattern a run makes finitely many state-changing steps (so it ends in a state where no
    existing thread can change anything; WHICH states those are is the open part, see OPEN). -/
theorem finite_progress_with_refused_threads {cfg : Config} (hrep : cfg.repaired = true) : WellFounded (XProgresses cfg) :=
  xprogresses_wf hrep

/-- A run of the repaired system without a refusal is a run of the model, state by state (the repair is invisible then: what the
    2 820 byte-identical `cf=0` traces of original and repaired code show on the real code). -/
theorem repaired_branch_without_refusal_is_the_model {cfg : Config} {x : XState} (h : XReachFix0 cfg x) :
    Reach cfg x.s ∧ x.fixing = [] ∧ x.dead = [] :=
  xreachfix0_reach h

/-- REPAIRED branch: the documented limit stays — first worker refused, reservation undone (`_threadCount = 0`), job queued, client
    asleep in `join()`, nothing can step. -/
theorem repaired_branch_join_still_waits_when_no_worker_can_be_created :
    ∃ x, XReachFix sfJoinCfg x ∧ xAllBlockedF x = true ∧ clientAsleepInJoin x.s 1 0 = true ∧ x.s.execCount 0 = 0 ∧
      queuedJobs x.s = 1 ∧ poolThreadCount x.s = 0 := by
  have h := sfxJoin_check
  unfold sfxJoinCheck at h
  cases hr : xrunFix 1 { s := State.init sfJoinCfg } sfxJoinSched with
  | none => rw [hr] at h; exact absurd h (by decide)
  | some x =>
    rw [hr] at h
    simp only [Bool.and_eq_true, beq_iff_eq] at h
    obtain ⟨⟨⟨⟨⟨⟨h1, h2⟩, h3⟩, h4⟩, h5⟩, _⟩, _⟩ := h
    exact ⟨x, xrunFix_reach XReachFix.init hr, h1, h2, h3, h4, h5⟩

/-- REPAIRED branch, "a later creation succeeds": the first creation is refused, the next `start()` creates the worker; both calls
    are executed exactly once, completed, freed, joined; the pool is deleted; every thread has finished (kernel-evaluated run of
    the repaired real code, 106 scheduler steps). -/
theorem repaired_branch_recovers_when_a_later_creation_succeeds :
    ∃ x, XReachFix sfxRecoverCfg x ∧ allFinished x.s = true ∧ x.s.nextCall = 2 ∧ allCallsDone x.s = true ∧ x.s.pool.isNone = true := by
  have h := sfxRecover_check
  unfold sfxRecoverCheck at h
  cases hr : xrunFix 1 { s := State.init sfxRecoverCfg } sfxRecoverSched with
  | none => rw [hr] at h; exact absurd h (by decide)
  | some x =>
    rw [hr] at h
    simp only [Bool.and_eq_true, beq_iff_eq] at h
    obtain ⟨⟨⟨⟨⟨h1, h2⟩, h3⟩, _⟩, h5⟩, _⟩ := h
    exact ⟨x, xrunFix_reach XReachFix.init hr, h1, h2, h3, h5⟩

/-- REPAIRED branch on the request that hangs the original destructor (`destructor_hangs_after_failed_creations`): the run completes. -/
theorem repaired_branch_destructor_completes :
    ∃ x, XReachFix sfDtorCfg x ∧ allFinished x.s = true ∧ x.s.nextCall = 3 ∧ allCallsDone x.s = true ∧ x.s.pool.isNone = true := by
  have h := sfxDtor_check
  unfold sfxDtorCheck at h
  cases hr : xrunFix 6 { s := State.init sfDtorCfg } sfxDtorSched with
  | none => rw [hr] at h; exact absurd h (by decide)
  | some x =>
    rw [hr] at h
    simp only [Bool.and_eq_true, beq_iff_eq] at h
    obtain ⟨⟨⟨⟨⟨h1, h2⟩, h3⟩, _⟩, h5⟩, _⟩ := h
    exact ⟨x, xrunFix_reach XReachFix.init hr, h1, h2, h3, h5⟩

/-
OPEN:
  * UNREPAIRED failure branch (`XReach`, the code before fixes/future/0006): exact up to the join loop of `~ThreadPool`; the rule the
    driver replays there is proved safety-neutral (`tail_rule_is_safety_neutral`); the steps of the workers that are still finishing
    their terminate jobs AFTER that rule fired are replayed, not proved (it needs "no step of a worker reads the main thread's stack").
  * REPAIRED failure branch (`XReachFix`): modelled (handler pcs outside `Frame`), replayed step by step on the repaired real code
    (510 failing runs, 0 differences), three kernel-evaluated runs above; the SAFETY theorems are NOT transferred to it: while the
    handler runs, `_threadCount` is transiently one too high and other threads branch on it (`runRdTc`), so a repaired run is not a
    run of `Reach` for any schedule, and every invariant proof of the chain takes `Reach` as hypothesis — it needs the three handler
    pcs in `Frame` (rebuild of the chain), which this round was told not to do.  Runs without a refusal are covered
    (`repaired_branch_without_refusal_is_the_model`).
  * positive liveness (`join_eventually` under "a worker exists or a creation eventually succeeds"): NOT proved.  Proved: finite
    progress (`finite_progress_with_refused_threads`); shown on an example (`repaired_branch_recovers_…`).  The obstacle is the same
    in both branches: every deadlock-freedom lemma of the chain concludes "SOME thread is enabled" over `Reach`; in the unrepaired
    encoding the refused thread (a never-scheduled worker at its first frame) is always such a thread, and the repaired runs are
    outside `Reach`.
-/

end Nstd.Future.C10
