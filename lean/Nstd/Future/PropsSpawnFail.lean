import Nstd.Future.SpawnFailLemmas
import Nstd.Future.Handshake
/-
  Property C10 with a FAILING creation of pool workers (round 3).  `Thread::start` returning false in `ThreadPool::run`
  (src/Future.cpp: `if(!context->_thread.start(..)) context->_terminated = true;`) is an environment choice of the extended
  system `XReach` (`SpawnFail.lean`): at every creation of a worker the environment may refuse; `_threadCount` stays
  incremented, the job stays queued, the refused thread never runs.

  What holds (all schedules, all failure patterns, any number of threads / capacity):   the SAFETY clauses of C10.
  What fails:  the LIVENESS clause (`join_eventually`) — when no worker can be created nobody serves the queue, `join()` waits
  forever (`join_eventually_fails_when_no_worker_can_be_created`); and, because nothing undoes `++_threadCount`, `~ThreadPool`
  queues a terminate job for every thread that never existed and waits forever for a slot once the queue is full
  (`destructor_hangs_after_failed_creations`).  Both schedules come from runs of the REAL pool under the controlled scheduler with a
  failing `pthread_create` (corpus/C10/spawn-failure-*.txt) and are kernel-evaluated here.
-/
namespace Nstd.Future.C10

/-- Every state the pool reaches with failing thread creations is a reachable state of the model in which the refused
    threads are simply never scheduled: all theorems over `Reach` (Props.lean) apply to it. -/
theorem failing_thread_creation_is_a_reachable_state {cfg : Config} {x : XState} (h : XReach cfg x) : Reach cfg x.s :=
  xreach_reach h

/-- The encoding is faithful about the refused thread: in every later state it is still the untouched record of a new
    worker — it cannot be scheduled and is inside no call. -/
theorem failed_thread_never_runs {cfg : Config} {x : XState} (h : XReach cfg x) {w : Tid} (hw : w ∈ x.dead) :
    x.s.threads w = some freshWorker ∧ xenabled x w = false ∧ ∀ c, ¬ executes x.s w c := by
  have hth := dead_fresh h w hw
  refine ⟨hth, ?_, ?_⟩
  · simp [xenabled, hw]
  · intro c ⟨th, hth', fr, hfr, hp⟩
    rw [hth] at hth'; injection hth' with hth'; subst hth'
    simp only [freshWorker, List.mem_cons, List.not_mem_nil, or_false] at hfr
    rcases hfr with rfl | rfl <;> simp [inProc] at hp

/-- `exactly_once` / "with the arguments given" with failing thread creations: at most one execution, by an existing worker
    thread (never by a refused one), one executor, completed ⇒ executed exactly once, body arguments = `start` arguments. -/
theorem exactly_once_with_failing_thread_creation {cfg : Config} {x : XState} (h : XReach cfg x) (c : Nat) :
    x.s.execCount c ≤ 1 ∧
    (∀ t, executes x.s t c → t ∉ x.dead ∧ ∃ th, x.s.threads t = some th ∧ th.isWorker = true) ∧
    (∀ t u, executes x.s t c → executes x.s u c → t = u) ∧
    (x.s.completed c = true → x.s.execCount c = 1) ∧
    (∀ a b, x.s.execArgs c = some (a, b) → ∃ r, x.s.everCalls c = some r ∧ r.a = a ∧ r.b = b) :=
  have hr := xreach_reach h
  ⟨exec_at_most_once hr c,
   fun _ he => ⟨fun hd => (failed_thread_never_runs h hd).2.2 c he, exec_by_worker hr he⟩,
   fun _ _ ht hu => executor_unique hr ht hu,
   fun hc => completed_exec_once hr hc,
   fun _ _ he => exec_args_are_start_args hr he⟩

/-- `join_after_completion` with failing thread creations: a `join()` that returns has waited for the call's body, result store
    and state publication, and the body ran exactly once.  (A join may never return: see below.) -/
theorem join_after_completion_with_failing_thread_creation {cfg : Config} {x : XState} (hwf : cfg.WellFormed)
    (h : XReach cfg x) {t : Tid} {f c : Nat} (htop : topFrame x.s t = some (.joinClr f))
    (hc : (x.s.futs f).curCall = some c) : x.s.completed c = true ∧ x.s.execCount c = 1 :=
  join_after_completion_once hwf (xreach_reach h) htop hc

/-- result conversion and flags after join with failing thread creations -/
theorem result_and_state_with_failing_thread_creation {cfg : Config} {x : XState} (hwf : cfg.WellFormed)
    (h : XReach cfg x) {f c : Nat} (hc : (x.s.futs f).curCall = some c) :
    (∀ t r, topFrame x.s t = some (.evResult f) → f < 8 → x.s.everCalls c = some r →
        (x.s.futs f).result = some (r.a * 100 + r.b)) ∧
    ((x.s.futs f).joinable = false →
        ((x.s.futs f).state = 2 ∨ (x.s.futs f).state = 3) ∧ ((x.s.futs f).state = 3 → (x.s.futs f).abortReq = true)) :=
  ⟨fun _ _ htop hf hr => Nstd.Future.result_is_return_value hwf (xreach_reach h) htop hf hc hr,
   fun hj => Nstd.Future.state_after_join hwf (xreach_reach h) hj hc⟩

/-- record lifetime with failing thread creations: freed at most once, no use after delete, no other model fault -/
theorem record_lifetime_with_failing_thread_creation {cfg : Config} {x : XState} (h : XReach cfg x) (c : Nat) :
    x.s.freeCount c ≤ 1 ∧ x.s.fault = none :=
  ⟨call_record_freed_once (xreach_reach h) c, no_fault (xreach_reach h)⟩

theorem sfJoinCfg_wf : sfJoinCfg.WellFormed := by
  constructor
  · intro i j si sj hi hj hij
    rcases i with _ | i <;> rcases j with _ | j <;> simp [sfJoinCfg] at hi hj
    exact absurd rfl hij
  · decide

/-- NEGATION of `join_eventually` once thread creation may fail (any repair of the library leaves this: `start()` has no way to
    report the failure and nobody else may run the call): `Future<int> f; f.start(..); f.join();` on an empty pool whose first
    worker is refused ends with the job queued, `_threadCount = 1`, no worker, the client asleep in `join()` and no thread able
    to step.  The liveness clause of C10 therefore carries the hypothesis "worker threads can be created". -/
theorem join_eventually_fails_when_no_worker_can_be_created :
    ∃ x, XReach sfJoinCfg x ∧ sfJoinCfg.repaired = true ∧ sfJoinCfg.WellFormed ∧
      (∀ t, t < x.s.nthreads → xenabled x t = false) ∧ clientAsleepInJoin x.s 1 0 = true ∧
      x.s.nextCall = 1 ∧ x.s.execCount 0 = 0 ∧ queuedJobs x.s = 1 ∧ poolThreadCount x.s = 1 ∧ x.dead = [2] := by
  have h := sfJoin_check
  unfold sfJoinCheck at h
  cases hr : xrun 1 { s := State.init sfJoinCfg } sfJoinSched with
  | none => rw [hr] at h; exact absurd h (by decide)
  | some x =>
    rw [hr] at h
    simp only [Bool.and_eq_true, beq_iff_eq] at h
    obtain ⟨⟨⟨⟨⟨⟨⟨h1, h2⟩, h3⟩, h4⟩, h5⟩, h6⟩, h7⟩, _⟩ := h
    refine ⟨x, xrun_reach XReach.init hr, rfl, sfJoinCfg_wf, ?_, h2, h3, h4, h5, h6, h7⟩
    intro t ht
    simp only [xAllBlocked, List.all_eq_true, List.mem_range, Bool.not_eq_eq_eq_not, Bool.not_true] at h1
    exact h1 t ht

/-- The count leak of the failing branch (`_threadCount` is incremented under the mutex before `Thread::start` and never
    decremented when the start fails): two clients, three calls, queue size 1, the second and third worker refused.  All three
    calls are executed exactly once, completed and freed, every client has finished — and `~ThreadPool`, which queues one
    terminate job per counted thread (`_threadCount = 3`, one real worker), sleeps forever in `_dequeuedSignal.wait()` for a free
    slot: no thread can step.  (A finding outside the quantifier of C10 — the property does not range over refused thread
    creations — recorded with the proposed repair in docs/future.md.) -/
theorem destructor_hangs_after_failed_creations :
    ∃ x, XReach sfDtorCfg x ∧ (∀ t, t < x.s.nthreads → xenabled x t = false) ∧ mainAsleepOnDeq x.s = true ∧
      x.s.nextCall = 3 ∧ allCallsDone x.s = true ∧ clientsFinished x.s = true ∧ poolThreadCount x.s = 3 ∧
      liveRealWorkers x = 0 ∧ x.dead.length = 2 := by
  have h := sfDtor_check
  unfold sfDtorCheck at h
  cases hr : xrun 6 { s := State.init sfDtorCfg } sfDtorSched with
  | none => rw [hr] at h; exact absurd h (by decide)
  | some x =>
    rw [hr] at h
    simp only [Bool.and_eq_true, beq_iff_eq] at h
    obtain ⟨⟨⟨⟨⟨⟨⟨⟨h1, h2⟩, h3⟩, h4⟩, h5⟩, h6⟩, h7⟩, h8⟩, _⟩ := h
    refine ⟨x, xrun_reach XReach.init hr, ?_, h2, h3, h4, h5, h6, h7, h8⟩
    intro t ht
    simp only [xAllBlocked, List.all_eq_true, List.mem_range, Bool.not_eq_eq_eq_not, Bool.not_true] at h1
    exact h1 t ht

/-
OPEN:
  * `XReach` is exact up to the join loop of `~ThreadPool`: there the model's destructor waits for the refused thread (`dJoin` of
    a thread that never finishes) while the code's `Thread::join` of a never-started thread returns at once.  The tail of the
    destructor after that point (the remaining joins, deletion of the pool; only the main thread and workers finishing their
    terminate jobs are alive) is replayed by the driver (rule `passDead`, correspondence run) but not covered by a theorem: it needs a
    simulation "equal up to the main thread's program counter", i.e. that no step of a worker depends on the main thread's stack.
  * positive liveness with refused creations: `join_eventually` under the hypothesis that, after the last refusal, a later `run()`
    succeeds in creating a worker or a worker is alive (the leaked count makes `idleThreads <= 0` rarer, and after `_maxThreads`
    refusals no worker is ever created again) — not stated; with the proposed repair (undo the increment when the start fails)
    the model needs three more program counters in `Frame`, i.e. a rebuild of the whole proof chain.
-/

end Nstd.Future.C10
