/-
  Completion handshake of a Future, part 22 (third layer): the Signal frames on a future signal, one by one
  (repaired order of `Signal::set`: store, broadcast, unlock).
-/
import Nstd.Future.Handshake21
set_option linter.unusedSimpArgs false
set_option linter.unusedVariables false
namespace Nstd.Future

theorem two_owners {s : State} (hI : HsInv3 s) {σ : Nat} (hσ : 2 ≤ σ) {t u : Tid} {x y : Frame}
    (ht : TopIs s t x) (hx : critS σ x = true) (hu : TopIs s u y) (hy : critS σ y = true) : u = t := by
  have h1 := hI.own t x σ hσ ht hx
  have h2 := hI.own u y σ hσ hu hy
  rw [h1] at h2; injection h2 with h2; exact h2.symm

theorem no_owner {s : State} (hI : HsInv3 s) {σ : Nat} (hσ : 2 ≤ σ) (hn : (s.sigs σ).owner.isSome = false)
    {u : Tid} {y : Frame} (hu : TopIs s u y) (hy : critS σ y = true) : False := by
  rw [hI.own u y σ hσ hu hy] at hn; cases hn

section frames
variable {cfg : Config} {s : State} {t : Tid} {th : Thread} {rest : List Frame} {σ : Nat}

/-- lock acquisition: `sSetLock`, `sRstLock`, `sWaitLock`, `sWaitRelock` -/
theorem hs3_lock (hS : SimInv cfg s) (hI : HsInv3 s) (fr nx : Frame)
    (hth : s.threads t = some th) (hst : th.stack = fr :: rest) (hσ : 2 ≤ σ)
    (hblk : (s.sigs σ).owner.isSome = false)
    (hstep : (stepFrame s t th fr).1 = setThread (setSig s σ { s.sigs σ with owner := some t }) t (th.cont [nx]))
    (hc1 : ∀ σ', σ' ≠ σ → critS σ' nx = false) (hp : ∀ f, isSetPost (f + 2) nx = false)
    (hr : ∀ f, (roleOf s.everCalls nx = some (.passed, f) ∨ roleOf s.everCalls nx = some (.rstDone, f)) →
        (roleOf s.everCalls fr = some (.passed, f) ∨ roleOf s.everCalls fr = some (.rstDone, f))) :
    HsInv3 (stepFrame s t th fr).1 := by
  have hO := others_of_step hS hth hst
  rw [hstep] at hO ⊢
  refine hs3_sig (th' := th.cont [nx]) (σ0 := σ) hI hO hth (head_of hst) ?_ hσ ?_ ?_ ?_ ?_ ?_ ?_ ?_ ?_
  · simp [setThread, upd_same]
  · simp [setThread, setSig]
  · simp [setThread, setSig]
  · intro σ' h; simp [setThread, setSig, upd, h]
  · intro x hx σ' h; simp [Thread.cont, hst] at hx; subst hx; exact hc1 σ' h
  · intro x _ _; simp [setThread, setSig, upd]
  · intro x hx f h; simp [Thread.cont, hst] at hx; subst hx; rw [hp f] at h; cases h
  · intro x hx f h; simp [Thread.cont, hst] at hx; subst hx; exact Or.inl (hr f h)
  · intro u y _ hu hy; exact (no_owner hI hσ hblk hu hy).elim

/-- a step inside the critical section that keeps the mutex -/
theorem hs3_keep (hS : SimInv cfg s) (hI : HsInv3 s) (fr nx : Frame) (g : SigSt) (s1 : State)
    (hth : s.threads t = some th) (hst : th.stack = fr :: rest) (hσ : 2 ≤ σ)
    (hcrit : critS σ fr = true) (hg : g.owner = (s.sigs σ).owner)
    (hs1 : s1.threads = s.threads ∧ s1.futs = s.futs ∧ s1.everCalls = s.everCalls ∧ s1.sigs = upd s.sigs σ g)
    (hstep : (stepFrame s t th fr).1 = setThread s1 t (th.cont [nx]))
    (hc1 : ∀ σ', σ' ≠ σ → critS σ' nx = false)
    (hp : ∀ f, isSetPost (f + 2) nx = true → jn s f = true ∧ NoPassed s f)
    (hr : ∀ f, (roleOf s.everCalls nx = some (.passed, f) ∨ roleOf s.everCalls nx = some (.rstDone, f)) →
        (roleOf s.everCalls fr = some (.passed, f) ∨ roleOf s.everCalls fr = some (.rstDone, f)) ∨
        ∀ u y, u ≠ t → TopIs s u y → isSetPost (f + 2) y = false) :
    HsInv3 (stepFrame s t th fr).1 := by
  have hO := others_of_step hS hth hst
  rw [hstep] at hO ⊢
  obtain ⟨h1, h2, h3, h4⟩ := hs1
  have hown := hI.own t fr σ hσ ⟨th, hth, head_of hst⟩ hcrit
  refine hs3_sig (th' := th.cont [nx]) (σ0 := σ) hI hO hth (head_of hst) ?_ hσ ?_ ?_ ?_ ?_ ?_ ?_ ?_ ?_
  · simp [setThread, upd_same]
  · simp [setThread, h2]
  · simp [setThread, h3]
  · intro σ' h; simp [setThread, h4, upd, h]
  · intro x hx σ' h; simp [Thread.cont, hst] at hx; subst hx; exact hc1 σ' h
  · intro x _ _; simp [setThread, h4, upd, hg, hown]
  · intro x hx f h; simp [Thread.cont, hst] at hx; subst hx; exact hp f h
  · intro x hx f h; simp [Thread.cont, hst] at hx; subst hx; exact hr f h
  · intro u y _ hu hy; simp [setThread, h4, upd, hg]; exact hI.own u y σ hσ hu hy

/-- release of the mutex: `sSetUnlock` (repaired), `sRstUnlock`, `sWaitUnlock` return, `sWaitCwait` continues -/
theorem hs3_unlock (hS : SimInv cfg s) (hI : HsInv3 s) (fr : Frame) (fs : List Frame) (g : SigSt)
    (hth : s.threads t = some th) (hst : th.stack = fr :: rest) (hσ : 2 ≤ σ)
    (hcrit : critS σ fr = true)
    (hstep : (stepFrame s t th fr).1 = setThread (setSig s σ g) t (th.cont fs))
    (hc1 : ∀ x, (fs ++ rest).head? = some x → ∀ σ', critS σ' x = false)
    (hp : ∀ x, (fs ++ rest).head? = some x → ∀ f, isSetPost (f + 2) x = false)
    (hr : ∀ x, (fs ++ rest).head? = some x → ∀ f,
        (roleOf s.everCalls x = some (.passed, f) ∨ roleOf s.everCalls x = some (.rstDone, f)) →
        (roleOf s.everCalls fr = some (.passed, f) ∨ roleOf s.everCalls fr = some (.rstDone, f))) :
    HsInv3 (stepFrame s t th fr).1 := by
  have hO := others_of_step hS hth hst
  rw [hstep] at hO ⊢
  have hstk : (th.cont fs).stack = fs ++ rest := by simp [Thread.cont, hst]
  refine hs3_sig (th' := th.cont fs) (σ0 := σ) hI hO hth (head_of hst) ?_ hσ ?_ ?_ ?_ ?_ ?_ ?_ ?_ ?_
  · simp [setThread, upd_same]
  · simp [setThread, setSig]
  · simp [setThread, setSig]
  · intro σ' h; simp [setThread, setSig, upd, h]
  · intro x hx σ' h; rw [hstk] at hx; exact hc1 x hx σ'
  · intro x hx h; rw [hstk] at hx; rw [hc1 x hx σ] at h; cases h
  · intro x hx f h; rw [hstk] at hx; rw [hp x hx f] at h; cases h
  · intro x hx f h; rw [hstk] at hx; exact Or.inl (hr x hx f h)
  · intro u y hu hy hyc
    exact absurd (two_owners hI hσ ⟨th, hth, head_of hst⟩ hcrit hy hyc) hu

end frames

end Nstd.Future
