/-
  Glue of the liveness side theorems, part 2: the invariants.
    `GInv`   thread 0 (the main thread) exists and is not a worker; client threads (`clientTids`) are not thread 0 and are
             not workers; a thread that is not a worker never runs worker-only code (`NoWO`: in particular it never
             waits on the enqueued signal); frames that never return sit at the bottom of their stack (`LoopBot`).
    `MainQ`  the main thread is unfinished and the bottom frame of its stack is a frame of its own code, or it is
             exiting / has exited and every other thread has finished: the main thread outlives all other threads.
-/
import Nstd.Future.LiveGlue1
import Nstd.Future.Progress
set_option linter.unusedSimpArgs false
set_option linter.unusedVariables false
namespace Nstd.Future.LG

open LW

structure GInv (s : State) : Prop where
  main0 : ∃ th0, s.threads 0 = some th0 ∧ th0.isWorker = false
  cl : ∀ w ∈ s.clientTids, w ≠ 0 ∧ ∃ th, s.threads w = some th ∧ th.isWorker = false
  nowo : ∀ t th, s.threads t = some th → th.isWorker = false → NoWO th.stack
  lb : ∀ t th, s.threads t = some th → LoopBot th.stack

theorem ginv_init (cfg : Config) : GInv (State.init cfg) := by
  have hthr : ∀ t th, (State.init cfg).threads t = some th → th = { stack := [Frame.mInit] } := by
    intro t th h
    simp only [State.init] at h
    split at h
    · injection h with h; exact h.symm
    · cases h
  refine ⟨⟨{ stack := [Frame.mInit] }, rfl, rfl⟩, ?_, ?_, ?_⟩
  · intro w hw; simp [State.init] at hw
  · intro t th h _; rw [hthr t th h]; simp [noWO_cons, noWO_nil, wOnly]
  · intro t th h; rw [hthr t th h]; exact loopBot_singleton _

theorem ginv_step {cfg : Config} {s s' : State} {t : Tid} {o : List String} (hS : SimInv cfg s)
    (hI : GInv s) (h : step s t = some (s', o)) : GInv s' := by
  obtain ⟨th, fr, rest, hth, hst, hfin, rfl⟩ := step_inv h
  have hnt : s.nthreads ≠ t := by
    intro e
    have := hS.fresh t (by rw [e]; exact Nat.le_refl _)
    rw [hth] at this; cases this
  obtain ⟨th0, h0, h0w⟩ := hI.main0
  have hn0 : s.nthreads ≠ 0 := by
    intro e
    have := hS.fresh 0 (by rw [e]; exact Nat.le_refl _)
    rw [h0] at this; cases this
  have hk := shapeG s t th fr rest hth hst hnt
  obtain ⟨th', hth', hwk', hnowo', hlb', _⟩ := hk.self
  have hoth : ∀ u thu, u ≠ t → (stepFrame s t th fr).1.threads u = some thu →
      s.threads u = some thu ∨ (u = s.nthreads ∧ (thu = workerRec ∨ ∃ sc, thu = clientRec sc)) := by
    intro u thu hu hthu
    rcases hk.others u hu with h2 | ⟨hun, ⟨h2, _⟩ | ⟨sc, h2, _⟩⟩
    · left; rw [← h2]; exact hthu
    · right; rw [hthu] at h2; injection h2 with h2; exact ⟨hun, Or.inl h2⟩
    · right; rw [hthu] at h2; injection h2 with h2; exact ⟨hun, Or.inr ⟨sc, h2⟩⟩
  -- an existing thread keeps existing, with the same `isWorker`
  have hkeep : ∀ u thu, s.threads u = some thu →
      ∃ thu', (stepFrame s t th fr).1.threads u = some thu' ∧ thu'.isWorker = thu.isWorker := by
    intro u thu hthu
    by_cases hu : u = t
    · subst hu; rw [hth] at hthu; injection hthu with hthu; subst hthu
      exact ⟨th', hth', hwk'⟩
    · rcases hk.others u hu with h2 | ⟨hun, _⟩
      · exact ⟨thu, by rw [h2]; exact hthu, rfl⟩
      · have := hS.fresh u (by rw [hun]; exact Nat.le_refl _)
        rw [hthu] at this; cases this
  refine ⟨?_, ?_, ?_, ?_⟩
  · obtain ⟨th0', h1, h2⟩ := hkeep 0 th0 h0
    exact ⟨th0', h1, by rw [h2]; exact h0w⟩
  · intro w hw
    have hold : w ∈ s.clientTids → w ≠ 0 ∧ ∃ thx, (stepFrame s t th fr).1.threads w = some thx ∧ thx.isWorker = false := by
      intro hw
      obtain ⟨h1, thw, h2, h3⟩ := hI.cl w hw
      obtain ⟨thw', h4, h5⟩ := hkeep w thw h2
      exact ⟨h1, thw', h4, by rw [h5]; exact h3⟩
    rcases hk.ct with hc | ⟨hc, sc, hsc⟩
    · rw [hc] at hw; exact hold hw
    · rw [hc, List.mem_append] at hw
      rcases hw with hw | hw
      · exact hold hw
      · simp only [List.mem_singleton] at hw; subst hw
        exact ⟨hn0, clientRec sc, hsc, rfl⟩
  · intro u thu hthu hw
    by_cases hu : u = t
    · subst hu; rw [hth'] at hthu; injection hthu with hthu; subst hthu
      exact hnowo' (by rw [← hst]; exact hI.nowo u th hth (by rw [← hwk']; exact hw))
    · rcases hoth u thu hu hthu with h2 | ⟨_, rfl | ⟨sc, rfl⟩⟩
      · exact hI.nowo u thu h2 hw
      · cases hw
      · simp [clientRec, noWO_cons, noWO_nil, wOnly]
  · intro u thu hthu
    by_cases hu : u = t
    · subst hu; rw [hth'] at hthu; injection hthu with hthu; subst hthu
      exact hlb' (by rw [← hst]; exact hI.lb u th hth)
    · rcases hoth u thu hu hthu with h2 | ⟨_, rfl | ⟨sc, rfl⟩⟩
      · exact hI.lb u thu h2
      · simp [workerRec, loopBot_cons_iff, loopBot_nil, loopFr]
      · simp [clientRec, loopBot_cons_iff, loopBot_nil, loopFr]

theorem ginv_reach {cfg : Config} {s : State} (h : Reach cfg s) : GInv s := by
  induction h with
  | init => exact ginv_init cfg
  | step t hr hs ih => exact ginv_step (reach_inv hr) ih hs

/-! ### the main thread outlives all other threads -/

/-- every thread but the main thread has finished -/
def MainGone (s : State) : Prop := ∀ u th, u ≠ 0 → s.threads u = some th → th.finished = true

def MainQ (s : State) : Prop := ∀ th0, s.threads 0 = some th0 →
  (th0.finished = false ∧ mainBot th0.stack = true) ∨
  ((th0.stack = [.tExit] ∨ th0.finished = true) ∧ MainGone s)

theorem mainQ_init (cfg : Config) : MainQ (State.init cfg) := by
  intro th0 h
  simp only [State.init, if_true] at h
  injection h with h; subst h
  exact Or.inl ⟨rfl, rfl⟩

theorem mainQ_step {cfg : Config} {s s' : State} {t : Tid} {o : List String} (hr : Reach cfg s)
    (hI : MainQ s) (h : step s t = some (s', o)) : MainQ s' := by
  have hr' : Reach cfg s' := Reach.step t hr h
  obtain ⟨th, fr, rest, hth, hst, hfin, rfl⟩ := step_inv h
  have hS := reach_inv hr
  have hG := ginv_reach hr
  have hnt : s.nthreads ≠ t := by
    intro e
    have := hS.fresh t (by rw [e]; exact Nat.le_refl _)
    rw [hth] at this; cases this
  obtain ⟨th0, h0, h0w⟩ := hG.main0
  have hn0 : s.nthreads ≠ 0 := by
    intro e
    have := hS.fresh 0 (by rw [e]; exact Nat.le_refl _)
    rw [h0] at this; cases this
  have hk := shapeG s t th fr rest hth hst hnt
  intro th0' h0'
  by_cases ht0 : t = 0
  · subst ht0
    rw [h0] at hth; injection hth with hth; subst hth
    rcases hI th0 h0 with ⟨_, hmb⟩ | ⟨hex, hgone⟩
    · by_cases hrest : rest = []
      · -- the bottom frame itself steps
        subst hrest
        have hb : bottomFr fr = true := by rw [hst, mainBot_singleton] at hmb; exact hmb
        obtain ⟨th1, h1, h2⟩ := bot_step s 0 th0 fr h0 hst hfin hb
        rw [h0'] at h1; injection h1 with h1; subst h1
        rcases h2 with h2 | ⟨h2, h3, h4⟩
        · exact Or.inl h2
        · refine Or.inr ⟨Or.inl h2, ?_⟩
          rcases h3 with rfl | ⟨rfl, hpn⟩
          · -- `~ThreadPool` has returned
            exact pool_deleted_all_finished hr' (by
              intro hl; have := dFin_kills (s := s) (t := 0) (th := th0)
              rw [poolAlive, this] at hl; cases hl)
          · -- there never was a pool: all clients are joined, no worker was ever started
            intro u thu hu hthu
            rw [h4 u hu] at hthu
            cases hf : thu.finished with
            | true => rfl
            | false =>
              have hall : AllFin s := (reach_join hr).phase 0 th0 h0 .mDel (by rw [hst]; exact List.mem_cons_self ..)
              rcases (reach_finInv hr).reg u thu hthu hf with h5 | h5 | ⟨p, _, hp, _⟩
              · exact absurd h5 hu
              · obtain ⟨thx, hx, hxf⟩ := hall u h5
                rw [hthu] at hx; injection hx with hx; subst hx; rw [hf] at hxf; cases hxf
              · rw [hpn] at hp; cases hp
      · -- a called function steps; the bottom frame stays
        have hne : fr ≠ .tExit := by
          intro e; subst e
          have := loopBot_cons_loop (a := Frame.tExit) rfl (by rw [← hst]; exact hG.lb 0 th0 h0)
          exact hrest this
        obtain ⟨th1, h1, _, _, _, hc⟩ := hk.self
        rw [h0'] at h1; injection h1 with h1; subst h1
        obtain ⟨hf1, fs, hfs⟩ := hc hne
        left
        refine ⟨by rw [hf1]; exact hfin, ?_⟩
        rw [← hfs, mainBot_append hrest]
        rw [hst, show fr :: rest = [fr] ++ rest from rfl, mainBot_append hrest] at hmb
        exact hmb
    · -- the main thread is at `pthread_exit`
      rcases hex with hex | hex
      · rw [hst] at hex
        simp only [List.cons.injEq] at hex
        obtain ⟨rfl, rfl⟩ := hex
        rw [exit_step] at h0' ⊢
        simp only [setThread, upd_same, Option.some.injEq] at h0'
        subst h0'
        refine Or.inr ⟨Or.inr rfl, ?_⟩
        intro u thu hu hthu
        simp only [setThread, upd_ne _ _ hu] at hthu
        exact hgone u thu hu hthu
      · rw [hfin] at hex; cases hex
  · -- another thread steps
    rcases hI th0 h0 with hA | ⟨_, hgone⟩
    · rcases hk.others 0 (fun e => ht0 e.symm) with h2 | ⟨h2, _⟩
      · rw [h2, h0] at h0'; injection h0' with h0'; subst h0'
        exact Or.inl hA
      · exact absurd h2.symm hn0
    · have := hgone t th ht0 hth
      rw [hfin] at this; cases this

theorem mainQ_reach {cfg : Config} {s : State} (h : Reach cfg s) : MainQ s := by
  induction h with
  | init => exact mainQ_init cfg
  | step t hr hs ih => exact mainQ_step hr ih hs

end Nstd.Future.LG
