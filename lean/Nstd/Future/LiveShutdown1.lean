/-
  Shutdown side of deadlock freedom, part 1: the counting vocabulary "terminate jobs reach the serving workers".

  Every thread carries a WEIGHT (`lsW`), the sum over its frames of
    * 1 for a worker that is alive and has not yet taken a terminate job (`wPop1`, `wPop2`, `wAdd`; `wChk1/2`, `wDeq`,
      `wDispatch` unless the pop that just returned / is completing delivered or claimed a terminate ticket),
    * 1 for a ThreadContext that `run` has appended and not yet started (`runSpUnlock (some k)`, `runSpStart k`),
    * 1 for a retire job that is already in the queue while `_threadCount` is not yet decremented (`runRetAfter`
      after the successful CAS of its push),
    * `i` (+1 after the successful CAS of push number `i`) for the destructor loop `dPush i … dSet i`.
  `lsTq head log` = number of terminate tickets `x ≥ head` in the push log.
  Invariant (LiveShutdown3):   Σ_threads weight ≤ termQueued + _threadCount,
  and once the destructor has left its push loop (`dJoin`/`dFin`):   Σ_threads weight ≤ termQueued.

  This file: definitions, the stack side conditions (`lsDep` count, `LsPayOk`) and the effect of one micro-step of a
  frame other than a `push`/`pop` frame (`lsShapeD`, `lsShapeN`).
-/
import Nstd.Future.LiveWorker
import Nstd.Future.Safety1
set_option linter.unusedSimpArgs false
set_option linter.unusedVariables false
namespace Nstd.Future.LS

/-! ### weights -/

def lsRingOf : Frame → Option (RingPc Job)
  | .ring pc => some pc
  | _ => none

/-- a push frame after its successful CAS on `_tail` -/
def lsCaptPc : RingPc Job → Nat
  | .pushData _ _ | .pushPub _ _ => 1
  | .pushRead _ | .pushChk _ _ | .pushCas _ _ | .popRead | .popChk _ | .popCas _ | .popData _ | .popRel _ _ => 0

/-- contribution of the caller of a push of a terminate job: 1 as soon as the job is in the queue -/
def lsCapt (rb : Bool) : Option (RingPc Job) → Nat
  | none => if rb = true then 1 else 0
  | some pc => lsCaptPc pc

/-- a pop frame that has claimed ticket `x`: still serving unless `x` is a terminate ticket -/
def lsServPc (log : List Job) : RingPc Job → Nat
  | .popData x | .popRel x _ => if log[x]? = some none then 0 else 1
  | .pushRead _ | .pushChk _ _ | .pushCas _ _ | .pushData _ _ | .pushPub _ _ | .popRead | .popChk _ | .popCas _ => 1

def lsServ (rb : Bool) (rj : Job) (log : List Job) : Option (RingPc Job) → Nat
  | none => if rb = true ∧ rj = none then 0 else 1
  | some pc => lsServPc log pc

/-- weight of a frame; `ab` = the push/pop frame directly above it (if any), `rb`/`rj` = `retB`/`retJob` of the thread -/
def lsFr (rb : Bool) (rj : Job) (log : List Job) (ab : Option (RingPc Job)) : Frame → Nat
  | .runSpUnlock ctx => if ctx.isSome = true then 1 else 0
  | .runSpStart _ => 1
  | .runRetAfter => lsCapt rb ab
  | .dPush i | .dPush2 i => i
  | .dSet i => i + 1
  | .dChk1 i | .dChk2 i => i + lsCapt rb ab
  | .wPop1 | .wPop2 | .wAdd => 1
  | .wChk1 | .wChk2 => lsServ rb rj log ab
  | .wDeq | .wDispatch => if rj = none then 0 else 1
  | _ => 0

def lsStk (rb : Bool) (rj : Job) (log : List Job) : Option (RingPc Job) → List Frame → Nat
  | _, [] => 0
  | ab, f :: l => lsFr rb rj log ab f + lsStk rb rj log (lsRingOf f) l

@[simp] theorem lsStk_nil (rb : Bool) (rj : Job) (log : List Job) (ab : Option (RingPc Job)) :
    lsStk rb rj log ab [] = 0 := rfl
@[simp] theorem lsStk_cons (rb : Bool) (rj : Job) (log : List Job) (ab : Option (RingPc Job)) (f : Frame)
    (l : List Frame) : lsStk rb rj log ab (f :: l) = lsFr rb rj log ab f + lsStk rb rj log (lsRingOf f) l := rfl

/-- weight of a thread -/
def lsW (log : List Job) (th : Thread) : Nat := lsStk th.retB th.retJob log none th.stack

def lsVal (log : List Job) : Option Thread → Nat
  | some th => lsW log th
  | none => 0

/-- weight of thread `t` in state `s` -/
def lsAt (log : List Job) (s : State) (t : Tid) : Nat := lsVal log (s.threads t)

/-- terminate tickets not yet claimed by a popper -/
def lsCnt : List Job → Nat
  | [] => 0
  | j :: l => (if j = none then 1 else 0) + lsCnt l

def lsTq (head : Nat) (log : List Job) : Nat := lsCnt (log.drop head)

def lsTc (s : State) : Nat := match s.pool with | some p => p.threadCount | none => 0
def lsRing (s : State) : Option (Ring Job) := match s.pool with | some p => some p.ring | none => none

/-! ### side conditions on stacks -/

/-- base frames of a client thread: they stay at the bottom of the stack while an operation runs above them -/
def lsB : Frame → Bool
  | .cNext | .cStarted _ _ | .evJoined _ | .evResult _ | .destroyF _ | .cEnd _ => true
  | _ => false

/-- control frames: below them there are only base frames -/
def lsC : Frame → Bool
  | .cNext | .cStarted _ _ | .evJoined _ | .evResult _ | .destroyF _ | .cEnd _ => true
  | .cRdTp _ | .cSpin _ | .cRdTp2 _ | .cSwapTp _ | .cUnlockTp _ | .cJoin _ | .cArm _ => true
  | .runStart _ | .runChk1 _ | .runPush2 _ | .runChk2 _ | .runSet | .runAdd | .runRdProc _ | .runRdTc _ | .runClk1
  | .runClk2 _ | .runClk3 | .runSpLock | .runSpChk | .runSpUnlock _ | .runSpStart _ | .runSpawned _
  | .runRetLock | .runRetChk | .runRetAfter | .runRetUnlock => true
  | .wPop1 | .wChk1 | .wPop2 | .wChk2 | .wDeq | .wDispatch | .wAdd | .wTerm => true
  | .mInit | .mSpawn _ | .mSpawned _ _ | .mJoin _ | .mDel
  | .dPush _ | .dChk1 _ | .dPush2 _ | .dChk2 _ | .dSet _ | .dJoin _ | .dFin => true
  | _ => false

def LsAllB (l : List Frame) : Prop := ∀ f ∈ l, lsB f = true
theorem lsAllB_nil : LsAllB [] := by intro f hf; cases hf
theorem lsAllB_cons {a : Frame} {l : List Frame} : LsAllB (a :: l) ↔ lsB a = true ∧ LsAllB l := by
  simp [LsAllB]

def LsCB : List Frame → Prop
  | [] => True
  | a :: l => (lsC a = true → LsAllB l) ∧ LsCB l
theorem lsCB_nil : LsCB [] := trivial
theorem lsCB_cons {a : Frame} {l : List Frame} : LsCB (a :: l) ↔ (lsC a = true → LsAllB l) ∧ LsCB l := Iff.rfl

/-- the destructor has left its push loop -/
def lsDJ : Frame → Nat
  | .dJoin _ | .dFin => 1
  | _ => 0

def lsNonePc : RingPc Job → Bool
  | .pushRead d | .pushChk d _ | .pushCas d _ | .pushData d _ | .pushPub d _ => d.isNone
  | .popRead | .popChk _ | .popCas _ | .popData _ | .popRel _ _ => true

/-- callers that push terminate jobs only -/
def lsRestr : Frame → Bool
  | .runRetAfter | .dChk1 _ | .dChk2 _ => true
  | _ => false

def lsPayC (pc : RingPc Job) : Option Frame → Bool
  | some c => !lsRestr c || lsNonePc pc
  | none => true

/-- what must sit directly below a frame: a push above `runRetAfter`/`dChk*` carries the terminate job; the only
    `FastSignal::wait`/`Signal::wait` on the enqueued signal is the one of `ThreadContext::proc` before `wPop1` -/
def lsPadj : Frame → Option Frame → Prop
  | .ring pc, o => lsPayC pc o = true
  | .fWait fs, o => fs = 0 → o = some .wPop1
  | .sWaitLock σ, o => σ = 0 → o = some .wPop1
  | .sWaitChk σ, o => σ = 0 → o = some .wPop1
  | .sWaitUnlock σ, o => σ = 0 → o = some .wPop1
  | .sWaitCwait σ, o => σ = 0 → o = some .wPop1
  | .sWaitCwake σ, o => σ = 0 → o = some .wPop1
  | .sWaitRelock σ, o => σ = 0 → o = some .wPop1
  | _, _ => True

def LsPayOk : List Frame → Prop
  | [] => True
  | a :: l => lsPadj a l.head? ∧ LsPayOk l

theorem lsPayOk_nil : LsPayOk [] := trivial
theorem lsPayOk_cons {a : Frame} {l : List Frame} : LsPayOk (a :: l) ↔ lsPadj a l.head? ∧ LsPayOk l := Iff.rfl

/-! ### one micro-step of a frame other than `ring _`: stack side conditions -/

structure LsShapeD (s s' : State) (t : Tid) (th : Thread) (fr : Frame) (rest : List Frame) : Prop where
  self : ∃ th', s'.threads t = some th' ∧ th'.retB = th.retB ∧ th'.retJob = th.retJob ∧
      (LsCB (fr :: rest) → LsCB th'.stack) ∧
      (LsPayOk (fr :: rest) → LsPayOk th'.stack)

set_option maxHeartbeats 8000000 in
theorem lsShapeD (s : State) (t : Tid) (th : Thread) (fr : Frame) (rest : List Frame)
    (hth : s.threads t = some th) (hst : th.stack = fr :: rest) (hnr : lsRingOf fr = none)
    (hrep : s.cfg.repaired = true) :
    LsShapeD s (stepFrame s t th fr).1 t th fr rest := by
  cases fr
  case ring pc => cases hnr
  all_goals
    simp only [stepFrame]
    repeat' split
  all_goals
    constructor
    simp only [setThread, setSig, setPool, setFut, withFault, destroySig, upd_same, hth, Option.some.injEq, exists_eq_left']
    refine ⟨?_, ?_, ?_, ?_⟩
    · simp [Thread.cont]
    · simp [Thread.cont]
    · intro hb
      simp only [lsCB_cons, lsC] at hb
      simp [Thread.cont, hst, hrep, lsCB_cons, lsCB_nil, lsAllB_cons, lsAllB_nil, lsC, lsB, hb]
      try (simp_all; done)
    · intro hb
      simp only [lsPayOk_cons, lsPadj] at hb
      simp [Thread.cont, hst, hrep, lsPayOk_cons, lsPayOk_nil, lsPadj, lsPayC, lsRestr, lsNonePc, hb]
      try (simp_all; done)

/-! ### one micro-step of a frame other than `ring _`: the numbers -/

def lsSpawnW : Frame → Nat
  | .runSpStart _ => 1
  | _ => 0
def lsIsSpChk : Frame → Bool
  | .runSpChk => true
  | _ => false
def lsDjAt (s : State) (t : Tid) : Nat := match s.threads t with | some th => lsum lsDJ th.stack | none => 0

theorem setFsState_tc (p : Pool) (fs v : Nat) : (setFsState p fs v).threadCount = p.threadCount := by
  unfold setFsState; split <;> rfl

structure LsShapeN (s s' : State) (t : Tid) (fr : Frame) : Prop where
  ring : s'.pool = none ∨ lsRing s' = lsRing s
  i1 : ∀ log, s'.pool.isSome = true → lsAt log s' t + lsSpawnW fr + lsTc s ≤ lsAt log s t + lsTc s'
  i2 : ∀ log, s'.pool.isSome = true → lsIsSpChk fr = false → lsAt log s' t + lsSpawnW fr ≤ lsAt log s t
  dd : ∀ log, s'.pool.isSome = true → 1 ≤ lsDjAt s' t → 1 ≤ lsDjAt s t ∨
        (lsAt log s' t + lsTc s ≤ lsAt log s t ∧ lsSpawnW fr = 0 ∧ lsTc s' = lsTc s)
  nth : s'.nthreads = s.nthreads ∨
        (s'.nthreads = s.nthreads + 1 ∧ ∀ log, lsVal log (s'.threads s.nthreads) = lsSpawnW fr)

set_option maxHeartbeats 16000000 in
theorem lsShapeN (s : State) (t : Tid) (th : Thread) (fr : Frame) (rest : List Frame)
    (hth : s.threads t = some th) (hst : th.stack = fr :: rest) (hnr : lsRingOf fr = none)
    (hrep : s.cfg.repaired = true) (hnt : s.nthreads ≠ t) (hni : fr ≠ .mInit)
    (hnc : ∀ c, fr = .cRdTp2 c → s.tp = true) :
    LsShapeN s (stepFrame s t th fr).1 t fr := by
  cases fr
  case ring pc => cases hnr
  case mInit => exact absurd rfl hni
  case cRdTp2 c =>
    have htp := hnc c rfl
    rcases hp : s.pool with _ | p
    all_goals
      simp only [stepFrame, htp, if_true]
      constructor
      · simp [lsRing, hp, setThread]
      · intro log
        simp [lsAt, lsVal, lsW, lsTc, hp, hth, hst, setThread, upd_same, Thread.cont, lsFr, lsRingOf, lsSpawnW]
      · intro log
        simp [lsAt, lsVal, lsW, lsTc, hp, hth, hst, setThread, upd_same, Thread.cont, lsFr, lsRingOf, lsSpawnW]
      · intro log
        simp [lsDjAt, lsDJ, lsAt, lsVal, lsW, lsTc, hp, hth, hst, setThread, upd_same, Thread.cont, lsFr, lsRingOf, lsSpawnW]
        try (intro h; exact Or.inl h)
      · left; rfl
  all_goals
    rcases hp : s.pool with _ | p
  all_goals
    simp only [stepFrame, hp]
    repeat' split
  all_goals
    constructor
    · simp [lsRing, hp, setThread, setSig, setPool, setFut, withFault, destroySig, LW.setFsState_ring]
    · intro log
      simp [lsAt, lsVal, lsW, lsTc, hp, hth, hst, hrep, setThread, setSig, setPool, setFut, withFault, destroySig,
        upd_same, Thread.cont, lsFr, lsRingOf, lsSpawnW, lsCapt, lsServ, lsCaptPc, lsServPc, setFsState_tc, *]
      try grind
    · intro log
      simp [lsAt, lsVal, lsW, lsTc, hp, hth, hst, hrep, setThread, setSig, setPool, setFut, withFault, destroySig,
        upd_same, Thread.cont, lsFr, lsRingOf, lsSpawnW, lsIsSpChk, lsCapt, lsServ, lsCaptPc, lsServPc, setFsState_tc, *]
      try grind
    · intro log
      simp [lsDjAt, lsDJ, lsAt, lsVal, lsW, lsTc, hp, hth, hst, hrep, setThread, setSig, setPool, setFut, withFault,
        destroySig, upd_same, Thread.cont, lsFr, lsRingOf, lsSpawnW, lsCapt, lsServ, lsCaptPc, lsServPc, setFsState_tc, *]
      try grind
    · simp [lsVal, lsW, setThread, setSig, setPool, setFut, withFault, destroySig, lsSpawnW, upd, hnt, lsFr, lsRingOf]

end Nstd.Future.LS
