/-
  Completion handshake of a Future, part 12: the steps of the owner that change `_joinable` / the current call:
  `cArm` (startProc arms the future), `joinClr` (end of join), `destroyF` (~Future).
-/
import Nstd.Future.Handshake11
set_option linter.unusedSimpArgs false
set_option linter.unusedVariables false
namespace Nstd.Future

theorem owner_unique {s : State} (hwf : s.cfg.WellFormed) (h0 : Inv0 s) {u t : Tid} {k k' : RK} {f : Nat}
    (h1 : Role s u k f) (hk : k ≠ .exec) (h2 : Role s t k' f) (hk' : k' ≠ .exec) : u = t :=
  owns_unique hwf (role_owns h0 h1 hk) (role_owns h0 h2 hk')

theorem ne_of_some_ne {a b : Nat} (h : some a ≠ some b) : a ≠ b := fun e => h (by rw [e])

section frames
variable {cfg : Config} {s : State} {t : Tid} {th : Thread} {rest : List Frame}

theorem hs_cArm {c : Nat} (hwf : s.cfg.WellFormed) (hS : SimInv cfg s) (h0 : Inv0 s) (hH : HsInv s)
    (hth : s.threads t = some th) (hst : th.stack = .cArm c :: rest) :
    HsInv (stepFrame s t th (.cArm c)).1 := by
  have hO := others_of_step hS hth hst
  cases hc : s.calls c with
  | none => simp only [stepFrame, hc]; exact hs_fault _ hH
  | some r =>
    have hevc := h0.callsEv c r hc
    have hrole : Role s t .after r.fut := ⟨_, ⟨th, hth, head_of hst⟩, by simp [roleOf, hevc]⟩
    have hj0 : jn s r.fut = false := hH.top t _ _ hrole
    have hs0 := hH.r _ hj0
    have hth' : (stepFrame s t th (.cArm c)).1.threads t = some (th.cont [.runStart (some c)]) := by
      simp [stepFrame, setThread, upd_same, hc]
    have hev : (stepFrame s t th (.cArm c)).1.everCalls = s.everCalls := by
      simp [stepFrame, setThread, setFut, hc]
    have hcompl : (stepFrame s t th (.cArm c)).1.completed = s.completed := by
      simp [stepFrame, setThread, setFut, hc]
    have hjn : ∀ f, f ≠ r.fut → jn (stepFrame s t th (.cArm c)).1 f = jn s f := by
      intro f hf; simp [stepFrame, setThread, setFut, hc, jn, upd, hf]
    have hcur : ∀ f, f ≠ r.fut → cur (stepFrame s t th (.cArm c)).1 f = cur s f := by
      intro f hf; simp [stepFrame, setThread, setFut, hc, cur, upd, hf]
    have hjn0 : jn (stepFrame s t th (.cArm c)).1 r.fut = true := by
      simp [stepFrame, setThread, setFut, hc, jn, upd]
    have hcur0 : cur (stepFrame s t th (.cArm c)).1 r.fut = some c := by
      simp [stepFrame, setThread, setFut, hc, cur, upd]
    have hsg : ∀ f, sg (stepFrame s t th (.cArm c)).1 f = sg s f := by
      intro f; simp [stepFrame, setThread, setFut, hc, sg]
    have hstk : (th.cont [.runStart (some c)]).stack = [.runStart (some c)] ++ rest := by
      simp [Thread.cont, hst]
    have hpreF : ∀ c', c' ≠ c → (∃ x ∈ th.stack, hsPreArm c' x = true) →
        ∃ x ∈ (th.cont [.runStart (some c)]).stack, hsPreArm c' x = true := by
      intro c' hc'; rw [hst, hstk]
      exact (preArm_same_tail (by simp [hsPreArm]; exact fun e => hc' e.symm)
        (by intro x hx; simp at hx; subst hx; rfl)).mpr
    have hpreB : ∀ c', (∃ x ∈ (th.cont [.runStart (some c)]).stack, hsPreArm c' x = true) →
        ∃ x ∈ th.stack, hsPreArm c' x = true := by
      intro c'; rw [hst, hstk]
      rintro ⟨x, hx, hp⟩
      simp at hx
      rcases hx with rfl | hx
      · cases hp
      · exact ⟨x, List.mem_cons_of_mem _ hx, hp⟩
    have htopnone : ∀ x, (th.cont [.runStart (some c)]).stack.head? = some x →
        roleOf (stepFrame s t th (.cArm c)).1.everCalls x = none := by
      intro x hx; rw [hstk] at hx; simp at hx; subst hx; rfl
    have hnpk : ∀ f, NoPassed s f → NoPassed (stepFrame s t th (.cArm c)).1 f := by
      intro f hn'
      refine noPassed_keep hO hth' (fun u x k f _ h1 _ => by rw [← hev]; exact h1) ?_ hn'
      intro x hx; rw [htopnone x hx]; exact ⟨fun h => (by cases h), fun h => (by cases h)⟩
    apply hs_generic (t := t) (some r.fut) hH
    · intro f hf; exact hjn f (ne_of_some_ne hf)
    · intro f hf; exact hcur f (ne_of_some_ne hf)
    · intro f _; exact hsg f
    · intro c hc; rw [hcompl]; exact hc
    · intro c r hc; rw [hev] at hc; exact Or.inl hc
    · intro u hu k f hr; exact role_other_eq hO hev hu hr
    · intro c' r' hc' hf hp
      have : c' ≠ c := by
        intro e; subst e; rw [hevc] at hc'; injection hc' with hc'; subst hc'; exact hf rfl
      exact preArmed_fwd hO hth hth' (hpreF c' this) hp
    · intro c' hp; rw [hcompl]; exact hH.c0 c' (preArmed_bwd hO hth hth' (hpreB c') hp)
    · intro k f hr
      obtain ⟨x, h1, h2⟩ := role_self hth' hr
      rw [htopnone x h1] at h2; cases h2
    · intro f _ hn'; exact Or.inl (hnpk f hn')
    · intro f c' r' hf hc' hrf hcf
      injection hf with hf; subst hf
      rw [hcompl] at hcf
      by_cases hcc : c' = c
      · subst hcc
        right
        refine ⟨hcur0, hjn0, by rw [hsg]; exact hs0, ?_⟩
        intro u
        by_cases hu : u = t
        · subst hu
          constructor <;>
            (intro hr; obtain ⟨x, h1, h2⟩ := role_self hth' hr; rw [htopnone x h1] at h2; cases h2)
        · constructor
          · intro hr
            exact hu (owner_unique hwf h0 (role_other_eq hO hev hu hr) (by decide) hrole (by decide))
          · intro hr
            exact hu (owner_unique hwf h0 (role_other_eq hO hev hu hr) (by decide) hrole (by decide))
      · rcases hH.q c' r' hc' hcf with h1 | ⟨_, h1, _⟩
        · exact Or.inl (preArmed_fwd hO hth hth' (hpreF c' hcc) h1)
        · rw [hrf, hj0] at h1; cases h1
    · intro f hf h
      injection hf with hf; subst hf
      rw [hjn0] at h; cases h
    · intro f hf h
      injection hf with hf; subst hf
      rw [hsg, hs0] at h; cases h
    · intro f hf h
      injection hf with hf; subst hf
      rw [hjn0] at h; cases h
    · intro f hf u hu k hr
      injection hf with hf; subst hf
      cases k with
      | exec => have := (hH.top u _ _ hr).1; rw [hj0] at this; cases this
      | after => exact absurd (owner_unique hwf h0 hr (by decide) hrole (by decide)) hu
      | passed => exact absurd (owner_unique hwf h0 hr (by decide) hrole (by decide)) hu
      | rstDone => exact absurd (owner_unique hwf h0 hr (by decide) hrole (by decide)) hu

theorem hs_joinClr {f : Nat} (hwf : s.cfg.WellFormed) (hS : SimInv cfg s) (h0 : Inv0 s) (hH : HsInv s)
    (hth : s.threads t = some th) (hst : th.stack = .joinClr f :: rest) :
    HsInv (stepFrame s t th (.joinClr f)).1 := by
  have hO := others_of_step hS hth hst
  have hrole : Role s t .rstDone f := ⟨_, ⟨th, hth, head_of hst⟩, rfl⟩
  obtain ⟨hd, hs⟩ := hH.top t _ _ hrole
  have hch := h0.chain t th hth
  rw [hst, chainOk_cons] at hch
  obtain ⟨b, hb1, hb2⟩ := hch.1
  have hth' : (stepFrame s t th (.joinClr f)).1.threads t = some (th.cont []) := by
    simp [stepFrame, setThread, upd_same]
  have hev : (stepFrame s t th (.joinClr f)).1.everCalls = s.everCalls := by
    simp [stepFrame, setThread, setFut]
  have hcompl : (stepFrame s t th (.joinClr f)).1.completed = s.completed := by
    simp [stepFrame, setThread, setFut]
  have hjn : ∀ f', f' ≠ f → jn (stepFrame s t th (.joinClr f)).1 f' = jn s f' := by
    intro f' hf; simp [stepFrame, setThread, setFut, jn, upd, hf]
  have hcur : ∀ f', cur (stepFrame s t th (.joinClr f)).1 f' = cur s f' := by
    intro f'; simp [stepFrame, setThread, setFut, cur, upd]; split <;> simp_all
  have hjn0 : jn (stepFrame s t th (.joinClr f)).1 f = false := by
    simp [stepFrame, setThread, setFut, jn, upd]
  have hsg : ∀ f', sg (stepFrame s t th (.joinClr f)).1 f' = sg s f' := by
    intro f'; simp [stepFrame, setThread, setFut, sg]
  have hstk : (th.cont []).stack = rest := by simp [Thread.cont, hst]
  have hpre : ∀ c, (∃ x ∈ (th.cont []).stack, hsPreArm c x = true) ↔ (∃ x ∈ th.stack, hsPreArm c x = true) := by
    intro c; rw [hst, hstk]
    exact preArm_same_tail (fs := []) rfl (by intro x hx; cases hx)
  have htop : ∀ x, (th.cont []).stack.head? = some x →
      roleOf (stepFrame s t th (.joinClr f)).1.everCalls x = some (.after, f) := by
    intro x hx; rw [hstk, hb1] at hx; injection hx with hx; subst hx; rw [hev]; exact afterB_role hb2
  have hdc : DoneCur (stepFrame s t th (.joinClr f)).1 f :=
    doneCur_mono (hcur _) (fun c hc => by rw [hcompl]; exact hc) hd
  have hnpk : ∀ f', NoPassed s f' → NoPassed (stepFrame s t th (.joinClr f)).1 f' := by
    intro f' hn'
    refine noPassed_keep hO hth' (fun u x k f _ h1 _ => by rw [← hev]; exact h1) ?_ hn'
    intro x hx; rw [htop x hx]; exact ⟨fun h => (by cases h), fun h => (by cases h)⟩
  apply hs_generic (t := t) (some f) hH
  · intro f' hf; exact hjn f' (ne_of_some_ne hf)
  · intro f' _; exact hcur f'
  · intro f' _; exact hsg f'
  · intro c hc; rw [hcompl]; exact hc
  · intro c r hc; rw [hev] at hc; exact Or.inl hc
  · intro u hu k f hr; exact role_other_eq hO hev hu hr
  · intro c r _ _ hp; exact preArmed_fwd hO hth hth' (hpre c).mpr hp
  · intro c hp; rw [hcompl]; exact hH.c0 c (preArmed_bwd hO hth hth' (hpre c).mp hp)
  · intro k f' hr
    obtain ⟨x, h1, h2⟩ := role_self hth' hr
    rw [htop x h1] at h2; injection h2 with h2; injection h2 with h3 h4; subst h3; subst h4
    exact ⟨hjn0, fun h => by cases h⟩
  · intro f' _ hn'; exact Or.inl (hnpk f' hn')
  · intro f' c r hf hc hrf hcf
    injection hf with hf; subst hf
    rw [hcompl] at hcf
    rcases hH.q c r hc hcf with h1 | ⟨h1, _⟩
    · exact Or.inl (preArmed_fwd hO hth hth' (hpre c).mpr h1)
    · rw [hrf] at h1; rw [hd c h1] at hcf; cases hcf
  · intro f' hf _
    injection hf with hf; subst hf; rw [hsg]; exact hs
  · intro f' hf h
    injection hf with hf; subst hf; rw [hsg, hs] at h; cases h
  · intro f' hf _
    injection hf with hf; subst hf; exact hdc
  · intro f' hf u hu k hr
    injection hf with hf; subst hf
    cases k with
    | exec => exact absurd hrole ((hH.top u _ _ hr).2.2.1 t).2
    | after => exact absurd (owner_unique hwf h0 hr (by decide) hrole (by decide)) hu
    | passed => exact absurd (owner_unique hwf h0 hr (by decide) hrole (by decide)) hu
    | rstDone => exact absurd (owner_unique hwf h0 hr (by decide) hrole (by decide)) hu

theorem hs_destroyF {f : Nat} (hwf : s.cfg.WellFormed) (hS : SimInv cfg s) (h0 : Inv0 s) (hH : HsInv s)
    (hth : s.threads t = some th) (hst : th.stack = .destroyF f :: rest) :
    HsInv (stepFrame s t th (.destroyF f)).1 := by
  have hO := others_of_step hS hth hst
  have hrole : Role s t .after f := ⟨_, ⟨th, hth, head_of hst⟩, rfl⟩
  have hj0 : jn s f = false := hH.top t _ _ hrole
  have hch := h0.chain t th hth
  rw [hst, chainOk_cons] at hch
  have hlink : RelOther rest.head? := hch.1
  have hth' : (stepFrame s t th (.destroyF f)).1.threads t = some (th.cont []) := by
    simp [stepFrame, setThread, upd_same]
  have hev : (stepFrame s t th (.destroyF f)).1.everCalls = s.everCalls := by
    simp [stepFrame, setThread, setFut, destroySig, setSig]
  have hcompl : (stepFrame s t th (.destroyF f)).1.completed = s.completed := by
    simp [stepFrame, setThread, setFut, destroySig, setSig]
  have hjn : ∀ f', f' ≠ f → jn (stepFrame s t th (.destroyF f)).1 f' = jn s f' := by
    intro f' hf; simp [stepFrame, setThread, setFut, destroySig, setSig, jn, upd, hf]
  have hcur : ∀ f', f' ≠ f → cur (stepFrame s t th (.destroyF f)).1 f' = cur s f' := by
    intro f' hf; simp [stepFrame, setThread, setFut, destroySig, setSig, cur, upd, hf]
  have hsg : ∀ f', f' ≠ f → sg (stepFrame s t th (.destroyF f)).1 f' = sg s f' := by
    intro f' hf; simp [stepFrame, setThread, setFut, destroySig, setSig, sg, upd, hf]
  have hjn0 : jn (stepFrame s t th (.destroyF f)).1 f = false := by
    simp [stepFrame, setThread, setFut, destroySig, setSig, jn, upd]
  have hcur0 : cur (stepFrame s t th (.destroyF f)).1 f = none := by
    simp [stepFrame, setThread, setFut, destroySig, setSig, cur, upd]
  have hsg0 : sg (stepFrame s t th (.destroyF f)).1 f = false := by
    simp [stepFrame, setThread, setFut, destroySig, setSig, sg, upd]
  have hstk : (th.cont []).stack = rest := by simp [Thread.cont, hst]
  have hpre : ∀ c, (∃ x ∈ (th.cont []).stack, hsPreArm c x = true) ↔ (∃ x ∈ th.stack, hsPreArm c x = true) := by
    intro c; rw [hst, hstk]
    exact preArm_same_tail (fs := []) rfl (by intro x hx; cases hx)
  have htop : ∀ x, (th.cont []).stack.head? = some x →
      roleOf (stepFrame s t th (.destroyF f)).1.everCalls x = none := by
    intro x hx; rw [hstk] at hx; exact dull_role (openB_dull (hlink x hx))
  have hnpk : ∀ f', NoPassed s f' → NoPassed (stepFrame s t th (.destroyF f)).1 f' := by
    intro f' hn'
    refine noPassed_keep hO hth' (fun u x k f _ h1 _ => by rw [← hev]; exact h1) ?_ hn'
    intro x hx; rw [htop x hx]; exact ⟨fun h => (by cases h), fun h => (by cases h)⟩
  apply hs_generic (t := t) (some f) hH
  · intro f' hf; exact hjn f' (ne_of_some_ne hf)
  · intro f' hf; exact hcur f' (ne_of_some_ne hf)
  · intro f' hf; exact hsg f' (ne_of_some_ne hf)
  · intro c hc; rw [hcompl]; exact hc
  · intro c r hc; rw [hev] at hc; exact Or.inl hc
  · intro u hu k f hr; exact role_other_eq hO hev hu hr
  · intro c r _ _ hp; exact preArmed_fwd hO hth hth' (hpre c).mpr hp
  · intro c hp; rw [hcompl]; exact hH.c0 c (preArmed_bwd hO hth hth' (hpre c).mp hp)
  · intro k f' hr
    obtain ⟨x, h1, h2⟩ := role_self hth' hr
    rw [htop x h1] at h2; cases h2
  · intro f' _ hn'; exact Or.inl (hnpk f' hn')
  · intro f' c r hf hc hrf hcf
    injection hf with hf; subst hf
    rw [hcompl] at hcf
    rcases hH.q c r hc hcf with h1 | ⟨_, h1, _⟩
    · exact Or.inl (preArmed_fwd hO hth hth' (hpre c).mpr h1)
    · rw [hrf, hj0] at h1; cases h1
  · intro f' hf _
    injection hf with hf; subst hf; exact hsg0
  · intro f' hf h
    injection hf with hf; subst hf; rw [hsg0] at h; cases h
  · intro f' hf _
    injection hf with hf; subst hf
    intro c hc; rw [hcur0] at hc; cases hc
  · intro f' hf u hu k hr
    injection hf with hf; subst hf
    cases k with
    | exec => have := (hH.top u _ _ hr).1; rw [hj0] at this; cases this
    | after => exact absurd (owner_unique hwf h0 hr (by decide) hrole (by decide)) hu
    | passed => exact absurd (owner_unique hwf h0 hr (by decide) hrole (by decide)) hu
    | rstDone => exact absurd (owner_unique hwf h0 hr (by decide) hrole (by decide)) hu

end frames

end Nstd.Future
