/-
  Completion handshake of a Future, part 10: more frames that change only the top of the stack
  (`proc` before/after the exchange, `join`, the client dispatcher except `start`).
-/
import Nstd.Future.Handshake9
set_option linter.unusedSimpArgs false
set_option linter.unusedVariables false
namespace Nstd.Future

section frames
variable {cfg : Config} {s : State} {t : Tid} {th : Thread} {rest : List Frame}

theorem hs_pStore {c : Nat} (hS : SimInv cfg s) (h0 : Inv0 s) (hH : HsInv s)
    (hth : s.threads t = some th) (hst : th.stack = .pStore c :: rest) :
    HsInv (stepFrame s t th (.pStore c)).1 := by
  have hO := others_of_step hS hth hst
  cases hc : s.calls c with
  | none => simp only [stepFrame, hc]; exact hs_fault _ hH
  | some r =>
    refine hs_toponly (th' := th.cont [.pSetRd c]) hH hO hth (head_of hst) ?_ ?_ ?_ ?_ ?_ ?_ ?_ ?_
    · simp only [stepFrame, hc]; split <;> simp [setThread, upd_same]
    · intro f; simp only [stepFrame, hc]; split <;> simp [setThread, setFut, jn, upd]; split <;> simp_all
    · intro f; simp only [stepFrame, hc]; split <;> simp [setThread, setFut, cur, upd]; split <;> simp_all
    · intro f; simp only [stepFrame, hc]; split <;> simp [setThread, setFut, sg, upd]
    · simp only [stepFrame, hc]; split <;> simp [setThread, setFut]
    · simp only [stepFrame, hc]; split <;> simp [setThread, setFut]
    · intro c; simp [Thread.cont, hst, hsPreArm]
    · intro x hx k f hr
      simp [Thread.cont, hst] at hx; subst hx
      simp [roleOf] at hr

theorem hs_pSetRd {c : Nat} (hS : SimInv cfg s) (h0 : Inv0 s) (hH : HsInv s)
    (hth : s.threads t = some th) (hst : th.stack = .pSetRd c :: rest) :
    HsInv (stepFrame s t th (.pSetRd c)).1 := by
  have hO := others_of_step hS hth hst
  cases hc : s.calls c with
  | none => simp only [stepFrame, hc]; exact hs_fault _ hH
  | some r =>
    refine hs_toponly (th' := th.cont [.pSetX c (s.futs r.fut).aborting]) hH hO hth (head_of hst) ?_ ?_ ?_ ?_ ?_ ?_ ?_ ?_
    · simp [stepFrame, setThread, upd_same, hc]
    · hs_view
    · hs_view
    · hs_view
    · hs_view
    · hs_view
    · intro c; simp [Thread.cont, hst, hsPreArm]
    · intro x hx k f hr
      simp [Thread.cont, hst] at hx; subst hx
      simp [roleOf] at hr

theorem hs_pSig {c : Nat} (hS : SimInv cfg s) (h0 : Inv0 s) (hH : HsInv s)
    (hth : s.threads t = some th) (hst : th.stack = .pSig c :: rest) :
    HsInv (stepFrame s t th (.pSig c)).1 := by
  have hO := others_of_step hS hth hst
  cases hc : s.calls c with
  | none => simp only [stepFrame, hc]; exact hs_fault _ hH
  | some r =>
    have hev := h0.callsEv c r hc
    have hrole : roleOf s.everCalls (.pSig c) = some (.exec, r.fut) := by simp [roleOf, hev]
    refine hs_toponly (th' := th.cont [.sSetLock (r.fut + 2), .pDelete c]) hH hO hth (head_of hst) ?_ ?_ ?_ ?_ ?_ ?_ ?_ ?_
    · simp [stepFrame, setThread, upd_same, hc]
    · hs_view
    · hs_view
    · hs_view
    · hs_view
    · hs_view
    · intro c; simp [Thread.cont, hst, hsPreArm]
    · intro x hx k f hr
      simp [Thread.cont, hst] at hx; subst hx
      simp [roleOf] at hr
      obtain ⟨rfl, rfl⟩ := hr
      exact ⟨hH.top t _ _ ⟨_, ⟨th, hth, head_of hst⟩, hrole⟩, fun _ => hrole, fun h => by simp at h⟩

theorem hs_join {f : Nat} (hS : SimInv cfg s) (h0 : Inv0 s) (hH : HsInv s)
    (hth : s.threads t = some th) (hst : th.stack = .join f :: rest) :
    HsInv (stepFrame s t th (.join f)).1 := by
  have hO := others_of_step hS hth hst
  cases hj : (s.futs f).joinable with
  | true =>
    refine hs_toponly (th' := th.cont [.sWaitLock (f + 2), .sRstLock (f + 2), .joinClr f]) hH hO hth (head_of hst)
      ?_ ?_ ?_ ?_ ?_ ?_ ?_ ?_
    · simp [stepFrame, setThread, upd_same, hj]
    · hs_view
    · hs_view
    · hs_view
    · hs_view
    · hs_view
    · intro c; simp [Thread.cont, hst, hsPreArm]
    · intro x hx k f hr
      simp [Thread.cont, hst] at hx; subst hx
      simp [roleOf] at hr
  | false =>
    have hch := h0.chain t th hth
    rw [hst, chainOk_cons] at hch
    obtain ⟨b, hb1, hb2⟩ := hch.1
    refine hs_toponly (th' := th.cont []) hH hO hth (head_of hst) ?_ ?_ ?_ ?_ ?_ ?_ ?_ ?_
    · simp [stepFrame, setThread, upd_same, hj]
    · hs_view
    · hs_view
    · hs_view
    · hs_view
    · hs_view
    · intro c; simp [Thread.cont, hst, hsPreArm]
    · intro x hx k f' hr
      simp [Thread.cont, hst, hb1] at hx; subst hx
      rw [afterB_role hb2] at hr
      injection hr with hr; injection hr with h1 h2; subst h1; subst h2
      exact ⟨hj, fun h => by simp at h, fun h => by simp at h⟩

end frames

end Nstd.Future
