/-
  Field `cjIdx` of `L1.Side` (Fair2L1Def.lean) for reachable states.

  No new induction is needed: the invariant `FinInv.jn` of Progress6.lean (`reach_finInv`) already states that a
  thread whose TOP frame is `cleanJoin i w` sees `p.ctxs[i]? = some c` (with `c.tid = some w`) in the current pool;
  `i < p.ctxs.length` follows.  The hypothesis `cfg.repaired = true` is kept for interface uniformity (not used).
  OPEN: nothing in this file.
-/
import Nstd.Future.Fair2L1Def
import Nstd.Future.Progress
set_option linter.unusedVariables false
namespace Nstd.Future.L1
open Nstd.Future

theorem sdIdxLt {α : Type} {l : List α} {i : Nat} {x : α} (h : l[i]? = some x) : i < l.length := by
  rcases Nat.lt_or_ge i l.length with h1 | h1
  · exact h1
  · rw [List.getElem?_eq_none h1] at h; cases h

/-- stronger form: the context joined by `cleanJoin i w` exists and belongs to thread `w` -/
theorem sdCjCtx {cfg : Config} {s : State} (hr : Reach cfg s) {p : Pool} {t : Tid} {th : Thread} {i : Nat} {w : Tid}
    {rest : List Frame} (hp : s.pool = some p) (hth : s.threads t = some th)
    (hst : th.stack = .cleanJoin i w :: rest) : ∃ c, p.ctxs[i]? = some c ∧ c.tid = some w := by
  have htop : topFrame s t = some (.cleanJoin i w) := by
    simp only [topFrame, hth, hst]; rfl
  exact (reach_finInv hr).jn t i w p htop hp

theorem cjIdx_reach {cfg : Config} {s : State} (hrep : cfg.repaired = true) (hr : Reach cfg s) :
    ∀ p t th i w rest, s.pool = some p → s.threads t = some th → th.stack = .cleanJoin i w :: rest →
      i < p.ctxs.length := by
  intro p t th i w rest hp hth hst
  obtain ⟨c, hc, _⟩ := sdCjCtx hr hp hth hst
  exact sdIdxLt hc

end Nstd.Future.L1
