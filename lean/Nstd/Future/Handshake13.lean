/-
  Completion handshake of a Future, part 13: the dispatcher of a client (`cNext`), including `start`
  (allocation of a new call record).
-/
import Nstd.Future.Handshake12
set_option linter.unusedSimpArgs false
set_option linter.unusedVariables false
namespace Nstd.Future

theorem mem_of_head {l : List Frame} {x : Frame} (h : l.head? = some x) : x ∈ l := by
  cases l with
  | nil => cases h
  | cons a l => simp only [List.head?_cons, Option.some.injEq] at h; subst h; exact List.mem_cons_self ..

theorem role_upd_compat {s : State} (h0 : Inv0 s) (hX : ExecFacts s) {u : Tid} {x : Frame} (htop : TopIs s u x)
    (v : Option CallRec) : roleOf (upd s.everCalls s.nextCall v) x = roleOf s.everCalls x := by
  obtain ⟨thu, h1, h2⟩ := htop
  have hx := mem_of_head h2
  cases x <;> simp only [roleOf] <;> try rfl
  · next c =>
    have hex : executes s u c := ⟨thu, h1, _, hx, by simp [inProc]⟩
    have := (hX.started u c hex).1
    rw [upd_ne _ _ (by omega)]
  · next c =>
    have ho := (h0.own u thu h1).1 _ hx
    simp only [FrOwn] at ho
    obtain ⟨r, h3, _⟩ := ho
    have := h0.evLt c r h3
    rw [upd_ne _ _ (by omega)]

section frames
variable {cfg : Config} {s : State} {t : Tid} {th : Thread} {rest : List Frame}

theorem hs_cNext_start {f : Nat} {a b : Int} {rest' : List ClientOp}
    (hS : SimInv cfg s) (h0 : Inv0 s) (hX : ExecFacts s) (hH : HsInv s)
    (hth : s.threads t = some th) (hst : th.stack = .cNext :: rest) (hscr : th.script = .start f a b :: rest') :
    HsInv (stepFrame s t th .cNext).1 := by
  have hO := others_of_step hS hth hst
  have hth' : ∃ th', (stepFrame s t th .cNext).1.threads t = some th' ∧
      th'.stack = [.cRdTp s.nextCall, .cStarted f a, .cNext] ++ rest := by
    simp only [stepFrame, hscr]
    exact ⟨({ th with script := rest', used := if th.used.contains f then th.used else th.used ++ [f] } : Thread).cont
      [.cRdTp s.nextCall, .cStarted f a, .cNext], by simp [setThread, upd_same], by simp [Thread.cont, hst]⟩
  obtain ⟨th', hth', hstk⟩ := hth'
  have hev : (stepFrame s t th .cNext).1.everCalls = upd s.everCalls s.nextCall (some { a := a, b := b, fut := f }) := by
    simp [stepFrame, hscr, setThread]
  have hcompl : (stepFrame s t th .cNext).1.completed = s.completed := by
    simp [stepFrame, hscr, setThread]
  have hjn : ∀ f, jn (stepFrame s t th .cNext).1 f = jn s f := by
    intro f; simp [stepFrame, hscr, setThread, jn]
  have hcur : ∀ f, cur (stepFrame s t th .cNext).1 f = cur s f := by
    intro f; simp [stepFrame, hscr, setThread, cur]
  have hsg : ∀ f, sg (stepFrame s t th .cNext).1 f = sg s f := by
    intro f; simp [stepFrame, hscr, setThread, sg]
  have hcompat : ∀ u x k f, roleOf (stepFrame s t th .cNext).1.everCalls x = some (k, f) → TopIs s u x →
      roleOf s.everCalls x = some (k, f) := by
    intro u x k f h1 h2
    rw [hev, role_upd_compat h0 hX h2] at h1; exact h1
  have htopnone : ∀ x, th'.stack.head? = some x → roleOf (stepFrame s t th .cNext).1.everCalls x = none := by
    intro x hx; rw [hstk] at hx; simp at hx; subst hx; rfl
  have hpa : PreArmed (stepFrame s t th .cNext).1 s.nextCall :=
    ⟨t, th', .cRdTp s.nextCall, hth', by rw [hstk]; simp, by simp [hsPreArm]⟩
  apply hs_generic (t := t) none hH
  · intro f _; exact hjn f
  · intro f _; exact hcur f
  · intro f _; exact hsg f
  · intro c hc; rw [hcompl]; exact hc
  · intro c r hc
    rw [hev] at hc
    by_cases hcn : c = s.nextCall
    · subst hcn; exact Or.inr hpa
    · rw [upd_ne _ _ hcn] at hc; exact Or.inl hc
  · intro u hu k f hr; exact role_other hO (fun x k f h1 h2 => hcompat u x k f h1 h2) hu hr
  · intro c r _ _ hp
    refine preArmed_fwd hO hth hth' ?_ hp
    rw [hst, hstk]
    rintro ⟨x, hx, hp⟩
    rcases List.mem_cons.mp hx with hx | hx
    · subst hx; cases hp
    · exact ⟨x, List.mem_append_right _ hx, hp⟩
  · intro c hp
    rw [hcompl]
    by_cases hcn : c = s.nextCall
    · cases hcc : s.completed c with
      | false => rfl
      | true => have := h0.complLt c hcc; omega
    · refine hH.c0 c (preArmed_bwd hO hth hth' ?_ hp)
      rw [hst, hstk]
      rintro ⟨x, hx, hp⟩
      simp at hx
      rcases hx with rfl | rfl | rfl | hx
      · simp [hsPreArm] at hp; exact absurd hp.symm hcn
      · cases hp
      · cases hp
      · exact ⟨x, List.mem_cons_of_mem _ hx, hp⟩
  · intro k f hr
    obtain ⟨x, h1, h2⟩ := role_self hth' hr
    rw [htopnone x h1] at h2; cases h2
  · intro f _ hn'
    left
    refine noPassed_keep hO hth' (fun u x k f _ h1 h2 => hcompat u x k f h1 h2) ?_ hn'
    intro x hx; rw [htopnone x hx]; exact ⟨fun h => (by cases h), fun h => (by cases h)⟩
  · intro f c r h; cases h
  · intro f h; cases h
  · intro f h; cases h
  · intro f h; cases h
  · intro f h; cases h

/-- the other operations of the dispatcher only push frames without obligations -/
theorem hs_cNext_other (hS : SimInv cfg s) (h0 : Inv0 s) (hH : HsInv s)
    (hth : s.threads t = some th) (hst : th.stack = .cNext :: rest)
    (hscr : ∀ f a b rest', th.script ≠ .start f a b :: rest') :
    HsInv (stepFrame s t th .cNext).1 := by
  have hO := others_of_step hS hth hst
  have key : ∃ th' x fs, (stepFrame s t th .cNext).1.threads t = some th' ∧ th'.stack = x :: (fs ++ rest) ∧
      roleOf s.everCalls x = none ∧ (∀ c, hsPreArm c x = false) ∧ (∀ c, ∀ y ∈ fs, hsPreArm c y = false) ∧
      (∀ f, jn (stepFrame s t th .cNext).1 f = jn s f) ∧ (∀ f, cur (stepFrame s t th .cNext).1 f = cur s f) ∧
      (∀ f, sg (stepFrame s t th .cNext).1 f = sg s f) ∧ (stepFrame s t th .cNext).1.completed = s.completed ∧
      (stepFrame s t th .cNext).1.everCalls = s.everCalls := by
    cases hs : th.script with
    | nil =>
      refine ⟨({ th with script := [] } : Thread).cont [.cEnd 0], .cEnd 0, [], ?_, ?_, rfl, fun _ => rfl, ?_, ?_, ?_, ?_, ?_, ?_⟩
      · simp only [stepFrame, hs]; simp [setThread, upd_same]
      · simp [Thread.cont, hst]
      · intro c y hy; cases hy
      all_goals simp [stepFrame, hs, setThread, jn, cur, sg]
    | cons op rest' =>
      cases op with
      | start f a b => exact absurd hs (hscr f a b rest')
      | join f =>
        refine ⟨({ th with script := rest' } : Thread).cont [.join f, .evJoined f, .cNext], .join f, [.evJoined f, .cNext], ?_, ?_, rfl, fun _ => rfl, ?_, ?_, ?_, ?_, ?_, ?_⟩
        · simp only [stepFrame, hs]; simp [setThread, upd_same]
        · simp [Thread.cont, hst]
        · intro c y hy; simp at hy; rcases hy with rfl | rfl <;> rfl
        all_goals simp [stepFrame, hs, setThread, jn, cur, sg]
      | result f =>
        refine ⟨({ th with script := rest' } : Thread).cont [.join f, .evResult f, .cNext], .join f, [.evResult f, .cNext], ?_, ?_, rfl, fun _ => rfl, ?_, ?_, ?_, ?_, ?_, ?_⟩
        · simp only [stepFrame, hs]; simp [setThread, upd_same]
        · simp [Thread.cont, hst]
        · intro c y hy; simp at hy; rcases hy with rfl | rfl <;> rfl
        all_goals simp [stepFrame, hs, setThread, jn, cur, sg]
      | destroy f =>
        refine ⟨({ th with script := rest' } : Thread).cont [.join f, .destroyF f, .cNext], .join f, [.destroyF f, .cNext], ?_, ?_, rfl, fun _ => rfl, ?_, ?_, ?_, ?_, ?_, ?_⟩
        · simp only [stepFrame, hs]; simp [setThread, upd_same]
        · simp [Thread.cont, hst]
        · intro c y hy; simp at hy; rcases hy with rfl | rfl <;> rfl
        all_goals simp [stepFrame, hs, setThread, jn, cur, sg]
      | query f =>
        refine ⟨({ th with script := rest' } : Thread).cont [.cNext], .cNext, [], ?_, ?_, rfl, fun _ => rfl, ?_, ?_, ?_, ?_, ?_, ?_⟩
        · simp only [stepFrame, hs]; simp [setThread, upd_same]
        · simp [Thread.cont, hst]
        · intro c y hy; cases hy
        all_goals simp [stepFrame, hs, setThread, jn, cur, sg]
      | abort f =>
        refine ⟨({ th with script := rest' } : Thread).cont [.cNext], .cNext, [], ?_, ?_, rfl, fun _ => rfl, ?_, ?_, ?_, ?_, ?_, ?_⟩
        · simp only [stepFrame, hs]; simp [setThread, upd_same]
        · simp [Thread.cont, hst]
        · intro c y hy; cases hy
        · intro f'; simp [stepFrame, hs, setThread, setFut, jn, upd]; split <;> simp_all
        · intro f'; simp [stepFrame, hs, setThread, setFut, cur, upd]; split <;> simp_all
        all_goals simp [stepFrame, hs, setThread, setFut, jn, cur, sg]
  obtain ⟨th', x, fs, hth', hstk, hx, hxp, hfsp, hjn, hcur, hsg, hcompl, hev⟩ := key
  refine hs_toponly hH hO hth (head_of hst) hth' hjn hcur hsg hcompl hev ?_ ?_
  · intro c; rw [hst, hstk]
    have := preArm_same_tail (c := c) (fr := .cNext) (fs := x :: fs) (rest := rest) rfl
      (by intro y hy; rcases List.mem_cons.mp hy with rfl | hy
          · exact hxp c
          · exact hfsp c y hy)
    simpa using this
  · intro y hy k f hr
    rw [hstk] at hy; simp at hy; subst hy
    rw [hx] at hr; cases hr

end frames

end Nstd.Future
