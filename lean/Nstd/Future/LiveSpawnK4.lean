/-
  `spk_O_le_one`: `SPP.spp_O_le_one` (LiveSpawnP4) without the hypothesis that the pool object exists:
  while a client is alive and `s.pool = none` the pool has not been created yet (`tp = false`), every stack consists of
  pre-pool frames and the O-weight of every thread is 0.
-/
import Nstd.Future.LiveSpawnP4
import Nstd.Future.LiveSpawnK2
set_option linter.unusedSimpArgs false
set_option linter.unusedVariables false
namespace Nstd.Future.SPK

open LS SP

theorem spk_O_le_one {cfg : Config} {s : State} (hrep : cfg.repaired = true) (hr : Reach cfg s)
    {u : Tid} {thu : Thread} (hu : s.threads u = some thu) (hf : thu.finished = false)
    (hcl : thu.isWorker = false) (hu0 : u ≠ 0) : tsum s.nthreads (spOAt s) ≤ 1 := by
  cases hp : s.pool with
  | some p => exact SPP.spp_O_le_one hrep hr hp hu hf hcl hu0
  | none =>
    have huc := spk_is_client hr hu hcl hu0
    have hnall := spk_not_allfin hr hu hf hcl hu0
    have hl : poolAlive s := by
      cases Classical.em (poolAlive s) with
      | inl h => exact h
      | inr h => exact absurd (clients_finished_of_dead hr h) hnall
    have htp : s.tp = false := by
      cases h : s.tp with
      | false => rfl
      | true => exact absurd hp ((Safe.reach_pinv hr).p1 hl h)
    have hE := (reach_inv hr).early hl htp
    have hz : tsum s.nthreads (spOAt s) = 0 := by
      apply tsum_zero_of
      intro v _
      have h1 := SPP.sppOAt_le s v
      have h2 : lsM2At s v = 0 := by
        cases Nat.eq_zero_or_pos (lsM2At s v) with
        | inl h => exact h
        | inr h => exact absurd (lse_m2_allfin hr h) hnall
      have h3 : lsRaAt s v = 0 := by
        simp only [lsRaAt]
        cases hv : s.threads v with
        | none => rfl
        | some thv => exact lsRA_pre (hE.pre v thv hv)
      omega
    omega

end Nstd.Future.SPK
