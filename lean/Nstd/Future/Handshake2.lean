/-
  Completion handshake of a Future, part 2: the stack discipline (ownership of the frames of a client,
  adjacency of frames) is preserved by every micro-step.
-/
import Nstd.Future.Handshake1
set_option linter.unusedSimpArgs false
set_option linter.unusedVariables false
namespace Nstd.Future

/-- every frame of `l` was already below the top frame or is owned -/
def OwnNew (ev : Nat → Option CallRec) (O : Nat → Prop) (rest l : List Frame) : Prop :=
  ∀ x ∈ l, x ∈ rest ∨ FrOwn ev O x
theorem ownNew_nil {ev O rest} : OwnNew ev O rest [] := by intro x hx; cases hx
theorem ownNew_self {ev O rest} : OwnNew ev O rest rest := fun _ hx => Or.inl hx
theorem ownNew_cons {ev O rest a l} : OwnNew ev O rest (a :: l) ↔ (a ∈ rest ∨ FrOwn ev O a) ∧ OwnNew ev O rest l := by
  simp [OwnNew]
def AllO (O : Nat → Prop) (l : List Nat) : Prop := ∀ f ∈ l, O f
def AllOp (O : Nat → Prop) (l : List ClientOp) : Prop := ∀ a ∈ l, O (opFut a)
theorem allOp_nil {O} : AllOp O [] := by intro x hx; cases hx
theorem allOp_cons {O a l} : AllOp O (a :: l) ↔ O (opFut a) ∧ AllOp O l := by simp [AllOp]
theorem allO_snoc {O l f} : AllO O (l ++ [f]) ↔ AllO O l ∧ O f := by
  simp only [AllO, List.mem_append, List.mem_singleton]
  constructor
  · intro h; exact ⟨fun x hx => h x (Or.inl hx), h f (Or.inr rfl)⟩
  · intro h x hx; rcases hx with hx | hx
    · exact h.1 x hx
    · rw [hx]; exact h.2
theorem allO_contains {O l f} (h : AllO O l) (hc : l.contains f = true) : O f := h f (by simpa using hc)

structure HsShapeS (s s' : State) (t : Tid) (O : Nat → Prop) (rest : List Frame) : Prop where
  own : ∃ th', s'.threads t = some th' ∧ OwnNew s'.everCalls O rest th'.stack ∧
      AllOp O th'.script ∧ AllO O th'.used
  chain : ∃ th', s'.threads t = some th' ∧ ChainOk s.everCalls th'.stack

theorem relO_fs_set {ev k o} (h : RelO ev (.fs k) o) : RelO ev (.set k) o := Or.inl h
theorem relO_fs_rst {ev k o} (h : RelO ev (.fs k) o) : RelO ev (.rst k) o := Or.inl h
theorem relO_fs_wait {ev k o} (h : RelO ev (.fs k) o) : RelO ev (.wait k) o := Or.inl h
theorem relO_fs_lt {ev k o} (h : RelO ev (.fs k) o) : k < 2 := h.1
theorem relO_exit_other {ev o} (h : RelO ev .exit o) : RelO ev .other o := by
  intro b hb; rw [h] at hb; cases hb

set_option maxHeartbeats 8000000 in
theorem hsShapeS (s : State) (t : Tid) (th : Thread) (fr : Frame) (rest : List Frame) (O : Nat → Prop)
    (hth : s.threads t = some th) (hst : th.stack = fr :: rest)
    (hce : ∀ c r, s.calls c = some r → s.everCalls c = some r)
    (hfr : FrOwn s.everCalls O fr) (hscr : AllOp O th.script) (hused : AllO O th.used)
    (hlink : RelO s.everCalls (kindA fr) rest.head?) (hch : ChainOk s.everCalls rest) :
    HsShapeS s (stepFrame s t th fr).1 t O rest := by
  cases fr <;> simp only [kindA] at hlink <;> simp only [FrOwn] at hfr <;> simp only [stepFrame] <;> repeat' split
  all_goals
    constructor
    · simp [setThread, setSig, setPool, setFut, withFault, destroySig, upd_same, Thread.cont, hst, hth, FrOwn,
        hfr, hscr, hused, ownNew_cons, ownNew_self, ownNew_nil]
      try first
        | (have hlt := relO_fs_lt hlink; simp [hlt]; done)
        | (simp_all [allOp_cons, allOp_nil, allO_snoc, opFut]; done)
        | (obtain ⟨r', h1, h2⟩ := hfr; have h3 := hce _ _ ‹s.calls _ = some _›
           rw [h1] at h3; injection h3 with h3; subst h3; exact Or.inr h2)
        | (have h3 := allO_contains hused ‹_›; simp [h3]; done)
    · simp [setThread, setSig, setPool, setFut, withFault, destroySig, upd_same, Thread.cont, hst, hth,
        chainOk_cons, chainOk_nil, kindA, hch, hlink]
      try and_intros
      all_goals first
        | exact relO_fs_set hlink
        | exact relO_fs_rst hlink
        | exact relO_fs_wait hlink
        | exact relO_exit_other hlink
        | (have hlt := relO_fs_lt hlink; simp [RelO, RelOther, openB, AfterB, hlt]; done)
        | (simp [RelO, RelOther, openB, AfterB]; done)
        | (have h3 := hce _ _ ‹s.calls _ = some _›; simp [RelO, RelOther, openB, AfterB, h3]; done)

end Nstd.Future
