/-
  LEVEL 1 (`lev1`, Fair2L1Def.lean): step theorems.

  PROVED here (hypothesis: the side invariants `L1.Side s` of the pre-state):
    `lev1_step_quiet` : a micro-step whose top frame is neither a `push`/`pop` frame nor a thread creation
       (`mSpawn`/`runSpStart`) does not increase `lev1` and strictly decreases it when it is a work event.
    `lev1_step_ring`  : the `push`/`pop` frames (from `L1.l1Ring`, Fair2L1C.lean).
  The two thread creations (`mSpawn`, `runSpStart`) are `lev1_step_mSpawn` / `lev1_step_runSpStart` (Fair2L1D.lean); the three are
  composed in `lev1_step_all` (Fair2L1.lean).
  OPEN: nothing in this file.
-/
import Nstd.Future.Fair2L1B
import Nstd.Future.Fair2L1C
set_option linter.unusedVariables false
set_option linter.unusedSimpArgs false
namespace Nstd.Future.L1
open FR F2

set_option maxHeartbeats 4000000 in
/-- the stepping thread keeps its record -/
theorem l1Self (s : State) (t : Tid) (th : Thread) (fr : Frame) (hnr : ∀ pc, fr ≠ .ring pc) :
    (stepFrame s t th fr).1.fault = none → (stepFrame s t th fr).1.threads t ≠ none := by
  cases fr
  case ring pc => exact absurd rfl (hnr pc)
  all_goals
    simp only [stepFrame]
    repeat' split
  all_goals first
    | (intro _; simp [setThread, setSig, setPool, setFut, withFault, destroySig, upd]; done)
    | (intro hf; simp [setThread, setSig, setPool, setFut, withFault, destroySig, upd] at hf; done)

/-- the callers of `push`/`pop` (the only frames whose weight depends on `won`) -/
def isChkL1 : Frame → Bool
  | .runChk1 _ | .runChk2 _ | .runRetAfter | .wChk1 | .wChk2 | .dChk1 _ | .dChk2 _ => true
  | _ => false

theorem w1_indep (N : Nat) (sc : List (List ClientOp)) (a b : Bool) (f : Frame) (h : isChkL1 f = false) :
    w1 N sc a f = w1 N sc b f := by
  cases f <;> first | rfl | (simp [isChkL1] at h; done)

theorem stk_indep (N : Nat) (sc : List (List ClientOp)) (a b : Bool) (l : List Frame)
    (h : ∀ f ∈ l, isChkL1 f = false) : ∀ ab, stk N sc a ab l = stk N sc b ab l := by
  induction l with
  | nil => intro ab; rfl
  | cons f l ih =>
    intro ab
    simp only [stk_cons]
    rw [ih (fun g hg => h g (List.mem_cons_of_mem _ hg)), w1_indep N sc _ (wonOf ab b) f (h f List.mem_cons_self)]

theorem l1SelfRing (s : State) (t : Tid) (th : Thread) (pc : RingPc Job) :
    (stepFrame s t th (.ring pc)).1.fault = none → (stepFrame s t th (.ring pc)).1.threads t ≠ none := by
  cases hp : s.pool with
  | none => intro hf; simp [stepFrame, hp, withFault] at hf
  | some p =>
    simp only [stepFrame, hp]
    rcases hrs : ringStep p.ring pc with ⟨r', res⟩
    cases res with
    | cont pc' => intro _; simp [setThread, upd]
    | pushed ok => intro _; simp [setThread, upd]
    | popped o => rcases o with _ | _ | j <;> intro hf <;> simp [setThread, upd, withFault] at hf ⊢

end Nstd.Future.L1

namespace Nstd.Future
open FR F2 L1

variable {cfg : Config}

theorem lev1_step_quiet {s s' : State} {t : Tid} {o : List String} (hrep : cfg.repaired = true)
    (hr : Reach cfg s) (hs : step s t = some (s', o)) {th : Thread} {fr : Frame} {rest : List Frame}
    (hth : s.threads t = some th) (hst : th.stack = fr :: rest) (hnr : ∀ pc, fr ≠ .ring pc)
    (hsp : FR.spawns fr = false) (hside : L1.Side s) :
    lev1 s' ≤ lev1 s ∧ (workFr s th fr → s' ≠ s → lev1 s' < lev1 s) := by
  have he := step_eq_stepFrame hs hth hst
  have hr' : Reach cfg s' := Reach.step t hr hs
  have hflt : s'.fault = none := no_fault hr'
  have hrep' : s.cfg.repaired = true := by rw [reach_cfg hr]; exact hrep
  have hcfg : s'.cfg = s.cfg := by rw [reach_cfg hr, reach_cfg hr']
  have hn : s'.nthreads = s.nthreads := by rw [he]; exact FR.flNth s t th fr hsp
  have ht : t < s.nthreads := thread_lt hr hth
  have hoth : ∀ u, u < s.nthreads → u ≠ t → L1.thAt s' u = L1.thAt s u := by
    intro u hu hne
    simp only [L1.thAt, hcfg]
    rw [he, FR.flOthers s t th fr u hne (Nat.ne_of_lt hu)]
  have hsum := tsum_upd (f := L1.thAt s) (g := L1.thAt s') ht hoth
  have h0 : L1.thAt s t = thw (nCfg s.cfg.scripts) s.cfg.scripts th := by simp only [L1.thAt, hth]
  have hcj : ∀ i w, fr = .cleanJoin i w → ∀ p, s.pool = some p → i < p.ctxs.length := by
    intro i w hfr p hp
    subst hfr
    exact hside.cjIdx p t th i w rest hp hth hst
  cases hth' : s'.threads t with
  | none =>
    exfalso
    rw [he] at hflt hth'
    exact l1Self s t th fr hnr hflt hth'
  | some th' =>
    have h1 : L1.thAt s' t = thw (nCfg s.cfg.scripts) s.cfg.scripts th' := by simp only [L1.thAt, hth', hcfg]
    rw [he] at hth' hflt
    have hle := l1ShapeLe (nCfg s.cfg.scripts) s.cfg.scripts s t th fr rest hst hrep' hnr hsp hside.ctxsLe hcj
      th' hth' hflt
    rw [← he] at hle
    refine ⟨?_, fun hw hne => ?_⟩
    · simp only [lev1, hn]; omega
    · rw [he] at hne
      have hlt := l1ShapeLt (nCfg s.cfg.scripts) s.cfg.scripts s t th fr rest hst hrep' hnr hsp hside.ctxsLe hcj
        hw hne th' hth' hflt
      rw [← he] at hlt
      simp only [lev1, hn]; omega

/-- a `push`/`pop` micro-step; `hnc`: no caller of `push`/`pop` deeper in the stack -/
theorem lev1_step_ring {s s' : State} {t : Tid} {o : List String} (hrep : cfg.repaired = true)
    (hr : Reach cfg s) (hs : step s t = some (s', o)) {th : Thread} {pc : RingPc Job} {rest : List Frame}
    (hth : s.threads t = some th) (hst : th.stack = .ring pc :: rest) (hside : L1.Side s)
    (hnc : ∀ f ∈ rest.drop 1, L1.isChkL1 f = false) :
    lev1 s' ≤ lev1 s ∧ (workFr s th (.ring pc) → lev1 s' < lev1 s) := by
  obtain ⟨c, rest', hrest, hcal⟩ := hside.caller t th pc rest hth hst
  subst hrest
  have he := step_eq_stepFrame hs hth hst
  have hr' : Reach cfg s' := Reach.step t hr hs
  have hflt : s'.fault = none := no_fault hr'
  have hcfg : s'.cfg = s.cfg := by rw [reach_cfg hr, reach_cfg hr']
  have hn : s'.nthreads = s.nthreads := by rw [he]; exact FR.flNth s t th _ rfl
  have ht : t < s.nthreads := thread_lt hr hth
  have hoth : ∀ u, u < s.nthreads → u ≠ t → L1.thAt s' u = L1.thAt s u := by
    intro u hu hne
    simp only [L1.thAt, hcfg]
    rw [he, FR.flOthers s t th _ u hne (Nat.ne_of_lt hu)]
  have hsum := tsum_upd (f := L1.thAt s) (g := L1.thAt s') ht hoth
  have h0 : L1.thAt s t = thw (nCfg s.cfg.scripts) s.cfg.scripts th := by simp only [L1.thAt, hth]
  have hidx : ∀ i, (c = .dChk1 i ∨ c = .dChk2 i) → i < nCfg s.cfg.scripts := by
    intro i hi
    rcases hi with hi | hi <;> subst hi
    · exact hside.dtorIdx t th pc i rest' hth (Or.inl hst)
    · exact hside.dtorIdx t th pc i rest' hth (Or.inr hst)
  have hpop : ∀ p h, s.pool = some p → pc = .popCas h → p.ring.head = h → h < p.ring.tail := by
    intro p h hp hpc hh
    subst hpc
    exact hside.popWin p t th h _ hp hth hst hh
  have hind : ∀ b, stk (nCfg s.cfg.scripts) s.cfg.scripts b none rest'
      = stk (nCfg s.cfg.scripts) s.cfg.scripts th.retB none rest' :=
    fun b => stk_indep _ _ b th.retB rest' (by simpa using hnc) none
  cases hth' : s'.threads t with
  | none =>
    exfalso
    rw [he] at hflt hth'
    exact l1SelfRing s t th pc hflt hth'
  | some th' =>
    have h1 : L1.thAt s' t = thw (nCfg s.cfg.scripts) s.cfg.scripts th' := by simp only [L1.thAt, hth', hcfg]
    rw [he] at hth' hflt
    have hboth := l1Ring (nCfg s.cfg.scripts) s.cfg.scripts s t th pc c rest' hst hcal hidx hpop hind th' hth' hflt
    rw [← he] at hboth
    obtain ⟨hle, hlt⟩ := hboth
    refine ⟨?_, fun hw => ?_⟩
    · simp only [lev1, hn]; omega
    · have := hlt hw
      simp only [lev1, hn]; omega

end Nstd.Future
