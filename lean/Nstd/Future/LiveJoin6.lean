/-
  Join side of deadlock freedom, part 6: the argument.  `no_stuck_join_side_of`: given the facts `JoinFacts`
  about the state (proved / open: see `LiveJoin.lean`), a client sleeping in `join()` while a worker is alive
  implies that some thread can step.
-/
import Nstd.Future.LiveJoin5
import Nstd.Future.LiveWorker
import Nstd.Future.LiveProducer
set_option linter.unusedSimpArgs false
set_option linter.unusedVariables false
namespace Nstd.Future.LJ

/-- the facts about a state the join-side argument uses -/
structure JoinFacts (s : State) : Prop where
  /-- a thread inside `_sig.wait()` of `join()` of future `f`: the future is joinable -/
  jw : ∀ u x f, topFrame s u = some x → kindA x = .wait (f + 2) → (s.futs f).joinable = true
  /-- a joinable future has a current call -/
  jc : ∀ f, (s.futs f).joinable = true → ∃ c, (s.futs f).curCall = some c
  /-- the current call of a future has left the prefix of `startProc` -/
  np : ∀ f c, (s.futs f).curCall = some c → ∀ u thu fr, s.threads u = some thu → fr ∈ thu.stack → preArm c fr = false
  /-- completion is published: once the current call has completed and the future is still joinable, its signal
      is set, or its executor is between the exchange of `_state` and the store of `Signal::set`, or the owner
      has seen the signal -/
  flag : ∀ f c, (s.futs f).curCall = some c → s.completed c = true → (s.futs f).joinable = true →
      (s.sigs (f + 2)).signaled = true ∨ (∃ u, Role s u .exec f) ∨ (∃ u, Role s u .passed f ∨ Role s u .rstDone f)
  /-- a thread waiting on the enqueued signal is an idle worker: no token below -/
  fw0 : ∀ u thu x rest, s.threads u = some thu → thu.stack = x :: rest → kindA x = .wait 0 →
      ∀ fr ∈ rest, ∀ c, fw c thu.retJob fr = 0
  /-- below a `wait` on a future signal (client in `join()`) only the frames of `startProc`'s prefix carry a token -/
  jt : ∀ u thu x rest σ, s.threads u = some thu → thu.stack = x :: rest → kindA x = .wait σ → 2 ≤ σ →
      ∀ fr ∈ rest, ∀ c, 1 ≤ fw c thu.retJob fr → preArm c fr = true

section
variable {cfg : Config} {s : State}

theorem topFrame_of_stack {t : Tid} {th : Thread} {a : Frame} {l : List Frame} (hth : s.threads t = some th)
    (hst : th.stack = a :: l) : topFrame s t = some a := by
  simp [topFrame, hth, hst]

/-- in a deadlock every top frame is `sWaitCwake`, `mJoin` or `dJoin` -/
theorem dead_top_kind (hr : Reach cfg s) (hdead : ∀ u, enabled s u = false) {t : Tid} {fr : Frame}
    (ht : topFrame s t = some fr) :
    (∃ σ, fr = .sWaitCwake σ ∧ t ∈ (s.sigs σ).waiters) ∨ (∃ i, fr = .mJoin i) ∨ (∃ i, fr = .dJoin i) := by
  rcases global_deadlock_shape hr hdead ht with ⟨σ, h1, h2, _⟩ | h | h
  · exact Or.inl ⟨σ, h1, h2⟩
  · exact Or.inr (Or.inl h)
  · exact Or.inr (Or.inr h)

theorem role_dead (hr : Reach cfg s) (hdead : ∀ u, enabled s u = false) {u : Tid} {k : RK} {f : Nat}
    (h : Role s u k f) : False := by
  obtain ⟨x, ⟨thu, hthu, hx⟩, hro⟩ := h
  have ht : topFrame s u = some x := by simp [topFrame, hthu, hx]
  rcases dead_top_kind hr hdead ht with ⟨σ, rfl, _⟩ | ⟨i, rfl⟩ | ⟨i, rfl⟩ <;> simp [roleOf] at hro

theorem no_stuck_join_side_of (hJ : JoinFacts s) (hrep : cfg.repaired = true) (hwf : cfg.WellFormed)
    (hr : Reach cfg s)
    (hsl : ∃ t f, topFrame s t = some (.sWaitCwake (f + 2)) ∧ t ∈ (s.sigs (f + 2)).waiters)
    (hw : ∃ w, liveWorker s w) (hdeq : ¬ ∃ t, asleepOnDeq s t) : ∃ t, enabled s t = true := by
  cases Classical.em (∃ t, enabled s t = true) with
  | inl h => exact h
  | inr hne =>
    exfalso
    have hdead : ∀ u, enabled s u = false := by
      intro u
      cases h : enabled s u with
      | false => rfl
      | true => exact absurd ⟨u, h⟩ hne
    obtain ⟨t, f, htop, hwait⟩ := hsl
    have hl : poolAlive s := by
      cases Classical.em (poolAlive s) with
      | inl h => exact h
      | inr h => have := (dead_top hr h htop).2; cases this
    have hjn := hJ.jw t _ f htop rfl
    obtain ⟨c, hc⟩ := hJ.jc f hjn
    obtain ⟨r, hev, _⟩ := (reach_inv0 hr).curLt f c hc
    have hcl : c < s.nextCall := (reach_inv0 hr).evLt c r hev
    cases hcomp : s.completed c with
    | true =>
      rcases hJ.flag f c hc hcomp hjn with hsg | ⟨u, hex⟩ | ⟨u, hps | hps⟩
      · obtain ⟨u, _, hu⟩ := future_sleeper_has_setter hwf hrep hr hwait hsg
        rw [hdead u] at hu; cases hu
      · exact role_dead hr hdead hex
      · exact role_dead hr hdead hps
      · exact role_dead hr hdead hps
    | false =>
      rcases uncompleted_call_has_holder hr hl hcl hcomp with ⟨u, thu, hthu, hfin, hwt⟩ | ⟨p, x, hp, h1, h2, _⟩ |
        ⟨p, x, u, thu, hp, _, hthu, hfin, hx⟩
      · -- a thread holds the token
        rcases weight_pos_cases hwt with ⟨a, l, hst, ha⟩ | ⟨fr, hfr, hfw⟩
        · have ht := topFrame_of_stack hthu hst
          rcases dead_top_kind hr hdead ht with ⟨σ, rfl, _⟩ | ⟨i, rfl⟩ | ⟨i, rfl⟩ <;> simp [topW, fw] at ha
        · cases hst : thu.stack with
          | nil => rw [hst] at hfr; cases hfr
          | cons a l =>
            rw [hst] at hfr
            simp only [List.tail_cons] at hfr
            have ht := topFrame_of_stack hthu hst
            rcases dead_top_kind hr hdead ht with ⟨σ, rfl, hwt2⟩ | ⟨i, rfl⟩ | ⟨i, rfl⟩
            · -- asleep on a signal
              have hσ : σ = 0 ∨ σ = 1 ∨ 2 ≤ σ := by omega
              rcases hσ with rfl | rfl | hσ
              · have := hJ.fw0 u thu _ l hthu hst rfl fr hfr c
                omega
              · exact hdeq ⟨u, ht, hwt2⟩
              · have hpa := hJ.jt u thu _ l σ hthu hst rfl hσ fr hfr c hfw
                have := hJ.np f c hc u thu fr hthu (by rw [hst]; exact List.mem_cons_of_mem _ hfr)
                rw [hpa] at this; cases this
            · have hbo : BotOnly (.mJoin i :: l) := by rw [← hst]; exact (reach_join hr).botOnly u thu hthu
              have := botOnly_cons_bot rfl hbo
              subst this; cases hfr
            · have hbo : BotOnly (.dJoin i :: l) := by rw [← hst]; exact (reach_join hr).botOnly u thu hthu
              have := botOnly_cons_bot rfl hbo
              subst this; cases hfr
      · -- the job is queued: the worker side
        obtain ⟨v, hv⟩ := no_stuck_worker_side hrep hr ⟨p, hp, by omega⟩ hw
        rw [hdead v] at hv; cases hv
      · -- a popper is about to read it
        have ht : topFrame s u = some (.ring (.popData x)) := by simp [topFrame, hthu, hx]
        rcases dead_top_kind hr hdead ht with ⟨σ, h, _⟩ | ⟨i, h⟩ | ⟨i, h⟩ <;> cases h

end

end Nstd.Future.LJ
