/-
  Shutdown side of deadlock freedom, part 3: the counting invariant `LsInv` holds in every reachable state of the
  repaired model (`ls_reach`).
-/
import Nstd.Future.LiveShutdown2
set_option linter.unusedSimpArgs false
set_option linter.unusedVariables false
namespace Nstd.Future.LS

/-- the destructor has left its push loop (`dJoin`/`dFin` on some stack; by `JoinInv` that is thread 0) -/
def lsDone (s : State) : Prop := ∃ u th, s.threads u = some th ∧ 1 ≤ lsum lsDJ th.stack

structure LsInv (s : State) : Prop where
  cb : ∀ t th, s.threads t = some th → LsCB th.stack
  pay : ∀ t th, s.threads t = some th → LsPayOk th.stack
  k1 : ∀ p, s.pool = some p →
    tsum s.nthreads (lsAt p.ring.pushLog s) ≤ lsTq p.ring.head p.ring.pushLog + p.threadCount
  k2 : ∀ p, s.pool = some p → lsDone s →
    tsum s.nthreads (lsAt p.ring.pushLog s) ≤ lsTq p.ring.head p.ring.pushLog

theorem lsInv_init (cfg : Config) : LsInv (State.init cfg) := by
  have hthr : ∀ t th, (State.init cfg).threads t = some th → th = { stack := [Frame.mInit] } := by
    intro t th h
    simp only [State.init] at h
    split at h
    · injection h with h; exact h.symm
    · cases h
  refine ⟨?_, ?_, ?_, ?_⟩
  · intro t th h; rw [hthr t th h]; simp [lsCB_cons, lsCB_nil, lsAllB_nil]
  · intro t th h; rw [hthr t th h]; simp [lsPayOk_cons, lsPayOk_nil, lsPadj]
  · intro p h; simp [State.init] at h
  · intro p h; simp [State.init] at h

/-! ### helpers -/

theorem ls_cont_none {r r' : Ring Job} {pc pc' : RingPc Job} (h : ringStep r pc = (r', .cont pc')) :
    lsNonePc pc' = lsNonePc pc := by
  cases pc <;> simp only [ringStep] at h
  all_goals first
    | (split at h <;> (injection h with h1 h2; first | (injection h2 with h2; subst h2; rfl) | cases h2))
    | (injection h with h1 h2; first | (injection h2 with h2; subst h2; rfl) | cases h2)

/-- extending the push log does not change the weight of a thread of a reachable state -/
theorem ls_log_stable {cfg : Config} {s : State} {p : Pool} (hr : Reach cfg s) (hp : s.pool = some p)
    {u : Tid} {thu : Thread} (hthu : s.threads u = some thu) (d : Job) :
    lsW (p.ring.pushLog ++ [d]) thu = lsW p.ring.pushLog thu := by
  simp only [lsW]
  apply lsStk_log
  · intro x hx; cases hx
  · intro f hf x hx
    have hlt : x < p.ring.pushLog.length := by
      cases hst : thu.stack with
      | nil => rw [hst] at hf; cases hf
      | cons a l =>
        rw [hst] at hf
        rcases List.mem_cons.mp hf with rfl | hf
        · cases f <;> simp only [lsRingOf, lsTicket] at hx <;> try cases hx
          next pc =>
            cases pc <;> simp only [lsTicket] at hx <;> try cases hx
            · exact (full_popData_slot hr hp hthu (by rw [hst]; rfl)).1
            · exact (full_popRel_payload hr hp hthu (by rw [hst]; rfl)).1
        · have := (reach_inv hr).ringTopOnly u thu hthu
          rw [hst] at this
          have := this f hf
          cases f <;> simp only [lsRingOf, lsTicket] at hx <;> try cases hx
          simp [special] at this
    exact List.getElem?_append_left hlt

theorem lsVal_fresh_worker (log : List Job) :
    lsVal log (some { stack := [.tStart, .wPop1], isWorker := true }) = 1 := by
  simp [lsVal, lsW, lsFr, lsRingOf]

theorem lsVal_fresh_client (log : List Job) (sc : List ClientOp) :
    lsVal log (some { stack := [.tStart, .cNext], script := sc }) = 0 := by
  simp [lsVal, lsW, lsFr, lsRingOf]

/-- per-thread sums across one step: `nw` = weight of the thread created by the step (0 if none) -/
theorem ls_sum {s s' : State} {t : Tid} {f g : Nat → Nat} (ht : t < s.nthreads)
    (hoth : ∀ u, u < s.nthreads → u ≠ t → g u = f u)
    (hn : s'.nthreads = s.nthreads ∨ s'.nthreads = s.nthreads + 1) :
    tsum s'.nthreads g + f t = tsum s.nthreads f + g t + (if s'.nthreads = s.nthreads then 0 else g s.nthreads) := by
  have := tsum_upd (f := f) (g := g) ht hoth
  rcases hn with hn | hn
  · rw [hn]; simp; omega
  · rw [hn]; simp only [tsum]
    have : ¬ (s.nthreads + 1 = s.nthreads) := by omega
    simp only [this, if_false]; omega

/-- frames possible while `tp = false`, except the destructor loop, weigh nothing -/
theorem lsFr_pre (rb : Bool) (rj : Job) (log : List Job) (ab : Option (RingPc Job)) {f : Frame}
    (h : prePool f = true) (hd : ∀ i, f ≠ .dPush i) : lsFr rb rj log ab f = 0 := by
  cases f <;> first | rfl | (simp [prePool] at h; done) | (exact absurd rfl (hd _))

theorem lsStk_pre (rb : Bool) (rj : Job) (log : List Job) (ab : Option (RingPc Job)) {l : List Frame}
    (h : AllPre l) (hd : ∀ f ∈ l, ∀ i, f ≠ .dPush i) : lsStk rb rj log ab l = 0 := by
  induction l generalizing ab with
  | nil => rfl
  | cons a l ih =>
    rw [allPre_cons] at h
    simp only [lsStk_cons, lsFr_pre rb rj log ab h.1 (hd a (List.mem_cons_self ..)),
      ih _ h.2 (fun f hf => hd f (List.mem_cons_of_mem _ hf))]

theorem tsum_zero_of {n : Nat} {f : Nat → Nat} (h : ∀ u, u < n → f u = 0) : tsum n f = 0 := by
  induction n with
  | zero => rfl
  | succ k ih => simp only [tsum]; rw [ih (fun u hu => h u (by omega)), h k (by omega)]

/-! ### the stack side conditions across one step -/

theorem ls_stack_step {cfg : Config} {s s' : State} {t : Tid} {o : List String} (hrep : cfg.repaired = true)
    (hr : Reach cfg s) (hI : LsInv s) (h : step s t = some (s', o)) :
    (∀ u thu, s'.threads u = some thu → LsCB thu.stack) ∧ (∀ u thu, s'.threads u = some thu → LsPayOk thu.stack) := by
  obtain ⟨th, fr, rest, hth, hst, hfin, rfl⟩ := step_inv h
  have hrep' : s.cfg.repaired = true := by rw [reach_cfg hr]; exact hrep
  have hK := LW.shapeK s t th fr rest hth hst hrep'
  have hself : ∃ th', (stepFrame s t th fr).1.threads t = some th' ∧
      (LsCB (fr :: rest) → LsCB th'.stack) ∧ (LsPayOk (fr :: rest) → LsPayOk th'.stack) := by
    cases hnr : lsRingOf fr with
    | none =>
      obtain ⟨th', h1, _, _, h2, h3⟩ := (lsShapeD s t th fr rest hth hst hnr hrep').self
      exact ⟨th', h1, h2, h3⟩
    | some pc =>
      have hfr : fr = .ring pc := by cases fr <;> simp [lsRingOf] at hnr; rw [hnr]
      subst hfr
      cases hp : s.pool with
      | none =>
        rw [LW.ring_step_noPool s t th pc hp]
        exact ⟨th, hth, fun h => by rw [hst]; exact h, fun h => by rw [hst]; exact h⟩
      | some p =>
        obtain ⟨th', h1, h2, h3, h4, h5, h6⟩ := ls_ring_desc s t th pc rest p hp hst
        refine ⟨th', by rw [h1, upd_same], ?_, ?_⟩
        · intro hb
          rw [h6]
          cases hres : (ringStep p.ring pc).2 with
          | cont pc' => exact ⟨fun hc => by simp [lsC] at hc, hb.2⟩
          | pushed ok => exact hb.2
          | popped x => exact hb.2
        · intro hb
          rw [h6]
          cases hres : (ringStep p.ring pc).2 with
          | cont pc' =>
            have hn : lsNonePc pc' = lsNonePc pc :=
              ls_cont_none (r := p.ring) (r' := (ringStep p.ring pc).1) (by rw [← hres])
            refine ⟨?_, hb.2⟩
            have h0 := hb.1
            simp only [lsPadj, lsPayC, lsAfterStk] at h0 ⊢
            rw [hn]; exact h0
          | pushed ok => exact hb.2
          | popped x => exact hb.2
  obtain ⟨th', hth', hcb', hpay'⟩ := hself
  have hoth : ∀ u thu, u ≠ t → (stepFrame s t th fr).1.threads u = some thu →
      s.threads u = some thu ∨ thu = { stack := [.tStart, .wPop1], isWorker := true } ∨
        ∃ sc, thu = { stack := [.tStart, .cNext], script := sc } := by
    intro u thu hu hthu
    rcases hK.others u hu with h2 | ⟨_, h2 | ⟨sc, h2⟩⟩
    · left; rw [← h2]; exact hthu
    · right; left; rw [hthu] at h2; injection h2
    · right; right; rw [hthu] at h2; injection h2 with h2; exact ⟨sc, h2⟩
  constructor
  · intro u thu hthu
    by_cases hu : u = t
    · subst hu; rw [hth'] at hthu; injection hthu with hthu; subst hthu
      exact hcb' (by rw [← hst]; exact hI.cb u th hth)
    · rcases hoth u thu hu hthu with h2 | rfl | ⟨sc, rfl⟩
      · exact hI.cb u thu h2
      · simp [lsCB_cons, lsCB_nil, lsAllB_nil, lsC]
      · simp [lsCB_cons, lsCB_nil, lsAllB_nil, lsC]
  · intro u thu hthu
    by_cases hu : u = t
    · subst hu; rw [hth'] at hthu; injection hthu with hthu; subst hthu
      exact hpay' (by rw [← hst]; exact hI.pay u th hth)
    · rcases hoth u thu hu hthu with h2 | rfl | ⟨sc, rfl⟩
      · exact hI.pay u thu h2
      · simp [lsPayOk_cons, lsPayOk_nil, lsPadj]
      · simp [lsPayOk_cons, lsPayOk_nil, lsPadj]

/-! ### the numbers across one step -/

theorem lsDJ_pos {l : List Frame} (h : 1 ≤ lsum lsDJ l) : ∃ f ∈ l, (∃ i, f = .dJoin i) ∨ f = .dFin := by
  induction l with
  | nil => simp at h
  | cons a l ih =>
    simp only [lsum_cons] at h
    by_cases ha : 1 ≤ lsDJ a
    · refine ⟨a, List.mem_cons_self .., ?_⟩
      cases a <;> simp [lsDJ] at ha
      · exact Or.inl ⟨_, rfl⟩
      · exact Or.inr rfl
    · obtain ⟨f, hf, h2⟩ := ih (by omega)
      exact ⟨f, List.mem_cons_of_mem _ hf, h2⟩

/-- once the destructor has left its push loop every client has finished: a thread that can step runs no client code -/
theorem ls_done_nonclient {cfg : Config} {s : State} (hr : Reach cfg s) (hd : lsDone s) {t : Tid} {th : Thread}
    (hth : s.threads t = some th) (hfin : th.finished = false) : AllNC th.stack := by
  obtain ⟨u, thu, hthu, h1⟩ := hd
  obtain ⟨f, hf, h2⟩ := lsDJ_pos h1
  have hph := (reach_join hr).phase u thu hthu f hf
  have hall : AllFin s := by
    rcases h2 with ⟨i, rfl⟩ | rfl <;> exact hph
  rcases (reach_join hr).kinds t th hth with h3 | h3
  · obtain ⟨th2, h4, h5⟩ := hall t h3
    rw [hth] at h4; injection h4 with h4; subst h4; rw [hfin] at h5; cases h5
  · exact h3

theorem ls_done_cases {s s' : State} {t : Tid} {th : Thread} {fr : Frame} {rest : List Frame}
    (hK : LW.ShapeK s s' t th fr rest) (hd : lsDone s') : lsDone s ∨ 1 ≤ lsDjAt s' t := by
  obtain ⟨u, thu, hthu, h1⟩ := hd
  by_cases hu : u = t
  · subst hu; right; simp only [lsDjAt, hthu]; exact h1
  · rcases hK.others u hu with h2 | ⟨_, h2 | ⟨sc, h2⟩⟩
    · left; exact ⟨u, thu, by rw [← h2]; exact hthu, h1⟩
    · rw [hthu] at h2; injection h2 with h2; subst h2; simp [lsDJ] at h1
    · rw [hthu] at h2; injection h2 with h2; subst h2; simp [lsDJ] at h1

theorem ls_thread_lt {cfg : Config} {s : State} (hr : Reach cfg s) {t : Tid} {th : Thread}
    (hth : s.threads t = some th) : t < s.nthreads := by
  cases Nat.lt_or_ge t s.nthreads with
  | inl h => exact h
  | inr h => have := (reach_inv hr).fresh t h; rw [hth] at this; cases this

/-- a step of a frame that neither is a `push`/`pop` frame nor creates the pool -/
theorem ls_num_plain {cfg : Config} {s : State} {t : Tid} {th : Thread} {fr : Frame} {rest : List Frame}
    (hrep : cfg.repaired = true) (hr : Reach cfg s) (hI : LsInv s)
    (hth : s.threads t = some th) (hst : th.stack = fr :: rest) (hfin : th.finished = false)
    (hnr : lsRingOf fr = none) (hni : fr ≠ .mInit) (hnc : ∀ c, fr = .cRdTp2 c → s.tp = true) :
    ∀ p', (stepFrame s t th fr).1.pool = some p' →
      tsum (stepFrame s t th fr).1.nthreads (lsAt p'.ring.pushLog (stepFrame s t th fr).1)
          ≤ lsTq p'.ring.head p'.ring.pushLog + p'.threadCount ∧
      (lsDone (stepFrame s t th fr).1 →
        tsum (stepFrame s t th fr).1.nthreads (lsAt p'.ring.pushLog (stepFrame s t th fr).1)
          ≤ lsTq p'.ring.head p'.ring.pushLog) := by
  have hrep' : s.cfg.repaired = true := by rw [reach_cfg hr]; exact hrep
  have htlt := ls_thread_lt hr hth
  have hK := LW.shapeK s t th fr rest hth hst hrep'
  have hN := lsShapeN s t th fr rest hth hst hnr hrep' (Nat.ne_of_gt htlt) hni hnc
  intro p' hp'
  have hsome : (stepFrame s t th fr).1.pool.isSome = true := by rw [hp']; rfl
  obtain ⟨p, hp, hring⟩ : ∃ p, s.pool = some p ∧ p'.ring = p.ring := by
    rcases hN.ring with h0 | h0
    · rw [hp'] at h0; cases h0
    · cases hp : s.pool with
      | none => simp [lsRing, hp, hp'] at h0
      | some p => simp [lsRing, hp, hp'] at h0; exact ⟨p, rfl, h0⟩
  rw [hring]
  have e1 := hN.i1 p.ring.pushLog hsome
  simp only [lsTc, hp, hp'] at e1
  have hoth : ∀ u, u < s.nthreads → u ≠ t →
      lsAt p.ring.pushLog (stepFrame s t th fr).1 u = lsAt p.ring.pushLog s u := by
    intro u hu hne
    simp only [lsAt]
    rcases hK.others u hne with h2 | ⟨h2, _⟩
    · rw [h2]
    · have : (u : Nat) = s.nthreads := h2
      omega
  have hn : (stepFrame s t th fr).1.nthreads = s.nthreads ∨ (stepFrame s t th fr).1.nthreads = s.nthreads + 1 := by
    rcases hN.nth with h | ⟨h, _⟩
    · exact Or.inl h
    · exact Or.inr h
  have hsum := ls_sum (s := s) (s' := (stepFrame s t th fr).1) (f := lsAt p.ring.pushLog s)
    (g := lsAt p.ring.pushLog (stepFrame s t th fr).1) htlt hoth hn
  have hnw : (if (stepFrame s t th fr).1.nthreads = s.nthreads then 0
      else lsAt p.ring.pushLog (stepFrame s t th fr).1 s.nthreads) ≤ lsSpawnW fr := by
    rcases hN.nth with h | ⟨h, h2⟩
    · rw [if_pos h]; omega
    · have : ¬ ((stepFrame s t th fr).1.nthreads = s.nthreads) := by omega
      rw [if_neg this]; simp only [lsAt]; rw [h2]; omega
  have k1 := hI.k1 p hp
  refine ⟨by omega, ?_⟩
  intro hd
  have hdone : lsDone s → tsum (stepFrame s t th fr).1.nthreads (lsAt p.ring.pushLog (stepFrame s t th fr).1)
      ≤ lsTq p.ring.head p.ring.pushLog := by
    intro hds
    have k2 := hI.k2 p hp hds
    have hnc2 := ls_done_nonclient hr hds hth hfin
    have hsp : lsIsSpChk fr = false := by
      rw [hst, allNC_cons] at hnc2
      have := hnc2.1
      cases fr <;> first | rfl | (simp [ncFr] at this)
    have e2 := hN.i2 p.ring.pushLog hsome hsp
    omega
  rcases ls_done_cases hK hd with hd | hd
  · exact hdone hd
  · rcases hN.dd p.ring.pushLog hsome hd with h3 | ⟨h3, h4, h5⟩
    · exact hdone ⟨t, th, hth, by simpa [lsDjAt, hth] using h3⟩
    · simp only [lsTc, hp, hp'] at h3 h5
      omega

theorem lsFr_ring (rb : Bool) (rj : Job) (log : List Job) (ab : Option (RingPc Job)) (pc : RingPc Job) :
    lsFr rb rj log ab (.ring pc) = 0 := rfl

/-- a `push`/`pop` micro-step -/
theorem ls_num_ring {cfg : Config} {s : State} {t : Tid} {th : Thread} {pc : RingPc Job} {rest : List Frame}
    {p : Pool} {o : List String}
    (hrep : cfg.repaired = true) (hr : Reach cfg s) (hI : LsInv s)
    (hth : s.threads t = some th) (hst : th.stack = .ring pc :: rest) (hp : s.pool = some p)
    (hstep : step s t = some ((stepFrame s t th (.ring pc)).1, o)) :
    ∀ p', (stepFrame s t th (.ring pc)).1.pool = some p' →
      tsum (stepFrame s t th (.ring pc)).1.nthreads (lsAt p'.ring.pushLog (stepFrame s t th (.ring pc)).1)
          ≤ lsTq p'.ring.head p'.ring.pushLog + p'.threadCount ∧
      (lsDone (stepFrame s t th (.ring pc)).1 →
        tsum (stepFrame s t th (.ring pc)).1.nthreads (lsAt p'.ring.pushLog (stepFrame s t th (.ring pc)).1)
          ≤ lsTq p'.ring.head p'.ring.pushLog) := by
  have hrep' : s.cfg.repaired = true := by rw [reach_cfg hr]; exact hrep
  have hr' : Reach cfg (stepFrame s t th (.ring pc)).1 := Reach.step t hr hstep
  have htlt := ls_thread_lt hr hth
  have hK := LW.shapeK s t th (.ring pc) rest hth hst hrep'
  -- the caller
  have hadj := (LW.stk_reach hrep hr).adj t th hth
  rw [hst] at hadj
  have hcall0 : LW.callerOk pc rest.head? = true := hadj.1
  obtain ⟨c, rest2, hrest⟩ : ∃ c rest2, rest = c :: rest2 := by
    cases rest with
    | nil => simp [LW.callerOk] at hcall0
    | cons c rest2 => exact ⟨c, rest2, rfl⟩
  subst hrest
  have hcall : LW.callerOk pc (some c) = true := hcall0
  have hpay : lsPayC pc (some c) = true := by
    have := hI.pay t th hth; rw [hst] at this; exact this.1
  have hallB : LsAllB rest2 := by
    have := hI.cb t th hth; rw [hst] at this; exact this.2.1 (lsC_of_caller hcall)
  obtain ⟨th', h1, h2, h3, h4, h5, h6⟩ := ls_ring_desc s t th pc (c :: rest2) p hp hst
  intro p0 hp0
  rw [h2] at hp0; injection hp0 with hp0; subst hp0
  simp only []
  -- ring facts
  have hlen := full_pushLog_len hr hp
  have hht : p.ring.head ≤ p.ring.pushLog.length := by rw [hlen]; exact full_head_le_tail hr hp
  have hcas : ∀ h, pc = .popCas h → p.ring.head = h → h < p.ring.pushLog.length := by
    intro h hpc heq
    subst hpc
    have h7 := full_head_le_tail hr' h2
    simp [ringStep, heq] at h7
    omega
  have hrel : ∀ x d, pc = .popRel x d → ∃ j, d = some j ∧ p.ring.pushLog[x]? = some j := by
    intro x d hpc
    subst hpc
    have htop : th.stack.head? = some (.ring (.popRel x d)) := by rw [hst]; rfl
    obtain ⟨_, h8⟩ := full_popRel_payload hr hp hth htop
    obtain ⟨j, h9⟩ := full_popRel_some hr hp hth htop
    exact ⟨j, h9, by rw [← h8, h9]⟩
  have hpure := ls_ring_pure p.ring pc c th.retB th.retJob hcall hpay hht hcas hrel
  -- weights of `t`
  have ha : lsAt p.ring.pushLog s t = lsFr th.retB th.retJob p.ring.pushLog (some pc) c := by
    simp [lsAt, lsVal, hth, lsW, hst, lsFr_ring, lsRingOf, lsStk_base _ _ _ _ hallB]
  have ha' : lsAt (ringStep p.ring pc).1.pushLog (stepFrame s t th (.ring pc)).1 t =
      lsFr (lsAfter th.retB th.retJob (ringStep p.ring pc).2).1 (lsAfter th.retB th.retJob (ringStep p.ring pc).2).2.1
        (ringStep p.ring pc).1.pushLog (lsAfter th.retB th.retJob (ringStep p.ring pc).2).2.2 c := by
    simp only [lsAt, h1, upd_same, lsVal, lsW, h4, h5, h6]
    cases hres : (ringStep p.ring pc).2 with
    | cont pc' => simp [lsAfter, lsAfterStk, lsFr_ring, lsRingOf, lsStk_base _ _ _ _ hallB]
    | pushed ok => simp [lsAfter, lsAfterStk, lsFr_ring, lsRingOf, lsStk_base _ _ _ _ hallB]
    | popped x =>
      rcases x with _ | _ | j <;> simp [lsAfter, lsAfterStk, lsFr_ring, lsRingOf, lsStk_base _ _ _ _ hallB]
  -- the other threads
  have hoth : ∀ u, u < s.nthreads → u ≠ t →
      lsAt (ringStep p.ring pc).1.pushLog (stepFrame s t th (.ring pc)).1 u = lsAt p.ring.pushLog s u := by
    intro u hu hne
    simp only [lsAt, h1, upd_ne _ _ hne]
    cases hthu : s.threads u with
    | none => rfl
    | some thu =>
      simp only [lsVal]
      rcases ls_ring_log p.ring pc with h | ⟨d, h⟩
      · rw [h]
      · rw [h]; exact ls_log_stable hr hp hthu d
  have hsum := ls_sum (s := s) (s' := (stepFrame s t th (.ring pc)).1) (f := lsAt p.ring.pushLog s)
    (g := lsAt (ringStep p.ring pc).1.pushLog (stepFrame s t th (.ring pc)).1) htlt hoth (Or.inl h3)
  rw [if_pos h3] at hsum
  have k1 := hI.k1 p hp
  refine ⟨by omega, ?_⟩
  intro hd
  have hds : lsDone s := by
    rcases ls_done_cases hK hd with hd | hd
    · exact hd
    · refine ⟨t, th, hth, ?_⟩
      simp only [lsDjAt, h1, upd_same, h6] at hd
      rw [hst]
      cases hres : (ringStep p.ring pc).2 with
      | cont pc' => rw [hres] at hd; simpa [lsAfterStk, lsDJ] using hd
      | pushed ok => rw [hres] at hd; simpa [lsAfterStk, lsDJ] using hd
      | popped x => rw [hres] at hd; simpa [lsAfterStk, lsDJ] using hd
  have k2 := hI.k2 p hp hds
  omega

/-- a step that creates the pool: all weights are zero before and after -/
theorem ls_num_create {s s' : State} {t : Tid} {th : Thread} {fr X : Frame} {rest : List Frame}
    (hth : s.threads t = some th) (hst : th.stack = fr :: rest)
    (hX : s'.threads = upd s.threads t (some (th.cont [X]))) (hX0 : ∀ rb rj log ab, lsFr rb rj log ab X = 0)
    (hXr : lsRingOf X = none) (hfr : lsRingOf fr = none)
    (hn : s'.nthreads = s.nthreads) (hlog : ∀ p', s'.pool = some p' → p'.ring.pushLog = [])
    (hZ : ∀ u thu, s.threads u = some thu → lsW [] thu = 0) :
    ∀ p', s'.pool = some p' → tsum s'.nthreads (lsAt p'.ring.pushLog s') = 0 := by
  intro p' hp'
  rw [hlog p' hp']
  apply tsum_zero_of
  intro u _
  simp only [lsAt, hX]
  by_cases hu : u = t
  · subst hu
    rw [upd_same]
    have := hZ u th hth
    simp only [lsW, hst, lsStk_cons, hfr] at this
    simp only [lsVal, lsW, Thread.cont, hst, List.drop_one, List.tail_cons, List.cons_append, List.nil_append,
      lsStk_cons, hX0, hXr]
    omega
  · rw [upd_ne _ _ hu]
    cases hthu : s.threads u with
    | none => rfl
    | some thu => exact hZ u thu hthu

/-- while `tp = false` nobody carries weight -/
theorem ls_early_zero {cfg : Config} {s : State} {t : Tid} {th : Thread} {c : Nat} {rest : List Frame}
    (hr : Reach cfg s) (hI : LsInv s) (hth : s.threads t = some th) (hst : th.stack = .cRdTp2 c :: rest)
    (hfin : th.finished = false) (htp : s.tp = false) : ∀ u thu, s.threads u = some thu → lsW [] thu = 0 := by
  by_cases hl : poolAlive s
  · have hE := (reach_inv hr).early hl htp
    cases hp : s.pool with
    | none =>
      intro u thu hthu
      apply lsStk_pre _ _ _ _ (hE.pre u thu hthu)
      intro f hf i hfi
      subst hfi
      by_cases hu : u = 0
      · subst hu
        obtain ⟨p, hp2⟩ := (reach_finInv hr).dph thu _ hthu hf
        rw [hp] at hp2; cases hp2
      · have := (reach_join hr).mainOnly u thu hthu hu _ hf
        simp [bottomFr] at this
    | some p =>
      have hpm := hE.ctxs p hp
      have k1 := hI.k1 p hp
      rw [hpm] at k1
      have hz : tsum s.nthreads (lsAt [] s) = 0 := by
        simp [mkPool, Ring.init, lsTq, lsCnt] at k1; exact k1
      intro u thu hthu
      have := tsum_zero hz (ls_thread_lt hr hthu)
      simpa [lsAt, hthu, lsVal] using this
  · exfalso
    obtain ⟨hall, _, _⟩ := (reach_join hr).dead hl
    rcases (reach_join hr).kinds t th hth with h3 | h3
    · obtain ⟨th2, h4, h5⟩ := hall t h3
      rw [hth] at h4; injection h4 with h4; subst h4; rw [hfin] at h5; cases h5
    · rw [hst, allNC_cons] at h3; simp [ncFr] at h3

theorem lsInv_step {cfg : Config} {s s' : State} {t : Tid} {o : List String} (hrep : cfg.repaired = true)
    (hr : Reach cfg s) (hI : LsInv s) (h : step s t = some (s', o)) : LsInv s' := by
  have hS := ls_stack_step hrep hr hI h
  suffices hnum : ∀ p', s'.pool = some p' →
      tsum s'.nthreads (lsAt p'.ring.pushLog s') ≤ lsTq p'.ring.head p'.ring.pushLog + p'.threadCount ∧
      (lsDone s' → tsum s'.nthreads (lsAt p'.ring.pushLog s') ≤ lsTq p'.ring.head p'.ring.pushLog) from
    ⟨hS.1, hS.2, fun p hp => (hnum p hp).1, fun p hp hd => (hnum p hp).2 hd⟩
  obtain ⟨th, fr, rest, hth, hst, hfin, rfl⟩ := step_inv h
  cases hnr : lsRingOf fr with
  | some pc =>
    have hfr : fr = .ring pc := by cases fr <;> simp [lsRingOf] at hnr; rw [hnr]
    subst hfr
    cases hp : s.pool with
    | none =>
      intro p' hp'
      rw [LW.ring_step_noPool s t th pc hp] at hp'
      simp [withFault, hp] at hp'
    | some p => exact ls_num_ring hrep hr hI hth hst hp h
  | none =>
    by_cases hni : fr = .mInit
    · subst hni
      have hinit := (reach_inv hr).initOnly t th hth (by rw [hst]; rfl)
      have hZ : ∀ u thu, s.threads u = some thu → lsW [] thu = 0 := by
        intro u thu hthu
        rw [hinit] at hthu
        simp only [State.init] at hthu
        split at hthu
        · injection hthu with hthu; subst hthu; simp [lsW, lsFr, lsRingOf]
        · cases hthu
      have hX : (stepFrame s t th .mInit).1.threads = upd s.threads t (some (th.cont [.mSpawn 0])) := by
        simp only [stepFrame]; split <;> rfl
      have hn : (stepFrame s t th .mInit).1.nthreads = s.nthreads := by
        simp only [stepFrame]; split <;> rfl
      have hlog : ∀ p', (stepFrame s t th .mInit).1.pool = some p' → p'.ring.pushLog = [] := by
        intro p' hp'
        simp only [stepFrame] at hp'
        split at hp'
        · rw [hinit] at hp'; simp [setThread, State.init] at hp'
        · simp [setThread] at hp'; subst hp'; rfl
      intro p' hp'
      have := ls_num_create hth hst hX (by intro rb rj log ab; rfl) rfl rfl hn hlog hZ p' hp'
      rw [this]; exact ⟨Nat.zero_le _, fun _ => Nat.zero_le _⟩
    · by_cases hc : ∃ c, fr = .cRdTp2 c ∧ s.tp = false
      · obtain ⟨c, rfl, htp⟩ := hc
        have hZ := ls_early_zero hr hI hth hst hfin htp
        have hX : (stepFrame s t th (.cRdTp2 c)).1.threads = upd s.threads t (some (th.cont [.cSwapTp c])) := by
          simp [stepFrame, htp, setThread]
        have hn : (stepFrame s t th (.cRdTp2 c)).1.nthreads = s.nthreads := by
          simp [stepFrame, htp, setThread]
        have hlog : ∀ p', (stepFrame s t th (.cRdTp2 c)).1.pool = some p' → p'.ring.pushLog = [] := by
          intro p' hp'
          simp [stepFrame, htp, setThread] at hp'
          subst hp'; rfl
        intro p' hp'
        have := ls_num_create hth hst hX (by intro rb rj log ab; rfl) rfl rfl hn hlog hZ p' hp'
        rw [this]; exact ⟨Nat.zero_le _, fun _ => Nat.zero_le _⟩
      · refine ls_num_plain hrep hr hI hth hst hfin hnr hni ?_
        intro c hfr
        cases htp : s.tp with
        | true => rfl
        | false => exact absurd ⟨c, hfr, htp⟩ hc

theorem ls_reach {cfg : Config} (hrep : cfg.repaired = true) {s : State} (h : Reach cfg s) : LsInv s := by
  induction h with
  | init => exact lsInv_init cfg
  | step t hr hs ih => exact lsInv_step hrep hr ih hs

end Nstd.Future.LS
