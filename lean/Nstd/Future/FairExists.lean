/-
  NON-VACUITY of the liveness theorems: fair runs exist for EVERY configuration.

    fairRun_exists            : ∀ cfg, ∃ σ run, FairRun cfg σ run                  (dovetailing schedule 0; 0,1; 0,1,2; …)
    strongFairRun_exists      : ∀ cfg, ∃ σ run, StrongFairRun cfg σ run            (aging scheduler: among the enabled
                                                                                    threads pick one of least priority stamp)
    join_eventually_nonvacuous : cfg.repaired = true → cfg.WellFormed →
                                   ∃ σ run n, FairRun cfg σ run ∧ all threads of `run n` have finished

  The constructions use only `step`, `enabled` and `State.init` (and `FR.step_isSome_of_enabled` is not even needed):
  nothing in this file depends on the shape of the model.
-/
import Nstd.Future.Fair2
set_option linter.unusedVariables false
namespace Nstd.Future
namespace FE

/-! ### the dovetailing schedule -/

/-- successor of a position `(i, k)` in the enumeration `0; 0,1; 0,1,2; …` (`i` = index inside block `k`) -/
def blkNext (p : Nat × Nat) : Nat × Nat := if p.1 < p.2 then (p.1 + 1, p.2) else (0, p.2 + 1)

def blk : Nat → Nat × Nat
  | 0 => (0, 0)
  | n+1 => blkNext (blk n)

theorem blk_succ (n : Nat) : blk (n+1) = blkNext (blk n) := rfl

/-- the dovetailing schedule: `0; 0,1; 0,1,2; 0,1,2,3; …` -/
def dove (n : Nat) : Tid := (blk n).1

theorem blk_walk {n i k : Nat} (h : blk n = (i, k)) : ∀ j, i + j ≤ k → blk (n + j) = (i + j, k) := by
  intro j
  induction j with
  | zero => intro _; exact h
  | succ j ih =>
    intro hj
    have h1 := ih (by omega)
    have h2 : blk (n + (j + 1)) = blkNext (blk (n + j)) := blk_succ (n + j)
    rw [h2, h1]
    have h3 : i + j < k := by omega
    simp only [blkNext, h3, if_true]
    rfl

theorem blk_wrap {n i k : Nat} (h : blk n = (i, k)) (hik : i ≤ k) : ∃ m, n ≤ m ∧ blk m = (0, k + 1) := by
  have h1 := blk_walk h (k - i) (by omega)
  refine ⟨n + (k - i) + 1, by omega, ?_⟩
  rw [blk_succ, h1]
  have h3 : ¬ (i + (k - i) < k) := by omega
  simp only [blkNext, h3, if_false]

theorem blk_inv (n : Nat) : (blk n).1 ≤ (blk n).2 := by
  induction n with
  | zero => exact Nat.le_refl 0
  | succ n ih =>
    rw [blk_succ]; unfold blkNext
    split
    · simp only; omega
    · simp only; omega

theorem blk_block (K : Nat) : ∀ n, ∃ m k, n ≤ m ∧ K ≤ k ∧ blk m = (0, k) := by
  induction K with
  | zero =>
    intro n
    obtain ⟨m, hm, h⟩ := blk_wrap (n := n) (i := (blk n).1) (k := (blk n).2) rfl (blk_inv n)
    exact ⟨m, _, hm, Nat.zero_le _, h⟩
  | succ K ih =>
    intro n
    obtain ⟨m, k, hm, hk, h⟩ := ih n
    obtain ⟨m', hm', h'⟩ := blk_wrap h (Nat.zero_le _)
    exact ⟨m', k + 1, by omega, by omega, h'⟩

/-- every thread id is named at infinitely many positions of the dovetailing schedule -/
theorem dove_infinitely_often (t n : Nat) : ∃ m, n ≤ m ∧ dove m = t := by
  obtain ⟨m, k, hm, hk, h⟩ := blk_block t n
  have h1 := blk_walk h t (by omega)
  refine ⟨m + t, by omega, ?_⟩
  unfold dove
  rw [h1]
  simp

/-! ### the run of a schedule -/

/-- the state after scheduling thread `t` in state `s` (unchanged if `t` cannot step) -/
def nextState (s : State) (t : Tid) : State :=
  match step s t with
  | some r => r.1
  | none => s

theorem nextState_spec (s : State) (t : Tid) :
    (∃ o, step s t = some (nextState s t, o)) ∨ (step s t = none ∧ nextState s t = s) := by
  unfold nextState
  cases h : step s t with
  | none => exact Or.inr ⟨rfl, rfl⟩
  | some r => exact Or.inl ⟨r.2, rfl⟩

/-- the run of the model under a state-independent schedule `σ` -/
def runOf (cfg : Config) (σ : Nat → Tid) : Nat → State
  | 0 => State.init cfg
  | n+1 => nextState (runOf cfg σ n) (σ n)

theorem runOf_next (cfg : Config) (σ : Nat → Tid) (n : Nat) :
    (∃ o, step (runOf cfg σ n) (σ n) = some (runOf cfg σ (n+1), o)) ∨
      (step (runOf cfg σ n) (σ n) = none ∧ runOf cfg σ (n+1) = runOf cfg σ n) :=
  nextState_spec (runOf cfg σ n) (σ n)

/-- the run of ANY schedule that names every thread id infinitely often is weakly fair -/
theorem fairRun_of_infinitely_often (cfg : Config) (σ : Nat → Tid) (hσ : ∀ t n, ∃ m, n ≤ m ∧ σ m = t) :
    FairRun cfg σ (runOf cfg σ) :=
  ⟨rfl, runOf_next cfg σ, fun t n _ => hσ t n⟩

/-! ### the aging scheduler (strong fairness) -/

theorem exists_min (q : Nat → Prop) (p : Nat → Nat) (h : ∃ u, q u) : ∃ u, q u ∧ ∀ v, q v → p u ≤ p v := by
  have key : ∀ k, ∀ u, q u → p u ≤ k → ∃ u, q u ∧ ∀ v, q v → p u ≤ p v := by
    intro k
    induction k with
    | zero => intro u hu hk; exact ⟨u, hu, fun v _ => by omega⟩
    | succ k ih =>
      intro u hu hk
      by_cases hex : ∃ w, q w ∧ p w ≤ k
      · obtain ⟨w, hw, hwk⟩ := hex; exact ih w hw hwk
      · refine ⟨u, hu, fun v hv => ?_⟩
        have : ¬ p v ≤ k := fun hc => hex ⟨v, hv, hc⟩
        omega
  obtain ⟨u, hu⟩ := h
  exact key (p u) u hu (Nat.le_refl _)

open Classical in
/-- among the enabled threads one with the least priority stamp (thread 0 if no thread is enabled) -/
noncomputable def pick (s : State) (p : Tid → Nat) : Tid :=
  if h : ∃ u, enabled s u = true ∧ ∀ v, enabled s v = true → p u ≤ p v then Classical.choose h else 0

theorem pick_spec {s : State} {p : Tid → Nat} {t : Tid} (ht : enabled s t = true) :
    enabled s (pick s p) = true ∧ p (pick s p) ≤ p t := by
  have h := exists_min (fun u => enabled s u = true) p ⟨t, ht⟩
  unfold pick
  rw [dif_pos h]
  exact ⟨(Classical.choose_spec h).1, (Classical.choose_spec h).2 t ht⟩

/-- scheduler state: model state + priority stamps (initially the thread id; a thread that takes a step at time `n`
    gets a stamp above `n`) -/
structure Sch where
  s : State
  p : Tid → Nat

noncomputable def sch (cfg : Config) : Nat → Sch
  | 0 => ⟨State.init cfg, fun v => v⟩
  | n+1 =>
    ⟨nextState (sch cfg n).s (pick (sch cfg n).s (sch cfg n).p),
     fun v => if v = pick (sch cfg n).s (sch cfg n).p ∧
                  enabled (sch cfg n).s (pick (sch cfg n).s (sch cfg n).p) = true
              then (sch cfg n).p v + n + 1 else (sch cfg n).p v⟩

noncomputable def srun (cfg : Config) (n : Nat) : State := (sch cfg n).s
noncomputable def sp (cfg : Config) (n : Nat) : Tid → Nat := (sch cfg n).p
noncomputable def sσ (cfg : Config) (n : Nat) : Tid := pick (srun cfg n) (sp cfg n)

theorem srun_zero (cfg : Config) : srun cfg 0 = State.init cfg := rfl
theorem srun_succ (cfg : Config) (n : Nat) : srun cfg (n+1) = nextState (srun cfg n) (sσ cfg n) := rfl
theorem sp_zero (cfg : Config) (v : Tid) : sp cfg 0 v = v := rfl
theorem sp_succ (cfg : Config) (n : Nat) (v : Tid) :
    sp cfg (n+1) v =
      if v = sσ cfg n ∧ enabled (srun cfg n) (sσ cfg n) = true then sp cfg n v + n + 1 else sp cfg n v := rfl

theorem sp_ge (cfg : Config) (n : Nat) (v : Nat) : v ≤ sp cfg n v := by
  induction n with
  | zero => exact Nat.le_refl v
  | succ n ih => rw [sp_succ]; split <;> omega

theorem sp_mono1 (cfg : Config) (n : Nat) (v : Nat) : sp cfg n v ≤ sp cfg (n+1) v := by
  rw [sp_succ]; split <;> omega

theorem sp_mono (cfg : Config) (v : Nat) {n m : Nat} (h : n ≤ m) : sp cfg n v ≤ sp cfg m v := by
  induction h with
  | refl => exact Nat.le_refl _
  | step h ih => exact Nat.le_trans ih (sp_mono1 cfg _ v)

/-- number of `u < k` with `q u` -/
def cntB (q : Nat → Bool) : Nat → Nat
  | 0 => 0
  | k+1 => cntB q k + (if q k = true then 1 else 0)

theorem cntB_mono (q q' : Nat → Bool) (k : Nat) (h : ∀ u, q' u = true → q u = true) : cntB q' k ≤ cntB q k := by
  induction k with
  | zero => exact Nat.le_refl 0
  | succ k ih =>
    have hk := h k
    simp only [cntB]
    cases h1 : q' k <;> cases h2 : q k <;> simp [h1, h2] at hk ⊢ <;> omega

theorem cntB_lt (q q' : Nat → Bool) (k u0 : Nat) (h : ∀ u, q' u = true → q u = true) (hu : u0 < k)
    (hq : q u0 = true) (hq' : ¬ q' u0 = true) : cntB q' k < cntB q k := by
  induction k with
  | zero => omega
  | succ k ih =>
    simp only [cntB]
    by_cases hk : u0 = k
    · subst hk
      have := cntB_mono q q' u0 h
      have hq'' : q' u0 = false := by simpa using hq'
      simp [hq, hq'']; omega
    · have := ih (by omega)
      have hk' := h k
      cases h1 : q' k <;> cases h2 : q k <;> simp [h1, h2] at hk' ⊢ <;> omega

/-- the aging schedule is strongly fair -/
theorem sσ_strong_fair (cfg : Config) (t : Tid) (n : Nat)
    (hinf : ∀ m, n ≤ m → ∃ k, m ≤ k ∧ enabled (srun cfg k) t = true) :
    ∃ m, n ≤ m ∧ sσ cfg m = t ∧ enabled (srun cfg m) t = true := by
  apply Classical.byContradiction
  intro hno
  have hno' : ∀ m, n ≤ m → ¬ (sσ cfg m = t ∧ enabled (srun cfg m) t = true) := fun m hm hc => hno ⟨m, hm, hc⟩
  -- the stamp of `t` is frozen from time `n` on
  have hP : ∀ m, n ≤ m → sp cfg m t = sp cfg n t := by
    intro m hm
    induction hm with
    | refl => rfl
    | step hm ih =>
      rw [sp_succ, if_neg, ih]
      intro hc
      rcases hc with ⟨h1, h2⟩
      rw [← h1] at h2
      exact hno' _ hm ⟨h1.symm, h2⟩
  generalize hPdef : sp cfg n t = P at hP
  -- the number of threads whose stamp is at most `P` (all of them are `≤ P`) decreases whenever `t` is enabled
  let cnt : Nat → Nat := fun m => cntB (fun u => decide (sp cfg m u ≤ P)) (P + 1)
  have key : ∀ j, ∃ m, n + P ≤ m ∧ cnt m + j ≤ cnt (n + P) := by
    intro j
    induction j with
    | zero => exact ⟨n + P, Nat.le_refl _, Nat.le_refl _⟩
    | succ j ih =>
      obtain ⟨m, hm, hc⟩ := ih
      obtain ⟨k, hk, hen⟩ := hinf m (by omega)
      have h1 : cnt k ≤ cnt m := by
        apply cntB_mono
        intro u hu
        simp only [decide_eq_true_eq] at hu ⊢
        exact Nat.le_trans (sp_mono cfg u hk) hu
      obtain ⟨hue, hup⟩ := pick_spec (p := sp cfg k) hen
      have hue' : enabled (srun cfg k) (sσ cfg k) = true := hue
      have hup' : sp cfg k (sσ cfg k) ≤ sp cfg k t := hup
      have hkt : sp cfg k t = P := hP k (by omega)
      have hne : sσ cfg k ≠ t := fun h => hno' k (by omega) ⟨h, hen⟩
      have hge := sp_ge cfg k (sσ cfg k)
      have hlt : cnt (k + 1) < cnt k := by
        apply cntB_lt _ _ _ (sσ cfg k)
        · intro u hu
          simp only [decide_eq_true_eq] at hu ⊢
          exact Nat.le_trans (sp_mono1 cfg k u) hu
        · omega
        · simp only [decide_eq_true_eq]; omega
        · simp only [decide_eq_true_eq]
          rw [sp_succ, if_pos ⟨rfl, hue'⟩]
          omega
      exact ⟨k + 1, by omega, by omega⟩
  obtain ⟨m, _, hc⟩ := key (cnt (n + P) + 1)
  omega

end FE

/-- **weakly fair runs exist for every configuration** (witness: the dovetailing schedule `0; 0,1; 0,1,2; …`, which
    names every thread id infinitely often, and the run it generates) -/
theorem fairRun_exists (cfg : Config) : ∃ σ run, FairRun cfg σ run :=
  ⟨FE.dove, FE.runOf cfg FE.dove, FE.fairRun_of_infinitely_often cfg FE.dove FE.dove_infinitely_often⟩

/-- **strongly fair runs exist for every configuration** (witness: the aging scheduler that always runs an enabled
    thread of least priority stamp) -/
theorem strongFairRun_exists (cfg : Config) : ∃ σ run, StrongFairRun cfg σ run :=
  ⟨FE.sσ cfg, FE.srun cfg, FE.srun_zero cfg,
    fun n => FE.nextState_spec (FE.srun cfg n) (FE.sσ cfg n), FE.sσ_strong_fair cfg⟩

/-- `join_eventually` is not vacuous: for every well-formed repaired configuration there IS a weakly fair run, and it
    reaches a state in which every thread has finished -/
theorem join_eventually_nonvacuous (cfg : Config) (hrep : cfg.repaired = true) (hwf : cfg.WellFormed) :
    ∃ σ run n, FairRun cfg σ run ∧ (∀ t th, (run n).threads t = some th → th.finished = true) := by
  obtain ⟨σ, run, hf⟩ := fairRun_exists cfg
  obtain ⟨n, h, _⟩ := join_eventually hrep hwf hf
  exact ⟨σ, run, n, hf, h⟩

/-- the same for strongly fair runs, with the full conclusion of `join_eventually_strong` -/
theorem join_eventually_strong_nonvacuous (cfg : Config) (hrep : cfg.repaired = true) (hwf : cfg.WellFormed) :
    ∃ σ run n, StrongFairRun cfg σ run ∧ (∀ t th, (run n).threads t = some th → th.finished = true) ∧
      (∀ c, c < (run n).nextCall →
        (run n).completed c = true ∧ (run n).execCount c = 1 ∧ (run n).freeCount c = 1) := by
  obtain ⟨σ, run, hf⟩ := strongFairRun_exists cfg
  obtain ⟨n, h⟩ := join_eventually_strong hrep hwf hf
  exact ⟨σ, run, n, hf, h⟩

end Nstd.Future
