/-
  Completion handshake of a Future, part 17: second layer, the steps of `proc` that write `result` / `_state`.
-/
import Nstd.Future.Handshake16
set_option linter.unusedSimpArgs false
set_option linter.unusedVariables false
namespace Nstd.Future

/-- tops of the successor state that are `pSetRd`/`pSetX` frames: the new top of `t` or an old top of another thread -/
theorem top_cases {s s' : State} {t : Tid} {th' : Thread} (hO : Others s s' t) (hth' : s'.threads t = some th')
    {u : Tid} {x : Frame} (hx : notP x = false) (hti : TopIs s' u x) :
    (u = t ∧ th'.stack.head? = some x) ∨ (u ≠ t ∧ TopIs s u x) := by
  by_cases hu : u = t
  · subst hu
    obtain ⟨thu, h1, h2⟩ := hti
    rw [hth'] at h1; injection h1 with h1; subst h1
    exact Or.inl ⟨rfl, h2⟩
  · right; refine ⟨hu, ?_⟩
    rcases topIs_other hO hu hti with h | h
    · exact h
    · subst h; cases hx

section frames
variable {cfg : Config} {s : State} {t : Tid} {th : Thread} {rest : List Frame}

theorem hs2_fault {s : State} (m : String) (hI : HsInv2 s) : HsInv2 (withFault s m) :=
  ⟨hI.st, hI.res, hI.topRd, hI.topX⟩

theorem hs2_pStore {c : Nat} (hS : SimInv cfg s) (h0 : Inv0 s) (hX : ExecFacts s) (hH : HsInv s) (hI : HsInv2 s)
    (hth : s.threads t = some th) (hst : th.stack = .pStore c :: rest) :
    HsInv2 (stepFrame s t th (.pStore c)).1 := by
  have hO := others_of_step hS hth hst
  cases hc : s.calls c with
  | none => simp only [stepFrame, hc]; exact hs2_fault _ hI
  | some r =>
    have hevc := h0.callsEv c r hc
    obtain ⟨⟨hq1, _⟩, hnd, hext⟩ := exec_qright h0 hX hH ⟨th, hth, head_of hst⟩ (by simp [hsPreX]) hevc
    have hth' : (stepFrame s t th (.pStore c)).1.threads t = some (th.cont [.pSetRd c]) := by
      simp only [stepFrame, hc]; split <;> simp [setThread, upd_same]
    have hev : (stepFrame s t th (.pStore c)).1.everCalls = s.everCalls := by
      simp only [stepFrame, hc]; split <;> simp [setThread, setFut]
    have hcompl : (stepFrame s t th (.pStore c)).1.completed = s.completed := by
      simp only [stepFrame, hc]; split <;> simp [setThread, setFut]
    have hcur : ∀ f, cur (stepFrame s t th (.pStore c)).1 f = cur s f := by
      intro f; simp only [stepFrame, hc]; split <;> simp [setThread, setFut, cur, upd]; split <;> simp_all
    have hstate : ∀ f, ((stepFrame s t th (.pStore c)).1.futs f).state = (s.futs f).state := by
      intro f; simp only [stepFrame, hc]; split <;> simp [setThread, setFut, upd]; split <;> simp_all
    have habr : ∀ f, ((stepFrame s t th (.pStore c)).1.futs f).abortReq = (s.futs f).abortReq := by
      intro f; simp only [stepFrame, hc]; split <;> simp [setThread, setFut, upd]; split <;> simp_all
    have hreso : ∀ f, f ≠ r.fut → ((stepFrame s t th (.pStore c)).1.futs f).result = (s.futs f).result := by
      intro f hf; simp only [stepFrame, hc]; split <;> simp [setThread, setFut, upd, hf]
    have hres0 : ResOk (stepFrame s t th (.pStore c)).1 r := by
      intro h8; simp only [stepFrame, hc, h8, if_true]; simp [setThread, setFut, upd]
    have hresk : ∀ r' : CallRec, r'.fut ≠ r.fut → ResOk s r' → ResOk (stepFrame s t th (.pStore c)).1 r' := by
      intro r' hne h h8; rw [hreso _ hne]; exact h h8
    -- another executor working on the same future would execute the same call
    have hsame : ∀ u x c2 r2, u ≠ t → TopIs s u x → hsPreX c2 x = true → s.everCalls c2 = some r2 → r2.fut ≠ r.fut := by
      intro u x c2 r2 hu hti hp hr2 hf
      obtain ⟨⟨h1, _⟩, _, hexu⟩ := exec_qright h0 hX hH hti hp hr2
      rw [hf, hq1] at h1; injection h1 with h1; subst h1
      exact hu (hX.unique u t c hexu hext)
    constructor
    · intro f c' hc' hcc
      rw [hcur] at hc'; rw [hcompl] at hcc
      have := hI.st f c' hc' hcc
      simp only [StOk, hstate, habr] at this ⊢; exact this
    · intro f c' r' hc' hcc hr'
      rw [hcur] at hc'; rw [hcompl] at hcc; rw [hev] at hr'
      obtain ⟨r0, h1, h2⟩ := h0.curLt f c' hc'
      rw [hr'] at h1; injection h1 with h1; subst h1
      by_cases hf : r'.fut = r.fut
      · rw [← h2, hf, hq1] at hc'; injection hc' with hc'; subst hc'
        rw [hnd] at hcc; cases hcc
      · exact hresk r' hf (hI.res f c' r' hc' hcc hr')
    · intro u c2 r2 hti hr2
      rw [hev] at hr2
      rcases top_cases hO hth' rfl hti with ⟨_, h1⟩ | ⟨hu, h1⟩
      · simp [Thread.cont, hst] at h1; subst h1
        rw [hevc] at hr2; injection hr2 with hr2; subst hr2; exact hres0
      · exact hresk r2 (hsame u _ c2 r2 hu h1 (by simp [hsPreX]) hr2) (hI.topRd u c2 r2 h1 hr2)
    · intro u c2 ab r2 hti hr2
      rw [hev] at hr2
      rcases top_cases hO hth' rfl hti with ⟨_, h1⟩ | ⟨hu, h1⟩
      · simp [Thread.cont, hst] at h1
      · obtain ⟨h2, h3⟩ := hI.topX u c2 ab r2 h1 hr2
        exact ⟨hresk r2 (hsame u _ c2 r2 hu h1 (by simp [hsPreX]) hr2) h2, by rw [habr]; exact h3⟩

theorem hs2_pSetRd {c : Nat} (hS : SimInv cfg s) (h0 : Inv0 s) (hX : ExecFacts s) (hH : HsInv s) (hI : HsInv2 s)
    (hth : s.threads t = some th) (hst : th.stack = .pSetRd c :: rest) :
    HsInv2 (stepFrame s t th (.pSetRd c)).1 := by
  have hO := others_of_step hS hth hst
  cases hc : s.calls c with
  | none => simp only [stepFrame, hc]; exact hs2_fault _ hI
  | some r =>
    have hevc := h0.callsEv c r hc
    have hth' : (stepFrame s t th (.pSetRd c)).1.threads t = some (th.cont [.pSetX c (s.futs r.fut).aborting]) := by
      simp [stepFrame, hc, setThread, upd_same]
    have hfut : (stepFrame s t th (.pSetRd c)).1.futs = s.futs := by simp [stepFrame, hc, setThread]
    have hev : (stepFrame s t th (.pSetRd c)).1.everCalls = s.everCalls := by simp [stepFrame, hc, setThread]
    have hcompl : (stepFrame s t th (.pSetRd c)).1.completed = s.completed := by simp [stepFrame, hc, setThread]
    constructor
    · intro f c' hc' hcc
      simp only [cur, StOk, hfut, hcompl] at hc' hcc ⊢; exact hI.st f c' hc' hcc
    · intro f c' r' hc' hcc hr'
      simp only [cur, ResOk, hfut, hcompl, hev] at hc' hcc hr' ⊢; exact hI.res f c' r' hc' hcc hr'
    · intro u c2 r2 hti hr2
      rw [hev] at hr2
      rcases top_cases hO hth' rfl hti with ⟨_, h1⟩ | ⟨hu, h1⟩
      · simp [Thread.cont, hst] at h1
      · have := hI.topRd u c2 r2 h1 hr2
        simp only [ResOk, hfut] at this ⊢; exact this
    · intro u c2 ab r2 hti hr2
      rw [hev] at hr2
      rcases top_cases hO hth' rfl hti with ⟨_, h1⟩ | ⟨hu, h1⟩
      · simp [Thread.cont, hst] at h1
        obtain ⟨rfl, rfl⟩ := h1
        rw [hevc] at hr2; injection hr2 with hr2; subst hr2
        have := hI.topRd t c r ⟨th, hth, head_of hst⟩ hevc
        simp only [ResOk, hfut] at this ⊢
        exact ⟨this, fun h => h0.abReq _ h⟩
      · have := hI.topX u c2 ab r2 h1 hr2
        simp only [ResOk, hfut] at this ⊢; exact this

theorem hs2_pSetX {c : Nat} {ab : Bool} (hS : SimInv cfg s) (h0 : Inv0 s) (hX : ExecFacts s) (hH : HsInv s)
    (hI : HsInv2 s) (hth : s.threads t = some th) (hst : th.stack = .pSetX c ab :: rest) :
    HsInv2 (stepFrame s t th (.pSetX c ab)).1 := by
  have hO := others_of_step hS hth hst
  cases hc : s.calls c with
  | none => simp only [stepFrame, hc]; exact hs2_fault _ hI
  | some r =>
    have hevc := h0.callsEv c r hc
    obtain ⟨⟨hq1, _⟩, hnd, hext⟩ := exec_qright h0 hX hH ⟨th, hth, head_of hst⟩ (by simp [hsPreX]) hevc
    obtain ⟨hx1, hx2⟩ := hI.topX t c ab r ⟨th, hth, head_of hst⟩ hevc
    have hth' : (stepFrame s t th (.pSetX c ab)).1.threads t = some (th.cont [.pSig c]) := by
      simp [stepFrame, setThread, upd_same, hc]
    have hev : (stepFrame s t th (.pSetX c ab)).1.everCalls = s.everCalls := by
      simp [stepFrame, setThread, setFut, hc]
    have hcompl : (stepFrame s t th (.pSetX c ab)).1.completed = upd s.completed c true := by
      simp [stepFrame, setThread, setFut, hc]
    have hcur : ∀ f, cur (stepFrame s t th (.pSetX c ab)).1 f = cur s f := by
      intro f; simp [stepFrame, setThread, setFut, hc, cur, upd]; split <;> simp_all
    have hres : ∀ f, ((stepFrame s t th (.pSetX c ab)).1.futs f).result = (s.futs f).result := by
      intro f; simp [stepFrame, setThread, setFut, hc, upd]; split <;> simp_all
    have habr : ∀ f, ((stepFrame s t th (.pSetX c ab)).1.futs f).abortReq = (s.futs f).abortReq := by
      intro f; simp [stepFrame, setThread, setFut, hc, upd]; split <;> simp_all
    have hstateo : ∀ f, f ≠ r.fut → ((stepFrame s t th (.pSetX c ab)).1.futs f).state = (s.futs f).state := by
      intro f hf; simp [stepFrame, setThread, setFut, hc, upd, hf]
    have hstate0 : ((stepFrame s t th (.pSetX c ab)).1.futs r.fut).state = if ab then 3 else 2 := by
      simp [stepFrame, setThread, setFut, hc, upd]
    have hresok : ∀ r', ResOk s r' → ResOk (stepFrame s t th (.pSetX c ab)).1 r' := by
      intro r' h h8; rw [hres]; exact h h8
    -- a completed current call other than `c` belongs to another future
    have hcc' : ∀ f c', cur s f = some c' → (stepFrame s t th (.pSetX c ab)).1.completed c' = true →
        (c' = c ∧ f = r.fut) ∨ (f ≠ r.fut ∧ s.completed c' = true) := by
      intro f c' hc' hcc
      rw [hcompl] at hcc
      by_cases hcs : c' = c
      · subst hcs
        obtain ⟨r0, h1, h2⟩ := h0.curLt f c' hc'
        rw [hevc] at h1; injection h1 with h1; subst h1
        exact Or.inl ⟨rfl, h2.symm⟩
      · rw [upd_ne _ _ hcs] at hcc
        right; refine ⟨?_, hcc⟩
        intro hf; rw [hf, hq1] at hc'; injection hc' with hc'; exact hcs hc'.symm
    constructor
    · intro f c' hc' hcc
      rw [hcur] at hc'
      rcases hcc' f c' hc' hcc with ⟨rfl, rfl⟩ | ⟨hf, hcs⟩
      · simp only [StOk, hstate0, habr]
        cases ab with
        | true => exact ⟨Or.inr rfl, fun _ => hx2 rfl⟩
        | false => exact ⟨Or.inl rfl, fun h => by simp at h⟩
      · have := hI.st f c' hc' hcs
        simp only [StOk, hstateo f hf, habr] at this ⊢; exact this
    · intro f c' r' hc' hcc hr'
      rw [hcur] at hc'; rw [hev] at hr'
      rcases hcc' f c' hc' hcc with ⟨rfl, rfl⟩ | ⟨hf, hcs⟩
      · rw [hevc] at hr'; injection hr' with hr'; subst hr'; exact hresok _ hx1
      · exact hresok _ (hI.res f c' r' hc' hcs hr')
    · intro u c2 r2 hti hr2
      rw [hev] at hr2
      rcases top_cases hO hth' rfl hti with ⟨_, h1⟩ | ⟨hu, h1⟩
      · simp [Thread.cont, hst] at h1
      · exact hresok _ (hI.topRd u c2 r2 h1 hr2)
    · intro u c2 ab2 r2 hti hr2
      rw [hev] at hr2
      rcases top_cases hO hth' rfl hti with ⟨_, h1⟩ | ⟨hu, h1⟩
      · simp [Thread.cont, hst] at h1
      · obtain ⟨h2, h3⟩ := hI.topX u c2 ab2 r2 h1 hr2
        exact ⟨hresok _ h2, by rw [habr]; exact h3⟩

end frames

end Nstd.Future
