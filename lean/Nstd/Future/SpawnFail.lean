import Nstd.Future.Spec
/-
  Failing creation of a pool worker as an ENVIRONMENT CHOICE (round 3).

  `ThreadPool::run` (src/Future.cpp) reserves a worker under the pool mutex (`++_threadCount; context = &_threads.append();`)
  and creates the thread afterwards:

      if (!context->_thread.start(*context, &ThreadContext::proc))
        context->_terminated = true;

  `Model.lean` only has the successful `Thread::start` (`runSpStart k` creates the worker thread).  This file adds the
  other outcome without touching `Model.lean` (the 30 000 lines of proofs over `Reach` stay valid):

    a failed `Thread::start` = the worker thread is created in the model (`runSpStart k`, `runSpawned w`: two ordinary
    micro-steps) and put on the list `dead`; a thread on that list NEVER takes a step.

  That is exactly what the code leaves behind: `_threadCount` stays incremented (nothing undoes the `++`), the job stays
  queued, no thread exists for the context.  The encoding differs from the code only in the pool's context list (the code
  marks the context `_terminated` and purges it later; here the context stays listed, unterminated) — which nothing but the
  purge and the join loop of `~ThreadPool` reads: the purge of a never-started context is unobservable (no join, no
  scheduling point); the join loop is where the extended system stops being exact: the model's destructor would wait for
  the never-created thread (`dJoin`), the code's `Thread::join` of a never-started thread returns at once.  So `XReach`
  covers every behaviour of the code with failing thread creations UP TO the join loop of `~ThreadPool` (all client
  operations, all workers, the destructor's terminate jobs); see `PropsSpawnFail.lean` for what is proved and what is open.

  Only the REPAIRED configuration is meant (`cfg.repaired = true`): the original `~ThreadPool` counted list entries.
  Thread ids: a failed creation consumes the next thread id (the scheduler of the harness does the same).
-/
namespace Nstd.Future

/-- state of the extended system: the model state and the threads whose creation failed (they exist in `s.threads` as
    freshly created workers and never run) -/
structure XState where
  s : State
  dead : List Tid := []

/-- thread `t` is about to call `Thread::start` for the context with id `k` -/
def spawnIdx (s : State) (t : Tid) : Option Nat :=
  match s.threads t with
  | some th => if th.finished then none else match th.stack with
    | .runSpStart k :: _ => some k
    | _ => none
  | none => none

/-- an ordinary micro-step of a thread that exists -/
def xstep (x : XState) (t : Tid) : Option (XState × List String) :=
  if x.dead.contains t then none else
  match step x.s t with
  | some (s', o) => some ({ x with s := s' }, o)
  | none => none

/-- the environment refuses the thread: `Thread::start` returns false, the caller marks the context terminated and returns
    from `run()`; in the encoding: the worker record is created (`runSpStart`), the yield after a successful creation is
    skipped over (`runSpawned`), and the new thread id goes on the `dead` list -/
def xfail (x : XState) (t : Tid) : Option (XState × List String) :=
  if x.dead.contains t then none else
  match spawnIdx x.s t with
  | none => none
  | some _ =>
    match step x.s t with
    | some (s1, _) => match step s1 t with
      | some (s2, _) => some ({ s := s2, dead := x.s.nthreads :: x.dead }, [s!"E {t} create-failed t{x.s.nthreads}"])
      | none => none
    | none => none

def xenabled (x : XState) (t : Tid) : Bool := !x.dead.contains t && enabled x.s t

/-- all runs of the pool with failing thread creations (the failure is chosen by the environment at every creation) -/
inductive XReach (cfg : Config) : XState → Prop where
  | init : XReach cfg { s := State.init cfg }
  | step {x x' : XState} {o : List String} (t : Tid) : XReach cfg x → xstep x t = some (x', o) → XReach cfg x'
  | fail {x x' : XState} {o : List String} (t : Tid) : XReach cfg x → xfail x t = some (x', o) → XReach cfg x'

/-- number of pool-worker creations attempted so far (every attempt, failed or not, consumes a thread id; the other
    threads are the main thread and the clients it has created) -/
def workerCreations (s : State) : Nat := s.nthreads - 1 - s.clientTids.length

/-- the environment as a bit mask (what the harness option `cf=<mask>` means): the `k`-th creation of a pool worker, in the
    order of the `Thread::start` calls, fails iff bit `k` is set -/
def xmove (mask : Nat) (x : XState) (t : Tid) : Option (XState × List String) :=
  match spawnIdx x.s t with
  | some _ => if mask.testBit (workerCreations x.s) then xfail x t else xstep x t
  | none => xstep x t

def xrun (mask : Nat) : XState → List Tid → Option XState
  | x, [] => some x
  | x, t :: ts => match xmove mask x t with
    | some (x', _) => xrun mask x' ts
    | none => none

/-- no thread that exists can take a step -/
def xAllBlocked (x : XState) : Bool := (List.range x.s.nthreads).all (fun t => !xenabled x t)

end Nstd.Future
