import Nstd.Future.Spec
/-
  Failing creation of a pool worker as an ENVIRONMENT CHOICE (round 3).

  `ThreadPool::run` (src/Future.cpp) reserves a worker under the pool mutex (`++_threadCount; context = &_threads.append();`)
  and creates the thread afterwards:

      if (!context->_thread.start(*context, &ThreadContext::proc))
        context->_terminated = true;

  `Model.lean` only has the successful `Thread::start` (`runSpStart k` creates the worker thread).  This file adds the
  other outcome without touching `Model.lean` (the 30 000 lines of proofs over `Reach` stay valid):

    a failed `Thread::start` = the worker thread is created in the model (`runSpStart k`, `runSpawned w`: two ordinary
    micro-steps) and put on the list `dead`; a thread on that list NEVER takes a step.

  That is exactly what the code leaves behind: `_threadCount` stays incremented (nothing undoes the `++`), the job stays
  queued, no thread exists for the context.  The encoding differs from the code only in the pool's context list (the code
  marks the context `_terminated` and purges it later; here the context stays listed, unterminated) — which nothing but the
  purge and the join loop of `~ThreadPool` reads: the purge of a never-started context is unobservable (no join, no
  scheduling point); the join loop is where the extended system stops being exact: the model's destructor would wait for
  the never-created thread (`dJoin`), the code's `Thread::join` of a never-started thread returns at once.  So `XReach`
  covers every behaviour of the code with failing thread creations UP TO the join loop of `~ThreadPool` (all client
  operations, all workers, the destructor's terminate jobs); see `PropsSpawnFail.lean` for what is proved and what is open.

  Only the REPAIRED configuration is meant (`cfg.repaired = true`): the original `~ThreadPool` counted list entries.
  Thread ids: a failed creation consumes the next thread id (the scheduler of the harness does the same).
-/
namespace Nstd.Future

/-- state of the extended system: the model state and the threads whose creation failed (they exist in `s.threads` as
    freshly created workers and never run) -/
structure XState where
  s : State
  dead : List Tid := []
  /-- repaired failure branch (fixes/future/0006) only: threads inside the handler
      `{ Mutex::Guard guard(_mutex); --_threadCount; context->_terminated = true; }` with their handler pc and the context id -/
  fixing : List (Tid × Nat × Nat) := []

/-- thread `t` is about to call `Thread::start` for the context with id `k` -/
def spawnIdx (s : State) (t : Tid) : Option Nat :=
  match s.threads t with
  | some th => if th.finished then none else match th.stack with
    | .runSpStart k :: _ => some k
    | _ => none
  | none => none

/-- an ordinary micro-step of a thread that exists -/
def xstep (x : XState) (t : Tid) : Option (XState × List String) :=
  if x.dead.contains t then none else
  match step x.s t with
  | some (s', o) => some ({ x with s := s' }, o)
  | none => none

/-- the environment refuses the thread: `Thread::start` returns false, the caller marks the context terminated and returns
    from `run()`; in the encoding: the worker record is created (`runSpStart`), the yield after a successful creation is
    skipped over (`runSpawned`), and the new thread id goes on the `dead` list -/
def xfail (x : XState) (t : Tid) : Option (XState × List String) :=
  if x.dead.contains t then none else
  match spawnIdx x.s t with
  | none => none
  | some _ =>
    match step x.s t with
    | some (s1, _) => match step s1 t with
      | some (s2, _) => some ({ s := s2, dead := x.s.nthreads :: x.dead }, [s!"E {t} create-failed t{x.s.nthreads}"])
      | none => none
    | none => none

def xenabled (x : XState) (t : Tid) : Bool := !x.dead.contains t && enabled x.s t

/-- all runs of the pool with failing thread creations (the failure is chosen by the environment at every creation) -/
inductive XReach (cfg : Config) : XState → Prop where
  | init : XReach cfg { s := State.init cfg }
  | step {x x' : XState} {o : List String} (t : Tid) : XReach cfg x → xstep x t = some (x', o) → XReach cfg x'
  | fail {x x' : XState} {o : List String} (t : Tid) : XReach cfg x → xfail x t = some (x', o) → XReach cfg x'

/-- number of pool-worker creations attempted so far (every attempt, failed or not, consumes a thread id; the other
    threads are the main thread and the clients it has created) -/
def workerCreations (s : State) : Nat := s.nthreads - 1 - s.clientTids.length

/-- the environment as a bit mask (what the harness option `cf=<mask>` means): the `k`-th creation of a pool worker, in the
    order of the `Thread::start` calls, fails iff bit `k` is set -/
def xmove (mask : Nat) (x : XState) (t : Tid) : Option (XState × List String) :=
  match spawnIdx x.s t with
  | some _ => if mask.testBit (workerCreations x.s) then xfail x t else xstep x t
  | none => xstep x t

def xrun (mask : Nat) : XState → List Tid → Option XState
  | x, [] => some x
  | x, t :: ts => match xmove mask x t with
    | some (x', _) => xrun mask x' ts
    | none => none

/-! ### the REPAIRED failure branch (fixes/future/0006): the reservation is undone under the pool mutex

  `if(!context->_thread.start(..)) { Mutex::Guard guard(_mutex); --_threadCount; context->_terminated = true; }`.
  No thread record is created (the thread id is consumed, as in the scheduler of the harness); the creator runs the three handler
  steps `0` = lock `_mutex` (scheduling point, blocks while the mutex is held), `1` = the two plain stores, `2` = unlock (scheduling
  point), and only then returns from `run()`.  The handler's program counters are kept OUTSIDE `Frame` (list `fixing`), so `Model.lean`
  and every theorem over `Reach` are untouched; runs without a refused creation are runs of `Reach`, step by step (`xfreach_reach_of_no_failure`).
  The context stays in `_threads` as (`_terminated`, never started): the purge (`cleanAt`: erase without join) and the join loop of
  `~ThreadPool` (`dJoin`: skip) of `Model.lean` already treat such a context the way `~Thread` / `Thread::join` do (`if(!thread) return`). -/

def fixPcOf (x : XState) (t : Tid) : Option (Nat × Nat) := (x.fixing.find? (fun e => e.1 == t)).map (·.2)

/-- `Thread::start` returns false (repaired code): the creator leaves `runSpStart`, the thread id is consumed, the handler starts -/
def xfailFix (x : XState) (t : Tid) : Option (XState × List String) :=
  if (fixPcOf x t).isSome then none else
  match spawnIdx x.s t, x.s.threads t with
  | some k, some th =>
    some ({ x with s := { (setThread x.s t (th.cont [])) with nthreads := x.s.nthreads + 1 }, fixing := (t, 0, k) :: x.fixing },
          [s!"E {t} create-failed t{x.s.nthreads}"])
  | _, _ => none

/-- can the handler of `t` take its next step? (only the lock can block) -/
def xfixEnabled (x : XState) (t : Tid) : Bool :=
  match fixPcOf x t, x.s.pool with
  | some (0, _), some p => p.mOwner.isNone
  | some _, some _ => true
  | _, _ => false

/-- one step of the failure handler -/
def xfixStep (x : XState) (t : Tid) : Option (XState × List String) :=
  match fixPcOf x t, x.s.pool with
  | some (pc, k), some p =>
    let setPc := fun (n : Nat) => x.fixing.map (fun e => if e.1 == t then (t, n, k) else e)
    if pc = 0 then
      if p.mOwner.isSome then none
      else some ({ x with s := setPool x.s { p with mOwner := some t }, fixing := setPc 1 }, [opLine "lock" "pool.m" 0])
    else if pc = 1 then
      let ctxs' := p.ctxs.map (fun c => if c.id = k then { c with terminated := true } else c)
      let p' : Pool := { p with threadCount := p.threadCount - 1, ctxs := ctxs' }
      some ({ x with s := setPool x.s p', fixing := setPc 2 }, [])
    else
      some ({ x with s := setPool x.s { p with mOwner := none }, fixing := x.fixing.filter (fun e => e.1 != t) }, [opLine "unlock" "pool.m" 0])
  | _, _ => none

/-- an ordinary micro-step in the repaired system: not for a thread that is inside the failure handler -/
def xstepF (x : XState) (t : Tid) : Option (XState × List String) :=
  if (fixPcOf x t).isSome then none else xstep x t

def xenabledF (x : XState) (t : Tid) : Bool :=
  if (fixPcOf x t).isSome then xfixEnabled x t else enabled x.s t

/-- all runs of the REPAIRED pool with failing thread creations -/
inductive XReachFix (cfg : Config) : XState → Prop where
  | init : XReachFix cfg { s := State.init cfg }
  | step {x x' : XState} {o : List String} (t : Tid) : XReachFix cfg x → xstepF x t = some (x', o) → XReachFix cfg x'
  | fail {x x' : XState} {o : List String} (t : Tid) : XReachFix cfg x → xfailFix x t = some (x', o) → XReachFix cfg x'
  | fix {x x' : XState} {o : List String} (t : Tid) : XReachFix cfg x → xfixStep x t = some (x', o) → XReachFix cfg x'

def xmoveFix (mask : Nat) (x : XState) (t : Tid) : Option (XState × List String) :=
  if (fixPcOf x t).isSome then xfixStep x t else
  match spawnIdx x.s t with
  | some _ => if mask.testBit (workerCreations x.s) then xfailFix x t else xstepF x t
  | none => xstepF x t

def xrunFix (mask : Nat) : XState → List Tid → Option XState
  | x, [] => some x
  | x, t :: ts => match xmoveFix mask x t with
    | some (x', _) => xrunFix mask x' ts
    | none => none

def xAllBlockedF (x : XState) : Bool := (List.range x.s.nthreads).all (fun t => !xenabledF x t)

/-- TAIL RULE of the unrepaired failure branch (what the driver replays at the end of such a run): the join loop of `~ThreadPool`
    meets the context of a refused thread; `Thread::join` of a never-started thread returns at once (`if(!thread) return 0;`),
    no scheduling point.  Not a step of `Model.lean` (there the destructor would wait for the thread). -/
def xpass (x : XState) (t : Tid) : Option XState :=
  match x.s.threads t, x.s.pool with
  | some th, some p =>
    match th.stack with
    | .dJoin i :: _ =>
      match p.ctxs[i]? with
      | some { tid := some w, .. } =>
        if x.dead.contains w then
          some { x with s := setThread x.s t (th.cont [if i + 1 < p.ctxs.length then .dJoin (i + 1) else .dFin]) }
        else none
      | _ => none
    | _ => none
  | _, _ => none

/-- no thread that exists can take a step -/
def xAllBlocked (x : XState) : Bool := (List.range x.s.nthreads).all (fun t => !xenabled x t)

end Nstd.Future
