/-
  LEVEL 1: one `push`/`pop` micro-step.
-/
import Nstd.Future.Fair2L1A
set_option linter.unusedVariables false
set_option linter.unusedSimpArgs false
namespace Nstd.Future.L1
open FR F2

set_option hygiene false in
local macro "ring_tail" : tactic => `(tactic| (
    cases c <;> simp [isPopB, popCallerB, pushCallerB] at hcal <;>
      simp only [ringStep] at hrs <;> (try split at hrs) <;>
      simp only [Prod.mk.injEq] at hrs <;> obtain ⟨h1, h2⟩ := hrs <;> subst h1 <;> subst h2 <;>
      simp [setThread, setPool, withFault, upd, Thread.cont, hst] at h hf <;>
      (try subst h) <;>
      first
      | (have hit := hind true
         have hif := hind false
         first | have hi := hidx _ (Or.inl rfl) | have hi := hidx _ (Or.inr rfl) | skip
         first | have hq := hpop' _ rfl (by assumption) | skip
         refine ⟨?_, fun hw => ?_⟩
         · (simp [thw, hst, w1, wonOf, ringOf, pcWon, poolTerm, poolw, Ring.setSlot, setThread, setPool, withFault,
              dpw, hp, *] <;> omega)
         · first
           | (simp only [workFr] at hw; done)
           | (have hw' := hw p hp
              (simp [thw, hst, w1, wonOf, ringOf, pcWon, poolTerm, poolw, Ring.setSlot, setThread, setPool, withFault,
                dpw, hp, *] <;> omega))
         done)
      | (exfalso; simp_all; done)))

set_option maxHeartbeats 4000000 in
theorem l1Ring (N : Nat) (sc : List (List ClientOp)) (s : State) (t : Tid) (th : Thread) (pc : RingPc Job)
    (c : Frame) (rest : List Frame) (hst : th.stack = .ring pc :: c :: rest)
    (hcal : (if isPopB pc then popCallerB c else pushCallerB c) = true)
    (hidx : ∀ i, (c = .dChk1 i ∨ c = .dChk2 i) → i < N)
    (hpop : ∀ p h, s.pool = some p → pc = .popCas h → p.ring.head = h → h < p.ring.tail)
    (hind : ∀ b, stk N sc b none rest = stk N sc th.retB none rest) :
    ∀ th', (stepFrame s t th (.ring pc)).1.threads t = some th' → (stepFrame s t th (.ring pc)).1.fault = none →
      thw N sc th' + poolTerm (stepFrame s t th (.ring pc)).1 ≤ thw N sc th + poolTerm s ∧
      (workFr s th (.ring pc) →
        thw N sc th' + poolTerm (stepFrame s t th (.ring pc)).1 < thw N sc th + poolTerm s) := by
  cases hp : s.pool with
  | none =>
    intro th' h hf
    simp [stepFrame, hp, withFault] at hf
  | some p =>
    have hpop' := fun h => hpop p h hp
    intro th' h hf
    simp only [stepFrame, hp] at h hf ⊢
    rcases hrs : ringStep p.ring pc with ⟨r', res⟩
    try rw [hrs] at h
    try rw [hrs] at hf
    dsimp only at h hf ⊢
    cases pc with
    | popRel hh dd => cases dd <;> ring_tail
    | _ => ring_tail

end Nstd.Future.L1
