/-
  Preservation of `RingInv` by each kind of micro-step of the lock-free ring.
-/
import Nstd.Future.RingLemmas1

namespace Nstd.Future
variable {α : Type}

/-- a step that only changes the pc of thread `t`, from an unclaimed state to an unclaimed state -/
theorem inv_pcOnly {cap : Nat} {s : RingSys α} (t : Nat) (p' : Option (RingPc α))
    (hI : RingInv cap s)
    (hold : ∀ p, s.pcs t = some p → pushTicket p = none ∧ popTicket p = none)
    (hnew : ∀ p, p' = some p → pushTicket p = none ∧ popTicket p = none)
    (hpush : ∀ d x, p' = some (.pushCas d x) → (s.ring.slots (x % cap)).tailT = x ∨ x < s.ring.head)
    (hpop : ∀ h, p' = some (.popCas h) → (s.ring.slots (h % cap)).headT = some h ∨ h < s.ring.head) :
    RingInv cap (s.setPc t p') := by
  constructor <;> simp only [RingSys.setPc]
  case capEq => exact hI.capEq
  case logLen => exact hI.logLen
  case hLeT => exact hI.hLeT
  case slotMod => exact hI.slotMod
  case slotLt => exact hI.slotLt
  case slotGe => exact hI.slotGe
  case slotHead => exact hI.slotHead
  case slotFree => exact hI.slotFree
  case slotPub => exact hI.slotPub
  case popLogSound => exact hI.popLogSound
  case popLogNodup => exact hI.popLogNodup
  case slotPusher =>
    intro i hi h1 h2
    obtain ⟨u, d, hu⟩ := hI.slotPusher i hi h1 h2
    have := hold (.pushData d (s.ring.slots i).tailT)
    have := hold (.pushPub d (s.ring.slots i).tailT)
    refine ⟨u, d, ?_⟩
    grind [pushTicket]
  case slotPopper =>
    intro i hi h1 h2
    obtain ⟨u, hu⟩ := hI.slotPopper i hi h1 h2
    refine ⟨u, ?_⟩
    have := hold (.popData (s.ring.slots i).tailT)
    grind [popTicket]
  case pcPushCas =>
    intro u d x hu
    have := hI.pcPushCas u d x
    grind
  case pcPopCas =>
    intro u x hu
    have := hI.pcPopCas u x
    grind
  case pcPushData =>
    intro u d x hu
    have := hI.pcPushData u d x
    have := hnew (.pushData d x)
    grind [pushTicket]
  case pcPushPub =>
    intro u d x hu
    have := hI.pcPushPub u d x
    have := hnew (.pushPub d x)
    grind [pushTicket]
  case pcPopData =>
    intro u x hu
    have := hI.pcPopData u x
    have := hnew (.popData x)
    grind [popTicket]
  case pcPopRel =>
    intro u x d hu
    have := hI.pcPopRel u x d
    have := hnew (.popRel x d)
    grind [popTicket]
  case uniqPush =>
    intro u v p q x huv hu hv hp hq
    have := hI.uniqPush u v p q x huv
    grind
  case uniqPop =>
    intro u v p q x huv hu hv hp hq
    have := hI.uniqPop u v p q x huv
    grind

theorem getElem?_snoc_lt {l : List α} {a : α} {i : Nat} (h : i < l.length) : (l ++ [a])[i]? = l[i]? :=
  List.getElem?_append_left h

theorem getElem?_snoc_some {l : List α} {a b : α} {i : Nat} (h : l[i]? = some b) :
    (l ++ [a])[i]? = some b := by
  have : i < l.length := by
    rcases List.getElem?_eq_some_iff.mp h with ⟨h', _⟩; exact h'
  rw [List.getElem?_append_left this]; exact h

theorem inv_pushCas_ok {cap : Nat} (hc : 0 < cap) {s : RingSys α} {t : Nat} {d : α} {x : Nat}
    (hI : RingInv cap s) (hpc : s.pcs t = some (.pushCas d x)) (hx : s.ring.tail = x) :
    RingInv cap (({ s with ring := { s.ring with tail := x + 1, pushLog := s.ring.pushLog ++ [d] } } :
      RingSys α).setPc t (some (.pushData d x))) := by
  have hlen := hI.logLen
  have hHT := hI.hLeT
  have hxc : x % cap < cap := Nat.mod_lt _ hc
  have hslot : (s.ring.slots (x % cap)).tailT = x := by
    have := hI.pcPushCas t d x hpc; omega
  have hprev : PrevHead cap (s.ring.slots (x % cap)) := by
    rcases hI.slotHead _ hxc with h | h
    · exact h
    · have := (hI.slotPub _ hxc h).1; omega
  constructor <;> simp only [RingSys.setPc]
  case capEq => exact hI.capEq
  case logLen => simp only [List.length_append, List.length_singleton]; omega
  case hLeT => omega
  case slotMod => exact hI.slotMod
  case slotLt => exact hI.slotLt
  case slotGe =>
    intro i hi
    have h1 := hI.slotGe i hi
    have h2 := hI.slotMod i hi
    by_cases hix : i = x % cap
    · subst hix; omega
    · have : (s.ring.slots i).tailT + cap ≠ x := by
        intro h; apply hix; rw [← h, Nat.add_mod_right]; exact h2.symm
      omega
  case slotHead => exact hI.slotHead
  case slotFree => exact hI.slotFree
  case slotPub =>
    intro i hi h
    have := hI.slotPub i hi h
    rw [getElem?_snoc_lt (by omega)]
    exact ⟨by omega, this.2⟩
  case popLogSound =>
    intro h d' hm
    have := hI.popLogSound h d' hm
    rw [getElem?_snoc_lt (by omega)]
    exact this
  case popLogNodup => exact hI.popLogNodup
  case slotPusher =>
    intro i hi h1 h2
    by_cases hlt : (s.ring.slots i).tailT < s.ring.tail
    · obtain ⟨u, d', hu⟩ := hI.slotPusher i hi hlt h2
      refine ⟨u, d', ?_⟩
      grind
    · have h3 := hI.slotMod i hi
      have : (s.ring.slots i).tailT = x := by omega
      refine ⟨t, d, ?_⟩
      grind
  case slotPopper =>
    intro i hi h1 h2
    obtain ⟨u, hu⟩ := hI.slotPopper i hi h1 h2
    refine ⟨u, ?_⟩
    grind
  case pcPushCas =>
    intro u d x hu
    have := hI.pcPushCas u d x
    grind
  case pcPopCas =>
    intro u x hu
    have := hI.pcPopCas u x
    grind
  case pcPushData =>
    intro u d' y hu
    by_cases hut : u = t
    · subst hut
      simp only [if_true, Option.some.injEq, RingPc.pushData.injEq] at hu
      obtain ⟨rfl, rfl⟩ := hu
      refine ⟨by omega, hslot, hprev, ?_⟩
      rw [← hx, ← hlen]; exact List.getElem?_concat_length
    · rw [if_neg hut] at hu
      have := hI.pcPushData u d' y hu
      exact ⟨by omega, this.2.1, this.2.2.1, getElem?_snoc_some this.2.2.2⟩
  case pcPushPub =>
    intro u d' y hu
    by_cases hut : u = t
    · subst hut; simp at hu
    · rw [if_neg hut] at hu
      have := hI.pcPushPub u d' y hu
      exact ⟨by omega, this.2.1, this.2.2.1, getElem?_snoc_some this.2.2.2.1, this.2.2.2.2⟩
  case pcPopData =>
    intro u y hu
    by_cases hut : u = t
    · subst hut; simp at hu
    · rw [if_neg hut] at hu
      have := hI.pcPopData u y hu
      rw [getElem?_snoc_lt (by omega)]
      exact this
  case pcPopRel =>
    intro u y d' hu
    by_cases hut : u = t
    · subst hut; simp at hu
    · rw [if_neg hut] at hu
      have := hI.pcPopRel u y d' hu
      rw [getElem?_snoc_lt (by omega)]
      exact this
  case uniqPush =>
    intro u v p q y huv hu hv hp hq
    have h0 := hI.uniqPush u v p q y huv
    have h1 := hI.pcPushData u
    have h2 := hI.pcPushPub u
    have h3 := hI.pcPushData v
    have h4 := hI.pcPushPub v
    by_cases hut : u = t
    · subst hut
      rw [if_neg (Ne.symm huv)] at hv
      simp only [if_true, Option.some.injEq] at hu
      subst hu
      simp only [pushTicket, Option.some.injEq] at hp
      subst hp
      cases q <;> simp only [pushTicket, Option.some.injEq] at hq <;> try cases hq
      · have := (h3 _ _ hv).1; omega
      · have := (h4 _ _ hv).1; omega
    · rw [if_neg hut] at hu
      by_cases hvt : v = t
      · subst hvt
        simp only [if_true, Option.some.injEq] at hv
        subst hv
        simp only [pushTicket, Option.some.injEq] at hq
        subst hq
        cases p <;> simp only [pushTicket, Option.some.injEq] at hp <;> try cases hp
        · have := (h1 _ _ hu).1; omega
        · have := (h2 _ _ hu).1; omega
      · rw [if_neg hvt] at hv
        exact h0 hu hv hp hq
  case uniqPop =>
    intro u v p q x huv hu hv hp hq
    have := hI.uniqPop u v p q x huv
    grind [popTicket]

theorem prevHead_congr {cap : Nat} {a b : Slot α} (h1 : a.tailT = b.tailT) (h2 : a.headT = b.headT) :
    PrevHead cap a ↔ PrevHead cap b := by
  simp only [PrevHead, h1, h2]

theorem inv_pushData {cap : Nat} (hc : 0 < cap) {s : RingSys α} {t : Nat} {d : α} {x : Nat}
    (hI : RingInv cap s) (hpc : s.pcs t = some (.pushData d x)) :
    RingInv cap (({ s with ring := s.ring.setSlot (x % cap) { s.ring.slots (x % cap) with data := some d } } : RingSys α).setPc t (some (.pushPub d x))) := by
  have hxc : x % cap < cap := Nat.mod_lt _ hc
  obtain ⟨hxT, hslot, hprev, hlog⟩ := hI.pcPushData t d x hpc
  have hT : ∀ j, ((if j = x % cap then { s.ring.slots (x % cap) with data := some d } else s.ring.slots j) : Slot α).tailT
      = (s.ring.slots j).tailT := by intro j; split <;> simp [*]
  have hH : ∀ j, ((if j = x % cap then { s.ring.slots (x % cap) with data := some d } else s.ring.slots j) : Slot α).headT
      = (s.ring.slots j).headT := by intro j; split <;> simp [*]
  have hP : ∀ j, PrevHead cap ((if j = x % cap then { s.ring.slots (x % cap) with data := some d } else s.ring.slots j) : Slot α)
      ↔ PrevHead cap (s.ring.slots j) := fun j => prevHead_congr (hT j) (hH j)
  constructor <;> simp only [RingSys.setPc, Ring.setSlot, hT, hH, hP]
  case capEq => exact hI.capEq
  case logLen => exact hI.logLen
  case hLeT => exact hI.hLeT
  case slotMod => exact hI.slotMod
  case slotLt => exact hI.slotLt
  case slotGe => exact hI.slotGe
  case slotHead => exact hI.slotHead
  case slotFree => exact hI.slotFree
  case popLogSound => exact hI.popLogSound
  case popLogNodup => exact hI.popLogNodup
  case pcPushCas => 
    intro u d x hu
    have := hI.pcPushCas u d x
    grind
  case pcPopCas => 
    intro u x hu
    have := hI.pcPopCas u x
    grind
  case slotPusher =>
    intro i hi h1 h2
    obtain ⟨u, d', hu⟩ := hI.slotPusher i hi h1 h2
    refine ⟨u, d', ?_⟩
    grind
  case slotPub =>
    intro i hi h
    have h0 := hI.slotPub i hi h
    have h1 := not_prevHead_of_headT (cap := cap) hc h
    grind
  case slotPopper =>
    intro i hi h1 h2
    obtain ⟨u, hu⟩ := hI.slotPopper i hi h1 h2
    refine ⟨u, ?_⟩
    grind
  case pcPushData =>
    intro u d' y hu
    have := hI.pcPushData u d' y
    grind
  case pcPushPub =>
    intro u d' y hu
    have h0 := hI.pcPushPub u d' y
    have h1 := hI.uniqPush u t (.pushPub d' y) (.pushData d x) x
    grind [pushTicket]
  case pcPopData =>
    intro u y hu
    have h0 := hI.pcPopData u y
    have h1 := @not_prevHead_of_headT _ cap hc (s.ring.slots (x % cap))
    grind
  case pcPopRel =>
    intro u y d' hu
    have h0 := hI.pcPopRel u y d'
    grind
  case uniqPush =>
    intro u v p q y huv hu hv hp hq
    have h0 := hI.uniqPush u v p q y huv
    have h1 := hI.uniqPush u v (.pushData d x) q y huv
    have h2 := hI.uniqPush u v p (.pushData d x) y huv
    grind [pushTicket]
  case uniqPop =>
    intro u v p q y huv hu hv hp hq
    have h0 := hI.uniqPop u v p q y huv
    grind [popTicket]

theorem inv_pushPub {cap : Nat} (hc : 0 < cap) {s : RingSys α} {t : Nat} {d : α} {x : Nat}
    (hI : RingInv cap s) (hpc : s.pcs t = some (.pushPub d x)) :
    RingInv cap (({ s with ring := s.ring.setSlot (x % cap) { s.ring.slots (x % cap) with headT := some x } } : RingSys α).setPc t none) := by
  have hxc : x % cap < cap := Nat.mod_lt _ hc
  obtain ⟨hxT, hslot, hprev, hlog, hdata⟩ := hI.pcPushPub t d x hpc
  have hT : ∀ j, ((if j = x % cap then { s.ring.slots (x % cap) with headT := some x } else s.ring.slots j) : Slot α).tailT
      = (s.ring.slots j).tailT := by intro j; split <;> simp [*]
  have hD : ∀ j, ((if j = x % cap then { s.ring.slots (x % cap) with headT := some x } else s.ring.slots j) : Slot α).data
      = (s.ring.slots j).data := by intro j; split <;> simp [*]
  have hH : ∀ j, ((if j = x % cap then { s.ring.slots (x % cap) with headT := some x } else s.ring.slots j) : Slot α).headT
      = if j = x % cap then some x else (s.ring.slots j).headT := by intro j; split <;> simp [*]
  have hP : ∀ j, PrevHead cap ((if j = x % cap then { s.ring.slots (x % cap) with headT := some x } else s.ring.slots j) : Slot α)
      ↔ (j ≠ x % cap ∧ PrevHead cap (s.ring.slots j)) := by
    intro j
    by_cases hj : j = x % cap
    · simp only [hj, if_true, ne_eq, not_true_eq_false, false_and, iff_false]
      apply not_prevHead_of_headT hc
      simp only [hslot]
    · simp only [hj, if_false, ne_eq, not_false_eq_true, true_and]
  have hfree := hI.slotFree _ hxc hprev
  constructor <;> simp only [RingSys.setPc, Ring.setSlot, hT, hD, hP, hH]
  case capEq => exact hI.capEq
  case logLen => exact hI.logLen
  case hLeT => exact hI.hLeT
  case slotMod => exact hI.slotMod
  case slotLt => exact hI.slotLt
  case slotGe => exact hI.slotGe
  case popLogSound => exact hI.popLogSound
  case popLogNodup => exact hI.popLogNodup
  case slotHead =>
    intro i hi
    have := hI.slotHead i hi
    grind
  case slotFree =>
    intro i hi h
    exact hI.slotFree i hi h.2
  case slotPusher =>
    intro i hi h1 h2
    obtain ⟨u, d', hu⟩ := hI.slotPusher i hi h1 h2.2
    have := hI.slotMod i hi
    refine ⟨u, d', ?_⟩
    grind
  case slotPub =>
    intro i hi h
    have h0 := hI.slotPub i hi
    grind
  case slotPopper =>
    intro i hi h1 h2
    have h0 := hI.slotPopper i hi
    by_cases hix : i = x % cap
    · subst hix; omega
    · rw [if_neg hix] at h1
      obtain ⟨u, hu⟩ := h0 h1 h2
      refine ⟨u, ?_⟩
      grind
  case pcPushCas => 
    intro u d x hu
    have := hI.pcPushCas u d x
    grind
  case pcPopCas => 
    intro u y hu
    have h0 := hI.pcPopCas u y
    have h1 := hI.slotLt _ hxc
    simp only [PrevHead] at hprev
    grind
  case pcPushData =>
    intro u d' y hu
    have := hI.pcPushData u d' y
    have h1 := hI.uniqPush u t (.pushData d' y) (.pushPub d x) x
    grind [pushTicket]
  case pcPushPub =>
    intro u d' y hu
    have h0 := hI.pcPushPub u d' y
    have h1 := hI.uniqPush u t (.pushPub d' y) (.pushPub d x) x
    grind [pushTicket]
  case pcPopData =>
    intro u y hu
    have h0 := hI.pcPopData u y
    grind
  case pcPopRel =>
    intro u y d' hu
    have h0 := hI.pcPopRel u y d'
    grind
  case uniqPush =>
    intro u v p q y huv hu hv hp hq
    have h0 := hI.uniqPush u v p q y huv
    grind
  case uniqPop =>
    intro u v p q y huv hu hv hp hq
    have h0 := hI.uniqPop u v p q y huv
    grind

theorem inv_popCas_ok {cap : Nat} (hc : 0 < cap) {s : RingSys α} {t : Nat} {h : Nat}
    (hI : RingInv cap s) (hpc : s.pcs t = some (.popCas h)) (hx : s.ring.head = h) :
    RingInv cap (({ s with ring := { s.ring with head := h + 1 } } : RingSys α).setPc t (some (.popData h))) := by
  have hxc : h % cap < cap := Nat.mod_lt _ hc
  have hHT := hI.hLeT
  have hhead : (s.ring.slots (h % cap)).headT = some h := by
    rcases hI.pcPopCas t h hpc with h1 | h1
    · exact h1
    · omega
  have hslot : (s.ring.slots (h % cap)).tailT = h := by
    have h1 := hI.slotLt _ hxc
    rcases hI.slotHead _ hxc with hp | hp
    · rcases hp with ⟨h2, _⟩ | ⟨y, h2, h3⟩
      · rw [hhead] at h2; cases h2
      · rw [hhead] at h2; cases h2; omega
    · rw [hhead] at hp; injection hp with hp; exact hp.symm
  have hpub := hI.slotPub _ hxc (by rw [hhead, hslot])
  rw [hslot] at hpub
  have hnp : ¬ PrevHead cap (s.ring.slots (h % cap)) :=
    not_prevHead_of_headT hc (by rw [hhead, hslot])
  have hnm : h ∉ s.ring.popLog.map Prod.fst := by
    intro hm
    obtain ⟨⟨h', d⟩, hm, he⟩ := List.mem_map.mp hm
    have := (hI.popLogSound h' d hm).1
    simp only at he; omega
  constructor <;> simp only [RingSys.setPc]
  case capEq => exact hI.capEq
  case logLen => exact hI.logLen
  case hLeT => omega
  case slotMod => exact hI.slotMod
  case slotLt => intro i hi; have := hI.slotLt i hi; omega
  case slotGe => exact hI.slotGe
  case popLogSound => intro h' d hm; have := hI.popLogSound h' d hm; exact ⟨by omega, this.2⟩
  case popLogNodup => exact hI.popLogNodup
  case slotHead => exact hI.slotHead
  case slotFree =>
    intro i hi hp
    have h0 := hI.slotFree i hi hp
    have h1 := hI.slotMod i hi
    by_cases hix : i = h % cap
    · subst hix; exact absurd hp hnp
    · have : (s.ring.slots i).tailT ≠ h := by intro he; rw [he] at h1; exact hix h1.symm
      omega
  case slotPusher =>
    intro i hi h1 h2
    obtain ⟨u, d', hu⟩ := hI.slotPusher i hi h1 h2
    refine ⟨u, d', ?_⟩
    grind
  case slotPub =>
    intro i hi h
    have h0 := hI.slotPub i hi h
    exact ⟨h0.1, fun h' => h0.2 (by omega)⟩
  case slotPopper =>
    intro i hi h1 h2
    by_cases hlt : (s.ring.slots i).tailT < s.ring.head
    · obtain ⟨u, hu⟩ := hI.slotPopper i hi h1 hlt
      refine ⟨u, ?_⟩
      grind
    · have : (s.ring.slots i).tailT = h := by omega
      refine ⟨t, Or.inl ?_⟩
      simp only [if_true, this]
  case pcPushCas => 
    intro u d x hu
    have := hI.pcPushCas u d x
    grind
  case pcPopCas => 
    intro u y hu
    have h0 := hI.pcPopCas u y
    grind
  case pcPushData =>
    intro u d' y hu
    have := hI.pcPushData u d' y
    grind
  case pcPushPub =>
    intro u d' y hu
    have h0 := hI.pcPushPub u d' y
    grind
  case pcPopData =>
    intro u y hu
    have h0 := hI.pcPopData u y
    grind
  case pcPopRel =>
    intro u y d' hu
    have h0 := hI.pcPopRel u y d'
    grind
  case uniqPush =>
    intro u v p q y huv hu hv hp hq
    have h0 := hI.uniqPush u v p q y huv
    grind [pushTicket]
  case uniqPop =>
    intro u v p q y huv hu hv hp hq
    have h0 := hI.uniqPop u v p q y huv
    have h1 := hI.pcPopData u
    have h2 := hI.pcPopRel u
    have h3 := hI.pcPopData v
    have h4 := hI.pcPopRel v
    by_cases hut : u = t
    · subst hut
      rw [if_neg (Ne.symm huv)] at hv
      simp only [if_true, Option.some.injEq] at hu
      subst hu
      simp only [popTicket, Option.some.injEq] at hp
      subst hp
      cases q <;> simp only [popTicket, Option.some.injEq] at hq <;> try cases hq
      · have := (h3 _ hv).1; omega
      · have := (h4 _ _ hv).1; omega
    · rw [if_neg hut] at hu
      by_cases hvt : v = t
      · subst hvt
        simp only [if_true, Option.some.injEq] at hv
        subst hv
        simp only [popTicket, Option.some.injEq] at hq
        subst hq
        cases p <;> simp only [popTicket, Option.some.injEq] at hp <;> try cases hp
        · have := (h1 _ hu).1; omega
        · have := (h2 _ _ hu).1; omega
      · rw [if_neg hvt] at hv
        exact h0 hu hv hp hq

theorem inv_popData {cap : Nat} (hc : 0 < cap) {s : RingSys α} {t : Nat} {h : Nat}
    (hI : RingInv cap s) (hpc : s.pcs t = some (.popData h)) :
    RingInv cap (({ s with ring := { (s.ring.setSlot (h % cap) { s.ring.slots (h % cap) with data := none }) with popLog := s.ring.popLog ++ [(h, (s.ring.slots (h % cap)).data)] } } : RingSys α).setPc t (some (.popRel h (s.ring.slots (h % cap)).data))) := by
  have hxc : h % cap < cap := Nat.mod_lt _ hc
  obtain ⟨hhH, hslot, hhead, hdata, hnm⟩ := hI.pcPopData t h hpc
  have hT : ∀ j, ((if j = h % cap then { s.ring.slots (h % cap) with data := none } else s.ring.slots j) : Slot α).tailT
      = (s.ring.slots j).tailT := by intro j; split <;> simp [*]
  have hH : ∀ j, ((if j = h % cap then { s.ring.slots (h % cap) with data := none } else s.ring.slots j) : Slot α).headT
      = (s.ring.slots j).headT := by intro j; split <;> simp [*]
  have hP : ∀ j, PrevHead cap ((if j = h % cap then { s.ring.slots (h % cap) with data := none } else s.ring.slots j) : Slot α)
      ↔ PrevHead cap (s.ring.slots j) := fun j => prevHead_congr (hT j) (hH j)
  have hnp : ¬ PrevHead cap (s.ring.slots (h % cap)) :=
    not_prevHead_of_headT hc (by rw [hhead, hslot])
  constructor <;> simp only [RingSys.setPc, Ring.setSlot, hT, hH, hP]
  case capEq => exact hI.capEq
  case logLen => exact hI.logLen
  case hLeT => exact hI.hLeT
  case slotMod => exact hI.slotMod
  case slotLt => exact hI.slotLt
  case slotGe => exact hI.slotGe
  case slotHead => exact hI.slotHead
  case slotFree => exact hI.slotFree
  case popLogSound =>
    intro h' d hm
    rcases List.mem_append.mp hm with hm | hm
    · exact hI.popLogSound h' d hm
    · simp only [List.mem_singleton, Prod.mk.injEq] at hm
      obtain ⟨rfl, rfl⟩ := hm
      exact ⟨hhH, hdata⟩
  case popLogNodup =>
    rw [List.map_append, List.nodup_append]
    refine ⟨hI.popLogNodup, by simp, ?_⟩
    intro a ha b hb
    simp only [List.map_cons, List.map_nil, List.mem_singleton] at hb
    subst hb
    intro hab; subst hab; exact hnm ha
  case pcPushCas => 
    intro u d x hu
    have := hI.pcPushCas u d x
    grind
  case pcPopCas => 
    intro u x hu
    have := hI.pcPopCas u x
    grind
  case slotPusher =>
    intro i hi h1 h2
    obtain ⟨u, d', hu⟩ := hI.slotPusher i hi h1 h2
    refine ⟨u, d', ?_⟩
    grind
  case slotPub =>
    intro i hi h
    have h0 := hI.slotPub i hi h
    grind
  case slotPopper =>
    intro i hi h1 h2
    obtain ⟨u, hu⟩ := hI.slotPopper i hi h1 h2
    refine ⟨u, ?_⟩
    grind
  case pcPushData =>
    intro u d' y hu
    have := hI.pcPushData u d' y
    grind
  case pcPushPub =>
    intro u d' y hu
    have h0 := hI.pcPushPub u d' y
    grind
  case pcPopData =>
    intro u y hu
    have h0 := hI.pcPopData u y
    have h1 := hI.uniqPop u t (.popData y) (.popData h) h
    simp only [List.map_append, List.mem_append, List.map_cons, List.map_nil, List.mem_singleton]
    grind [popTicket]
  case pcPopRel =>
    intro u y d' hu
    have h0 := hI.pcPopRel u y d'
    grind
  case uniqPush =>
    intro u v p q y huv hu hv hp hq
    have h0 := hI.uniqPush u v p q y huv
    grind [pushTicket]
  case uniqPop =>
    intro u v p q y huv hu hv hp hq
    have h0 := hI.uniqPop u v p q y huv
    have h1 := hI.uniqPop u v (.popData h) q y huv
    have h2 := hI.uniqPop u v p (.popData h) y huv
    grind [popTicket]

theorem inv_popRel {cap : Nat} (hc : 0 < cap) {s : RingSys α} {t : Nat} {h : Nat} {d : Option α}
    (hI : RingInv cap s) (hpc : s.pcs t = some (.popRel h d)) :
    RingInv cap (({ s with ring := s.ring.setSlot (h % cap) { s.ring.slots (h % cap) with tailT := h + cap } } : RingSys α).setPc t none) := by
  have hxc : h % cap < cap := Nat.mod_lt _ hc
  obtain ⟨hhH, hslot, hhead, hdata⟩ := hI.pcPopRel t h d hpc
  have hHT := hI.hLeT
  have hge := hI.slotGe _ hxc
  rw [hslot] at hge
  have hT : ∀ j, ((if j = h % cap then { s.ring.slots (h % cap) with tailT := h + cap } else s.ring.slots j) : Slot α).tailT
      = if j = h % cap then h + cap else (s.ring.slots j).tailT := by intro j; split <;> simp [*]
  have hH : ∀ j, ((if j = h % cap then { s.ring.slots (h % cap) with tailT := h + cap } else s.ring.slots j) : Slot α).headT
      = (s.ring.slots j).headT := by intro j; split <;> simp [*]
  have hD : ∀ j, ((if j = h % cap then { s.ring.slots (h % cap) with tailT := h + cap } else s.ring.slots j) : Slot α).data
      = (s.ring.slots j).data := by intro j; split <;> simp [*]
  have hP : ∀ j, PrevHead cap ((if j = h % cap then { s.ring.slots (h % cap) with tailT := h + cap } else s.ring.slots j) : Slot α)
      ↔ (j = h % cap ∨ PrevHead cap (s.ring.slots j)) := by
    intro j
    by_cases hj : j = h % cap
    · simp only [hj, if_true, true_or, iff_true]
      right; exact ⟨h, hhead, rfl⟩
    · simp only [hj, if_false, false_or]
  have hnp : ¬ PrevHead cap (s.ring.slots (h % cap)) :=
    not_prevHead_of_headT hc (by rw [hhead, hslot])
  constructor <;> simp only [RingSys.setPc, Ring.setSlot, hT, hH, hP, hD]
  case capEq => exact hI.capEq
  case logLen => exact hI.logLen
  case hLeT => exact hI.hLeT
  case popLogSound => exact hI.popLogSound
  case popLogNodup => exact hI.popLogNodup
  case slotMod =>
    intro i hi
    have := hI.slotMod i hi
    by_cases hix : i = h % cap
    · rw [if_pos hix, Nat.add_mod_right]; exact hix.symm
    · rw [if_neg hix]; exact this
  case slotLt =>
    intro i hi
    have := hI.slotLt i hi
    split <;> omega
  case slotGe =>
    intro i hi
    have := hI.slotGe i hi
    split <;> omega
  case slotHead =>
    intro i hi
    have := hI.slotHead i hi
    grind
  case slotFree =>
    intro i hi hp
    have := hI.slotFree i hi
    by_cases hix : i = h % cap
    · rw [if_pos hix]; omega
    · rw [if_neg hix]; exact this (hp.resolve_left hix)
  case slotPusher =>
    intro i hi h1 h2
    by_cases hix : i = h % cap
    · rw [if_pos hix] at h1; omega
    · simp only [if_neg hix] at h1 ⊢
      obtain ⟨u, d', hu⟩ := hI.slotPusher i hi h1 (h2.resolve_left hix)
      refine ⟨u, d', ?_⟩
      grind
  case slotPub =>
    intro i hi h1
    by_cases hix : i = h % cap
    · subst hix
      rw [if_pos rfl, hhead] at h1; injection h1 with h1; omega
    · simp only [if_neg hix] at h1 ⊢
      exact hI.slotPub i hi h1
  case slotPopper =>
    intro i hi h1 h2
    by_cases hix : i = h % cap
    · subst hix
      rw [if_pos rfl, hhead] at h1; injection h1 with h1; omega
    · simp only [if_neg hix] at h1 h2 ⊢
      have h3 := hI.slotMod i hi
      obtain ⟨u, hu⟩ := hI.slotPopper i hi h1 h2
      refine ⟨u, ?_⟩
      grind
  case pcPushCas => 
    intro u d x hu
    have := hI.pcPushCas u d x
    grind
  case pcPopCas => 
    intro u x hu
    have := hI.pcPopCas u x
    grind
  case pcPushData =>
    intro u d' y hu
    have := hI.pcPushData u d' y
    grind
  case pcPushPub =>
    intro u d' y hu
    have h0 := hI.pcPushPub u d' y
    grind
  case pcPopData =>
    intro u y hu
    have h0 := hI.pcPopData u y
    have h1 := hI.uniqPop u t (.popData y) (.popRel h d) h
    grind [popTicket]
  case pcPopRel =>
    intro u y d' hu
    have h0 := hI.pcPopRel u y d'
    have h1 := hI.uniqPop u t (.popRel y d') (.popRel h d) h
    grind [popTicket]
  case uniqPush =>
    intro u v p q y huv hu hv hp hq
    have h0 := hI.uniqPush u v p q y huv
    grind
  case uniqPop =>
    intro u v p q y huv hu hv hp hq
    have h0 := hI.uniqPop u v p q y huv
    grind

end Nstd.Future
