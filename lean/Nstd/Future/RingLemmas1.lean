/-
  Inductive invariant of the lock-free ring (`Nstd.Future.Ring`): definitions, initial state and the
  steps that leave the ring untouched.
-/
import Nstd.Future.Ring

namespace Nstd.Future

/-- ticket owned by a pusher that is past its successful CAS on `_tail` -/
def pushTicket {α : Type} : RingPc α → Option Nat
  | .pushData _ t => some t
  | .pushPub _ t => some t
  | _ => none

/-- ticket owned by a popper that is past its successful CAS on `_head` -/
def popTicket {α : Type} : RingPc α → Option Nat
  | .popData h => some h
  | .popRel h _ => some h
  | _ => none

/-- the slot's `head` still is the one of the previous round (ticket `tail - cap`, or the initial value) -/
def PrevHead {α : Type} (cap : Nat) (s : Slot α) : Prop :=
  (s.headT = none ∧ s.tailT < cap) ∨ (∃ y, s.headT = some y ∧ y + cap = s.tailT)

structure RingInv {α : Type} (cap : Nat) (s : RingSys α) : Prop where
  capEq : s.ring.cap = cap
  logLen : s.ring.pushLog.length = s.ring.tail
  hLeT : s.ring.head ≤ s.ring.tail
  -- slots
  slotMod : ∀ i, i < cap → (s.ring.slots i).tailT % cap = i
  slotLt : ∀ i, i < cap → (s.ring.slots i).tailT < s.ring.head + cap
  slotGe : ∀ i, i < cap → s.ring.tail ≤ (s.ring.slots i).tailT + cap
  slotHead : ∀ i, i < cap →
    PrevHead cap (s.ring.slots i) ∨ (s.ring.slots i).headT = some (s.ring.slots i).tailT
  slotFree : ∀ i, i < cap → PrevHead cap (s.ring.slots i) → s.ring.head ≤ (s.ring.slots i).tailT
  slotPusher : ∀ i, i < cap → (s.ring.slots i).tailT < s.ring.tail → PrevHead cap (s.ring.slots i) →
    ∃ t d, s.pcs t = some (.pushData d (s.ring.slots i).tailT) ∨
           s.pcs t = some (.pushPub d (s.ring.slots i).tailT)
  slotPub : ∀ i, i < cap → (s.ring.slots i).headT = some (s.ring.slots i).tailT →
    (s.ring.slots i).tailT < s.ring.tail ∧
    (s.ring.head ≤ (s.ring.slots i).tailT →
      (s.ring.slots i).data = s.ring.pushLog[(s.ring.slots i).tailT]?)
  slotPopper : ∀ i, i < cap → (s.ring.slots i).headT = some (s.ring.slots i).tailT →
    (s.ring.slots i).tailT < s.ring.head →
    ∃ t, s.pcs t = some (.popData (s.ring.slots i).tailT) ∨
         ∃ d, s.pcs t = some (.popRel (s.ring.slots i).tailT d)
  -- threads
  pcPushCas : ∀ t d x, s.pcs t = some (.pushCas d x) →
    (s.ring.slots (x % cap)).tailT = x ∨ x < s.ring.head
  pcPopCas : ∀ t h, s.pcs t = some (.popCas h) →
    (s.ring.slots (h % cap)).headT = some h ∨ h < s.ring.head
  pcPushData : ∀ t d x, s.pcs t = some (.pushData d x) →
    x < s.ring.tail ∧ (s.ring.slots (x % cap)).tailT = x ∧ PrevHead cap (s.ring.slots (x % cap)) ∧
    s.ring.pushLog[x]? = some d
  pcPushPub : ∀ t d x, s.pcs t = some (.pushPub d x) →
    x < s.ring.tail ∧ (s.ring.slots (x % cap)).tailT = x ∧ PrevHead cap (s.ring.slots (x % cap)) ∧
    s.ring.pushLog[x]? = some d ∧ (s.ring.slots (x % cap)).data = some d
  pcPopData : ∀ t h, s.pcs t = some (.popData h) →
    h < s.ring.head ∧ (s.ring.slots (h % cap)).tailT = h ∧ (s.ring.slots (h % cap)).headT = some h ∧
    (s.ring.slots (h % cap)).data = s.ring.pushLog[h]? ∧ h ∉ s.ring.popLog.map Prod.fst
  pcPopRel : ∀ t h d, s.pcs t = some (.popRel h d) →
    h < s.ring.head ∧ (s.ring.slots (h % cap)).tailT = h ∧ (s.ring.slots (h % cap)).headT = some h ∧
    d = s.ring.pushLog[h]?
  uniqPush : ∀ t u p q x, t ≠ u → s.pcs t = some p → s.pcs u = some q →
    pushTicket p = some x → pushTicket q = some x → False
  uniqPop : ∀ t u p q x, t ≠ u → s.pcs t = some p → s.pcs u = some q →
    popTicket p = some x → popTicket q = some x → False
  -- pop log
  popLogSound : ∀ h d, (h, d) ∈ s.ring.popLog → h < s.ring.head ∧ d = s.ring.pushLog[h]?
  popLogNodup : (s.ring.popLog.map Prod.fst).Nodup

theorem mod_window {cap x y : Nat} (hm : x % cap = y % cap) (h1 : x ≤ y) (h2 : y < x + cap) :
    x = y := by
  have hx := Nat.mod_add_div x cap
  have hy := Nat.mod_add_div y cap
  by_cases hab : x / cap = y / cap
  · rw [hab] at hx; omega
  · have hle : x / cap ≤ y / cap := Nat.div_le_div_right h1
    have hlt : x / cap + 1 ≤ y / cap := by omega
    have hm2 : cap * (x / cap + 1) ≤ cap * (y / cap) := Nat.mul_le_mul_left _ hlt
    rw [Nat.mul_succ] at hm2
    generalize cap * (x / cap) = a at *
    generalize cap * (y / cap) = b at *
    have : y % cap < cap := Nat.mod_lt _ (by omega)
    omega

theorem not_prevHead_of_headT {α : Type} {cap : Nat} (hc : 0 < cap) {s : Slot α}
    (h : s.headT = some s.tailT) : ¬ PrevHead cap s := by
  intro hp
  rcases hp with ⟨h1, _⟩ | ⟨y, h1, h2⟩
  · rw [h] at h1; cases h1
  · rw [h] at h1; cases h1; omega

theorem ringInv_init {α : Type} {cap : Nat} (hc : 0 < cap) : RingInv cap (RingSys.init cap : RingSys α) := by
  constructor <;> simp only [RingSys.init, Ring.init, List.length_nil, Nat.le_refl, PrevHead]
  · intro i hi; exact Nat.mod_eq_of_lt hi
  · intro i hi; omega
  · intro i hi; omega
  · intro i hi; left; left; exact ⟨trivial, hi⟩
  · intro i hi _; omega
  · intro i hi h; omega
  · intro i hi h; cases h
  · intro i hi h; cases h
  all_goals (intros; simp_all)

end Nstd.Future
