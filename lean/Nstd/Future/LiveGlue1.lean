/-
  Glue of the liveness side theorems, part 1: vocabulary and per-frame facts.
    * `wOnly` / `NoWO`     frames that occur only in worker threads (`ThreadContext::proc`, `_enqueuedSignal.wait()`
                           and the `Signal::wait` on signal 0 it calls),
    * `LoopBot`            frames that never return (`LW.loopFr`) occur only as the bottom frame of a stack,
    * `mainBot`            the bottom frame of a stack is a frame of the main thread's own code,
    * `shapeG`             what one micro-step does to these (and to `isWorker`, `clientTids`, the other threads),
    * `bot_step`, `exit_step`   steps of the bottom frame of the main thread / of `tExit`.
-/
import Nstd.Future.LiveWorker1
set_option linter.unusedSimpArgs false
set_option linter.unusedVariables false
namespace Nstd.Future.LG

open LW

/-- frames of code that only worker threads run -/
def wOnly : Frame → Bool
  | .sWaitLock σ | .sWaitChk σ | .sWaitUnlock σ | .sWaitCwait σ | .sWaitCwake σ | .sWaitRelock σ => σ == 0
  | .fWait fs => fs == 0
  | .wPop1 | .wChk1 | .wPop2 | .wChk2 | .wDeq | .wDispatch | .wAdd | .wTerm => true
  | _ => false

def NoWO (l : List Frame) : Prop := ∀ f ∈ l, wOnly f = false
theorem noWO_nil : NoWO [] := by intro f hf; cases hf
theorem noWO_cons {a : Frame} {l : List Frame} : NoWO (a :: l) ↔ wOnly a = false ∧ NoWO l := by
  simp [NoWO]

/-- frames that never return only as the last (bottom) frame -/
def LoopBot (l : List Frame) : Prop := ∀ f ∈ l.dropLast, loopFr f = false

theorem loopBot_nil : LoopBot [] := by intro f hf; simp at hf
theorem loopBot_singleton (a : Frame) : LoopBot [a] := by intro f hf; simp at hf
theorem loopBot_cons_of {a : Frame} {l : List Frame} (h : loopFr a = false) :
    LoopBot (a :: l) ↔ LoopBot l := by
  cases l with
  | nil => simp [loopBot_nil, loopBot_singleton]
  | cons b l => simp [LoopBot, List.dropLast, h]
theorem loopBot_cons_loop {a : Frame} {l : List Frame} (h : loopFr a = true) (hb : LoopBot (a :: l)) :
    l = [] := by
  cases l with
  | nil => rfl
  | cons b l =>
    have := hb a (by simp [List.dropLast])
    rw [h] at this; cases this
theorem loopBot_cons_iff {a : Frame} {l : List Frame} :
    LoopBot (a :: l) ↔ l = [] ∨ (loopFr a = false ∧ LoopBot l) := by
  cases l with
  | nil => simp [loopBot_singleton]
  | cons b l => simp [LoopBot, List.dropLast]

/-- the bottom frame of the stack is a frame of the main thread's own code -/
def mainBot (l : List Frame) : Bool :=
  match l.getLast? with
  | some b => bottomFr b
  | none => false

theorem mainBot_singleton (a : Frame) : mainBot [a] = bottomFr a := rfl
theorem mainBot_nil : mainBot [] = false := rfl
theorem mainBot_append {fs rest : List Frame} (h : rest ≠ []) : mainBot (fs ++ rest) = mainBot rest := by
  cases rest with
  | nil => exact absurd rfl h
  | cons a l =>
    simp only [mainBot, List.getLast?_append]
    cases hl : (a :: l).getLast? with
    | none => simp at hl
    | some b => rfl
theorem mainBot_cons2 (a b : Frame) (l : List Frame) : mainBot (a :: b :: l) = mainBot (b :: l) :=
  mainBot_append (fs := [a]) (by simp)

/-- the worker / client thread records as created by `runSpStart` / `mSpawn` -/
def workerRec : Thread := { stack := [.tStart, .wPop1], isWorker := true }
def clientRec (sc : List ClientOp) : Thread := { stack := [.tStart, .cNext], script := sc }

structure ShapeG (s s' : State) (t : Tid) (th : Thread) (fr : Frame) (rest : List Frame) : Prop where
  self : ∃ th', s'.threads t = some th' ∧ th'.isWorker = th.isWorker ∧
      (NoWO (fr :: rest) → NoWO th'.stack) ∧
      (LoopBot (fr :: rest) → LoopBot th'.stack) ∧
      (fr ≠ .tExit → th'.finished = th.finished ∧ rest <:+ th'.stack)
  others : ∀ u, u ≠ t → s'.threads u = s.threads u ∨
      (u = s.nthreads ∧
        ((s'.threads u = some workerRec ∧ s'.clientTids = s.clientTids) ∨
         (∃ sc, s'.threads u = some (clientRec sc) ∧ s'.clientTids = s.clientTids ++ [s.nthreads])))
  ct : s'.clientTids = s.clientTids ∨
      (s'.clientTids = s.clientTids ++ [s.nthreads] ∧ ∃ sc, s'.threads s.nthreads = some (clientRec sc))

set_option maxHeartbeats 8000000 in
theorem shapeG (s : State) (t : Tid) (th : Thread) (fr : Frame) (rest : List Frame)
    (hth : s.threads t = some th) (hst : th.stack = fr :: rest) (hnt : s.nthreads ≠ t) :
    ShapeG s (stepFrame s t th fr).1 t th fr rest := by
  cases fr
  case ring pc =>
    cases hp : s.pool with
    | none =>
      rw [ring_step_noPool s t th pc hp]
      refine ⟨⟨th, hth, rfl, ?_, ?_, ?_⟩, fun u hu => Or.inl rfl, Or.inl rfl⟩
      · intro h; rw [hst]; exact h
      · intro h; rw [hst]; exact h
      · intro _; rw [hst]; exact ⟨rfl, List.suffix_cons _ _⟩
    | some p =>
      obtain ⟨th', h1, h2, h3, h4, h5, h6⟩ := ring_step_desc s t th pc rest p hp hst
      have hct : (stepFrame s t th (.ring pc)).1.clientTids = s.clientTids := by
        simp only [stepFrame, hp]
        rcases ringStep p.ring pc with ⟨r', res⟩
        rcases res with _ | _ | (_ | _ | _) <;> rfl
      refine ⟨⟨th', by rw [h1, upd_same], h6.wk, ?_, ?_, ?_⟩,
        fun u hu => Or.inl (by rw [h1, upd_ne _ _ hu]), Or.inl hct⟩
      · intro h
        rw [noWO_cons] at h
        rcases h6.shape with ⟨pc', _, hs, _⟩ | ⟨ok, _, hs, _⟩ | ⟨o, _, hs, _⟩
        · rw [hs, noWO_cons]; exact ⟨rfl, h.2⟩
        · rw [hs]; exact h.2
        · rw [hs]; exact h.2
      · intro h
        rw [loopBot_cons_of rfl] at h
        rcases h6.shape with ⟨pc', _, hs, _⟩ | ⟨ok, _, hs, _⟩ | ⟨o, _, hs, _⟩
        · rw [hs, loopBot_cons_of rfl]; exact h
        · rw [hs]; exact h
        · rw [hs]; exact h
      · intro _
        refine ⟨h6.fin, ?_⟩
        rcases h6.shape with ⟨pc', _, hs, _⟩ | ⟨ok, _, hs, _⟩ | ⟨o, _, hs, _⟩
        · rw [hs]; exact List.suffix_cons _ _
        · rw [hs]; exact List.suffix_refl _
        · rw [hs]; exact List.suffix_refl _
  all_goals
    simp only [stepFrame]
    repeat' split
  all_goals
    constructor
    · simp only [setThread, setSig, setPool, setFut, withFault, destroySig, upd_same, hth, Option.some.injEq, exists_eq_left']
      refine ⟨?_, ?_, ?_, ?_⟩
      · simp [Thread.cont]
      · intro hb
        simp only [noWO_cons, wOnly] at hb
        simp [Thread.cont, hst, noWO_cons, noWO_nil, wOnly, hb]
        try (simp_all; done)
      · intro hb
        first
          | (have hr := loopBot_cons_loop (a := _) rfl hb; subst hr)
          | (rw [loopBot_cons_of rfl] at hb)
        simp [Thread.cont, hst, hb, loopFr, loopBot_cons_iff, loopBot_nil]
        try (simp_all; done)
      · intro hb
        simp [Thread.cont, hst, List.suffix_cons_iff]
        try (simp at hb; done)
    · intro u hu
      simp [setThread, setSig, setPool, setFut, withFault, destroySig, upd_ne _ _ hu]
      try (by_cases hw : u = s.nthreads
           · right; subst hw; refine ⟨rfl, ?_⟩; simp [upd_same, workerRec, clientRec]
           · left; exact upd_ne _ _ hw)
    · simp [setThread, setSig, setPool, setFut, withFault, destroySig, upd_ne _ _ hnt, upd_same, clientRec]

/-- a step of the bottom frame of the main thread: the bottom frame is again a frame of the main thread's own code, or
    the main thread is about to exit (after `~ThreadPool`, or when there never was a pool) -/
theorem bot_step (s : State) (t : Tid) (th : Thread) (fr : Frame)
    (hth : s.threads t = some th) (hst : th.stack = [fr]) (hfin : th.finished = false) (hb : bottomFr fr = true) :
    ∃ th', (stepFrame s t th fr).1.threads t = some th' ∧
      ((th'.finished = false ∧ mainBot th'.stack = true) ∨
       (th'.stack = [.tExit] ∧ (fr = .dFin ∨ (fr = .mDel ∧ s.pool = none)) ∧
         ∀ u, u ≠ t → (stepFrame s t th fr).1.threads u = s.threads u)) := by
  cases fr <;> simp only [bottomFr, Bool.false_eq_true] at hb <;> simp only [stepFrame] <;> repeat' split
  all_goals
    simp [setThread, setSig, setPool, setFut, withFault, destroySig, upd_same, hth, Thread.cont, hst, hfin,
      mainBot_singleton, mainBot_cons2, bottomFr]
  all_goals first
    | (intro u hu; exact upd_ne _ _ hu)
    | (refine ⟨by assumption, ?_⟩; intro u hu; exact upd_ne _ _ hu)

/-- `pthread_exit`: the thread is finished, nothing else changes -/
theorem exit_step (s : State) (t : Tid) (th : Thread) :
    (stepFrame s t th .tExit).1 = setThread s t { th with stack := [], finished := true } := rfl

end Nstd.Future.LG
