/-
  Join side of deadlock freedom, part 7: effect of a micro-step on the handshake data
  (`joinable`, `curCall`, `signaled`, `completed`) and on the frames of `startProc`'s prefix.
-/
import Nstd.Future.LiveJoin6
set_option linter.unusedSimpArgs false
set_option linter.unusedVariables false
namespace Nstd.Future.LJ

def HasPA (c : Nat) (l : List Frame) : Prop := ∃ fr ∈ l, preArm c fr = true
theorem hasPA_nil (c : Nat) : HasPA c [] ↔ False := by simp [HasPA]
theorem hasPA_cons {c : Nat} {a : Frame} {l : List Frame} : HasPA c (a :: l) ↔ preArm c a = true ∨ HasPA c l := by
  simp [HasPA]

structure ShapeH (s s' : State) (t : Tid) (fr : Frame) (rest : List Frame) : Prop where
  fut : ∀ f, ((s'.futs f).curCall = (s.futs f).curCall ∧ (s'.futs f).joinable = (s.futs f).joinable) ∨
    (∃ c r, fr = .cArm c ∧ s.calls c = some r ∧ r.fut = f ∧ (s'.futs f).curCall = some c ∧ (s'.futs f).joinable = true) ∨
    (fr = .joinClr f ∧ (s'.futs f).curCall = (s.futs f).curCall ∧ (s'.futs f).joinable = false) ∨
    (fr = .destroyF f ∧ (s'.futs f).curCall = none ∧ (s'.futs f).joinable = false)
  sg : ∀ σ, (s'.sigs σ).signaled = (s.sigs σ).signaled ∨ (fr = .sSetStore σ ∧ (s'.sigs σ).signaled = true) ∨
    (fr = .sRstStore σ ∧ (s'.sigs σ).signaled = false) ∨ (∃ f, fr = .destroyF f ∧ σ = f + 2)
  comp : ∀ c, s'.completed c = s.completed c ∨ (∃ ab, fr = .pSetX c ab ∧ s'.completed c = true)
  pa : ∀ th', s'.threads t = some th' → ∀ c, HasPA c th'.stack → HasPA c (fr :: rest) ∨ c = s.nextCall

set_option maxHeartbeats 16000000 in
theorem shapeH (s : State) (t : Tid) (th : Thread) (fr : Frame) (rest : List Frame)
    (hth : s.threads t = some th) (hst : th.stack = fr :: rest)
    (hrec : ∀ c', reads fr = some c' → s.calls c' ≠ none) :
    ShapeH s (stepFrame s t th fr).1 t fr rest := by
  cases fr <;> simp only [reads, Option.some.injEq, forall_eq', false_implies, implies_true] at hrec <;> simp only [stepFrame] <;> repeat' split
  all_goals
    constructor
    · intro f
      simp [setThread, setSig, setPool, setFut, withFault, destroySig, upd]
      try (simp_all; done)
      try grind
    · intro σ
      simp [setThread, setSig, setPool, setFut, withFault, destroySig, upd]
      try (simp_all; done)
      try grind
    · intro c
      simp [setThread, setSig, setPool, setFut, withFault, destroySig, upd]
      try (simp_all; done)
      try grind
    · intro th' h c
      simp [setThread, setSig, setPool, setFut, withFault, destroySig, upd_same, hth] at h
      subst h
      simp [Thread.cont, hst, hasPA_cons, hasPA_nil, preArm]
      try (intros; simp_all; done)
      try grind

end Nstd.Future.LJ
