/-
  LEVEL 1 of the weak-fairness termination measure: `lev1` (Fair2L1Def.lean) never increases along micro-steps of
  reachable states and strictly decreases at every state-changing WORK EVENT (`F2.workFr`) — the hypotheses
  `h1le` / `h1lt` of `F2.progresses_wf_of_levels` (Fair2Lev.lean).

    Fair2L1Def  the measure, the side invariants `L1.Side`
    Fair2L1A    `L1.l1ShapeLe`  non-ring, non-spawning frames: non-increase
    Fair2L1B    `L1.l1ShapeLt`  the same frames: strict decrease at a work event
    Fair2L1C    `L1.l1Ring`     one `push`/`pop` micro-step
    Fair2L1E    `lev1_step_quiet`, `lev1_step_ring` (state level)
    Fair2L1D    `lev1_step_mSpawn`, `lev1_step_runSpStart` (thread creations)
    Fair2L1     (this file) `lev1_le`, `lev1_lt`

  Hypotheses besides `cfg.repaired = true`: the side invariants `L1.Side s` (five counting / stack facts) and
  `L1.NoChk s` (no second caller of `push`/`pop` below the caller of a ring frame) in every reachable state.
-/
import Nstd.Future.Fair2L1D
import Nstd.Future.LiveShutdown3
set_option linter.unusedVariables false
namespace Nstd.Future
open FR F2 L1 LS

variable {cfg : Config}

/-- no caller of `push`/`pop` below the caller of a ring frame -/
def L1.NoChk (s : State) : Prop :=
  ∀ t th pc rest, s.threads t = some th → th.stack = .ring pc :: rest → ∀ f ∈ rest.drop 1, L1.isChkL1 f = false

theorem lev1_step_all (hrep : cfg.repaired = true) (hside : ∀ s, Reach cfg s → L1.Side s)
    (hnc : ∀ s, Reach cfg s → L1.NoChk s) {s s' : State} {t : Tid} {o : List String} {th : Thread} {fr : Frame}
    {rest : List Frame} (hr : Reach cfg s) (hs : step s t = some (s', o)) (hth : s.threads t = some th)
    (hst : th.stack = fr :: rest) : lev1 s' ≤ lev1 s ∧ (workFr s th fr → s' ≠ s → lev1 s' < lev1 s) := by
  by_cases hring : ∃ pc, fr = .ring pc
  · obtain ⟨pc, rfl⟩ := hring
    have h := lev1_step_ring hrep hr hs hth hst (hside s hr) (hnc s hr t th pc rest hth hst)
    exact ⟨h.1, fun hw _ => h.2 hw⟩
  · have hnr : ∀ pc, fr ≠ .ring pc := fun pc hpc => hring ⟨pc, hpc⟩
    cases hsp : FR.spawns fr with
    | false => exact lev1_step_quiet hrep hr hs hth hst hnr hsp (hside s hr)
    | true =>
      cases fr <;> simp [FR.spawns] at hsp
      · have h := lev1_step_runSpStart hr hs hth hst
        exact ⟨Nat.le_of_lt h, fun _ _ => h⟩
      · have h := lev1_step_mSpawn hr hs hth hst
        exact ⟨Nat.le_of_lt h, fun _ _ => h⟩

/-- `h1le` of `F2.progresses_wf_of_levels` -/
theorem lev1_le (hrep : cfg.repaired = true) (hside : ∀ s, Reach cfg s → L1.Side s)
    (hnc : ∀ s, Reach cfg s → L1.NoChk s) :
    ∀ (s s' : State) (t : Tid) (o : List String), Reach cfg s → step s t = some (s', o) → lev1 s' ≤ lev1 s := by
  intro s s' t o hr hs
  obtain ⟨th, fr, rest, hth, hst, _, _, _⟩ := lkStep_inv hs
  exact (lev1_step_all hrep hside hnc hr hs hth hst).1

/-- `h1lt` of `F2.progresses_wf_of_levels` -/
theorem lev1_lt (hrep : cfg.repaired = true) (hside : ∀ s, Reach cfg s → L1.Side s)
    (hnc : ∀ s, Reach cfg s → L1.NoChk s) :
    ∀ (s s' : State) (t : Tid) (o : List String) (th : Thread) (fr : Frame) (rest : List Frame),
      Reach cfg s → step s t = some (s', o) → s' ≠ s → s.threads t = some th → th.stack = fr :: rest →
      workFr s th fr → lev1 s' < lev1 s := by
  intro s s' t o th fr rest hr hs hne hth hst hw
  exact (lev1_step_all hrep hside hnc hr hs hth hst).2 hw hne

/-- `NoChk` follows from the stack discipline `LsCB` (LiveShutdown3) and the caller invariant -/
theorem noChk_of_side {s : State} (hrep : cfg.repaired = true) (hr : Reach cfg s) (hside : L1.Side s) :
    L1.NoChk s := by
  intro t th pc rest hth hst f hf
  obtain ⟨c, rest', hrest, hcal⟩ := hside.caller t th pc rest hth hst
  subst hrest
  have hcb := (ls_reach hrep hr).cb t th hth
  rw [hst] at hcb
  have h2 := (lsCB_cons.mp hcb).2
  have h3 := (lsCB_cons.mp h2).1
  have hc : lsC c = true := by
    cases c <;> first | rfl | (cases pc <;> simp [isPopB, popCallerB, pushCallerB] at hcal)
  have hb := h3 hc f (by simpa using hf)
  cases f <;> first | rfl | (simp [lsB] at hb)

/-- `h1le` of `F2.progresses_wf_of_levels`, from the side invariants alone -/
theorem lev1_le' (hrep : cfg.repaired = true) (hside : ∀ s, Reach cfg s → L1.Side s) :
    ∀ (s s' : State) (t : Tid) (o : List String), Reach cfg s → step s t = some (s', o) → lev1 s' ≤ lev1 s :=
  lev1_le hrep hside (fun s hr => noChk_of_side hrep hr (hside s hr))

/-- `h1lt` of `F2.progresses_wf_of_levels`, from the side invariants alone -/
theorem lev1_lt' (hrep : cfg.repaired = true) (hside : ∀ s, Reach cfg s → L1.Side s) :
    ∀ (s s' : State) (t : Tid) (o : List String) (th : Thread) (fr : Frame) (rest : List Frame),
      Reach cfg s → step s t = some (s', o) → s' ≠ s → s.threads t = some th → th.stack = fr :: rest →
      workFr s th fr → lev1 s' < lev1 s :=
  lev1_lt hrep hside (fun s hr => noChk_of_side hrep hr (hside s hr))

end Nstd.Future
