/-
  "The program cannot stop early" (repaired model, every well-formed configuration, all schedules):
  every terminal state — no thread is enabled — is a complete success state: all threads have finished and every
  call that was ever started has completed, its body ran exactly once and its record was freed exactly once.

  Ingredients
    * `no_stuck` (LiveSpawn.lean): deadlock freedom — in a terminal state all threads have finished;
    * `HsInv.q` (Handshake5.lean): an uncompleted started call is still in the `startProc` prefix of some thread or
      it is the current call of its future and that future is joinable;
    * `TM.reach_tinv` (Terminal1–3): a joinable future belongs to a client thread that has registered it in `used`
      and still has its destructor (`join` + `~Future`) ahead: the client is at/below `cNext`, at `cEnd k` with
      `k ≤ idxF f` (the end-of-scope loop has not passed `f` yet) or directly before `destroyF f`;
      hence a finished client has no joinable future and no started-but-uncompleted call;
    * `SafeInv.comp` + `call_record_freed_once` (Safety.lean): with all stacks empty the record of a completed
      call has been freed exactly once.
-/
import Nstd.Future.Terminal3
import Nstd.Future.LiveSpawn
set_option linter.unusedVariables false
namespace Nstd.Future
open TM

variable {cfg : Config} {s : State}

/-- THE INVARIANT: a joinable future has an unfinished client thread that has started it (`used`) and still has
    the destructor of that future ahead (`TM.pendFr`: a `cNext` frame, a `cEnd k` frame with `k ≤ idxF f`, or the
    `destroyF f` frame) -/
theorem joinable_future_has_pending_client (hwf : cfg.WellFormed) (h : Reach cfg s) {f : Nat}
    (hj : (s.futs f).joinable = true) :
    ∃ t th, s.threads t = some th ∧ th.finished = false ∧ f ∈ th.used ∧ ∃ x ∈ th.stack, TM.pendFr f x = true := by
  obtain ⟨t, th, hth, hm, x, hx, hpx⟩ := (reach_tinv hwf h).pend f hj
  refine ⟨t, th, hth, ?_, hm, x, hx, hpx⟩
  cases hf : th.finished with
  | false => rfl
  | true => rw [finished_stack_nil h hth hf] at hx; cases hx

/-- (Q) every started call has completed, or an unfinished thread still has it pending: the thread is inside the
    prefix of `startProc` for `c` (before `run`), or `c` is the current call of its future, the future is
    joinable and the thread still has the destructor of that future ahead -/
theorem started_call_completed_or_pending (hwf : cfg.WellFormed) (h : Reach cfg s) {c : Nat}
    (hc : c < s.nextCall) :
    s.completed c = true ∨ ∃ t th, s.threads t = some th ∧ th.finished = false ∧
      ((∃ x ∈ th.stack, hsPreArm c x = true) ∨
       (∃ r, s.everCalls c = some r ∧ (s.futs r.fut).curCall = some c ∧ (s.futs r.fut).joinable = true ∧
          r.fut ∈ th.used ∧ ∃ x ∈ th.stack, TM.pendFr r.fut x = true)) := by
  have hev := (everCalls_isSome_iff h c).mp hc
  cases hr : s.everCalls c with
  | none => rw [hr] at hev; cases hev
  | some r =>
    cases hcm : s.completed c with
    | true => exact Or.inl rfl
    | false =>
      right
      rcases (reach_hs hwf execFacts_of_reach h).q c r hr hcm with ⟨u, thu, x, hthu, hx, hpx⟩ | ⟨h1, h2, _, _⟩
      · refine ⟨u, thu, hthu, ?_, Or.inl ⟨x, hx, hpx⟩⟩
        cases hf : thu.finished with
        | false => rfl
        | true => rw [finished_stack_nil h hthu hf] at hx; cases hx
      · obtain ⟨t, th, hth, hnf, hm, hp⟩ := joinable_future_has_pending_client hwf h h2
        exact ⟨t, th, hth, hnf, Or.inr ⟨r, rfl, h1, h2, hm, hp⟩⟩

/-- a finished client thread has no joinable future -/
theorem finished_client_no_joinable (hwf : cfg.WellFormed) (h : Reach cfg s) {t : Tid} {th : Thread}
    (hth : s.threads t = some th) (hfin : th.finished = true) {f : Nat} (hown : Owns s t f) :
    (s.futs f).joinable = false := by
  cases hj : (s.futs f).joinable with
  | false => rfl
  | true =>
    obtain ⟨u, thu, hthu, hnf, hm, _⟩ := joinable_future_has_pending_client hwf h hj
    have hou : Owns s u f := ((reach_inv0 h).own u thu hthu).2.2 f hm
    have hut := owns_unique (by rw [reach_cfg h]; exact hwf) hou hown
    subst hut
    rw [hth] at hthu; injection hthu with hthu; subst hthu
    rw [hfin] at hnf; cases hnf

/-- a finished client thread ⇒ all calls it started (the calls on the futures of its script) have completed -/
theorem finished_client_calls_completed (hwf : cfg.WellFormed) (h : Reach cfg s) {t : Tid} {th : Thread}
    (hth : s.threads t = some th) (hfin : th.finished = true) {c : Nat} {r : CallRec}
    (hev : s.everCalls c = some r) (hown : Owns s t r.fut) : s.completed c = true := by
  have hI := reach_inv0 h
  rcases started_call_completed_or_pending hwf h (hI.evLt c r hev) with hc | ⟨u, thu, hthu, hnf, hp⟩
  · exact hc
  · have hou : Owns s u r.fut := by
      rcases hp with ⟨x, hx, hpx⟩ | ⟨r', hr', _, _, hm, _⟩
      · have ho := (hI.own u thu hthu).1 x hx
        cases x <;> simp only [hsPreArm, Bool.false_eq_true, beq_iff_eq] at hpx <;>
          (subst hpx; simp only [FrOwn] at ho; obtain ⟨r', h1, h2⟩ := ho
           rw [hev] at h1; injection h1 with h1; subst h1; exact h2)
      · rw [hev] at hr'; injection hr' with hr'; subst hr'
        exact (hI.own u thu hthu).2.2 _ hm
    have hut := owns_unique (by rw [reach_cfg h]; exact hwf) hou hown
    subst hut
    rw [hth] at hthu; injection hthu with hthu; subst hthu
    rw [hfin] at hnf; cases hnf

/-- part 1: in a terminal state of the repaired system every thread has finished (`no_stuck` contraposed) -/
theorem terminal_state_all_finished (hrep : cfg.repaired = true) (hwf : cfg.WellFormed) (h : Reach cfg s)
    (hterm : ∀ t, enabled s t = false) : ∀ t th, s.threads t = some th → th.finished = true := by
  intro t th hth
  cases hf : th.finished with
  | true => rfl
  | false =>
    obtain ⟨u, hu⟩ := no_stuck hrep hwf h ⟨t, th, hth, hf⟩
    rw [hterm u] at hu; cases hu

/-- once all threads have finished, every started call has completed, ran once and its record was freed once -/
theorem all_finished_complete (hwf : cfg.WellFormed) (h : Reach cfg s)
    (hfin : ∀ t th, s.threads t = some th → th.finished = true) :
    ∀ c, c < s.nextCall → s.completed c = true ∧ s.execCount c = 1 ∧ s.freeCount c = 1 := by
  intro c hc
  have hcm : s.completed c = true := by
    rcases started_call_completed_or_pending hwf h hc with h1 | ⟨t, th, hth, hnf, _⟩
    · exact h1
    · rw [hfin t th hth] at hnf; cases hnf
  refine ⟨hcm, completed_exec_once h hcm, ?_⟩
  have h1 := (reach_safe h).comp c hcm
  have h2 := call_record_freed_once h c
  have h3 : tsum s.nthreads (wtG (pw3 c) s) = 0 := by
    rw [tsum_congr (g := fun _ => 0)]
    · exact tsum_const_zero _
    · intro u _
      simp only [wtG]
      cases hu : s.threads u with
      | none => rfl
      | some thu =>
        simp only []
        rw [finished_stack_nil h hu (hfin u thu hu)]; rfl
  omega

/-- THE PROGRAM CANNOT STOP EARLY: every terminal state of the repaired system is a complete success state -/
theorem terminal_state_is_complete (hrep : cfg.repaired = true) (hwf : cfg.WellFormed) (h : Reach cfg s)
    (hterm : ∀ t, enabled s t = false) :
    (∀ t th, s.threads t = some th → th.finished = true) ∧
    (∀ c, c < s.nextCall → s.completed c = true ∧ s.execCount c = 1 ∧ s.freeCount c = 1) :=
  have hfin := terminal_state_all_finished hrep hwf h hterm
  ⟨hfin, all_finished_complete hwf h hfin⟩

end Nstd.Future
