/-
  Completion handshake of a Future, part 24 (third layer): `destroyF`, all steps, reachable states
  (relative to the executor facts).
-/
import Nstd.Future.Handshake23
set_option linter.unusedSimpArgs false
set_option linter.unusedVariables false
namespace Nstd.Future

/-- any Signal frame on signal `σ` -/
def sigFrameOf (σ : Nat) : Frame → Bool
  | .sSetLock σ' | .sSetStore σ' | .sSetUnlock σ' | .sSetBcast σ' _ | .sRstLock σ' | .sRstStore σ' | .sRstUnlock σ'
  | .sWaitLock σ' | .sWaitChk σ' | .sWaitUnlock σ' | .sWaitCwait σ' | .sWaitCwake σ' | .sWaitRelock σ' => σ' == σ
  | _ => false

/-- a Signal frame on `σ`: the `Signal::set` frames, or a frame of the owner (`wait`/`reset`) -/
theorem sigFrame_cases {x : Frame} {σ : Nat} (h : sigFrameOf σ x = true) :
    x = .sSetLock σ ∨ x = .sSetStore σ ∨ isSetPost σ x = true ∨
    (∀ ev O, FrOwn ev O x → σ < 2 ∨ O (σ - 2)) := by
  cases x <;> simp only [sigFrameOf, Bool.false_eq_true, beq_iff_eq] at h <;> subst h <;>
    simp [isSetPost, FrOwn]

theorem critS_sigFrame {x : Frame} {σ : Nat} (h : critS σ x = true) : sigFrameOf σ x = true := by
  cases x <;> simp only [critS, Bool.false_eq_true] at h <;> exact h

/-- no other thread is inside a Signal operation of the future that `t` is about to destroy -/
theorem no_sig_user {s : State} (hwf : s.cfg.WellFormed) (h0 : Inv0 s) (hH : HsInv s) (hI : HsInv3 s)
    {t : Tid} {f : Nat} (hrole : Role s t .after f) {u : Tid} {x : Frame} (hu : u ≠ t) (hx : TopIs s u x) :
    sigFrameOf (f + 2) x = false := by
  have hj0 : jn s f = false := hH.top t _ _ hrole
  cases hs : sigFrameOf (f + 2) x with
  | false => rfl
  | true =>
    exfalso
    rcases sigFrame_cases hs with rfl | rfl | h | h
    · have := (hH.top u .exec f ⟨_, hx, by simp [roleOf]⟩).1
      rw [hj0] at this; cases this
    · have := (hH.top u .exec f ⟨_, hx, by simp [roleOf]⟩).1
      rw [hj0] at this; cases this
    · have := (hI.post u x f hx h).1
      rw [hj0] at this; cases this
    · obtain ⟨thu, h1, h2⟩ := hx
      have ho := h _ _ ((h0.own u thu h1).1 x (mem_of_head h2))
      rcases ho with ho | ho
      · omega
      · simp only [Nat.add_sub_cancel] at ho
        exact hu (owns_unique hwf ho (role_owns h0 hrole (by decide)))

section frames
variable {cfg : Config} {s : State} {t : Tid} {th : Thread} {rest : List Frame}

theorem hs3_destroyF {f : Nat} (hwf : s.cfg.WellFormed) (hS : SimInv cfg s) (h0 : Inv0 s) (hH : HsInv s)
    (hI : HsInv3 s) (hth : s.threads t = some th) (hst : th.stack = .destroyF f :: rest) :
    HsInv3 (stepFrame s t th (.destroyF f)).1 := by
  have hO := others_of_step hS hth hst
  have hrole : Role s t .after f := ⟨_, ⟨th, hth, head_of hst⟩, rfl⟩
  have hj0 : jn s f = false := hH.top t _ _ hrole
  have hch := h0.chain t th hth
  rw [hst, chainOk_cons] at hch
  have hlink : RelOther rest.head? := hch.1
  have hth' : (stepFrame s t th (.destroyF f)).1.threads t = some (th.cont []) := by
    simp [stepFrame, setThread, upd_same]
  have hstk : (th.cont []).stack = rest := by simp [Thread.cont, hst]
  have htop : ∀ x, (th.cont []).stack.head? = some x → sigFree x = true := by
    intro x hx; rw [hstk] at hx; exact openB_sigFree (hlink x hx)
  have hjn : ∀ f', f' ≠ f → jn (stepFrame s t th (.destroyF f)).1 f' = jn s f' := by
    intro f' hf; simp [stepFrame, setThread, setFut, destroySig, setSig, jn, upd, hf]
  have hown : ∀ σ, σ ≠ f + 2 → ((stepFrame s t th (.destroyF f)).1.sigs σ).owner = (s.sigs σ).owner := by
    intro σ hσ; simp [stepFrame, setThread, setFut, destroySig, setSig, upd, hσ]
  have hother : ∀ u x σ, 2 ≤ σ → critS σ x = true → TopIs (stepFrame s t th (.destroyF f)).1 u x → u ≠ t ∧ TopIs s u x := by
    intro u x σ hσ hc hti
    by_cases hu : u = t
    · subst hu
      obtain ⟨thu, h1, h2⟩ := hti
      rw [hth'] at h1; injection h1 with h1; subst h1
      rw [sigFree_critS (htop x h2) hσ] at hc; cases hc
    · refine ⟨hu, ?_⟩
      rcases topIs_other hO hu hti with h | h
      · exact h
      · subst h; cases hc
  constructor
  · intro u x σ hσ hti hc
    obtain ⟨hu, h1⟩ := hother u x σ hσ hc hti
    by_cases hs : σ = f + 2
    · subst hs
      have := no_sig_user hwf h0 hH hI hrole hu h1
      rw [critS_sigFrame hc] at this; cases this
    · rw [hown σ hs]; exact hI.own u x σ hσ h1 hc
  · intro u x f' hti hp
    obtain ⟨hu, h1⟩ := hother u x (f' + 2) (by omega) (isSetPost_critS hp) hti
    obtain ⟨h2, h3⟩ := hI.post u x f' h1 hp
    have hf : f' ≠ f := by
      intro e; subst e; rw [hj0] at h2; cases h2
    exact ⟨by rw [hjn f' hf]; exact h2, noPassed_step hO hth' (fun y hy => sigFree_role (htop y hy)) h3⟩

end frames

theorem hs3_step {cfg : Config} {s s' : State} {t : Tid} {o : List String} (hwf : cfg.WellFormed)
    (hrep : cfg.repaired = true) (hS : SimInv cfg s) (h0 : Inv0 s) (hH : HsInv s) (hI : HsInv3 s)
    (h : step s t = some (s', o)) : HsInv3 s' := by
  obtain ⟨th, fr, rest, hth, hst, hnf, hblk, rfl⟩ := step_inv2 h
  have hwf' : s.cfg.WellFormed := by rw [hS.cfgEq]; exact hwf
  have hrep' : s.cfg.repaired = true := by rw [hS.cfgEq]; exact hrep
  by_cases hq : quiet3 fr = true
  · exact hs3_quiet hS h0 hI hth hst hq
  · have hch := h0.chain t th hth
    rw [hst, chainOk_cons] at hch
    have hlink := hch.1
    cases fr with
    | sSetLock σ => exact hs3_signal (σ := σ) hS h0 hH hI hrep' _ hth hst hblk (by simpa [quiet3] using hq) (by simp)
    | sSetStore σ => exact hs3_signal (σ := σ) hS h0 hH hI hrep' _ hth hst hblk (by simpa [quiet3] using hq) (by simp)
    | sSetBcast σ g => exact hs3_signal (σ := σ) hS h0 hH hI hrep' _ hth hst hblk (by simpa [quiet3] using hq) (by simp)
    | sSetUnlock σ => exact hs3_signal (σ := σ) hS h0 hH hI hrep' _ hth hst hblk (by simpa [quiet3] using hq) (by simp)
    | sRstLock σ => exact hs3_signal (σ := σ) hS h0 hH hI hrep' _ hth hst hblk (by simpa [quiet3] using hq) (by simp)
    | sRstStore σ => exact hs3_signal (σ := σ) hS h0 hH hI hrep' _ hth hst hblk (by simpa [quiet3] using hq) (by simp)
    | sRstUnlock σ => exact hs3_signal (σ := σ) hS h0 hH hI hrep' _ hth hst hblk (by simpa [quiet3] using hq) (by simp)
    | sWaitLock σ => exact hs3_signal (σ := σ) hS h0 hH hI hrep' _ hth hst hblk (by simpa [quiet3] using hq) (by simp)
    | sWaitChk σ => exact hs3_signal (σ := σ) hS h0 hH hI hrep' _ hth hst hblk (by simpa [quiet3] using hq) (by simp)
    | sWaitUnlock σ => exact hs3_signal (σ := σ) hS h0 hH hI hrep' _ hth hst hblk (by simpa [quiet3] using hq) (by simp)
    | sWaitCwait σ => exact hs3_signal (σ := σ) hS h0 hH hI hrep' _ hth hst hblk (by simpa [quiet3] using hq) (by simp)
    | sWaitCwake σ => exact hs3_signal (σ := σ) hS h0 hH hI hrep' _ hth hst hblk (by simpa [quiet3] using hq) (by simp)
    | sWaitRelock σ => exact hs3_signal (σ := σ) hS h0 hH hI hrep' _ hth hst hblk (by simpa [quiet3] using hq) (by simp)
    | fSet k => exact absurd (relO_fs_lt hlink) (by simpa [quiet3] using hq)
    | fRst k => exact absurd (relO_fs_lt hlink) (by simpa [quiet3] using hq)
    | fRstLoad k => exact absurd (relO_fs_lt hlink) (by simpa [quiet3] using hq)
    | fWait k => exact absurd (relO_fs_lt hlink) (by simpa [quiet3] using hq)
    | destroyF f => exact hs3_destroyF hwf' hS h0 hH hI hth hst
    | _ => exact absurd rfl hq

theorem hs3_init (cfg : Config) : HsInv3 (State.init cfg) := by
  have htop : ∀ u x, TopIs (State.init cfg) u x → x = .mInit := by
    rintro u x ⟨thu, h1, h2⟩
    simp only [State.init] at h1
    split at h1
    · injection h1 with h1; subst h1; simp at h2; exact h2.symm
    · cases h1
  constructor
  · intro u x σ _ h hc; rw [htop u x h] at hc; cases hc
  · intro u x f h hc; rw [htop u x h] at hc; cases hc

theorem reach_hs3 {cfg : Config} (hwf : cfg.WellFormed) (hrep : cfg.repaired = true)
    (hex : ∀ s, Reach cfg s → ExecFacts s) {s : State} (h : Reach cfg s) : HsInv3 s := by
  induction h with
  | init => exact hs3_init cfg
  | step t hr hs ih =>
    exact hs3_step hwf hrep (reach_inv hr) (reach_inv0 hr) (reach_hs hwf hex hr) ih hs

end Nstd.Future
