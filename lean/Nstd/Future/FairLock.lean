/-
  The spin lock `tplock` that guards the lazy creation of the thread pool (`Future<void>::Private::_threadPool`):
  whenever the lock word is non-zero, some live thread is inside the critical section (its top frame is one of
  `cRdTp2`, `cSwapTp`, `cUnlockTp`), and that thread is enabled (the critical section contains no blocking
  operation).  Hence a spinning client (`cSpin` with `tplock ≠ 0`) always has an enabled holder that can
  release the lock: under a fair scheduler the spin terminates.
-/
import Nstd.Future.Progress
import Nstd.Future.Safety
set_option linter.unusedSimpArgs false
set_option linter.unusedVariables false
namespace Nstd.Future

/-- frames of the critical section of the lazily-created-pool spin lock `tplock` -/
def FR.holderFr : Frame → Bool
  | .cRdTp2 _ | .cSwapTp _ | .cUnlockTp _ => true
  | _ => false

namespace FR

/-- the frames whose micro-step writes `tplock` -/
def flTouch : Frame → Bool
  | .cSpin _ | .cUnlockTp _ => true
  | _ => false

/-- only `cSpin` / `cUnlockTp` write the lock word -/
theorem flLockEq (s : State) (t : Tid) (th : Thread) (fr : Frame) (hk : flTouch fr = false) :
    (stepFrame s t th fr).1.tplock = s.tplock := by
  cases fr
  case ring pc =>
    cases hp : s.pool with
    | none => simp only [stepFrame, hp]; rfl
    | some p =>
      simp only [stepFrame, hp]
      rcases hrs : ringStep p.ring pc with ⟨r', res⟩
      cases res with
      | cont pc' => rfl
      | pushed ok => rfl
      | popped o => rcases o with _ | _ | j <;> rfl
  all_goals
    simp only [stepFrame]
    repeat' split
  all_goals first
    | rfl
    | (simp [flTouch] at hk; done)
    | (simp [setThread, setSig, setPool, setFut, withFault, destroySig]; done)

/-- a micro-step of `t` leaves the record of every other, already existing thread alone -/
theorem flOthers (s : State) (t : Tid) (th : Thread) (fr : Frame) (u : Tid) (hu : u ≠ t)
    (hn : u ≠ s.nthreads) : (stepFrame s t th fr).1.threads u = s.threads u := by
  have hnoth : ∀ (s0 : State) (th0 : Thread), s0.threads = s.threads →
      (setThread s0 t th0).threads u = s.threads u := by
    intro s0 th0 h0; simp only [setThread, h0, upd_ne _ _ hu]
  cases fr
  case ring pc =>
    cases hp : s.pool with
    | none => simp only [stepFrame, hp]; rfl
    | some p =>
      simp only [stepFrame, hp]
      rcases hrs : ringStep p.ring pc with ⟨r', res⟩
      cases res with
      | cont pc' => exact hnoth _ _ rfl
      | pushed ok => exact hnoth _ _ rfl
      | popped o => rcases o with _ | _ | j <;> exact hnoth _ _ rfl
  all_goals
    simp only [stepFrame]
    repeat' split
  all_goals
    simp [setThread, setSig, setPool, setFut, withFault, destroySig, upd_ne _ _ hu, upd_ne _ _ hn]

theorem flSetThread (s0 : State) (t : Tid) (th0 : Thread) : (setThread s0 t th0).threads t = some th0 := by
  simp [setThread, upd_same]

/-- the holder's own step: it stays in the critical section unless it releases the lock -/
theorem flHolderStep (s : State) (t : Tid) (th : Thread) (fr : Frame) (rest : List Frame)
    (hth : s.threads t = some th) (hst : th.stack = fr :: rest) (hnf : th.finished = false)
    (hh : holderFr fr = true) (hl : (stepFrame s t th fr).1.tplock ≠ 0) :
    ∃ th' fr' rest', (stepFrame s t th fr).1.threads t = some th' ∧ th'.finished = false ∧
      th'.stack = fr' :: rest' ∧ holderFr fr' = true := by
  cases fr <;> try (simp [holderFr] at hh; done)
  case cRdTp2 c =>
    by_cases htp : s.tp = true
    · have e : (stepFrame s t th (.cRdTp2 c)).1 = setThread s t (th.cont [.cUnlockTp c]) := by
        simp [stepFrame, htp]
      rw [e]
      exact ⟨th.cont [.cUnlockTp c], .cUnlockTp c, _, flSetThread _ _ _, hnf, rfl, rfl⟩
    · have e : (stepFrame s t th (.cRdTp2 c)).1 =
          setThread { s with pool := some (mkPool 0x100 0 4) } t (th.cont [.cSwapTp c]) := by
        simp [stepFrame, htp]
      rw [e]
      exact ⟨th.cont [.cSwapTp c], .cSwapTp c, _, flSetThread _ _ _, hnf, rfl, rfl⟩
  case cSwapTp c =>
    have e : (stepFrame s t th (.cSwapTp c)).1 = setThread { s with tp := true } t (th.cont [.cUnlockTp c]) := by
      simp [stepFrame]
    rw [e]
    exact ⟨th.cont [.cUnlockTp c], .cUnlockTp c, _, flSetThread _ _ _, hnf, rfl, rfl⟩
  case cUnlockTp c =>
    exact absurd (by simp [stepFrame, setThread]) hl

theorem flTouch_of_change (s : State) (t : Tid) (th : Thread) (fr : Frame)
    (h : (stepFrame s t th fr).1.tplock ≠ s.tplock) : flTouch fr = true := by
  cases hk : flTouch fr
  · exact absurd (flLockEq s t th fr hk) h
  · rfl

/-- acquisition: the thread that turns the lock word from zero to non-zero enters the critical section -/
theorem flAcquire (s : State) (t : Tid) (th : Thread) (fr : Frame) (rest : List Frame)
    (hth : s.threads t = some th) (hst : th.stack = fr :: rest) (hnf : th.finished = false)
    (h0 : s.tplock = 0) (hl : (stepFrame s t th fr).1.tplock ≠ 0) :
    ∃ th' fr' rest', (stepFrame s t th fr).1.threads t = some th' ∧ th'.finished = false ∧
      th'.stack = fr' :: rest' ∧ holderFr fr' = true := by
  have hk : flTouch fr = true := flTouch_of_change s t th fr (by rw [h0]; exact hl)
  cases fr <;> try (simp [flTouch] at hk; done)
  case cSpin c =>
    have e : (stepFrame s t th (.cSpin c)).1 = setThread { s with tplock := 1 } t (th.cont [.cRdTp2 c]) := by
      simp [stepFrame, h0]
    rw [e]
    exact ⟨th.cont [.cRdTp2 c], .cRdTp2 c, _, flSetThread _ _ _, hnf, rfl, rfl⟩
  case cUnlockTp c =>
    exact absurd (by simp [stepFrame, setThread]) hl

/-- the lock word is non-zero only while some live thread is inside the critical section -/
def TpInv (s : State) : Prop :=
  s.tplock ≠ 0 → ∃ u th fr rest, s.threads u = some th ∧ th.finished = false ∧ th.stack = fr :: rest ∧
    holderFr fr = true

theorem flReach_tpInv {cfg : Config} {s : State} (hr : Reach cfg s) : TpInv s := by
  induction hr with
  | init => intro h; exact absurd rfl h
  | @step s s' o t hr hs ih =>
    obtain ⟨th, fr, rest, hth, hst, hnf, rfl⟩ := step_inv hs
    intro hl
    by_cases h0 : s.tplock = 0
    · obtain ⟨th', fr', rest', h1, h2, h3, h4⟩ := flAcquire s t th fr rest hth hst hnf h0 hl
      exact ⟨t, th', fr', rest', h1, h2, h3, h4⟩
    · obtain ⟨u, thu, fru, restu, hu1, hu2, hu3, hu4⟩ := ih h0
      by_cases hut : u = t
      · subst hut
        rw [hth] at hu1
        injection hu1 with hu1
        subst hu1
        rw [hst] at hu3
        injection hu3 with hf hrst
        subst hf
        obtain ⟨th', fr', rest', h1, h2, h3, h4⟩ := flHolderStep s u th fr rest hth hst hnf hu4 hl
        exact ⟨u, th', fr', rest', h1, h2, h3, h4⟩
      · have hlt : u < s.nthreads := thread_lt hr hu1
        have hne : u ≠ s.nthreads := Nat.ne_of_lt hlt
        exact ⟨u, thu, fru, restu, by rw [flOthers s t th fr u hut hne]; exact hu1, hu2, hu3, hu4⟩

theorem flHolder_not_blocked (s : State) (u : Tid) {fr : Frame} (h : holderFr fr = true) :
    blockedFrame s u fr = false := by
  cases fr <;> first | rfl | (simp [holderFr] at h)

/-- a ring micro-step that continues always moves to a different program counter -/
theorem flRing_cont_ne {r r' : Ring Job} {pc : RingPc Job} (h : ringStep r pc = (r', .cont pc)) : False := by
  cases pc <;> simp only [ringStep] at h
  all_goals first
    | (split at h <;> simp at h; done)
    | (simp at h; done)

end FR

/-- while the spin lock `tplock` is taken, some live thread is inside its critical section and is enabled -/
theorem spinner_has_holder {cfg : Config} {s : State} (hr : Reach cfg s) (hl : s.tplock ≠ 0) :
    ∃ u th fr rest, s.threads u = some th ∧ th.finished = false ∧ th.stack = fr :: rest ∧
      FR.holderFr fr = true ∧ enabled s u = true := by
  obtain ⟨u, th, fr, rest, hth, hnf, hst, hh⟩ := FR.flReach_tpInv hr hl
  have hb := FR.flHolder_not_blocked s u hh
  refine ⟨u, th, fr, rest, hth, hnf, hst, hh, ?_⟩
  simp only [enabled, hth, hst, hnf, hb]; rfl

/-- a step of the lock holder is never a stuttering step: its top frame changes -/
theorem holder_step_not_fixpoint {s : State} {u : Tid} {th : Thread} {fr : Frame} {rest : List Frame}
    (hth : s.threads u = some th) (hst : th.stack = fr :: rest) (hh : FR.holderFr fr = true) :
    (stepFrame s u th fr).1 ≠ s := by
  intro h
  have h1 : (stepFrame s u th fr).1.threads u = some th := by rw [h]; exact hth
  cases fr <;> try (simp [FR.holderFr] at hh; done)
  case cRdTp2 c =>
    by_cases htp : s.tp = true
    · simp [stepFrame, htp, setThread, upd_same] at h1
      have h2 := congrArg Thread.stack h1
      simp [Thread.cont, hst] at h2
    · simp [stepFrame, htp, setThread, upd_same] at h1
      have h2 := congrArg Thread.stack h1
      simp [Thread.cont, hst] at h2
  case cSwapTp c =>
    simp [stepFrame, setThread, upd_same] at h1
    have h2 := congrArg Thread.stack h1
    simp [Thread.cont, hst] at h2
  case cUnlockTp c =>
    simp [stepFrame, setThread, upd_same] at h1
    have h2 := congrArg Thread.stack h1
    simp [Thread.cont, hst] at h2


/-- in a fault-free state the only stuttering micro-step is a failed attempt of the spin lock: `cSpin` while
    the lock word is already `1` (every other step changes the stepping thread's own record) -/
theorem step_fixpoint_is_spin {s : State} {t : Tid} {th : Thread} {fr : Frame} {rest : List Frame}
    (hth : s.threads t = some th) (hst : th.stack = fr :: rest) (hfault : s.fault = none)
    (h : (stepFrame s t th fr).1 = s) : ∃ c, fr = .cSpin c ∧ s.tplock = 1 := by
  have hth' : s.threads t = some th := hth
  cases fr
  case ring pc =>
    exfalso
    cases hp : s.pool with
    | none =>
      simp only [stepFrame, hp] at h
      have hF := congrArg State.fault h
      simp [withFault, hfault] at hF
    | some p =>
      simp only [stepFrame, hp] at h
      rcases hrs : ringStep p.ring pc with ⟨r', res⟩
      rw [hrs] at h
      have hT := congrArg (fun x => x.threads t) h
      cases res with
      | cont pc' =>
        simp [setThread, setPool, upd_same, hth'] at hT
        have h2 := congrArg Thread.stack hT
        simp [Thread.cont, hst] at h2
        subst h2
        exact FR.flRing_cont_ne hrs
      | pushed ok =>
        simp [setThread, setPool, upd_same, hth'] at hT
        have h2 := congrArg (fun x => x.stack.length) hT
        simp [Thread.cont, hst] at h2
      | popped o =>
        rcases o with _ | _ | j
        all_goals
          simp [setThread, setPool, withFault, upd_same, hth'] at hT
          have h2 := congrArg (fun x => x.stack.length) hT
          simp [Thread.cont, hst] at h2
  all_goals
    simp only [stepFrame] at h
    repeat' split at h
  all_goals
    have hT := congrArg (fun x => x.threads t) h
    have hF := congrArg State.fault h
    have hL := congrArg State.tplock h
    first
    | (simp [withFault, setThread, hfault] at hF; done)
    | (simp [setThread, setSig, setPool, setFut, withFault, destroySig, upd_same, hth'] at hT
       have h2 := congrArg Thread.stack hT
       first
       | (simp [Thread.cont, hst] at h2; done)
       | (have h3 := congrArg List.length h2
          simp [Thread.cont, hst] at h3; done)
       | (simp [setThread] at hL
          exact ⟨_, rfl, hL.symm⟩; done)
       | (have h4 := congrArg (fun x => x.script.length) hT
          simp [Thread.cont, *] at h4; done)
       | (have h5 := congrArg (fun x => x.pool.map (fun p => p.ctxs.length)) h
          simp [setThread, setPool, *, List.length_eraseIdx] at h5
          have h6 := List.getElem?_eq_some_iff.mp (by assumption)
          obtain ⟨h6, _⟩ := h6
          omega))


end Nstd.Future
