/-
  Run-time half of property C20 over the abstract pipe model of Pipes.lean, for ARBITRARY parent and child
  programs (headline theorems only; proofs in LemmasPipes.lean).

  All theorems named `*_in_pipe_model` are statements about an explicit MODEL of the kernel (bounded FIFO pipes,
  partial reads/writes, end-of-file when the write end is gone, SIGPIPE when the read end is gone, exit/wait);
  that Linux behaves like the model is an assumption, cross-checked by the correspondence streams.
  `U` is the UNCONSTRAINED system: the parent and the child may perform any operation the kernel permits on the
  ends they hold, in any order, with any data and any chunk sizes; every concrete pair of programs over the three
  pipes is a refinement of it, so what is proved for every reachable state of `U` holds for every pair of programs
  and every schedule.
-/
import Nstd.Args.LemmasPipes
namespace Nstd.Args
open Pipes

/-- MODEL-LEVEL, universal over programs (S1 + S4).  For every pipe capacity `cap`, every redirection mask and
    every state `s` the unconstrained system can reach (= every pair of parent/child programs, every schedule,
    every chunking): on each of the three pipes the bytes read so far followed by the bytes still queued are
    exactly the bytes written so far (nothing invented, lost, duplicated or reordered); no queue exceeds the
    capacity; and on a stream that is not redirected nothing is ever transferred. -/
theorem pipes_deliver_intact_any_programs_in_pipe_model (cap mask : Nat) (s : U) (h : UReach (U.init cap mask) s) :
    (s.gotIn ++ s.inQ = s.sentIn ∧ s.gotOut ++ s.outQ = s.sentOut ∧ s.gotErr ++ s.errQ = s.sentErr) ∧
    (s.inQ.length ≤ cap ∧ s.outQ.length ≤ cap ∧ s.errQ.length ≤ cap) ∧
    (Kernel.bit mask 4 = false → s.sentIn = []) ∧ (Kernel.bit mask 1 = false → s.sentOut = []) ∧
    (Kernel.bit mask 2 = false → s.sentErr = []) := by
  have i := UInv.reach h
  obtain ⟨wo, we, wi⟩ := noWriter_reach h
  have c := i.cap_eq
  refine ⟨⟨i.fifoIn.symm, i.fifoOut.symm, i.fifoErr.symm⟩, ⟨c ▸ i.capIn, c ▸ i.capOut, c ▸ i.capErr⟩,
    fun hb => (wi hb).2, fun hb => (wo hb).2, fun hb => (we hb).2⟩

/-- MODEL-LEVEL, universal over programs (S2).  For every capacity, mask, every reachable state `s` of the
    unconstrained system and every state `s'` reachable from `s` by any further steps: if in `s` the parent has
    observed end-of-file on stdout then (complete) it has read every byte the child ever wrote to stdout, the pipe
    is empty and the child no longer holds the write end, and (final) in `s'` the bytes written and the bytes read
    are still the same and end-of-file still holds -- nothing can be written after end-of-file was seen.  The same
    for stderr, and for the child's view of stdin (with the parent's write end closed). -/
theorem eof_is_complete_and_final_in_pipe_model (cap mask : Nat) (s s' : U) (h : UReach (U.init cap mask) s)
    (h' : UReach s s') :
    (s.outEof = true → s.gotOut = s.sentOut ∧ s.outQ = [] ∧ s.cOutW = false ∧
        s'.sentOut = s.sentOut ∧ s'.gotOut = s.gotOut ∧ s'.outEof = true) ∧
    (s.errEof = true → s.gotErr = s.sentErr ∧ s.errQ = [] ∧ s.cErrW = false ∧
        s'.sentErr = s.sentErr ∧ s'.gotErr = s.gotErr ∧ s'.errEof = true) ∧
    (s.inEof = true → s.gotIn = s.sentIn ∧ s.inQ = [] ∧ s.pInW = false ∧
        s'.sentIn = s.sentIn ∧ s'.gotIn = s.gotIn ∧ s'.inEof = true) := by
  have i := UInv.reach h
  refine ⟨fun he => ?_, fun he => ?_, fun he => ?_⟩
  · obtain ⟨q, w⟩ := i.eofOut he
    obtain ⟨a, b, c⟩ := eofOut_reach i he h'
    exact ⟨by rw [i.fifoOut, q, List.append_nil], q, w, b, c, a⟩
  · obtain ⟨q, w⟩ := i.eofErr he
    obtain ⟨a, b, c⟩ := eofErr_reach i he h'
    exact ⟨by rw [i.fifoErr, q, List.append_nil], q, w, b, c, a⟩
  · obtain ⟨q, w⟩ := i.eofIn he
    obtain ⟨a, b, c⟩ := eofIn_reach i he h'
    exact ⟨by rw [i.fifoIn, q, List.append_nil], q, w, b, c, a⟩

/-- MODEL-LEVEL, universal over programs (S3).  For every capacity, mask, every reachable state `s` of the
    unconstrained system and every `s'` reachable from `s`:
    (1) whatever `wait` (join) stored is the code the child exited with, or 0 for a child killed by SIGPIPE;
    (2) the child is killed by SIGPIPE only if the parent closed the read end of stdout/stderr while the child
        still held the write end (`earlyClose`); so if the parent never does that, `wait` stores exactly the
        child's exit code;
    (3) a child that exited with `c` stays exited with `c`, and any later `wait` stores exactly `c`;
    (4) a stored code never changes. -/
theorem join_code_is_exit_code_any_programs_in_pipe_model (cap mask : Nat) (s s' : U)
    (h : UReach (U.init cap mask) s) (h' : UReach s s') :
    (∀ c, s.reaped = some c → s.child = .exited c ∨ (s.child = .signalled ∧ c = 0)) ∧
    (s.child = .signalled → s.earlyClose = true) ∧
    (s.earlyClose = false → ∀ c, s.reaped = some c → s.child = .exited c) ∧
    (∀ c, s.child = .exited c → s'.child = .exited c ∧ ∀ r, s'.reaped = some r → r = c) ∧
    (∀ c, s.reaped = some c → s'.reaped = some c) := by
  have i := UInv.reach h
  have i' := UInv.reach (h.trans h')
  obtain ⟨st, sr⟩ := ended_reach h'
  refine ⟨i.reaped_ok, i.sig, fun he c hc => ?_, fun c hc => ?_, sr⟩
  · rcases i.reaped_ok c hc with e | ⟨e, _⟩
    · exact e
    · have := i.sig e; simp [he] at this
  · have e : s'.child = .exited c := by rw [st (by rw [hc]; simp), hc]
    refine ⟨e, fun r hr => ?_⟩
    rcases i'.reaped_ok r hr with e' | ⟨e', _⟩
    · rw [e] at e'; cases e'; rfl
    · rw [e] at e'; cases e'

-- non-vacuity: a concrete run of the unconstrained system (capacity 2, all three streams redirected): the parent
-- writes [1, 2], the child reads them, writes [3] to stdout and exits with 5; the parent reads, sees end-of-file, waits
example : ∃ s, UReach (U.init 2 7) s ∧ s.gotIn = [1, 2] ∧ s.gotOut = [3] ∧ s.outEof = true ∧ s.reaped = some 5 :=
  ⟨_, .step (.step (.step (.step (.step (.step (.step .init
      (.pWriteIn _ [1, 2] rfl rfl (by decide) (by decide)))
      (.cReadIn _ 2 rfl (by decide) (by decide)))
      (.cWriteOut _ [3] rfl rfl (by decide) (by decide)))
      (.cExit _ 5 rfl))
      (.pReadOut _ 1 rfl (by decide) (by decide)))
      (.pEofOut _ rfl rfl rfl))
      (.pWaitExited _ 5 rfl rfl), rfl, rfl, rfl, rfl⟩

-- the SIGPIPE branch is reachable: the parent closes its stdout read end early, the child writes, `wait` stores 0
example : ∃ s, UReach (U.init 2 7) s ∧ s.child = .signalled ∧ s.earlyClose = true ∧ s.reaped = some 0 :=
  ⟨_, .step (.step (.step .init (.pCloseOut _ rfl)) (.cSigOut _ rfl rfl rfl)) (.pWaitSignalled _ rfl rfl), rfl, rfl, rfl⟩


/-! ### the documented parent protocol against an arbitrary child program (system `G` of Pipes.lean)

  Parent: `Process::write` until the payload `P` is taken (or a write fails), `close(stdinStream)`, `Process::read` on
  stdout/stderr until both reported end-of-file, `join`.  Child: ANY program `prog : List CAct` over
  `readIn n | readAll | writeOut d | writeErr d | closeIn | closeOut | closeErr` (no restriction taken), then `exit(code)`.
  Every capacity, every redirection mask, every chunking of partial transfers, every schedule.
  Modelling assumptions (besides those of `U`): a parent write to a stdin pipe whose read end is gone fails with EPIPE
  (the parent ignores SIGPIPE; libnstd does not install a handler itself); reads of / writes to a stream that is not
  redirected or that the child has closed complete at once (they concern objects outside the model); the `close` calls
  `join()` makes after `waitpid` are not part of `G` (the child has exited by then: `join_returns_exit_code_in_pipe_model`
  covers that order). -/

/-- PROTOCOL-LEVEL, abstract pipe model, universal over child programs.  For every pipe capacity `cap`, redirection
    mask, payload `P`, child program `prog`, exit code `code` and every state `s` reachable by any schedule and any
    sizes of partial transfers:
    (refinement) the pipe state `s.u` is a reachable state of the unconstrained system `U` and every step is a step
        of `U` or leaves the pipes unchanged -- so S1-S4 (`pipes_deliver_intact_...`, `eof_is_complete_...`,
        `join_code_is_exit_code_...`) hold for it;
    (L2) every step decreases `G.measure` (every run is finite; `protocol_total_...` gives the bound);
    (safety) the child is never killed by SIGPIPE, and what the child has read from stdin is a prefix of `P`;
    (L3) once `join` has returned: it stored `code`, the child exited with `code`; the parent has read from stdout,
        before end-of-file, exactly the data of all `writeOut` actions of the program in order up to its first
        `closeOut` (`outData prog`; nothing if stdout is not redirected), likewise stderr; and if stdin is redirected
        and the program contains `readAll` before any `closeIn` (`wantsAll`), the child has read exactly `P`. -/
theorem protocol_delivers_any_child_program_in_pipe_model (cap mask : Nat) (P : List Nat) (prog : List CAct)
    (code : Nat) (s : G) (h : GReach (G.init cap mask P prog code) s) :
    (UReach (U.init cap mask) s.u ∧ ∀ s', GStep s s' → UStep s.u s'.u ∨ s'.u = s.u) ∧
    (∀ s', GStep s s' → s'.measure < s.measure) ∧
    (s.u.child ≠ .signalled ∧ s.u.gotIn <+: P) ∧
    (s.pPhase = .joined →
      s.u.reaped = some code ∧ s.u.child = .exited code ∧
      s.u.gotOut = (if Kernel.bit mask 1 = true then outData prog else []) ∧
      s.u.gotErr = (if Kernel.bit mask 2 = true then errData prog else []) ∧
      (Kernel.bit mask 4 = true → wantsAll prog = true → s.u.gotIn = P)) := by
  have i := GInv.reach h
  refine ⟨⟨h.refines, fun _ hs => hs.refines⟩, fun _ hs => gstep_decreases hs, ⟨?_, ⟨_, gprefix i⟩⟩, gdelivered i⟩
  rcases i.a.alive with e | ⟨_, e⟩ <;> rw [e] <;> simp

/-- PROTOCOL-LEVEL, abstract pipe model (L1, no deadlock).  For every capacity `cap >= 1`, mask, payload `P`, child
    program `prog` and code, under the hypothesis `Fits cap P prog`: the payload fits the stdin pipe (`P.length <= cap`)
    OR the child writes at most `cap` bytes to stdout and at most `cap` bytes to stderr in its input phase (= its
    program up to the first `readAll` / `closeIn`, the whole program if there is none): in every reachable state in
    which `join` has not returned some process can take a step.  (Writes to a stream that is not redirected or that
    the child has closed complete at once in this model.)  The hypothesis is needed: see the deadlock `example` below. -/
theorem protocol_no_deadlock_any_child_program_in_pipe_model (cap mask : Nat) (hcap : 0 < cap) (P : List Nat)
    (prog : List CAct) (hF : Fits cap P prog) (code : Nat) (s : G) (h : GReach (G.init cap mask P prog code) s) :
    s.pPhase ≠ .joined → ∃ s', GStep s s' :=
  gprogress (GInv.reach h) hcap hF

/-- PROTOCOL-LEVEL, abstract pipe model (total correctness).  Under the same hypotheses: a run of `n` steps has
    `n <= 2|P| + progCost prog + 6` (`progCost` = number of actions + twice the bytes they write); a state in which no
    step is possible is one in which `join` has returned with the code and everything delivered; and such a state is
    reachable (the theorem is not vacuous for any input). -/
theorem protocol_total_any_child_program_in_pipe_model (cap mask : Nat) (hcap : 0 < cap) (P : List Nat)
    (prog : List CAct) (hF : Fits cap P prog) (code : Nat) (n : Nat) (s : G)
    (h : GReachN (G.init cap mask P prog code) n s) :
    n ≤ 2 * P.length + progCost prog + 6 ∧
    ((∀ s', ¬ GStep s s') → s.pPhase = .joined ∧ s.u.reaped = some code ∧
      s.u.gotOut = (if Kernel.bit mask 1 = true then outData prog else []) ∧
      s.u.gotErr = (if Kernel.bit mask 2 = true then errData prog else []) ∧
      (Kernel.bit mask 4 = true → wantsAll prog = true → s.u.gotIn = P)) ∧
    (∃ s', GReach (G.init cap mask P prog code) s' ∧ s'.pPhase = .joined) := by
  refine ⟨?_, fun hstuck => ?_, exists_joined hcap hF _ _ (Nat.le_refl _) .init⟩
  · have := h.bound
    rw [G.init_measure] at this
    omega
  · have i := GInv.reach h.reach
    have hj : s.pPhase = .joined := by
      by_cases hj : s.pPhase = .joined
      · exact hj
      · obtain ⟨s', hs'⟩ := gprogress i hcap hF hj
        exact absurd hs' (hstuck s')
    obtain ⟨a, _, b, c, d⟩ := gdelivered i hj
    exact ⟨hj, a, b, c, d⟩

-- non-vacuity of `Fits`: a payload larger than the pipe, and a child that writes before, between and after its reads
example : Fits 2 [1, 2, 3] [.writeOut [7], .readIn 1, .writeErr [8, 9], .readAll, .writeOut [10, 11, 12], .closeOut] :=
  .inr ⟨by decide, by decide⟩
example : Fits 4 [1, 2, 3] [.writeOut [7, 8, 9, 10, 11], .closeIn] := .inl (by decide)

-- the `@io` helper of the correspondence run (read stdin to end-of-file, write stdout, write stderr, exit: the one child
-- shape of `pipe_protocol_delivers_in_pipe_model`) is the instance `[readAll, writeOut O, writeErr E]`: `Fits` holds for
-- every capacity and every payload, and the delivered data are `O`, `E` and the whole payload
example (cap : Nat) (P O E : List Nat) : Fits cap P [.readAll, .writeOut O, .writeErr E] ∧
    outData [.readAll, .writeOut O, .writeErr E] = O ∧ errData [.readAll, .writeOut O, .writeErr E] = E ∧
    wantsAll [.readAll, .writeOut O, .writeErr E] = true :=
  ⟨.inr ⟨Nat.zero_le _, Nat.zero_le _⟩, by simp [outData], by simp [errData], rfl⟩

-- a concrete run (capacity 1, all streams redirected): payload [1], child `readAll; writeOut [2]; exit(3)`
example : ∃ s, GReach (G.init 1 7 [1] [.readAll, .writeOut [2]] 3) s ∧ s.pPhase = .joined ∧ s.u.reaped = some 3 ∧
    s.u.gotIn = [1] ∧ s.u.gotOut = [2] ∧ s.u.gotErr = [] :=
  ⟨_, .step (.step (.step (.step (.step (.step (.step (.step (.step (.step (.step .init
      (.pWrite _ 1 rfl rfl rfl rfl (by decide) (by decide) (by decide)))
      (.pClose _ rfl (.inl rfl)))
      (.cReadAll _ _ 1 rfl rfl rfl (by decide) (by decide)))
      (.cReadAllEof _ _ rfl rfl rfl rfl rfl))
      (.cWriteOut _ _ _ 1 rfl rfl rfl rfl (by decide) (by decide) (by decide)))
      (.cWriteOutDone _ _ rfl rfl))
      (.cExit _ rfl rfl))
      (.pReadOut _ 1 rfl rfl (by decide) (by decide)))
      (.pEofOut _ rfl rfl rfl rfl rfl))
      (.pEofErr _ rfl rfl rfl rfl rfl))
      (.pJoin _ 3 rfl (.inl rfl) (.inl rfl) rfl rfl), rfl, rfl, rfl, rfl, rfl⟩

-- the hypothesis `Fits` is needed: capacity 2, payload of 3 bytes, the child writes 3 bytes to stdout before it
-- reads: after the parent has filled the stdin pipe and the child the stdout pipe nobody can move -- deadlock
example : ¬ Fits 2 [1, 2, 3] [.writeOut [4, 5, 6], .readAll] := by
  intro h
  rcases h with h | ⟨h, _⟩
  · revert h; decide
  · revert h; decide
example : ∃ s, GReach (G.init 2 7 [1, 2, 3] [.writeOut [4, 5, 6], .readAll] 0) s ∧ s.pPhase ≠ .joined ∧
    ∀ s', ¬ GStep s s' := by
  refine ⟨_, .step (.step .init (.pWrite _ 2 rfl rfl rfl rfl (by decide) (by decide) (by decide)))
    (.cWriteOut _ _ _ 2 rfl rfl rfl rfl (by decide) (by decide) (by decide)), by decide, ?_⟩
  intro s' hs
  cases hs <;> simp_all [G.init, U.init, Kernel.bit] <;> omega

end Nstd.Args
