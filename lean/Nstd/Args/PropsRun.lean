/-
  Run-time half of property C20 over the abstract pipe model of Pipes.lean, for ARBITRARY parent and child
  programs (headline theorems only; proofs in LemmasPipes.lean).

  All theorems named `*_in_pipe_model` are statements about an explicit MODEL of the kernel (bounded FIFO pipes,
  partial reads/writes, end-of-file when the write end is gone, SIGPIPE when the read end is gone, exit/wait);
  that Linux behaves like the model is an assumption, cross-checked by the correspondence streams.
  `U` is the UNCONSTRAINED system: the parent and the child may perform any operation the kernel permits on the
  ends they hold, in any order, with any data and any chunk sizes; every concrete pair of programs over the three
  pipes is a refinement of it, so what is proved for every reachable state of `U` holds for every pair of programs
  and every schedule.
-/
import Nstd.Args.LemmasPipes
namespace Nstd.Args
open Pipes

/-- MODEL-LEVEL, universal over programs (S1 + S4).  For every pipe capacity `cap`, every redirection mask and
    every state `s` the unconstrained system can reach (= every pair of parent/child programs, every schedule,
    every chunking): on each of the three pipes the bytes read so far followed by the bytes still queued are
    exactly the bytes written so far (nothing invented, lost, duplicated or reordered); no queue exceeds the
    capacity; and on a stream that is not redirected nothing is ever transferred. -/
theorem pipes_deliver_intact_any_programs_in_pipe_model (cap mask : Nat) (s : U) (h : UReach (U.init cap mask) s) :
    (s.gotIn ++ s.inQ = s.sentIn ∧ s.gotOut ++ s.outQ = s.sentOut ∧ s.gotErr ++ s.errQ = s.sentErr) ∧
    (s.inQ.length ≤ cap ∧ s.outQ.length ≤ cap ∧ s.errQ.length ≤ cap) ∧
    (Kernel.bit mask 4 = false → s.sentIn = []) ∧ (Kernel.bit mask 1 = false → s.sentOut = []) ∧
    (Kernel.bit mask 2 = false → s.sentErr = []) := by
  have i := UInv.reach h
  obtain ⟨wo, we, wi⟩ := noWriter_reach h
  have c := i.cap_eq
  refine ⟨⟨i.fifoIn.symm, i.fifoOut.symm, i.fifoErr.symm⟩, ⟨c ▸ i.capIn, c ▸ i.capOut, c ▸ i.capErr⟩,
    fun hb => (wi hb).2, fun hb => (wo hb).2, fun hb => (we hb).2⟩

/-- MODEL-LEVEL, universal over programs (S2).  For every capacity, mask, every reachable state `s` of the
    unconstrained system and every state `s'` reachable from `s` by any further steps: if in `s` the parent has
    observed end-of-file on stdout then (complete) it has read every byte the child ever wrote to stdout, the pipe
    is empty and the child no longer holds the write end, and (final) in `s'` the bytes written and the bytes read
    are still the same and end-of-file still holds -- nothing can be written after end-of-file was seen.  The same
    for stderr, and for the child's view of stdin (with the parent's write end closed). -/
theorem eof_is_complete_and_final_in_pipe_model (cap mask : Nat) (s s' : U) (h : UReach (U.init cap mask) s)
    (h' : UReach s s') :
    (s.outEof = true → s.gotOut = s.sentOut ∧ s.outQ = [] ∧ s.cOutW = false ∧
        s'.sentOut = s.sentOut ∧ s'.gotOut = s.gotOut ∧ s'.outEof = true) ∧
    (s.errEof = true → s.gotErr = s.sentErr ∧ s.errQ = [] ∧ s.cErrW = false ∧
        s'.sentErr = s.sentErr ∧ s'.gotErr = s.gotErr ∧ s'.errEof = true) ∧
    (s.inEof = true → s.gotIn = s.sentIn ∧ s.inQ = [] ∧ s.pInW = false ∧
        s'.sentIn = s.sentIn ∧ s'.gotIn = s.gotIn ∧ s'.inEof = true) := by
  have i := UInv.reach h
  refine ⟨fun he => ?_, fun he => ?_, fun he => ?_⟩
  · obtain ⟨q, w⟩ := i.eofOut he
    obtain ⟨a, b, c⟩ := eofOut_reach i he h'
    exact ⟨by rw [i.fifoOut, q, List.append_nil], q, w, b, c, a⟩
  · obtain ⟨q, w⟩ := i.eofErr he
    obtain ⟨a, b, c⟩ := eofErr_reach i he h'
    exact ⟨by rw [i.fifoErr, q, List.append_nil], q, w, b, c, a⟩
  · obtain ⟨q, w⟩ := i.eofIn he
    obtain ⟨a, b, c⟩ := eofIn_reach i he h'
    exact ⟨by rw [i.fifoIn, q, List.append_nil], q, w, b, c, a⟩

/-- MODEL-LEVEL, universal over programs (S3).  For every capacity, mask, every reachable state `s` of the
    unconstrained system and every `s'` reachable from `s`:
    (1) whatever `wait` (join) stored is the code the child exited with, or 0 for a child killed by SIGPIPE;
    (2) the child is killed by SIGPIPE only if the parent closed the read end of stdout/stderr while the child
        still held the write end (`earlyClose`); so if the parent never does that, `wait` stores exactly the
        child's exit code;
    (3) a child that exited with `c` stays exited with `c`, and any later `wait` stores exactly `c`;
    (4) a stored code never changes. -/
theorem join_code_is_exit_code_any_programs_in_pipe_model (cap mask : Nat) (s s' : U)
    (h : UReach (U.init cap mask) s) (h' : UReach s s') :
    (∀ c, s.reaped = some c → s.child = .exited c ∨ (s.child = .signalled ∧ c = 0)) ∧
    (s.child = .signalled → s.earlyClose = true) ∧
    (s.earlyClose = false → ∀ c, s.reaped = some c → s.child = .exited c) ∧
    (∀ c, s.child = .exited c → s'.child = .exited c ∧ ∀ r, s'.reaped = some r → r = c) ∧
    (∀ c, s.reaped = some c → s'.reaped = some c) := by
  have i := UInv.reach h
  have i' := UInv.reach (h.trans h')
  obtain ⟨st, sr⟩ := ended_reach h'
  refine ⟨i.reaped_ok, i.sig, fun he c hc => ?_, fun c hc => ?_, sr⟩
  · rcases i.reaped_ok c hc with e | ⟨e, _⟩
    · exact e
    · have := i.sig e; simp [he] at this
  · have e : s'.child = .exited c := by rw [st (by rw [hc]; simp), hc]
    refine ⟨e, fun r hr => ?_⟩
    rcases i'.reaped_ok r hr with e' | ⟨e', _⟩
    · rw [e] at e'; cases e'; rfl
    · rw [e] at e'; cases e'

-- non-vacuity: a concrete run of the unconstrained system (capacity 2, all three streams redirected): the parent
-- writes [1, 2], the child reads them, writes [3] to stdout and exits with 5; the parent reads, sees end-of-file, waits
example : ∃ s, UReach (U.init 2 7) s ∧ s.gotIn = [1, 2] ∧ s.gotOut = [3] ∧ s.outEof = true ∧ s.reaped = some 5 :=
  ⟨_, .step (.step (.step (.step (.step (.step (.step .init
      (.pWriteIn _ [1, 2] rfl rfl (by decide) (by decide)))
      (.cReadIn _ 2 rfl (by decide) (by decide)))
      (.cWriteOut _ [3] rfl rfl (by decide) (by decide)))
      (.cExit _ 5 rfl))
      (.pReadOut _ 1 rfl (by decide) (by decide)))
      (.pEofOut _ rfl rfl rfl))
      (.pWaitExited _ 5 rfl rfl), rfl, rfl, rfl, rfl⟩

-- the SIGPIPE branch is reachable: the parent closes its stdout read end early, the child writes, `wait` stores 0
example : ∃ s, UReach (U.init 2 7) s ∧ s.child = .signalled ∧ s.earlyClose = true ∧ s.reaped = some 0 :=
  ⟨_, .step (.step (.step .init (.pCloseOut _ rfl)) (.cSigOut _ rfl rfl rfl)) (.pWaitSignalled _ rfl rfl), rfl, rfl, rfl⟩

end Nstd.Args
