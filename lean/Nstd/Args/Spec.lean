/-
  Specification side of property C20 (no pointers, no terminators, no offsets):

  * `tokenize`: the documented quoting rules of the command-line form of `Process::start/open`,
    as a reference tokenizer over the list of characters, and `quoteWord`/`joinWords`, the way a
    caller writes a word list as a command line (used by the round-trip theorem);
  * `parse`: the getopt_long conventions (in-order variant: non-options are returned as
    character 0 where they stand) over an option table and the list of argument words.
-/
namespace Nstd.Args.Spec

abbrev Word := List Nat

/-! ### command lines -/

/-- reference tokenizer.  `q` = inside a double-quoted segment, `cur` = the word collected so far.
    Outside quotes every blank ends a word (also an empty one) and a quote opens a segment; inside a
    segment a quote closes it, `\"` stands for a quote, every other character (also a backslash)
    for itself; at the end the last word is delivered unless it is empty. -/
def tok : Bool → List Nat → Word → List Word
  | _, [], cur => if cur.isEmpty then [] else [cur]
  | false, c :: cs, cur =>
    if c = 34 then tok true cs cur
    else if c = 32 then cur :: tok false cs []
    else tok false cs (cur ++ [c])
  | true, c :: cs, cur =>
    if c = 34 then tok false cs cur
    else if c = 92 then
      match cs with
      | [] => tok true [] (cur ++ [92])
      | d :: cs' => if d = 34 then tok true cs' (cur ++ [34]) else tok true (d :: cs') (cur ++ [92])
    else tok true cs (cur ++ [c])

def tokenize (s : List Nat) : List Word := tok false s []

/-- a word written as a double-quoted segment: `"` becomes `\"` -/
def escape : Word → List Nat
  | [] => []
  | c :: cs => if c = 34 then 92 :: 34 :: escape cs else c :: escape cs

def quoteWord (w : Word) : List Nat := 34 :: escape w ++ [34]

/-- quoted words separated by single blanks -/
def joinWords : List Word → List Nat
  | [] => []
  | [w] => quoteWord w
  | w :: w' :: ws => quoteWord w ++ 32 :: joinWords (w' :: ws)

/-- a second, universal way to write a word (mixed quoting): a blank is written as `" "`, a quote as `"\""`,
    every other character (also a backslash) as itself outside quotes, the empty word as `""` -/
def encChar (c : Nat) : List Nat :=
  if c = 32 then [34, 32, 34] else if c = 34 then [34, 92, 34, 34] else [c]

def renderWord (w : Word) : List Nat := if w.isEmpty then [34, 34] else w.flatMap encChar

/-- every word followed by a blank (terminator style): expresses EVERY argument vector -/
def joinTerminated (ws : List Word) : List Nat := ws.flatMap (fun w => renderWord w ++ [32])

/-- words separated by single blanks, no blank at the end -/
def joinSeparated : List Word → List Nat
  | [] => []
  | [w] => renderWord w
  | w :: w' :: ws => renderWord w ++ 32 :: joinSeparated (w' :: ws)

/-! ### getopt conventions -/

structure SOpt where
  character : Int
  name : Option Word       -- long name, if any
  flags : Nat              -- bit 0: takes a value, bit 1: the value is optional
  deriving Repr

def SOpt.takesArg (o : SOpt) : Bool := o.flags % 2 == 1
def SOpt.optional (o : SOpt) : Bool := o.flags / 2 % 2 == 1

abbrev Res := Int × List Nat

/-- the option letter denoted by a byte (`char` is signed) -/
def letter (c : Nat) : Int := if c < 128 then (c : Int) else (c : Int) - 256

def findShort (opts : List SOpt) (c : Nat) : Option SOpt :=
  opts.find? (fun o => o.character == letter c)

/-- first option with that long name that can be written this way (`--name=value` needs one that takes a value) -/
def findLong (opts : List SOpt) (name : Word) (hasValue : Bool) : Option SOpt :=
  opts.find? (fun o => o.name == some name && (!hasValue || o.takesArg))

/-- `name` / `name=value` -/
def splitEq : List Nat → Word × Option Word
  | [] => ([], none)
  | c :: cs => if c = 61 then ([], some cs) else (c :: (splitEq cs).1, (splitEq cs).2)

/-- a cluster of short options (the characters behind the `-`): the complete results and, if the
    last option still needs its value from the next word, that option with the text to report
    when there is no next word -/
def cluster (opts : List SOpt) : List Nat → List Res × Option (Int × Word)
  | [] => ([], none)
  | c :: cs =>
    match findShort opts c with
    | none => ((63, [45, c]) :: (cluster opts cs).1, (cluster opts cs).2)          -- unknown: '?' "-c", go on
    | some o =>
      if o.takesArg then
        if !cs.isEmpty then ([(letter c, cs)], none)                                -- attached value
        else if o.optional then ([(letter c, [])], none)
        else ([], some (letter c, [45, c]))                                         -- detached value
      else ((letter c, []) :: (cluster opts cs).1, (cluster opts cs).2)

/-- the result sequence for the words behind argv[0].  `pend` = an option waiting for its value. -/
def parse (opts : List SOpt) : Option (Int × Word) → List Word → List Res
  | none, [] => []
  | some (_, txt), [] => [(58, txt)]                                                -- ':' missing value
  | some (ch, _), v :: rest => (ch, v) :: parse opts none rest
  | none, w :: rest =>
    match w with
    | c0 :: c1 :: body =>
      if c0 = 45 then
        if c1 = 45 then
          if body.isEmpty then rest.map (fun x => (0, x))                           -- "--": the rest are non-options
          else
            match findLong opts (splitEq body).1 (splitEq body).2.isSome with
            | none => (63, w) :: parse opts none rest                               -- unknown: '?' with the word
            | some o =>
              if o.takesArg then
                match (splitEq body).2 with
                | some v => (o.character, v) :: parse opts none rest
                | none =>
                  if o.optional then (o.character, []) :: parse opts none rest
                  else parse opts (some (o.character, w)) rest
              else (o.character, []) :: parse opts none rest
        else (cluster opts (c1 :: body)).1 ++ parse opts (cluster opts (c1 :: body)).2 rest
      else (0, w) :: parse opts none rest                                           -- non-option
    | _ => (0, w) :: parse opts none rest                                           -- non-option "", "-", one character

def getopt (opts : List SOpt) (words : List Word) : List Res := parse opts none words

end Nstd.Args.Spec
