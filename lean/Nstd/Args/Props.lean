import Nstd.Args.LemmasExec
/-
  Property C20 -- theorems about the model of src/Process.cpp (Nstd/Args/Model.lean) and the
  specification (Nstd/Args/Spec.lean).  Bytes are natural numbers; 0 is the terminator,
  34 = '"', 92 = '\\', 32 = ' ', 61 = '=', 45 = '-'.
-/
namespace Nstd.Args
open Spec

/-! ### the command-line form: splitCommandLine -/

/-- for every command line (any bytes without NUL; `junk` = whatever follows the terminator in the
    buffer) the loops of splitCommandLine deliver exactly the words of the reference tokenizer -/
theorem split_spec (line junk : List Nat) (h : ∀ c ∈ line, c ≠ 0) :
    splitCommandLine (line ++ 0 :: junk) = .done (tokenize line) :=
  splitCommandLine_spec line junk h

/-- ... in particular the loops end (never `.fuel`: the obligation the unrepaired code, D34, violates
    for `"a\b"`) and never read outside the buffer (never `.fault`) -/
theorem split_terminates (line junk : List Nat) (h : ∀ c ∈ line, c ≠ 0) :
    splitCommandLine (line ++ 0 :: junk) ≠ .fuel ∧ splitCommandLine (line ++ 0 :: junk) ≠ .fault := by
  rw [split_spec line junk h]; exact ⟨by simp, by simp⟩

/-- the documented quoting rules are usable: a list of words written as double-quoted segments with
    `"` escaped as `\"`, separated by single blanks, is read back as exactly these words -- for all
    word lists whose words do not end in a backslash and whose last word is not empty (the two cases
    the quoting rules cannot express) -/
theorem split_roundtrip (ws : List Word) (junk : List Nat)
    (h0 : ∀ c ∈ joinWords ws, c ≠ 0) (hb : ∀ w ∈ ws, w.getLast? ≠ some 92) (hl : ws.getLast? ≠ some []) :
    splitCommandLine (joinWords ws ++ 0 :: junk) = .done ws := by
  rw [split_spec _ junk h0]; exact congrArg _ (tok_joinWords ws hb hl)

example : splitCommandLine ([101, 32, 34, 97, 92, 98, 34] ++ 0 :: [7]) = .done [[101], [97, 92, 98]] := by decide
example : splitCommandLine (joinWords [[97, 32, 98], [], [99, 34, 100]] ++ [0]) = .done [[97, 32, 98], [], [99, 34, 100]] := by decide

/-! ### what reaches execvpe -/

/-- `open(executable, List<String> args, streams, environment)` (and `open/start(executable, argc, argv, ...)` with
    a vector of non-null pointers): execvpe gets the executable as file and as argv[0], the given
    arguments behind it, the environment `key=value` in map order (the parent's if the map is empty), and
    exactly the requested pipes are created -/
theorem argv_env_exact (executable : Str) (args : List Str) (streams : Nat) (env : List (Str × Str)) :
    openList executable args streams env =
      some { file := executable, argv := executable :: args.drop 1,
             env := if env = [] then none else some (env.map (fun kv => kv.1 ++ [61] ++ kv.2)),
             pipes := streams % 8 } :=
  openArgv_plain executable args streams env

/-- a vector that already carries its terminating null pointer (the `argv[argc-1] == 0` shortcut) is passed on unchanged -/
theorem argv_env_exact_terminated (executable : Str) (args : List Str) (streams : Nat) (env : List (Str × Str)) :
    openArgv executable (args.length + 1) (args.map some ++ [none]) streams env =
      some { file := executable, argv := args,
             env := if env = [] then none else some (env.map (fun kv => kv.1 ++ [61] ++ kv.2)),
             pipes := streams % 8 } :=
  openArgv_terminated executable args streams env

/-- the command-line form: file = first word, argv = the words of the reference tokenizer
    (one empty word if there is none) -/
theorem argv_env_exact_command (line : Str) (h : ∀ c ∈ line, c ≠ 0) (streams : Nat) (env : List (Str × Str)) :
    openCommand line streams env =
      some { file := (tokenize line).headD [],
             argv := if tokenize line = [] then [[]] else tokenize line,
             env := if env = [] then none else some (env.map (fun kv => kv.1 ++ [61] ++ kv.2)),
             pipes := streams % 8 } := by
  unfold openCommand
  have := split_spec line [] h
  simp only [this]
  cases hw : tokenize line with
  | nil =>
    have := openArgv_terminated [] [[]] streams env
    simpa [execOf] using this
  | cons w ws =>
    have := openArgv_terminated w (w :: ws) streams env
    simpa [execOf] using this

example : openCommand [120, 32, 34, 97, 32, 98, 34] 5 [([75], [118])] =
    some { file := [120], argv := [[120], [97, 32, 98]], env := some [[75, 61, 118]], pipes := 5 } := by decide

end Nstd.Args
