import Nstd.Args.LemmasExec
import Nstd.Args.LemmasRead
import Nstd.Args.LemmasSpec
import Nstd.Args.LemmasKernel
/-
  Property C20 -- theorems about the model of src/Process.cpp (Nstd/Args/Model.lean) and the
  specification (Nstd/Args/Spec.lean).  Bytes are natural numbers; 0 is the terminator,
  34 = '"', 92 = '\\', 32 = ' ', 61 = '=', 45 = '-'.
-/
namespace Nstd.Args
open Spec

/-! ### Process::Arguments

  `opts` is the option table (specification view: names without terminator), `toModel` gives the
  table the C code sees (terminated name buffers).  `prog :: ws.map term` is the argument vector:
  argv[0] and one exactly sized block `w ++ [0]` per word.  `size ws` = number of characters plus
  number of words.  `readAll opts fuel st` is the caller's loop `while(arguments.read(c, a))`. -/

/-- for every option table and every argument vector the sequence of (character, argument)
    results delivered by `read` is the one the getopt conventions prescribe -/
theorem read_sequence_eq_getopt (opts : List SOpt) (hok : OptsOk opts) (prog : Buf) (ws : List Word)
    (hws : ∀ w ∈ ws, NoNul w) (fuel : Nat) (hf : size ws < fuel) :
    readAll (opts.map toModel) fuel (St.init (prog :: ws.map term)) = .ok (getopt opts ws) := by
  have := (readAll_spec opts hok fuel _ [] ws (Rel.init prog ws hws)).1 (by simpa using hf)
  simpa [cont, St.init, cluster, getopt] using this

/-- no call of `read` reads outside an argument string, an option name or the argv vector: the
    loop never faults, whatever number of calls is made -/
theorem read_no_oob (opts : List SOpt) (hok : OptsOk opts) (prog : Buf) (ws : List Word)
    (hws : ∀ w ∈ ws, NoNul w) (fuel : Nat) :
    readAll (opts.map toModel) fuel (St.init (prog :: ws.map term)) ≠ .fault :=
  (readAll_spec opts hok fuel _ [] ws (Rel.init prog ws hws)).2

/-- `read` returns false after at most `size ws` successful calls -/
theorem read_terminates (opts : List SOpt) (hok : OptsOk opts) (prog : Buf) (ws : List Word)
    (hws : ∀ w ∈ ws, NoNul w) :
    readAll (opts.map toModel) (size ws + 1) (St.init (prog :: ws.map term)) ≠ .fuel := by
  rw [read_sequence_eq_getopt opts hok prog ws hws _ (Nat.lt_succ_self _)]; simp

/-- `argc == 0` (no `argv[0]`; the constructor's `++argv` steps behind `argvEnd`): for every option table the first
    `read` returns false without touching a string -- the sequence is empty, as `getopt` of no words -/
theorem read_argc_zero (opts : List Opt) (fuel : Nat) :
    readAll opts (fuel + 1) (St.init []) = .ok (getopt [] []) ∧ read opts (St.init []) = some (none, St.init []) := by
  constructor <;> simp [readAll, read, nextChar, St.init, St.peek, St.buf, getopt, parse]

/-- every single call from a state reached between two reads (`Rel`) stays inside the strings,
    consumes at least one character or word, and continues the specified sequence -/
theorem read_step_refines (opts : List SOpt) (hok : OptsOk opts) {argv : List Buf} {st : St} {pending : List Nat}
    {rest : List Word} (h : Rel argv st pending rest) :
    (∃ st', read (opts.map toModel) st = some (none, st') ∧ cont opts st.skipOpt pending rest = []) ∨
    (∃ r st' pending' rest', read (opts.map toModel) st = some (some r, st') ∧ Rel argv st' pending' rest' ∧
       pending'.length + size rest' < pending.length + size rest ∧
       cont opts st.skipOpt pending rest = r :: cont opts st'.skipOpt pending' rest') :=
  read_step opts hok h

/-! sanity of the specification itself -/

/-- words that do not begin with `-` are returned in order as non-options -/
theorem getopt_plain_words (opts : List SOpt) (ws : List Word) (h : ∀ w ∈ ws, w.head? ≠ some 45) :
    getopt opts ws = ws.map (fun w => (0, w)) := by
  unfold getopt
  induction ws with
  | nil => simp [parse]
  | cons w ws ih =>
    have hw := h w (by simp)
    have ih' := ih (fun x hx => h x (by simp [hx]))
    cases w with
    | nil => simp [parse, ih']
    | cons c cs =>
      have hc : c ≠ 45 := by simpa using hw
      rw [parse_nonopt opts c cs ws hc, ih']; simp

/-- everything behind `--` is a non-option -/
theorem getopt_terminator (opts : List SOpt) (ws : List Word) :
    getopt opts ([45, 45] :: ws) = ws.map (fun w => (0, w)) := by
  simp [getopt, parse]

/-- the conventions are usable: a list of intended items -- flags `-c`, options with detached
    (`-c v`, `--name v`), attached (`-cv`) or `=` values (`--name=v`), long flags, positional words not
    beginning with `-` -- written as an argument vector in the way the option table allows (`Item.Valid`)
    is parsed back into exactly these items, for every option table and every such list -/
theorem getopt_roundtrip (opts : List SOpt) (items : List Item) (hv : ∀ it ∈ items, it.Valid opts) :
    getopt opts (items.flatMap Item.render) = items.map (Item.result opts) :=
  getopt_render opts items hv

-- the hypothesis of `read_step_refines` holds in the initial state of every well-formed argument vector
example : Rel ([112, 0] :: [[45, 97, 98], [118]].map term) (St.init ([112, 0] :: [[45, 97, 98], [118]].map term)) []
    [[45, 97, 98], [118]] :=
  Rel.init [112, 0] _ (by intro w hw; simp at hw; rcases hw with rfl | rfl <;> intro c hc <;> simp at hc <;> omega)

example : validName [78, 86, 84, 95, 65] = true := by decide

example : OptsOk exTable := by
  intro o ho n hn
  simp [exTable] at ho
  rcases ho with rfl | rfl | rfl | rfl <;> simp at hn <;> subst hn <;> intro c hc <;> simp at hc <;> omega

example : (Item.flag 97).Valid exTable ∧ (Item.shortDetached 111 [45, 120]).Valid exTable ∧
    (Item.longValue [111, 117, 116] [118]).Valid exTable ∧ (Item.longFlag [111, 112, 116]).Valid exTable :=
  ⟨⟨by decide, ⟨97, some [97, 108, 112, 104, 97], 0⟩, rfl, by decide⟩,
   ⟨by decide, ⟨111, some [111, 117, 116], 1⟩, rfl, by decide, by decide⟩,
   ⟨by decide, by decide, ⟨111, some [111, 117, 116], 1⟩, rfl⟩,
   ⟨by decide, by decide, ⟨112, some [111, 112, 116], 3⟩, rfl, Or.inr (by decide)⟩⟩

-- `-ab -ov -o v --out=v --opt -pv -z -- -a` and a missing value at the end
example : getopt exTable [[45, 97, 98], [45, 111, 118], [45, 111], [118], [45, 45, 111, 117, 116, 61, 118],
      [45, 45, 111, 112, 116], [45, 112, 118], [45, 122], [45, 45], [45, 97]] =
    [(97, []), (98, []), (111, [118]), (111, [118]), (111, [118]), (112, []), (112, [118]), (63, [45, 122]), (0, [45, 97])] := by
  decide
example : readAll (exTable.map toModel) 40 (St.init ([112, 0] :: [[45, 97, 98], [45, 45, 111, 117, 116]].map term)) =
    .ok [(97, []), (98, []), (58, [45, 45, 111, 117, 116])] := by decide

/-! ### the command-line form: splitCommandLine -/

/-- for every command line (any bytes without NUL; `junk` = whatever follows the terminator in the
    buffer) the loops of splitCommandLine deliver exactly the words of the reference tokenizer -/
theorem split_spec (line junk : List Nat) (h : ∀ c ∈ line, c ≠ 0) :
    splitCommandLine (line ++ 0 :: junk) = .done (tokenize line) :=
  splitCommandLine_spec line junk h

/-- the loops of splitCommandLine end on EVERY buffer, well-formed or not (never `.fuel`): the
    obligation the unrepaired code (D34) violates for `"a\b"` -/
theorem split_terminates (s : Buf) : splitCommandLine s ≠ .fuel :=
  splitCommandLine_ends s

/-- ... and on a terminated buffer they never read outside it -/
theorem split_no_oob (line junk : List Nat) (h : ∀ c ∈ line, c ≠ 0) :
    splitCommandLine (line ++ 0 :: junk) ≠ .fault := by
  rw [split_spec line junk h]; simp

/-- the documented quoting rules are usable: a list of words written as double-quoted segments with
    `"` escaped as `\"`, separated by single blanks, is read back as exactly these words -- for all
    word lists whose words do not end in a backslash and whose last word is not empty (the two cases
    the quoting rules cannot express) -/
theorem split_roundtrip (ws : List Word) (junk : List Nat)
    (h0 : ∀ c ∈ joinWords ws, c ≠ 0) (hb : ∀ w ∈ ws, w.getLast? ≠ some 92) (hl : ws.getLast? ≠ some []) :
    splitCommandLine (joinWords ws ++ 0 :: junk) = .done ws := by
  rw [split_spec _ junk h0]; exact congrArg _ (tok_joinWords ws hb hl)

/-- independent characterisation of the quoting rules by what they can express: EVERY argument vector (any
    NUL-free words, empty words anywhere, backslashes and quotes anywhere) is expressible -- write a blank as
    `" "`, a quote as `"\""`, every other character as itself, the empty word as `""`, and put a blank behind
    every word -- and is read back exactly -/
theorem split_expresses_every_vector (ws : List Word) (junk : List Nat) (h : ∀ w ∈ ws, ∀ c ∈ w, c ≠ 0) :
    splitCommandLine (joinTerminated ws ++ 0 :: junk) = .done ws := by
  rw [split_spec _ junk (joinTerminated_nonul ws h)]; exact congrArg _ (tok_joinTerminated ws)

/-- with single blanks only BETWEEN the words (the form the property speaks of) exactly the vectors whose last
    word is not empty are expressible (mixed quoting: also words ending in a backslash) ... -/
theorem split_separated_roundtrip (ws : List Word) (junk : List Nat) (h : ∀ w ∈ ws, ∀ c ∈ w, c ≠ 0)
    (hl : ws.getLast? ≠ some []) : splitCommandLine (joinSeparated ws ++ 0 :: junk) = .done ws := by
  rw [split_spec _ junk (joinSeparated_nonul ws h)]; exact congrArg _ (tok_joinSeparated ws hl)

-- ... observations (limitations of the quoting rules, not of the proof): without a blank behind it a trailing
-- empty word is dropped; a fully quoted word that ends in a backslash swallows its closing quote
example : splitCommandLine (joinSeparated [[97], []] ++ [0]) = .done [[97]] := by decide
example : splitCommandLine (joinWords [[97, 92], [98]] ++ [0]) = .done [[97, 34, 32, 98]] := by decide
example : splitCommandLine (joinSeparated [[97, 92], [98]] ++ [0]) = .done [[97, 92], [98]] := by decide
example : splitCommandLine (joinTerminated [[], [97, 32, 34, 92], []] ++ [0]) = .done [[], [97, 32, 34, 92], []] := by decide

example : splitCommandLine ([101, 32, 34, 97, 92, 98, 34] ++ 0 :: [7]) = .done [[101], [97, 92, 98]] := by decide
example : splitCommandLine (joinWords [[97, 32, 98], [], [99, 34, 100]] ++ [0]) = .done [[97, 32, 98], [], [99, 34, 100]] := by decide

/-! ### what reaches execvpe -/

/-- `open(executable, List<String> args, streams, environment)` (and `open/start(executable, argc, argv, ...)` with
    a vector of non-null pointers): execvpe gets the executable as file and as argv[0], the given
    arguments behind it, the environment `key=value` in map order (the parent's if the map is empty), and
    exactly the requested pipes are created -/
theorem argv_env_exact (executable : Str) (args : List Str) (streams : Nat) (env : List (Str × Str)) :
    openList executable args streams env =
      some { file := executable, argv := executable :: args.drop 1,
             env := if env = [] then none else some (env.map (fun kv => kv.1 ++ [61] ++ kv.2)),
             pipes := streams % 8 } :=
  openArgv_plain executable args streams env

/-- a vector that already carries its terminating null pointer (the `argv[argc-1] == 0` shortcut) is passed on unchanged -/
theorem argv_env_exact_terminated (executable : Str) (args : List Str) (streams : Nat) (env : List (Str × Str)) :
    openArgv executable (args.length + 1) (args.map some ++ [none]) streams env =
      some { file := executable, argv := args,
             env := if env = [] then none else some (env.map (fun kv => kv.1 ++ [61] ++ kv.2)),
             pipes := streams % 8 } :=
  openArgv_terminated executable args streams env

/-- the command-line form: file = first word, argv = the words of the reference tokenizer
    (one empty word if there is none) -/
theorem argv_env_exact_command (line : Str) (h : ∀ c ∈ line, c ≠ 0) (streams : Nat) (env : List (Str × Str)) :
    openCommand line streams env =
      some { file := (tokenize line).headD [],
             argv := if tokenize line = [] then [[]] else tokenize line,
             env := if env = [] then none else some (env.map (fun kv => kv.1 ++ [61] ++ kv.2)),
             pipes := streams % 8 } := by
  unfold openCommand
  have := split_spec line [] h
  simp only [this]
  cases hw : tokenize line with
  | nil =>
    have := openArgv_terminated [] [[]] streams env
    simpa [execOf] using this
  | cons w ws =>
    have := openArgv_terminated w (w :: ws) streams env
    simpa [execOf] using this

example : openCommand [120, 32, 34, 97, 32, 98, 34] 5 [([75], [118])] =
    some { file := [120], argv := [[120], [97, 32, 98]], env := some [[75, 61, 118]], pipes := 5 } := by decide


/-
  OPEN: (run-time half of C20 against the REAL kernel)
    "for every executable, argument list, environment and redirection mask: the started child observes
     argv = executable :: args.drop 1 and environ = the given environment, `join` returns the child's
     exit code, every byte the child writes to a redirected output stream is returned by `read` before
     end-of-file, and every byte given to `write` arrives on the child's stdin"
  Proved (everything an executable model of the kernel can express; the remaining assumption is exactly
  "Linux implements pipe/dup2/close/vfork/execvpe/waitpid/waitid as modelled in Kernel.lean, Pipes.lean, Wait.lean"):
   * `process_delivery_partial` -- what `open`/`start` hand to execvpe (file, argv vector, environment) and
     which pipes they request (argument and environment Strings are meant NUL-free: execvpe receives pointers to them);
   * `open_pipe_ends_exact` -- after the pipe/vfork/dup2/close sequence of `open()` the parent holds exactly
     its ends of the requested pipes and the child exactly the other ends as descriptors 0/1/2 (so end-of-file
     can arrive), over a descriptor-table model of pipe/dup2/close/vfork;
   * PropsRun.lean, for ARBITRARY parent and child programs (unconstrained system `Pipes.U`: any operation the kernel
     permits, any order, any data, any chunking, any schedule): `pipes_deliver_intact_any_programs_in_pipe_model` (on every
     pipe: bytes read ++ bytes queued = bytes written; capacity respected; nothing on a stream that is not redirected),
     `eof_is_complete_and_final_in_pipe_model` (end-of-file seen => everything ever written was read, and nothing can be
     written afterwards), `join_code_is_exit_code_any_programs_in_pipe_model` (what join stores is the exit code; 0 only
     for a child killed by SIGPIPE, which needs the parent to close a read end early);
   * PropsRun.lean, the documented parent protocol (write all / close stdin / read both streams to end-of-file / join)
     against an ARBITRARY child program over readIn n | readAll | writeOut d | writeErr d | closeIn | closeOut | closeErr:
     `protocol_delivers_any_child_program_in_pipe_model` (refines `U`; finite runs; no SIGPIPE; after join: exit code, exactly
     the child's stdout/stderr data in order, the whole payload if the child reads to end-of-file),
     `protocol_no_deadlock_any_child_program_in_pipe_model` (under `Fits`: the payload fits the pipe, or the child writes at
     most one pipe capacity per stream before it has read its input to the end -- an `example` shows the deadlock otherwise),
     `protocol_total_any_child_program_in_pipe_model` (step bound; stuck = joined with everything delivered; reachable);
   * `pipe_protocol_delivers_in_pipe_model`, `pipe_protocol_total_in_pipe_model`, `coded_calls_are_protocol_steps`,
     `coded_run_delivers_in_pipe_model` -- the older one-child-shape system `Sys` (the `@io` helper = the instance
     `[readAll, writeOut O, writeErr E]` of the general one) kept because `parentNext`/`childNext` tie it to the API calls
     as coded (buffer sizes, select order);
   * `join_returns_exit_code_in_pipe_model` -- `join()` as the action list it is coded as (close the stdin write end, waitpid,
     close the read ends) entered while the child still reads and writes: never SIGPIPE, the exit code is stored (outputs
     larger than the pipes with nobody reading block for ever: caller's protocol);
   * PropsWait.lean -- `Process::wait`/`interrupt`/`join`/`kill` over an assumed process table with pid reuse and a
     child-exit oracle: pid-reuse safety, every child reaped exactly once, wait returns a terminated listed child,
     interrupt wakes wait.
  All theorems named `*_in_pipe_model` and those of PropsWait.lean are about explicit kernel MODELS; they are
  assumption-level evidence, not a proof about Linux.
  Missing (and not provable here): that Linux behaves like these models, and that execvpe hands argv/envp
  unchanged to the new program.  That is what the correspondence streams `run`, `io`, `io2` (sizes around the real pipe
  capacity), `exit`, `late`, `sig`, `killbusy`, `execfail`, `p`, `killtest`, `fdtable` (descriptors of parent and child
  inspected through /proc), `w` (wait/interrupt with real children and a real interrupter thread) test.
-/
theorem process_delivery_partial (executable : Str) (args : List Str) (line : Str) (hl : ∀ c ∈ line, c ≠ 0)
    (streams : Nat) (env : List (Str × Str)) :
    openList executable args streams env =
      some { file := executable, argv := executable :: args.drop 1,
             env := if env = [] then none else some (env.map (fun kv => kv.1 ++ [61] ++ kv.2)),
             pipes := streams % 8 } ∧
    openCommand line streams env =
      some { file := (tokenize line).headD [],
             argv := if tokenize line = [] then [[]] else tokenize line,
             env := if env = [] then none else some (env.map (fun kv => kv.1 ++ [61] ++ kv.2)),
             pipes := streams % 8 } :=
  ⟨argv_env_exact executable args streams env, argv_env_exact_command line hl streams env⟩

open Kernel in
/-- descriptor discipline of `open()`: for every redirection mask, every base table without ends of the new
    pipes and every choice of fresh descriptors by `pipe()` -- the parent holds the read end of the stdout /
    stderr pipe exactly at `fdStdOutRead` / `fdStdErrRead` and the write end of the stdin pipe exactly at
    `fdStdInWrite` (= the descriptor `pipe()` returned, see the last three clauses) and no other end; the child holds the write ends exactly as descriptors 1 / 2 and the read
    end of the stdin pipe exactly as descriptor 0 and no other end; a stream that was not requested has no
    pipe and the member is 0 -/
theorem open_pipe_ends_exact (streams : Nat) (f : Fresh) (t : FdTable) (hf : f.Ok t) (ht : Plain t) :
    let r := openFds streams f t
    (∀ x, r.parent x = some (.rd 0) ↔ (Kernel.bit streams 1 = true ∧ x = f.outR)) ∧
    (∀ x, r.parent x = some (.rd 1) ↔ (Kernel.bit streams 2 = true ∧ x = f.errR)) ∧
    (∀ x, r.parent x = some (.wr 2) ↔ (Kernel.bit streams 4 = true ∧ x = f.inW)) ∧
    (∀ x, r.parent x ≠ some (.wr 0) ∧ r.parent x ≠ some (.wr 1) ∧ r.parent x ≠ some (.rd 2)) ∧
    (∀ x, r.child x = some (.wr 0) ↔ (Kernel.bit streams 1 = true ∧ x = 1)) ∧
    (∀ x, r.child x = some (.wr 1) ↔ (Kernel.bit streams 2 = true ∧ x = 2)) ∧
    (∀ x, r.child x = some (.rd 2) ↔ (Kernel.bit streams 4 = true ∧ x = 0)) ∧
    (∀ x, r.child x ≠ some (.rd 0) ∧ r.child x ≠ some (.rd 1) ∧ r.child x ≠ some (.wr 2)) ∧
    r.fdStdOutRead = (if Kernel.bit streams 1 then f.outR else 0) ∧
    r.fdStdErrRead = (if Kernel.bit streams 2 then f.errR else 0) ∧
    r.fdStdInWrite = (if Kernel.bit streams 4 then f.inW else 0) := by
  exact openFds_ends streams f t hf ht

open Kernel in
/-- when vfork fails, `open()` closes every pipe end it created: the descriptor table is what it was
    (the repaired `goto error`; the unrepaired code left up to six descriptors open) -/
theorem open_failure_restores_table (streams : Nat) (f : Fresh) (t : FdTable) (hf : f.Ok t) :
    ∀ x, openFdsFailed streams f t x = t x :=
  openFdsFailed_restores streams f t hf

open Kernel in
/-- PROTOCOL-LEVEL (abstract pipe model, one usage protocol against one child shape; see the OPEN block):
    delivery over the abstract pipe model: from the initial state (payload `P` to write, child data `O`
    for stdout and `E` for stderr, exit code `c`, pipe capacity `cap >= 1`) every reachable state `s`, whatever
    the scheduler and the sizes of partial transfers were,
    (1) can take another step unless `join` has returned (no deadlock),
    (2) has a smaller measure than its predecessor (every run is finite), and
    (3) once `join` has returned: the child has read exactly `P`, the parent has read exactly `O` and `E`
        before end-of-file, and `join` delivered `c` -/
theorem pipe_protocol_delivers_in_pipe_model (cap : Nat) (hcap : 0 < cap) (P O E : List Nat) (c : Nat) (s : Sys)
    (h : Reach (Sys.init cap P O E c) s) :
    (s.pPhase ≠ .joined → ∃ s', Step s s') ∧
    (∀ s', Step s s' → s'.measure < s.measure) ∧
    (s.pPhase = .joined → s.gotIn = P ∧ s.gotOut = O ∧ s.gotErr = E ∧ s.code = some c) :=
  ⟨progress (Inv.reach h) hcap, fun _ hs => step_decreases hs, delivered (Inv.reach h)⟩

open Kernel in
/-- tie of the protocol system to the API calls as coded: the moves of the parent derived from `Process::write`
    (one `::write`: what fits, blocking on a full pipe), `close(stdinStream)`, `Process::read(buf, len, streams)`
    (select; stdout before stderr; 0 = end-of-file) and `join` in the order the harness calls them, and the moves of
    the `@io` child derived from its `read`/`write` loops (`parentNext`, `childNext`, buffer size `len`), are steps
    of the protocol system -- so everything proved for all schedules of `Step` holds for the coded pair -/
theorem coded_calls_are_protocol_steps (len : Nat) (hlen : 0 < len) (s s' : Sys) :
    (parentNext len s = some s' → Step s s') ∧ (childNext len s = some s' → Step s s') :=
  ⟨parentNext_step hlen, childNext_step hlen⟩

open Kernel in
/-- PROTOCOL-LEVEL: whatever order a scheduler lets the coded parent and the coded child move in (`sched`, blocked
    moves are skipped), once the parent's `join` has returned everything is delivered -/
theorem coded_run_delivers_in_pipe_model (cap len : Nat) (hlen : 0 < len) (P O E : List Nat) (c : Nat) (sched : List Bool) :
    let s := runCoded len sched (Sys.init cap P O E c)
    s.pPhase = .joined → s.gotIn = P ∧ s.gotOut = O ∧ s.gotErr = E ∧ s.code = some c := by
  intro s
  exact delivered (Inv.reach (runCoded_reach hlen sched .init))

-- a concrete run: capacity 2, buffer 3, strictly alternating scheduler, 60 moves: join has returned
example : (Kernel.runCoded 3 ((List.range 60).map (· % 2 == 0)) (Kernel.Sys.init 2 [1, 2, 3, 4, 5] [6, 7, 8] [9] 4)).pPhase = .joined := by
  decide

open Kernel in
/-- PROTOCOL-LEVEL (abstract pipe model): total correctness in the pipe model: a run of `n` steps has `n <= 2|P| + 2|O| + 2|E| + 7`, and a state in
    which no step is possible is one in which `join` has returned with everything delivered -/
theorem pipe_protocol_total_in_pipe_model (cap : Nat) (hcap : 0 < cap) (P O E : List Nat) (c : Nat) (n : Nat) (s : Sys)
    (h : ReachN (Sys.init cap P O E c) n s) :
    n ≤ 2 * P.length + 2 * O.length + 2 * E.length + 7 ∧
    ((∀ s', ¬ Step s s') → s.pPhase = .joined ∧ s.gotIn = P ∧ s.gotOut = O ∧ s.gotErr = E ∧ s.code = some c) := by
  refine ⟨?_, fun hstuck => ?_⟩
  · have := h.bound
    simp [Sys.measure, Sys.init, pRank, cRank, b2n] at this
    omega
  · have hr := h.reach
    have hd := pipe_protocol_delivers_in_pipe_model cap hcap P O E c s hr
    have hj : s.pPhase = .joined := by
      cases hp : s.pPhase with
      | joined => rfl
      | writing => obtain ⟨s', hs'⟩ := hd.1 (by simp [hp]); exact absurd hs' (hstuck s')
      | draining => obtain ⟨s', hs'⟩ := hd.1 (by simp [hp]); exact absurd hs' (hstuck s')
    exact ⟨hj, hd.2.2 hj⟩

open Kernel in
/-- PROTOCOL-LEVEL (abstract pipe model, see the OPEN block): `join()` entered while the child still reads its
    input and is still going to write, nobody reading (also the destructor).  With `join()` as coded
    (`joinProgram`: close the stdin write end, waitpid, then close the read ends; closing an end that is not
    held does nothing), for every pipe capacity, whichever pipe ends the Process object holds (`inp/out/err`),
    every input `I` already written, a child that reads its stdin to the end or not at all (`reads`), all child
    outputs that fit into the pipes and go to redirected streams only, every exit code and every schedule:
    some step is possible until `join()` has returned, every step decreases a measure, the child is never hit
    by SIGPIPE, and when `join()` has returned it stored the child's exit code and the child ran to completion
    (it has read all of `I`, all its output is in the pipes) -/
theorem join_returns_exit_code_in_pipe_model (cap : Nat) (inp out err reads : Bool) (I O E : List Nat)
    (hI : reads = false → I = []) (hout : out = false → O = []) (herr : err = false → E = [])
    (hO : O.length ≤ cap) (hE : E.length ≤ cap) (c : Nat)
    (s : SysJ) (h : ReachJ (SysJ.init cap joinProgram inp out err reads I O E c) s) :
    (s.prog ≠ [] → ∃ s', StepJ s s') ∧
    (∀ s', StepJ s s' → s'.measure < s.measure) ∧
    s.cPhase ≠ .signalled ∧
    (s.prog = [] → s.reaped = some c ∧ s.cPhase = .exited ∧ s.gotIn = I ∧ s.outQ = O ∧ s.errQ = E) :=
  ⟨progressJ (InvJ.reach hI hout herr h) hO hE, fun _ hs => stepJ_decreases hs, (InvJ.reach hI hout herr h).not_sig,
    joinedJ (InvJ.reach hI hout herr h)⟩

open Kernel in
/-- the action list of `join()` leaves no descriptor member set: it agrees with `Proc.step .join` of the
    Process-object model (`Proc.init` = no pid, no descriptors) -/
theorem join_actions_match_process_object (p : Proc) (h : p.running = true) :
    actsOnFlags joinProgram (p.out, p.err, p.inp) = ((p.step .join).1.out, (p.step .join).1.err, (p.step .join).1.inp) := by
  obtain ⟨r, o, e, i⟩ := p
  simp at h; subst h
  cases o <;> cases e <;> cases i <;> rfl

-- the order of the actions inside join() matters in both directions:
-- (1) the read ends closed BEFORE waitpid (seeded change C20-4): there is a schedule in which the child is
--     terminated by SIGPIPE and join() stores 0 instead of the exit code 7
open Kernel in
example : ∃ s, ReachJ (SysJ.init 8 [.closeOut, .closeErr, .closeIn, .wait] true true true false [] [104] [] 7) s ∧
    s.prog = [] ∧ s.cPhase = .signalled ∧ s.reaped = some 0 :=
  ⟨_, .step (.step (.step (.step (.step .init (.pCloseOut _ _ rfl)) (.cPipeOut _ rfl rfl (by decide)))
      (.pCloseErr _ _ rfl)) (.pCloseIn _ _ rfl)) (.pWaitSignalled _ _ rfl rfl), rfl, rfl, rfl⟩
-- (2) the stdin write end closed only AFTER waitpid (the code before fixes/args/0008): with a child that reads its
--     input to the end nothing can move in the very first state -- join() never returns
open Kernel in
example : ∀ s', ¬ StepJ (SysJ.init 8 [.wait, .closeOut, .closeErr, .closeIn] true true true true [] [104] [] 7) s' := by
  intro s' h
  cases h <;> simp_all [SysJ.init]

-- the executable schedule used by the driver agrees: as coded 7; read ends closed first 0; stdin closed last: never
example : (Kernel.SysJ.exec 64 (Kernel.SysJ.init 8 Kernel.joinProgram true true true true [1, 2] [104] [105] 7)) = (some 7, true) := by
  decide
example : (Kernel.SysJ.exec 64 (Kernel.SysJ.init 8 [.closeOut, .closeErr, .closeIn, .wait] true true true false [] [104] [105] 7))
    = (some 0, false) := by decide
example : (Kernel.SysJ.exec 64 (Kernel.SysJ.init 8 [.wait, .closeOut, .closeErr, .closeIn] true true true true [1] [104] [] 7))
    = (none, false) := by decide

-- the hypotheses are satisfiable: descriptors 3..8 on a table with 0, 1, 2; a three-step run
example : (Kernel.Fresh.mk 3 4 5 6 7 8).Ok (fun x => if x < 3 then some (.other x) else none) := by
  refine ⟨by decide, ?_⟩
  intro x hx
  simp at hx
  rcases hx with rfl | rfl | rfl | rfl | rfl | rfl <;> simp
example : Kernel.Plain (fun x => if x < 3 then some (.other x) else none) := by
  intro x p; by_cases h : x < 3 <;> simp [h]
example : Kernel.Reach (Kernel.Sys.init 1 [7] [] [] 0)
    { Kernel.Sys.init 1 [7] [] [] 0 with inQ := [] ++ [7].take 1, toSend := [7].drop 1 } :=
  .step .init (Kernel.Step.pWrite _ 1 rfl (by decide) (by decide) (by decide))

/-! ### environment of the own process (auxiliary: properties of a hand abstraction, not evidence for the delivery clauses) -/

/-- set / remove / look up: a variable that was set to a non-empty value is read back, a variable
    that was removed (empty value) yields the default and the removal reports success, other
    variables are not affected; invalid names (empty, containing `=`) are refused and change nothing
    (what a look-up of an invalid name answers is left to the C library and not claimed) -/
theorem env_set_get (e : PEnv) (k v d : Str) (hk : validName k = true) :
    (setEnvironmentVariable e k v).2 = true ∧
    getEnvironmentVariable (setEnvironmentVariable e k v).1 k d = (if v.isEmpty then d else v) ∧
    (∀ k', validName k' = true → k' ≠ k →
      getEnvironmentVariable (setEnvironmentVariable e k v).1 k' d = getEnvironmentVariable e k' d) := by
  have hrem := find_envRemove k e
  unfold setEnvironmentVariable getEnvironmentVariable
  simp only [hk, Bool.not_true, Bool.false_eq_true, if_false]
  by_cases hv : v.isEmpty = true
  · simp only [hv, if_true, hrem, if_true]
    refine ⟨trivial, trivial, ?_⟩
    intro k' _ hk'; simp [hk']
  · simp only [hv, if_false, Bool.false_eq_true]
    refine ⟨trivial, by simp, ?_⟩
    intro k' _ hk'
    have : (k == k') = false := by simp; exact fun h => hk' h.symm
    simp [List.find?, this, hrem, hk']

theorem env_invalid_name (e : PEnv) (k v : Str) (hk : validName k = false) :
    setEnvironmentVariable e k v = (e, false) := by
  simp [setEnvironmentVariable, hk]

example : getEnvironmentVariable (setEnvironmentVariable (setEnvironmentVariable [] [65] [49]).1 [65] []).1 [65] [100] = [100] := by
  decide

/-! ### the Process object: pid and descriptors with 0 = closed (auxiliary: a 4-flag abstraction; kernel calls assumed to
    succeed, the waitpid-failure path of join is not represented) -/

/-- after every history of calls on a Process object: when no child is running (pid = 0) no pipe
    descriptor is held any more -/
theorem proc_idle_holds_no_pipe (ops : List POp) :
    (Proc.init.run ops).running = false →
      (Proc.init.run ops).out = false ∧ (Proc.init.run ops).err = false ∧ (Proc.init.run ops).inp = false := by
  have inv : ∀ (ops : List POp) (s : Proc), (s.running = false → s.out = false ∧ s.err = false ∧ s.inp = false) →
      ((s.run ops).running = false → (s.run ops).out = false ∧ (s.run ops).err = false ∧ (s.run ops).inp = false) := by
    intro ops
    induction ops with
    | nil => intro s h; exact h
    | cons op ops ih =>
      intro s h
      apply ih
      obtain ⟨r, o, e, i⟩ := s
      cases op <;> cases r <;> simp_all [Proc.step, Proc.init]
  exact inv ops Proc.init (by simp [Proc.init])

/-- start/open on an object whose child has not been joined fail and change nothing; join/kill
    without a child fail; join/kill with a child succeed and leave the initial state -/
theorem proc_start_join_rules (s : Proc) (m : Nat) :
    (s.running = true → s.step .start = (s, false) ∧ s.step (.openp m) = (s, false) ∧
        s.step .join = (Proc.init, true) ∧ s.step .kill = (Proc.init, true)) ∧
    (s.running = false → s.step .join = (s, false) ∧ s.step .kill = (s, false) ∧
        s.step (.openp m) = (⟨true, bit m 1, bit m 2, bit m 4⟩, true)) := by
  obtain ⟨r, o, e, i⟩ := s
  cases r <;> simp [Proc.step]

/-- failure returns: `start` while vfork fails changes nothing (the object stays idle); `join` while `waitpid` fails (EINTR)
    returns false, has closed the stdin end, keeps pid and read ends -- the object is still joinable and the next successful
    `join` (or `kill`) leaves no descriptor behind -/
theorem proc_failed_calls_keep_the_object_consistent (s : Proc) :
    s.step .startFailed = (s, false) ∧
    (s.running = true → s.step .joinFailed = ({ s with inp := false }, false) ∧
        (s.step .joinFailed).1.step .join = (Proc.init, true) ∧ (s.step .joinFailed).1.step .kill = (Proc.init, true)) ∧
    (s.running = false → s.step .joinFailed = (s, false)) := by
  obtain ⟨r, o, e, i⟩ := s
  cases r <;> simp [Proc.step]

example : (Proc.init.run [.openp 5, .close 4, .isRunning]) = ⟨true, true, false, false⟩ := by decide

end Nstd.Args
