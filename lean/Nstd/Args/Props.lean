import Nstd.Args.Model
namespace Nstd.Args
theorem placeholder : splitCommandLine [0] = .done [] := by decide
end Nstd.Args
