/-
  Model of `Process::wait(Process** processes, usize count)` / `Process::interrupt()` (Process.cpp:1214-1366,
  POSIX branch) together with the calls that create and reap children (`start`/`open`, `join`, `kill`) and an
  ASSUMED kernel side: a process table with nondeterministic pid allocation (a pid may be REUSED as soon as its
  child has been reaped), a nondeterministic child-exit oracle, `waitpid` (reaps a terminated child),
  `waitid(P_ALL, WEXITED | WNOWAIT)` (reports SOME terminated child without reaping it, blocks while there are
  children but none has terminated, fails with ECHILD when there are no children) and `vfork` + `_exit(0)` in the
  child (the parent continues when the child has terminated: the dummy child of `interrupt()` is a zombie when
  `vfork` returns).

  Threads: ONE owner thread that calls start/join/kill/wait on its Process objects (the calls of `wait` are
  split at the points where the mutex is not held), any number of threads calling `interrupt()` (atomic: the
  mutex is held for the whole call), the child-exit oracle.

  Ghost state (not in the code): every child carries a unique serial number `cid`; a Process object remembers the
  serial number of the child it created; `mismatch` records that a `waitpid`/`kill` hit a child other than the one
  the caller created (the pid-reuse hazard); `reaped` lists the serial numbers in the order they were reaped.
  Core Lean only.
-/
namespace Nstd.Args.Wait

def upd {β : Type} (f : Nat → β) (a : Nat) (b : β) : Nat → β := fun x => if x = a then b else f x

/-- `ProcessFramework::signaled`: 0, -1 (interrupt pending) or the pid of the dummy child made by `interrupt()` -/
inductive Sig where
  | zero | minus | pid (p : Nat)
  deriving Repr, DecidableEq

/-- where the owner thread stands inside `Process::wait` -/
inductive Pc where
  | idle                                   -- not inside wait
  | entry (list : List Nat)                -- wait(list) called; before `pthread_mutex_lock` / `switch(signaled)`
  | cond                                   -- count == 0: inside `pthread_cond_wait` (waitState = 1)
  | inWaitid (list : List Nat)             -- mutex released; inside `waitid(P_ALL, 0, &info, WEXITED | WNOWAIT)`
  | post (list : List Nat) (pid : Nat)     -- waitid reported `pid`; before the scan of the list
  deriving Repr, DecidableEq

/-- why the last `wait` returned what it returned (ghost) -/
inductive Why where
  | none | listed | interrupted | foreign | nochild
  deriving Repr, DecidableEq

structure St where
  -- kernel: pid ↦ (serial number, none = running | some status = terminated, not reaped)
  procs : Nat → Option (Nat × Option Nat)
  pids : List Nat                          -- every pid handed out so far (finite support of `procs`)
  nextCid : Nat
  -- Process objects: index ↦ (pid member, ghost serial number)
  objs : Nat → Nat × Nat
  -- ProcessFramework
  sig : Sig
  waitState : Nat
  -- owner thread
  pc : Pc
  lastRet : Option Nat                     -- what the last completed wait returned (index of the object)
  why : Why
  -- ghost
  dcid : Nat                               -- serial number of the dummy child while `sig = .pid _`
  reaped : List Nat
  mismatch : Bool

def St.init : St :=
  { procs := fun _ => none, pids := [], nextCid := 0, objs := fun _ => (0, 0), sig := .zero, waitState := 0,
    pc := .idle, lastRet := none, why := .none, dcid := 0, reaped := [], mismatch := false }

def St.noChildren (s : St) : Bool := s.pids.all (fun p => (s.procs p).isNone)

/-- the scan `for(...; processes < end; ++processes) if(pid == (*processes)->pid) return *processes;` -/
def findListed (objs : Nat → Nat × Nat) (pid : Nat) : List Nat → Option Nat
  | [] => none
  | i :: r => if (objs i).1 = pid then some i else findListed objs pid r

/-! ### the calls, as functions (`none` = the call is not enabled: it blocks, or its precondition fails) -/

/-- `start`/`open` on object `i` while `pid == 0`; the kernel hands out the unused pid `p` -/
def start (s : St) (i p : Nat) : Option St :=
  if s.pc = .idle ∧ (s.objs i).1 = 0 ∧ p ≠ 0 ∧ s.procs p = none then
    some { s with procs := upd s.procs p (some (s.nextCid, none)), pids := p :: s.pids, nextCid := s.nextCid + 1,
                  objs := upd s.objs i (p, s.nextCid) }
  else none

/-- the child-exit oracle: the running child with pid `p` terminates with `WEXITSTATUS` `st` -/
def childExit (s : St) (p st : Nat) : Option St :=
  match s.procs p with
  | some (c, none) => some { s with procs := upd s.procs p (some (c, some st)) }
  | _ => none

/-- `join()` on object `i`: `waitpid(pid)` blocks until the child has terminated, reaps it, `pid = 0`.
    Returns the state and the exit code delivered. -/
def join (s : St) (i : Nat) : Option (St × Nat) :=
  if s.pc = .idle ∧ (s.objs i).1 ≠ 0 then
    match s.procs (s.objs i).1 with
    | some (c, some st) =>
      some ({ s with procs := upd s.procs (s.objs i).1 none, objs := upd s.objs i (0, 0), reaped := c :: s.reaped,
                     mismatch := s.mismatch || (c != (s.objs i).2) }, st)
    | _ => none
  else none

/-- `kill()` on object `i`: SIGKILL, `waitpid(pid)`, `pid = 0` -/
def kill (s : St) (i : Nat) : Option St :=
  if s.pc = .idle ∧ (s.objs i).1 ≠ 0 then
    match s.procs (s.objs i).1 with
    | some (c, _) =>
      some { s with procs := upd s.procs (s.objs i).1 none, objs := upd s.objs i (0, 0), reaped := c :: s.reaped,
                    mismatch := s.mismatch || (c != (s.objs i).2) }
    | none => none
  else none

/-- `Process::interrupt()` (atomic); `p` = the pid the kernel gives the dummy child if one is made -/
def interrupt (s : St) (p : Nat) : Option St :=
  match s.sig with
  | .zero =>
    if s.waitState = 2 then
      if p ≠ 0 ∧ s.procs p = none then
        some { s with procs := upd s.procs p (some (s.nextCid, some 0)), pids := p :: s.pids, nextCid := s.nextCid + 1,
                      sig := .pid p, dcid := s.nextCid }
      else none
    else some { s with sig := .minus }
  | _ => some s

/-- `wait(list)` is called -/
def waitCall (s : St) (list : List Nat) : Option St :=
  if s.pc = .idle then some { s with pc := .entry list } else none

/-- reap the dummy child: `waitpid(signaled, &status, 0); if(pid == signaled) signaled = 0;` -/
def reapDummy (s : St) (p : Nat) : St :=
  match s.procs p with
  | some (c, some _) =>
    { s with procs := upd s.procs p none, sig := .zero, reaped := c :: s.reaped, mismatch := s.mismatch || (c != s.dcid) }
  | _ => { s with mismatch := true }        -- waitpid on a pid that is not a terminated child of ours

/-- one step of the owner thread inside `wait`; `pick` = the terminated child `waitid` reports -/
def waiterStep (s : St) (pick : Nat) : Option St :=
  match s.pc with
  | .idle => none
  | .entry list =>
    match s.sig with
    | .zero =>
      if list.isEmpty then some { s with waitState := 1, pc := .cond }
      else some { s with waitState := 2, pc := .inWaitid list }
    | .minus => some { s with sig := .zero, pc := .idle, lastRet := none, why := .interrupted }
    | .pid p => some { reapDummy s p with waitState := 0, pc := .idle, lastRet := none, why := .interrupted }
  | .cond =>
    if s.sig ≠ .zero then some { s with sig := .zero, waitState := 0, pc := .idle, lastRet := none, why := .interrupted }
    else none
  | .inWaitid list =>
    if s.noChildren then some { s with pc := .idle, lastRet := none, why := .nochild }     -- ret == -1 (ECHILD)
    else
      match s.procs pick with
      | some (_, some _) => some { s with pc := .post list pick }
      | _ => none
  | .post list pid =>
    match findListed s.objs pid list with
    | some i => some { s with pc := .idle, lastRet := some i, why := .listed }
    | none =>
      if s.sig = .pid pid then
        some { reapDummy s pid with waitState := 0, pc := .idle, lastRet := none, why := .interrupted }
      else some { s with waitState := 0, pc := .idle, lastRet := none, why := .foreign }

/-! ### the transition system: any interleaving of owner calls, interrupts and child exits -/

inductive Step : St → St → Prop where
  | start {s s' : St} (i p : Nat) : start s i p = some s' → Step s s'
  | childExit {s s' : St} (p st : Nat) : childExit s p st = some s' → Step s s'
  | join {s s' : St} (i c : Nat) : join s i = some (s', c) → Step s s'
  | kill {s s' : St} (i : Nat) : kill s i = some s' → Step s s'
  | interrupt {s s' : St} (p : Nat) : interrupt s p = some s' → Step s s'
  | waitCall {s s' : St} (list : List Nat) : waitCall s list = some s' → Step s s'
  | waiter {s s' : St} (pick : Nat) : waiterStep s pick = some s' → Step s s'

inductive Reach : St → Prop where
  | init : Reach St.init
  | step {s s' : St} : Reach s → Step s s' → Reach s'

/-- steps the owner thread still has to make inside `wait` -/
def pcRank : Pc → Nat
  | .idle => 0 | .entry _ => 3 | .cond => 1 | .inWaitid _ => 2 | .post _ _ => 1

/-- a complete call `wait(list)` for the driver: `picks` = what `waitid` reports when it is reached.
    `none` = the call blocks (nothing has terminated, no interrupt pending). -/
def waitRun (s : St) (list : List Nat) (pick : Nat) : Option St :=
  match waitCall s list with
  | none => none
  | some s1 =>
    match waiterStep s1 pick with
    | none => none
    | some s2 =>
      if s2.pc = .idle then some s2
      else
        match waiterStep s2 pick with
        | none => none
        | some s3 =>
          if s3.pc = .idle then some s3 else waiterStep s3 pick

end Nstd.Args.Wait
