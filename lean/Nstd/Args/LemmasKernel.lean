import Nstd.Args.Kernel
namespace Nstd.Args.Kernel

theorem close_apply (fd : Nat) (t : FdTable) (x : Nat) : close fd t x = if x = fd then none else t x := rfl
theorem dup2_apply (o n : Nat) (t : FdTable) (x : Nat) : dup2 o n t x = if x = n then t o else t x := rfl
theorem mkPipe_apply (p r w : Nat) (t : FdTable) (x : Nat) :
    mkPipe p r w t x = if x = r then some (.rd p) else if x = w then some (.wr p) else t x := rfl
theorem closeIf_apply (fd : Nat) (t : FdTable) (x : Nat) :
    closeIf fd t x = if fd ≠ 0 then (if x = fd then none else t x) else t x := by
  unfold closeIf; split <;> simp [close_apply]
theorem dupCloseIf_apply (fd std : Nat) (t : FdTable) (x : Nat) :
    dupCloseIf fd std t x = if fd ≠ 0 then (if x = fd then none else if x = std then t fd else t x) else t x := by
  unfold dupCloseIf; split <;> simp [close_apply, dup2_apply]

/-- the parent's table after `open`: the base table plus exactly its ends of the requested pipes -/
theorem openFds_parent (streams : Nat) (f : Fresh) (t : FdTable) (h : f.Ok t) (x : Nat) :
    (openFds streams f t).parent x =
      if bit streams 1 = true ∧ x = f.outR then some (.rd 0)
      else if bit streams 2 = true ∧ x = f.errR then some (.rd 1)
      else if bit streams 4 = true ∧ x = f.inW then some (.wr 2)
      else t x := by
  obtain ⟨hp, hx⟩ := h
  simp only [List.pairwise_cons, List.mem_cons, List.not_mem_nil, or_false, forall_eq_or_imp, forall_eq] at hp hx
  unfold openFds createPipes
  cases bit streams 1 <;> cases bit streams 2 <;> cases bit streams 4 <;>
    simp only [closeIf_apply, mkPipe_apply, Bool.false_eq_true, if_false, if_true, false_and, true_and] <;> grind

/-- the child's table at `execvpe`: the base table with the requested standard descriptors
    replaced by its ends of the pipes, and nothing else of the pipes -/
theorem openFds_child (streams : Nat) (f : Fresh) (t : FdTable) (h : f.Ok t) (x : Nat) :
    (openFds streams f t).child x =
      if bit streams 4 = true ∧ x = 0 then some (.rd 2)
      else if bit streams 1 = true ∧ x = 1 then some (.wr 0)
      else if bit streams 2 = true ∧ x = 2 then some (.wr 1)
      else t x := by
  obtain ⟨hp, hx⟩ := h
  simp only [List.pairwise_cons, List.mem_cons, List.not_mem_nil, or_false, forall_eq_or_imp, forall_eq] at hp hx
  unfold openFds createPipes
  cases bit streams 1 <;> cases bit streams 2 <;> cases bit streams 4 <;>
    simp only [closeIf_apply, dupCloseIf_apply, mkPipe_apply, Bool.false_eq_true, if_false, if_true, false_and, true_and] <;> grind


theorem closeBothIf_apply (p : Nat × Nat) (t : FdTable) (x : Nat) :
    closeBothIf p t x = if p.1 ≠ 0 then (if x = p.2 then none else if x = p.1 then none else t x) else t x := by
  unfold closeBothIf; split <;> simp [close_apply]

/-- a failed `open` leaves the descriptor table as it was -/
theorem openFdsFailed_restores (streams : Nat) (f : Fresh) (t : FdTable) (h : f.Ok t) (x : Nat) :
    openFdsFailed streams f t x = t x := by
  obtain ⟨hp, hx⟩ := h
  simp only [List.pairwise_cons, List.mem_cons, List.not_mem_nil, or_false, forall_eq_or_imp, forall_eq] at hp hx
  unfold openFdsFailed createPipes
  cases bit streams 1 <;> cases bit streams 2 <;> cases bit streams 4 <;>
    simp only [closeBothIf_apply, mkPipe_apply, Bool.false_eq_true, if_false, if_true] <;> grind

theorem openFds_fields (streams : Nat) (f : Fresh) (t : FdTable) :
    (openFds streams f t).fdStdOutRead = (if bit streams 1 then f.outR else 0) ∧
    (openFds streams f t).fdStdErrRead = (if bit streams 2 then f.errR else 0) ∧
    (openFds streams f t).fdStdInWrite = (if bit streams 4 then f.inW else 0) := by
  simp only [openFds, createPipes]
  cases bit streams 1 <;> cases bit streams 2 <;> cases bit streams 4 <;> simp

theorem ends_expr (b1 b2 b4 : Bool) (x a1 a2 a3 : Nat) (o1 o2 o3 : Obj) (tx : Option Obj)
    (d12 : a1 ≠ a2) (d13 : a1 ≠ a3) (d23 : a2 ≠ a3) (n12 : o1 ≠ o2) (n13 : o1 ≠ o3) (n23 : o2 ≠ o3)
    (t1 : tx ≠ some o1) (t2 : tx ≠ some o2) (t3 : tx ≠ some o3) :
    let v := if b1 = true ∧ x = a1 then some o1 else if b2 = true ∧ x = a2 then some o2
             else if b4 = true ∧ x = a3 then some o3 else tx
    (v = some o1 ↔ (b1 = true ∧ x = a1)) ∧ (v = some o2 ↔ (b2 = true ∧ x = a2)) ∧ (v = some o3 ↔ (b4 = true ∧ x = a3)) := by
  intro v
  have n21 := Ne.symm n12
  have n31 := Ne.symm n13
  have n32 := Ne.symm n23
  cases b1 <;> cases b2 <;> cases b4 <;>
    by_cases e1 : x = a1 <;> by_cases e2 : x = a2 <;> by_cases e3 : x = a3 <;> simp_all [v]

theorem ends_expr_ne (b1 b2 b4 : Bool) (x a1 a2 a3 : Nat) (o1 o2 o3 o : Obj) (tx : Option Obj)
    (n1 : o ≠ o1) (n2 : o ≠ o2) (n3 : o ≠ o3) (t : tx ≠ some o) :
    (if b1 = true ∧ x = a1 then some o1 else if b2 = true ∧ x = a2 then some o2
       else if b4 = true ∧ x = a3 then some o3 else tx) ≠ some o := by
  split
  · simpa using fun e => n1 e.symm
  · split
    · simpa using fun e => n2 e.symm
    · split
      · simpa using fun e => n3 e.symm
      · exact t

theorem openFds_ends (streams : Nat) (f : Fresh) (t : FdTable) (hf : f.Ok t) (ht : Plain t) :
    let r := openFds streams f t
    (∀ x, r.parent x = some (.rd 0) ↔ (bit streams 1 = true ∧ x = f.outR)) ∧
    (∀ x, r.parent x = some (.rd 1) ↔ (bit streams 2 = true ∧ x = f.errR)) ∧
    (∀ x, r.parent x = some (.wr 2) ↔ (bit streams 4 = true ∧ x = f.inW)) ∧
    (∀ x, r.parent x ≠ some (.wr 0) ∧ r.parent x ≠ some (.wr 1) ∧ r.parent x ≠ some (.rd 2)) ∧
    (∀ x, r.child x = some (.wr 0) ↔ (bit streams 1 = true ∧ x = 1)) ∧
    (∀ x, r.child x = some (.wr 1) ↔ (bit streams 2 = true ∧ x = 2)) ∧
    (∀ x, r.child x = some (.rd 2) ↔ (bit streams 4 = true ∧ x = 0)) ∧
    (∀ x, r.child x ≠ some (.rd 0) ∧ r.child x ≠ some (.rd 1) ∧ r.child x ≠ some (.wr 2)) ∧
    r.fdStdOutRead = (if bit streams 1 then f.outR else 0) ∧
    r.fdStdErrRead = (if bit streams 2 then f.errR else 0) ∧
    r.fdStdInWrite = (if bit streams 4 then f.inW else 0) := by
  intro r
  have hP := openFds_parent streams f t hf
  have hC := openFds_child streams f t hf
  obtain ⟨hfo, hfe, hfi⟩ := openFds_fields streams f t
  obtain ⟨hp, hx⟩ := hf
  simp only [List.pairwise_cons, List.mem_cons, List.not_mem_nil, or_false, forall_eq_or_imp, forall_eq] at hp hx
  have hpar := fun x => ends_expr (bit streams 1) (bit streams 2) (bit streams 4) x f.outR f.errR f.inW
    (.rd 0) (.rd 1) (.wr 2) (t x) hp.1.2.1 hp.1.2.2.2.2 hp.2.2.1.2.2 (by decide) (by decide) (by decide)
    (ht x 0).1 (ht x 1).1 (ht x 2).2
  have hch := fun x => ends_expr (bit streams 4) (bit streams 1) (bit streams 2) x 0 1 2
    (.rd 2) (.wr 0) (.wr 1) (t x) (by decide) (by decide) (by decide) (by decide) (by decide) (by decide)
    (ht x 2).1 (ht x 0).2 (ht x 1).2
  refine ⟨fun x => ?_, fun x => ?_, fun x => ?_, fun x => ⟨?_, ?_, ?_⟩, fun x => ?_, fun x => ?_, fun x => ?_,
    fun x => ⟨?_, ?_, ?_⟩, hfo, hfe, hfi⟩
  · simp only [r, hP x]; exact (hpar x).1
  · simp only [r, hP x]; exact (hpar x).2.1
  · simp only [r, hP x]; exact (hpar x).2.2
  · simp only [r, hP x]; exact ends_expr_ne _ _ _ _ _ _ _ _ _ _ _ _ (by decide) (by decide) (by decide) (ht x 0).2
  · simp only [r, hP x]; exact ends_expr_ne _ _ _ _ _ _ _ _ _ _ _ _ (by decide) (by decide) (by decide) (ht x 1).2
  · simp only [r, hP x]; exact ends_expr_ne _ _ _ _ _ _ _ _ _ _ _ _ (by decide) (by decide) (by decide) (ht x 2).1
  · simp only [r, hC x]; exact (hch x).2.1
  · simp only [r, hC x]; exact (hch x).2.2
  · simp only [r, hC x]; exact (hch x).1
  · simp only [r, hC x]; exact ends_expr_ne _ _ _ _ _ _ _ _ _ _ _ _ (by decide) (by decide) (by decide) (ht x 0).1
  · simp only [r, hC x]; exact ends_expr_ne _ _ _ _ _ _ _ _ _ _ _ _ (by decide) (by decide) (by decide) (ht x 1).1
  · simp only [r, hC x]; exact ends_expr_ne _ _ _ _ _ _ _ _ _ _ _ _ (by decide) (by decide) (by decide) (ht x 2).2

/-! ### the protocol over pipes -/

structure Inv (cap : Nat) (P O E : List Nat) (c : Nat) (s : Sys) : Prop where
  cap_eq : s.cap = cap
  inB : s.gotIn ++ s.inQ ++ s.toSend = P
  outB : s.gotOut ++ s.outQ ++ s.toOut = O
  errB : s.gotErr ++ s.errQ ++ s.toErr = E
  code_eq : s.exitCode = c
  closed_sent : s.inOpen = false → s.toSend = []
  open_writing : s.inOpen = true ↔ s.pPhase = .writing
  past_reading : s.cPhase ≠ .reading → s.inQ = [] ∧ s.inOpen = false
  past_out : s.cPhase = .writingErr ∨ s.cPhase = .exited → s.toOut = []
  past_err : s.cPhase = .exited → s.toErr = []
  out_eof : s.outEof = true → s.outQ = [] ∧ s.cPhase = .exited
  err_eof : s.errEof = true → s.errQ = [] ∧ s.cPhase = .exited
  joined : s.pPhase = .joined → s.outEof = true ∧ s.errEof = true ∧ s.code = some c

theorem Inv.init (cap : Nat) (P O E : List Nat) (c : Nat) : Inv cap P O E c (Sys.init cap P O E c) := by
  constructor <;> simp [Sys.init]

theorem Inv.step {cap : Nat} {P O E : List Nat} {c : Nat} {s s' : Sys} (h : Inv cap P O E c s) (hs : Step s s') :
    Inv cap P O E c s' := by
  obtain ⟨h1, h2, h3, h4, h5, h6, h7, h8, h9, h10, h11, h12, h13⟩ := h
  cases hs <;> constructor <;> simp_all <;> grind

theorem Inv.reach {cap : Nat} {P O E : List Nat} {c : Nat} {s : Sys}
    (h : Reach (Sys.init cap P O E c) s) : Inv cap P O E c s := by
  induction h with
  | init => exact Inv.init cap P O E c
  | step _ hs ih => exact ih.step hs


/-- what has arrived when `join` has returned -/
theorem delivered {cap : Nat} {P O E : List Nat} {c : Nat} {s : Sys} (h : Inv cap P O E c s)
    (hj : s.pPhase = .joined) :
    s.gotIn = P ∧ s.gotOut = O ∧ s.gotErr = E ∧ s.code = some c := by
  obtain ⟨h1, h2, h3, h4, h5, h6, h7, h8, h9, h10, h11, h12, h13⟩ := h
  obtain ⟨ho, he, hc⟩ := h13 hj
  obtain ⟨hoq, hex⟩ := h11 ho
  obtain ⟨heq, _⟩ := h12 he
  have hnr : s.cPhase ≠ .reading := by rw [hex]; decide
  obtain ⟨hiq, hio⟩ := h8 hnr
  have hts := h6 hio
  have hto := h9 (Or.inr hex)
  have hte := h10 hex
  simp_all

/-- no deadlock: as long as `join` has not returned, some process can take a step -/
theorem progress {cap : Nat} {P O E : List Nat} {c : Nat} {s : Sys} (h : Inv cap P O E c s) (hcap : 0 < cap)
    (hj : s.pPhase ≠ .joined) : ∃ s', Step s s' := by
  obtain ⟨h1, h2, h3, h4, h5, h6, h7, h8, h9, h10, h11, h12, h13⟩ := h
  cases hp : s.pPhase with
  | joined => exact absurd hp hj
  | writing =>
    by_cases hts : s.toSend = []
    · exact ⟨_, Step.pClose s hp hts⟩
    · by_cases hfull : s.inQ.length < s.cap
      · exact ⟨_, Step.pWrite s 1 hp (by omega) (by cases hh : s.toSend <;> simp_all) (by omega)⟩
      · have hne : s.inQ ≠ [] := by intro e; simp [e] at hfull; omega
        have hr : s.cPhase = .reading := by
          cases hc : s.cPhase <;> simp_all
        exact ⟨_, Step.cRead s 1 hr (by omega) (by cases hh : s.inQ <;> simp_all)⟩
  | draining =>
    have hio : s.inOpen = false := by
      cases hh : s.inOpen
      · rfl
      · have := h7.mp hh; simp_all
    cases hc : s.cPhase with
    | reading =>
      by_cases hq : s.inQ = []
      · exact ⟨_, Step.cEofIn s hc hq hio⟩
      · exact ⟨_, Step.cRead s 1 hc (by omega) (by cases hh : s.inQ <;> simp_all)⟩
    | writingOut =>
      by_cases hto : s.toOut = []
      · exact ⟨_, Step.cDoneOut s hc hto⟩
      · by_cases hfull : s.outQ.length < s.cap
        · exact ⟨_, Step.cWriteOut s 1 hc (by omega) (by cases hh : s.toOut <;> simp_all) (by omega)⟩
        · exact ⟨_, Step.pReadOut s 1 hp (by omega) (by omega)⟩
    | writingErr =>
      by_cases hte : s.toErr = []
      · exact ⟨_, Step.cExit s hc hte⟩
      · by_cases hfull : s.errQ.length < s.cap
        · exact ⟨_, Step.cWriteErr s 1 hc (by omega) (by cases hh : s.toErr <;> simp_all) (by omega)⟩
        · exact ⟨_, Step.pReadErr s 1 hp (by omega) (by omega)⟩
    | exited =>
      by_cases hoq : s.outQ = []
      · cases hoe : s.outEof with
        | false => exact ⟨_, Step.pEofOut s hp hoq hc hoe⟩
        | true =>
          by_cases heq : s.errQ = []
          · cases hee : s.errEof with
            | false => exact ⟨_, Step.pEofErr s hp heq hc hee⟩
            | true => exact ⟨_, Step.pJoin s hp hoe hee hc⟩
          · exact ⟨_, Step.pReadErr s 1 hp (by omega) (by cases hh : s.errQ <;> simp_all)⟩
      · exact ⟨_, Step.pReadOut s 1 hp (by omega) (by cases hh : s.outQ <;> simp_all)⟩

/-- every step strictly decreases the measure: every run is finite -/
theorem step_decreases {s s' : Sys} (hs : Step s s') : s'.measure < s.measure := by
  cases hs <;> simp_all [Sys.measure, pRank, cRank, b2n, List.length_take, List.length_drop] <;> omega


theorem ReachN.reach {s0 s : Sys} {n : Nat} (h : ReachN s0 n s) : Reach s0 s := by
  induction h with
  | init => exact .init
  | step _ hs ih => exact .step ih hs

theorem ReachN.bound {s0 s : Sys} {n : Nat} (h : ReachN s0 n s) : n + s.measure ≤ s0.measure := by
  induction h with
  | init => simp
  | step _ hs ih => have := step_decreases hs; omega


/-! ### the as-coded moves are moves of the protocol system -/

theorem min3_facts (len a b : Nat) : min (min len a) b ≤ len ∧ min (min len a) b ≤ a ∧ min (min len a) b ≤ b := by
  refine ⟨?_, ?_, ?_⟩ <;> omega

theorem parentNext_step {len : Nat} {s s' : Sys} (hlen : 0 < len) (h : parentNext len s = some s') : Step s s' := by
  obtain ⟨cap, inQ, inOpen, outQ, errQ, pPhase, toSend, gotOut, gotErr, outEof, errEof, code, cPhase, gotIn, toOut, toErr,
    exitCode⟩ := s
  unfold parentNext at h
  cases pPhase with
  | joined => simp at h
  | writing =>
    dsimp only at h
    split at h
    · rename_i hts
      cases h
      exact Step.pClose _ rfl (by simpa using hts)
    · obtain ⟨k1, k2, k3⟩ := min3_facts len toSend.length (cap - inQ.length)
      generalize min (min len toSend.length) (cap - inQ.length) = k at h k1 k2 k3
      split at h
      · simp at h
      · rename_i hk
        cases h
        exact Step.pWrite _ k rfl (by first | omega | (dsimp only; omega)) k2 (by first | omega | (dsimp only; omega))
  | draining =>
    dsimp only at h
    split at h
    · rename_i h1
      cases h
      have : 0 < outQ.length := by cases outQ <;> simp_all
      exact Step.pReadOut _ _ rfl (by first | omega | (dsimp only; omega)) (by first | omega | (dsimp only; omega))
    · rename_i h1
      split at h
      · rename_i h2
        cases h
        have hq : outQ = [] := by
          by_cases e : outQ = []
          · exact e
          · exact absurd ⟨h2.1, e⟩ h1
        obtain ⟨h2a, h2b⟩ := h2
        subst h2a h2b
        exact Step.pEofOut _ rfl hq rfl rfl
      · rename_i h2
        split at h
        · rename_i h3
          cases h
          have : 0 < errQ.length := by cases errQ <;> simp_all
          exact Step.pReadErr _ _ rfl (by first | omega | (dsimp only; omega)) (by first | omega | (dsimp only; omega))
        · rename_i h3
          split at h
          · rename_i h4
            cases h
            have hq : errQ = [] := by
              by_cases e : errQ = []
              · exact e
              · exact absurd ⟨h4.1, e⟩ h3
            obtain ⟨h4a, h4b⟩ := h4
            subst h4a h4b
            exact Step.pEofErr _ rfl hq rfl rfl
          · split at h
            · rename_i h5
              cases h
              obtain ⟨h5a, h5b, h5c⟩ := h5
              subst h5a h5b h5c
              exact Step.pJoin _ rfl rfl rfl rfl
            · simp at h

theorem childNext_step {len : Nat} {s s' : Sys} (hlen : 0 < len) (h : childNext len s = some s') : Step s s' := by
  obtain ⟨cap, inQ, inOpen, outQ, errQ, pPhase, toSend, gotOut, gotErr, outEof, errEof, code, cPhase, gotIn, toOut, toErr,
    exitCode⟩ := s
  unfold childNext at h
  cases cPhase with
  | exited => simp at h
  | reading =>
    dsimp only at h
    split at h
    · rename_i hq
      cases h
      have : 0 < inQ.length := by cases inQ <;> simp_all
      exact Step.cRead _ _ rfl (by first | omega | (dsimp only; omega)) (by first | omega | (dsimp only; omega))
    · rename_i hq
      split at h
      · rename_i ho
        cases h
        subst ho
        exact Step.cEofIn _ rfl (by simpa using hq) rfl
      · simp at h
  | writingOut =>
    dsimp only at h
    split at h
    · rename_i hts
      cases h
      exact Step.cDoneOut _ rfl (by simpa using hts)
    · obtain ⟨k1, k2, k3⟩ := min3_facts len toOut.length (cap - outQ.length)
      generalize min (min len toOut.length) (cap - outQ.length) = k at h k1 k2 k3
      split at h
      · simp at h
      · cases h
        exact Step.cWriteOut _ k rfl (by first | omega | (dsimp only; omega)) k2 (by first | omega | (dsimp only; omega))
  | writingErr =>
    dsimp only at h
    split at h
    · rename_i hts
      cases h
      exact Step.cExit _ rfl (by simpa using hts)
    · obtain ⟨k1, k2, k3⟩ := min3_facts len toErr.length (cap - errQ.length)
      generalize min (min len toErr.length) (cap - errQ.length) = k at h k1 k2 k3
      split at h
      · simp at h
      · cases h
        exact Step.cWriteErr _ k rfl (by first | omega | (dsimp only; omega)) k2 (by first | omega | (dsimp only; omega))

theorem runCoded_reach {len : Nat} (hlen : 0 < len) (sched : List Bool) : ∀ {s0 s : Sys}, Reach s0 s →
    Reach s0 (runCoded len sched s) := by
  induction sched with
  | nil => intro s0 s h; exact h
  | cons b r ih =>
    intro s0 s h
    unfold runCoded
    cases hn : (if b = true then parentNext len s else childNext len s) with
    | none => exact ih h
    | some s' =>
      apply ih
      refine .step h ?_
      cases b
      · exact childNext_step hlen (by simpa using hn)
      · exact parentNext_step hlen (by simpa using hn)

/-! ### join first -/

structure InvJ (cap : Nat) (inp out err : Bool) (I O E : List Nat) (c : Nat) (s : SysJ) : Prop where
  cap_eq : s.cap = cap
  inB : s.gotIn ++ s.inQ = I
  outB : s.outQ ++ s.toOut = O
  errB : s.errQ ++ s.toErr = E
  code_eq : s.exitCode = c
  prog_cases :
    (s.prog = joinProgram ∧ s.inWr = inp ∧ s.outRd = out ∧ s.errRd = err ∧ s.reaped = none) ∨
    (s.prog = [.wait, .closeOut, .closeErr] ∧ s.inWr = false ∧ s.outRd = out ∧ s.errRd = err ∧ s.reaped = none) ∨
    (s.cPhase = .exited ∧ s.reaped = some c ∧
      (s.prog = [.closeOut, .closeErr] ∨ s.prog = [.closeErr] ∨ s.prog = []))
  not_sig : s.cPhase ≠ .signalled
  past_out : s.cPhase ≠ .reading → s.cPhase ≠ .writingOut → s.toOut = []
  past_in : s.cPhase ≠ .reading → s.inQ = []
  exited_done : s.cPhase = .exited → s.toErr = []
  out_ok : s.toOut ≠ [] → out = true
  err_ok : s.toErr ≠ [] → err = true

theorem InvJ.init (cap : Nat) (inp out err reads : Bool) (I O E : List Nat) (c : Nat) (hI : reads = false → I = [])
    (hout : out = false → O = []) (herr : err = false → E = []) :
    InvJ cap inp out err I O E c (SysJ.init cap joinProgram inp out err reads I O E c) := by
  cases reads <;> cases out <;> cases err <;> constructor <;> simp_all [SysJ.init]

theorem InvJ.step {cap : Nat} {inp out err : Bool} {I O E : List Nat} {c : Nat} {s s' : SysJ}
    (h : InvJ cap inp out err I O E c s) (hs : StepJ s s') : InvJ cap inp out err I O E c s' := by
  obtain ⟨h1, h2, h3, h4, h5, h6, h7, h8, h9, h10, h11, h12⟩ := h
  cases hs <;> constructor <;> simp_all [joinProgram] <;> grind

theorem InvJ.reach {cap : Nat} {inp out err reads : Bool} {I O E : List Nat} {c : Nat} {s : SysJ}
    (hI : reads = false → I = []) (hout : out = false → O = []) (herr : err = false → E = [])
    (h : ReachJ (SysJ.init cap joinProgram inp out err reads I O E c) s) : InvJ cap inp out err I O E c s := by
  induction h with
  | init => exact InvJ.init cap inp out err reads I O E c hI hout herr
  | step _ hs ih => exact ih.step hs

theorem progressJ {cap : Nat} {inp out err : Bool} {I O E : List Nat} {c : Nat} {s : SysJ}
    (h : InvJ cap inp out err I O E c s)
    (hO : O.length ≤ cap) (hE : E.length ≤ cap) (hp : s.prog ≠ []) : ∃ s', StepJ s s' := by
  obtain ⟨h1, h2, h3, h4, h5, h6, h7, h8, h9, h10, h11, h12⟩ := h
  rcases h6 with ⟨hprog, _⟩ | ⟨hprog, hiw, hor, her, _⟩ | ⟨_, _, hprog⟩
  · exact ⟨_, StepJ.pCloseIn s _ hprog⟩
  · cases hc : s.cPhase with
    | signalled => exact absurd hc h7
    | exited => exact ⟨_, StepJ.pWaitExited s _ hprog hc⟩
    | reading =>
      by_cases hq : s.inQ = []
      · exact ⟨_, StepJ.cEofIn s hc hq hiw⟩
      · exact ⟨_, StepJ.cRead s 1 hc (by omega) (by cases hh : s.inQ <;> simp_all)⟩
    | writingOut =>
      by_cases hto : s.toOut = []
      · exact ⟨_, StepJ.cDoneOut s hc hto⟩
      · have hl : s.outQ.length + s.toOut.length = O.length := by rw [← h3]; simp
        have hpos : 0 < s.toOut.length := by cases hh : s.toOut <;> simp_all
        have hrd : s.outRd = true := by rw [hor]; exact h11 hto
        exact ⟨_, StepJ.cWriteOut s 1 hc hrd (by omega) (by omega) (by omega)⟩
    | writingErr =>
      by_cases hte : s.toErr = []
      · exact ⟨_, StepJ.cExit s hc hte⟩
      · have hl : s.errQ.length + s.toErr.length = E.length := by rw [← h4]; simp
        have hpos : 0 < s.toErr.length := by cases hh : s.toErr <;> simp_all
        have hrd : s.errRd = true := by rw [her]; exact h12 hte
        exact ⟨_, StepJ.cWriteErr s 1 hc hrd (by omega) (by omega) (by omega)⟩
  · rcases hprog with e | e | e
    · exact ⟨_, StepJ.pCloseOut s _ e⟩
    · exact ⟨_, StepJ.pCloseErr s _ e⟩
    · exact absurd e hp

theorem stepJ_decreases {s s' : SysJ} (hs : StepJ s s') : s'.measure < s.measure := by
  cases hs <;> simp_all [SysJ.measure, jRank, List.length_drop] <;> omega

theorem joinedJ {cap : Nat} {inp out err : Bool} {I O E : List Nat} {c : Nat} {s : SysJ}
    (h : InvJ cap inp out err I O E c s) (hp : s.prog = []) :
    s.reaped = some c ∧ s.cPhase = .exited ∧ s.gotIn = I ∧ s.outQ = O ∧ s.errQ = E := by
  obtain ⟨h1, h2, h3, h4, h5, h6, h7, h8, h9, h10, h11, h12⟩ := h
  rcases h6 with ⟨hprog, _⟩ | ⟨hprog, _⟩ | ⟨hex, hr, _⟩
  · simp [hp, joinProgram] at hprog
  · simp [hp] at hprog
  · have hto := h8 (by rw [hex]; decide) (by rw [hex]; decide)
    have hiq := h9 (by rw [hex]; decide)
    have hte := h10 hex
    simp_all

end Nstd.Args.Kernel
