import Nstd.Args.Model
import Nstd.Args.Spec
/-
  The C string primitives of the model on well-formed buffers (`bytes ++ 0 :: junk`, no NUL in `bytes`).
-/
namespace Nstd.Args
open Spec

def term (w : Word) : Buf := w ++ [0]

def NoNul (w : List Nat) : Prop := ∀ c ∈ w, c ≠ 0

theorem NoNul.tail {c : Nat} {cs : List Nat} (h : NoNul (c :: cs)) : NoNul cs :=
  fun x hx => h x (by simp [hx])

theorem NoNul.head {c : Nat} {cs : List Nat} (h : NoNul (c :: cs)) : c ≠ 0 := h c (by simp)

theorem NoNul.append_left {a b : List Nat} (h : NoNul (a ++ b)) : NoNul a :=
  fun x hx => h x (by simp [hx])

theorem NoNul.append_right {a b : List Nat} (h : NoNul (a ++ b)) : NoNul b :=
  fun x hx => h x (by simp [hx])

theorem strlenL_spec (w junk : List Nat) (h : NoNul w) : strlenL (w ++ 0 :: junk) = some w.length := by
  induction w with
  | nil => simp [strlenL]
  | cons c cs ih => simp [strlenL, h.head, ih h.tail]

theorem sext_eq_letter (c : Nat) : sext c = letter c := rfl

/-- `splitEq` cuts at the first `=` -/
theorem splitEq_append (w : Word) :
    w = (splitEq w).1 ++ (match (splitEq w).2 with | some v => 61 :: v | none => []) ∧ 61 ∉ (splitEq w).1 := by
  induction w with
  | nil => simp [splitEq]
  | cons c cs ih =>
    by_cases h : c = 61
    · simp [splitEq, h]
    · simp only [splitEq, h, if_false]
      refine ⟨?_, ?_⟩
      · have := ih.1
        simp only [List.cons_append]
        exact congrArg _ this
      · simp only [List.mem_cons, not_or]; exact ⟨fun e => h e.symm, ih.2⟩

theorem findL_spec (w junk : List Nat) (h : NoNul w) :
    findL 61 (w ++ 0 :: junk) = some ((splitEq w).2.map (fun _ => (splitEq w).1.length)) := by
  induction w with
  | nil => simp [findL, splitEq]
  | cons c cs ih =>
    by_cases h61 : c = 61
    · subst h61; simp [findL, splitEq]
    · simp only [List.cons_append, findL, h.head, h61, if_false, ih h.tail, splitEq]
      cases (splitEq cs).2 <;> simp

/-- `compare(name, arg, len) == 0 && !name[len]` decides whether the first `len` characters of
    the argument are the whole name -/
theorem nameMatches_spec (nm : Word) (hn : NoNul nm) : ∀ (n tail : List Nat), NoNul n →
    nameMatches (term nm) (n ++ tail) n.length = some (decide (nm = n)) := by
  unfold nameMatches term
  induction nm with
  | nil =>
    intro n tail hnn
    cases n with
    | nil => simp [cmpN]
    | cons a as =>
      have h0 : (0 == a) = false := by simp [Ne.symm hnn.head]
      simp [cmpN, h0]
  | cons c cs ih =>
    intro n tail hnn
    cases n with
    | nil => simp [cmpN, hn.head]
    | cons a as =>
      have hc : c ≠ 0 := hn.head
      by_cases hca : c = a
      · subst hca
        have := ih hn.tail as tail hnn.tail
        simp only [List.cons_append, List.length_cons, cmpN, hc, ne_eq, not_true_eq_false, or_self, if_false]
        simp only [List.getElem?_cons_succ]
        rw [this]; simp
      · have h0 : (c == a) = false := by simp [hca]
        simp [cmpN, hc, hca, h0]

theorem slice_mid (pre mid post : List Nat) : slice (pre ++ mid ++ post) pre.length mid.length = some mid := by
  unfold slice
  simp

end Nstd.Args
