/-
  Semantics of the system calls in the translation of `Process::daemonize(const String& logFile)` (tools/gen_args.py ->
  Nstd/Generated/ArgsDmn.lean): the descriptor table of KernelFail.lean is a ghost field; `::open(logFile, O_CREAT | .., ..)`
  is answered by an oracle (`openRes`: `some fd` = the unused descriptor the kernel chose, `none` = -1), `fork()` by `forkRes`
  (-1, 0 = the child, otherwise the parent); `VERIFY(dup2(a, b) != -1)` performs the `dup2` (assumed to succeed), `VERIFY(setsid() != -1)`
  sets a flag, `exit(0)` records the status and ends the function.  Core Lean only.
-/
import Nstd.Args.CSemProc
import Nstd.Args.KernelFail

namespace Nstd.Args.C
open Nstd.Args.Kernel

def STDOUT_FILENO : Nat := 1
def STDERR_FILENO : Nat := 2

/-- `::open(path, O_CREAT | O_WRONLY | .., mode)`: the returned descriptor and the table afterwards -/
def sysOpen (res : Option Nat) (tag : Nat) (t : FdTable) : Int × FdTable :=
  match res with
  | none => (-1, t)
  | some fd => ((fd : Int), openFile fd tag t)

def sysDup2 (old : Int) (new : Nat) (t : FdTable) : FdTable := dup2 old.toNat new t

def sysClose (fd : Int) (t : FdTable) : FdTable := close fd.toNat t

end Nstd.Args.C
