import Nstd.Args.Pipes
/-
  Model of `Process::read(void* buffer, usize length, uint& streams)` (Process.cpp:825-919, POSIX branch) and of
  `Process::read(void* buffer, usize length)` over the pipe state of Pipes.lean.

  Code side: the two descriptor members (0 = closed), the `fd_set` as the list of descriptor numbers whose bit is
  set, the `maxFd` computation, the `select` loop with its `continue`s, the two `FD_ISSET` tests in the order
  stdout, stderr, `::read`.
  Assumed kernel side: `select(nfds, &set, 0, 0, &tv)` looks only at descriptors below `nfds` and leaves the bits of
  the others as they are; it either returns with the bits of the readable descriptors (a pipe is readable when it
  holds data or no write end is left), or -- only when none is readable -- blocks / times out (all examined bits
  cleared, `tv` left at 0 as Linux does), or fails with EINTR (sets untouched).  A blocking `::read` on a pipe
  returns `min(length, queued)` bytes when there are any, 0 when there are none and no write end is left, and
  blocks otherwise.  What `select` does at each call is an oracle (`Ev` list).
  The model mirrors the REPAIRED code (fixes/args/0010: the set and the time-out are armed again before every call
  of `select`); `read3Old` is the loop as it was, kept for the `example` that exposes it.  Core Lean only.
-/
namespace Nstd.Args.ReadSel

structure RS where
  fdOut : Nat               -- fdStdOutRead (0 = none)
  fdErr : Nat               -- fdStdErrRead
  outQ : List Nat
  errQ : List Nat
  outW : Bool               -- a write end of the stdout pipe is still open
  errW : Bool
  deriving Repr, DecidableEq

/-- what one call of `select` does -/
inductive Ev where
  | timeout | eintr | ready
  deriving Repr, DecidableEq

inductive Res where
  | einval                                   -- errno = EINVAL, -1
  | blocked                                  -- `select` does not return (nothing readable, oracle exhausted)
  | hang                                     -- `::read` was called on a descriptor that is not readable: it would block
  | minus1                                   -- fell through both FD_ISSET tests
  | spin                                     -- (old code only) `select` polls an empty set with a zero time-out for ever
  | got (stream : Nat) (bytes : List Nat) (s' : RS)   -- `streams = stream`, the bytes delivered ([] = return value 0)
  deriving Repr, DecidableEq

def bit (mask k : Nat) : Bool := mask / k % 2 == 1

def pipeReadable (q : List Nat) (w : Bool) : Bool := !q.isEmpty || !w

/-- the kernel's view: is descriptor `fd` readable -/
def fdReadable (s : RS) (fd : Nat) : Bool :=
  (fd != 0 && fd == s.fdOut && pipeReadable s.outQ s.outW) || (fd != 0 && fd == s.fdErr && pipeReadable s.errQ s.errW)

def wantOut (s : RS) (streams : Nat) : Bool := bit streams 1 && s.fdOut != 0
def wantErr (s : RS) (streams : Nat) : Bool := bit streams 2 && s.fdErr != 0

/-- `FD_ZERO; if(...) FD_SET(fdStdOutRead); if(...) FD_SET(fdStdErrRead)` -/
def arm (s : RS) (streams : Nat) : List Nat :=
  (if wantOut s streams then [s.fdOut] else []) ++ (if wantErr s streams then [s.fdErr] else [])

/-- the `maxFd` computation as coded -/
def maxFd (s : RS) (streams : Nat) : Nat :=
  let m := if wantOut s streams then s.fdOut else 0
  if wantErr s streams then (if s.fdErr > m then s.fdErr else m) else m

/-- `::read(fd, buffer, length)` on the stdout / stderr pipe -/
def doRead (s : RS) (stream length : Nat) : Res :=
  if stream = 1 then
    if !s.outQ.isEmpty then .got 1 (s.outQ.take length) { s with outQ := s.outQ.drop length }
    else if !s.outW then .got 1 [] s
    else .hang
  else
    if !s.errQ.isEmpty then .got 2 (s.errQ.take length) { s with errQ := s.errQ.drop length }
    else if !s.errW then .got 2 [] s
    else .hang

/-- behind the loop: the two `FD_ISSET` tests -/
def afterSelect (s : RS) (length streams : Nat) (set : List Nat) : Res :=
  if wantOut s streams && set.contains s.fdOut then doRead s 1 length
  else if wantErr s streams && set.contains s.fdErr then doRead s 2 length
  else .minus1

/-- the set after a `select` that returns normally: examined bits = readability, the others untouched -/
def selected (s : RS) (nfds : Nat) (set : List Nat) : List Nat :=
  set.filter (fun fd => if fd < nfds then fdReadable s fd else true)

def examinedReady (s : RS) (nfds : Nat) (set : List Nat) : Bool :=
  set.any (fun fd => fd < nfds && fdReadable s fd)

/-- the `for(;;)` loop, repaired: set (and time-out) armed before every `select` -/
def selectLoop (s : RS) (length streams nfds : Nat) : List Ev → Res
  | [] => .blocked
  | .timeout :: evs => selectLoop s length streams nfds evs            -- i == 0: continue
  | .eintr :: evs => selectLoop s length streams nfds evs              -- EINTR: continue
  | .ready :: _ =>
    if examinedReady s nfds (arm s streams) then afterSelect s length streams (selected s nfds (arm s streams))
    else .blocked

/-- `Process::read(buffer, length, streams)` -/
def read3 (s : RS) (length streams : Nat) (evs : List Ev) : Res :=
  if maxFd s streams = 0 then .einval else selectLoop s length streams (maxFd s streams + 1) evs

/-- the loop as it was: the set is armed once; a time-out clears the examined bits and leaves `tv` at 0, after which
    every `select` is a poll of what is left of the set -/
def selectLoopOld (s : RS) (length streams nfds : Nat) : List Nat → Bool → List Ev → Res
  | _, _, [] => .blocked
  | set, tvZero, .timeout :: evs =>
    if tvZero then selectLoopOld s length streams nfds set true evs
    else selectLoopOld s length streams nfds (set.filter (fun fd => !(fd < nfds))) true evs
  | set, tvZero, .eintr :: evs => selectLoopOld s length streams nfds set tvZero evs
  | set, tvZero, .ready :: evs =>
    if examinedReady s nfds set then afterSelect s length streams (selected s nfds set)
    else if tvZero then
      -- zero time-out: returns 0 at once, bits cleared, `continue`; with nothing left to examine this never ends
      if (set.filter (fun fd => fd < nfds)).isEmpty then .spin
      else selectLoopOld s length streams nfds (set.filter (fun fd => !(fd < nfds))) true evs
    else .blocked

def read3Old (s : RS) (length streams : Nat) (evs : List Ev) : Res :=
  if maxFd s streams = 0 then .einval else selectLoopOld s length streams (maxFd s streams + 1) (arm s streams) false evs

/-- `Process::read(buffer, length)`: `::read(fdStdOutRead, buffer, length)` (with `fdStdOutRead == 0` this reads the
    process's own descriptor 0: outside the model, `none`) -/
def read2 (s : RS) (length : Nat) : Option Res :=
  if s.fdOut = 0 then none else some (doRead s 1 length)

/-- the members are different descriptors -/
def Wf (s : RS) : Prop := s.fdOut ≠ 0 → s.fdOut ≠ s.fdErr

/-- the read side of the pipe state `u`, the parent's read ends being the descriptors `a`, `b` -/
def ofU (u : Pipes.U) (a b : Nat) : RS :=
  { fdOut := if u.pOutR then a else 0, fdErr := if u.pErrR then b else 0, outQ := u.outQ, errQ := u.errQ,
    outW := u.cOutW, errW := u.cErrW }

end Nstd.Args.ReadSel
