import Nstd.Args.LemmasStr
import Nstd.Args.LemmasSplit
/-
  `Process::Arguments::read` on well-formed memory refines the getopt conventions of Spec.lean.
-/
namespace Nstd.Args
open Spec

/-- the option table as the C code sees it: names are terminated buffers -/
def toModel (o : SOpt) : Opt := { character := o.character, name := o.name.map term, flags := o.flags }

def OptsOk (opts : List SOpt) : Prop := ∀ o ∈ opts, ∀ n, o.name = some n → NoNul n

theorem toModel_takesArg (o : SOpt) : (toModel o).takesArg = o.takesArg := rfl
theorem toModel_optional (o : SOpt) : (toModel o).optional = o.optional := rfl
theorem toModel_character (o : SOpt) : (toModel o).character = o.character := rfl

theorem findShortOpt_map (opts : List SOpt) (c : Nat) :
    findShortOpt (opts.map toModel) (sext c) = (findShort opts c).map toModel := by
  induction opts with
  | nil => simp [findShortOpt, findShort]
  | cons o os ih =>
    simp only [findShortOpt, findShort, List.map_cons, List.find?_cons, toModel_character, sext_eq_letter] at ih ⊢
    cases h : (o.character == letter c) <;> simp [ih]

theorem findLongOpt_map (opts : List SOpt) (hok : OptsOk opts) (n tail : List Nat) (hn : NoNul n) (hasEq : Bool) :
    findLongOpt (opts.map toModel) (n ++ tail) n.length hasEq = some ((findLong opts n hasEq).map toModel) := by
  induction opts with
  | nil => simp [findLongOpt, findLong]
  | cons o os ih =>
    have ih' := ih (fun x hx => hok x (by simp [hx]))
    simp only [findLong, List.find?_cons] at ih' ⊢
    simp only [List.map_cons, findLongOpt]
    cases hnm : o.name with
    | none => simp [toModel, hnm, ih']
    | some nm =>
      have hnn : NoNul nm := hok o (by simp) nm hnm
      simp only [toModel, hnm, Option.map_some, nameMatches_spec nm hnn n tail hn]
      by_cases e : nm = n
      · subst e
        simp only [decide_true, Bool.true_and, beq_self_eq_true]
        have : ({ character := o.character, name := some (term nm), flags := o.flags } : Opt).takesArg = o.takesArg := rfl
        rw [this]
        cases hc : (!hasEq || o.takesArg)
        · simp only [Bool.false_eq_true, if_false]; exact ih'
        · simp [toModel, hnm]
      · have : (some nm == some n) = false := by simp [e]
        simp only [e, decide_false, Bool.false_and, Bool.false_eq_true, if_false, this]
        exact ih'

/-! ### the pointer `arg` -/

/-- `arg` points into block `b = pre ++ v` right behind `pre` -/
def View (st : St) (b : Buf) (pre v : List Nat) : Prop :=
  st.buf = some b ∧ b = pre ++ v ∧ st.off = pre.length

theorem View.peek {st : St} {b : Buf} {pre v : List Nat} (h : View st b pre v) (k : Nat) :
    st.peek k = v[k]? := by
  unfold St.peek
  rw [h.1]
  simp only [h.2.1, h.2.2]
  rw [List.getElem?_append_right (by omega)]
  simp

theorem View.advance {st st' : St} {b : Buf} {pre x v : List Nat} (h : View st b pre (x ++ v))
    (hb : st'.buf = st.buf) (ho : st'.off = st.off + x.length) : View st' b (pre ++ x) v :=
  ⟨hb.trans h.1, by simp [h.2.1], by simp [ho, h.2.2]⟩

theorem takeRest_view {st : St} {b : Buf} {pre w : List Nat} (h : View st b pre (w ++ [0])) (hw : NoNul w) (ch : Int) :
    takeRest st ch = some (some (ch, w), { st with off := st.off + w.length }) := by
  unfold takeRest
  rw [h.1]
  have hd : b.drop st.off = w ++ 0 :: [] := by simp [h.2.1, h.2.2]
  have hs : slice b st.off w.length = some w := by
    rw [h.2.1, h.2.2]
    have := slice_mid pre w [0]
    simpa [List.append_assoc] using this
  simp only [hd, strlenL_spec w [] hw, hs]

def size : List Word → Nat
  | [] => 0
  | w :: r => w.length + 1 + size r

structure Rel (argv : List Buf) (st : St) (pending : List Nat) (rest : List Word) : Prop where
  argv_eq : st.argv = argv
  rest_eq : argv.drop st.cur = rest.map term
  view : ∃ b pre, View st b pre (pending ++ [0])
  pnz : NoNul pending
  rnz : ∀ w ∈ rest, NoNul w
  inopt : pending ≠ [] → st.inOpt = true
  skip : st.skipOpt = true → pending = []

/-- what the remaining reads have to deliver -/
def cont (opts : List SOpt) (skip : Bool) (pending : List Nat) (rest : List Word) : List Res :=
  if skip then rest.map (fun x => (0, x))
  else (cluster opts pending).1 ++ parse opts (cluster opts pending).2 rest

theorem cont_nil (opts : List SOpt) (rest : List Word) : cont opts false [] rest = parse opts none rest := by
  simp [cont, cluster]

/-- `nextChar` at the end of the current word with no word left -/
theorem nextChar_end {argv : List Buf} {st : St} (h : Rel argv st [] []) : nextChar st = some (false, st) := by
  obtain ⟨b, pre, hv⟩ := h.view
  have hp := hv.peek 0
  have hlen : ¬ st.cur < st.argv.length := by
    have := h.rest_eq
    rw [h.argv_eq]
    simp at this
    omega
  simp [nextChar, hp, hlen]

/-- the state after `arg = *(argv++); inOpt = false;` -/
def fetch (st : St) : St := { st with blk := some st.cur, off := 0, cur := st.cur + 1, inOpt := false }

theorem nextChar_fetch {argv : List Buf} {st : St} {w : Word} {rest : List Word} (h : Rel argv st [] (w :: rest)) :
    nextChar st = some (true, fetch st) ∧ View (fetch st) (term w) [] (w ++ [0]) ∧
      argv.drop (fetch st).cur = rest.map term := by
  obtain ⟨b, pre, hv⟩ := h.view
  have hp := hv.peek 0
  have hd := drop_cons_step (by simpa using h.rest_eq : argv.drop st.cur = term w :: rest.map term)
  have hlen : st.cur < st.argv.length := by
    rw [h.argv_eq]
    have := hd.1
    exact (List.getElem?_eq_some_iff.mp this).1
  refine ⟨by simp [nextChar, hp, hlen, fetch], ⟨?_, rfl, rfl⟩, hd.2⟩
  simp [fetch, St.buf, h.argv_eq, hd.1]


/-- `arg` moved behind the rest of the current word by `takeRest` -/
theorem Rel.afterTake {argv : List Buf} {st : St} {b : Buf} {pre w : List Nat} {rest : List Word}
    (hv : View st b pre (w ++ [0])) (ha : st.argv = argv) (hr : argv.drop st.cur = rest.map term)
    (hrn : ∀ x ∈ rest, NoNul x) :
    Rel argv { st with off := st.off + w.length } [] rest :=
  ⟨ha, hr, ⟨b, pre ++ w, by simpa using View.advance (st' := { st with off := st.off + w.length }) hv rfl rfl⟩,
    by intro x hx; simp at hx, hrn, by simp, by simp⟩

/-- one `read` inside a cluster of short options (`arg` at a character `c` of the cluster) -/
theorem shortOpt_step (opts : List SOpt) {argv : List Buf} {st : St} {c : Nat} {cs : List Nat} {rest : List Word}
    (h : Rel argv st (c :: cs) rest) :
    ∃ r st' pending' rest', shortOpt (opts.map toModel) st = some (some r, st') ∧
      Rel argv st' pending' rest' ∧ st'.skipOpt = st.skipOpt ∧
      pending'.length + size rest' < (c :: cs).length + size rest ∧
      (cluster opts (c :: cs)).1 ++ parse opts (cluster opts (c :: cs)).2 rest =
        r :: ((cluster opts pending').1 ++ parse opts (cluster opts pending').2 rest') := by
  obtain ⟨b, pre, hv⟩ := h.view
  have hp0 : st.peek 0 = some c := by rw [hv.peek]; simp
  have hv1 : View { st with off := st.off + 1 } b (pre ++ [c]) (cs ++ [0]) :=
    View.advance (st := st) (x := [c]) (by simpa using hv) rfl rfl
  have hR1 : Rel argv { st with off := st.off + 1 } cs rest :=
    ⟨h.argv_eq, h.rest_eq, ⟨b, _, hv1⟩, h.pnz.tail, h.rnz, fun _ => h.inopt (by simp),
      fun hs => absurd (h.skip hs) (by simp)⟩
  unfold shortOpt
  simp only [hp0, findShortOpt_map]
  cases hf : findShort opts c with
  | none =>
    refine ⟨(63, [45, c]), _, cs, rest, rfl, hR1, rfl, by simp, ?_⟩
    simp [cluster, hf]
  | some o =>
    simp only [Option.map_some, toModel_takesArg, toModel_optional]
    by_cases ht : o.takesArg = true
    case neg =>
      have ht' : o.takesArg = false := by simpa using ht
      simp only [ht', Bool.false_eq_true, if_false]
      refine ⟨(letter c, []), _, cs, rest, rfl, hR1, rfl, by simp, ?_⟩
      simp [cluster, hf, ht']
    case pos =>
      simp only [ht, if_true]
      cases cs with
      | nil =>
        have hp1 := hv1.peek 0
        simp only [List.nil_append, List.getElem?_cons_zero] at hp1
        simp only [hp1, if_true]
        by_cases ho : o.optional = true
        case pos =>
          simp only [ho, if_true]
          refine ⟨(letter c, []), _, [], rest, rfl, hR1, rfl, by simp, ?_⟩
          simp [cluster, hf, ht, ho]
        case neg =>
          have ho' : o.optional = false := by simpa using ho
          simp only [ho', Bool.false_eq_true, if_false]
          cases rest with
          | nil =>
            rw [nextChar_end hR1]
            refine ⟨(58, [45, c]), _, [], [], rfl, hR1, rfl, by simp, ?_⟩
            simp [cluster, hf, ht, ho', parse]
          | cons v rest' =>
            obtain ⟨hn, hvf, hrf⟩ := nextChar_fetch hR1
            rw [hn]
            have hvn : NoNul v := h.rnz v (by simp)
            simp only [takeRest_view hvf hvn]
            refine ⟨(letter c, v), _, [], rest', rfl,
              Rel.afterTake hvf h.argv_eq hrf (fun x hx => h.rnz x (by simp [hx])), rfl, by simp [size]; omega, ?_⟩
            simp [cluster, hf, ht, ho', parse]
      | cons d ds =>
        have hp1 := hv1.peek 0
        simp only [List.cons_append, List.getElem?_cons_zero] at hp1
        have hd : d ≠ 0 := h.pnz.tail.head
        simp only [hp1, hd, if_false]
        have hvn : NoNul (d :: ds) := h.pnz.tail
        simp only [takeRest_view hv1 hvn]
        refine ⟨(letter c, d :: ds), _, [], rest, rfl, Rel.afterTake hv1 h.argv_eq h.rest_eq h.rnz, rfl, by simp, ?_⟩
        simp [cluster, hf, ht]


/-- the specification's treatment of a word `--body` (body not empty) followed by `rest` -/
def specLong (opts : List SOpt) (w body : List Nat) (rest : List Word) : List Res :=
  match findLong opts (splitEq body).1 (splitEq body).2.isSome with
  | none => (63, w) :: parse opts none rest
  | some o =>
    if o.takesArg then
      match (splitEq body).2 with
      | some v => (o.character, v) :: parse opts none rest
      | none =>
        if o.optional then (o.character, []) :: parse opts none rest
        else parse opts (some (o.character, w)) rest
    else (o.character, []) :: parse opts none rest

theorem findLong_takesArg {opts : List SOpt} {n : Word} {o : SOpt} (h : findLong opts n true = some o) :
    o.takesArg = true := by
  have := List.find?_some h
  simp at this
  exact this.2

/-- one `read` of a long option: `arg` stands behind the `--` of the word `w = --body` -/
theorem longOpt_step (opts : List SOpt) (hok : OptsOk opts) {argv : List Buf} {st : St} {body : List Nat}
    {rest : List Word} (hv : View st (term (45 :: 45 :: body)) [45, 45] (body ++ [0])) (hb : NoNul body)
    (ha : st.argv = argv) (hr : argv.drop st.cur = rest.map term) (hrn : ∀ x ∈ rest, NoNul x)
    (hskip : st.skipOpt = false) :
    ∃ r st' rest', longOpt (opts.map toModel) st = some (some r, st') ∧ Rel argv st' [] rest' ∧
      st'.skipOpt = false ∧ size rest' ≤ size rest ∧
      specLong opts (45 :: 45 :: body) body rest = r :: parse opts none rest' := by
  have hbuf := hv.1
  have hoff : st.off = 2 := by simpa using hv.2.2
  have hdrop : (term (45 :: 45 :: body)).drop st.off = body ++ 0 :: [] := by simp [hoff, term]
  obtain ⟨hsplit, hno⟩ := splitEq_append body
  have hsl : slice (term (45 :: 45 :: body)) (st.off - 2) (body.length + 2) = some (45 :: 45 :: body) := by
    have := slice_mid [] (45 :: 45 :: body) [0]
    simpa [hoff, term] using this
  unfold longOpt specLong
  simp only [hbuf, hdrop, findL_spec body [] hb]
  cases hval : (splitEq body).2 with
  | none =>
    -- `--name`
    have hbody : body = (splitEq body).1 := by simpa [hval] using hsplit
    have hfl := findLongOpt_map opts hok body [0] hb false
    simp only [Option.map_none, strlenL_spec body [] hb, Option.isSome_none]
    simp only [← hbody, hfl]
    have hv3 : View { st with off := st.off + body.length } (term (45 :: 45 :: body)) ([45, 45] ++ body) [0] :=
      View.advance (st := st) hv rfl rfl
    have hR3 : Rel argv { st with off := st.off + body.length } [] rest :=
      ⟨ha, hr, ⟨_, _, by simpa using hv3⟩, by intro x hx; simp at hx, hrn, by simp, by simp⟩
    cases hf : findLong opts body false with
    | none =>
      have hl2 : strlenL ((body ++ [0]).drop body.length) = some 0 := by simp [strlenL]
      have h2 : ¬ st.off < 2 := by omega
      simp only [Option.map_none, hl2, h2, if_false, Nat.add_zero, hsl]
      exact ⟨_, _, rest, rfl, hR3, hskip, Nat.le_refl _, rfl⟩
    | some o =>
      simp only [Option.map_some, toModel_takesArg, toModel_optional, toModel_character, Bool.false_eq_true, if_false]
      by_cases ht : o.takesArg = true
      case neg =>
        have ht' : o.takesArg = false := by simpa using ht
        simp only [ht', Bool.false_eq_true, if_false]
        exact ⟨_, _, rest, rfl, hR3, hskip, Nat.le_refl _, rfl⟩
      case pos =>
        simp only [ht, if_true]
        by_cases ho : o.optional = true
        case pos =>
          simp only [ho, Bool.not_true, Bool.false_eq_true, if_false, if_true]
          exact ⟨_, _, rest, rfl, hR3, hskip, Nat.le_refl _, rfl⟩
        case neg =>
          have ho' : o.optional = false := by simpa using ho
          simp only [ho', Bool.not_false, if_true, Bool.false_eq_true, if_false]
          cases rest with
          | nil =>
            rw [nextChar_end hR3]
            have h2 : ¬ st.off < 2 := by omega
            simp only [h2, if_false, hsl]
            exact ⟨_, _, [], rfl, hR3, hskip, Nat.le_refl _, by simp [parse]⟩
          | cons v rest' =>
            obtain ⟨hn, hvf, hrf⟩ := nextChar_fetch hR3
            rw [hn]
            have hvn : NoNul v := hrn v (by simp)
            simp only [takeRest_view hvf hvn]
            exact ⟨_, _, rest', rfl, Rel.afterTake hvf ha hrf (fun x hx => hrn x (by simp [hx])), hskip,
              by simp [size], by simp [parse]⟩
  | some value =>
    -- `--name=value`
    have hbody : body = (splitEq body).1 ++ 61 :: value := by simpa [hval] using hsplit
    have hnn : NoNul (splitEq body).1 := by rw [hbody] at hb; exact hb.append_left
    have hvn : NoNul value := by
      rw [hbody] at hb; exact (hb.append_right).tail
    have hfl := findLongOpt_map opts hok (splitEq body).1 (61 :: value ++ [0]) hnn true
    have hbv : body ++ [0] = (splitEq body).1 ++ (61 :: value ++ [0]) :=
      (congrArg (· ++ [0]) hbody).trans (by simp)
    simp only [Option.map_some, Option.isSome_some, if_true]
    rw [hbv, hfl]
    cases hf : findLong opts (splitEq body).1 true with
    | none =>
      have hl2 : strlenL (((splitEq body).1 ++ (61 :: value ++ [0])).drop (splitEq body).1.length) = some (value.length + 1) := by
        have h61 : NoNul (61 :: value) := by
          intro x hx
          rcases List.mem_cons.mp hx with e | e
          · omega
          · exact hvn x e
        have := strlenL_spec (61 :: value) [] h61
        simpa using this
      have h2 : ¬ st.off < 2 := by omega
      have hlen : (splitEq body).1.length + (value.length + 1) = body.length := by
        have := congrArg List.length hbody
        simp at this
        omega
      simp only [Option.map_none, hl2, h2, if_false, hlen, hsl]
      have hv3 : View { st with off := st.off + body.length } (term (45 :: 45 :: body)) ([45, 45] ++ body) [0] :=
        View.advance (st := st) hv rfl rfl
      exact ⟨_, _, rest, rfl, ⟨ha, hr, ⟨_, _, by simpa using hv3⟩, by intro x hx; simp at hx, hrn, by simp, by simp⟩,
        hskip, Nat.le_refl _, rfl⟩
    | some o =>
      have ht := findLong_takesArg hf
      simp only [Option.map_some, toModel_takesArg, toModel_character, ht, if_true]
      have hv3 : View { st with off := st.off + ((splitEq body).1.length + 1) } (term (45 :: 45 :: body))
          ([45, 45] ++ ((splitEq body).1 ++ [61])) (value ++ [0]) := by
        have hv' : View st (term (45 :: 45 :: body)) [45, 45] (((splitEq body).1 ++ [61]) ++ (value ++ [0])) := by
          have : ((splitEq body).1 ++ [61]) ++ (value ++ [0]) = body ++ [0] := by rw [hbv]; simp
          rw [this]; exact hv
        exact View.advance (st := st) hv' rfl (by simp)
      simp only [takeRest_view hv3 hvn]
      exact ⟨_, _, rest, rfl, Rel.afterTake hv3 ha hr hrn, hskip, Nat.le_refl _, rfl⟩


theorem parse_long (opts : List SOpt) (c2 : Nat) (body' : List Nat) (rest : List Word) :
    parse opts none ((45 :: 45 :: c2 :: body') :: rest) = specLong opts (45 :: 45 :: c2 :: body') (c2 :: body') rest := by
  rw [parse]; simp only [specLong, List.isEmpty_cons, if_true, if_false, Bool.false_eq_true]; rfl

theorem parse_cluster (opts : List SOpt) (c1 : Nat) (body : List Nat) (rest : List Word) (h : c1 ≠ 45) :
    parse opts none ((45 :: c1 :: body) :: rest) =
      (cluster opts (c1 :: body)).1 ++ parse opts (cluster opts (c1 :: body)).2 rest := by
  simp [parse, h]

theorem parse_nonopt (opts : List SOpt) (c0 : Nat) (w1 : List Nat) (rest : List Word) (h : c0 ≠ 45) :
    parse opts none ((c0 :: w1) :: rest) = (0, c0 :: w1) :: parse opts none rest := by
  cases w1 <;> simp [parse, h]

/-- the body of `read` right after a word `w` was fetched (`arg` at its first byte, `inOpt` false) -/
theorem readWord_step (opts : List SOpt) (hok : OptsOk opts) {argv av : List Buf} {cur : Nat} {blk : Option Nat}
    {off : Nat} {so : Bool} {w : Word} {rest' : List Word}
    (hv : View ⟨av, cur, blk, off, false, so⟩ (term w) [] (w ++ [0])) (ha : av = argv)
    (hr : argv.drop cur = rest'.map term) (hwn : NoNul w) (hrn' : ∀ x ∈ rest', NoNul x) :
    (∃ st', readWord (opts.map toModel) ⟨av, cur, blk, off, false, so⟩ = some (none, st') ∧
        cont opts so [] (w :: rest') = []) ∨
    (∃ r st' pending' rest'', readWord (opts.map toModel) ⟨av, cur, blk, off, false, so⟩ = some (some r, st') ∧
        Rel argv st' pending' rest'' ∧ pending'.length + size rest'' < size (w :: rest') ∧
        cont opts so [] (w :: rest') = r :: cont opts st'.skipOpt pending' rest'') := by
  have hoff : off = 0 := by simpa using hv.2.2
  have hnon : ∀ so', View ⟨av, cur, blk, off, false, so'⟩ (term w) [] (w ++ [0]) →
      readTail (opts.map toModel) ⟨av, cur, blk, off, false, so'⟩ =
        some (some (0, w), ⟨av, cur, blk, off + w.length, false, so'⟩) := by
    intro so' hv'
    simp only [readTail, Bool.false_eq_true, if_false, takeRest_view hv' hwn]
  have hRnon : ∀ so', View ⟨av, cur, blk, off, false, so'⟩ (term w) [] (w ++ [0]) →
      Rel argv ⟨av, cur, blk, off + w.length, false, so'⟩ [] rest' :=
    fun so' hv' => Rel.afterTake hv' ha hr hrn'
  cases so with
  | true =>
    right
    refine ⟨(0, w), _, [], rest', ?_, hRnon true hv, by simp [size], ?_⟩
    · unfold readWord; simp only [Bool.not_true, Bool.and_false, Bool.false_eq_true, if_false]; exact hnon true hv
    · simp [cont]
  | false =>
    unfold readWord
    simp only [Bool.not_false, Bool.and_self, if_true, cont_nil]
    cases w with
    | nil =>
      right
      have hp := hv.peek 0
      simp only [List.nil_append, List.getElem?_cons_zero] at hp
      simp only [hp, show ¬ (0 : Nat) = 45 by decide, if_false]
      refine ⟨_, _, [], rest', hnon false hv, hRnon false hv, by simp [size], ?_⟩
      simp [cont, cluster, parse]
    | cons c0 w1 =>
      have hp := hv.peek 0
      simp only [List.cons_append, List.getElem?_cons_zero] at hp
      simp only [hp]
      by_cases h45 : c0 = 45
      case neg =>
        right
        simp only [h45, if_false]
        refine ⟨_, _, [], rest', hnon false hv, hRnon false hv, by simp [size], ?_⟩
        simp [cont, cluster, parse_nonopt opts c0 w1 rest' h45]
      case pos =>
        subst h45
        simp only [if_true]
        have hp1 := hv.peek 1
        simp only [List.cons_append, List.getElem?_cons_succ] at hp1
        cases w1 with
        | nil =>
          -- the word "-"
          right
          simp only [List.nil_append, List.getElem?_cons_zero] at hp1
          simp only [hp1, show ¬ (0 : Nat) = 45 by decide, if_false]
          have hv2 : View ⟨av, cur, blk, off + 1, false, false⟩ (term [45]) ([] ++ [45]) ([] ++ [0]) :=
            View.advance (st := ⟨av, cur, blk, off, false, false⟩) (x := [45]) (by simpa using hv) rfl rfl
          have hp2 := hv2.peek 0
          simp only [List.nil_append, List.getElem?_cons_zero] at hp2
          have hoff1 : ¬ off + 1 < 1 := by omega
          have hsl : slice (term [45]) (off + 1 - 1) 1 = some [45] := by
            simp [hoff, slice, term]
          simp only [hp2, if_true, hoff1, if_false, hv2.1, hsl]
          refine ⟨_, _, [], rest', rfl, ⟨ha, hr, ⟨_, _, hv2⟩, by intro x hx; simp at hx, hrn', by simp, by simp⟩,
            by simp [size], ?_⟩
          simp [cont, cluster, parse]
        | cons c1 body =>
          simp only [List.cons_append, List.getElem?_cons_zero] at hp1
          simp only [hp1]
          have hc1 : c1 ≠ 0 := hwn.tail.head
          by_cases h45' : c1 = 45
          case neg =>
            -- a cluster of short options
            right
            simp only [h45', if_false]
            have hv2 : View ⟨av, cur, blk, off + 1, false, false⟩ (term (45 :: c1 :: body)) ([] ++ [45])
                ((c1 :: body) ++ [0]) :=
              View.advance (st := ⟨av, cur, blk, off, false, false⟩) (x := [45]) (by simpa using hv) rfl rfl
            have hp2 := hv2.peek 0
            simp only [List.cons_append, List.getElem?_cons_zero] at hp2
            simp only [hp2, hc1, if_false]
            have hR2 : Rel argv ⟨av, cur, blk, off + 1, true, false⟩ (c1 :: body) rest' :=
              ⟨ha, hr, ⟨_, _, hv2⟩, hwn.tail, hrn', fun _ => rfl, by simp⟩
            obtain ⟨r, st', p', rest'', hrd, hR, hsk', hm, hc'⟩ := shortOpt_step opts hR2
            refine ⟨r, st', p', rest'', ?_, hR, by simp [size] at hm ⊢; omega, ?_⟩
            · simp only [readTail, if_true]; exact hrd
            · have hsk'' : st'.skipOpt = false := hsk'
              rw [parse_cluster opts c1 body rest' h45', hc']
              simp [cont, hsk'']
          case pos =>
            subst h45'
            simp only [if_true]
            have hv2 : View ⟨av, cur, blk, off + 2, false, false⟩ (term (45 :: 45 :: body)) ([] ++ [45, 45])
                (body ++ [0]) :=
              View.advance (st := ⟨av, cur, blk, off, false, false⟩) (x := [45, 45]) (by simpa using hv) rfl rfl
            have hp2 := hv2.peek 0
            cases body with
            | nil =>
              -- the word "--"
              simp only [List.nil_append, List.getElem?_cons_zero] at hp2
              simp only [hp2, if_true]
              have hv2' : View ⟨av, cur, blk, off + 2, false, true⟩ (term [45, 45]) ([] ++ [45, 45]) ([] ++ [0]) := hv2
              have hR2 : Rel argv ⟨av, cur, blk, off + 2, false, true⟩ [] rest' :=
                ⟨ha, hr, ⟨_, _, hv2'⟩, by intro x hx; simp at hx, hrn', by simp, by simp⟩
              cases rest' with
              | nil =>
                left
                rw [nextChar_end hR2]
                exact ⟨_, rfl, by simp [parse]⟩
              | cons v rest'' =>
                right
                obtain ⟨hn, hvf, hrf⟩ := nextChar_fetch hR2
                rw [hn]
                have hvn : NoNul v := hrn' v (by simp)
                have ht : readTail (opts.map toModel) (fetch ⟨av, cur, blk, off + 2, false, true⟩) =
                    some (some (0, v), { fetch ⟨av, cur, blk, off + 2, false, true⟩ with
                      off := (fetch ⟨av, cur, blk, off + 2, false, true⟩).off + v.length }) := by
                  simp only [readTail, fetch, Bool.false_eq_true, if_false]
                  exact takeRest_view hvf hvn 0
                refine ⟨_, _, [], rest'', ht, Rel.afterTake hvf ha hrf (fun x hx => hrn' x (by simp [hx])),
                  by simp [size]; omega, ?_⟩
                simp [parse, cont, fetch]
            | cons c2 body' =>
              right
              simp only [List.cons_append, List.getElem?_cons_zero] at hp2
              have hc2 : c2 ≠ 0 := hwn.tail.tail.head
              simp only [hp2, hc2, if_false]
              obtain ⟨r, st', rest'', hrd, hR, hsk', hm, hc'⟩ :=
                longOpt_step opts hok (st := ⟨av, cur, blk, off + 2, false, false⟩) (by simpa using hv2)
                  hwn.tail.tail ha hr hrn' rfl
              refine ⟨r, st', [], rest'', hrd, hR, by simp [size] at hm ⊢; omega, ?_⟩
              rw [parse_long, hc']
              simp [cont, hsk', cluster]

/-- one call of `read` from a state between two reads -/
theorem read_step (opts : List SOpt) (hok : OptsOk opts) {argv : List Buf} {st : St} {pending : List Nat}
    {rest : List Word} (h : Rel argv st pending rest) :
    (∃ st', read (opts.map toModel) st = some (none, st') ∧ cont opts st.skipOpt pending rest = []) ∨
    (∃ r st' pending' rest', read (opts.map toModel) st = some (some r, st') ∧ Rel argv st' pending' rest' ∧
       pending'.length + size rest' < pending.length + size rest ∧
       cont opts st.skipOpt pending rest = r :: cont opts st'.skipOpt pending' rest') := by
  cases pending with
  | cons c cs =>
    -- inside a cluster
    right
    obtain ⟨b, pre, hv⟩ := h.view
    have hp0 : st.peek 0 = some c := by rw [hv.peek]; simp
    have hc : c ≠ 0 := h.pnz.head
    have hin : st.inOpt = true := h.inopt (by simp)
    have hsk : st.skipOpt = false := by
      cases hs : st.skipOpt with
      | false => rfl
      | true => exact absurd (h.skip hs) (by simp)
    obtain ⟨r, st', p', rest', hrd, hR, hsk', hm, hc'⟩ := shortOpt_step opts h
    refine ⟨r, st', p', rest', ?_, hR, hm, ?_⟩
    · unfold read nextChar readWord
      simp only [hp0, hc, ne_eq, not_false_eq_true, if_true, hin, Bool.not_true, Bool.false_and,
        Bool.false_eq_true, if_false, readTail, hrd]
    · simp only [cont, hsk, hsk', Bool.false_eq_true, if_false]; exact hc'
  | nil =>
    cases rest with
    | nil =>
      left
      refine ⟨st, ?_, ?_⟩
      · unfold read; rw [nextChar_end h]
      · cases st.skipOpt <;> simp [cont, cluster, parse]
    | cons w rest' =>
      obtain ⟨hn, hvf, hrf⟩ := nextChar_fetch h
      have hwn : NoNul w := h.rnz w (by simp)
      have hrn' : ∀ x ∈ rest', NoNul x := fun x hx => h.rnz x (by simp [hx])
      have key := readWord_step opts hok (av := st.argv) (cur := st.cur + 1) (blk := some st.cur) (off := 0)
        (so := st.skipOpt) (w := w) (rest' := rest') hvf h.argv_eq hrf hwn hrn'
      unfold read
      rw [hn]
      simpa [size, fetch] using key


/-- the caller's loop from any state between two reads: with fuel beyond the number of remaining
    characters and words it ends with exactly the specified results; with any fuel it never faults -/
theorem readAll_spec (opts : List SOpt) (hok : OptsOk opts) {argv : List Buf} :
    ∀ (n : Nat) (st : St) (pending : List Nat) (rest : List Word), Rel argv st pending rest →
      (pending.length + size rest < n → readAll (opts.map toModel) n st = .ok (cont opts st.skipOpt pending rest)) ∧
      readAll (opts.map toModel) n st ≠ .fault := by
  intro n
  induction n with
  | zero => intro st pending rest _; exact ⟨fun h => absurd h (Nat.not_lt_zero _), by simp [readAll]⟩
  | succ n ih =>
    intro st pending rest h
    rcases read_step opts hok h with ⟨st', hrd, hc⟩ | ⟨r, st', p', rest', hrd, hR, hm, hc⟩
    · simp [readAll, hrd, hc]
    · have ih' := ih st' p' rest' hR
      refine ⟨fun hlt => ?_, ?_⟩
      · simp only [readAll, hrd, ih'.1 (by omega), Run.cons, hc]
      · simp only [readAll, hrd]
        cases hq : readAll (opts.map toModel) n st' with
        | fault => exact absurd hq ih'.2
        | fuel => simp [Run.cons]
        | ok rs => simp [Run.cons]

theorem Rel.init (prog : Buf) (ws : List Word) (hws : ∀ w ∈ ws, NoNul w) :
    Rel (prog :: ws.map term) (St.init (prog :: ws.map term)) [] ws :=
  ⟨rfl, by simp [St.init], ⟨[0], [], rfl, rfl, rfl⟩, by intro x hx; simp at hx, hws, by simp, by simp [St.init]⟩

end Nstd.Args
