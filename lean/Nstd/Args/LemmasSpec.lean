import Nstd.Args.LemmasRead
/-
  Sanity of the getopt specification itself: a command line written in the usual way from a list
  of intended options / values / positional words is parsed back into exactly that list.
-/
namespace Nstd.Args
open Spec

inductive Item where
  | flag (c : Nat)                      -- `-c`
  | shortDetached (c : Nat) (v : Word)  -- `-c value`
  | shortAttached (c : Nat) (v : Word)  -- `-cvalue`
  | longValue (name v : Word)           -- `--name=value`
  | longDetached (name v : Word)        -- `--name value`
  | longFlag (name : Word)              -- `--name`
  | positional (w : Word)
  deriving Repr

def Item.render : Item → List Word
  | .flag c => [[45, c]]
  | .shortDetached c v => [[45, c], v]
  | .shortAttached c v => [45 :: c :: v]
  | .longValue n v => [45 :: 45 :: (n ++ 61 :: v)]
  | .longDetached n v => [45 :: 45 :: n, v]
  | .longFlag n => [45 :: 45 :: n]
  | .positional w => [w]

def longChar (opts : List SOpt) (n : Word) (hasValue : Bool) : Int :=
  match findLong opts n hasValue with
  | some o => o.character
  | none => 0

def Item.result (opts : List SOpt) : Item → Res
  | .flag c => (letter c, [])
  | .shortDetached c v => (letter c, v)
  | .shortAttached c v => (letter c, v)
  | .longValue n v => (longChar opts n true, v)
  | .longDetached n v => (longChar opts n false, v)
  | .longFlag n => (longChar opts n false, [])
  | .positional w => (0, w)

/-- the item is written the way the option table allows -/
def Item.Valid (opts : List SOpt) : Item → Prop
  | .flag c => c ≠ 45 ∧ ∃ o, findShort opts c = some o ∧ o.takesArg = false
  | .shortDetached c _ => c ≠ 45 ∧ ∃ o, findShort opts c = some o ∧ o.takesArg = true ∧ o.optional = false
  | .shortAttached c v => c ≠ 45 ∧ v ≠ [] ∧ ∃ o, findShort opts c = some o ∧ o.takesArg = true
  | .longValue n _ => n ≠ [] ∧ 61 ∉ n ∧ ∃ o, findLong opts n true = some o
  | .longDetached n _ => n ≠ [] ∧ 61 ∉ n ∧ ∃ o, findLong opts n false = some o ∧ o.takesArg = true ∧ o.optional = false
  | .longFlag n => n ≠ [] ∧ 61 ∉ n ∧ ∃ o, findLong opts n false = some o ∧ (o.takesArg = false ∨ o.optional = true)
  | .positional w => w.head? ≠ some 45

theorem splitEq_noeq (n : Word) (h : 61 ∉ n) : splitEq n = (n, none) := by
  induction n with
  | nil => simp [splitEq]
  | cons c cs ih =>
    have hc : c ≠ 61 := fun e => h (by simp [e])
    have := ih (fun hm => h (by simp [hm]))
    simp [splitEq, hc, this]

theorem splitEq_value (n v : Word) (h : 61 ∉ n) : splitEq (n ++ 61 :: v) = (n, some v) := by
  induction n with
  | nil => simp [splitEq]
  | cons c cs ih =>
    have hc : c ≠ 61 := fun e => h (by simp [e])
    have := ih (fun hm => h (by simp [hm]))
    simp [splitEq, hc, this]

theorem parse_render (opts : List SOpt) (it : Item) (hv : it.Valid opts) (rest : List Word) :
    parse opts none (it.render ++ rest) = it.result opts :: parse opts none rest := by
  cases it with
  | flag c =>
    obtain ⟨hc, o, hf, ht⟩ := hv
    simp only [Item.render, Item.result, List.cons_append, List.nil_append]
    rw [parse_cluster opts c [] rest hc]
    simp [cluster, hf, ht]
  | shortDetached c v =>
    obtain ⟨hc, o, hf, ht, ho⟩ := hv
    simp only [Item.render, Item.result, List.cons_append, List.nil_append]
    rw [parse_cluster opts c [] (v :: rest) hc]
    simp [cluster, hf, ht, ho, parse]
  | shortAttached c v =>
    obtain ⟨hc, hne, o, hf, ht⟩ := hv
    simp only [Item.render, Item.result, List.cons_append, List.nil_append]
    rw [parse_cluster opts c v rest hc]
    have : v.isEmpty = false := by cases v <;> simp_all
    simp [cluster, hf, ht, this]
  | longValue n v =>
    obtain ⟨hne, h61, o, hf⟩ := hv
    simp only [Item.render, Item.result, List.cons_append, List.nil_append]
    cases n with
    | nil => exact absurd rfl hne
    | cons c cs =>
      have ht := findLong_takesArg hf
      rw [show (45 :: 45 :: ((c :: cs) ++ 61 :: v)) = 45 :: 45 :: c :: (cs ++ 61 :: v) from rfl, parse_long]
      have hs := splitEq_value (c :: cs) v h61
      simp only [List.cons_append] at hs
      simp [specLong, hs, hf, ht, longChar]
  | longDetached n v =>
    obtain ⟨hne, h61, o, hf, ht, ho⟩ := hv
    simp only [Item.render, Item.result, List.cons_append, List.nil_append]
    cases n with
    | nil => exact absurd rfl hne
    | cons c cs =>
      rw [parse_long]
      have hs := splitEq_noeq (c :: cs) h61
      simp [specLong, hs, hf, ht, ho, longChar, parse]
  | longFlag n =>
    obtain ⟨hne, h61, o, hf, hto⟩ := hv
    simp only [Item.render, Item.result, List.cons_append, List.nil_append]
    cases n with
    | nil => exact absurd rfl hne
    | cons c cs =>
      rw [parse_long]
      have hs := splitEq_noeq (c :: cs) h61
      rcases hto with ht | ho
      · simp [specLong, hs, hf, ht, longChar]
      · by_cases ht : o.takesArg = true
        · simp [specLong, hs, hf, ht, ho, longChar]
        · have ht' : o.takesArg = false := by simpa using ht
          simp [specLong, hs, hf, ht', longChar]
  | positional w =>
    simp only [Item.render, Item.result, List.cons_append, List.nil_append]
    cases w with
    | nil => simp [parse]
    | cons c cs =>
      have hc : c ≠ 45 := by simpa [Item.Valid] using hv
      exact parse_nonopt opts c cs rest hc

theorem getopt_render (opts : List SOpt) (items : List Item) (hv : ∀ it ∈ items, it.Valid opts) :
    getopt opts (items.flatMap Item.render) = items.map (Item.result opts) := by
  unfold getopt
  induction items with
  | nil => simp [parse]
  | cons it items ih =>
    simp only [List.flatMap_cons, List.map_cons]
    rw [parse_render opts it (hv it (by simp)), ih (fun x hx => hv x (by simp [hx]))]

/-- the table of the correspondence run: a/alpha flag, b flag without long name, o/out required value, p/opt optional value -/
def exTable : List SOpt :=
  [⟨97, some [97, 108, 112, 104, 97], 0⟩, ⟨98, none, 0⟩, ⟨111, some [111, 117, 116], 1⟩, ⟨112, some [111, 112, 116], 3⟩]


end Nstd.Args
