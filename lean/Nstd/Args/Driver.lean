import Nstd.Common.Basic
import Nstd.Args.Model
import Nstd.Args.Kernel
/-
  Line protocol of the Args area (property C20).  One op per line, one observation line per op.

    reset                                   → ready
    args <opts> <word>...                   → r <character>:<argument hex> ... end      (or ... LOOP / FAULT)
         opts = `-` | `c.name.flags,...`  (c, flags decimal; name hex, `~` null pointer, `-` empty)
    split <command line hex>                → s <n> <word hex>...
    run <form> <streams> <env> <word>...    → x ok=1 pipes=<p> argv=<hex,...> env=<inherit|hex,...>
         form = cmd | startcmd (one word: the text behind the executable) | argv | argvz | startargv |
                startargvz | list ;  env = `-` | `khex=vhex,...`
    io <streams> <n> <seed> <code>          → io ok=1 pipes=<p>
    exit <code>                             → exit ok=1
    p <op> ...                              → p ok=<0|1> st=<running><out><err><in>      (one Process object)
         op = new | start <code> | open <mask> <code> | openfail <mask> | join | kill | close <mask> | running | read3 <mask>
    killtest <mask>                         → kill ok=1
    fds                                     → fds          (the harness adds the number of leaked descriptors)
    execfail <path|empty|blank> <streams>   → xf ok=1 pipes=<p>   (an executable that cannot be started)
    late <order> <mask> <ms> <code>         → late ok=1 pipes=<p> exit=<code|-> completed=<0|1>
         order = join | dtor | readjoin | closejoin | kill; exit/completed come from the join-first pipe model
         `Kernel.SysJ.exec` with join() as coded (`joinProgram`); `kill` assumes the child is still waiting
    eofjoin <join|dtor> <mask> <n> <code>   → ej ok=1 pipes=<p> exit=<code|->      (the child reads stdin to the end first;
         `Kernel.SysJ.exec` with `reads := true` and three pending input bytes)
    sig <mask> <signal>                     → sig ok=1 pipes=<p>
    killbusy <mask>                         → kb ok=1 pipes=<p>
    fdtable <streams>                       → ft ok=1 out=<holders> err=<holders> in=<holders>
         holders = none | P:<mode>@<member>,...;C:<mode>@<descriptor>,...   from the descriptor-table model
         Kernel.openFds (the real tables are read through /proc by the harness)
    env set <name> <value> | env get <name> <default> | env all
                                            → e ok=<0|1> | e val=<hex> | e all=<name=value hex,... in Map order>
         (the variables set through the API; the harness uses names starting with NVT_ and removes them at reset)
  An inherited environment is shown as `env=inherit:<the API-set variables, sorted as strings>`.

  The harness prints the same prefix followed by ` | <what the kernel delivered>`; that part is
  judged by the Python reference only (the model stops at execvpe/pipe).
-/
open Nstd.Common
namespace Nstd.Args

def childName : Str := "CHILD".toList.map Char.toNat

def parseOpt (t : String) : Option Opt :=
  match t.splitOn "." with
  | [c, n, f] => do
    let ch ← c.toInt?
    let fl ← f.toNat?
    let nm ← if n == "~" then some none else (fromHex n).map (fun b => some (b ++ [0]))
    pure { character := ch, name := nm, flags := fl }
  | _ => none

def parseOpts (t : String) : Option (List Opt) :=
  if t == "-" then some [] else (t.splitOn ",").mapM parseOpt

def runArgs (opts : List Opt) : Nat → St → String → String
  | 0, _, acc => acc ++ " LOOP"
  | f + 1, st, acc =>
    match read opts st with
    | none => "FAULT"
    | some (none, _) => acc ++ " end"
    | some (some (c, a), st') => runArgs opts f st' (acc ++ s!" {c}:{toHex a}")

def lexLt : List Nat → List Nat → Bool
  | [], [] => false
  | [], _ :: _ => true
  | _ :: _, [] => false
  | a :: r, b :: s => if a < b then true else if b < a then false else lexLt r s

/-- `Map<String, String>::insert` -/
def mapInsert (k v : Str) : List (Str × Str) → List (Str × Str)
  | [] => [(k, v)]
  | (k', v') :: r =>
    if lexLt k k' then (k, v) :: (k', v') :: r
    else if k == k' then (k, v) :: r
    else (k', v') :: mapInsert k v r

def parseEnv (t : String) : Option (List (Str × Str)) :=
  if t == "-" then some []
  else do
    let kvs ← (t.splitOn ",").mapM (fun e =>
      match e.splitOn "=" with
      | [k, v] => do pure ((← fromHex k), (← fromHex v))
      | _ => none)
    pure (kvs.foldl (fun m kv => mapInsert kv.1 kv.2 m) [])

def insertSorted (x : Str) : List Str → List Str
  | [] => [x]
  | y :: r => if lexLt x y then x :: y :: r else y :: insertSorted x r

def hexList (l : List Str) : String := if l.isEmpty then "-" else ",".intercalate (l.map toHex)

def showExec (pe : PEnv) (e : Exec) : String :=
  s!"x ok=1 pipes={e.pipes} argv={",".intercalate (e.argv.map toHex)} env=" ++
    (match e.env with
     | none => "inherit:" ++ hexList ((prepareEnv pe).foldl (fun acc x => insertSorted x acc) [])
     | some l => ",".intercalate (l.map toHex))

def runOp (pe : PEnv) (form : String) (streams : Nat) (env : List (Str × Str)) (ws : List Str) : Option String :=
  let isStart := form.startsWith "start"
  if isStart && streams != 0 then none
  else
    let r : Option (Option Exec) :=
      match form, ws with
      | "cmd", [rest] => some (openCommand (if rest.isEmpty then childName else childName ++ [32] ++ rest) streams env)
      | "startcmd", [rest] => some (openCommand (if rest.isEmpty then childName else childName ++ [32] ++ rest) streams env)
      | "list", _ => some (openList childName ws streams env)
      | "argv", _ => some (openArgv childName ws.length (ws.map some) streams env)
      | "startargv", _ => some (openArgv childName ws.length (ws.map some) streams env)
      | "argvz", _ => some (openArgv childName (ws.length + 1) (ws.map some ++ [none]) streams env)
      | "startargvz", _ => some (openArgv childName (ws.length + 1) (ws.map some ++ [none]) streams env)
      | _, _ => none
    match r with
    | none => none
    | some none => some "FAULT"
    | some (some e) => some (showExec pe e)

def b01 (b : Bool) : String := if b then "1" else "0"

/-- the descriptor-table model run on the table {0,1,2} with `pipe()` returning 3/4, 5/6, 7/8 -/
def fdTableLine (streams : Nat) : String :=
  let base : Kernel.FdTable := fun x => if x < 3 then some (.other x) else none
  let r := Kernel.openFds streams ⟨3, 4, 5, 6, 7, 8⟩ base
  let role (x : Nat) : String :=
    if x ≠ 0 ∧ x = r.fdStdOutRead then "out" else if x ≠ 0 ∧ x = r.fdStdErrRead then "err"
    else if x ≠ 0 ∧ x = r.fdStdInWrite then "in" else s!"fd{x}"
  let holders (t : Kernel.FdTable) (p : Nat) (name : Nat → String) : String :=
    let l := (List.range 16).filterMap (fun x =>
      if t x = some (.rd p) then some ("r@" ++ name x) else if t x = some (.wr p) then some ("w@" ++ name x) else none)
    if l.isEmpty then "-" else ",".intercalate l
  let one (p : Nat) (member : Nat) : String :=
    if member = 0 then "none" else "P:" ++ holders r.parent p role ++ ";C:" ++ holders r.child p toString
  s!"ft ok=1 out={one 0 r.fdStdOutRead} err={one 1 r.fdStdErrRead} in={one 2 r.fdStdInWrite}"

def stepLine' (pe : PEnv) (ws : List String) : String :=
    match ws with
    | "args" :: o :: words =>
      match parseOpts o, words.mapM fromHex with
      | some opts, some wl =>
        let total := (wl.map (·.length + 1)).foldl (· + ·) 0
        let argv : List Buf := ("prog".toList.map Char.toNat ++ [0]) :: wl.map (· ++ [0])
        runArgs opts (2 * total + 8 + 1) (St.init argv) "r"
      | _, _ => "bad-op"
    | ["split", h] =>
      match fromHex h with
      | none => "bad-op"
      | some s =>
        match splitCommandLine (s ++ [0]) with
        | .done cmd => s!"s {cmd.length}" ++ String.join (cmd.map (fun w => " " ++ toHex w))
        | .fault => "FAULT"
        | .fuel => "LOOP"
    | "run" :: form :: streams :: env :: words =>
      match streams.toNat?, parseEnv env, words.mapM fromHex with
      | some s, some e, some wl => (runOp pe form s e wl).getD "bad-op"
      | _, _, _ => "bad-op"
    | ["io", streams, n, seed, code] =>
      match streams.toNat?, n.toNat?, seed.toNat?, code.toNat? with
      | some s, some _, some _, some _ => s!"io ok=1 pipes={s % 8}"
      | _, _, _, _ => "bad-op"
    | ["exit", code] =>
      match code.toNat? with
      | some _ => "exit ok=1"
      | none => "bad-op"
    | ["fds"] => "fds"
    | ["late", order, m, ms, code] =>
      match m.toNat?, ms.toNat?, code.toNat? with
      | some m, some _, some c =>
        let m := m % 8
        -- the short line the child writes to each redirected output stream (25 bytes, far below any pipe capacity)
        let line := (List.range 25).map (fun _ => 120)
        let out := if m % 2 == 1 then line else []
        let err := if m / 2 % 2 == 1 then line else []
        let show1 (r : Option Nat × Bool) (withCode : Bool) : String :=
          s!"late ok=1 pipes={m} exit={if withCode then (match r.1 with | some x => toString x | none => "-") else "-"} completed={b01 r.2}"
        if order == "join" || order == "readjoin" then
          show1 (Kernel.SysJ.exec 200 (Kernel.SysJ.init 65536 Kernel.joinProgram (m / 4 % 2 == 1) (m % 2 == 1) (m / 2 % 2 == 1) false [] out err c)) true
        else if order == "dtor" then
          show1 (Kernel.SysJ.exec 200 (Kernel.SysJ.init 65536 Kernel.joinProgram (m / 4 % 2 == 1) (m % 2 == 1) (m / 2 % 2 == 1) false [] out err c)) false
        else if order == "closejoin" then
          show1 (Kernel.SysJ.exec 200 (Kernel.SysJ.init 65536 ([.closeIn, .closeOut, .closeErr] ++ Kernel.joinProgram) (m / 4 % 2 == 1) (m % 2 == 1) (m / 2 % 2 == 1) false [] out err c)) true
        else if order == "kill" then s!"late ok=1 pipes={m} exit=- completed=0"
        else "bad-op"
      | _, _, _ => "bad-op"
    | ["eofjoin", order, m, n, code] =>
      match m.toNat?, n.toNat?, code.toNat? with
      | some m, some n, some c =>
        let m := m % 4 + 4
        let data := (List.range n).map (fun _ => 120)
        let r := Kernel.SysJ.exec (2 * n + 64) (Kernel.SysJ.init 65536 Kernel.joinProgram true (m % 2 == 1) (m / 2 % 2 == 1) true
          [97, 98, 99] (if m % 2 == 1 then data else []) (if m / 2 % 2 == 1 then data else []) c)
        if order == "join" then
          s!"ej ok=1 pipes={m} exit={match r.1 with | some x => toString x | none => "never"}"
        else if order == "dtor" then (if r.1.isSome then s!"ej ok=1 pipes={m} exit=-" else s!"ej ok=1 pipes={m} exit=never")
        else "bad-op"
      | _, _, _ => "bad-op"
    | ["sig", m, sg] =>
      match m.toNat?, sg.toNat? with
      | some m, some _ => s!"sig ok=1 pipes={m % 8}"
      | _, _ => "bad-op"
    | ["killbusy", m] =>
      match m.toNat? with
      | some m => s!"kb ok=1 pipes={m % 8}"
      | none => "bad-op"
    | ["fdtable", m] =>
      match m.toNat? with
      | some m => fdTableLine (m % 8)
      | none => "bad-op"
    | ["execfail", kind, streams] =>
      -- the launch itself succeeds (vfork); what the failing execvpe leaves behind is the kernel's part
      match streams.toNat? with
      | none => "bad-op"
      | some m =>
        let r : Option (Option Exec) :=
          if kind == "path" then
            some (openArgv ("/nonexistent-nstd-verif/args-child".toList.map Char.toNat) 2
              [some ("/nonexistent-nstd-verif/args-child".toList.map Char.toNat), some [97]] m [])
          else if kind == "empty" then some (openCommand [] m [])
          else if kind == "blank" then some (openCommand [32] m [])
          else none
        match r with
        | none => "bad-op"
        | some none => "FAULT"
        | some (some e) => s!"xf ok=1 pipes={e.pipes}"
    | ["killtest", m] =>
      match m.toNat? with
      | some _ => "kill ok=1"
      | none => "bad-op"
    | _ => "bad-op"

def showProc (r : Bool) (p : Proc) : String :=
  s!"p ok={b01 r} st={b01 p.running}{b01 p.out}{b01 p.err}{b01 p.inp}"

def parsePOp : List String → Option POp
  | ["new"] => some .destroy
  | ["start", c] => c.toNat?.map (fun _ => .start)
  | ["open", m, c] => do let m ← m.toNat?; let _ ← c.toNat?; pure (.openp m)
  | ["openfail", m] => m.toNat?.map .openFailed
  | ["join"] => some .join
  | ["kill"] => some .kill
  | ["close", m] => m.toNat?.map .close
  | ["running"] => some .isRunning
  | ["read3", m] => m.toNat?.map .read3
  | _ => none

def stepLine (st : Proc × PEnv) (ws : List String) : (Proc × PEnv) × String :=
  match ws with
  | ["reset"] => ((Proc.init, []), "ready")
  | "p" :: rest =>
    match parsePOp rest with
    | none => (st, "bad-op")
    | some op => let (p', r) := st.1.step op; ((p', st.2), showProc r p')
  | ["env", "set", k, v] =>
    match fromHex k, fromHex v with
    | some k, some v => let (pe, r) := setEnvironmentVariable st.2 k v; ((st.1, pe), s!"e ok={b01 r}")
    | _, _ => (st, "bad-op")
  | ["env", "get", k, d] =>
    match fromHex k, fromHex d with
    | some k, some d => (st, s!"e val={toHex (getEnvironmentVariable st.2 k d)}")
    | _, _ => (st, "bad-op")
  | ["env", "all"] =>
    -- getEnvironmentVariables(): a Map, i.e. sorted by name
    (st, "e all=" ++ hexList (prepareEnv (st.2.foldl (fun m kv => mapInsert kv.1 kv.2 m) [])))
  | _ => (st, stepLine' st.2 ws)

end Nstd.Args

def main : IO Unit := Nstd.Common.ioLoop (Nstd.Args.Proc.init, []) Nstd.Args.stepLine
