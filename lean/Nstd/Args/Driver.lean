import Nstd.Common.Basic
import Nstd.Args.Model
import Nstd.Args.Kernel
import Nstd.Args.Wait
import Nstd.Args.ReadSel
import Nstd.Args.KernelFail
/-
  Line protocol of the Args area (property C20).  One op per line, one observation line per op.

    reset                                   → ready
    args <opts> <word>...                   → r <character>:<argument hex> ... end      (or ... LOOP / FAULT)
         opts = `-` | `c.name.flags,...`  (c, flags decimal; name hex, `~` null pointer, `-` empty)
    split <command line hex>                → s <n> <word hex>...
    run <form> <streams> <env> <word>...    → x ok=1 pipes=<p> argv=<hex,...> env=<inherit|hex,...>
         form = cmd | startcmd (one word: the text behind the executable) | argv | argvz | startargv |
                startargvz | list ;  env = `-` | `khex=vhex,...`
    io <streams> <n> <seed> <code>          → io ok=1 pipes=<p>
    exit <code>                             → exit ok=1
    p <op> ...                              → p ok=<0|1> st=<running><out><err><in>      (one Process object)
         op = new | start <code> | open <mask> <code> | openfail <mask> | join | kill | close <mask> | running | read3 <mask>
    killtest <mask>                         → kill ok=1
    fds                                     → fds          (the harness adds the number of leaked descriptors)
    execfail <path|empty|blank> <streams>   → xf ok=1 pipes=<p>   (an executable that cannot be started)
    late <order> <mask> <ms> <code>         → late ok=1 pipes=<p> exit=<code|-> completed=<0|1>
         order = join | dtor | readjoin | closejoin | kill; exit/completed come from the join-first pipe model
         `Kernel.SysJ.exec` with join() as coded (`joinProgram`); `kill` assumes the child is still waiting
    eofjoin <join|dtor> <mask> <n> <code>   → ej ok=1 pipes=<p> exit=<code|->      (the child reads stdin to the end first;
         `Kernel.SysJ.exec` with `reads := true` and three pending input bytes)
    sig <mask> <signal>                     → sig ok=1 pipes=<p>
    killbusy <mask>                         → kb ok=1 pipes=<p>
    fdtable <streams>                       → ft ok=1 out=<holders> err=<holders> in=<holders>
         holders = none | P:<mode>@<member>,...;C:<mode>@<descriptor>,...   from the descriptor-table model
         Kernel.openFds (the real tables are read through /proc by the harness)
    env set <name> <value> | env get <name> <default> | env all
                                            → e ok=<0|1> | e val=<hex> | e all=<name=value hex,... in Map order>
         (the variables set through the API; the harness uses names starting with NVT_ and removes them at reset)
    env putraw <entry without =>            → e ok=1   (an entry the application put into environ itself; not a variable)
    p joinv | p startargv <code> | p opencmd <mask> <code> | p openfailpipe <mask> <k>
                                            → as join / start / open / openfail (other overloads, the k-th pipe() failing)
    pexit <code>                            → pexit ok=1 code=<code>      (Process::exit in a forked copy; repaired code)
    ids                                     → ids pid=1 exe=1
    io2 <n> <seed> <code>                   → io2 ok=1 pipes=5            (two-argument read, write, close(streams))
    w new | w start <i> z <code> | w start <i> r | w die <i> | w join <i> | w kill <i> | w intr | w wait <list> <ms> <pick>
                                            → w <op> ... pend=<0|1> kids=<n> zombies=<n>
         Process::wait / interrupt over four Process objects, run on the transition system of Wait.lean; <pick> = the
         object whose terminated child the kernel reports to waitid (`-` = none), <ms> > 0 = another thread interrupts
    sel <nout> <nerr> <hold> <swap> <len.streams.script>...
                                            → sel ok=1 r=<n>/<stream>/<o|e|-> | r=einval ...   (Process::read(buf, len, streams) on the
         model ReadSel.read3; script letters T = select times out, I = EINTR; then select returns)
    joinfail <mask> <k> <code>              → jf ok=1 j=0/<running><out><err><in> (k times) j=1/0000/<code>     (waitpid fails k times)
    startfail <cmd|argv>                    → sf pid=0 st=0000
    dmn <ok|nofile>                         → dmn ret=<0|1> fd0=<same|log|closed> fd1=.. fd2=.. fd3=..   (daemonize on Kernel.daemonizeFds)
  An inherited environment is shown as `env=inherit:<the API-set variables, sorted as strings>`.

  The harness prints the same prefix followed by ` | <what the kernel delivered>`; that part is
  judged by the Python reference only (the model stops at execvpe/pipe).
-/
open Nstd.Common
namespace Nstd.Args

def childName : Str := "CHILD".toList.map Char.toNat

def parseOpt (t : String) : Option Opt :=
  match t.splitOn "." with
  | [c, n, f] => do
    let ch ← c.toInt?
    let fl ← f.toNat?
    let nm ← if n == "~" then some none else (fromHex n).map (fun b => some (b ++ [0]))
    pure { character := ch, name := nm, flags := fl }
  | _ => none

def parseOpts (t : String) : Option (List Opt) :=
  if t == "-" then some [] else (t.splitOn ",").mapM parseOpt

def runArgs (opts : List Opt) : Nat → St → String → String
  | 0, _, acc => acc ++ " LOOP"
  | f + 1, st, acc =>
    match read opts st with
    | none => "FAULT"
    | some (none, _) => acc ++ " end"
    | some (some (c, a), st') => runArgs opts f st' (acc ++ s!" {c}:{toHex a}")

def lexLt : List Nat → List Nat → Bool
  | [], [] => false
  | [], _ :: _ => true
  | _ :: _, [] => false
  | a :: r, b :: s => if a < b then true else if b < a then false else lexLt r s

/-- `Map<String, String>::insert` -/
def mapInsert (k v : Str) : List (Str × Str) → List (Str × Str)
  | [] => [(k, v)]
  | (k', v') :: r =>
    if lexLt k k' then (k, v) :: (k', v') :: r
    else if k == k' then (k, v) :: r
    else (k', v') :: mapInsert k v r

def parseEnv (t : String) : Option (List (Str × Str)) :=
  if t == "-" then some []
  else do
    let kvs ← (t.splitOn ",").mapM (fun e =>
      match e.splitOn "=" with
      | [k, v] => do pure ((← fromHex k), (← fromHex v))
      | _ => none)
    pure (kvs.foldl (fun m kv => mapInsert kv.1 kv.2 m) [])

def insertSorted (x : Str) : List Str → List Str
  | [] => [x]
  | y :: r => if lexLt x y then x :: y :: r else y :: insertSorted x r

def hexList (l : List Str) : String := if l.isEmpty then "-" else ",".intercalate (l.map toHex)

def showExec (pe : PEnv) (e : Exec) : String :=
  s!"x ok=1 pipes={e.pipes} argv={",".intercalate (e.argv.map toHex)} env=" ++
    (match e.env with
     | none => "inherit:" ++ hexList ((prepareEnv pe).foldl (fun acc x => insertSorted x acc) [])
     | some l => ",".intercalate (l.map toHex))

def runOp (pe : PEnv) (form : String) (streams : Nat) (env : List (Str × Str)) (ws : List Str) : Option String :=
  let isStart := form.startsWith "start"
  if isStart && streams != 0 then none
  else
    let r : Option (Option Exec) :=
      match form, ws with
      | "cmd", [rest] => some (openCommand (if rest.isEmpty then childName else childName ++ [32] ++ rest) streams env)
      | "startcmd", [rest] => some (openCommand (if rest.isEmpty then childName else childName ++ [32] ++ rest) streams env)
      | "list", _ => some (openList childName ws streams env)
      | "argv", _ => some (openArgv childName ws.length (ws.map some) streams env)
      | "startargv", _ => some (openArgv childName ws.length (ws.map some) streams env)
      | "argvz", _ => some (openArgv childName (ws.length + 1) (ws.map some ++ [none]) streams env)
      | "startargvz", _ => some (openArgv childName (ws.length + 1) (ws.map some ++ [none]) streams env)
      | _, _ => none
    match r with
    | none => none
    | some none => some "FAULT"
    | some (some e) => some (showExec pe e)

def b01 (b : Bool) : String := if b then "1" else "0"

/-- the descriptor-table model run on the table {0,1,2} with `pipe()` returning 3/4, 5/6, 7/8 -/
def fdTableLine (streams : Nat) : String :=
  let base : Kernel.FdTable := fun x => if x < 3 then some (.other x) else none
  let r := Kernel.openFds streams ⟨3, 4, 5, 6, 7, 8⟩ base
  let role (x : Nat) : String :=
    if x ≠ 0 ∧ x = r.fdStdOutRead then "out" else if x ≠ 0 ∧ x = r.fdStdErrRead then "err"
    else if x ≠ 0 ∧ x = r.fdStdInWrite then "in" else s!"fd{x}"
  let holders (t : Kernel.FdTable) (p : Nat) (name : Nat → String) : String :=
    let l := (List.range 16).filterMap (fun x =>
      if t x = some (.rd p) then some ("r@" ++ name x) else if t x = some (.wr p) then some ("w@" ++ name x) else none)
    if l.isEmpty then "-" else ",".intercalate l
  let one (p : Nat) (member : Nat) : String :=
    if member = 0 then "none" else "P:" ++ holders r.parent p role ++ ";C:" ++ holders r.child p toString
  s!"ft ok=1 out={one 0 r.fdStdOutRead} err={one 1 r.fdStdErrRead} in={one 2 r.fdStdInWrite}"

/-! ### Process::wait / interrupt (Wait.lean) -/

def wEnd (s : Wait.St) : String :=
  let held := (List.range 4).filter (fun i => (s.objs i).1 != 0)
  let zomb := held.filter (fun i => match s.procs (s.objs i).1 with | some (_, some _) => true | _ => false)
  s!" pend={b01 (s.sig != .zero)} kids={held.length} zombies={zomb.length}"

def wFresh (s : Wait.St) : Nat := s.nextCid + 1          -- the driver's kernel never reuses a pid (the theorems allow reuse)

/-- the owner thread runs `wait` to its return; when it blocks and another thread is going to interrupt, the
    interrupt happens there (the dummy child is then the only terminated child).  `none` = blocks for ever -/
def wRun : Nat → Wait.St → Nat → Bool → Option (Wait.St × Bool)
  | 0, _, _, _ => none
  | f + 1, s, pick, canIntr =>
    if s.pc = .idle then some (s, canIntr)
    else
      match Wait.waiterStep s pick with
      | some s' => wRun f s' pick canIntr
      | none =>
        if canIntr then
          match Wait.interrupt s (wFresh s) with
          | some s' => wRun f s' (match s'.sig with | .pid p => p | _ => pick) false
          | none => none
        else none

def wIndex (t : String) : Option Nat :=
  match t.toNat? with
  | some i => if i < 4 ∧ t.length = 1 then some i else none
  | none => none

def wList (t : String) : Option (List Nat) :=
  if t == "-" then some [] else t.toList.mapM (fun c => wIndex c.toString)

def wStep (s : Wait.St) (ws : List String) : Wait.St × String :=
  match ws with
  | ["new"] => (Wait.St.init, "w new" ++ wEnd Wait.St.init)
  | ["start", i, "z", c] =>
    match wIndex i, c.toNat? with
    | some i, some c =>
      match Wait.start s i (wFresh s) with
      | some s1 =>
        match Wait.childExit s1 (wFresh s) c with
        | some s2 => (s2, "w start ok=1" ++ wEnd s2)
        | none => (s, "FAULT")
      | none => (s, "w start ok=0" ++ wEnd s)
    | _, _ => (s, "bad-op")
  | ["start", i, "r"] =>
    match wIndex i with
    | some i =>
      match Wait.start s i (wFresh s) with
      | some s1 => (s1, "w start ok=1" ++ wEnd s1)
      | none => (s, "w start ok=0" ++ wEnd s)
    | none => (s, "bad-op")
  | ["die", i] =>
    match wIndex i with
    | some i =>
      match (if (s.objs i).1 = 0 then none else Wait.childExit s (s.objs i).1 0) with
      | some s1 => (s1, "w die ok=1" ++ wEnd s1)
      | none => (s, "w die ok=0" ++ wEnd s)
    | none => (s, "bad-op")
  | ["join", i] =>
    match wIndex i with
    | some i =>
      if (s.objs i).1 = 0 then (s, "w join ok=0 code=-" ++ wEnd s)
      else
        match Wait.join s i with
        | some (s1, c) => (s1, s!"w join ok=1 code={c}" ++ wEnd s1)
        | none => (s, "BLOCK")
    | none => (s, "bad-op")
  | ["kill", i] =>
    match wIndex i with
    | some i =>
      match Wait.kill s i with
      | some s1 => (s1, "w kill ok=1" ++ wEnd s1)
      | none => (s, "w kill ok=0" ++ wEnd s)
    | none => (s, "bad-op")
  | ["intr"] =>
    match Wait.interrupt s (wFresh s) with
    | some s1 => (s1, "w intr" ++ wEnd s1)
    | none => (s, "FAULT")
  | ["wait", l, ms, pick] =>
    match wList l, ms.toNat? with
    | some l, some ms =>
      let pickPid := match wIndex pick with | some i => (s.objs i).1 | none => 0
      match Wait.waitCall s l with
      | none => (s, "FAULT")
      | some s0 =>
        match wRun 8 s0 pickPid (ms != 0) with
        | none => (s, "BLOCK")
        | some (s1, unused) =>
          -- an interrupter that comes after the return leaves its interrupt pending
          let s2 := if unused then (Wait.interrupt s1 (wFresh s1)).getD s1 else s1
          match s1.lastRet with
          | none => (s2, "w wait ret=null" ++ wEnd s2)
          | some i => (s2, s!"w wait ret={i} term=1" ++ wEnd s2)
    | _, _ => (s, "bad-op")
  | _ => (s, "bad-op")

/-! ### Process::read(buffer, length, streams) (ReadSel.lean) -/

def selReads (s : ReadSel.RS) : List String → String → String
  | [], acc => acc
  | t :: r, acc =>
    match t.splitOn "." with
    | [l, st, script] =>
      match l.toNat?, st.toNat? with
      | some l, some st =>
        let evs := script.toList.map (fun c => if c == 'T' then ReadSel.Ev.timeout else if c == 'I' then .eintr else .ready) ++ [.ready]
        match ReadSel.read3 s l st evs with
        | .einval => selReads s r (acc ++ " r=einval")
        | .got stream bytes s' =>
          let c := match bytes.head? with | some 111 => "o" | some 101 => "e" | some _ => "?" | none => "-"
          selReads s' r (acc ++ s!" r={bytes.length}/{stream}/{c}")
        | .blocked => acc ++ " BLOCK"
        | .hang => acc ++ " HANG"
        | .minus1 => selReads s r (acc ++ " r=-1")
        | .spin => acc ++ " SPIN"
      | _, _ => acc ++ " r=bad"
    | _ => acc ++ " r=bad"

def dmnLine (kind : String) : String :=
  let base : Kernel.FdTable := fun x => if x < 3 then some (.other x) else none
  let r := Kernel.daemonizeFds 3 9 (if kind == "ok" then .daemon else .openFailed) base
  let shown (x : Nat) : String :=
    match r.1 x with
    | none => "closed"
    | some (.other t) => if t = 9 then "log" else if t = x then "same" else "other"
    | some _ => "pipe"
  s!"dmn ret={b01 r.2} fd0={shown 0} fd1={shown 1} fd2={shown 2} fd3={shown 3}"

def stepLine' (pe : PEnv) (ws : List String) : String :=
    match ws with
    | "args" :: o :: words =>
      match parseOpts o, words.mapM fromHex with
      | some opts, some wl =>
        let total := (wl.map (·.length + 1)).foldl (· + ·) 0
        let argv : List Buf := ("prog".toList.map Char.toNat ++ [0]) :: wl.map (· ++ [0])
        runArgs opts (2 * total + 8 + 1) (St.init argv) "r"
      | _, _ => "bad-op"
    | ["args0"] =>
      -- argc == 0: no argv[0]; table a/alpha flag, o/out with value
      runArgs [⟨97, some [97, 108, 112, 104, 97, 0], 0⟩, ⟨111, some [111, 117, 116, 0], 1⟩] 5 (St.init []) "r"
    | ["split", h] =>
      match fromHex h with
      | none => "bad-op"
      | some s =>
        match splitCommandLine (s ++ [0]) with
        | .done cmd => s!"s {cmd.length}" ++ String.join (cmd.map (fun w => " " ++ toHex w))
        | .fault => "FAULT"
        | .fuel => "LOOP"
    | "run" :: form :: streams :: env :: words =>
      match streams.toNat?, parseEnv env, words.mapM fromHex with
      | some s, some e, some wl => (runOp pe form s e wl).getD "bad-op"
      | _, _, _ => "bad-op"
    | ["io", streams, n, seed, code] =>
      match streams.toNat?, n.toNat?, seed.toNat?, code.toNat? with
      | some s, some _, some _, some _ => s!"io ok=1 pipes={s % 8}"
      | _, _, _, _ => "bad-op"
    | ["exit", code] =>
      match code.toNat? with
      | some _ => "exit ok=1"
      | none => "bad-op"
    | "sel" :: nout :: nerr :: hold :: swap :: reads =>
      match nout.toNat?, nerr.toNat?, hold.toNat?, swap.toNat? with
      | some no, some ne, some h, some sw =>
        let s0 : ReadSel.RS := { fdOut := if sw != 0 then 12 else 3, fdErr := 5, outQ := List.replicate no 111, errQ := List.replicate ne 101,
                                 outW := h != 0, errW := h != 0 }
        selReads s0 reads "sel ok=1"
      | _, _, _, _ => "bad-op"
    | ["joinfail", m, k, code] =>
      match m.toNat?, k.toNat?, code.toNat? with
      | some m, some k, some c =>
        let p0 := (Proc.init.step (.openp (m % 8))).1
        let rec go (n : Nat) (p : Proc) (acc : String) : String :=
          match n with
          | 0 => let (p', ok) := p.step .join; acc ++ s!" j={b01 ok}/{b01 p'.running}{b01 p'.out}{b01 p'.err}{b01 p'.inp}/{c}"
          | n + 1 => let (p', ok) := p.step .joinFailed; go n p' (acc ++ s!" j={b01 ok}/{b01 p'.running}{b01 p'.out}{b01 p'.err}{b01 p'.inp}")
        go (min k 7) p0 "jf ok=1"
      | _, _, _ => "bad-op"
    | ["startfail", form] =>
      if form == "cmd" || form == "argv" then
        let (p, ok) := Proc.init.step .startFailed
        s!"sf pid={b01 ok} st={b01 p.running}{b01 p.out}{b01 p.err}{b01 p.inp}"
      else "bad-op"
    | ["dmn", kind] => if kind == "ok" || kind == "nofile" then dmnLine kind else "bad-op"
    | ["pexit", code] =>
      match code.toNat? with
      | some c => s!"pexit ok=1 code={c % 256}"          -- Process::exit(code): `_exit(code)` (repaired), status = low 8 bits
      | none => "bad-op"
    | ["ids"] => "ids pid=1 exe=1"
    | ["io2", n, seed, code] =>
      match n.toNat?, seed.toNat?, code.toNat? with
      | some _, some _, some _ => "io2 ok=1 pipes=5"
      | _, _, _ => "bad-op"
    | ["fds"] => "fds"
    | ["late", order, m, ms, code] =>
      match m.toNat?, ms.toNat?, code.toNat? with
      | some m, some _, some c =>
        let m := m % 8
        -- the short line the child writes to each redirected output stream (25 bytes, far below any pipe capacity)
        let line := (List.range 25).map (fun _ => 120)
        let out := if m % 2 == 1 then line else []
        let err := if m / 2 % 2 == 1 then line else []
        let show1 (r : Option Nat × Bool) (withCode : Bool) : String :=
          s!"late ok=1 pipes={m} exit={if withCode then (match r.1 with | some x => toString x | none => "-") else "-"} completed={b01 r.2}"
        if order == "join" || order == "readjoin" then
          show1 (Kernel.SysJ.exec 200 (Kernel.SysJ.init 65536 Kernel.joinProgram (m / 4 % 2 == 1) (m % 2 == 1) (m / 2 % 2 == 1) false [] out err c)) true
        else if order == "dtor" then
          show1 (Kernel.SysJ.exec 200 (Kernel.SysJ.init 65536 Kernel.joinProgram (m / 4 % 2 == 1) (m % 2 == 1) (m / 2 % 2 == 1) false [] out err c)) false
        else if order == "closejoin" then
          show1 (Kernel.SysJ.exec 200 (Kernel.SysJ.init 65536 ([.closeIn, .closeOut, .closeErr] ++ Kernel.joinProgram) (m / 4 % 2 == 1) (m % 2 == 1) (m / 2 % 2 == 1) false [] out err c)) true
        else if order == "kill" then s!"late ok=1 pipes={m} exit=- completed=0"
        else "bad-op"
      | _, _, _ => "bad-op"
    | ["eofjoin", order, m, n, code] =>
      match m.toNat?, n.toNat?, code.toNat? with
      | some m, some n, some c =>
        let m := m % 4 + 4
        let data := (List.range n).map (fun _ => 120)
        let r := Kernel.SysJ.exec (2 * n + 64) (Kernel.SysJ.init 65536 Kernel.joinProgram true (m % 2 == 1) (m / 2 % 2 == 1) true
          [97, 98, 99] (if m % 2 == 1 then data else []) (if m / 2 % 2 == 1 then data else []) c)
        if order == "join" then
          s!"ej ok=1 pipes={m} exit={match r.1 with | some x => toString x | none => "never"}"
        else if order == "dtor" then (if r.1.isSome then s!"ej ok=1 pipes={m} exit=-" else s!"ej ok=1 pipes={m} exit=never")
        else "bad-op"
      | _, _, _ => "bad-op"
    | ["sig", m, sg] =>
      match m.toNat?, sg.toNat? with
      | some m, some _ => s!"sig ok=1 pipes={m % 8}"
      | _, _ => "bad-op"
    | ["killbusy", m] =>
      match m.toNat? with
      | some m => s!"kb ok=1 pipes={m % 8}"
      | none => "bad-op"
    | ["fdtable", m] =>
      match m.toNat? with
      | some m => fdTableLine (m % 8)
      | none => "bad-op"
    | ["execfail", kind, streams] =>
      -- the launch itself succeeds (vfork); what the failing execvpe leaves behind is the kernel's part
      match streams.toNat? with
      | none => "bad-op"
      | some m =>
        let r : Option (Option Exec) :=
          if kind == "path" then
            some (openArgv ("/nonexistent-nstd-verif/args-child".toList.map Char.toNat) 2
              [some ("/nonexistent-nstd-verif/args-child".toList.map Char.toNat), some [97]] m [])
          else if kind == "empty" then some (openCommand [] m [])
          else if kind == "blank" then some (openCommand [32] m [])
          else none
        match r with
        | none => "bad-op"
        | some none => "FAULT"
        | some (some e) => s!"xf ok=1 pipes={e.pipes}"
    | ["killtest", m] =>
      match m.toNat? with
      | some _ => "kill ok=1"
      | none => "bad-op"
    | _ => "bad-op"

def showProc (r : Bool) (p : Proc) : String :=
  s!"p ok={b01 r} st={b01 p.running}{b01 p.out}{b01 p.err}{b01 p.inp}"

def parsePOp : List String → Option POp
  | ["new"] => some .destroy
  | ["start", c] => c.toNat?.map (fun _ => .start)
  | ["open", m, c] => do let m ← m.toNat?; let _ ← c.toNat?; pure (.openp m)
  | ["openfail", m] => m.toNat?.map .openFailed
  | ["join"] => some .join
  | ["joinv"] => some .join
  | ["startargv", c] => c.toNat?.map (fun _ => .start)
  | ["opencmd", m, c] => do let m ← m.toNat?; let _ ← c.toNat?; pure (.openp m)
  | ["openfailpipe", m, k] => do
    let m ← m.toNat?; let k ← k.toNat?
    -- the k-th pipe() call fails; open() makes one pipe per requested stream
    let n := (if bit m 1 then 1 else 0) + (if bit m 2 then 1 else 0) + (if bit m 4 then 1 else 0)
    if k = 0 ∨ k > n then pure (.openp m) else pure (.openFailed m)
  | ["kill"] => some .kill
  | ["close", m] => m.toNat?.map .close
  | ["running"] => some .isRunning
  | ["read3", m] => m.toNat?.map .read3
  | _ => none

structure DSt where
  proc : Proc
  env : PEnv
  w : Wait.St

def stepLine0 (st : Proc × PEnv) (ws : List String) : (Proc × PEnv) × String :=
  match ws with
  | ["reset"] => ((Proc.init, []), "ready")
  | "p" :: rest =>
    match parsePOp rest with
    | none => (st, "bad-op")
    | some op => let (p', r) := st.1.step op; ((p', st.2), showProc r p')
  | ["env", "set", k, v] =>
    match fromHex k, fromHex v with
    | some k, some v => let (pe, r) := setEnvironmentVariable st.2 k v; ((st.1, pe), s!"e ok={b01 r}")
    | _, _ => (st, "bad-op")
  | ["env", "get", k, d] =>
    match fromHex k, fromHex d with
    | some k, some d => (st, s!"e val={toHex (getEnvironmentVariable st.2 k d)}")
    | _, _ => (st, "bad-op")
  | ["env", "all"] =>
    -- getEnvironmentVariables(): a Map, i.e. sorted by name
    (st, "e all=" ++ hexList (prepareEnv (st.2.foldl (fun m kv => mapInsert kv.1 kv.2 m) [])))
  | ["env", "putraw", k] =>
    match fromHex k with
    | some _ => (st, "e ok=1")          -- not a variable: neither getenv nor getEnvironmentVariables shows it
    | none => (st, "bad-op")
  | _ => (st, stepLine' st.2 ws)

def stepLine (st : DSt) (ws : List String) : DSt × String :=
  match ws with
  | ["reset"] => ({ proc := Proc.init, env := [], w := Wait.St.init }, "ready")
  | "w" :: rest => let (w', out) := wStep st.w rest; ({ st with w := w' }, out)
  | _ => let (r, out) := stepLine0 (st.proc, st.env) ws; ({ st with proc := r.1, env := r.2 }, out)

end Nstd.Args

def main : IO Unit := Nstd.Common.ioLoop ({ proc := Nstd.Args.Proc.init, env := [], w := Nstd.Args.Wait.St.init } : Nstd.Args.DSt) Nstd.Args.stepLine
