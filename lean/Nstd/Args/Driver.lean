-- stub: replaced when the area is built
def main : IO Unit := pure ()
