import Nstd.Args.LemmasWait
/-
  Property C20, `Process::wait(Process** processes, usize count)` / `Process::interrupt()` together with
  `start`/`open`, `join`, `kill`: theorems over the transition system of Nstd/Args/Wait.lean.

  KERNEL-MODEL LEVEL: the kernel side (process table, pid allocation WITH reuse of reaped pids, the child-exit
  oracle, `waitpid`, `waitid(P_ALL, WEXITED | WNOWAIT)`, `vfork` + `_exit`) is an explicit assumption; the code side
  (the `switch(signaled)`, `waitState`, the scan of the list, the dummy child of `interrupt()`, `pid = 0` after a
  reap) mirrors Process.cpp:1214-1366 and :323-456 and is tied to the sources by the `w` stream of the
  correspondence run.  Quantifiers: every reachable state = every interleaving of the owner thread's calls, of
  `interrupt()` calls from other threads, of child terminations, and every choice of pids by the kernel.
  `interrupt()` is enabled only with a pid for the dummy child, i.e. its `vfork` is assumed to succeed
  (when it fails the code drops the interrupt: observation, not covered).
-/
namespace Nstd.Args.Wait

/-- pid-reuse safety: no `waitpid`/`kill` issued by `join`, `kill`, `wait` ever hits a child other than the one the
    caller created (or a pid that is not a child at all), although the kernel may hand a reaped pid out again -/
theorem waitpid_only_hits_the_own_child (s : St) (h : Reach s) : s.mismatch = false :=
  (Inv.reach h).noMis

/-- who holds which child: a non-zero `pid` member always names the live (running or terminated, not yet reaped)
    child that object created; two objects never hold the same pid; the dummy child of `interrupt()` is a
    terminated child held by `signaled` only; and every child in the process table is held by one of them
    (nothing is leaked, nothing can be waited for twice) -/
theorem every_child_has_exactly_one_holder (s : St) (h : Reach s) :
    (∀ i, (s.objs i).1 ≠ 0 → ∃ st, s.procs (s.objs i).1 = some ((s.objs i).2, st)) ∧
    (∀ i j, (s.objs i).1 ≠ 0 → (s.objs i).1 = (s.objs j).1 → i = j) ∧
    (∀ p, s.sig = .pid p → p ≠ 0 ∧ (∀ i, (s.objs i).1 ≠ p) ∧ ∃ st, s.procs p = some (s.dcid, some st)) ∧
    (∀ p c st, s.procs p = some (c, st) → p ≠ 0 ∧ ((∃ i, (s.objs i).1 = p) ∨ s.sig = .pid p)) := by
  have i := Inv.reach h
  exact ⟨i.objOk, i.objInj, fun p hp => ⟨(i.sigOk p hp).1, fun j => i.sigDisj p j hp, (i.sigOk p hp).2⟩, i.held⟩

/-- every child ever created (serial number below `nextCid`) is either still in the process table -- under exactly
    one pid -- or has been reaped, and then exactly once and it is gone from the table -/
theorem each_child_is_reaped_exactly_once (s : St) (h : Reach s) :
    s.reaped.Nodup ∧
    (∀ c, c < s.nextCid → (∃ p st, s.procs p = some (c, st)) ∨ c ∈ s.reaped) ∧
    (∀ c ∈ s.reaped, c < s.nextCid ∧ ∀ p st, s.procs p ≠ some (c, st)) ∧
    (∀ p q c st st', s.procs p = some (c, st) → s.procs q = some (c, st') → p = q) := by
  have i := Inv.reach h
  exact ⟨i.reapedNodup, i.cidCover, fun c hc => ⟨i.reapedLt c hc, i.reapedDead c hc⟩, i.cidInj⟩

/-- `wait` returns an object only if it is in the list, its child HAS terminated and has not been reaped: the
    `join()` that follows does not block and delivers that child's exit status (and nothing else was changed) -/
theorem wait_returns_a_terminated_listed_child (s s' : St) (h : Reach s) (pick i : Nat)
    (hs : waiterStep s pick = some s') (hidle : s'.pc = .idle) (hr : s'.lastRet = some i) :
    ∃ l pid st, s.pc = .post l pid ∧ i ∈ l ∧ (s'.objs i).1 = pid ∧ pid ≠ 0 ∧
      s'.procs pid = some ((s'.objs i).2, some st) ∧ (∃ s'', join s' i = some (s'', st)) ∧
      s'.procs = s.procs ∧ s'.objs = s.objs ∧ s'.reaped = s.reaped := by
  have inv := Inv.reach h
  have findListed_mem : ∀ (l : List Nat) (pid i : Nat), findListed s.objs pid l = some i → i ∈ l ∧ (s.objs i).1 = pid := by
    intro l pid i
    induction l with
    | nil => simp [findListed]
    | cons a r ih =>
      simp only [findListed]
      by_cases ha : (s.objs a).1 = pid
      · simp only [ha, if_true]; intro e; cases e; exact ⟨by simp, ha⟩
      · simp only [ha, if_false]; intro e; exact ⟨by simp [(ih e).1], (ih e).2⟩
  unfold waiterStep at hs
  split at hs
  · cases hs
  · split at hs
    · split at hs <;> (cases hs; simp at hidle)
    · cases hs; simp at hr
    · cases hs; simp at hr
  · split at hs <;> cases hs
    simp at hr
  · split at hs
    · cases hs; simp at hr
    · split at hs <;> cases hs
      simp at hidle
  · rename_i l pid hpc
    split at hs
    · rename_i j hj
      cases hs
      simp only [Option.some.injEq] at hr; subst hr
      obtain ⟨hmem, hpid⟩ := findListed_mem l pid j hj
      obtain ⟨c, st, hz⟩ := inv.postOk l pid hpc
      have hp0 : pid ≠ 0 := (inv.held pid c (some st) hz).1
      obtain ⟨st', hst'⟩ := inv.objOk j (by rw [hpid]; exact hp0)
      rw [hpid, hz] at hst'
      have hc : c = (s.objs j).2 := by simp at hst'; exact hst'.1
      refine ⟨l, pid, st, hpc, hmem, hpid, hp0, by simp [hz, hc], ?_, rfl, rfl, rfl⟩
      simp [join, hpid, hp0, hz]
    · split at hs <;> (cases hs; simp at hr)

/-- `wait` returns null only for one of three reasons: an interrupt was pending (`signaled != 0`, consumed now);
    the terminated child reported by the kernel belongs to no object of the list (it is held by an object outside
    the list: the caller has to join that one); there is no child at all (`ECHILD`) -/
theorem wait_returns_null_only_for_a_reason (s s' : St) (h : Reach s) (pick : Nat)
    (hs : waiterStep s pick = some s') (hidle : s'.pc = .idle) (hr : s'.lastRet = none) :
    (s'.why = .interrupted ∧ s.sig ≠ .zero ∧ s'.sig = .zero) ∨
    (s'.why = .foreign ∧ ∃ l pid, s.pc = .post l pid ∧ (∀ i ∈ l, (s.objs i).1 ≠ pid) ∧ ∃ j, (s.objs j).1 = pid ∧ j ∉ l) ∨
    (s'.why = .nochild ∧ ∀ p, s.procs p = none) := by
  have inv := Inv.reach h
  have findListed_none : ∀ (l : List Nat) (pid : Nat), findListed s.objs pid l = none → ∀ i ∈ l, (s.objs i).1 ≠ pid := by
    intro l pid
    induction l with
    | nil => simp
    | cons a r ih =>
      simp only [findListed]
      by_cases ha : (s.objs a).1 = pid
      · simp [ha]
      · simp only [ha, if_false]; intro e i hi
        simp at hi; rcases hi with rfl | hi
        · exact ha
        · exact ih e i hi
  unfold waiterStep at hs
  split at hs
  · cases hs
  · rename_i l hpc
    split at hs
    · split at hs <;> (cases hs; simp at hidle)
    · rename_i hsg; cases hs; left; simp [hsg]
    · rename_i p hsg
      obtain ⟨st, hst, he⟩ := reapDummy_eq inv p hsg
      rw [he] at hs; cases hs; left; simp [hsg]
  · split at hs <;> cases hs <;> (left; exact ⟨rfl, by assumption, rfl⟩)
  · split at hs
    · rename_i hno
      cases hs; right; right
      refine ⟨rfl, fun p => ?_⟩
      by_cases hp : s.procs p = none
      · exact hp
      · have := inv.pidsOk p hp
        simp only [St.noChildren, List.all_eq_true] at hno
        have := hno p this
        simpa using this
    · split at hs
      · cases hs; simp at hidle
      · cases hs
  · rename_i l pid hpc
    split at hs
    · cases hs; simp at hr
    · rename_i hnone
      split at hs
      · rename_i hsg
        obtain ⟨st, hst, he⟩ := reapDummy_eq inv pid hsg
        rw [he] at hs; cases hs; left; simp [hsg]
      · rename_i hsg
        cases hs; right; left
        refine ⟨rfl, l, pid, hpc, findListed_none l pid hnone, ?_⟩
        obtain ⟨c, st, hz⟩ := inv.postOk l pid hpc
        rcases (inv.held pid c (some st) hz).2 with ⟨j, hj⟩ | hsig
        · exact ⟨j, hj, fun hm => findListed_none l pid hnone j hm hj⟩
        · exact absurd hsig hsg

/-- `interrupt()` wakes `wait`: whenever an interrupt is pending (`signaled != 0`) the owner thread inside `wait` is
    not blocked -- in `pthread_cond_wait`, in `waitid` (the dummy child is a terminated child) or anywhere else --
    and every step it takes brings it closer to the return (at most three steps) -/
theorem interrupt_wakes_wait (s : St) (h : Reach s) (hpc : s.pc ≠ .idle) (hsig : s.sig ≠ .zero) :
    (∃ pick s', waiterStep s pick = some s') ∧
    (∀ pick s', waiterStep s pick = some s' → pcRank s'.pc < pcRank s.pc) := by
  have inv := Inv.reach h
  constructor
  · cases hp : s.pc with
    | idle => exact absurd hp hpc
    | entry l =>
      cases hsg : s.sig with
      | zero => exact absurd hsg hsig
      | minus => exact ⟨0, ex_some _ (by simp [waiterStep, hp, hsg])⟩
      | pid p => exact ⟨0, ex_some _ (by simp [waiterStep, hp, hsg])⟩
    | cond => exact ⟨0, ex_some _ (by simp [waiterStep, hp, hsig])⟩
    | inWaitid l =>
      cases hsg : s.sig with
      | zero => exact absurd hsg hsig
      | minus => exact absurd hsg (inv.waitidOk l hp).2
      | pid p =>
        obtain ⟨_, st, hst⟩ := inv.sigOk p hsg
        have hno : s.noChildren = false := by
          have hm := inv.pidsOk p (by rw [hst]; simp)
          cases hno' : s.noChildren with
          | false => rfl
          | true =>
            exfalso
            simp only [St.noChildren, List.all_eq_true] at hno'
            have := hno' p hm
            simp [hst] at this
        exact ⟨p, ex_some _ (by simp [waiterStep, hp, hno, hst])⟩
    | post l pid =>
      cases hf : findListed s.objs pid l with
      | some i => exact ⟨0, ex_some _ (by simp [waiterStep, hp, hf])⟩
      | none =>
        by_cases hsp : s.sig = .pid pid
        · exact ⟨0, ex_some _ (by simp [waiterStep, hp, hf, hsp])⟩
        · exact ⟨0, ex_some _ (by simp [waiterStep, hp, hf, hsp])⟩
  · intro pick s' hs
    unfold waiterStep at hs
    split at hs
    · cases hs
    · rename_i l hp
      rw [hp]
      split at hs
      · split at hs <;> (cases hs; simp [pcRank])
      · cases hs; simp [pcRank]
      · cases hs; simp [pcRank]
    · rename_i hp
      rw [hp]
      split at hs <;> cases hs <;> simp [pcRank]
    · rename_i l hp
      rw [hp]
      split at hs
      · cases hs; simp [pcRank]
      · split at hs <;> cases hs <;> simp [pcRank]
    · rename_i l pid hp
      rw [hp]
      split at hs
      · cases hs; simp [pcRank]
      · split at hs <;> (cases hs; simp [pcRank])

/-- an interrupt is never lost: `interrupt()` always leaves `signaled != 0`, and `signaled != 0` is kept by every
    step of the system except the return of a `wait` that reports the interruption -/
theorem interrupt_is_kept_until_a_wait_consumes_it (s s' : St) (h : Reach s) :
    (∀ p, interrupt s p = some s' → s'.sig ≠ .zero) ∧
    (Step s s' → s.sig ≠ .zero → s'.sig ≠ .zero ∨ (s'.pc = .idle ∧ s'.lastRet = none ∧ s'.why = .interrupted)) := by
  have inv := Inv.reach h
  constructor
  · intro p hi
    unfold interrupt at hi
    split at hi
    · split at hi
      · split at hi
        · cases hi; simp
        · cases hi
      · cases hi; simp
    · rename_i hne; cases hi; intro hz; exact hne hz
  · intro hstep hsig
    cases hstep with
    | start i p e => left; unfold Wait.start at e; split at e <;> cases e; exact hsig
    | childExit p st e => left; unfold Wait.childExit at e; split at e <;> cases e; exact hsig
    | join i c e =>
      left; unfold Wait.join at e
      split at e
      · split at e <;> cases e; exact hsig
      · cases e
    | kill i e =>
      left; unfold Wait.kill at e
      split at e
      · split at e <;> cases e; exact hsig
      · cases e
    | interrupt p e =>
      left; unfold Wait.interrupt at e
      split at e
      · rename_i hz; exact absurd hz hsig
      · cases e; exact hsig
    | waitCall l e => left; unfold Wait.waitCall at e; split at e <;> cases e; exact hsig
    | waiter pick e =>
      unfold waiterStep at e
      split at e
      · cases e
      · split at e
        · rename_i hz; exact absurd hz hsig
        · cases e; right; exact ⟨rfl, rfl, rfl⟩
        · cases e; right; exact ⟨rfl, rfl, rfl⟩
      · split at e <;> cases e <;> (right; simp)
      · split at e
        · cases e; left; exact hsig
        · split at e <;> cases e <;> (left; exact hsig)
      · split at e
        · cases e; left; exact hsig
        · split at e
          · cases e; right; exact ⟨rfl, rfl, rfl⟩
          · cases e; left; exact hsig

-- non-vacuity: a reachable run in which the kernel REUSES a pid: object 0 starts a child (pid 5), it terminates, is
-- joined; object 1 gets pid 5 again; wait([0, 1]) is entered, blocks in waitid, an interrupt makes the dummy child
-- (pid 6), waitid reports it, wait returns null after reaping it
example : ∃ s, Reach s ∧ s.pc = .idle ∧ s.why = .interrupted ∧ s.reaped = [2, 0] ∧ (s.objs 1).1 = 5 ∧ s.sig = .zero :=
  ⟨_, .step (.step (.step (.step (.step (.step (.step (.step (.step .init
      (.start 0 5 rfl)) (.childExit 5 7 rfl)) (.join 0 7 rfl)) (.start 1 5 rfl)) (.waitCall [0, 1] rfl))
      (.waiter 0 rfl)) (.interrupt 6 rfl)) (.waiter 6 rfl)) (.waiter 0 rfl), rfl, rfl, rfl, rfl, rfl⟩

-- a run in which wait returns a listed child: started, terminated with status 3, reported, joined with 3
example : ∃ s, Reach s ∧ s.pc = .idle ∧ s.lastRet = some 1 ∧ (join s 1).map (·.2) = some 3 :=
  ⟨_, .step (.step (.step (.step (.step (.step (.step .init (.start 0 4 rfl)) (.start 1 9 rfl)) (.childExit 9 3 rfl))
      (.waitCall [0, 1] rfl)) (.waiter 0 rfl)) (.waiter 9 rfl)) (.waiter 0 rfl), rfl, rfl, by simp [join, upd]⟩

end Nstd.Args.Wait
