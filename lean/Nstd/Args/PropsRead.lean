import Nstd.Args.ReadSel
/-
  Property C20, `Process::read(buffer, length, streams)` / `Process::read(buffer, length)`: theorems over the model of
  Nstd/Args/ReadSel.lean (code side as coded and repaired by fixes/args/0010; `select` / `::read` on pipes as an assumed
  kernel model; what `select` does at each call -- time-out, EINTR, return -- is a universally quantified oracle list).
  KERNEL-MODEL LEVEL like the `*_in_pipe_model` theorems.
-/
namespace Nstd.Args.ReadSel

/-! helper lemmas -/

theorem selectLoop_eq (s : RS) (length streams nfds : Nat) (evs : List Ev) :
    selectLoop s length streams nfds evs =
      if Ev.ready ∈ evs then
        (if examinedReady s nfds (arm s streams) then afterSelect s length streams (selected s nfds (arm s streams)) else .blocked)
      else .blocked := by
  induction evs with
  | nil => simp [selectLoop]
  | cons e r ih =>
    cases e with
    | timeout => simp [selectLoop, ih]
    | eintr => simp [selectLoop, ih]
    | ready => simp [selectLoop]

theorem maxFd_ge_out (s : RS) (streams : Nat) (h : wantOut s streams = true) : s.fdOut ≤ maxFd s streams := by
  unfold maxFd; simp only [h, if_true]; split
  · split <;> omega
  · omega

theorem maxFd_ge_err (s : RS) (streams : Nat) (h : wantErr s streams = true) : s.fdErr ≤ maxFd s streams := by
  unfold maxFd; simp only [h, if_true]; split <;> split <;> omega

theorem maxFd_zero_iff (s : RS) (streams : Nat) : maxFd s streams = 0 ↔ arm s streams = [] := by
  unfold maxFd arm
  cases ho : wantOut s streams <;> cases he : wantErr s streams <;> simp
  all_goals (simp [wantOut, wantErr] at ho he; (try split) <;> omega)

theorem afterSelect_cases (s : RS) (length streams : Nat) (set : List Nat) :
    (∃ st b s', afterSelect s length streams set = .got st b s') ∨ afterSelect s length streams set = .hang ∨
      afterSelect s length streams set = .minus1 := by
  unfold afterSelect doRead
  split
  · simp only [if_true]; split
    · exact Or.inl ⟨_, _, _, rfl⟩
    · split
      · exact Or.inl ⟨_, _, _, rfl⟩
      · exact Or.inr (Or.inl rfl)
  · split
    · simp only [show (2 : Nat) ≠ 1 by decide, if_false]; split
      · exact Or.inl ⟨_, _, _, rfl⟩
      · split
        · exact Or.inl ⟨_, _, _, rfl⟩
        · exact Or.inr (Or.inl rfl)
    · exact Or.inr (Or.inr rfl)

theorem take_min (l : List Nat) (n : Nat) : l.take (min n l.length) = l.take n := by
  by_cases h : n ≤ l.length
  · rw [Nat.min_eq_left h]
  · rw [Nat.min_eq_right (by omega)]; simp [List.take_of_length_le (by omega : l.length ≤ n)]

theorem drop_min (l : List Nat) (n : Nat) : l.drop (min n l.length) = l.drop n := by
  by_cases h : n ≤ l.length
  · rw [Nat.min_eq_left h]
  · rw [Nat.min_eq_right (by omega)]; simp [List.drop_eq_nil_of_le (by omega : l.length ≤ n)]

/-- EINVAL exactly when none of the requested streams has an open descriptor; never otherwise, whatever `select` does -/
theorem read3_einval_iff (s : RS) (length streams : Nat) (evs : List Ev) :
    read3 s length streams evs = .einval ↔ (wantOut s streams = false ∧ wantErr s streams = false) := by
  unfold read3
  by_cases h : maxFd s streams = 0
  · simp only [h, if_true]
    have := (maxFd_zero_iff s streams).1 h
    unfold arm at this
    cases ho : wantOut s streams <;> cases he : wantErr s streams <;> simp_all
  · simp only [h, if_false]
    have hne : arm s streams ≠ [] := fun e => h ((maxFd_zero_iff s streams).2 e)
    constructor
    · intro hr
      rw [selectLoop_eq] at hr
      exfalso
      split at hr
      · split at hr
        · unfold afterSelect at hr
          split at hr
          · unfold doRead at hr; simp only [if_true] at hr; split at hr <;> (try split at hr) <;> cases hr
          · split at hr
            · unfold doRead at hr; simp only [show (2 : Nat) ≠ 1 by decide, if_false] at hr; split at hr <;> (try split at hr) <;> cases hr
            · cases hr
        · cases hr
      · cases hr
    · rintro ⟨ho, he⟩
      exfalso; apply hne; simp [arm, ho, he]

/-- the bits `select` hands back are truthful: every armed descriptor lies below `nfds = maxFd + 1` (the `maxFd` computation),
    so a bit that is still set means "readable" -/
theorem selected_truthful (s : RS) (streams fd : Nat) (h : fd ∈ selected s (maxFd s streams + 1) (arm s streams)) :
    fdReadable s fd = true ∧ fd ∈ arm s streams := by
  unfold selected at h
  simp only [List.mem_filter] at h
  obtain ⟨hm, hf⟩ := h
  have hlt : fd < maxFd s streams + 1 := by
    unfold arm at hm
    simp only [List.mem_append] at hm
    rcases hm with hm | hm
    · split at hm
      · rename_i hw; simp at hm; subst hm; have := maxFd_ge_out s streams hw; omega
      · simp at hm
    · split at hm
      · rename_i hw; simp at hm; subst hm; have := maxFd_ge_err s streams hw; omega
      · simp at hm
  simp only [hlt, if_true] at hf
  exact ⟨hf, hm⟩

/-- `::read` is only ever called on a descriptor that is readable: the call never hangs in `::read`, and it never falls
    through to the final `return -1` -- for every state with distinct descriptors, every request, every behaviour of `select` -/
theorem read3_never_hangs_never_falls_through (s : RS) (hw : Wf s) (length streams : Nat) (evs : List Ev) :
    (∀ r, read3 s length streams evs = r → r ≠ .hang ∧ r ≠ .minus1 ∧ r ≠ .spin) := by
  intro r hr
  unfold read3 at hr
  split at hr
  · subst hr; simp
  · rw [selectLoop_eq] at hr
    split at hr
    · split at hr
      · rename_i hex
        -- some examined descriptor is readable: it is in the selected set
        unfold afterSelect at hr
        split at hr
        · rename_i h1
          simp only [Bool.and_eq_true, List.contains_iff_mem] at h1
          obtain ⟨hwo, hmem⟩ := h1
          have ht := (selected_truthful s streams s.fdOut hmem).1
          have hfd : s.fdOut ≠ 0 := by simp [wantOut] at hwo; exact hwo.2
          have hro : pipeReadable s.outQ s.outW = true := by
            unfold fdReadable at ht
            simp only [Bool.or_eq_true, Bool.and_eq_true, bne_iff_ne, beq_iff_eq] at ht
            rcases ht with ht | ht
            · exact ht.2
            · exact absurd ht.1.2 (hw hfd)
          unfold doRead at hr; simp only [if_true] at hr
          unfold pipeReadable at hro
          cases hq : s.outQ.isEmpty <;> cases hwv : s.outW <;> simp_all <;> subst hr <;> simp
        · split at hr
          · rename_i h1 h2
            simp only [Bool.and_eq_true, List.contains_iff_mem] at h2
            obtain ⟨hwe, hmem⟩ := h2
            have ht := (selected_truthful s streams s.fdErr hmem).1
            have hfd : s.fdErr ≠ 0 := by simp [wantErr] at hwe; exact hwe.2
            have hre : pipeReadable s.errQ s.errW = true := by
              unfold fdReadable at ht
              simp only [Bool.or_eq_true, Bool.and_eq_true, bne_iff_ne, beq_iff_eq] at ht
              rcases ht with ht | ht
              · -- fdErr = fdOut: excluded by Wf
                have : s.fdOut ≠ 0 := by rw [← ht.1.2]; exact hfd
                exact absurd ht.1.2.symm (hw this)
              · exact ht.2
            unfold doRead at hr; simp only [show (2 : Nat) ≠ 1 by decide, if_false] at hr
            unfold pipeReadable at hre
            cases hq : s.errQ.isEmpty <;> cases hwv : s.errW <;> simp_all <;> subst hr <;> simp
          · -- neither bit set although some examined descriptor is readable: impossible
            rename_i h1 h2
            exfalso
            unfold examinedReady at hex
            simp only [List.any_eq_true, Bool.and_eq_true, decide_eq_true_eq] at hex
            obtain ⟨fd, hm, hlt, hrd⟩ := hex
            have hsel : fd ∈ selected s (maxFd s streams + 1) (arm s streams) := by
              unfold selected; simp [List.mem_filter, hm, hlt, hrd]
            unfold arm at hm
            simp only [List.mem_append] at hm
            rcases hm with hm | hm
            · split at hm
              · rename_i hwo; simp at hm; subst hm
                apply h1; simp [hwo, List.contains_iff_mem, hsel]
              · simp at hm
            · split at hm
              · rename_i hwe; simp at hm; subst hm
                apply h2; simp [hwe, List.contains_iff_mem, hsel]
              · simp at hm
      · subst hr; simp
    · subst hr; simp

/-- what a successful call delivers: the reported stream was requested and is open; the bytes are the first
    `min(length, queued)` bytes of that pipe, which are removed and nothing else changes; the result 0 (`bytes = []` with
    `length > 0`) means end-of-file: the pipe is empty and no write end is left; stdout is served before stderr: stderr is
    reported only when stdout was not requested, is closed, or is not readable -/
theorem read3_delivers_from_a_readable_requested_stream (s : RS) (hw : Wf s) (length streams : Nat) (evs : List Ev)
    (st : Nat) (bytes : List Nat) (s' : RS) (h : read3 s length streams evs = .got st bytes s') :
    (st = 1 ∧ wantOut s streams = true ∧ pipeReadable s.outQ s.outW = true ∧ bytes = s.outQ.take length ∧
        s' = { s with outQ := s.outQ.drop length } ∧ (bytes = [] → 0 < length → s.outQ = [] ∧ s.outW = false)) ∨
    (st = 2 ∧ wantErr s streams = true ∧ pipeReadable s.errQ s.errW = true ∧ bytes = s.errQ.take length ∧
        s' = { s with errQ := s.errQ.drop length } ∧ (bytes = [] → 0 < length → s.errQ = [] ∧ s.errW = false) ∧
        (wantOut s streams = false ∨ pipeReadable s.outQ s.outW = false)) := by
  unfold read3 at h
  split at h
  · cases h
  · rw [selectLoop_eq] at h
    split at h
    · split at h
      · rename_i hex
        unfold afterSelect at h
        split at h
        · rename_i h1
          simp only [Bool.and_eq_true, List.contains_iff_mem] at h1
          obtain ⟨hwo, hmem⟩ := h1
          have ht := (selected_truthful s streams s.fdOut hmem).1
          have hfd : s.fdOut ≠ 0 := by simp [wantOut] at hwo; exact hwo.2
          have hro : pipeReadable s.outQ s.outW = true := by
            unfold fdReadable at ht
            simp only [Bool.or_eq_true, Bool.and_eq_true, bne_iff_ne, beq_iff_eq] at ht
            rcases ht with ht | ht
            · exact ht.2
            · exact absurd ht.1.2 (hw hfd)
          left
          unfold doRead at h; simp only [if_true] at h
          cases hq : s.outQ with
          | nil =>
            simp only [hq, List.isEmpty_nil, Bool.not_true, Bool.false_eq_true, if_false] at h
            split at h
            · rename_i hwv
              cases h
              refine ⟨rfl, hwo, hq ▸ hro, by simp, ?_, fun _ _ => ⟨rfl, by simpa using hwv⟩⟩
              cases s; simp_all
            · cases h
          | cons c cs =>
            simp only [hq, List.isEmpty_cons, Bool.not_false, if_true] at h
            cases h
            refine ⟨rfl, hwo, hq ▸ hro, rfl, rfl, ?_⟩
            intro he hl; cases length with
            | zero => omega
            | succ n => simp at he
        · rename_i h1
          split at h
          · rename_i h2
            simp only [Bool.and_eq_true, List.contains_iff_mem] at h2
            obtain ⟨hwe, hmem⟩ := h2
            have ht := (selected_truthful s streams s.fdErr hmem).1
            have hfd : s.fdErr ≠ 0 := by simp [wantErr] at hwe; exact hwe.2
            have hre : pipeReadable s.errQ s.errW = true := by
              unfold fdReadable at ht
              simp only [Bool.or_eq_true, Bool.and_eq_true, bne_iff_ne, beq_iff_eq] at ht
              rcases ht with ht | ht
              · have : s.fdOut ≠ 0 := by rw [← ht.1.2]; exact hfd
                exact absurd ht.1.2.symm (hw this)
              · exact ht.2
            -- stdout was not served: not requested/open, or not readable
            have hout : wantOut s streams = false ∨ pipeReadable s.outQ s.outW = false := by
              cases hwo : wantOut s streams with
              | false => exact Or.inl rfl
              | true =>
                right
                cases hro : pipeReadable s.outQ s.outW with
                | false => rfl
                | true =>
                  exfalso; apply h1
                  have hfo : s.fdOut ≠ 0 := by simp [wantOut] at hwo; exact hwo.2
                  have hlt : s.fdOut < maxFd s streams + 1 := by have := maxFd_ge_out s streams hwo; omega
                  have : s.fdOut ∈ selected s (maxFd s streams + 1) (arm s streams) := by
                    unfold selected
                    simp only [List.mem_filter, hlt, if_true]
                    refine ⟨by simp [arm, hwo], ?_⟩
                    simp [fdReadable, hfo, hro]
                  simp [hwo, this]
            right
            unfold doRead at h; simp only [show (2 : Nat) ≠ 1 by decide, if_false] at h
            cases hq : s.errQ with
            | nil =>
              simp only [hq, List.isEmpty_nil, Bool.not_true, Bool.false_eq_true, if_false] at h
              split at h
              · rename_i hwv
                cases h
                refine ⟨rfl, hwe, hq ▸ hre, by simp, ?_, fun _ _ => ⟨rfl, by simpa using hwv⟩, hout⟩
                cases s; simp_all
              · cases h
            | cons c cs =>
              simp only [hq, List.isEmpty_cons, Bool.not_false, if_true] at h
              cases h
              refine ⟨rfl, hwe, hq ▸ hre, rfl, rfl, ?_, hout⟩
              intro he hl; cases length with
              | zero => omega
              | succ n => simp at he
          · cases h
      · cases h
    · cases h

/-- the call never blocks while one of the requested open streams is readable (data queued, or end-of-file): however many
    time-outs and EINTRs `select` goes through first, as soon as it returns the call delivers.  It blocks only while none of
    them is readable (or `select` never returns) -/
theorem read3_returns_when_a_requested_stream_is_readable (s : RS) (hw : Wf s) (length streams : Nat) (evs : List Ev)
    (hev : Ev.ready ∈ evs)
    (hr : (wantOut s streams = true ∧ pipeReadable s.outQ s.outW = true) ∨
          (wantErr s streams = true ∧ pipeReadable s.errQ s.errW = true)) :
    ∃ st bytes s', read3 s length streams evs = .got st bytes s' := by
  have hne : maxFd s streams ≠ 0 := by
    intro h0
    have := (maxFd_zero_iff s streams).1 h0
    unfold arm at this
    rcases hr with ⟨h, _⟩ | ⟨h, _⟩ <;> simp [h] at this
  have hex : examinedReady s (maxFd s streams + 1) (arm s streams) = true := by
    unfold examinedReady
    simp only [List.any_eq_true, Bool.and_eq_true, decide_eq_true_eq]
    rcases hr with ⟨hwo, hro⟩ | ⟨hwe, hre⟩
    · have hfo : s.fdOut ≠ 0 := by simp [wantOut] at hwo; exact hwo.2
      exact ⟨s.fdOut, by simp [arm, hwo], by have := maxFd_ge_out s streams hwo; omega, by simp [fdReadable, hfo, hro]⟩
    · have hfe : s.fdErr ≠ 0 := by simp [wantErr] at hwe; exact hwe.2
      exact ⟨s.fdErr, by simp [arm, hwe], by have := maxFd_ge_err s streams hwe; omega, by simp [fdReadable, hfe, hre]⟩
  have hnb := read3_never_hangs_never_falls_through s hw length streams evs _ rfl
  have e : read3 s length streams evs = afterSelect s length streams (selected s (maxFd s streams + 1) (arm s streams)) := by
    unfold read3; simp only [hne, if_false]; rw [selectLoop_eq]; simp only [hev, hex, if_true]
  rcases afterSelect_cases s length streams (selected s (maxFd s streams + 1) (arm s streams)) with ⟨st, b, s', h⟩ | h | h
  · exact ⟨st, b, s', e.trans h⟩
  · exact absurd (e.trans h) hnb.1
  · exact absurd (e.trans h) hnb.2.1

theorem read3_blocks_only_when_nothing_is_readable (s : RS) (hw : Wf s) (length streams : Nat) (evs : List Ev)
    (h : read3 s length streams evs = .blocked) :
    Ev.ready ∉ evs ∨ ((wantOut s streams = true → pipeReadable s.outQ s.outW = false) ∧
                      (wantErr s streams = true → pipeReadable s.errQ s.errW = false)) := by
  by_cases hev : Ev.ready ∈ evs
  · right
    constructor
    · intro hwo
      cases hro : pipeReadable s.outQ s.outW with
      | false => rfl
      | true =>
        obtain ⟨st, b, s', e⟩ := read3_returns_when_a_requested_stream_is_readable s hw length streams evs hev (Or.inl ⟨hwo, hro⟩)
        rw [h] at e; cases e
    · intro hwe
      cases hre : pipeReadable s.errQ s.errW with
      | false => rfl
      | true =>
        obtain ⟨st, b, s', e⟩ := read3_returns_when_a_requested_stream_is_readable s hw length streams evs hev (Or.inr ⟨hwe, hre⟩)
        rw [h] at e; cases e
  · exact Or.inl hev

/-- tie to the pipe system: on the read side of a pipe state `u` (Pipes.lean) a delivery of the call is a step of the
    unconstrained system `U` -- a `pReadOut` / `pReadErr` of exactly the delivered bytes, or the end-of-file observation -- so
    everything proved about `U` (intact, in order, end-of-file complete and final) holds for what `read` returns -/
theorem read3_is_a_step_of_the_pipe_system (u : Pipes.U) (a b : Nat) (hab : a ≠ b) (ha : a ≠ 0) (length streams : Nat)
    (evs : List Ev) (st : Nat) (bytes : List Nat) (s' : RS)
    (h : read3 (ofU u a b) length streams evs = .got st bytes s') :
    (bytes ≠ [] → ∃ u', Pipes.UStep u u' ∧ s' = ofU u' a b ∧
        ((st = 1 ∧ u'.gotOut = u.gotOut ++ bytes ∧ u'.gotErr = u.gotErr) ∨
         (st = 2 ∧ u'.gotErr = u.gotErr ++ bytes ∧ u'.gotOut = u.gotOut))) ∧
    (bytes = [] → 0 < length → s' = ofU u a b ∧
        ((st = 1 ∧ Pipes.UStep u { u with outEof := true }) ∨ (st = 2 ∧ Pipes.UStep u { u with errEof := true }))) := by
  have hw : Wf (ofU u a b) := by
    intro h0 e
    simp only [ofU] at h0 e
    split at e <;> split at e <;> simp_all
  rcases read3_delivers_from_a_readable_requested_stream _ hw length streams evs st bytes s' h with
    ⟨rfl, hwo, hro, hb, hs', heof⟩ | ⟨rfl, hwe, hre, hb, hs', heof, _⟩
  · have hp : u.pOutR = true := by
      simp only [wantOut, ofU, Bool.and_eq_true, bne_iff_ne] at hwo
      by_cases hp : u.pOutR = true
      · exact hp
      · simp [hp] at hwo
    constructor
    · intro hne
      have hlen : 0 < min length u.outQ.length := by
        simp only [ofU] at hb
        cases hl : length with
        | zero => subst hl; simp at hb; exact absurd hb hne
        | succ n =>
          cases hq : u.outQ with
          | nil => rw [hq] at hb; simp at hb; exact absurd hb hne
          | cons c cs => simp
      refine ⟨{ u with gotOut := u.gotOut ++ u.outQ.take (min length u.outQ.length), outQ := u.outQ.drop (min length u.outQ.length) },
        Pipes.UStep.pReadOut u _ hp hlen (Nat.min_le_right _ _), ?_, Or.inl ⟨rfl, ?_, rfl⟩⟩
      · rw [hs']; simp only [ofU]; simp [drop_min]
      · simp only [ofU] at hb
        rw [hb, take_min]
    · intro he hl
      obtain ⟨hq, hwv⟩ := heof he hl
      simp only [ofU] at hq hwv
      refine ⟨?_, Or.inl ⟨rfl, Pipes.UStep.pEofOut u hp hq hwv⟩⟩
      rw [hs']; simp [ofU, hq]
  · have hp : u.pErrR = true := by
      simp only [wantErr, ofU, Bool.and_eq_true, bne_iff_ne] at hwe
      by_cases hp : u.pErrR = true
      · exact hp
      · simp [hp] at hwe
    constructor
    · intro hne
      have hlen : 0 < min length u.errQ.length := by
        simp only [ofU] at hb
        cases hl : length with
        | zero => subst hl; simp at hb; exact absurd hb hne
        | succ n =>
          cases hq : u.errQ with
          | nil => rw [hq] at hb; simp at hb; exact absurd hb hne
          | cons c cs => simp
      refine ⟨{ u with gotErr := u.gotErr ++ u.errQ.take (min length u.errQ.length), errQ := u.errQ.drop (min length u.errQ.length) },
        Pipes.UStep.pReadErr u _ hp hlen (Nat.min_le_right _ _), ?_, Or.inr ⟨rfl, ?_, rfl⟩⟩
      · rw [hs']; simp only [ofU]; simp [drop_min]
      · simp only [ofU] at hb
        rw [hb, take_min]
    · intro he hl
      obtain ⟨hq, hwv⟩ := heof he hl
      simp only [ofU] at hq hwv
      refine ⟨?_, Or.inr ⟨rfl, Pipes.UStep.pEofErr u hp hq hwv⟩⟩
      rw [hs']; simp [ofU, hq]

/-- the two-argument form is one `::read` on the stdout pipe: with an open descriptor it delivers the first
    `min(length, queued)` bytes, 0 exactly at end-of-file, and blocks (`hang`) while the pipe is empty and a writer is left -/
theorem read2_delivers_prefix_or_eof (s : RS) (length : Nat) (h : s.fdOut ≠ 0) :
    read2 s length = some (if !s.outQ.isEmpty then .got 1 (s.outQ.take length) { s with outQ := s.outQ.drop length }
                           else if !s.outW then .got 1 [] s else .hang) := by
  simp [read2, h, doRead]

-- end-of-file on stdout while stderr still delivers: with both streams requested the call reports end-of-file of stdout
-- (0, streams = 1) every time; the caller drops stdout from the request (as the harness's `drain` does) and gets the stderr data
example : read3 ⟨3, 5, [], [7, 8], false, true⟩ 16 3 [.eintr, .timeout, .ready] = .got 1 [] ⟨3, 5, [], [7, 8], false, true⟩ := by decide
example : read3 ⟨3, 5, [], [7, 8], false, true⟩ 1 2 [.timeout, .ready] = .got 2 [7] ⟨3, 5, [], [8], false, true⟩ := by decide
-- descriptor order does not matter (maxFd): stdout above stderr
example : read3 ⟨12, 5, [1], [7, 8], true, true⟩ 4 3 [.ready] = .got 1 [1] ⟨12, 5, [], [7, 8], true, true⟩ := by decide
-- nothing readable: blocks; nothing requested that is open: EINVAL
example : read3 ⟨3, 5, [], [], true, true⟩ 4 3 [.timeout, .ready] = .blocked := by decide
example : read3 ⟨3, 0, [1], [], true, true⟩ 4 2 [.ready] = .einval := by decide
example : Wf ⟨3, 5, [], [7, 8], false, true⟩ := by intro _; decide

-- the loop as it was (before fixes/args/0010): after ONE time-out of `select` the set is empty and the time-out zero:
-- data that arrives afterwards is never seen, the call spins for ever; the repaired loop delivers
example : read3Old ⟨3, 5, [1, 2], [], true, true⟩ 4 3 [.timeout, .ready] = .spin := by decide
example : read3 ⟨3, 5, [1, 2], [], true, true⟩ 4 3 [.timeout, .ready] = .got 1 [1, 2] ⟨3, 5, [], [], true, true⟩ := by decide
-- without a time-out the old loop behaved like the repaired one (EINTR leaves the set alone)
example : read3Old ⟨3, 5, [1, 2], [], true, true⟩ 4 3 [.eintr, .ready] = .got 1 [1, 2] ⟨3, 5, [], [], true, true⟩ := by decide

end Nstd.Args.ReadSel
