/-
  Executable model of src/Process.cpp (POSIX branch), the parts property C20 talks about:

  * `Process::Arguments::nextChar` / `read` (Process.cpp:1037-1166) over CHECKED memory: every
    argv word and every option name is a buffer (list of bytes that includes its terminator);
    a read at an index outside the buffer is a fault (`none`).  The pointer `arg` is a pair
    (buffer, offset); the initial `arg("")` points into a one-byte literal.
  * `Process::Private::splitCommandLine` (Process.cpp:88-126) as the code's two nested loops
    over a pointer into the command line buffer (with fuel; `split_terminates` proves that the
    fuel `length + 2` always suffices -- the obligation that the unrepaired code (D34) violates).
  * argv / environment preparation of `start`/`open` (Process.cpp:198-322, 475-745):
    what is handed to `execvpe` and which pipes are created.  vfork/exec/pipes/waitpid themselves
    are the kernel's and not modelled.

  The model mirrors the REPAIRED code (fixes/args/*.patch).  Core Lean only.
-/
namespace Nstd.Args

/-- a memory block: the bytes of a C buffer including the terminator, if it has one -/
abbrev Buf := List Nat

/-- `char` → `int` conversion on this platform (char is signed) -/
def sext (c : Nat) : Int := if c < 128 then (c : Int) else (c : Int) - 256

/-! ### C string primitives over checked memory (String.hpp:402-450) -/

/-- `String::length(p)` where `p` points to the first byte of the list; `none` = ran off the buffer -/
def strlenL : List Nat → Option Nat
  | [] => none
  | c :: cs => if c = 0 then some 0 else (strlenL cs).map (· + 1)

/-- `String::find(p, c)`: `some (some i)` = found at offset i, `some none` = null pointer, `none` = fault -/
def findL (ch : Nat) : List Nat → Option (Option Nat)
  | [] => none
  | c :: cs =>
    if c = 0 then some none
    else if c = ch then some (some 0)
    else (findL ch cs).map (fun r => r.map (· + 1))

/-- `String::compare(s1, s2, len) == 0` -/
def cmpN : List Nat → List Nat → Nat → Option Bool
  | _, _, 0 => some true
  | a :: r1, b :: r2, n + 1 => if a = 0 ∨ a ≠ b then some (a == b) else cmpN r1 r2 n
  | _, _, _ + 1 => none

/-- `String::compare(name, arg, argLen) == 0 && !name[argLen]` -/
def nameMatches (name : Buf) (arg : List Nat) (argLen : Nat) : Option Bool :=
  match cmpN name arg argLen with
  | none => none
  | some false => some false
  | some true =>
    match name[argLen]? with
    | none => none
    | some t => some (t == 0)

/-- the bytes `[start, start+len)` of a buffer (what `String::attach(p, len)` refers to) -/
def slice (b : Buf) (start len : Nat) : Option (List Nat) :=
  if start + len ≤ b.length then some ((b.drop start).take len) else none

/-! ### Process::Arguments -/

structure Opt where
  character : Int
  name : Option Buf      -- `none` = null pointer
  flags : Nat
  deriving Repr

def Opt.takesArg (o : Opt) : Bool := o.flags % 2 == 1          -- flags & argumentFlag
def Opt.optional (o : Opt) : Bool := o.flags / 2 % 2 == 1      -- flags & optionalFlag

structure St where
  argv : List Buf        -- argv[0 .. argc): one block per word
  cur : Nat              -- `argv` cursor (index of the next word); `argvEnd` = argv.length
  blk : Option Nat       -- block `arg` points into: `none` = the literal "", `some i` = argv[i]
  off : Nat              -- offset of `arg` in its block
  inOpt : Bool
  skipOpt : Bool
  deriving Repr

/-- `Arguments(argc, argv, options)`: `arg("")`, `++this->argv` -/
def St.init (argv : List Buf) : St :=
  { argv := argv, cur := 1, blk := none, off := 0, inOpt := false, skipOpt := false }

def St.buf (st : St) : Option Buf :=
  match st.blk with
  | none => some [0]
  | some i => st.argv[i]?

/-- `arg[k]` -/
def St.peek (st : St) (k : Nat) : Option Nat :=
  match st.buf with
  | none => none
  | some b => b[st.off + k]?

/-- the bytes from `arg` to the end of its block -/
def St.view (st : St) : Option (List Nat) :=
  match st.buf with
  | none => none
  | some b => some (b.drop st.off)

abbrev Res := Int × List Nat

/-- Process.cpp:1037 (repaired: the current character is not skipped) -/
def nextChar (st : St) : Option (Bool × St) :=
  match st.peek 0 with
  | none => none
  | some c =>
    if c ≠ 0 then some (true, st)
    else if st.cur < st.argv.length then
      some (true, { st with blk := some st.cur, off := 0, cur := st.cur + 1, inOpt := false })
    else some (false, st)

/-- `len = String::length(arg); argument.attach(arg, len); arg += len; return true;` -/
def takeRest (st : St) (ch : Int) : Option (Option Res × St) :=
  match st.buf with
  | none => none
  | some b =>
    match strlenL (b.drop st.off) with
    | none => none
    | some len =>
      match slice b st.off len with
      | none => none
      | some a => some (some (ch, a), { st with off := st.off + len })

/-- the `for(opt ...) if(opt->character == character)` search -/
def findShortOpt (opts : List Opt) (ch : Int) : Option Opt :=
  opts.find? (fun o => o.character == ch)

/-- the long-option search loop (Process.cpp:1075-1077, repaired condition) -/
def findLongOpt : List Opt → List Nat → Nat → Bool → Option (Option Opt)
  | [], _, _, _ => some none
  | o :: os, arg, argLen, hasEq =>
    match o.name with
    | none => findLongOpt os arg argLen hasEq
    | some nm =>
      match nameMatches nm arg argLen with
      | none => none
      | some m =>
        if m && (!hasEq || o.takesArg) then some (some o) else findLongOpt os arg argLen hasEq

/-- Process.cpp:1123-1160 `if(inOpt) { character = *(arg++); ... }` -/
def shortOpt (opts : List Opt) (st : St) : Option (Option Res × St) :=
  match st.peek 0 with
  | none => none
  | some c =>
    let ch := sext c
    let st := { st with off := st.off + 1 }
    match findShortOpt opts ch with
    | none => some (some (63, [45, c]), st)                       -- '?', "-c"
    | some o =>
      if o.takesArg then
        match st.peek 0 with
        | none => none
        | some c1 =>
          if c1 = 0 then
            if o.optional then some (some (ch, []), st)
            else
              match nextChar st with
              | none => none
              | some (false, st') => some (some (58, [45, c]), st')   -- ':', "-c"
              | some (true, st') => takeRest st' ch
          else takeRest st ch
      else some (some (ch, []), st)

/-- the tail of `read` after the `if(!inOpt && !skipOpt)` block -/
def readTail (opts : List Opt) (st : St) : Option (Option Res × St) :=
  if st.inOpt then shortOpt opts st else takeRest st 0

/-- Process.cpp:1065-1107: `arg` stands behind the leading `--` of a word with further characters -/
def longOpt (opts : List Opt) (st : St) : Option (Option Res × St) :=
  match st.buf with
  | none => none
  | some b =>
    let v := b.drop st.off
    match findL 61 v with
    | none => none
    | some eq =>
      match (match eq with | some e => some e | none => strlenL v) with
      | none => none
      | some argLen =>
        match findLongOpt opts v argLen eq.isSome with
        | none => none
        | some none =>
          -- unknown option
          match strlenL (v.drop argLen) with
          | none => none
          | some l2 =>
            let argLen' := argLen + l2
            if st.off < 2 then none
            else
              match slice b (st.off - 2) (argLen' + 2) with
              | none => none
              | some a => some (some (63, a), { st with off := st.off + argLen' })
        | some (some o) =>
          let nameOff := st.off
          let st := { st with off := st.off + (if eq.isSome then argLen + 1 else argLen) }
          if o.takesArg then
            if eq.isSome then takeRest st o.character
            else if !o.optional then
              match nextChar st with
              | none => none
              | some (true, st') => takeRest st' o.character
              | some (false, st') =>
                -- missing argument
                if nameOff < 2 then none
                else
                  match slice b (nameOff - 2) (argLen + 2) with
                  | none => none
                  | some a => some (some (58, a), st')
            else some (some (o.character, []), st)
          else some (some (o.character, []), st)

/-- Process.cpp:1058-1165: the body of `read` behind the initial `nextChar()` -/
def readWord (opts : List Opt) (st : St) : Option (Option Res × St) :=
  if !st.inOpt && !st.skipOpt then
    match st.peek 0 with
    | none => none
    | some c0 =>
      if c0 = 45 then
        match st.peek 1 with
        | none => none
        | some c1 =>
          if c1 = 45 then
            let st := { st with off := st.off + 2 }
            match st.peek 0 with
            | none => none
            | some c2 =>
              if c2 = 0 then
                let st := { st with skipOpt := true }
                match nextChar st with
                | none => none
                | some (false, st) => some (none, st)
                | some (true, st) => readTail opts st
              else longOpt opts st
          else
            let st := { st with off := st.off + 1 }
            match st.peek 0 with
            | none => none
            | some c =>
              if c = 0 then
                if st.off < 1 then none
                else
                  match st.buf with
                  | none => none
                  | some b =>
                    match slice b (st.off - 1) 1 with
                    | none => none
                    | some a => some (some (0, a), st)
              else readTail opts { st with inOpt := true }
      else readTail opts st
  else readTail opts st

/-- Process.cpp:1053 `bool Arguments::read(int& character, String& argument)`;
    `none` = out-of-bounds read, `some (none, _)` = returned false -/
def read (opts : List Opt) (st : St) : Option (Option Res × St) :=
  match nextChar st with
  | none => none
  | some (false, st) => some (none, st)
  | some (true, st) => readWord opts st

inductive Run where
  | fault                       -- a read outside an argument string / option name
  | fuel                        -- the caller's `while(arguments.read(...))` did not end within the fuel
  | ok (rs : List Res)
  deriving Repr, DecidableEq

def Run.cons (r : Res) : Run → Run
  | .ok rs => .ok (r :: rs)
  | x => x

/-- `while(arguments.read(character, argument)) ...` collecting the results -/
def readAll (opts : List Opt) : Nat → St → Run
  | 0, _ => .fuel
  | f + 1, st =>
    match read opts st with
    | none => .fault
    | some (none, _) => .ok []
    | some (some r, st') => (readAll opts f st').cons r

/-! ### splitCommandLine -/

inductive SplitRun where
  | fault
  | fuel
  | done (command : List (List Nat))
  deriving Repr, DecidableEq

/-- Process.cpp:88 `splitCommandLine`: `s` is the command line buffer (with terminator), `p` the
    pointer, `q` = inside the inner `for(++p; *p;)` loop of a quoted segment.  One unit of fuel per
    loop iteration. -/
def splitLoop (s : Buf) : Nat → Bool → Nat → List Nat → List (List Nat) → SplitRun
  | 0, _, _, _, _ => .fuel
  | f + 1, false, p, arg, cmd =>
    match s[p]? with
    | none => .fault
    | some c =>
      if c = 0 then .done (if arg.isEmpty then cmd else cmd ++ [arg])
      else if c = 34 then splitLoop s f true (p + 1) arg cmd
      else if c = 32 then splitLoop s f false (p + 1) [] (cmd ++ [arg])
      else splitLoop s f false (p + 1) (arg ++ [c]) cmd
  | f + 1, true, p, arg, cmd =>
    match s[p]? with
    | none => .fault
    | some c =>
      if c = 0 then splitLoop s f false p arg cmd          -- inner loop ends, outer loop re-tests *p
      else if c = 34 then splitLoop s f false (p + 1) arg cmd
      else if c = 92 then
        match s[p + 1]? with
        | none => .fault
        | some d =>
          if d = 34 then splitLoop s f true (p + 2) (arg ++ [34]) cmd
          else splitLoop s f true (p + 1) (arg ++ [c]) cmd   -- repaired: the backslash is kept
      else splitLoop s f true (p + 1) (arg ++ [c]) cmd

def splitCommandLine (s : Buf) : SplitRun := splitLoop s (s.length + 2) false 0 [] []

/-! ### what `start` / `open` hand to the kernel -/

abbrev Str := List Nat          -- a String value (bytes without terminator)

structure Exec where
  file : Str
  argv : List Str               -- the vector up to its terminating null pointer
  env : Option (List Str)       -- `none` = `::environ` of the parent
  pipes : Nat                   -- bit set of the pipes created (stdout 1, stderr 2, stdin 4)
  deriving Repr, DecidableEq

/-- `prepareEnv`: `key + "=" + value` in the iteration order of the Map (sorted by key: property C01) -/
def prepareEnv (env : List (Str × Str)) : List Str :=
  env.map (fun kv => kv.1 ++ [61] ++ kv.2)

def envOf (env : List (Str × Str)) : Option (List Str) :=
  if env.isEmpty then none else some (prepareEnv env)

/-- what execvpe sees of a pointer vector: the strings up to the first null pointer;
    `none` = no null pointer inside the vector (read beyond it) -/
def upToNull : List (Option Str) → Option (List Str)
  | [] => none
  | none :: _ => some []
  | some s :: r => (upToNull r).map (s :: ·)

/-- the copy loop `for (int i = 1; i < argc; ++i) args[i] = argv[i];` -/
def copyArgs (argv : List (Option Str)) : Nat → Nat → Option (List (Option Str))
  | _, 0 => some []
  | i, n + 1 =>
    match argv[i]? with
    | none => none
    | some a => (copyArgs argv (i + 1) n).map (a :: ·)

/-- "prepare argv of child" (Process.cpp:273-286 / 627-640); the result is the pointer vector `args` -/
def prepareArgv (program : Str) (argc : Nat) (argv : List (Option Str)) : Option (List (Option Str)) :=
  if argc ≠ 0 then
    match argv[argc - 1]? with
    | none => none
    | some none => some argv                                   -- `args = argv` (already terminated)
    | some (some _) => (copyArgs argv 1 (argc - 1)).map (fun r => some program :: r ++ [none])
  else some [some program, none]

/-- `open(executable, argc, argv, streams, environment)` / `start(program, argc, argv, environment)` -/
def openArgv (program : Str) (argc : Nat) (argv : List (Option Str)) (streams : Nat)
    (env : List (Str × Str)) : Option Exec :=
  match prepareArgv program argc argv with
  | none => none
  | some args =>
    match upToNull args with
    | none => none
    | some v => some { file := program, argv := v, env := envOf env, pipes := streams % 8 }

/-- `open(commandLine, streams, environment)` / `start(commandLine, environment)` -/
def openCommand (commandLine : Str) (streams : Nat) (env : List (Str × Str)) : Option Exec :=
  match splitCommandLine (commandLine ++ [0]) with
  | .done command =>
    let command := if command.isEmpty then [[]] else command
    let argv := command.map some ++ [none]
    openArgv (command.headD []) (command.length + 1) argv streams env
  | _ => none

/-- `open(executable, List<String> args, streams, environment)` (repaired: environment passed on) -/
def openList (executable : Str) (args : List Str) (streams : Nat) (env : List (Str × Str)) : Option Exec :=
  openArgv executable args.length (args.map some) streams env


/-! ### environment of the own process (Process.cpp:947-1035)

  The environment is an association list name → value (names unique).  `setenv`/`unsetenv`
  reject an empty name and a name containing `=` (POSIX). -/

abbrev PEnv := List (Str × Str)

def validName (k : Str) : Bool := !k.isEmpty && !k.contains 61

def envRemove (k : Str) (e : PEnv) : PEnv := e.filter (fun kv => kv.1 != k)

/-- `Process::setEnvironmentVariable(name, value)`: an empty value removes the variable
    (repaired: `true` when unsetenv succeeded) -/
def setEnvironmentVariable (e : PEnv) (k v : Str) : PEnv × Bool :=
  if !validName k then (e, false)
  else if v.isEmpty then (envRemove k e, true)
  else ((k, v) :: envRemove k e, true)

/-- `Process::getEnvironmentVariable(name, defaultValue)` for a valid name (getenv of a name containing `=`
    is the C library's business) -/
def getEnvironmentVariable (e : PEnv) (k d : Str) : Str :=
  match e.find? (fun kv => kv.1 == k) with
  | some kv => kv.2
  | none => d

/-! ### the Process object: pid and pipe descriptors with 0 meaning "closed" (Process.hpp:151-162)

  `running` = `pid != 0`; `out/err/inp` = `fdStdOutRead/fdStdErrRead/fdStdInWrite != 0`.
  Kernel calls are assumed to succeed (vfork, execvpe, pipe, waitpid return what POSIX documents
  for a child that exists); what they deliver is not modelled. -/

structure Proc where
  running : Bool
  out : Bool
  err : Bool
  inp : Bool
  deriving Repr, DecidableEq

def Proc.init : Proc := ⟨false, false, false, false⟩

inductive POp where
  | start                 -- start(command) / start(program, argc, argv)
  | openp (mask : Nat)    -- open(..., streams)
  | openFailed (mask : Nat) -- open(..., streams) while pipe() or vfork() fails
  | join
  | joinFailed            -- join() while waitpid fails (EINTR): stdin end closed, pid and read ends kept, false
  | startFailed           -- start(...) while vfork fails: 0, nothing changes
  | kill
  | close (mask : Nat)
  | isRunning
  | read3 (mask : Nat)    -- read(buffer, length, streams): only the EINVAL decision is modelled
  | destroy               -- ~Process() followed by Process()
  deriving Repr, DecidableEq

def bit (mask k : Nat) : Bool := mask / k % 2 == 1

/-- new state and the Boolean the call returns (`start`: pid != 0; `read3`: not EINVAL) -/
def Proc.step (s : Proc) : POp → Proc × Bool
  | .start => if s.running then (s, false) else ({ s with running := true }, true)
  | .openp m =>
    if s.running then (s, false)
    else (⟨true, bit m 1, bit m 2, bit m 4⟩, true)
  | .openFailed _ => (s, false)          -- repaired: the pipes created so far are closed again
  | .join => if !s.running then (s, false) else (Proc.init, true)
  | .joinFailed => if !s.running then (s, false) else ({ s with inp := false }, false)
  | .startFailed => (s, false)
  | .kill => if !s.running then (s, false) else (Proc.init, true)
  | .close m =>
    ({ s with inp := s.inp && !bit m 4, out := s.out && !bit m 1, err := s.err && !bit m 2 }, true)
  | .isRunning => (s, s.running)
  | .read3 m => (s, (bit m 1 && s.out) || (bit m 2 && s.err))
  | .destroy => (Proc.init, true)

def Proc.run (s : Proc) : List POp → Proc
  | [] => s
  | op :: ops => (s.step op).1.run ops

end Nstd.Args
