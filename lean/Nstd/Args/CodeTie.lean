/-
  How a state of the model (`St` of Model.lean) is represented as a state of the translated code
  (`Gen.RS` of Nstd/Generated/ArgsCode.lean, written by tools/gen_args.py from the current sources), and the
  bridge lemmas between the memory primitives of CSem.lean and the checked-memory accessors of the model.
-/
import Nstd.Generated.ArgsCode

namespace Nstd.Args.Tie
open Nstd.Args Nstd.Args.C

/-- the pointer `arg` of a model state -/
def blkOf (st : St) : Blk :=
  match st.blk with
  | none => .lit
  | some i => .word i

def ptrOf (st : St) : Ptr := .mk (blkOf st) st.off

/-- the memory of an `Arguments` object: the argv words and the option table -/
def memOf (opts : List Opt) (argv : List Buf) : Env := { argv := argv, opts := opts, cmd := [] }

/-- `s` represents the model state `st`: the data members of the object are the components of `st`
    (`argv`, `argvEnd`, `options`, `optionsEnd` as indices) -/
structure Rep (opts : List Opt) (st : St) (s : Gen.RS) : Prop where
  argv : s.argv = st.cur
  argvEnd : s.argvEnd = st.argv.length
  options : s.options = 0
  optionsEnd : s.optionsEnd = opts.length
  arg : s.arg = ptrOf st
  inOpt : s.inOpt = st.inOpt
  skipOpt : s.skipOpt = st.skipOpt

/-- the object that represents `st`; parameters and locals (no member) are taken from `base` -/
def embed (opts : List Opt) (st : St) (base : Gen.RS) : Gen.RS :=
  { base with argv := st.cur, argvEnd := st.argv.length, options := 0, optionsEnd := opts.length,
              arg := ptrOf st, inOpt := st.inOpt, skipOpt := st.skipOpt }

theorem rep_embed (opts : List Opt) (st : St) (base : Gen.RS) : Rep opts st (embed opts st base) :=
  ⟨rfl, rfl, rfl, rfl, rfl, rfl, rfl⟩

/-- agreement of a result of the translated `read` (or of a block of it) with a result of the model's -/
def AgreeRead (opts : List Opt) : Option (Ctl Gen.RS Bool) → Option (Option Res × St) → Prop
  | none, none => True
  | some (.ret true s), some (some r, st') => r = (s.character, s.argument) ∧ Rep opts st' s
  | some (.ret false s), some (none, st') => Rep opts st' s
  | _, _ => False

end Nstd.Args.Tie
