/-
  Semantics of the C++ subset that `tools/gen_args.py` translates (the bodies of `Process::Arguments::nextChar`,
  `Process::Arguments::read` and `Process::Private::splitCommandLine` of the CURRENT src/Process.cpp are written,
  statement by statement, as Lean functions over these primitives into Nstd/Generated/ArgsCode.lean).

  * memory = checked blocks, exactly the blocks of Model.lean: the literal `""`, one block per argv word, one per
    option name, the command line buffer; a pointer is null or (block, offset); a load outside its block is a fault
    (`none`), so is arithmetic on a null pointer, a subtraction that leaves the block at its front, a difference of
    pointers into different blocks;
  * `char**` / `const Option*` values are indices into the argv vector / the option table;
  * `String::length`, `String::find(const char*, char)`, `String::compare(const char*, const char*, usize) == 0`
    are `strlenL`, `findL`, `cmpN` of Model.lean (String.hpp:405-453, hand-modelled; read order as in the header);
    `String::attach(p, n)` yields the bytes `[p, p + n)` (fault when they are not inside the block);
  * control flow: every generated block returns `Option (Ctl state result)`: `none` = fault, `next` = fell through /
    `continue`, `brk` = `break` of the enclosing loop, `ret` = `return`, `fuel` = a loop ran out of its fuel.
  Core Lean only.
-/
import Nstd.Args.Model

namespace Nstd.Args.C

inductive Blk where
  | lit                 -- the string literal "" of the constructor
  | word (i : Nat)      -- argv[i]
  | name (i : Nat)      -- options[i].name
  | cmd                 -- the command line buffer
  deriving DecidableEq, Repr

inductive Ptr where
  | null
  | mk (b : Blk) (off : Nat)
  deriving DecidableEq, Repr

structure Env where
  argv : List Buf
  opts : List Opt
  cmd : Buf

def Env.block (E : Env) : Blk → Option Buf
  | .lit => some [0]
  | .word i => E.argv[i]?
  | .name i =>
    match E.opts[i]? with
    | none => none
    | some o => o.name
  | .cmd => some E.cmd

/-- `*p` -/
def Env.load (E : Env) : Ptr → Option Nat
  | .null => none
  | .mk b off =>
    match E.block b with
    | none => none
    | some buf => buf[off]?

/-- `p + n` -/
def Ptr.add : Ptr → Nat → Option Ptr
  | .null, _ => none
  | .mk b off, n => some (.mk b (off + n))

/-- `p - n` -/
def Ptr.sub : Ptr → Nat → Option Ptr
  | .null, _ => none
  | .mk b off, n => if n ≤ off then some (.mk b (off - n)) else none

/-- `p - q` -/
def Ptr.diff : Ptr → Ptr → Option Nat
  | .mk b1 o1, .mk b2 o2 => if b1 = b2 ∧ o2 ≤ o1 then some (o1 - o2) else none
  | _, _ => none

/-- `p < q` (pointers into the same block) -/
def Ptr.lt : Ptr → Ptr → Option Bool
  | .mk b1 o1, .mk b2 o2 => if b1 = b2 then some (decide (o1 < o2)) else none
  | _, _ => none

/-- the bytes from `p` to the end of its block -/
def Env.view (E : Env) : Ptr → Option (List Nat)
  | .null => none
  | .mk b off =>
    match E.block b with
    | none => none
    | some buf => some (buf.drop off)

/-- `String::length(p)` -/
def Env.strlen (E : Env) (p : Ptr) : Option Nat :=
  match E.view p with
  | none => none
  | some v => strlenL v

/-- `String::find(p, c)` -/
def Env.strfind (E : Env) (p : Ptr) (ch : Nat) : Option Ptr :=
  match p with
  | .null => none
  | .mk b off =>
    match E.view (.mk b off) with
    | none => none
    | some v =>
      match findL ch v with
      | none => none
      | some none => some .null
      | some (some i) => some (.mk b (off + i))

/-- `String::compare(a, b, n) == 0` -/
def Env.cmpEq (E : Env) (a b : Ptr) (n : Nat) : Option Bool :=
  match E.view a with
  | none => none
  | some x =>
    match E.view b with
    | none => none
    | some y => cmpN x y n

/-- the value of a String after `attach(p, n)` -/
def Env.attach (E : Env) (p : Ptr) (n : Nat) : Option (List Nat) :=
  match p with
  | .null => none
  | .mk b off =>
    match E.block b with
    | none => none
    | some buf => slice buf off n

/-- `argv[i]` (`*argv` for the `char**` value `i`) -/
def Env.argvAt (E : Env) (i : Nat) : Option Ptr :=
  if i < E.argv.length then some (.mk (.word i) 0) else none

/-- `opt->name` -/
def Env.optName (E : Env) (i : Nat) : Option Ptr :=
  match E.opts[i]? with
  | none => none
  | some o =>
    match o.name with
    | none => some .null
    | some _ => some (.mk (.name i) 0)

/-- `opt->character` -/
def Env.optChar (E : Env) (i : Nat) : Option Int :=
  match E.opts[i]? with
  | none => none
  | some o => some o.character

/-- `opt->flags` -/
def Env.optFlags (E : Env) (i : Nat) : Option Nat :=
  match E.opts[i]? with
  | none => none
  | some o => some o.flags

/-- `(char)i` as the byte it is stored as -/
def toChar (i : Int) : Nat := (i % 256).toNat

inductive Ctl (σ ρ : Type) where
  | next (s : σ)
  | brk (s : σ)
  | ret (r : ρ) (s : σ)
  | fuel
  deriving Repr

end Nstd.Args.C
