/-
  Semantics of the system calls in the C++ subset that `tools/gen_args.py` translates for the Process object
  (`Process::Process`, `~Process`, `isRunning`, `kill`, `join(uint32&)`, `join()`, `close(uint)` of the CURRENT
  src/Process.cpp -> Nstd/Generated/ArgsProc.lean): the kernel is a ghost component `K` of the state:
  * `trace`  -- the system calls made so far, in order (`::close(fd)`, `::kill(pid, sig)`, `waitpid(pid, &status, 0)`);
  * `oracle` -- what the next calls of `waitpid` return: `some status` = the pid (the child was reaped, `status` stored),
               `none` = -1 (EINTR, ECHILD, ...); an exhausted oracle answers -1.
  `waitpid(pid, &status, 0) != (pid_t)pid` is translated as ONE condition (assumption: waitpid returns the pid it was
  asked for or -1).  `WEXITSTATUS(status)` = bits 8..15.  `errno` is a field.  `_exit(status)` appends to the trace and ends the function.
  `unsetenv` / `setenv(.., 1)` act on an association list (the model's `PEnv`) and refuse invalid names (POSIX).  Core Lean only.
-/
import Nstd.Args.CSem

namespace Nstd.Args.C

inductive Sys where
  | close (fd : Int)
  | kill (pid sig : Nat)
  | waitpid (pid : Nat) (ok : Bool)
  | exit (status : Int)
  | read (fd : Int) (len : Nat)
  | write (fd : Int) (len : Nat)
  deriving DecidableEq, Repr

structure K where
  trace : List Sys
  oracle : List (Option Nat)
  deriving Repr

def K.close (k : K) (fd : Int) : K := { k with trace := k.trace ++ [.close fd] }

def K.kill (k : K) (pid sig : Nat) : K := { k with trace := k.trace ++ [.kill pid sig] }

def K.waitpid (k : K) (pid : Nat) : Option Nat × K :=
  match k.oracle with
  | [] => (none, { k with trace := k.trace ++ [.waitpid pid false] })
  | r :: rest => (r, { trace := k.trace ++ [.waitpid pid r.isSome], oracle := rest })

/-- `_exit(status)`: the process ends (what follows in the function is never executed) -/
def K.exit (k : K) (status : Int) : K := { k with trace := k.trace ++ [.exit status] }

/-- what the kernel answers to an I/O call: the next oracle entry (`some n` = n bytes, `none` / exhausted = -1) -/
def K.answer (k : K) : Int × List (Option Nat) :=
  match k.oracle with
  | [] => (-1, [])
  | none :: r => (-1, r)
  | some n :: r => (n, r)

/-- `::read(fd, buffer, len)` -/
def K.sysRead (k : K) (fd : Int) (len : Nat) : Int × K :=
  (k.answer.1, { trace := k.trace ++ [.read fd len], oracle := k.answer.2 })

/-- `::write(fd, buffer, len)` -/
def K.sysWrite (k : K) (fd : Int) (len : Nat) : Int × K :=
  (k.answer.1, { trace := k.trace ++ [.write fd len], oracle := k.answer.2 })

/-- `(int)x` for a `uint32` value -/
def toInt32 (x : Nat) : Int := if x % 4294967296 < 2147483648 then (x % 4294967296 : Nat) else (x % 4294967296 : Nat) - 4294967296

/-- `unsetenv(name) == 0` on the environment `e`: POSIX rejects an empty name and a name containing `=` -/
def envUnset (e : PEnv) (k : Str) : Bool × PEnv := if validName k then (true, envRemove k e) else (false, e)

/-- `setenv(name, value, 1) == 0` -/
def envSet (e : PEnv) (k v : Str) : Bool × PEnv := if validName k then (true, (k, v) :: envRemove k e) else (false, e)

/-- `getenv(name)`: null or the value of the variable (the pointer to its NUL-free bytes, so `String(var, String::length(var))` is the value) -/
def envGet (e : PEnv) (k : Str) : Option Str :=
  match e.find? (fun kv => kv.1 == k) with
  | some kv => some kv.2
  | none => none

def wexitstatus (st : Int) : Nat := (st / 256 % 256).toNat

def EINVAL : Nat := 22
def SIGKILL : Nat := 9

end Nstd.Args.C
