/-
  Semantics of pointer vectors (`char* const argv[]`, `const char** args`) in the translation of the "prepare argv of child" block
  of `Process::start(program, argc, argv, env)` / `Process::open(executable, argc, argv, streams, env)` (tools/gen_args.py ->
  Nstd/Generated/ArgsVec.lean): a vector is the list of its entries, an entry is null (`none`) or a string; an index outside the
  vector (or negative) is a fault; `alloca(sizeof(const char*) * n)` is a fresh vector of `n` entries (their indeterminate values are
  modelled as null -- every entry is written before the vector is used).  Core Lean only.
-/
import Nstd.Args.CSemProc

namespace Nstd.Args.C

abbrev Vec := List (Option Str)

def vecGet (v : Vec) (i : Int) : Option (Option Str) := if i < 0 then none else v[i.toNat]?

def vecSet (v : Vec) (i : Int) (x : Option Str) : Option Vec :=
  if i < 0 ∨ v.length ≤ i.toNat then none else some (v.set i.toNat x)

def vecAlloc (n : Int) : Vec := List.replicate n.toNat none

end Nstd.Args.C
