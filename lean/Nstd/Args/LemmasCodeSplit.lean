/-
  Lemmas for PropsCode.lean: the two loops of the translated `splitCommandLine` (Nstd/Generated/ArgsCode.lean)
  against the reference tokenizer `tok` of Spec.lean, on terminated command line buffers.
-/
import Nstd.Args.CodeTie
import Nstd.Args.LemmasSplit

set_option linter.unusedSimpArgs false

namespace Nstd.Args.Tie
open Nstd.Args Nstd.Args.C Nstd.Args.Spec

theorem load_cmd (E : Env) (p : Nat) : E.load (.mk .cmd p) = E.cmd[p]? := by
  simp [Env.load, Env.block]

/-- the inner loop (inside a quoted segment): it stops behind the closing quote or at the terminator -/
theorem loop2_tok (E : Env) (junk : List Nat) :
    ∀ (n : Nat) (rest : List Nat) (f : Nat) (s : Gen.SS) (p : Nat),
      rest.length ≤ n → (∀ c ∈ rest, c ≠ 0) → s.p = .mk .cmd p → E.cmd.drop p = rest ++ 0 :: junk → rest.length < f →
      ∃ (s' : Gen.SS) (p' : Nat) (rest' : List Nat),
        Gen.split_loop2 E f s = some (.next s') ∧ s'.p = .mk .cmd p' ∧ E.cmd.drop p' = rest' ++ 0 :: junk ∧
        rest'.length ≤ rest.length ∧ (∀ c ∈ rest', c ≠ 0) ∧ s'.command = s.command ∧
        tok true rest s.arg = tok false rest' s'.arg := by
  intro n
  induction n with
  | zero =>
    intro rest f s p hl _ hp hd hf
    have : rest = [] := by cases rest <;> simp_all
    subst this
    have h0 := drop_cons_step (by simpa using hd : E.cmd.drop p = 0 :: junk)
    match f, hf with
    | f + 1, _ =>
      refine ⟨s, p, [], ?_, hp, hd, Nat.le_refl _, by simp, rfl, by simp [tok]⟩
      simp only [Gen.split_loop2, hp, load_cmd, h0.1, if_true]
  | succ n ih =>
    intro rest f s p hl hnz hp hd hf
    match f, hf with
    | f + 1, hf =>
    cases rest with
    | nil =>
      have h0 := drop_cons_step (by simpa using hd : E.cmd.drop p = 0 :: junk)
      refine ⟨s, p, [], ?_, hp, hd, Nat.le_refl _, by simp, rfl, by simp [tok]⟩
      simp only [Gen.split_loop2, hp, load_cmd, h0.1, if_true]
    | cons c cs =>
      have hc : c ≠ 0 := hnz c (by simp)
      have hnz' : ∀ x ∈ cs, x ≠ 0 := fun x hx => hnz x (by simp [hx])
      have hl' : cs.length ≤ n := by simp at hl; omega
      have hf' : cs.length < f := by simp at hf; omega
      have h0 := drop_cons_step (by simpa using hd : E.cmd.drop p = c :: (cs ++ 0 :: junk))
      simp only [Gen.split_loop2, Gen.split_body2, hp, load_cmd, h0.1, hc, if_false, Ptr.add]
      by_cases h34 : c = 34
      · simp only [h34, if_true]
        exact ⟨{ s with p := .mk .cmd (p + 1) }, p + 1, cs, rfl, rfl, h0.2, by simp, hnz', rfl, by rw [tok_true_quote]⟩
      · simp only [h34, if_false]
        by_cases h92 : c = 92
        · simp only [h92, if_true]
          cases cs with
          | nil =>
            have h1 := drop_cons_step (by simpa using h0.2 : E.cmd.drop (p + 1) = 0 :: junk)
            simp only [h1.1, show ¬ (0 : Nat) = 34 by decide, if_false]
            obtain ⟨s', p', rest', e1, e2, e3, e4, e5, e6, e7⟩ :=
              ih [] f { s with p := .mk .cmd (p + 1), arg := s.arg ++ [92] } (p + 1) (by simp) (by simp) rfl h0.2 hf'
            refine ⟨s', p', rest', e1, e2, e3, by simp only [List.length_cons, List.length_nil] at e4 ⊢; omega, e5, e6, ?_⟩
            rw [← e7]; simp [tok, h92]
          | cons d cs' =>
            have h1 := drop_cons_step (by simpa using h0.2 : E.cmd.drop (p + 1) = d :: (cs' ++ 0 :: junk))
            simp only [h1.1]
            by_cases hd34 : d = 34
            · simp only [hd34, if_true]
              have hnz'' : ∀ x ∈ cs', x ≠ 0 := fun x hx => hnz' x (by simp [hx])
              obtain ⟨s', p', rest', e1, e2, e3, e4, e5, e6, e7⟩ :=
                ih cs' f { s with arg := s.arg ++ [34], p := .mk .cmd (p + 2) } (p + 2) (by simp at hl'; omega) hnz'' rfl h1.2
                  (by simp at hf'; omega)
              refine ⟨s', p', rest', e1, e2, e3, by simp only [List.length_cons, List.length_nil] at e4 ⊢; omega, e5, e6, ?_⟩
              rw [← e7]; simp [tok, h92, hd34]
            · simp only [hd34, if_false]
              obtain ⟨s', p', rest', e1, e2, e3, e4, e5, e6, e7⟩ :=
                ih (d :: cs') f { s with p := .mk .cmd (p + 1), arg := s.arg ++ [92] } (p + 1) hl' hnz' rfl h0.2 hf'
              refine ⟨s', p', rest', e1, e2, e3, by simp only [List.length_cons, List.length_nil] at e4 ⊢; omega, e5, e6, ?_⟩
              rw [← e7]; simp [tok, h92, hd34]
        · simp only [h92, if_false]
          obtain ⟨s', p', rest', e1, e2, e3, e4, e5, e6, e7⟩ :=
            ih cs f { s with p := .mk .cmd (p + 1), arg := s.arg ++ [c] } (p + 1) hl' hnz' rfl h0.2 hf'
          refine ⟨s', p', rest', e1, e2, e3, by simp only [List.length_cons, List.length_nil] at e4 ⊢; omega, e5, e6, ?_⟩
          rw [← e7, tok_true_other cs s.arg h34 h92]

/-- the outer loop: what is collected plus the unfinished word is the reference tokenizer's result -/
theorem loop1_tok (E : Env) (junk : List Nat) :
    ∀ (n : Nat) (rest : List Nat) (f : Nat) (s : Gen.SS) (p : Nat),
      rest.length ≤ n → (∀ c ∈ rest, c ≠ 0) → s.p = .mk .cmd p → E.cmd.drop p = rest ++ 0 :: junk → rest.length < f →
      ∃ s' : Gen.SS, Gen.split_loop1 E f s = some (.next s') ∧
        s'.command ++ tok false [] s'.arg = s.command ++ tok false rest s.arg := by
  intro n
  induction n with
  | zero =>
    intro rest f s p hl _ hp hd hf
    have : rest = [] := by cases rest <;> simp_all
    subst this
    have h0 := drop_cons_step (by simpa using hd : E.cmd.drop p = 0 :: junk)
    match f, hf with
    | f + 1, _ =>
      refine ⟨s, ?_, rfl⟩
      simp only [Gen.split_loop1, hp, load_cmd, h0.1, if_true]
  | succ n ih =>
    intro rest f s p hl hnz hp hd hf
    match f, hf with
    | f + 1, hf =>
    cases rest with
    | nil =>
      have h0 := drop_cons_step (by simpa using hd : E.cmd.drop p = 0 :: junk)
      refine ⟨s, ?_, rfl⟩
      simp only [Gen.split_loop1, hp, load_cmd, h0.1, if_true]
    | cons c cs =>
      have hc : c ≠ 0 := hnz c (by simp)
      have hnz' : ∀ x ∈ cs, x ≠ 0 := fun x hx => hnz x (by simp [hx])
      have hl' : cs.length ≤ n := by simp at hl; omega
      have hf' : cs.length < f := by simp at hf; omega
      have h0 := drop_cons_step (by simpa using hd : E.cmd.drop p = c :: (cs ++ 0 :: junk))
      simp only [Gen.split_loop1, Gen.split_body1, hp, load_cmd, h0.1, hc, if_false, Ptr.add]
      by_cases h34 : c = 34
      · simp only [h34, if_true]
        obtain ⟨s2, p2, rest2, e1, e2, e3, e4, e5, e6, e7⟩ :=
          loop2_tok E junk cs.length cs f { s with p := .mk .cmd (p + 1) } (p + 1) (Nat.le_refl _) hnz' rfl h0.2 hf'
        simp only [e1]
        obtain ⟨s', g1, g2⟩ := ih rest2 f s2 p2 (by omega) e5 e2 e3 (by omega)
        refine ⟨s', g1, ?_⟩
        rw [g2, e6, ← e7]; simp [tok, h34]
      · simp only [h34, if_false]
        by_cases h32 : c = 32
        · simp only [h32, if_true]
          obtain ⟨s', g1, g2⟩ := ih cs f { s with command := s.command ++ [s.arg], arg := [], p := .mk .cmd (p + 1) } (p + 1)
            hl' hnz' rfl h0.2 hf'
          refine ⟨s', g1, ?_⟩
          rw [g2]; simp [tok, h32]
        · simp only [h32, if_false]
          obtain ⟨s', g1, g2⟩ := ih cs f { s with p := .mk .cmd (p + 1), arg := s.arg ++ [c] } (p + 1) hl' hnz' rfl h0.2 hf'
          refine ⟨s', g1, ?_⟩
          rw [g2]; simp [tok, h34, h32]

/-- the translated `splitCommandLine` on a terminated buffer: it returns, and what it appended to `command` is the
    reference tokenizer's word list -/
theorem split_tok (E : Env) (str junk : List Nat) (hE : E.cmd = str ++ 0 :: junk) (hnz : ∀ c ∈ str, c ≠ 0)
    (f : Nat) (hf : str.length < f) (base : Gen.SS) :
    ∃ s' : Gen.SS, Gen.split E f base = some (.ret () s') ∧ s'.command = base.command ++ tokenize str := by
  obtain ⟨s1, g1, g2⟩ := loop1_tok E junk str.length str f { base with arg := [], p := .mk .cmd 0 } 0 (Nat.le_refl _) hnz rfl
    (by simpa using hE) hf
  simp only [Gen.split, g1]
  simp only [tok] at g2
  by_cases he : s1.arg.isEmpty = true
  · simp only [he, if_true] at g2 ⊢
    exact ⟨s1, rfl, by simpa [tokenize] using g2⟩
  · simp only [he, if_false] at g2 ⊢
    exact ⟨{ s1 with command := s1.command ++ [s1.arg] }, rfl, by simpa [tokenize] using g2⟩

end Nstd.Args.Tie
