/-
  Tie by translation (fragments), `Process::open(executable, argc, argv, streams, environment)`: the parent branch behind `vfork()`,
  the child branch up to `execvpe` and the `error:` path, translated by tools/gen_args.py from the CURRENT src/Process.cpp into
  Nstd/Generated/ArgsFds.lean, against the descriptor-table model `Kernel.openFds` / `Kernel.openFdsFailed` that
  `open_pipe_ends_exact`, `open_failure_restores_table` and `open_pipe_failure_restores_table` speak about.
  Not translated: the three `pipe()` calls with their `goto error`, the argument / environment preparation (see PropsVec.lean for
  the argv part), `vfork()` itself and `execvpe`.  Assumed: the semantics of the translated subset, `::close` / `dup2` on descriptor tables.
-/
import Nstd.Generated.ArgsFds
import Nstd.Args.PropsProc

set_option linter.unusedSimpArgs false

namespace Nstd.Args.Tie
open Nstd.Args Nstd.Args.C Nstd.Args.Kernel

/-- for every object, every descriptor table and whatever the three arrays hold (0 = pipe not created):
    the parent branch closes the child's ends (stdout/stderr write end, stdin read end) that exist, stores its own ends in the
    members, sets `pid` and returns true; the child branch makes its ends descriptors 1 / 2 / 0 and closes every pipe descriptor;
    the error path closes both ends of every pipe that was created, keeps `errno` and returns false -- exactly the table
    transformers `Kernel.openFds` / `Kernel.openFdsFailed` are composed of -/
theorem translated_open_branches_eq_model (E : Env) (s : GenF.FS) :
    (∃ s', GenF.openParent E s = some (.ret true s') ∧
      s'.tbl = closeIf s.stdinFds0 (closeIf s.stderrFds1 (closeIf s.stdoutFds1 s.tbl)) ∧
      s'.fdStdOutRead = s.stdoutFds0 ∧ s'.fdStdErrRead = s.stderrFds0 ∧ s'.fdStdInWrite = s.stdinFds1 ∧ s'.pid = s.r) ∧
    (∃ s', GenF.openChild E s = some (.ret () s') ∧
      s'.tbl = closeIf s.stdinFds1 (closeIf s.stderrFds0 (closeIf s.stdoutFds0
        (dupCloseIf s.stdinFds0 0 (dupCloseIf s.stderrFds1 2 (dupCloseIf s.stdoutFds1 1 s.tbl)))))) ∧
    (∃ s', GenF.openError E s = some (.ret false s') ∧
      s'.tbl = closeBothIf (s.stdinFds0, s.stdinFds1) (closeBothIf (s.stderrFds0, s.stderrFds1)
        (closeBothIf (s.stdoutFds0, s.stdoutFds1) s.tbl)) ∧
      s'.errno = s.errno ∧ s'.pid = s.pid ∧ s'.fdStdOutRead = s.fdStdOutRead ∧ s'.fdStdErrRead = s.fdStdErrRead ∧
      s'.fdStdInWrite = s.fdStdInWrite) := by
  obtain ⟨fo, fe, fi, pid, r, o0, o1, e0, e1, i0, i1, en, t, st, ca, fk, fr, er⟩ := s
  refine ⟨?_, ?_, ?_⟩
  · by_cases h1 : o1 = 0 <;> by_cases h2 : e1 = 0 <;> by_cases h3 : i0 = 0 <;>
      simp [closeIf, fdClose, h1, h2, h3] <;>
      (funext x; simp only [close]; repeat' split) <;> first | rfl | (simp_all; done) | omega
  · by_cases h1 : o1 = 0 <;> by_cases h2 : e1 = 0 <;> by_cases h3 : i0 = 0 <;>
    by_cases h4 : o0 = 0 <;> by_cases h5 : e0 = 0 <;> by_cases h6 : i1 = 0 <;>
      simp [closeIf, dupCloseIf, fdClose, fdDup2, STDOUT_FILENO, STDERR_FILENO, STDIN_FILENO, h1, h2, h3, h4, h5, h6]
  · by_cases h4 : o0 = 0 <;> by_cases h5 : e0 = 0 <;> by_cases h3 : i0 = 0 <;>
      simp [closeBothIf, fdClose, h3, h4, h5] <;>
      (funext x; simp only [close]; repeat' split) <;> first | rfl | (simp_all; done) | omega

/-- composed with the model's `createPipes`: on the state the three successful `pipe()` calls leave (table and arrays =
    `createPipes streams f t`), the translated parent branch yields `(openFds streams f t).parent` and its members, the translated
    child branch `(openFds streams f t).child`, the translated error path `openFdsFailed streams f t` -/
theorem translated_open_eq_openFds (E : Env) (streams : Nat) (f : Fresh) (t : FdTable) (s : GenF.FS)
    (ht : s.tbl = (createPipes streams f t).1)
    (ho : (s.stdoutFds0, s.stdoutFds1) = (createPipes streams f t).2.1)
    (he : (s.stderrFds0, s.stderrFds1) = (createPipes streams f t).2.2.1)
    (hi : (s.stdinFds0, s.stdinFds1) = (createPipes streams f t).2.2.2) :
    (∃ s', GenF.openParent E s = some (.ret true s') ∧ s'.tbl = (openFds streams f t).parent ∧
      s'.fdStdOutRead = (openFds streams f t).fdStdOutRead ∧ s'.fdStdErrRead = (openFds streams f t).fdStdErrRead ∧
      s'.fdStdInWrite = (openFds streams f t).fdStdInWrite) ∧
    (∃ s', GenF.openChild E s = some (.ret () s') ∧ s'.tbl = (openFds streams f t).child) ∧
    (∃ s', GenF.openError E s = some (.ret false s') ∧ s'.tbl = openFdsFailed streams f t ∧ s'.errno = s.errno) := by
  obtain ⟨⟨p, hp1, hp2, hp3, hp4, hp5, _⟩, ⟨c, hc1, hc2⟩, ⟨e, he1, he2, he3, _⟩⟩ := translated_open_branches_eq_model E s
  have h1 : s.stdoutFds0 = (createPipes streams f t).2.1.1 := congrArg Prod.fst ho
  have h2 : s.stdoutFds1 = (createPipes streams f t).2.1.2 := congrArg Prod.snd ho
  have h3 : s.stderrFds0 = (createPipes streams f t).2.2.1.1 := congrArg Prod.fst he
  have h4 : s.stderrFds1 = (createPipes streams f t).2.2.1.2 := congrArg Prod.snd he
  have h5 : s.stdinFds0 = (createPipes streams f t).2.2.2.1 := congrArg Prod.fst hi
  have h6 : s.stdinFds1 = (createPipes streams f t).2.2.2.2 := congrArg Prod.snd hi
  refine ⟨⟨p, hp1, ?_, ?_, ?_, ?_⟩, ⟨c, hc1, ?_⟩, ⟨e, he1, ?_, he3⟩⟩
  · rw [hp2, ht, h2, h4, h5]; rfl
  · rw [hp3, h1]; rfl
  · rw [hp4, h3]; rfl
  · rw [hp5, h6]; rfl
  · rw [hc2, ht, h1, h2, h3, h4, h5, h6]; rfl
  · rw [he2, ht, ho, he, hi]; rfl

/-- the three statements that create the pipes (`if (streams & ..) { if (pipe(..) != 0) goto error; }`), started with the arrays zeroed
    and no `pipe()` call made, for every mask, every table, every choice of descriptors by the kernel and whichever call fails
    (`failK`, 0 = none): when `Kernel.pipesUntilFailure` says all requested pipes exist, the translated code falls through with
    exactly that table and those arrays; when it says the `k`-th call fails, the translated code has jumped to `error:` and
    returns false with the table `Kernel.errorPath` of the state reached -- `open_pipe_failure_restores_table` speaks about the
    current statements -/
theorem translated_open_pipes_eq_model (E : Env) (s : GenF.FS) (hc : s.calls = 0)
    (ho : s.stdoutFds0 = 0 ∧ s.stdoutFds1 = 0) (he : s.stderrFds0 = 0 ∧ s.stderrFds1 = 0) (hi : s.stdinFds0 = 0 ∧ s.stdinFds1 = 0) :
    match pipesUntilFailure s.streams s.failK s.fresh s.tbl with
    | .ok ps => ∃ s', GenF.openPipes E s = some (.next s') ∧ s'.tbl = ps.t ∧ (s'.stdoutFds0, s'.stdoutFds1) = ps.o ∧
        (s'.stderrFds0, s'.stderrFds1) = ps.e ∧ (s'.stdinFds0, s'.stdinFds1) = ps.i ∧ s'.calls = ps.calls
    | .error ps => ∃ s', GenF.openPipes E s = some (.ret false s') ∧ s'.tbl = errorPath ps ∧ s'.errno = s.errno := by
  obtain ⟨fo, fe, fi, pid, r, o0, o1, e0, e1, i0, i1, en, t, st, ca, fk, fr, er⟩ := s
  simp only at hc ho he hi
  obtain ⟨h1, h2⟩ := ho
  obtain ⟨h3, h4⟩ := he
  obtain ⟨h5, h6⟩ := hi
  subst hc h1 h2 h3 h4 h5 h6
  have k1 : (st &&& 1 = 0) ↔ Kernel.bit st 1 = false := by
    have := and_pow_zero st 0
    simp only [Nat.pow_zero, Nat.div_one] at this
    unfold Kernel.bit; rw [Nat.div_one]; exact this
  have k2 : (st &&& 2 = 0) ↔ Kernel.bit st 2 = false := by
    have := and_pow_zero st 1
    simp only [Nat.pow_one] at this
    unfold Kernel.bit; exact this
  have k4 : (st &&& 4 = 0) ↔ Kernel.bit st 4 = false := by
    have := and_pow_zero st 2
    simp only [show (2 : Nat) ^ 2 = 4 from rfl] at this
    unfold Kernel.bit; exact this
  simp only [GenF.openPipes, GenF.openPipes_b2, GenF.openPipes_b1, pipesUntilFailure, tryPipe, PipeSt.init, k1, k2, k4]
  have c1 : (1 = fk) = (fk = 1) := propext ⟨Eq.symm, Eq.symm⟩
  have c2 : (2 = fk) = (fk = 2) := propext ⟨Eq.symm, Eq.symm⟩
  have c3 : (3 = fk) = (fk = 3) := propext ⟨Eq.symm, Eq.symm⟩
  generalize Kernel.bit st 1 = B1
  generalize Kernel.bit st 2 = B2
  generalize Kernel.bit st 4 = B4
  by_cases q1 : fk = 1 <;> by_cases q2 : fk = 2 <;> by_cases q3 : fk = 3 <;> cases B1 <;> cases B2 <;> cases B4 <;>
  by_cases z1 : fr.outR = 0 <;> by_cases z2 : fr.errR = 0 <;> by_cases z3 : fr.inR = 0 <;>
    simp [c1, c2, c3, q1, q2, q3, z1, z2, z3, bind, Except.bind, tryPipe, errorPath, closeBothIf, fdClose] <;> (try omega)

end Nstd.Args.Tie
