/-
  Lemmas for PropsCode.lean: the blocks of the translated `Process::Arguments::nextChar` / `read`
  (Nstd/Generated/ArgsCode.lean) against the functions of the model (Model.lean), bottom-up.
-/
import Nstd.Args.CodeTie

set_option linter.unusedSimpArgs false

namespace Nstd.Args.Tie
open Nstd.Args Nstd.Args.C

/-! ### flags -/

theorem and_one_zero (n : Nat) : (n &&& 1 = 0) ↔ (n % 2 == 1) = false := by
  rw [Nat.and_one_is_mod]
  rcases Nat.mod_two_eq_zero_or_one n with h | h <;> simp [h]

theorem and_two_zero (n : Nat) : (n &&& 2 = 0) ↔ (n / 2 % 2 == 1) = false := by
  have h2 : (2 : Nat) = 2 ^ 1 := rfl
  have hb : (n / 2 % 2 == 1) = n.testBit 1 := by
    rw [Nat.testBit_eq_decide_div_mod_eq]; simp only [Nat.pow_one]
    rcases Nat.mod_two_eq_zero_or_one (n / 2) with h | h <;> simp [h]
  rw [hb]
  constructor
  · intro h
    have := Nat.testBit_and n 2 1
    rw [h] at this
    rw [h2, Nat.testBit_two_pow_self] at this
    simpa using this.symm
  · intro h
    apply Nat.eq_of_testBit_eq
    intro i
    rw [Nat.testBit_and, h2, Nat.testBit_two_pow]
    by_cases hi : 1 = i
    · subst hi; simp [h]
    · simp [hi]

theorem takesArg_iff (o : Opt) : (o.flags &&& 1 = 0) ↔ o.takesArg = false := and_one_zero _
theorem optional_iff (o : Opt) : (o.flags &&& 2 = 0) ↔ o.optional = false := and_two_zero _

theorem toChar_sext (c : Nat) (h : c < 256) : toChar (sext c) = c := by
  unfold toChar sext
  split <;> omega

/-! ### representation -/

/-- the members `nextChar` may change, taken from a model state -/
def sync (s : Gen.RS) (st : St) : Gen.RS := { s with argv := st.cur, arg := ptrOf st, inOpt := st.inOpt }

theorem sync_self {opts st s} (h : Rep opts st s) : sync s st = s := by
  obtain ⟨h1, h2, h3, h4, h5, h6, h7⟩ := h
  cases s; simp only [sync] at *; subst h1 h5 h6; rfl

@[simp] theorem block_blkOf (opts : List Opt) (st : St) : (memOf opts st.argv).block (blkOf st) = st.buf := by
  unfold blkOf St.buf Env.block memOf
  cases st.blk <;> rfl

theorem load_ptrOf (opts : List Opt) (st : St) (k : Nat) :
    (memOf opts st.argv).load (.mk (blkOf st) (st.off + k)) = st.peek k := by
  simp only [Env.load, block_blkOf, St.peek]
  cases st.buf <;> rfl

theorem load_ptrOf0 (opts : List Opt) (st : St) :
    (memOf opts st.argv).load (.mk (blkOf st) st.off) = st.peek 0 := load_ptrOf opts st 0

theorem nextChar_states {st : St} {b : Bool} {st' : St} (h : nextChar st = some (b, st')) :
    st'.argv = st.argv ∧ st'.skipOpt = st.skipOpt := by
  unfold nextChar at h
  cases hp : st.peek 0 with
  | none => simp [hp] at h
  | some c =>
    simp only [hp] at h
    split at h
    · cases h; exact ⟨rfl, rfl⟩
    · split at h <;> (cases h; exact ⟨rfl, rfl⟩)

theorem rep_sync {opts st s st'} (h : Rep opts st s) (ha : st'.argv = st.argv) (hs : st'.skipOpt = st.skipOpt) :
    Rep opts st' (sync s st') := by
  obtain ⟨h1, h2, h3, h4, h5, h6, h7⟩ := h
  constructor <;> simp [sync, *]

/-- the translated `nextChar` is the model's -/
theorem nextChar_eq {opts : List Opt} {st : St} {s : Gen.RS} (h : Rep opts st s) :
    Gen.nextChar (memOf opts st.argv) s =
      match nextChar st with
      | none => none
      | some (b, st') => some (.ret b (sync s st')) := by
  have hs := sync_self h
  obtain ⟨h1, h2, h3, h4, h5, h6, h7⟩ := h
  unfold Gen.nextChar Gen.nextChar_b1 nextChar
  rw [h5, ptrOf, load_ptrOf0]
  cases hp : st.peek 0 with
  | none => rfl
  | some c =>
    simp only
    by_cases hc : c = 0
    · simp only [hc, if_true, ne_eq, not_true_eq_false, if_false, h1, h2]
      by_cases hl : st.cur < st.argv.length
      · simp only [hl, if_true, Env.argvAt, memOf, sync, ptrOf, blkOf]
        rw [h2]
      · simp only [hl, if_false, hs]
    · simp only [hc, if_false, ne_eq, not_false_eq_true, if_true, hs]

/-! ### `len = String::length(arg); argument.attach(arg, len); arg += len; return true;` (three copies) -/

macro "agree_leaf" : tactic =>
  `(tactic| first
    | (simp [AgreeRead]; done)
    | (simp only [AgreeRead, true_and]; constructor <;> simp [*, ptrOf, blkOf, sync]; done)
    | (simp only [AgreeRead]; refine ⟨?_, ?_⟩ <;> first | (simp [*]; done) | (constructor <;> simp [*, ptrOf, blkOf, sync]; done)))

theorem takeRest_b3 {opts : List Opt} {st : St} {s : Gen.RS} (f : Nat) (h : Rep opts st s) :
    AgreeRead opts (Gen.read_b3 (memOf opts st.argv) f s) (takeRest st s.character) := by
  obtain ⟨h1, h2, h3, h4, h5, h6, h7⟩ := h
  unfold Gen.read_b3 takeRest
  simp only [h5, ptrOf, Env.strlen, Env.view, Env.attach, block_blkOf, Ptr.add]
  cases hb : st.buf with
  | none => agree_leaf
  | some b =>
    simp only
    cases hl : strlenL (List.drop st.off b) with
    | none => agree_leaf
    | some len =>
      simp only
      cases ha : slice b st.off len with
      | none => agree_leaf
      | some a => agree_leaf

theorem takeRest_b8 {opts : List Opt} {st : St} {s : Gen.RS} (f : Nat) (h : Rep opts st s) :
    AgreeRead opts (Gen.read_b8 (memOf opts st.argv) f s) (takeRest st s.character) := takeRest_b3 f h

theorem takeRest_b1 {opts : List Opt} {st : St} {s : Gen.RS} (f : Nat) (h : Rep opts st s) :
    AgreeRead opts (Gen.read_b1 (memOf opts st.argv) f s) (takeRest st 0) := by
  have h' : Rep opts st { s with character := (0 : Int) } := by
    obtain ⟨h1, h2, h3, h4, h5, h6, h7⟩ := h
    exact ⟨h1, h2, h3, h4, h5, h6, h7⟩
  exact takeRest_b3 f h'

/-! ### the short-option loop -/
/-- model side: the required value of a short option is the next word -/
def missingShort (st : St) (c : Nat) : Option (Option Res × St) :=
  match nextChar st with
  | none => none
  | some (false, st') => some (some (58, [45, c]), st')
  | some (true, st') => takeRest st' (sext c)

/-- model side: what `shortOpt` does once the option `o` is found (`st` stands behind the letter `c`) -/
def shortBody (o : Opt) (st : St) (c : Nat) : Option (Option Res × St) :=
  if o.takesArg then
    match st.peek 0 with
    | none => none
    | some c1 =>
      if c1 = 0 then (if o.optional then some (some (sext c, []), st) else missingShort st c)
      else takeRest st (sext c)
  else some (some (sext c, []), st)

theorem shortOpt_eq (opts : List Opt) (st : St) :
    shortOpt opts st =
      match st.peek 0 with
      | none => none
      | some c =>
        match findShortOpt opts (sext c) with
        | none => some (some (63, [45, c]), { st with off := st.off + 1 })
        | some o => shortBody o { st with off := st.off + 1 } c := by
  unfold shortOpt shortBody missingShort
  cases st.peek 0 with
  | none => rfl
  | some c =>
    simp only
    cases findShortOpt opts (sext c) with
    | none => rfl
    | some o => rfl

theorem missing_b4 {opts : List Opt} {st : St} {s : Gen.RS} (f : Nat) (c : Nat) (h : Rep opts st s)
    (hch : s.character = sext c) (hc : c < 256) :
    AgreeRead opts (Gen.read_b4 (memOf opts st.argv) f s) (missingShort st c) := by
  unfold Gen.read_b4 missingShort
  rw [nextChar_eq h]
  cases hn : nextChar st with
  | none => agree_leaf
  | some r =>
    obtain ⟨b, st'⟩ := r
    obtain ⟨ha, hs⟩ := nextChar_states hn
    have hr := rep_sync h ha hs
    cases b with
    | true =>
      simp only [if_true]
      have := takeRest_b3 f hr
      rw [ha] at this
      simpa [sync, hch] using this
    | false =>
      simp only [Bool.false_eq_true, if_false]
      have hx : (sync s st').character = sext c := by simp [sync, hch]
      simp only [AgreeRead, List.nil_append, List.cons_append, hx, toChar_sext c hc, true_and]
      obtain ⟨h1, h2, h3, h4, h5, h6, h7⟩ := hr
      exact ⟨h1, h2, h3, h4, h5, h6, h7⟩

theorem optChar_eq (opts : List Opt) (argv : List Buf) (i : Nat) :
    (memOf opts argv).optChar i = (opts[i]?).map (·.character) := by
  unfold Env.optChar memOf; cases opts[i]? <;> rfl

theorem optFlags_eq (opts : List Opt) (argv : List Buf) (i : Nat) :
    (memOf opts argv).optFlags i = (opts[i]?).map (·.flags) := by
  unfold Env.optFlags memOf; cases opts[i]? <;> rfl

/-- the body of the short-option loop on the entry that matches -/
theorem body1_hit {opts : List Opt} {st : St} {s : Gen.RS} (f : Nat) (c : Nat) (o : Opt) (h : Rep opts st s)
    (hch : s.character = sext c) (hc : c < 256) (ho : opts[s.opt]? = some o) (hm : o.character = sext c) :
    AgreeRead opts (Gen.read_body1 (memOf opts st.argv) f s) (shortBody o st c) := by
  have hb4 := missing_b4 f c h hch hc
  have hb3 := takeRest_b3 f h
  obtain ⟨h1, h2, h3, h4, h5, h6, h7⟩ := h
  unfold Gen.read_body1 shortBody
  simp only [optChar_eq, optFlags_eq, ho, Option.map_some, hch, hm, if_true, h5, ptrOf, load_ptrOf0]
  by_cases ht : o.takesArg = false
  · simp only [(takesArg_iff o).mpr ht, if_true, ht, Bool.false_eq_true, if_false, Gen.read_b2]
    simp only [AgreeRead, hch, true_and]
    exact ⟨h1, h2, h3, h4, h5, h6, h7⟩
  · have ht' : ¬ (o.flags &&& 1 = 0) := fun x => ht ((takesArg_iff o).mp x)
    simp only [Bool.not_eq_false] at ht
    simp only [ht', if_false, ht, if_true]
    cases hp : st.peek 0 with
    | none => agree_leaf
    | some c1 =>
      simp only
      by_cases hz : c1 = 0
      · simp only [hz, if_true]
        by_cases hop : o.optional = false
        · simp only [(optional_iff o).mpr hop, if_true, hop, Bool.false_eq_true, if_false]
          exact hb4
        · have hop' : ¬ (o.flags &&& 2 = 0) := fun x => hop ((optional_iff o).mp x)
          simp only [Bool.not_eq_false] at hop
          simp only [hop', if_false, hop, if_true, AgreeRead, true_and]
          exact ⟨h1, h2, h3, h4, rfl, h6, h7⟩
      · simp only [hz, if_false]
        rw [← hch]; exact hb3

theorem body1_miss {opts : List Opt} {st : St} {s : Gen.RS} (f : Nat) (o : Opt)
    (ho : opts[s.opt]? = some o) (hm : o.character ≠ s.character) :
    Gen.read_body1 (memOf opts st.argv) f s = some (.next s) := by
  unfold Gen.read_body1
  simp only [optChar_eq, ho, Option.map_some, hm, if_false]

/-- the short-option loop: it ends without a hit exactly when `find?` finds nothing, otherwise with the body on the first hit -/
theorem loop1_agree {opts : List Opt} {st : St} (c : Nat) (hc : c < 256) :
    ∀ (f : Nat) (s : Gen.RS), Rep opts st s → s.character = sext c → opts.length - s.opt < f →
      match (opts.drop s.opt).find? (fun o => o.character == sext c) with
      | none => ∃ k, Gen.read_loop1 (memOf opts st.argv) f s = some (.next { s with opt := k })
      | some o => AgreeRead opts (Gen.read_loop1 (memOf opts st.argv) f s) (shortBody o st c) := by
  intro f
  induction f with
  | zero => intro s _ _ hf; omega
  | succ f ih =>
    intro s h hch hf
    unfold Gen.read_loop1
    have hlen := h.optionsEnd
    by_cases hlt' : s.opt < s.optionsEnd
    · simp only [hlt', if_true]
      have hlt : s.opt < opts.length := by omega
      have hd : opts.drop s.opt = opts[s.opt] :: opts.drop (s.opt + 1) := (List.getElem_cons_drop hlt).symm
      have ho : opts[s.opt]? = some opts[s.opt] := List.getElem?_eq_getElem hlt
      rw [hd, List.find?_cons]
      by_cases hm : opts[s.opt].character = sext c
      · simp only [hm, beq_self_eq_true]
        have hb := body1_hit f c opts[s.opt] h hch hc ho hm
        revert hb
        cases Gen.read_body1 (memOf opts st.argv) f s with
        | none => exact id
        | some r =>
          cases r with
          | ret b s' => exact id
          | next s' => cases hx : shortBody opts[s.opt] st c <;> simp [AgreeRead]
          | brk s' => cases hx : shortBody opts[s.opt] st c <;> simp [AgreeRead]
          | fuel => cases hx : shortBody opts[s.opt] st c <;> simp [AgreeRead]
      · have hm' : (opts[s.opt].character == sext c) = false := by simpa using hm
        simp only [hm']
        rw [body1_miss f opts[s.opt] ho (by rw [hch]; exact hm)]
        simp only
        have h' : Rep opts st { s with opt := s.opt + 1 } := by
          obtain ⟨h1, h2, h3, h4, h5, h6, h7⟩ := h
          exact ⟨h1, h2, h3, h4, h5, h6, h7⟩
        have := ih { s with opt := s.opt + 1 } h' hch (by simp only; omega)
        simp only at this
        revert this
        cases (opts.drop (s.opt + 1)).find? (fun o => o.character == sext c) with
        | none => exact id
        | some o => exact id
    · simp only [hlt', if_false]
      have : opts.drop s.opt = [] := List.drop_eq_nil_of_le (by omega)
      rw [this, List.find?_nil]
      exact ⟨s.opt, rfl⟩

/-- a result that agrees with the model is a `return` (or a fault): the wrapper around a loop call passes it on -/
theorem agree_not_ret {opts : List Opt} {r : Option (Ctl Gen.RS Bool)} {X : Option (Option Res × St)}
    (h : AgreeRead opts r X) : r = none ∨ ∃ b s, r = some (.ret b s) := by
  cases r with
  | none => exact .inl rfl
  | some c =>
    cases c with
    | ret b s => exact .inr ⟨b, s, rfl⟩
    | next s => cases X <;> simp [AgreeRead] at h
    | brk s => cases X <;> simp [AgreeRead] at h
    | fuel => cases X <;> simp [AgreeRead] at h

theorem b5_agree {opts : List Opt} {st : St} {s : Gen.RS} (f : Nat) (h : Rep opts st s) (hf : opts.length < f)
    (hbytes : ∀ c, st.peek 0 = some c → c < 256) :
    AgreeRead opts (Gen.read_b5 (memOf opts st.argv) f s) (readTail opts st) := by
  unfold Gen.read_b5 readTail
  by_cases hi : st.inOpt = true
  · have hio : s.inOpt = true := by rw [h.inOpt]; exact hi
    rw [if_pos hio, if_pos hi]
    simp only [shortOpt_eq, h.arg, ptrOf, Ptr.add, load_ptrOf0]
    cases hp : st.peek 0 with
    | none => agree_leaf
    | some c =>
      have hc := hbytes c hp
      simp only
      generalize hs' : ({ s with arg := Ptr.mk (blkOf st) (st.off + 1), character := sext c, opt := s.options } : Gen.RS) = s'
      have hr : Rep opts { st with off := st.off + 1 } s' := by
        obtain ⟨h1, h2, h3, h4, h5, h6, h7⟩ := h
        subst hs'
        exact ⟨h1, h2, h3, h4, rfl, h6, h7⟩
      have hch : s'.character = sext c := by subst hs'; rfl
      have hopt : s'.opt = 0 := by subst hs'; exact h.options
      have hl := loop1_agree (opts := opts) (st := { st with off := st.off + 1 }) c hc f s' hr hch (by omega)
      rw [hopt, List.drop_zero] at hl
      unfold findShortOpt
      cases hfind : List.find? (fun o => o.character == sext c) opts with
      | none =>
        rw [hfind] at hl
        obtain ⟨k, hk⟩ := hl
        simp only at hk
        rw [hk]
        simp only [AgreeRead, List.nil_append, List.cons_append, hch, toChar_sext c hc, true_and]
        obtain ⟨h1, h2, h3, h4, h5, h6, h7⟩ := hr
        exact ⟨h1, h2, h3, h4, h5, h6, h7⟩
      | some o =>
        rw [hfind] at hl
        simp only at hl ⊢
        rcases agree_not_ret hl with hn | ⟨b, s2, hn⟩
        · rw [hn] at hl ⊢; exact hl
        · rw [hn] at hl ⊢; exact hl
  · simp only [Bool.not_eq_true] at hi
    simp only [h.inOpt, hi, Bool.false_eq_true, if_false]
    exact takeRest_b1 f h

/-! ### the long-option loop -/

/-- model side: what `longOpt` does once the option `o` is found (`st` stands behind `--`, `b` is its block) -/
def longBody (o : Opt) (st : St) (b : Buf) (argLen : Nat) (hasEq : Bool) : Option (Option Res × St) :=
  let st2 : St := { st with off := st.off + (if hasEq then argLen + 1 else argLen) }
  if o.takesArg then
    if hasEq then takeRest st2 o.character
    else if !o.optional then
      match nextChar st2 with
      | none => none
      | some (true, st') => takeRest st' o.character
      | some (false, st') =>
        if st.off < 2 then none
        else
          match slice b (st.off - 2) (argLen + 2) with
          | none => none
          | some a => some (some (58, a), st')
    else some (some (o.character, []), st2)
  else some (some (o.character, []), st2)

theorem b10_agree {opts : List Opt} {st : St} {s : Gen.RS} (f : Nat) (o : Opt) (b : Buf) (hasEq : Bool)
    (h : Rep opts st s) (hb : st.buf = some b) (ho : opts[s.opt]? = some o)
    (he : s.end_ = Ptr.null ↔ hasEq = false) :
    AgreeRead opts (Gen.read_b10 (memOf opts st.argv) f s) (longBody o st b s.argLen hasEq) := by
  obtain ⟨h1, h2, h3, h4, h5, h6, h7⟩ := h
  obtain ⟨a1, a2, a3, a4, a5, a6, a7, ch, ag, en, al, op, an, ln⟩ := s
  simp only at h1 h2 h3 h4 h5 h6 h7 ho he
  subst h1 h2 h3 h4 h5 h6 h7
  unfold Gen.read_b10 Gen.read_b9 Gen.read_b7 Gen.read_b6 longBody
  simp only [optChar_eq, optFlags_eq, ho, Option.map_some, ptrOf, Ptr.add, Ptr.sub]
  cases hasEq with
  | false =>
    have he' : en = Ptr.null := he.mpr rfl
    subst he'
    simp only [if_true, Bool.false_eq_true, if_false]
    by_cases ht : o.takesArg = false
    · simp only [(takesArg_iff o).mpr ht, if_true, ht, Bool.false_eq_true, if_false, AgreeRead, true_and]
      exact ⟨rfl, rfl, rfl, rfl, rfl, rfl, rfl⟩
    · have ht' : ¬ (o.flags &&& 1 = 0) := fun x => ht ((takesArg_iff o).mp x)
      simp only [Bool.not_eq_false] at ht
      simp only [ht', if_false, ht, if_true]
      by_cases hop : o.optional = false
      · simp only [(optional_iff o).mpr hop, if_true, hop, Bool.not_false]
        have hr2 : Rep opts { st with off := st.off + al } (⟨st.cur, st.argv.length, 0, opts.length, Ptr.mk (blkOf st) (st.off + al), st.inOpt, st.skipOpt, o.character, ag, Ptr.null, al, op, Ptr.mk (blkOf st) st.off, ln⟩ : Gen.RS) :=
          ⟨rfl, rfl, rfl, rfl, rfl, rfl, rfl⟩
        have hn := nextChar_eq hr2
        simp only at hn
        rw [hn]
        cases hnc : nextChar { st with off := st.off + al } with
        | none => agree_leaf
        | some r =>
          obtain ⟨bb, st'⟩ := r
          obtain ⟨ha, hs⟩ := nextChar_states hnc
          have hr3 := rep_sync hr2 ha hs
          cases bb with
          | true =>
            simp only [if_true]
            have := takeRest_b8 f hr3
            rw [ha] at this
            simpa [sync] using this
          | false =>
            simp only [Bool.false_eq_true, if_false, sync, Env.attach, block_blkOf, hb, optFlags_eq, ho, Option.map_some, (optional_iff o).mpr hop, if_true]
            by_cases h2 : 2 ≤ st.off
            · have h2' : ¬ st.off < 2 := by omega
              simp only [h2, if_true, h2', if_false, Env.attach, block_blkOf, hb]
              cases slice b (st.off - 2) (al + 2) with
              | none => agree_leaf
              | some a =>
                simp only [AgreeRead, true_and]
                obtain ⟨h1, h2, h3, h4, h5, h6, h7⟩ := hr3
                exact ⟨h1, h2, h3, h4, h5, h6, h7⟩
            · have h2' : st.off < 2 := by omega
              simp only [h2, if_false, h2', if_true]
              agree_leaf
      · have hop' : ¬ (o.flags &&& 2 = 0) := fun x => hop ((optional_iff o).mp x)
        simp only [Bool.not_eq_false] at hop
        simp only [hop', if_false, hop, Bool.not_true, Bool.false_eq_true, AgreeRead, true_and]
        exact ⟨rfl, rfl, rfl, rfl, rfl, rfl, rfl⟩
  | true =>
    have he' : ¬ en = Ptr.null := fun x => by simpa using he.mp x
    simp only [he', if_false, if_true]
    by_cases ht : o.takesArg = false
    · simp only [(takesArg_iff o).mpr ht, if_true, ht, Bool.false_eq_true, if_false, AgreeRead, true_and]
      exact ⟨rfl, rfl, rfl, rfl, rfl, rfl, rfl⟩
    · have ht' : ¬ (o.flags &&& 1 = 0) := fun x => ht ((takesArg_iff o).mp x)
      simp only [Bool.not_eq_false] at ht
      simp only [ht', if_false, ht, if_true]
      have hr2 : Rep opts { st with off := st.off + (al + 1) } (⟨st.cur, st.argv.length, 0, opts.length, Ptr.mk (blkOf st) (st.off + (al + 1)), st.inOpt, st.skipOpt, o.character, ag, en, al, op, Ptr.mk (blkOf st) st.off, ln⟩ : Gen.RS) :=
        ⟨rfl, rfl, rfl, rfl, rfl, rfl, rfl⟩
      exact takeRest_b8 f hr2

theorem optName_eq (opts : List Opt) (argv : List Buf) (i : Nat) (o : Opt) (ho : opts[i]? = some o) :
    (memOf opts argv).optName i = some (match o.name with | none => Ptr.null | some _ => Ptr.mk (.name i) 0) := by
  unfold Env.optName memOf; simp only [ho]; cases o.name <;> rfl

theorem block_name (opts : List Opt) (argv : List Buf) (i : Nat) (o : Opt) (ho : opts[i]? = some o) :
    (memOf opts argv).block (.name i) = o.name := by
  unfold Env.block memOf; simp only [ho]

/-- the body of the long-option loop: the test of one table entry -/
theorem body2_eq {opts : List Opt} {st : St} {s : Gen.RS} (f : Nat) (o : Opt) (b : Buf) (hasEq : Bool)
    (h : Rep opts st s) (hb : st.buf = some b) (ho : opts[s.opt]? = some o)
    (he : s.end_ = Ptr.null ↔ hasEq = false) :
    Gen.read_body2 (memOf opts st.argv) f s =
      match o.name with
      | none => some (.next s)
      | some nm =>
        match nameMatches nm (b.drop st.off) s.argLen with
        | none => none
        | some m => if (m && (!hasEq || o.takesArg)) = true then Gen.read_b10 (memOf opts st.argv) f s else some (.next s) := by
  unfold Gen.read_body2
  simp only [optName_eq opts st.argv s.opt o ho, optFlags_eq, ho, Option.map_some]
  cases hn : o.name with
  | none => simp
  | some nm =>
    have hbn := block_name opts st.argv s.opt o ho
    rw [hn] at hbn
    simp only [reduceCtorEq, if_false, h.arg, ptrOf, Env.cmpEq, Env.view, hbn, block_blkOf, hb, List.drop_zero,
      Ptr.add, Env.load, Nat.zero_add, nameMatches]
    cases cmpN nm (List.drop st.off b) s.argLen with
    | none => rfl
    | some r =>
      cases r with
      | false => simp
      | true =>
        simp only [if_true]
        cases nm[s.argLen]? with
        | none => rfl
        | some t =>
          simp only
          by_cases ht : t = 0
          · subst ht
            simp only [if_true, beq_self_eq_true, Bool.true_and]
            cases hasEq with
            | false => simp [he.mpr rfl]
            | true =>
              have he' : ¬ s.end_ = Ptr.null := fun x => by simpa using he.mp x
              simp only [he', if_false, Bool.not_true, Bool.false_or]
              by_cases hta : o.takesArg = false
              · simp only [(takesArg_iff o).mpr hta, if_true, hta, Bool.false_eq_true, if_false]
              · have ht' : ¬ (o.flags &&& 1 = 0) := fun x => hta ((takesArg_iff o).mp x)
                simp only [Bool.not_eq_false] at hta
                simp only [ht', if_false, hta, if_true]
          · have : (t == 0) = false := by simpa using ht
            simp [ht, this]

/-- the long-option loop against `findLongOpt` -/
theorem loop2_agree {opts : List Opt} {st : St} (b : Buf) (hasEq : Bool) (hb : st.buf = some b) :
    ∀ (f : Nat) (s : Gen.RS), Rep opts st s → (s.end_ = Ptr.null ↔ hasEq = false) → opts.length - s.opt < f →
      match findLongOpt (opts.drop s.opt) (b.drop st.off) s.argLen hasEq with
      | none => Gen.read_loop2 (memOf opts st.argv) f s = none
      | some none => ∃ k, Gen.read_loop2 (memOf opts st.argv) f s = some (.next { s with opt := k })
      | some (some o) => AgreeRead opts (Gen.read_loop2 (memOf opts st.argv) f s) (longBody o st b s.argLen hasEq) := by
  intro f
  induction f with
  | zero => intro s _ _ hf; omega
  | succ f ih =>
    intro s h he hf
    unfold Gen.read_loop2
    have hlen := h.optionsEnd
    by_cases hlt' : s.opt < s.optionsEnd
    · simp only [hlt', if_true]
      have hlt : s.opt < opts.length := by omega
      have hd : opts.drop s.opt = opts[s.opt] :: opts.drop (s.opt + 1) := (List.getElem_cons_drop hlt).symm
      have ho : opts[s.opt]? = some opts[s.opt] := List.getElem?_eq_getElem hlt
      rw [hd, findLongOpt, body2_eq f opts[s.opt] b hasEq h hb ho he]
      have h' : Rep opts st { s with opt := s.opt + 1 } := by
        obtain ⟨h1, h2, h3, h4, h5, h6, h7⟩ := h
        exact ⟨h1, h2, h3, h4, h5, h6, h7⟩
      have hnext := ih { s with opt := s.opt + 1 } h' he (by simp only; omega)
      simp only at hnext
      cases hn : opts[s.opt].name with
      | none => simpa using hnext
      | some nm =>
        simp only
        cases hm : nameMatches nm (List.drop st.off b) s.argLen with
        | none => simp
        | some m =>
          simp only
          by_cases hc : (m && (!hasEq || opts[s.opt].takesArg)) = true
          · simp only [hc, if_true]
            have hb10 := b10_agree f opts[s.opt] b hasEq h hb ho he
            rcases agree_not_ret hb10 with hx | ⟨bb, s2, hx⟩
            · rw [hx] at hb10 ⊢; exact hb10
            · rw [hx] at hb10 ⊢; exact hb10
          · simp only [hc, Bool.false_eq_true, if_false]
            exact hnext
    · simp only [hlt', if_false]
      have : opts.drop s.opt = [] := List.drop_eq_nil_of_le (by omega)
      rw [this, findLongOpt]
      exact ⟨s.opt, rfl⟩

/-- model side: the unknown long option -/
def unknownLong (st : St) (b : Buf) (argLen : Nat) : Option (Option Res × St) :=
  match strlenL ((b.drop st.off).drop argLen) with
  | none => none
  | some l2 =>
    if st.off < 2 then none
    else
      match slice b (st.off - 2) (argLen + l2 + 2) with
      | none => none
      | some a => some (some (63, a), { st with off := st.off + (argLen + l2) })

theorem longOpt_eq (opts : List Opt) (st : St) :
    longOpt opts st =
      match st.buf with
      | none => none
      | some b =>
        match findL 61 (b.drop st.off) with
        | none => none
        | some eq =>
          match (match eq with | some e => some e | none => strlenL (b.drop st.off)) with
          | none => none
          | some argLen =>
            match findLongOpt opts (b.drop st.off) argLen eq.isSome with
            | none => none
            | some none => unknownLong st b argLen
            | some (some o) => longBody o st b argLen eq.isSome := by
  unfold longOpt unknownLong longBody
  cases st.buf with
  | none => rfl
  | some b =>
    simp only
    cases findL 61 (List.drop st.off b) with
    | none => rfl
    | some eq =>
      cases eq with
      | some e =>
        simp only
        cases findLongOpt opts (List.drop st.off b) e (some e).isSome with
        | none => rfl
        | some r =>
          cases r with
          | none => rfl
          | some o => rfl
      | none =>
        simp only
        cases strlenL (List.drop st.off b) with
        | none => rfl
        | some argLen =>
          simp only
          cases findLongOpt opts (List.drop st.off b) argLen (none : Option Nat).isSome with
          | none => rfl
          | some r =>
            cases r with
            | none => rfl
            | some o => rfl

theorem b11_agree {opts : List Opt} {st : St} {s : Gen.RS} (f : Nat) (b : Buf) (hasEq : Bool)
    (h : Rep opts st s) (hb : st.buf = some b) (he : s.end_ = Ptr.null ↔ hasEq = false) (hf : opts.length < f) :
    AgreeRead opts (Gen.read_b11 (memOf opts st.argv) f s)
      (match findLongOpt opts (b.drop st.off) s.argLen hasEq with
       | none => none
       | some none => unknownLong st b s.argLen
       | some (some o) => longBody o st b s.argLen hasEq) := by
  unfold Gen.read_b11
  simp only
  generalize hs' : ({ s with opt := s.options } : Gen.RS) = s'
  have hr : Rep opts st s' := by
    obtain ⟨h1, h2, h3, h4, h5, h6, h7⟩ := h
    subst hs'; exact ⟨h1, h2, h3, h4, h5, h6, h7⟩
  have hopt : s'.opt = 0 := by subst hs'; exact h.options
  have hal : s'.argLen = s.argLen := by subst hs'; rfl
  have he' : s'.end_ = Ptr.null ↔ hasEq = false := by subst hs'; exact he
  have hl := loop2_agree b hasEq hb f s' hr he' (by omega)
  rw [hopt, List.drop_zero, hal] at hl
  cases hfind : findLongOpt opts (List.drop st.off b) s.argLen hasEq with
  | none =>
    rw [hfind] at hl; simp only at hl ⊢; rw [hl]; trivial
  | some r =>
    cases r with
    | some o =>
      rw [hfind] at hl
      simp only at hl ⊢
      rcases agree_not_ret hl with hn | ⟨bb, s2, hn⟩
      · rw [hn] at hl ⊢; exact hl
      · rw [hn] at hl ⊢; exact hl
    | none =>
      rw [hfind] at hl
      obtain ⟨k, hk⟩ := hl
      simp only at hk ⊢
      rw [hk]
      obtain ⟨h1, h2, h3, h4, h5, h6, h7⟩ := hr
      simp only [hal, h5, ptrOf, Ptr.add, Ptr.sub, Env.strlen, Env.view, Env.attach, block_blkOf, hb, unknownLong, List.drop_drop]
      cases strlenL (List.drop (st.off + s.argLen) b) with
      | none => agree_leaf
      | some l2 =>
        simp only
        by_cases hge : 2 ≤ st.off
        · have hge' : ¬ st.off < 2 := by omega
          simp only [hge, if_true, hge', if_false, Env.attach, block_blkOf, hb]
          cases slice b (st.off - 2) (s.argLen + l2 + 2) with
          | none => agree_leaf
          | some a =>
            simp only [AgreeRead, true_and]
            exact ⟨h1, h2, h3, h4, rfl, h6, h7⟩
        · have hge' : st.off < 2 := by omega
          simp only [hge, if_false, hge', if_true]
          agree_leaf

/-! ### `read` -/

/-- every byte of every argv word is a byte -/
def Bytes (argv : List Buf) : Prop := ∀ b ∈ argv, ∀ x ∈ b, x < 256

theorem peek_lt {st : St} (hB : Bytes st.argv) {k c : Nat} (h : st.peek k = some c) : c < 256 := by
  unfold St.peek St.buf at h
  cases hb : st.blk with
  | none =>
    simp only [hb] at h
    have := List.mem_of_getElem? h
    simp at this; omega
  | some i =>
    simp only [hb] at h
    cases ha : st.argv[i]? with
    | none => simp [ha] at h
    | some b =>
      simp only [ha] at h
      exact hB b (List.mem_of_getElem? ha) c (List.mem_of_getElem? h)

theorem b13_agree {opts : List Opt} {st : St} {s : Gen.RS} (f : Nat) (h : Rep opts st s) (hf : opts.length < f)
    (hB : Bytes st.argv) :
    AgreeRead opts (Gen.read_b13 (memOf opts st.argv) f s) (readWord opts st) := by
  have hb5 : ∀ (st' : St) (s' : Gen.RS), st'.argv = st.argv → Rep opts st' s' →
      AgreeRead opts (Gen.read_b5 (memOf opts st.argv) f s') (readTail opts st') := by
    intro st' s' ha hr
    have := b5_agree f hr hf (fun c hc => peek_lt (by rw [ha]; exact hB) hc)
    rw [ha] at this; exact this
  have hb11 : ∀ (st' : St) (s' : Gen.RS) (b : Buf) (hasEq : Bool), st'.argv = st.argv → Rep opts st' s' → st'.buf = some b →
      (s'.end_ = Ptr.null ↔ hasEq = false) →
      AgreeRead opts (Gen.read_b11 (memOf opts st.argv) f s')
        (match findLongOpt opts (b.drop st'.off) s'.argLen hasEq with
         | none => none
         | some none => unknownLong st' b s'.argLen
         | some (some o) => longBody o st' b s'.argLen hasEq) := by
    intro st' s' b hasEq ha hr hb he
    have := b11_agree f b hasEq hr hb he hf
    rw [ha] at this; exact this
  obtain ⟨h1, h2, h3, h4, h5, h6, h7⟩ := h
  obtain ⟨a1, a2, a3, a4, a5, a6, a7, ch, ag, en, al, op, an, ln⟩ := s
  simp only at h1 h2 h3 h4 h5 h6 h7
  subst h1 h2 h3 h4 h5 h6 h7
  obtain ⟨argv, cur, blk, off, io, so⟩ := st
  simp only at hB hb5 hb11
  unfold Gen.read_b13 readWord
  have hpk : ∀ (k : Nat) (i sk : Bool), St.peek ⟨argv, cur, blk, off + k, i, sk⟩ 0 = St.peek ⟨argv, cur, blk, off, io, so⟩ k :=
    fun _ _ _ => rfl
  have hbuf : ∀ (k : Nat) (i sk : Bool), St.buf ⟨argv, cur, blk, k, i, sk⟩ = St.buf ⟨argv, cur, blk, off, io, so⟩ :=
    fun _ _ _ => rfl
  have hblk : ∀ (k : Nat) (i sk : Bool), blkOf ⟨argv, cur, blk, k, i, sk⟩ = blkOf ⟨argv, cur, blk, off, io, so⟩ :=
    fun _ _ _ => rfl
  cases io with
  | true =>
    simp only [if_true, Bool.not_true, Bool.false_and, Bool.false_eq_true, if_false]
    exact hb5 _ _ rfl ⟨rfl, rfl, rfl, rfl, rfl, rfl, rfl⟩
  | false =>
    cases so with
    | true =>
      simp only [Bool.false_eq_true, if_false, if_true, Bool.not_true, Bool.and_false]
      exact hb5 _ _ rfl ⟨rfl, rfl, rfl, rfl, rfl, rfl, rfl⟩
    | false =>
      have hld0 : (memOf opts argv).load (Ptr.mk (blkOf ⟨argv, cur, blk, off, false, false⟩) off) = St.peek ⟨argv, cur, blk, off, false, false⟩ 0 :=
        load_ptrOf0 opts ⟨argv, cur, blk, off, false, false⟩
      have hld : ∀ k, (memOf opts argv).load (Ptr.mk (blkOf ⟨argv, cur, blk, off, false, false⟩) (off + k)) = St.peek ⟨argv, cur, blk, off, false, false⟩ k :=
        fun k => load_ptrOf opts ⟨argv, cur, blk, off, false, false⟩ k
      have hblock : (memOf opts argv).block (blkOf ⟨argv, cur, blk, off, false, false⟩) = St.buf ⟨argv, cur, blk, off, false, false⟩ :=
        block_blkOf opts ⟨argv, cur, blk, off, false, false⟩
      simp only [Bool.false_eq_true, if_false, Bool.not_false, Bool.and_self, if_true, ptrOf, hld0, Ptr.add,
        hld, hpk]
      cases hp0 : St.peek ⟨argv, cur, blk, off, false, false⟩ 0 with
      | none => agree_leaf
      | some c0 =>
        simp only
        by_cases hc0 : c0 = 45
        · simp only [hc0, if_true]
          cases hp1 : St.peek ⟨argv, cur, blk, off, false, false⟩ 1 with
          | none => agree_leaf
          | some c1 =>
            simp only
            by_cases hc1 : c1 = 45
            · simp only [hc1, if_true]
              cases hp2 : St.peek ⟨argv, cur, blk, off, false, false⟩ 2 with
              | none => agree_leaf
              | some c2 =>
                simp only
                by_cases hc2 : c2 = 0
                · simp only [hc2, if_true]
                  have hr2 : Rep opts ⟨argv, cur, blk, off + 2, false, true⟩ (⟨cur, argv.length, 0, opts.length, Ptr.mk (blkOf ⟨argv, cur, blk, off, false, false⟩) (off + 2), false, true, ch, ag, en, al, op, an, ln⟩ : Gen.RS) :=
                    ⟨rfl, rfl, rfl, rfl, rfl, rfl, rfl⟩
                  have hn := nextChar_eq hr2
                  simp only at hn
                  simp only [hn]
                  cases hnc : nextChar ⟨argv, cur, blk, off + 2, false, true⟩ with
                  | none => agree_leaf
                  | some r =>
                    obtain ⟨bb, st'⟩ := r
                    obtain ⟨ha, hs'⟩ := nextChar_states hnc
                    have hr3 := rep_sync hr2 ha hs'
                    cases bb with
                    | true =>
                      simp only [if_true]
                      exact hb5 st' _ ha hr3
                    | false =>
                      simp only [Bool.false_eq_true, if_false, AgreeRead]
                      exact hr3
                · simp only [hc2, if_false, longOpt_eq, hbuf, Env.strfind, Env.view, Env.strlen, hblock]
                  cases hb : St.buf ⟨argv, cur, blk, off, false, false⟩ with
                  | none => agree_leaf
                  | some b =>
                    simp only
                    cases hfl : findL 61 (List.drop (off + 2) b) with
                    | none => agree_leaf
                    | some eq =>
                      cases eq with
                      | none =>
                        simp only [if_true]
                        cases hsl : strlenL (List.drop (off + 2) b) with
                        | none => agree_leaf
                        | some len =>
                          simp only [Option.isSome_none]
                          exact hb11 ⟨argv, cur, blk, off + 2, false, false⟩ _ b false rfl ⟨rfl, rfl, rfl, rfl, rfl, rfl, rfl⟩ hb (by simp)
                      | some e =>
                        simp only [reduceCtorEq, if_false, Ptr.diff, true_and, Nat.le_add_right, if_true, Nat.add_sub_cancel_left,
                          Option.isSome_some]
                        exact hb11 ⟨argv, cur, blk, off + 2, false, false⟩ _ b true rfl ⟨rfl, rfl, rfl, rfl, rfl, rfl, rfl⟩ hb (by simp)
            · simp only [hc1, if_false, Ptr.sub, Env.attach, hblock, hbuf]
              cases hp1' : St.peek ⟨argv, cur, blk, off, false, false⟩ 1 with
              | none => simp [hp1] at hp1'
              | some c1' =>
                have : c1' = c1 := by rw [hp1] at hp1'; cases hp1'; rfl
                subst this
                skip
                by_cases hz : c1' = 0
                · simp only [hz, if_true, Nat.le_add_left, Nat.add_sub_cancel, Env.attach, hblock]
                  have hlt : ¬ off + 1 < 1 := by omega
                  simp only [hlt, if_false]
                  cases hb : St.buf ⟨argv, cur, blk, off, false, false⟩ with
                  | none => agree_leaf
                  | some b =>
                    simp only
                    cases slice b off 1 with
                    | none => agree_leaf
                    | some a =>
                      simp only [AgreeRead, true_and]
                      exact ⟨rfl, rfl, rfl, rfl, rfl, rfl, rfl⟩
                · simp only [hz, if_false, Gen.read_b12]
                  exact hb5 ⟨argv, cur, blk, off + 1, true, false⟩ _ rfl ⟨rfl, rfl, rfl, rfl, rfl, rfl, rfl⟩
        · simp only [hc0, if_false]
          exact hb5 _ _ rfl ⟨rfl, rfl, rfl, rfl, rfl, rfl, rfl⟩

/-- a result of a model function keeps the argv vector -/
def Keeps (argv : List Buf) (r : Option (Option Res × St)) : Prop := ∀ x st', r = some (x, st') → st'.argv = argv

theorem keeps_none (argv : List Buf) : Keeps argv none := fun _ _ h => by cases h
theorem keeps_some (argv : List Buf) (x : Option Res) (st : St) (h : st.argv = argv) : Keeps argv (some (x, st)) :=
  fun _ _ e => by cases e; exact h

theorem takeRest_keeps (st : St) (ch : Int) : Keeps st.argv (takeRest st ch) := by
  unfold takeRest
  cases st.buf with
  | none => exact keeps_none _
  | some b =>
    simp only
    cases strlenL (List.drop st.off b) with
    | none => exact keeps_none _
    | some len =>
      simp only
      cases slice b st.off len with
      | none => exact keeps_none _
      | some a => exact keeps_some _ _ _ rfl

theorem nextChar_then_keeps (st : St) (F : Bool → St → Option (Option Res × St))
    (hF : ∀ b st', st'.argv = st.argv → Keeps st.argv (F b st')) :
    Keeps st.argv (match nextChar st with | none => none | some (b, st') => F b st') := by
  cases hn : nextChar st with
  | none => exact keeps_none _
  | some r =>
    obtain ⟨b, st'⟩ := r
    exact hF b st' (nextChar_states hn).1

theorem missingShort_keeps (st : St) (c : Nat) : Keeps st.argv (missingShort st c) := by
  have := nextChar_then_keeps st (fun b st' => if b then takeRest st' (sext c) else some (some (58, [45, c]), st'))
    (fun b st' ha => by
      cases b
      · exact keeps_some _ _ _ ha
      · simp only [if_true]; rw [← ha]; exact takeRest_keeps _ _)
  unfold missingShort
  cases hn : nextChar st with
  | none => exact keeps_none _
  | some r =>
    obtain ⟨b, st'⟩ := r
    rw [hn] at this
    cases b <;> simpa using this

theorem shortBody_keeps (o : Opt) (st : St) (c : Nat) : Keeps st.argv (shortBody o st c) := by
  unfold shortBody
  split
  · cases st.peek 0 with
    | none => exact keeps_none _
    | some c1 =>
      simp only
      split
      · split
        · exact keeps_some _ _ _ rfl
        · exact missingShort_keeps _ _
      · exact takeRest_keeps _ _
  · exact keeps_some _ _ _ rfl

theorem readTail_keeps (opts : List Opt) (st : St) : Keeps st.argv (readTail opts st) := by
  unfold readTail
  split
  · rw [shortOpt_eq]
    cases st.peek 0 with
    | none => exact keeps_none _
    | some c =>
      simp only
      cases findShortOpt opts (sext c) with
      | none => exact keeps_some _ _ _ rfl
      | some o => exact shortBody_keeps o { st with off := st.off + 1 } c
  · exact takeRest_keeps _ _

theorem longBody_keeps (o : Opt) (st : St) (b : Buf) (argLen : Nat) (hasEq : Bool) :
    Keeps st.argv (longBody o st b argLen hasEq) := by
  unfold longBody
  cases hasEq with
  | true =>
    simp only [if_true]
    split
    · exact takeRest_keeps { st with off := st.off + (argLen + 1) } _
    · exact keeps_some _ _ _ rfl
  | false =>
    simp only [Bool.false_eq_true, if_false]
    split
    · split
      · cases hn : nextChar { st with off := st.off + argLen } with
        | none => exact keeps_none _
        | some r =>
          obtain ⟨bb, st'⟩ := r
          have ha : st'.argv = st.argv := (nextChar_states hn).1
          cases bb with
          | true => simp only; rw [← ha]; exact takeRest_keeps _ _
          | false =>
            simp only
            split
            · exact keeps_none _
            · cases slice b (st.off - 2) (argLen + 2) with
              | none => exact keeps_none _
              | some a => exact keeps_some _ _ _ ha
      · exact keeps_some _ _ _ rfl
    · exact keeps_some _ _ _ rfl

theorem unknownLong_keeps (st : St) (b : Buf) (argLen : Nat) : Keeps st.argv (unknownLong st b argLen) := by
  unfold unknownLong
  cases strlenL (List.drop argLen (List.drop st.off b)) with
  | none => exact keeps_none _
  | some l2 =>
    simp only
    split
    · exact keeps_none _
    · cases slice b (st.off - 2) (argLen + l2 + 2) with
      | none => exact keeps_none _
      | some a => exact keeps_some _ _ _ rfl

theorem longFound_keeps (opts : List Opt) (st : St) (b : Buf) (argLen : Nat) (hasEq : Bool) :
    Keeps st.argv (match findLongOpt opts (List.drop st.off b) argLen hasEq with
      | none => none
      | some none => unknownLong st b argLen
      | some (some o) => longBody o st b argLen hasEq) := by
  cases findLongOpt opts (List.drop st.off b) argLen hasEq with
  | none => exact keeps_none _
  | some r =>
    cases r with
    | some o => exact longBody_keeps _ _ _ _ _
    | none => exact unknownLong_keeps _ _ _

theorem longOpt_keeps (opts : List Opt) (st : St) : Keeps st.argv (longOpt opts st) := by
  rw [longOpt_eq]
  cases st.buf with
  | none => exact keeps_none _
  | some b =>
    simp only
    cases findL 61 (List.drop st.off b) with
    | none => exact keeps_none _
    | some eq =>
      cases eq with
      | some e => exact longFound_keeps opts st b e true
      | none =>
        simp only
        cases strlenL (List.drop st.off b) with
        | none => exact keeps_none _
        | some argLen => exact longFound_keeps opts st b argLen false

theorem readWord_keeps (opts : List Opt) (st : St) : Keeps st.argv (readWord opts st) := by
  unfold readWord
  split
  · cases st.peek 0 with
    | none => exact keeps_none _
    | some c0 =>
      simp only
      split
      · cases st.peek 1 with
        | none => exact keeps_none _
        | some c1 =>
          simp only
          split
          · cases St.peek { st with off := st.off + 2 } 0 with
            | none => exact keeps_none _
            | some c2 =>
              simp only
              split
              · cases hn : nextChar { st with off := st.off + 2, skipOpt := true } with
                | none => exact keeps_none _
                | some r =>
                  obtain ⟨bb, st'⟩ := r
                  have ha := (nextChar_states hn).1
                  cases bb with
                  | false => exact keeps_some _ _ _ ha
                  | true => simp only; rw [show st.argv = st'.argv from ha.symm]; exact readTail_keeps _ _
              · exact longOpt_keeps opts { st with off := st.off + 2 }
          · cases St.peek { st with off := st.off + 1 } 0 with
            | none => exact keeps_none _
            | some c =>
              simp only
              split
              · split
                · exact keeps_none _
                · cases St.buf { st with off := st.off + 1 } with
                  | none => exact keeps_none _
                  | some b =>
                    simp only
                    cases slice b (st.off + 1 - 1) 1 with
                    | none => exact keeps_none _
                    | some a => exact keeps_some _ _ _ rfl
              · exact readTail_keeps opts { st with off := st.off + 1, inOpt := true }
      · exact readTail_keeps _ _
  · exact readTail_keeps _ _

theorem read_keeps (opts : List Opt) (st : St) : Keeps st.argv (read opts st) := by
  unfold read
  cases hn : nextChar st with
  | none => exact keeps_none _
  | some r =>
    obtain ⟨bb, st'⟩ := r
    have ha := (nextChar_states hn).1
    cases bb with
    | false => exact keeps_some _ _ _ ha
    | true => simp only; rw [show st.argv = st'.argv from ha.symm]; exact readWord_keeps _ _

/-- the translated `read` is the model's -/
theorem read_agree {opts : List Opt} {st : St} {s : Gen.RS} (f : Nat) (h : Rep opts st s) (hf : opts.length < f)
    (hB : Bytes st.argv) :
    AgreeRead opts (Gen.read (memOf opts st.argv) f s) (read opts st) := by
  unfold Gen.read read
  rw [nextChar_eq h]
  cases hn : nextChar st with
  | none => trivial
  | some r =>
    obtain ⟨bb, st'⟩ := r
    obtain ⟨ha, hs⟩ := nextChar_states hn
    have hr := rep_sync h ha hs
    cases bb with
    | false => simp only [Bool.false_eq_true, if_false, AgreeRead]; exact hr
    | true =>
      simp only [if_true]
      have := b13_agree f hr hf (by rw [ha]; exact hB)
      rw [ha] at this; exact this

end Nstd.Args.Tie
