/-
  Tie by translation, property C20, the Process object: `Process::Process`, `~Process`, `isRunning`, `kill`,
  `join(uint32&)`, `join()`, `close(uint)` (POSIX branches), translated by tools/gen_args.py from the CURRENT
  src/Process.cpp into Nstd/Generated/ArgsProc.lean, against the hand-written object model `Proc.step` (Model.lean) and the
  action list `Kernel.joinProgram` that `join_returns_exit_code_in_pipe_model` is about: the translated functions change
  the "0 = closed" flags as `Proc.step` says, return what it says, and make exactly the system calls of the action list,
  in its order (a close of an end that is not held is no call).
  Assumed: the semantics of the translated subset (CSem.lean, CSemProc.lean: `waitpid` returns the pid or -1, answered by an oracle).
-/
import Nstd.Generated.ArgsProc
import Nstd.Args.Kernel

set_option linter.unusedSimpArgs false

namespace Nstd.Args.Tie
open Nstd.Args Nstd.Args.C Nstd.Args.Kernel

/-- the object model's view of a translated Process object: `running = (pid != 0)`, one flag per descriptor member -/
def flagsOf (s : GenP.PS) : Proc :=
  ⟨decide (s.pid ≠ 0), decide (s.fdStdOutRead ≠ 0), decide (s.fdStdErrRead ≠ 0), decide (s.fdStdInWrite ≠ 0)⟩

/-- the system calls an action list of `join()` stands for on the object `s` (`ok` = what `waitpid` answers) -/
def sysOf (s : GenP.PS) (ok : Bool) : List JAct → List C.Sys
  | [] => []
  | .wait :: r => .waitpid s.pid ok :: sysOf s ok r
  | .closeIn :: r => (if s.fdStdInWrite = 0 then [] else [.close s.fdStdInWrite]) ++ sysOf s ok r
  | .closeOut :: r => (if s.fdStdOutRead = 0 then [] else [.close s.fdStdOutRead]) ++ sysOf s ok r
  | .closeErr :: r => (if s.fdStdErrRead = 0 then [] else [.close s.fdStdErrRead]) ++ sysOf s ok r

/-- `join(exitCode)` on an idle object: EINVAL, false, no system call, nothing else changes -/
theorem translated_join_idle (E : Env) (s : GenP.PS) (h : s.pid = 0) :
    GenP.join E s = some (.ret false { s with errno := EINVAL }) ∧ (flagsOf s).step .join = (flagsOf s, false) := by
  simp [GenP.join, h, flagsOf, Proc.step]

/-- `join(exitCode)` while a child is attached and `waitpid` succeeds with status `st`: for every object (whichever
    pipe ends it holds) the translated code returns true, stores `WEXITSTATUS(st)`, leaves the object as `Proc.step .join`
    says (idle, no descriptor) and has made exactly the system calls of `Kernel.joinProgram` in its order: close of the
    stdin write end, waitpid, close of the stdout read end, close of the stderr read end -/
theorem translated_join_eq_model (E : Env) (s : GenP.PS) (h : s.pid ≠ 0) (st : Nat) (rest : List (Option Nat))
    (ho : s.k.oracle = some st :: rest) :
    ∃ s', GenP.join E s = some (.ret true s') ∧ flagsOf s' = ((flagsOf s).step .join).1 ∧ ((flagsOf s).step .join).2 = true ∧
      s'.exitCode = wexitstatus st ∧ s'.k.trace = s.k.trace ++ sysOf s true joinProgram ∧ s'.k.oracle = rest ∧ s'.errno = s.errno := by
  obtain ⟨o, e, i, pid, ec, sm, ln, stt, en, ⟨tr, orc⟩⟩ := s
  simp only at h ho
  subst ho
  by_cases hi : i = 0 <;> by_cases ho : o = 0 <;> by_cases he : e = 0 <;>
    simp [GenP.join, GenP.join_b5, GenP.join_b4, GenP.join_b3, GenP.join_b2, GenP.join_b1, K.waitpid, K.close, h, hi, ho, he,
      flagsOf, Proc.step, Proc.init, sysOf, joinProgram]

/-- `join(exitCode)` while `waitpid` fails: false, the stdin write end is closed (and only it), pid and read ends are kept --
    `Proc.step .joinFailed` -/
theorem translated_join_failed_eq_model (E : Env) (s : GenP.PS) (h : s.pid ≠ 0) (rest : List (Option Nat))
    (ho : s.k.oracle = none :: rest ∨ s.k.oracle = []) :
    ∃ s', GenP.join E s = some (.ret false s') ∧ flagsOf s' = ((flagsOf s).step .joinFailed).1 ∧
      ((flagsOf s).step .joinFailed).2 = false ∧ s'.pid = s.pid ∧ s'.exitCode = s.exitCode ∧
      s'.k.trace = s.k.trace ++ sysOf s false [.closeIn, .wait] := by
  obtain ⟨o, e, i, pid, ec, sm, ln, stt, en, ⟨tr, orc⟩⟩ := s
  simp only at h ho
  rcases ho with ho | ho <;> subst ho <;> by_cases hi : i = 0 <;>
    simp [GenP.join, GenP.join_b5, GenP.join_b4, K.waitpid, K.close, h, hi, flagsOf, Proc.step, sysOf]

/-- `join()` and the destructor are `join(exitCode)` (the destructor drops the result) -/
theorem translated_join0_dtor_eq_join (E : Env) (s : GenP.PS) :
    (GenP.join0 E s = GenP.join E s ∨ (∀ b s', GenP.join E s ≠ some (.ret b s'))) ∧
    (∀ b s', GenP.join E s = some (.ret b s') → GenP.dtor E s = some (.ret () s')) := by
  constructor
  · unfold GenP.join0
    cases hj : GenP.join E s with
    | none => exact .inr (fun _ _ h => by cases h)
    | some c =>
      cases c with
      | ret b s' => left; cases b <;> rfl
      | next s' => exact .inr (fun _ _ h => by cases h)
      | brk s' => exact .inr (fun _ _ h => by cases h)
      | fuel => exact .inr (fun _ _ h => by cases h)
  · intro b s' hj
    simp [GenP.dtor, hj]

/-- `kill()`: idle object: EINVAL, false, no system call; attached child and successful `waitpid`: SIGKILL to that pid,
    waitpid, then the three closes, object idle (`Proc.step .kill`); failing `waitpid`: false, object unchanged -/
theorem translated_kill_eq_model (E : Env) (s : GenP.PS) :
    (s.pid = 0 → GenP.kill E s = some (.ret false { s with errno := EINVAL }) ∧ (flagsOf s).step .kill = (flagsOf s, false)) ∧
    (s.pid ≠ 0 → ∀ st rest, s.k.oracle = some st :: rest →
      ∃ s', GenP.kill E s = some (.ret true s') ∧ flagsOf s' = ((flagsOf s).step .kill).1 ∧ ((flagsOf s).step .kill).2 = true ∧
        s'.k.trace = s.k.trace ++ .kill s.pid SIGKILL :: sysOf s true [.wait, .closeOut, .closeErr, .closeIn]) ∧
    (s.pid ≠ 0 → ∀ rest, (s.k.oracle = none :: rest ∨ s.k.oracle = []) →
      ∃ s', GenP.kill E s = some (.ret false s') ∧ flagsOf s' = flagsOf s ∧
        s'.k.trace = s.k.trace ++ [.kill s.pid SIGKILL, .waitpid s.pid false]) := by
  obtain ⟨o, e, i, pid, ec, sm, ln, stt, en, ⟨tr, orc⟩⟩ := s
  refine ⟨?_, ?_, ?_⟩
  · intro h; simp only at h; simp [GenP.kill, h, flagsOf, Proc.step]
  · intro h st rest ho
    simp only at h ho
    subst ho
    by_cases hi : i = 0 <;> by_cases ho : o = 0 <;> by_cases he : e = 0 <;>
      simp [GenP.kill, GenP.kill_b5, GenP.kill_b4, GenP.kill_b3, GenP.kill_b2, GenP.kill_b1, K.waitpid, K.close, K.kill, h, hi, ho, he,
        flagsOf, Proc.step, Proc.init, sysOf]
  · intro h rest ho
    simp only at h ho
    rcases ho with ho | ho <;> subst ho <;>
      simp [GenP.kill, GenP.kill_b5, K.waitpid, K.kill, h, flagsOf]

theorem and_pow_zero (n k : Nat) : (n &&& 2 ^ k = 0) ↔ (n / 2 ^ k % 2 == 1) = false := by
  have hb : (n / 2 ^ k % 2 == 1) = n.testBit k := by
    rw [Nat.testBit_eq_decide_div_mod_eq]
    rcases Nat.mod_two_eq_zero_or_one (n / 2 ^ k) with h | h <;> simp [h]
  rw [hb]
  constructor
  · intro h
    have := Nat.testBit_and n (2 ^ k) k
    rw [h, Nat.testBit_two_pow_self] at this
    simpa using this.symm
  · intro h
    apply Nat.eq_of_testBit_eq
    intro i
    rw [Nat.testBit_and, Nat.testBit_two_pow]
    by_cases hi : k = i
    · subst hi; simp [h]
    · simp [hi]

/-- `close(streams)`: for every object and every mask the flags afterwards are `Proc.step (.close streams)`, and the
    system calls are the closes of the requested ends that are held, in the order stdin, stdout, stderr -/
theorem translated_close_eq_model (E : Env) (s : GenP.PS) :
    ∃ s', GenP.close E s = some (.ret () s') ∧ flagsOf s' = ((flagsOf s).step (.close s.streams)).1 ∧ s'.pid = s.pid ∧
      s'.k.trace = s.k.trace ++
        (if bit s.streams 4 = true ∧ s.fdStdInWrite ≠ 0 then [.close s.fdStdInWrite] else []) ++
        (if bit s.streams 1 = true ∧ s.fdStdOutRead ≠ 0 then [.close s.fdStdOutRead] else []) ++
        (if bit s.streams 2 = true ∧ s.fdStdErrRead ≠ 0 then [.close s.fdStdErrRead] else []) := by
  obtain ⟨o, e, i, pid, ec, sm, ln, stt, en, ⟨tr, orc⟩⟩ := s
  have h1 := and_pow_zero sm 0
  have h2 := and_pow_zero sm 1
  have h4 := and_pow_zero sm 2
  simp only [Nat.pow_zero, Nat.pow_one, Nat.div_one, show (2 : Nat) ^ 2 = 4 from rfl] at h1 h2 h4
  have k1 : (sm &&& 1 = 0) ↔ bit sm 1 = false := by unfold bit; rw [Nat.div_one]; exact h1
  have k2 : (sm &&& 2 = 0) ↔ bit sm 2 = false := by unfold bit; exact h2
  have k4 : (sm &&& 4 = 0) ↔ bit sm 4 = false := by unfold bit; exact h4
  simp only [GenP.close, GenP.close_b2, GenP.close_b1, flagsOf, Proc.step, k1, k2, k4]
  generalize bit sm 1 = B1
  generalize bit sm 2 = B2
  generalize bit sm 4 = B4
  cases B1 <;> cases B2 <;> cases B4 <;> by_cases hi : i = 0 <;> by_cases ho : o = 0 <;> by_cases he : e = 0 <;>
    simp [K.close, hi, ho, he]

/-- `isRunning()` = `Proc.step .isRunning`; the constructor yields the idle object `Proc.init` without any system call -/
theorem translated_isRunning_ctor_eq_model (E : Env) (s : GenP.PS) :
    GenP.isRunning E s = some (.ret ((flagsOf s).step .isRunning).2 s) ∧
    (∃ s', GenP.ctor E s = some (.ret () s') ∧ flagsOf s' = Proc.init ∧ s'.k = s.k) := by
  constructor
  · by_cases h : s.pid = 0 <;> simp [GenP.isRunning, h, flagsOf, Proc.step]
  · exact ⟨_, rfl, by simp [flagsOf, Proc.init], rfl⟩

/-- `Process::exit(code)`: the one system call is `_exit` with the caller's code (as `int`), whatever the object holds --
    the status a parent sees is `code & 255` (defect 0009 passed 0) -/
theorem translated_exit_passes_code (E : Env) (s : GenP.PS) :
    ∃ s', GenP.exit E s = some (.ret () s') ∧ s'.k.trace = s.k.trace ++ [.exit (toInt32 s.exitCode)] ∧
      (s.exitCode < 256 → toInt32 s.exitCode = s.exitCode) := by
  refine ⟨_, rfl, rfl, ?_⟩
  intro h
  unfold toInt32
  have h1 : s.exitCode % 4294967296 = s.exitCode := Nat.mod_eq_of_lt (by omega)
  rw [h1]; simp; omega

/-- `read(buffer, len)` is ONE `::read` on the stdout read end with the caller's length, `write(buffer, len)` ONE `::write` on the
    stdin write end; both return what the kernel answers and change nothing of the object -/
theorem translated_read2_write_one_call (E : Env) (s : GenP.PS) :
    (∃ s', GenP.read2 E s = some (.ret s.k.answer.1 s') ∧ s'.k.trace = s.k.trace ++ [.read s.fdStdOutRead s.len] ∧ flagsOf s' = flagsOf s) ∧
    (∃ s', GenP.write E s = some (.ret s.k.answer.1 s') ∧ s'.k.trace = s.k.trace ++ [.write s.fdStdInWrite s.len] ∧ flagsOf s' = flagsOf s) :=
  ⟨⟨_, rfl, rfl, rfl⟩, ⟨_, rfl, rfl, rfl⟩⟩

/-- `setEnvironmentVariable(name, value)` as translated is the model's function: for every environment, name and value
    the new environment and the returned Boolean are those of `Nstd.Args.setEnvironmentVariable` (an empty value removes the
    variable and reports success -- defect 0006 --, an invalid name is refused), given POSIX `setenv` / `unsetenv` -/
theorem translated_setEnvironmentVariable_eq_model (E : Env) (s : GenP.ES) :
    ∃ s', GenP.setEnvironmentVariable E s = some (.ret (setEnvironmentVariable s.env s.name s.value).2 s') ∧
      s'.env = (setEnvironmentVariable s.env s.name s.value).1 ∧ s'.name = s.name ∧ s'.value = s.value := by
  obtain ⟨n, v, e⟩ := s
  unfold GenP.setEnvironmentVariable GenP.setEnvironmentVariable_b1 setEnvironmentVariable envUnset envSet
  by_cases hv : v.isEmpty = true <;> by_cases hn : validName n = true <;> simp [hv, hn]

/-- `getEnvironmentVariable(name, defaultValue)` as translated is the model's function, for every environment, name and default
    (`getenv` = look-up in the environment: null or the variable's value) -/
theorem translated_getEnvironmentVariable_eq_model (E : Env) (s : GenP.EG) :
    ∃ s', GenP.getEnvironmentVariable E s = some (.ret (getEnvironmentVariable s.env s.name s.defaultValue) s') ∧ s'.env = s.env := by
  obtain ⟨n, d, e, v⟩ := s
  unfold GenP.getEnvironmentVariable GenP.getEnvironmentVariable_b1 getEnvironmentVariable envGet
  cases h : List.find? (fun kv => kv.1 == n) e with
  | none => simp
  | some kv => simp

-- the order of the system calls of join() on an object holding all three ends (descriptors 5, 6, 7; pid 42)
example : (match GenP.join ⟨[], [], []⟩ ⟨5, 6, 7, 42, 0, 0, 0, 0, 0, ⟨[], [some (3 * 256)]⟩⟩ with
    | some (.ret true s) => some (s.k.trace, s.exitCode) | _ => none) =
    some ([.close 7, .waitpid 42 true, .close 5, .close 6], 3) := by decide

end Nstd.Args.Tie
