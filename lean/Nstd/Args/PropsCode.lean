/-
  Tie by translation, property C20: the bodies of `Process::Arguments::nextChar`, `Process::Arguments::read` and the
  constructor of `Arguments`, translated by tools/gen_args.py from the CURRENT src/Process.cpp / include/nstd/Process.hpp
  into Nstd/Generated/ArgsCode.lean (C++ subset -> Lean over the checked-memory semantics of CSem.lean), ARE the
  functions of the hand-written model (Model.lean) that the theorems of Props.lean speak about (and the translated
  `Process::Private::splitCommandLine` delivers what the model's does on every terminated command line buffer) -- on every state of the
  translated code that represents a model state, for every option table and every argv.  A change of one of these C++
  bodies changes the generated definitions and these proofs fail.

  Assumed (not proved): the semantics the translator gives to the C++ subset (CSem.lean and the header of
  tools/gen_args.py), `String::length / find / compare` as modelled (`strlenL`, `findL`, `cmpN`), one block per argv word
  and option name, every byte of an argv word is < 256 (`Bytes`; needed where the code narrows `int` to `char`).
-/
import Nstd.Args.LemmasCode
import Nstd.Args.LemmasCodeSplit
import Nstd.Args.Props

namespace Nstd.Args.Tie
open Nstd.Args Nstd.Args.C Nstd.Args.Spec

/-- `Arguments(argc, argv, options)` as translated yields the object that represents the model's initial state, for
    every option table, every argv (also the empty one: `argc = 0`) and whatever the other variables hold -/
theorem translated_ctor_eq_model (opts : List Opt) (argv : List Buf) (base : Gen.RS) :
    Gen.ctor (memOf opts argv) argv.length opts.length base = some (.ret () (embed opts (St.init argv) base)) := by
  unfold Gen.ctor embed St.init ptrOf blkOf
  simp

/-- `nextChar()` as translated is the model's `nextChar`: same fault, same result, and the object afterwards is the one
    before with `argv`, `arg`, `inOpt` taken from the model's new state (`sync`; nothing else is written) -/
theorem translated_nextChar_eq_model (opts : List Opt) (st : St) (s : Gen.RS) (h : Rep opts st s) :
    Gen.nextChar (memOf opts st.argv) s =
      match nextChar st with
      | none => none
      | some (b, st') => some (.ret b (sync s st')) :=
  nextChar_eq h

/-- `read(character, argument)` as translated is the model's `read`: for every option table, every model state `st`,
    every object `s` whose members represent `st` (the out-parameters and locals hold anything), every fuel above the
    table size: both fault, or both return false with objects that represent the same state, or both return true with
    the same `(character, argument)` and objects that represent the same state -/
theorem translated_read_eq_model (opts : List Opt) (st : St) (s : Gen.RS) (f : Nat) (h : Rep opts st s)
    (hB : Bytes st.argv) (hf : opts.length < f) :
    AgreeRead opts (Gen.read (memOf opts st.argv) f s) (read opts st) :=
  read_agree f h hf hB

-- non-vacuity: the initial object of a concrete argv meets the hypotheses, and the translated code runs on it
example : Rep [⟨97, none, 1⟩] (St.init [[120, 0], [45, 97, 118, 0]]) (embed [⟨97, none, 1⟩] (St.init [[120, 0], [45, 97, 118, 0]]) Gen.RS.zero)
    ∧ Bytes [[120, 0], [45, 97, 118, 0]] :=
  ⟨rep_embed _ _ _, by intro b hb x hx; simp at hb; rcases hb with rfl | rfl <;> simp at hx <;> omega⟩

example : (match Gen.read (memOf [⟨97, none, 1⟩] [[120, 0], [45, 97, 118, 0]]) 2
    (embed [⟨97, none, 1⟩] (St.init [[120, 0], [45, 97, 118, 0]]) Gen.RS.zero) with
    | some (.ret true s) => some (s.character, s.argument) | _ => none) = some (97, [118]) := by decide

/-- the caller's `while(arguments.read(character, argument))` over the TRANSLATED `read`, collecting the results -/
def runTranslated (E : Env) (f : Nat) : Nat → Gen.RS → Run
  | 0, _ => .fuel
  | n + 1, s =>
    match Gen.read E f s with
    | none => .fault
    | some (.ret true s') => (runTranslated E f n s').cons (s'.character, s'.argument)
    | some (.ret false _) => .ok []
    | some _ => .fuel

/-- the result sequence of the translated code is the result sequence of the model, for every table, state, number of calls -/
theorem translated_run_eq_model (opts : List Opt) (f : Nat) (hf : opts.length < f) :
    ∀ (n : Nat) (st : St) (s : Gen.RS), Rep opts st s → Bytes st.argv →
      runTranslated (memOf opts st.argv) f n s = readAll opts n st := by
  intro n
  induction n with
  | zero => intro st s _ _; rfl
  | succ n ih =>
    intro st s h hB
    have ha := read_agree f h hf hB
    have hk := read_keeps opts st
    unfold runTranslated readAll
    cases hr : read opts st with
    | none =>
      rw [hr] at ha
      cases hg : Gen.read (memOf opts st.argv) f s with
      | none => rfl
      | some c => rw [hg] at ha; cases c <;> simp [AgreeRead] at ha
    | some r =>
      obtain ⟨x, st'⟩ := r
      have hargv : st'.argv = st.argv := hk x st' hr
      rw [hr] at ha
      cases hg : Gen.read (memOf opts st.argv) f s with
      | none => rw [hg] at ha; simp [AgreeRead] at ha
      | some c =>
        rw [hg] at ha
        cases c with
        | next s' => simp [AgreeRead] at ha
        | brk s' => simp [AgreeRead] at ha
        | fuel => simp [AgreeRead] at ha
        | ret b s' =>
          cases b with
          | false =>
            cases x with
            | none => rfl
            | some res => simp [AgreeRead] at ha
          | true =>
            cases x with
            | none => simp [AgreeRead] at ha
            | some res =>
              simp only [AgreeRead] at ha
              obtain ⟨hres, hrep⟩ := ha
              simp only
              have := ih st' s' hrep (by rw [hargv]; exact hB)
              rw [hargv] at this
              rw [this, hres]

/-- C20 for the TRANSLATED code: for every option table (names NUL-free) and every argv whose words are NUL-free byte
    strings, the `while(read)` loop over the translated `Arguments` constructor + `read` delivers exactly the
    option/argument sequence of the getopt conventions (and therefore never faults) -/
theorem translated_read_sequence_eq_getopt (opts : List SOpt) (hok : OptsOk opts) (prog : Buf) (ws : List Word)
    (hws : ∀ w ∈ ws, NoNul w) (hbytes : Bytes (prog :: ws.map term)) (n : Nat) (hn : size ws < n)
    (f : Nat) (hf : opts.length < f) (base : Gen.RS) :
    runTranslated (memOf (opts.map toModel) (prog :: ws.map term)) f n
      (embed (opts.map toModel) (St.init (prog :: ws.map term)) base) = .ok (getopt opts ws) := by
  have h := translated_run_eq_model (opts.map toModel) f (by simpa using hf) n (St.init (prog :: ws.map term))
    (embed (opts.map toModel) (St.init (prog :: ws.map term)) base) (rep_embed _ _ _) hbytes
  simp only [St.init] at h ⊢
  rw [h]
  exact read_sequence_eq_getopt opts hok prog ws hws n hn

/-- `splitCommandLine(commandLine, command)` as translated, on EVERY command line buffer (the NUL-free string `str`, its
    terminator, anything behind it), whatever `command` and the locals hold before and for every fuel above the length:
    it returns, and the words it appended to `command` are the words the model's `splitCommandLine` delivers, which are
    the reference tokenizer's (`split_spec`) -/
theorem translated_split_eq_model (str junk : List Nat) (hnz : ∀ c ∈ str, c ≠ 0) (f : Nat) (hf : str.length < f)
    (base : Gen.SS) (argv : List Buf) (opts : List Opt) :
    ∃ s' : Gen.SS, Gen.split ⟨argv, opts, str ++ 0 :: junk⟩ f base = some (.ret () s') ∧
      splitCommandLine (str ++ 0 :: junk) = .done (tokenize str) ∧ s'.command = base.command ++ tokenize str := by
  obtain ⟨s', h1, h2⟩ := split_tok ⟨argv, opts, str ++ 0 :: junk⟩ str junk rfl hnz f hf base
  exact ⟨s', h1, splitCommandLine_spec str junk hnz, h2⟩

/-- C20 for the TRANSLATED tokenizer: EVERY argument vector (NUL-free words, empty words, blanks, quotes, backslashes anywhere),
    written with the universal rendering (`joinTerminated`: blank -> `" "`, quote -> `"\""`, empty word -> `""`, a blank behind every
    word), is appended to `command` exactly, whatever stands behind the terminator and whatever `command` held before -/
theorem translated_split_expresses_every_vector (ws : List Word) (junk : List Nat) (h : ∀ w ∈ ws, ∀ c ∈ w, c ≠ 0) (f : Nat)
    (hf : (joinTerminated ws).length < f) (base : Gen.SS) (argv : List Buf) (opts : List Opt) :
    ∃ s' : Gen.SS, Gen.split ⟨argv, opts, joinTerminated ws ++ 0 :: junk⟩ f base = some (.ret () s') ∧
      s'.command = base.command ++ ws := by
  obtain ⟨s', h1, _, h3⟩ := translated_split_eq_model (joinTerminated ws) junk (joinTerminated_nonul ws h) f hf base argv opts
  refine ⟨s', h1, ?_⟩
  rw [h3]
  exact congrArg _ (tok_joinTerminated ws)

-- a concrete run of the translated tokenizer: `a "b \"c\d"e  f` -> a, `b "c\de`, empty word, f
example : (match Gen.split ⟨[], [], [97, 32, 34, 98, 32, 92, 34, 99, 92, 100, 34, 101, 32, 32, 102, 0]⟩ 16 Gen.SS.zero with
    | some (.ret _ s) => some s.command | _ => none) = some [[97], [98, 32, 34, 99, 92, 100, 101], [], [102]] := by decide

end Nstd.Args.Tie
