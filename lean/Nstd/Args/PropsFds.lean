/-
  Headline theorems of the descriptor-table model of
    A. a failing `pipe()` in `Process::open(executable, argc, argv, streams, env)` (Process.cpp:611-628, 717-735),
    B. `Process::start(program, argc, argv, env)` (Process.cpp:264-323),
    C. `Process::daemonize(logFile)` (Process.cpp:1175-1195).
  Definitions: `Nstd.Args.KernelFail`.  The kernel is the explicit model of `Nstd.Args.Kernel` Part 1
  (a descriptor table `Nat → Option Obj`), not the real kernel.
-/
import Nstd.Args.KernelFail
namespace Nstd.Args.Kernel

/-! ### A. a failing `pipe()` in `open()` -/

/-- When the `k`-th `pipe()` call of `open()` fails (`k` counts the calls actually made: only
    requested streams, in the order stdout, stderr, stdin), the `error:` path closes both ends of
    every pipe created before it and nothing else: the descriptor table of the caller is pointwise
    what it was before `open()`.  Hypothesis `f.Ok t`: the descriptors the kernel hands out are
    unused in `t`, pairwise different and greater than 2 (in particular non-zero, which is what the
    test `if (stdoutFds[0])` of the `error:` path relies on). -/
theorem open_pipe_failure_restores_table (streams k : Nat) (f : Fresh) (t t' : FdTable) (hf : f.Ok t)
    (h : openFdsPipeFailed streams k f t = some t') : ∀ x, t' x = t x :=
  openFdsPipeFailed_restores streams k f t t' hf h

/-- `open()` fails in its `k`-th `pipe()` call exactly for `1 ≤ k ≤` number of requested streams
    (`streams & 1`, `streams & 2`, `streams & 4`); otherwise that call is never made. -/
theorem open_pipe_failure_none_iff (streams k : Nat) (f : Fresh) (t : FdTable) :
    openFdsPipeFailed streams k f t = none ↔
      (k = 0 ∨ k > (if bit streams 1 then 1 else 0) + (if bit streams 2 then 1 else 0) + (if bit streams 4 then 1 else 0)) :=
  openFdsPipeFailed_none_iff streams k f t

-- mask 7, the third call (stdin) fails, descriptors 3..8 on a table holding 0, 1, 2:
-- at the jump to `error:` the two pipes created are in the table and in the arrays, `stdinFds` is still {0, 0} ...
example :
    (match pipesUntilFailure 7 3 (Fresh.mk 3 4 5 6 7 8) (fun x => if x < 3 then some (.other x) else none) with
     | .error s => some ([s.t 0, s.t 2, s.t 3, s.t 4, s.t 5, s.t 6, s.t 7, s.t 8], s.o, s.e, s.i, s.calls)
     | .ok _ => none)
    = some ([some (.other 0), some (.other 2), some (.rd 0), some (.wr 0), some (.rd 1), some (.wr 1), none, none],
            (3, 4), (5, 6), (0, 0), 2) := by decide
-- ... and after the `error:` path they are gone
example :
    (openFdsPipeFailed 7 3 (Fresh.mk 3 4 5 6 7 8) (fun x => if x < 3 then some (.other x) else none)).map
      (fun t => [t 0, t 1, t 2, t 3, t 4, t 5, t 6, t 7, t 8])
    = some [some (.other 0), some (.other 1), some (.other 2), none, none, none, none, none, none] := by decide
-- the hypothesis `h` of `open_pipe_failure_restores_table` is satisfiable (and so is `hf`)
example : ∃ t', openFdsPipeFailed 7 3 (Fresh.mk 3 4 5 6 7 8) (fun x => if x < 3 then some (.other x) else none) = some t' ∧
    ∀ x, t' x = (fun x => if x < 3 then some (.other x) else none : FdTable) x := by
  have hf : (Fresh.mk 3 4 5 6 7 8).Ok (fun x => if x < 3 then some (.other x) else none) := by
    refine ⟨by decide, ?_⟩
    intro x hx
    simp at hx
    rcases hx with rfl | rfl | rfl | rfl | rfl | rfl <;> simp
  have hn : openFdsPipeFailed 7 3 (Fresh.mk 3 4 5 6 7 8) (fun x => if x < 3 then some (.other x) else none) ≠ none := by
    rw [Ne, open_pipe_failure_none_iff]; decide
  cases h : openFdsPipeFailed 7 3 (Fresh.mk 3 4 5 6 7 8) (fun x => if x < 3 then some (.other x) else none) with
  | none => exact absurd h hn
  | some t' => exact ⟨t', rfl, open_pipe_failure_restores_table _ _ _ _ _ hf h⟩
-- mask 5 makes two calls only: no third call can fail; the second call is the one for stdin
example : openFdsPipeFailed 5 3 (Fresh.mk 3 4 5 6 7 8) (fun _ => none) = none := by
  rw [open_pipe_failure_none_iff]; decide
example : openFdsPipeFailed 5 0 (Fresh.mk 3 4 5 6 7 8) (fun _ => none) = none := by
  rw [open_pipe_failure_none_iff]; decide
example :
    (match pipesUntilFailure 5 2 (Fresh.mk 3 4 5 6 7 8) (fun _ => none) with
     | .error s => some (s.o, s.e, s.i) | .ok _ => none) = some ((3, 4), (0, 0), (0, 0)) := by decide

/-! ### B. `start()` -/

/-- `start(program, argc, argv, env)` with `vfork()` returning -1 returns 0 with the descriptor table
    unchanged.  True by `rfl`: the content is in the definition `startFdsFailed t = t`, i.e. in the
    reading of Process.cpp:264-323 that `start` makes no `pipe`/`dup2`/`close` call at all, so unlike
    `open` it has nothing to undo. -/
theorem start_failure_restores_table (t : FdTable) : ∀ x, startFdsFailed t x = t x := fun _ => rfl

/-- After a successful `start` the parent's table is unchanged and the child runs `execvpe` with an
    exact copy of it: every descriptor of the parent (without `FD_CLOEXEC`) is inherited, none of the
    standard descriptors is redirected.  True by `rfl` (see `start_failure_restores_table`); the
    contrast is `openFds_parent` / `openFds_child` for `open`. -/
theorem start_child_inherits_table (t : FdTable) : (startFds t).1 = t ∧ (startFds t).2 = t := ⟨rfl, rfl⟩

/-! ### C. `daemonize()` -/

/-- `daemonize(logFile)` where `::open` returned `fd` (unused before, different from 1 and 2) and
    `fork()` succeeded: in the process that returns `true` (the forked child) descriptors 1 and 2
    refer to the log file, `fd` is closed again, and every other descriptor is what it was in the
    caller — in particular descriptor 0: standard input is NOT redirected by this code. -/
theorem daemonize_redirects_stdout_stderr_only (fd tag : Nat) (t : FdTable)
    (hfd : t fd = none) (h1 : fd ≠ 1) (h2 : fd ≠ 2) :
    (daemonizeFds fd tag .daemon t).2 = true ∧
    (daemonizeFds fd tag .daemon t).1 1 = some (.other tag) ∧
    (daemonizeFds fd tag .daemon t).1 2 = some (.other tag) ∧
    (daemonizeFds fd tag .daemon t).1 fd = none ∧
    (∀ x, x ≠ 1 → x ≠ 2 → (daemonizeFds fd tag .daemon t).1 x = t x) ∧
    (daemonizeFds fd tag .daemon t).1 0 = t 0 := by
  simp only [daemonizeFds, redirected_apply]
  grind

/-- the same when `fork()` fails: `daemonize` returns `false`, but the caller's standard output and
    standard error are already redirected to the log file (the failure is not rolled back) -/
theorem daemonize_fork_failure_keeps_redirection (fd tag : Nat) (t : FdTable)
    (hfd : t fd = none) (h1 : fd ≠ 1) (h2 : fd ≠ 2) :
    (daemonizeFds fd tag .forkFailed t).2 = false ∧
    (daemonizeFds fd tag .forkFailed t).1 1 = some (.other tag) ∧
    (daemonizeFds fd tag .forkFailed t).1 2 = some (.other tag) ∧
    (daemonizeFds fd tag .forkFailed t).1 fd = none ∧
    (∀ x, x ≠ 1 → x ≠ 2 → (daemonizeFds fd tag .forkFailed t).1 x = t x) ∧
    (daemonizeFds fd tag .forkFailed t).1 0 = t 0 := by
  simp only [daemonizeFds, redirected_apply]
  grind

/-- without any hypothesis on `fd` (it may be 0, 1 or 2 when the caller runs with those closed, and
    the table need not have `fd` unused): after the redirection `fd` is closed, 1 and 2 refer to the
    log file unless they are `fd`, everything else is unchanged.  For `fd = 1` or `fd = 2` the
    daemon therefore runs with that standard descriptor CLOSED (`dup2(fd, fd)` is a no-op and
    `::close(fd)` then closes it) — see the `example` below. -/
theorem daemonize_table_general (fd tag : Nat) (t : FdTable) (x : Nat) :
    (daemonizeFds fd tag .daemon t).1 x =
      (if x = fd then none else if x = 1 ∨ x = 2 then some (.other tag) else t x) ∧
    (daemonizeFds fd tag .forkFailed t).1 = (daemonizeFds fd tag .daemon t).1 := by
  simp only [daemonizeFds, redirected_apply, and_self]

/-- `::open` failing: `false` is returned and the table is untouched -/
theorem daemonize_open_failure_changes_nothing (fd tag : Nat) (t : FdTable) :
    (daemonizeFds fd tag .openFailed t).2 = false ∧ ∀ x, (daemonizeFds fd tag .openFailed t).1 x = t x :=
  ⟨rfl, fun _ => rfl⟩

-- terminal (tag 100) on 0, 1, 2, the log file (tag 7) is opened as descriptor 3
example : let r := daemonizeFds 3 7 .daemon (fun x => if x < 3 then some (.other 100) else none)
    (r.2, [r.1 0, r.1 1, r.1 2, r.1 3, r.1 4]) =
      (true, [some (.other 100), some (.other 7), some (.other 7), none, none]) := by decide
example : let r := daemonizeFds 3 7 .forkFailed (fun x => if x < 3 then some (.other 100) else none)
    (r.2, [r.1 0, r.1 1, r.1 2, r.1 3, r.1 4]) =
      (false, [some (.other 100), some (.other 7), some (.other 7), none, none]) := by decide
example : let r := daemonizeFds 3 7 .openFailed (fun x => if x < 3 then some (.other 100) else none)
    (r.2, [r.1 0, r.1 1, r.1 2, r.1 3, r.1 4]) =
      (false, [some (.other 100), some (.other 100), some (.other 100), none, none]) := by decide
-- the caller runs with stdin closed: `::open` returns 0; hypotheses of the headline theorem hold, 0 is closed again
example : let r := daemonizeFds 0 7 .daemon (fun x => if x = 1 ∨ x = 2 then some (.other 100) else none)
    (r.2, [r.1 0, r.1 1, r.1 2, r.1 3]) = (true, [none, some (.other 7), some (.other 7), none]) := by decide
-- the caller runs with stdout closed: `::open` returns 1 (hypothesis `fd ≠ 1` violated): the daemon has NO
-- standard output, only standard error goes to the log file
example : let r := daemonizeFds 1 7 .daemon (fun x => if x = 0 ∨ x = 2 then some (.other 100) else none)
    (r.2, [r.1 0, r.1 1, r.1 2, r.1 3]) = (true, [some (.other 100), none, some (.other 7), none]) := by decide

end Nstd.Args.Kernel
