/-
  Tie by translation: the three String.hpp primitives the translated `Arguments::read` calls -- `String::length(const char*)`,
  `String::find(const char*, char)`, `String::compare(const char*, const char*, usize)` -- translated by tools/gen_args.py
  from the CURRENT include/nstd/String.hpp into Nstd/Generated/ArgsStr.lean, ARE `strlenL`, `findL`, `cmpN` of Model.lean (the
  functions `Env.strlen`, `Env.strfind`, `Env.cmpEq` of CSem.lean are defined by), on every block and offset, incl. the faults.
-/
import Nstd.Generated.ArgsStr
import Nstd.Args.LemmasSplit

set_option linter.unusedSimpArgs false

namespace Nstd.Args.Tie
open Nstd.Args Nstd.Args.C

theorem load_mk (E : Env) (b : Blk) (buf : Buf) (hb : E.block b = some buf) (off : Nat) :
    E.load (.mk b off) = buf[off]? := by
  simp [Env.load, hb]

theorem drop_nil_get {α} {l : List α} {p : Nat} (h : l.drop p = []) : l[p]? = none := by
  rw [List.drop_eq_nil_iff] at h
  exact List.getElem?_eq_none h

/-- the `while(*s) ++s;` loop -/
theorem strLength_loop (E : Env) (b : Blk) (buf : Buf) (hb : E.block b = some buf) :
    ∀ (v : List Nat) (off f : Nat) (s : GenStr.SL), buf.drop off = v → v.length < f → s.s = .mk b off →
      GenStr.strLength_loop1 E f s =
        match strlenL v with
        | none => none
        | some n => some (.next { s with s := .mk b (off + n) }) := by
  intro v
  induction v with
  | nil =>
    intro off f s hd hf hs
    match f, hf with
    | f + 1, _ =>
      obtain ⟨p, st⟩ := s
      simp only at hs; subst hs
      simp [GenStr.strLength_loop1, load_mk E b buf hb, drop_nil_get hd, strlenL]
  | cons c r ih =>
    intro off f s hd hf hs
    match f, hf with
    | f + 1, hf =>
      obtain ⟨p, st⟩ := s
      simp only at hs; subst hs
      have h0 := drop_cons_step hd
      have hf' : r.length < f := by simp at hf; omega
      simp only [GenStr.strLength_loop1, load_mk E b buf hb, h0.1, strlenL]
      by_cases hc : c = 0
      · simp [hc]
      · simp only [hc, if_false, GenStr.strLength_body1, Ptr.add]
        rw [ih (off + 1) f ⟨.mk b (off + 1), st⟩ h0.2 hf' rfl]
        cases strlenL r with
        | none => rfl
        | some n => simp [Nat.add_assoc, Nat.add_comm 1 n]

/-- `String::length(p)` as translated = `strlenL` of the bytes from `p` on (`none` = it runs off the block), for every block,
    offset and fuel above the number of bytes left -/
theorem translated_strLength_eq_model (E : Env) (b : Blk) (buf : Buf) (hb : E.block b = some buf) (off f : Nat) (st : Ptr)
    (hf : buf.length - off < f) :
    GenStr.strLength E f ⟨.mk b off, st⟩ =
      match strlenL (buf.drop off) with
      | none => none
      | some n => some (.ret n ⟨.mk b (off + n), .mk b off⟩) := by
  have hl := strLength_loop E b buf hb (buf.drop off) off f ⟨.mk b off, .mk b off⟩ rfl (by simp; omega) rfl
  simp only [GenStr.strLength, hl]
  cases strlenL (buf.drop off) with
  | none => rfl
  | some n => simp [Ptr.diff]

/-- the loop of `find` -/
theorem strFind_loop (E : Env) (b : Blk) (buf : Buf) (hb : E.block b = some buf) (ch : Nat) :
    ∀ (v : List Nat) (off f : Nat), buf.drop off = v → v.length < f →
      match findL ch v with
      | none => GenStr.strFind_loop1 E f ⟨.mk b off, ch⟩ = none
      | some none => ∃ s', GenStr.strFind_loop1 E f ⟨.mk b off, ch⟩ = some (.next s')
      | some (some i) => ∃ s', GenStr.strFind_loop1 E f ⟨.mk b off, ch⟩ = some (.ret (.mk b (off + i)) s') := by
  intro v
  induction v with
  | nil =>
    intro off f hd hf
    match f, hf with
    | f + 1, _ => simp [GenStr.strFind_loop1, load_mk E b buf hb, drop_nil_get hd, findL]
  | cons c r ih =>
    intro off f hd hf
    match f, hf with
    | f + 1, hf =>
      have h0 := drop_cons_step hd
      have hf' : r.length < f := by simp at hf; omega
      simp only [GenStr.strFind_loop1, GenStr.strFind_body1, load_mk E b buf hb, h0.1, findL]
      by_cases hc : c = 0
      · simp only [hc, if_true]; exact ⟨_, rfl⟩
      · simp only [hc, if_false]
        by_cases hcc : c = ch
        · simp only [hcc, if_true, Nat.add_zero]; exact ⟨_, rfl⟩
        · simp only [hcc, if_false, Ptr.add]
          have := ih (off + 1) f h0.2 hf'
          revert this
          cases findL ch r with
          | none => simp
          | some o =>
            cases o with
            | none => simp
            | some i => simp [Nat.add_assoc, Nat.add_comm 1 i]

/-- `String::find(p, c)` as translated = `findL`: fault when the string runs off the block, null when `c` does not occur before
    the terminator, otherwise the pointer to its first occurrence -/
theorem translated_strFind_eq_model (E : Env) (b : Blk) (buf : Buf) (hb : E.block b = some buf) (off f ch : Nat)
    (hf : buf.length - off < f) :
    match findL ch (buf.drop off) with
    | none => GenStr.strFind E f ⟨.mk b off, ch⟩ = none
    | some none => ∃ s', GenStr.strFind E f ⟨.mk b off, ch⟩ = some (.ret Ptr.null s')
    | some (some i) => ∃ s', GenStr.strFind E f ⟨.mk b off, ch⟩ = some (.ret (.mk b (off + i)) s') := by
  have hl := strFind_loop E b buf hb ch (buf.drop off) off f rfl (by simp; omega)
  revert hl
  cases findL ch (buf.drop off) with
  | none => intro hl; simp [GenStr.strFind, hl]
  | some o =>
    cases o with
    | none => intro ⟨s', hl⟩; simp [GenStr.strFind, hl]
    | some i => intro ⟨s', hl⟩; simp [GenStr.strFind, hl]

/-- the loop of `compare` -/
theorem strCompare_loop (E : Env) (b1 b2 : Blk) (buf1 buf2 : Buf) (hb1 : E.block b1 = some buf1) (hb2 : E.block b2 = some buf2)
    (len : Nat) :
    ∀ (n o1 o2 f : Nat), n < f →
      match cmpN (buf1.drop o1) (buf2.drop o2) n with
      | none => GenStr.strCompare_loop1 E f ⟨.mk b1 o1, .mk b2 o2, len, .mk b1 (o1 + n)⟩ = none
      | some true => ∃ s', GenStr.strCompare_loop1 E f ⟨.mk b1 o1, .mk b2 o2, len, .mk b1 (o1 + n)⟩ = some (.next s') ∨
          GenStr.strCompare_loop1 E f ⟨.mk b1 o1, .mk b2 o2, len, .mk b1 (o1 + n)⟩ = some (.ret 0 s')
      | some false => ∃ d s', GenStr.strCompare_loop1 E f ⟨.mk b1 o1, .mk b2 o2, len, .mk b1 (o1 + n)⟩ = some (.ret d s') ∧ d ≠ 0 := by
  intro n
  induction n with
  | zero =>
    intro o1 o2 f hf
    match f, hf with
    | f + 1, _ => simp [cmpN, GenStr.strCompare_loop1, Ptr.lt]
  | succ n ih =>
    intro o1 o2 f hf
    match f, hf with
    | f + 1, hf =>
      have hf' : n < f := by omega
      have hlt : Ptr.lt (.mk b1 o1) (.mk b1 (o1 + (n + 1))) = some true := by simp [Ptr.lt]
      simp only [GenStr.strCompare_loop1, hlt, if_true, GenStr.strCompare_body1, GenStr.strCompare_b1, load_mk E b1 buf1 hb1,
        load_mk E b2 buf2 hb2]
      cases hv1 : buf1.drop o1 with
      | nil => simp [cmpN, drop_nil_get hv1]
      | cons a r1 =>
        have h1 := drop_cons_step hv1
        cases hv2 : buf2.drop o2 with
        | nil =>
          simp only [cmpN, h1.1, drop_nil_get hv2]
          by_cases ha : a = 0 <;> simp [ha]
        | cons c r2 =>
          have h2 := drop_cons_step hv2
          simp only [cmpN, h1.1, h2.1]
          by_cases ha : a = 0
          · subst ha
            by_cases hc : c = 0
            · subst hc; simp only [true_or, if_true, beq_self_eq_true]; exact ⟨⟨.mk b1 o1, .mk b2 o2, len, .mk b1 (o1 + (n + 1))⟩, .inr (by simp)⟩
            · have : ((0 : Nat) == c) = false := by simp; omega
              simp only [true_or, if_true, this]
              exact ⟨_, _, rfl, by omega⟩
          · by_cases hac : a = c
            · subst hac
              simp only [ha, if_false, ne_eq, not_true_eq_false, or_self, if_true, Ptr.add]
              have := ih (o1 + 1) (o2 + 1) f hf'
              rw [h1.2, h2.2] at this
              have he : o1 + 1 + n = o1 + (n + 1) := by omega
              rw [he] at this
              exact this
            · have : (a == c) = false := by simpa using hac
              simp only [ha, if_false, hac, ne_eq, not_false_eq_true, or_true, if_true, this]
              exact ⟨_, _, rfl, by omega⟩

/-- `String::compare(p, q, n)` as translated against `cmpN`: same fault; otherwise it returns, and the result is 0 exactly when
    `cmpN` says equal -- so `String::compare(..) == 0` is `Env.cmpEq` -/
theorem translated_strCompare_eq_model (E : Env) (b1 b2 : Blk) (buf1 buf2 : Buf) (hb1 : E.block b1 = some buf1)
    (hb2 : E.block b2 = some buf2) (o1 o2 n f : Nat) (e0 : Ptr) (hf : n < f) :
    match cmpN (buf1.drop o1) (buf2.drop o2) n with
    | none => GenStr.strCompare E f ⟨.mk b1 o1, .mk b2 o2, n, e0⟩ = none
    | some eq => ∃ d s', GenStr.strCompare E f ⟨.mk b1 o1, .mk b2 o2, n, e0⟩ = some (.ret d s') ∧ (d = 0 ↔ eq = true) := by
  have hl := strCompare_loop E b1 b2 buf1 buf2 hb1 hb2 n n o1 o2 f hf
  revert hl
  cases cmpN (buf1.drop o1) (buf2.drop o2) n with
  | none => intro hl; simp [GenStr.strCompare, Ptr.add, hl]
  | some eq =>
    cases eq with
    | true =>
      intro ⟨s', hl⟩
      rcases hl with hl | hl
      · exact ⟨0, s', by simp [GenStr.strCompare, Ptr.add, hl], by simp⟩
      · exact ⟨0, s', by simp [GenStr.strCompare, Ptr.add, hl], by simp⟩
    | false => intro ⟨d, s', hl, hd⟩; exact ⟨d, s', by simp [GenStr.strCompare, Ptr.add, hl], by simp [hd]⟩

/-- the primitives of CSem.lean that the translated `Arguments::read` uses are these translated functions -/
theorem primitives_are_translated (E : Env) (b : Blk) (buf : Buf) (hb : E.block b = some buf) (off : Nat) :
    E.strlen (.mk b off) = strlenL (buf.drop off) ∧
    (∀ ch, E.strfind (.mk b off) ch =
      match findL ch (buf.drop off) with
      | none => none
      | some none => some .null
      | some (some i) => some (.mk b (off + i))) := by
  constructor
  · simp [Env.strlen, Env.view, hb]
  · intro ch
    simp only [Env.strfind, Env.view, hb]
    cases findL ch (List.drop off buf) with
    | none => rfl
    | some o => cases o <;> rfl

end Nstd.Args.Tie
