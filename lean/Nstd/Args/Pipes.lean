/-
  Abstract pipe model for the run-time half of property C20, for ARBITRARY parent and child programs.

  Part U: the UNCONSTRAINED system.  Three pipes (stdin: parent writes / child reads; stdout, stderr:
  child writes / parent reads) as bounded FIFO byte queues; both processes may perform ANY operation the
  kernel permits, in any order, with any data: every parent program and every child program over these three
  pipes is a refinement of it.  History variables record every byte ever written to / read from each pipe.
  This is an explicit MODEL of the kernel (adequacy is an assumption): one reader and one writer per pipe
  (what `open()` establishes, `open_pipe_ends_exact`), no further fork/dup of the ends, no signals other than
  SIGPIPE.

  Part G: the documented parent protocol (write the payload, close stdin, read stdout/stderr to end-of-file,
  join) against an ARBITRARY child program (a list of read / write / close actions, then exit).
-/
import Nstd.Args.Kernel
namespace Nstd.Args.Pipes

/-! ### Part U: the unconstrained system -/

inductive Child where
  | running
  | exited (code : Nat)
  | signalled                -- terminated by SIGPIPE
  deriving Repr, DecidableEq

structure U where
  cap : Nat
  -- the three pipes
  inQ : List Nat
  outQ : List Nat
  errQ : List Nat
  -- who holds which end
  pInW : Bool                -- parent: write end of the stdin pipe
  cInR : Bool                -- child: read end of the stdin pipe
  cOutW : Bool               -- child: write end of the stdout pipe
  cErrW : Bool
  pOutR : Bool               -- parent: read end of the stdout pipe
  pErrR : Bool
  -- history: all bytes ever written to / read from each pipe
  sentIn : List Nat
  gotIn : List Nat
  sentOut : List Nat
  gotOut : List Nat
  sentErr : List Nat
  gotErr : List Nat
  -- the reader has observed end-of-file (a read returned 0)
  inEof : Bool
  outEof : Bool
  errEof : Bool
  inBroken : Bool            -- a write of the parent to the stdin pipe failed with EPIPE
  earlyClose : Bool          -- history: the parent closed a read end while the child still held the write end
  child : Child
  reaped : Option Nat        -- what join()/waitpid stored (WEXITSTATUS; 0 for a signalled child)

/-- after `open()` with redirection mask `mask` (1 = stdout, 2 = stderr, 4 = stdin): queues empty, for a
    redirected stream each side holds its end, for a stream that is not redirected nobody holds an end -/
def U.init (cap mask : Nat) : U :=
  { cap := cap, inQ := [], outQ := [], errQ := [],
    pInW := Kernel.bit mask 4, cInR := Kernel.bit mask 4,
    cOutW := Kernel.bit mask 1, pOutR := Kernel.bit mask 1,
    cErrW := Kernel.bit mask 2, pErrR := Kernel.bit mask 2,
    sentIn := [], gotIn := [], sentOut := [], gotOut := [], sentErr := [], gotErr := [],
    inEof := false, outEof := false, errEof := false, inBroken := false, earlyClose := false,
    child := .running, reaped := none }

inductive UStep : U → U → Prop where
  -- stdin pipe
  | pWriteIn (s : U) (d : List Nat) : s.pInW = true → s.cInR = true → d ≠ [] → s.inQ.length + d.length ≤ s.cap →
      UStep s { s with inQ := s.inQ ++ d, sentIn := s.sentIn ++ d }
  | pWriteInBroken (s : U) : s.pInW = true → s.cInR = false → UStep s { s with inBroken := true }
  | cReadIn (s : U) (k : Nat) : s.cInR = true → 0 < k → k ≤ s.inQ.length →
      UStep s { s with gotIn := s.gotIn ++ s.inQ.take k, inQ := s.inQ.drop k }
  | cEofIn (s : U) : s.cInR = true → s.inQ = [] → s.pInW = false → UStep s { s with inEof := true }
  | pCloseIn (s : U) : s.pInW = true → UStep s { s with pInW := false }
  | cCloseIn (s : U) : s.cInR = true → UStep s { s with cInR := false }
  -- stdout pipe
  | cWriteOut (s : U) (d : List Nat) : s.cOutW = true → s.pOutR = true → d ≠ [] → s.outQ.length + d.length ≤ s.cap →
      UStep s { s with outQ := s.outQ ++ d, sentOut := s.sentOut ++ d }
  | cSigOut (s : U) : s.child = .running → s.cOutW = true → s.pOutR = false →
      UStep s { s with child := .signalled, cInR := false, cOutW := false, cErrW := false }
  | pReadOut (s : U) (k : Nat) : s.pOutR = true → 0 < k → k ≤ s.outQ.length →
      UStep s { s with gotOut := s.gotOut ++ s.outQ.take k, outQ := s.outQ.drop k }
  | pEofOut (s : U) : s.pOutR = true → s.outQ = [] → s.cOutW = false → UStep s { s with outEof := true }
  | pCloseOut (s : U) : s.pOutR = true → UStep s { s with pOutR := false, earlyClose := s.earlyClose || s.cOutW }
  | cCloseOut (s : U) : s.cOutW = true → UStep s { s with cOutW := false }
  -- stderr pipe
  | cWriteErr (s : U) (d : List Nat) : s.cErrW = true → s.pErrR = true → d ≠ [] → s.errQ.length + d.length ≤ s.cap →
      UStep s { s with errQ := s.errQ ++ d, sentErr := s.sentErr ++ d }
  | cSigErr (s : U) : s.child = .running → s.cErrW = true → s.pErrR = false →
      UStep s { s with child := .signalled, cInR := false, cOutW := false, cErrW := false }
  | pReadErr (s : U) (k : Nat) : s.pErrR = true → 0 < k → k ≤ s.errQ.length →
      UStep s { s with gotErr := s.gotErr ++ s.errQ.take k, errQ := s.errQ.drop k }
  | pEofErr (s : U) : s.pErrR = true → s.errQ = [] → s.cErrW = false → UStep s { s with errEof := true }
  | pCloseErr (s : U) : s.pErrR = true → UStep s { s with pErrR := false, earlyClose := s.earlyClose || s.cErrW }
  | cCloseErr (s : U) : s.cErrW = true → UStep s { s with cErrW := false }
  -- processes
  | cExit (s : U) (c : Nat) : s.child = .running →
      UStep s { s with child := .exited c, cInR := false, cOutW := false, cErrW := false }
  | pWaitExited (s : U) (c : Nat) : s.child = .exited c → s.reaped = none → UStep s { s with reaped := some c }
  | pWaitSignalled (s : U) : s.child = .signalled → s.reaped = none → UStep s { s with reaped := some 0 }

inductive UReach (s0 : U) : U → Prop where
  | init : UReach s0 s0
  | step {s s' : U} : UReach s0 s → UStep s s' → UReach s0 s'


/-! ### Part G: the documented parent protocol against an arbitrary child program

  The child is a PROGRAM: a list of actions, then `exit(code)`.
  * `readIn n`: one `read(0, buf, n)`: blocks while the stdin pipe is empty and the parent still holds the write
    end; takes between 1 and `n` of the queued bytes; at end-of-file takes nothing and completes; `n = 0` or a
    closed / not redirected stdin: completes at once.
  * `readAll`: `while (read(0, ...) > 0);`: consumes until end-of-file is observed.
  * `writeOut d` / `writeErr d`: blocking write loop, partial transfers of at least one byte that fit; the head of
    `prog` is rewritten to the rest of the data; to a stream that is closed or not redirected: completes at once
    (the data goes elsewhere / EBADF); to a pipe whose read end is gone: SIGPIPE.
  * `closeIn` / `closeOut` / `closeErr`: close descriptor 0 / 1 / 2 (closing twice does nothing).
  The parent is the documented protocol (harness `opIo` with the API as coded): `Process::write` repeatedly until
  the payload is taken (blocks while the pipe is full; if the child's read end is gone, or stdin is not redirected,
  the write fails and the parent stops writing), `close(stdinStream)`, then `Process::read(buf, len, streams)` on
  stdout/stderr until both reported end-of-file (a stream that is not redirected counts as ended), then `join`
  (waitpid: enabled when the child has exited).  The pipe state with its history variables is the state `U` of the
  unconstrained system, so that every step is a step of `U` (or leaves the pipes as they are). -/

inductive CAct where
  | readIn (n : Nat)
  | readAll
  | writeOut (d : List Nat)
  | writeErr (d : List Nat)
  | closeIn
  | closeOut
  | closeErr
  deriving Repr, DecidableEq

structure G where
  u : U
  pPhase : Kernel.PPhase
  toSend : List Nat          -- the part of the payload not yet taken by a write
  stopped : Bool             -- a `Process::write` failed: the parent stops writing
  prog : List CAct           -- what is left of the child's program; the head is the action in execution
  code : Nat                 -- the exit code of the child's program

def G.init (cap mask : Nat) (P : List Nat) (prog : List CAct) (code : Nat) : G :=
  { u := U.init cap mask, pPhase := .writing, toSend := P, stopped := false, prog := prog, code := code }

inductive GStep : G → G → Prop where
  -- parent, phase writing
  | pWrite (s : G) (k : Nat) : s.pPhase = .writing → s.stopped = false → s.u.pInW = true → s.u.cInR = true →
      0 < k → k ≤ s.toSend.length → s.u.inQ.length + k ≤ s.u.cap →
      GStep s { s with u := { s.u with inQ := s.u.inQ ++ s.toSend.take k, sentIn := s.u.sentIn ++ s.toSend.take k },
                       toSend := s.toSend.drop k }
  | pWriteFail (s : G) : s.pPhase = .writing → s.stopped = false → s.toSend ≠ [] → s.u.pInW = true → s.u.cInR = false →
      GStep s { s with u := { s.u with inBroken := true }, stopped := true }
  | pWriteNoPipe (s : G) : s.pPhase = .writing → s.stopped = false → s.toSend ≠ [] → s.u.pInW = false →
      GStep s { s with stopped := true }
  | pClose (s : G) : s.pPhase = .writing → (s.toSend = [] ∨ s.stopped = true) →
      GStep s { s with u := { s.u with pInW := false }, pPhase := .draining }
  -- parent, phase draining
  | pReadOut (s : G) (k : Nat) : s.pPhase = .draining → s.u.pOutR = true → 0 < k → k ≤ s.u.outQ.length →
      GStep s { s with u := { s.u with gotOut := s.u.gotOut ++ s.u.outQ.take k, outQ := s.u.outQ.drop k } }
  | pEofOut (s : G) : s.pPhase = .draining → s.u.pOutR = true → s.u.outEof = false → s.u.outQ = [] → s.u.cOutW = false →
      GStep s { s with u := { s.u with outEof := true } }
  | pReadErr (s : G) (k : Nat) : s.pPhase = .draining → s.u.pErrR = true → 0 < k → k ≤ s.u.errQ.length →
      GStep s { s with u := { s.u with gotErr := s.u.gotErr ++ s.u.errQ.take k, errQ := s.u.errQ.drop k } }
  | pEofErr (s : G) : s.pPhase = .draining → s.u.pErrR = true → s.u.errEof = false → s.u.errQ = [] → s.u.cErrW = false →
      GStep s { s with u := { s.u with errEof := true } }
  | pJoin (s : G) (c : Nat) : s.pPhase = .draining → (s.u.outEof = true ∨ s.u.pOutR = false) →
      (s.u.errEof = true ∨ s.u.pErrR = false) → s.u.child = .exited c → s.u.reaped = none →
      GStep s { s with u := { s.u with reaped := some c }, pPhase := .joined }
  -- child: stdin
  | cReadIn (s : G) (n : Nat) (r : List CAct) (k : Nat) : s.u.child = .running → s.prog = .readIn n :: r → s.u.cInR = true →
      0 < k → k ≤ n → k ≤ s.u.inQ.length →
      GStep s { s with u := { s.u with gotIn := s.u.gotIn ++ s.u.inQ.take k, inQ := s.u.inQ.drop k }, prog := r }
  | cReadInEof (s : G) (n : Nat) (r : List CAct) : s.u.child = .running → s.prog = .readIn n :: r → s.u.cInR = true →
      0 < n → s.u.inQ = [] → s.u.pInW = false →
      GStep s { s with u := { s.u with inEof := true }, prog := r }
  | cReadInSkip (s : G) (n : Nat) (r : List CAct) : s.u.child = .running → s.prog = .readIn n :: r →
      (s.u.cInR = false ∨ n = 0) → GStep s { s with prog := r }
  | cReadAll (s : G) (r : List CAct) (k : Nat) : s.u.child = .running → s.prog = .readAll :: r → s.u.cInR = true →
      0 < k → k ≤ s.u.inQ.length →
      GStep s { s with u := { s.u with gotIn := s.u.gotIn ++ s.u.inQ.take k, inQ := s.u.inQ.drop k } }
  | cReadAllEof (s : G) (r : List CAct) : s.u.child = .running → s.prog = .readAll :: r → s.u.cInR = true →
      s.u.inQ = [] → s.u.pInW = false →
      GStep s { s with u := { s.u with inEof := true }, prog := r }
  | cReadAllSkip (s : G) (r : List CAct) : s.u.child = .running → s.prog = .readAll :: r → s.u.cInR = false →
      GStep s { s with prog := r }
  -- child: stdout
  | cWriteOut (s : G) (d : List Nat) (r : List CAct) (k : Nat) : s.u.child = .running → s.prog = .writeOut d :: r →
      s.u.cOutW = true → s.u.pOutR = true → 0 < k → k ≤ d.length → s.u.outQ.length + k ≤ s.u.cap →
      GStep s { s with u := { s.u with outQ := s.u.outQ ++ d.take k, sentOut := s.u.sentOut ++ d.take k },
                       prog := .writeOut (d.drop k) :: r }
  | cWriteOutDone (s : G) (r : List CAct) : s.u.child = .running → s.prog = .writeOut [] :: r → GStep s { s with prog := r }
  | cWriteOutSkip (s : G) (d : List Nat) (r : List CAct) : s.u.child = .running → s.prog = .writeOut d :: r →
      s.u.cOutW = false → GStep s { s with prog := r }
  | cSigOut (s : G) (d : List Nat) (r : List CAct) : s.u.child = .running → s.prog = .writeOut d :: r → d ≠ [] →
      s.u.cOutW = true → s.u.pOutR = false →
      GStep s { s with u := { s.u with child := .signalled, cInR := false, cOutW := false, cErrW := false } }
  -- child: stderr
  | cWriteErr (s : G) (d : List Nat) (r : List CAct) (k : Nat) : s.u.child = .running → s.prog = .writeErr d :: r →
      s.u.cErrW = true → s.u.pErrR = true → 0 < k → k ≤ d.length → s.u.errQ.length + k ≤ s.u.cap →
      GStep s { s with u := { s.u with errQ := s.u.errQ ++ d.take k, sentErr := s.u.sentErr ++ d.take k },
                       prog := .writeErr (d.drop k) :: r }
  | cWriteErrDone (s : G) (r : List CAct) : s.u.child = .running → s.prog = .writeErr [] :: r → GStep s { s with prog := r }
  | cWriteErrSkip (s : G) (d : List Nat) (r : List CAct) : s.u.child = .running → s.prog = .writeErr d :: r →
      s.u.cErrW = false → GStep s { s with prog := r }
  | cSigErr (s : G) (d : List Nat) (r : List CAct) : s.u.child = .running → s.prog = .writeErr d :: r → d ≠ [] →
      s.u.cErrW = true → s.u.pErrR = false →
      GStep s { s with u := { s.u with child := .signalled, cInR := false, cOutW := false, cErrW := false } }
  -- child: close, exit
  | cCloseIn (s : G) (r : List CAct) : s.u.child = .running → s.prog = .closeIn :: r →
      GStep s { s with u := { s.u with cInR := false }, prog := r }
  | cCloseOut (s : G) (r : List CAct) : s.u.child = .running → s.prog = .closeOut :: r →
      GStep s { s with u := { s.u with cOutW := false }, prog := r }
  | cCloseErr (s : G) (r : List CAct) : s.u.child = .running → s.prog = .closeErr :: r →
      GStep s { s with u := { s.u with cErrW := false }, prog := r }
  | cExit (s : G) : s.u.child = .running → s.prog = [] →
      GStep s { s with u := { s.u with child := .exited s.code, cInR := false, cOutW := false, cErrW := false } }

inductive GReach (s0 : G) : G → Prop where
  | init : GReach s0 s0
  | step {s s' : G} : GReach s0 s → GStep s s' → GReach s0 s'

/-- reachable in exactly `n` steps -/
inductive GReachN (s0 : G) : Nat → G → Prop where
  | init : GReachN s0 0 s0
  | step {n : Nat} {s s' : G} : GReachN s0 n s → GStep s s' → GReachN s0 (n + 1) s'

/-- the child's "input phase": its program up to the first `readAll` / `closeIn` -/
def inputPhase : List CAct → List CAct
  | [] => []
  | .readAll :: _ => []
  | .closeIn :: _ => []
  | .readIn n :: r => .readIn n :: inputPhase r
  | .writeOut d :: r => .writeOut d :: inputPhase r
  | .writeErr d :: r => .writeErr d :: inputPhase r
  | .closeOut :: r => .closeOut :: inputPhase r
  | .closeErr :: r => .closeErr :: inputPhase r

/-- number of bytes a program writes to stdout / stderr -/
def outBytes : List CAct → Nat
  | [] => 0
  | .writeOut d :: r => d.length + outBytes r
  | .readAll :: r => outBytes r
  | .closeIn :: r => outBytes r
  | .readIn _ :: r => outBytes r
  | .writeErr _ :: r => outBytes r
  | .closeOut :: r => outBytes r
  | .closeErr :: r => outBytes r

def errBytes : List CAct → Nat
  | [] => 0
  | .writeErr d :: r => d.length + errBytes r
  | .readAll :: r => errBytes r
  | .closeIn :: r => errBytes r
  | .readIn _ :: r => errBytes r
  | .writeOut _ :: r => errBytes r
  | .closeOut :: r => errBytes r
  | .closeErr :: r => errBytes r

/-- the bytes a program writes to stdout: the data of its `writeOut` actions, in order, up to the first `closeOut` -/
def outData : List CAct → List Nat
  | [] => []
  | .closeOut :: _ => []
  | .writeOut d :: r => d ++ outData r
  | .readAll :: r => outData r
  | .closeIn :: r => outData r
  | .readIn _ :: r => outData r
  | .writeErr _ :: r => outData r
  | .closeErr :: r => outData r

def errData : List CAct → List Nat
  | [] => []
  | .closeErr :: _ => []
  | .writeErr d :: r => d ++ errData r
  | .readAll :: r => errData r
  | .closeIn :: r => errData r
  | .readIn _ :: r => errData r
  | .writeOut _ :: r => errData r
  | .closeOut :: r => errData r

/-- the program reads its stdin to end-of-file (`readAll`) before any `closeIn` -/
def wantsAll : List CAct → Bool
  | [] => false
  | .readAll :: _ => true
  | .closeIn :: _ => false
  | .readIn _ :: r => wantsAll r
  | .writeOut _ :: r => wantsAll r
  | .writeErr _ :: r => wantsAll r
  | .closeOut :: r => wantsAll r
  | .closeErr :: r => wantsAll r

def actCost : CAct → Nat
  | .writeOut d => 2 * d.length + 1
  | .writeErr d => 2 * d.length + 1
  | _ => 1

def progCost : List CAct → Nat
  | [] => 0
  | a :: r => actCost a + progCost r

def childRank : Child → Nat
  | .running => 1
  | _ => 0

/-- every step decreases this -/
def G.measure (s : G) : Nat :=
  2 * s.toSend.length + s.u.inQ.length + s.u.outQ.length + s.u.errQ.length + progCost s.prog +
    Kernel.pRank s.pPhase + Kernel.b2n s.stopped + Kernel.b2n s.u.outEof + Kernel.b2n s.u.errEof + childRank s.u.child

end Nstd.Args.Pipes
