/-
  Abstract pipe model for the run-time half of property C20, for ARBITRARY parent and child programs.

  Part U: the UNCONSTRAINED system.  Three pipes (stdin: parent writes / child reads; stdout, stderr:
  child writes / parent reads) as bounded FIFO byte queues; both processes may perform ANY operation the
  kernel permits, in any order, with any data: every parent program and every child program over these three
  pipes is a refinement of it.  History variables record every byte ever written to / read from each pipe.
  This is an explicit MODEL of the kernel (adequacy is an assumption): one reader and one writer per pipe
  (what `open()` establishes, `open_pipe_ends_exact`), no further fork/dup of the ends, no signals other than
  SIGPIPE.

  Part G: the documented parent protocol (write the payload, close stdin, read stdout/stderr to end-of-file,
  join) against an ARBITRARY child program (a list of read / write / close actions, then exit).
-/
import Nstd.Args.Kernel
namespace Nstd.Args.Pipes

/-! ### Part U: the unconstrained system -/

inductive Child where
  | running
  | exited (code : Nat)
  | signalled                -- terminated by SIGPIPE
  deriving Repr, DecidableEq

structure U where
  cap : Nat
  -- the three pipes
  inQ : List Nat
  outQ : List Nat
  errQ : List Nat
  -- who holds which end
  pInW : Bool                -- parent: write end of the stdin pipe
  cInR : Bool                -- child: read end of the stdin pipe
  cOutW : Bool               -- child: write end of the stdout pipe
  cErrW : Bool
  pOutR : Bool               -- parent: read end of the stdout pipe
  pErrR : Bool
  -- history: all bytes ever written to / read from each pipe
  sentIn : List Nat
  gotIn : List Nat
  sentOut : List Nat
  gotOut : List Nat
  sentErr : List Nat
  gotErr : List Nat
  -- the reader has observed end-of-file (a read returned 0)
  inEof : Bool
  outEof : Bool
  errEof : Bool
  inBroken : Bool            -- a write of the parent to the stdin pipe failed with EPIPE
  earlyClose : Bool          -- history: the parent closed a read end while the child still held the write end
  child : Child
  reaped : Option Nat        -- what join()/waitpid stored (WEXITSTATUS; 0 for a signalled child)

/-- after `open()` with redirection mask `mask` (1 = stdout, 2 = stderr, 4 = stdin): queues empty, for a
    redirected stream each side holds its end, for a stream that is not redirected nobody holds an end -/
def U.init (cap mask : Nat) : U :=
  { cap := cap, inQ := [], outQ := [], errQ := [],
    pInW := Kernel.bit mask 4, cInR := Kernel.bit mask 4,
    cOutW := Kernel.bit mask 1, pOutR := Kernel.bit mask 1,
    cErrW := Kernel.bit mask 2, pErrR := Kernel.bit mask 2,
    sentIn := [], gotIn := [], sentOut := [], gotOut := [], sentErr := [], gotErr := [],
    inEof := false, outEof := false, errEof := false, inBroken := false, earlyClose := false,
    child := .running, reaped := none }

inductive UStep : U → U → Prop where
  -- stdin pipe
  | pWriteIn (s : U) (d : List Nat) : s.pInW = true → s.cInR = true → d ≠ [] → s.inQ.length + d.length ≤ s.cap →
      UStep s { s with inQ := s.inQ ++ d, sentIn := s.sentIn ++ d }
  | pWriteInBroken (s : U) : s.pInW = true → s.cInR = false → UStep s { s with inBroken := true }
  | cReadIn (s : U) (k : Nat) : s.cInR = true → 0 < k → k ≤ s.inQ.length →
      UStep s { s with gotIn := s.gotIn ++ s.inQ.take k, inQ := s.inQ.drop k }
  | cEofIn (s : U) : s.cInR = true → s.inQ = [] → s.pInW = false → UStep s { s with inEof := true }
  | pCloseIn (s : U) : s.pInW = true → UStep s { s with pInW := false }
  | cCloseIn (s : U) : s.cInR = true → UStep s { s with cInR := false }
  -- stdout pipe
  | cWriteOut (s : U) (d : List Nat) : s.cOutW = true → s.pOutR = true → d ≠ [] → s.outQ.length + d.length ≤ s.cap →
      UStep s { s with outQ := s.outQ ++ d, sentOut := s.sentOut ++ d }
  | cSigOut (s : U) : s.child = .running → s.cOutW = true → s.pOutR = false →
      UStep s { s with child := .signalled, cInR := false, cOutW := false, cErrW := false }
  | pReadOut (s : U) (k : Nat) : s.pOutR = true → 0 < k → k ≤ s.outQ.length →
      UStep s { s with gotOut := s.gotOut ++ s.outQ.take k, outQ := s.outQ.drop k }
  | pEofOut (s : U) : s.pOutR = true → s.outQ = [] → s.cOutW = false → UStep s { s with outEof := true }
  | pCloseOut (s : U) : s.pOutR = true → UStep s { s with pOutR := false, earlyClose := s.earlyClose || s.cOutW }
  | cCloseOut (s : U) : s.cOutW = true → UStep s { s with cOutW := false }
  -- stderr pipe
  | cWriteErr (s : U) (d : List Nat) : s.cErrW = true → s.pErrR = true → d ≠ [] → s.errQ.length + d.length ≤ s.cap →
      UStep s { s with errQ := s.errQ ++ d, sentErr := s.sentErr ++ d }
  | cSigErr (s : U) : s.child = .running → s.cErrW = true → s.pErrR = false →
      UStep s { s with child := .signalled, cInR := false, cOutW := false, cErrW := false }
  | pReadErr (s : U) (k : Nat) : s.pErrR = true → 0 < k → k ≤ s.errQ.length →
      UStep s { s with gotErr := s.gotErr ++ s.errQ.take k, errQ := s.errQ.drop k }
  | pEofErr (s : U) : s.pErrR = true → s.errQ = [] → s.cErrW = false → UStep s { s with errEof := true }
  | pCloseErr (s : U) : s.pErrR = true → UStep s { s with pErrR := false, earlyClose := s.earlyClose || s.cErrW }
  | cCloseErr (s : U) : s.cErrW = true → UStep s { s with cErrW := false }
  -- processes
  | cExit (s : U) (c : Nat) : s.child = .running →
      UStep s { s with child := .exited c, cInR := false, cOutW := false, cErrW := false }
  | pWaitExited (s : U) (c : Nat) : s.child = .exited c → s.reaped = none → UStep s { s with reaped := some c }
  | pWaitSignalled (s : U) : s.child = .signalled → s.reaped = none → UStep s { s with reaped := some 0 }

inductive UReach (s0 : U) : U → Prop where
  | init : UReach s0 s0
  | step {s s' : U} : UReach s0 s → UStep s s' → UReach s0 s'

end Nstd.Args.Pipes
