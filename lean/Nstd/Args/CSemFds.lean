/-
  Semantics for the fragment translation of `Process::open(executable, argc, argv, streams, environment)` (tools/gen_args.py ->
  Nstd/Generated/ArgsFds.lean): the parent branch behind `vfork()`, the child branch up to `execvpe`, and the `error:` path, over the
  descriptor table of Kernel.lean as a ghost field: `::close(fd)` = `Kernel.close`, `dup2(a, b)` = `Kernel.dup2`; the arrays
  `int stdoutFds[2]` .. are two fields each (`stdoutFds0`, `stdoutFds1`), a descriptor is its number (0 = not created).  Core Lean only.
-/
import Nstd.Args.CSemDmn

namespace Nstd.Args.C
open Nstd.Args.Kernel

def STDIN_FILENO : Nat := 0

def fdClose (fd : Nat) (t : FdTable) : FdTable := close fd t
def fdDup2 (old new : Nat) (t : FdTable) : FdTable := dup2 old new t

end Nstd.Args.C
