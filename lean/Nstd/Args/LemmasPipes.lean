import Nstd.Args.Pipes
namespace Nstd.Args.Pipes

/-! ### the unconstrained system: invariants of every reachable state -/

structure UInv (cap : Nat) (s : U) : Prop where
  cap_eq : s.cap = cap
  fifoIn : s.sentIn = s.gotIn ++ s.inQ
  fifoOut : s.sentOut = s.gotOut ++ s.outQ
  fifoErr : s.sentErr = s.gotErr ++ s.errQ
  capIn : s.inQ.length ≤ s.cap
  capOut : s.outQ.length ≤ s.cap
  capErr : s.errQ.length ≤ s.cap
  eofIn : s.inEof = true → s.inQ = [] ∧ s.pInW = false
  eofOut : s.outEof = true → s.outQ = [] ∧ s.cOutW = false
  eofErr : s.errEof = true → s.errQ = [] ∧ s.cErrW = false
  dead : s.child ≠ .running → s.cInR = false ∧ s.cOutW = false ∧ s.cErrW = false
  reaped_ok : ∀ c, s.reaped = some c → s.child = .exited c ∨ (s.child = .signalled ∧ c = 0)
  early_out : s.earlyClose = false → s.cOutW = true → s.pOutR = true
  early_err : s.earlyClose = false → s.cErrW = true → s.pErrR = true
  sig : s.child = .signalled → s.earlyClose = true

theorem UInv.init (cap mask : Nat) : UInv cap (U.init cap mask) := by
  constructor <;> simp [U.init]

theorem UInv.step {cap : Nat} {s s' : U} (h : UInv cap s) (hs : UStep s s') : UInv cap s' := by
  obtain ⟨h1, h2, h3, h4, h5, h6, h7, h8, h9, h10, h11, h12, h13, h14, h15⟩ := h
  cases hs <;> constructor <;> simp_all <;> grind

theorem UInv.reach {cap mask : Nat} {s : U} (h : UReach (U.init cap mask) s) : UInv cap s := by
  induction h with
  | init => exact UInv.init cap mask
  | step _ hs ih => exact ih.step hs

theorem UInv.reach_from {cap : Nat} {s s' : U} (h : UInv cap s) (r : UReach s s') : UInv cap s' := by
  induction r with
  | init => exact h
  | step _ hs ih => exact ih.step hs

theorem UReach.trans {s0 s s' : U} (a : UReach s0 s) (b : UReach s s') : UReach s0 s' := by
  induction b with
  | init => exact a
  | step _ hs ih => exact .step ih hs

/-! stability: what can no longer change -/

/-- once the reader of the stdout pipe has seen end-of-file, nothing about that pipe changes any more -/
theorem eofOut_step {cap : Nat} {s s' : U} (h : UInv cap s) (he : s.outEof = true) (hs : UStep s s') :
    s'.outEof = true ∧ s'.sentOut = s.sentOut ∧ s'.gotOut = s.gotOut := by
  obtain ⟨hq, hw⟩ := h.eofOut he
  cases hs <;> simp_all

theorem eofErr_step {cap : Nat} {s s' : U} (h : UInv cap s) (he : s.errEof = true) (hs : UStep s s') :
    s'.errEof = true ∧ s'.sentErr = s.sentErr ∧ s'.gotErr = s.gotErr := by
  obtain ⟨hq, hw⟩ := h.eofErr he
  cases hs <;> simp_all

theorem eofIn_step {cap : Nat} {s s' : U} (h : UInv cap s) (he : s.inEof = true) (hs : UStep s s') :
    s'.inEof = true ∧ s'.sentIn = s.sentIn ∧ s'.gotIn = s.gotIn := by
  obtain ⟨hq, hw⟩ := h.eofIn he
  cases hs <;> simp_all

theorem eofOut_reach {cap : Nat} {s s' : U} (h : UInv cap s) (he : s.outEof = true) (r : UReach s s') :
    s'.outEof = true ∧ s'.sentOut = s.sentOut ∧ s'.gotOut = s.gotOut := by
  induction r with
  | init => exact ⟨he, rfl, rfl⟩
  | step r hs ih =>
    obtain ⟨a, b, c⟩ := ih
    obtain ⟨a', b', c'⟩ := eofOut_step (h.reach_from r) a hs
    exact ⟨a', b'.trans b, c'.trans c⟩

theorem eofErr_reach {cap : Nat} {s s' : U} (h : UInv cap s) (he : s.errEof = true) (r : UReach s s') :
    s'.errEof = true ∧ s'.sentErr = s.sentErr ∧ s'.gotErr = s.gotErr := by
  induction r with
  | init => exact ⟨he, rfl, rfl⟩
  | step r hs ih =>
    obtain ⟨a, b, c⟩ := ih
    obtain ⟨a', b', c'⟩ := eofErr_step (h.reach_from r) a hs
    exact ⟨a', b'.trans b, c'.trans c⟩

theorem eofIn_reach {cap : Nat} {s s' : U} (h : UInv cap s) (he : s.inEof = true) (r : UReach s s') :
    s'.inEof = true ∧ s'.sentIn = s.sentIn ∧ s'.gotIn = s.gotIn := by
  induction r with
  | init => exact ⟨he, rfl, rfl⟩
  | step r hs ih =>
    obtain ⟨a, b, c⟩ := ih
    obtain ⟨a', b', c'⟩ := eofIn_step (h.reach_from r) a hs
    exact ⟨a', b'.trans b, c'.trans c⟩

/-- a child that has ended stays as it ended, and what `wait` stored stays -/
theorem ended_step {s s' : U} (hs : UStep s s') :
    (s.child ≠ .running → s'.child = s.child) ∧ (∀ c, s.reaped = some c → s'.reaped = some c) := by
  cases hs <;> simp_all

theorem ended_reach {s s' : U} (r : UReach s s') :
    (s.child ≠ .running → s'.child = s.child) ∧ (∀ c, s.reaped = some c → s'.reaped = some c) := by
  induction r with
  | init => exact ⟨fun _ => rfl, fun _ h => h⟩
  | step r hs ih =>
    obtain ⟨a, b⟩ := ih
    obtain ⟨a', b'⟩ := ended_step hs
    refine ⟨fun hn => ?_, fun c hc => b' c (b c hc)⟩
    have e := a hn
    rw [a' (by rw [e]; exact hn), e]

/-- a pipe end that is not held is never held again, and without a write end nothing is ever written -/
theorem noWriter_step {s s' : U} (hs : UStep s s') :
    (s.cOutW = false → s'.cOutW = false ∧ s'.sentOut = s.sentOut) ∧
    (s.cErrW = false → s'.cErrW = false ∧ s'.sentErr = s.sentErr) ∧
    (s.pInW = false → s'.pInW = false ∧ s'.sentIn = s.sentIn) := by
  cases hs <;> simp_all

theorem noWriter_reach {s s' : U} (r : UReach s s') :
    (s.cOutW = false → s'.cOutW = false ∧ s'.sentOut = s.sentOut) ∧
    (s.cErrW = false → s'.cErrW = false ∧ s'.sentErr = s.sentErr) ∧
    (s.pInW = false → s'.pInW = false ∧ s'.sentIn = s.sentIn) := by
  induction r with
  | init => exact ⟨fun h => ⟨h, rfl⟩, fun h => ⟨h, rfl⟩, fun h => ⟨h, rfl⟩⟩
  | step r hs ih =>
    obtain ⟨a, b, c⟩ := ih
    obtain ⟨a', b', c'⟩ := noWriter_step hs
    refine ⟨fun h => ?_, fun h => ?_, fun h => ?_⟩
    · obtain ⟨x, y⟩ := a h
      obtain ⟨x', y'⟩ := a' x
      exact ⟨x', y'.trans y⟩
    · obtain ⟨x, y⟩ := b h
      obtain ⟨x', y'⟩ := b' x
      exact ⟨x', y'.trans y⟩
    · obtain ⟨x, y⟩ := c h
      obtain ⟨x', y'⟩ := c' x
      exact ⟨x', y'.trans y⟩

end Nstd.Args.Pipes
