import Nstd.Args.Pipes
namespace Nstd.Args.Pipes

/-! ### the unconstrained system: invariants of every reachable state -/

structure UInv (cap : Nat) (s : U) : Prop where
  cap_eq : s.cap = cap
  fifoIn : s.sentIn = s.gotIn ++ s.inQ
  fifoOut : s.sentOut = s.gotOut ++ s.outQ
  fifoErr : s.sentErr = s.gotErr ++ s.errQ
  capIn : s.inQ.length ≤ s.cap
  capOut : s.outQ.length ≤ s.cap
  capErr : s.errQ.length ≤ s.cap
  eofIn : s.inEof = true → s.inQ = [] ∧ s.pInW = false
  eofOut : s.outEof = true → s.outQ = [] ∧ s.cOutW = false
  eofErr : s.errEof = true → s.errQ = [] ∧ s.cErrW = false
  dead : s.child ≠ .running → s.cInR = false ∧ s.cOutW = false ∧ s.cErrW = false
  reaped_ok : ∀ c, s.reaped = some c → s.child = .exited c ∨ (s.child = .signalled ∧ c = 0)
  early_out : s.earlyClose = false → s.cOutW = true → s.pOutR = true
  early_err : s.earlyClose = false → s.cErrW = true → s.pErrR = true
  sig : s.child = .signalled → s.earlyClose = true

theorem UInv.init (cap mask : Nat) : UInv cap (U.init cap mask) := by
  constructor <;> simp [U.init]

theorem UInv.step {cap : Nat} {s s' : U} (h : UInv cap s) (hs : UStep s s') : UInv cap s' := by
  obtain ⟨h1, h2, h3, h4, h5, h6, h7, h8, h9, h10, h11, h12, h13, h14, h15⟩ := h
  cases hs <;> constructor <;> simp_all <;> grind

theorem UInv.reach {cap mask : Nat} {s : U} (h : UReach (U.init cap mask) s) : UInv cap s := by
  induction h with
  | init => exact UInv.init cap mask
  | step _ hs ih => exact ih.step hs

theorem UInv.reach_from {cap : Nat} {s s' : U} (h : UInv cap s) (r : UReach s s') : UInv cap s' := by
  induction r with
  | init => exact h
  | step _ hs ih => exact ih.step hs

theorem UReach.trans {s0 s s' : U} (a : UReach s0 s) (b : UReach s s') : UReach s0 s' := by
  induction b with
  | init => exact a
  | step _ hs ih => exact .step ih hs

/-! stability: what can no longer change -/

/-- once the reader of the stdout pipe has seen end-of-file, nothing about that pipe changes any more -/
theorem eofOut_step {cap : Nat} {s s' : U} (h : UInv cap s) (he : s.outEof = true) (hs : UStep s s') :
    s'.outEof = true ∧ s'.sentOut = s.sentOut ∧ s'.gotOut = s.gotOut := by
  obtain ⟨hq, hw⟩ := h.eofOut he
  cases hs <;> simp_all

theorem eofErr_step {cap : Nat} {s s' : U} (h : UInv cap s) (he : s.errEof = true) (hs : UStep s s') :
    s'.errEof = true ∧ s'.sentErr = s.sentErr ∧ s'.gotErr = s.gotErr := by
  obtain ⟨hq, hw⟩ := h.eofErr he
  cases hs <;> simp_all

theorem eofIn_step {cap : Nat} {s s' : U} (h : UInv cap s) (he : s.inEof = true) (hs : UStep s s') :
    s'.inEof = true ∧ s'.sentIn = s.sentIn ∧ s'.gotIn = s.gotIn := by
  obtain ⟨hq, hw⟩ := h.eofIn he
  cases hs <;> simp_all

theorem eofOut_reach {cap : Nat} {s s' : U} (h : UInv cap s) (he : s.outEof = true) (r : UReach s s') :
    s'.outEof = true ∧ s'.sentOut = s.sentOut ∧ s'.gotOut = s.gotOut := by
  induction r with
  | init => exact ⟨he, rfl, rfl⟩
  | step r hs ih =>
    obtain ⟨a, b, c⟩ := ih
    obtain ⟨a', b', c'⟩ := eofOut_step (h.reach_from r) a hs
    exact ⟨a', b'.trans b, c'.trans c⟩

theorem eofErr_reach {cap : Nat} {s s' : U} (h : UInv cap s) (he : s.errEof = true) (r : UReach s s') :
    s'.errEof = true ∧ s'.sentErr = s.sentErr ∧ s'.gotErr = s.gotErr := by
  induction r with
  | init => exact ⟨he, rfl, rfl⟩
  | step r hs ih =>
    obtain ⟨a, b, c⟩ := ih
    obtain ⟨a', b', c'⟩ := eofErr_step (h.reach_from r) a hs
    exact ⟨a', b'.trans b, c'.trans c⟩

theorem eofIn_reach {cap : Nat} {s s' : U} (h : UInv cap s) (he : s.inEof = true) (r : UReach s s') :
    s'.inEof = true ∧ s'.sentIn = s.sentIn ∧ s'.gotIn = s.gotIn := by
  induction r with
  | init => exact ⟨he, rfl, rfl⟩
  | step r hs ih =>
    obtain ⟨a, b, c⟩ := ih
    obtain ⟨a', b', c'⟩ := eofIn_step (h.reach_from r) a hs
    exact ⟨a', b'.trans b, c'.trans c⟩

/-- a child that has ended stays as it ended, and what `wait` stored stays -/
theorem ended_step {s s' : U} (hs : UStep s s') :
    (s.child ≠ .running → s'.child = s.child) ∧ (∀ c, s.reaped = some c → s'.reaped = some c) := by
  cases hs <;> simp_all

theorem ended_reach {s s' : U} (r : UReach s s') :
    (s.child ≠ .running → s'.child = s.child) ∧ (∀ c, s.reaped = some c → s'.reaped = some c) := by
  induction r with
  | init => exact ⟨fun _ => rfl, fun _ h => h⟩
  | step r hs ih =>
    obtain ⟨a, b⟩ := ih
    obtain ⟨a', b'⟩ := ended_step hs
    refine ⟨fun hn => ?_, fun c hc => b' c (b c hc)⟩
    have e := a hn
    rw [a' (by rw [e]; exact hn), e]

/-- a pipe end that is not held is never held again, and without a write end nothing is ever written -/
theorem noWriter_step {s s' : U} (hs : UStep s s') :
    (s.cOutW = false → s'.cOutW = false ∧ s'.sentOut = s.sentOut) ∧
    (s.cErrW = false → s'.cErrW = false ∧ s'.sentErr = s.sentErr) ∧
    (s.pInW = false → s'.pInW = false ∧ s'.sentIn = s.sentIn) := by
  cases hs <;> simp_all

theorem noWriter_reach {s s' : U} (r : UReach s s') :
    (s.cOutW = false → s'.cOutW = false ∧ s'.sentOut = s.sentOut) ∧
    (s.cErrW = false → s'.cErrW = false ∧ s'.sentErr = s.sentErr) ∧
    (s.pInW = false → s'.pInW = false ∧ s'.sentIn = s.sentIn) := by
  induction r with
  | init => exact ⟨fun h => ⟨h, rfl⟩, fun h => ⟨h, rfl⟩, fun h => ⟨h, rfl⟩⟩
  | step r hs ih =>
    obtain ⟨a, b, c⟩ := ih
    obtain ⟨a', b', c'⟩ := noWriter_step hs
    refine ⟨fun h => ?_, fun h => ?_, fun h => ?_⟩
    · obtain ⟨x, y⟩ := a h
      obtain ⟨x', y'⟩ := a' x
      exact ⟨x', y'.trans y⟩
    · obtain ⟨x, y⟩ := b h
      obtain ⟨x', y'⟩ := b' x
      exact ⟨x', y'.trans y⟩
    · obtain ⟨x, y⟩ := c h
      obtain ⟨x', y'⟩ := c' x
      exact ⟨x', y'.trans y⟩

/-! ### the protocol system: every step is a step of the unconstrained system -/

theorem take_ne_nil {l : List Nat} {k : Nat} (h1 : 0 < k) (h2 : k ≤ l.length) : l.take k ≠ [] := by
  intro e
  have := congrArg List.length e
  rw [List.length_take, List.length_nil] at this
  omega

theorem U.close_eq (u : U) :
    (u.pInW = false → { u with pInW := false } = u) ∧ (u.cInR = false → { u with cInR := false } = u) ∧
    (u.cOutW = false → { u with cOutW := false } = u) ∧ (u.cErrW = false → { u with cErrW := false } = u) := by
  cases u; simp

theorem GStep.refines {s s' : G} (hs : GStep s s') : UStep s.u s'.u ∨ s'.u = s.u := by
  cases hs with
  | pWrite k h1 h2 h3 h4 h5 h6 h7 =>
    refine .inl (UStep.pWriteIn _ _ h3 h4 ?_ ?_)
    · exact take_ne_nil (by omega) (by omega)
    · simp; omega
  | pWriteFail h1 h2 h3 h4 h5 => exact .inl (UStep.pWriteInBroken _ h4 h5)
  | pWriteNoPipe => exact .inr rfl
  | pClose h1 h2 =>
    by_cases h : s.u.pInW = true
    · exact .inl (UStep.pCloseIn _ h)
    · exact .inr ((U.close_eq s.u).1 (by simpa using h))
  | pReadOut k h1 h2 h3 h4 => exact .inl (UStep.pReadOut _ k h2 h3 h4)
  | pEofOut h1 h2 h3 h4 h5 => exact .inl (UStep.pEofOut _ h2 h4 h5)
  | pReadErr k h1 h2 h3 h4 => exact .inl (UStep.pReadErr _ k h2 h3 h4)
  | pEofErr h1 h2 h3 h4 h5 => exact .inl (UStep.pEofErr _ h2 h4 h5)
  | pJoin c h1 h2 h3 h4 h5 => exact .inl (UStep.pWaitExited _ c h4 h5)
  | cReadIn n r k h1 h2 h3 h4 h5 h6 => exact .inl (UStep.cReadIn _ k h3 h4 h6)
  | cReadInEof n r h1 h2 h3 h4 h5 h6 => exact .inl (UStep.cEofIn _ h3 h5 h6)
  | cReadInSkip => exact .inr rfl
  | cReadAll r k h1 h2 h3 h4 h5 => exact .inl (UStep.cReadIn _ k h3 h4 h5)
  | cReadAllEof r h1 h2 h3 h4 h5 => exact .inl (UStep.cEofIn _ h3 h4 h5)
  | cReadAllSkip => exact .inr rfl
  | cWriteOut d r k h1 h2 h3 h4 h5 h6 h7 =>
    refine .inl (UStep.cWriteOut _ _ h3 h4 ?_ ?_)
    · exact take_ne_nil (by omega) (by omega)
    · simp; omega
  | cWriteOutDone => exact .inr rfl
  | cWriteOutSkip => exact .inr rfl
  | cSigOut d r h1 h2 h3 h4 h5 => exact .inl (UStep.cSigOut _ h1 h4 h5)
  | cWriteErr d r k h1 h2 h3 h4 h5 h6 h7 =>
    refine .inl (UStep.cWriteErr _ _ h3 h4 ?_ ?_)
    · exact take_ne_nil (by omega) (by omega)
    · simp; omega
  | cWriteErrDone => exact .inr rfl
  | cWriteErrSkip => exact .inr rfl
  | cSigErr d r h1 h2 h3 h4 h5 => exact .inl (UStep.cSigErr _ h1 h4 h5)
  | cCloseIn r h1 h2 =>
    by_cases h : s.u.cInR = true
    · exact .inl (UStep.cCloseIn _ h)
    · exact .inr ((U.close_eq s.u).2.1 (by simpa using h))
  | cCloseOut r h1 h2 =>
    by_cases h : s.u.cOutW = true
    · exact .inl (UStep.cCloseOut _ h)
    · exact .inr ((U.close_eq s.u).2.2.1 (by simpa using h))
  | cCloseErr r h1 h2 =>
    by_cases h : s.u.cErrW = true
    · exact .inl (UStep.cCloseErr _ h)
    · exact .inr ((U.close_eq s.u).2.2.2 (by simpa using h))
  | cExit h1 h2 => exact .inl (UStep.cExit _ _ h1)

theorem GReach.refines {cap mask : Nat} {P : List Nat} {prog : List CAct} {code : Nat} {s : G}
    (h : GReach (G.init cap mask P prog code) s) : UReach (U.init cap mask) s.u := by
  induction h with
  | init => exact .init
  | step _ hs ih =>
    rcases hs.refines with h | h
    · exact .step ih h
    · rw [h]; exact ih

open Kernel (bit)


/-! ### the protocol system: invariants -/

structure GInvA (mask code : Nat) (s : G) : Prop where
  code_eq : s.code = code
  pOutR_eq : s.u.pOutR = bit mask 1
  pErrR_eq : s.u.pErrR = bit mask 2
  cOutW_red : s.u.cOutW = true → bit mask 1 = true
  cErrW_red : s.u.cErrW = true → bit mask 2 = true
  cInR_red : s.u.cInR = true → bit mask 4 = true
  closed_in : s.pPhase ≠ .writing → s.u.pInW = false
  open_in : s.pPhase = .writing → s.u.pInW = bit mask 4
  sent_all : s.pPhase ≠ .writing → s.toSend = [] ∨ s.stopped = true
  alive : s.u.child = .running ∨ (s.prog = [] ∧ s.u.child = .exited code)
  not_reaped : s.pPhase ≠ .joined → s.u.reaped = none
  joined : s.pPhase = .joined → s.u.reaped = some code ∧ s.u.child = .exited code ∧
    (s.u.outEof = true ∨ s.u.pOutR = false) ∧ (s.u.errEof = true ∨ s.u.pErrR = false)

theorem GInvA.init (cap mask : Nat) (P : List Nat) (prog : List CAct) (code : Nat) :
    GInvA mask code (G.init cap mask P prog code) := by
  constructor <;> simp [G.init, U.init]

theorem GInvA.step {mask code : Nat} {s s' : G} (h : GInvA mask code s) (hs : GStep s s') : GInvA mask code s' := by
  obtain ⟨h1, h2, h3, h4, h5, h6, h7, h8, h9, h10, h11, h12⟩ := h
  cases hs <;> constructor <;> simp_all <;> grind

@[simp] theorem take_append_drop_append (k : Nat) (d x : List Nat) : d.take k ++ (d.drop k ++ x) = d ++ x := by
  rw [← List.append_assoc, List.take_append_drop]

structure GInvB (mask : Nat) (P : List Nat) (prog0 : List CAct) (s : G) : Prop where
  inB : s.u.sentIn ++ s.toSend = P
  outB : s.u.sentOut ++ (if s.u.cOutW = true then outData s.prog else []) = (if bit mask 1 = true then outData prog0 else [])
  errB : s.u.sentErr ++ (if s.u.cErrW = true then errData s.prog else []) = (if bit mask 2 = true then errData prog0 else [])
  outBudget : s.u.cInR = true → s.u.inEof = false →
    s.u.sentOut.length + outBytes (inputPhase s.prog) ≤ outBytes (inputPhase prog0)
  errBudget : s.u.cInR = true → s.u.inEof = false →
    s.u.sentErr.length + errBytes (inputPhase s.prog) ≤ errBytes (inputPhase prog0)

theorem GInvB.init (cap mask : Nat) (P : List Nat) (prog : List CAct) (code : Nat) :
    GInvB mask P prog (G.init cap mask P prog code) := by
  constructor <;> first | rfl | simp [G.init, U.init]

theorem GInvB.step {mask : Nat} {P : List Nat} {prog0 : List CAct} {s s' : G}
    (h : GInvB mask P prog0 s) (ho : s.u.cOutW = true → s.u.pOutR = true) (he : s.u.cErrW = true → s.u.pErrR = true)
    (hs : GStep s s') : GInvB mask P prog0 s' := by
  obtain ⟨h1, h2, h3, h4, h5⟩ := h
  cases hs <;> constructor <;> simp_all [outData, errData, inputPhase, outBytes, errBytes] <;> grind

def GInvC (P : List Nat) (s : G) : Prop :=
  (wantsAll s.prog = true ∧ s.u.cInR = true ∧ s.stopped = false) ∨ s.u.gotIn = P

theorem GInvC.step {P : List Nat} {s s' : G} (h : GInvC P s)
    (hfifo : s.u.sentIn = s.u.gotIn ++ s.u.inQ) (hinB : s.u.sentIn ++ s.toSend = P)
    (hclosed : s.u.pInW = false → s.toSend = [] ∨ s.stopped = true)
    (ho : s.u.cOutW = true → s.u.pOutR = true) (he : s.u.cErrW = true → s.u.pErrR = true)
    (hs : GStep s s') : GInvC P s' := by
  have hfull : s.u.gotIn = P → s.u.inQ = [] := by
    intro e
    have := congrArg List.length hinB
    rw [hfifo, e] at this
    simp only [List.length_append] at this
    exact List.eq_nil_of_length_eq_zero (by omega)
  unfold GInvC at *
  cases hs <;> simp_all [wantsAll] <;> grind

structure GInv (cap mask : Nat) (P : List Nat) (prog0 : List CAct) (code : Nat) (s : G) : Prop where
  u : UInv cap s.u
  a : GInvA mask code s
  b : GInvB mask P prog0 s
  c : bit mask 4 = true → wantsAll prog0 = true → GInvC P s

theorem GInvA.writers {mask code : Nat} {s : G} (h : GInvA mask code s) :
    (s.u.cOutW = true → s.u.pOutR = true) ∧ (s.u.cErrW = true → s.u.pErrR = true) :=
  ⟨fun e => by rw [h.pOutR_eq]; exact h.cOutW_red e, fun e => by rw [h.pErrR_eq]; exact h.cErrW_red e⟩

theorem GInv.init (cap mask : Nat) (P : List Nat) (prog : List CAct) (code : Nat) :
    GInv cap mask P prog code (G.init cap mask P prog code) :=
  ⟨UInv.init cap mask, GInvA.init cap mask P prog code, GInvB.init cap mask P prog code,
    fun hm hw => .inl ⟨hw, hm, rfl⟩⟩

theorem GInv.step {cap mask : Nat} {P : List Nat} {prog0 : List CAct} {code : Nat} {s s' : G}
    (h : GInv cap mask P prog0 code s) (hs : GStep s s') : GInv cap mask P prog0 code s' := by
  obtain ⟨hu, ha, hb, hc⟩ := h
  obtain ⟨wo, we⟩ := ha.writers
  refine ⟨?_, ha.step hs, hb.step wo we hs, fun hm hw => (hc hm hw).step hu.fifoIn hb.inB ?_ wo we hs⟩
  · rcases hs.refines with r | r
    · exact hu.step r
    · rw [r]; exact hu
  · intro hp
    by_cases hw : s.pPhase = .writing
    · have := ha.open_in hw
      rw [hm, hp] at this; cases this
    · exact ha.sent_all hw

theorem GInv.reach {cap mask : Nat} {P : List Nat} {prog : List CAct} {code : Nat} {s : G}
    (h : GReach (G.init cap mask P prog code) s) : GInv cap mask P prog code s := by
  induction h with
  | init => exact GInv.init cap mask P prog code
  | step _ hs ih => exact ih.step hs

/-- every step strictly decreases the measure: every run is finite -/
theorem gstep_decreases {s s' : G} (hs : GStep s s') : s'.measure < s.measure := by
  cases hs <;>
    simp_all [G.measure, progCost, actCost, Kernel.pRank, Kernel.b2n, childRank, List.length_take, List.length_drop] <;>
    omega

theorem GReachN.reach {s0 s : G} {n : Nat} (h : GReachN s0 n s) : GReach s0 s := by
  induction h with
  | init => exact .init
  | step _ hs ih => exact .step ih hs

theorem GReachN.bound {s0 s : G} {n : Nat} (h : GReachN s0 n s) : n + s.measure ≤ s0.measure := by
  induction h with
  | init => simp
  | step _ hs ih => have := gstep_decreases hs; omega

theorem pos_of_ne_nil {l : List Nat} (h : l ≠ []) : 0 < l.length := by
  cases l with
  | nil => exact absurd rfl h
  | cons _ _ => simp

/-- the parent in phase writing: it can move, or its write is blocked on a full pipe whose read end the child holds -/
theorem parent_writing {s : G} (hp : s.pPhase = .writing) :
    (∃ s', GStep s s') ∨
    (s.stopped = false ∧ s.toSend ≠ [] ∧ s.u.pInW = true ∧ s.u.cInR = true ∧ s.u.cap ≤ s.u.inQ.length) := by
  by_cases hts : s.toSend = []
  · exact .inl ⟨_, GStep.pClose s hp (.inl hts)⟩
  · cases hst : s.stopped with
    | true => exact .inl ⟨_, GStep.pClose s hp (.inr hst)⟩
    | false =>
      cases hw : s.u.pInW with
      | false => exact .inl ⟨_, GStep.pWriteNoPipe s hp hst hts hw⟩
      | true =>
        cases hr : s.u.cInR with
        | false => exact .inl ⟨_, GStep.pWriteFail s hp hst hts hw hr⟩
        | true =>
          by_cases hfull : s.u.inQ.length < s.u.cap
          · exact .inl ⟨_, GStep.pWrite s 1 hp hst hw hr (by omega) (pos_of_ne_nil hts) (by omega)⟩
          · exact .inr ⟨rfl, hts, rfl, rfl, by omega⟩

/-- a blocked parent write is impossible when the payload fits the pipe -/
theorem blocked_small {cap mask : Nat} {P : List Nat} {prog0 : List CAct} {code : Nat} {s : G}
    (h : GInv cap mask P prog0 code s) (hP : P.length ≤ cap) (hts : s.toSend ≠ []) (hf : s.u.cap ≤ s.u.inQ.length) : False := by
  have h1 := congrArg List.length h.b.inB
  rw [h.u.fifoIn] at h1
  simp only [List.length_append] at h1
  have h2 := pos_of_ne_nil hts
  have h3 := h.u.cap_eq
  omega

/-- the parent in phase draining, the child has released the stdout write end: the parent can move or is done with stdout -/
theorem drain_out {s : G} (hp : s.pPhase = .draining) (hw : s.u.cOutW = false) :
    (∃ s', GStep s s') ∨ (s.u.outEof = true ∨ s.u.pOutR = false) := by
  cases hr : s.u.pOutR with
  | false => exact .inr (.inr rfl)
  | true =>
    by_cases hq : s.u.outQ = []
    · cases he : s.u.outEof with
      | true => exact .inr (.inl rfl)
      | false => exact .inl ⟨_, GStep.pEofOut s hp hr he hq hw⟩
    · exact .inl ⟨_, GStep.pReadOut s 1 hp hr (by omega) (pos_of_ne_nil hq)⟩

theorem drain_err {s : G} (hp : s.pPhase = .draining) (hw : s.u.cErrW = false) :
    (∃ s', GStep s s') ∨ (s.u.errEof = true ∨ s.u.pErrR = false) := by
  cases hr : s.u.pErrR with
  | false => exact .inr (.inr rfl)
  | true =>
    by_cases hq : s.u.errQ = []
    · cases he : s.u.errEof with
      | true => exact .inr (.inl rfl)
      | false => exact .inl ⟨_, GStep.pEofErr s hp hr he hq hw⟩
    · exact .inl ⟨_, GStep.pReadErr s 1 hp hr (by omega) (pos_of_ne_nil hq)⟩

/-- the hypothesis of the no-deadlock theorem: the payload fits the stdin pipe, or what the child writes in its
    input phase fits the stdout and the stderr pipe -/
def Fits (cap : Nat) (P : List Nat) (prog : List CAct) : Prop :=
  P.length ≤ cap ∨ (outBytes (inputPhase prog) ≤ cap ∧ errBytes (inputPhase prog) ≤ cap)

/-- the child reads (or waits for end-of-file on) an empty stdin pipe whose write end the parent holds: the parent can move -/
theorem feed {cap mask : Nat} {P : List Nat} {prog0 : List CAct} {code : Nat} {s : G}
    (h : GInv cap mask P prog0 code s) (hcap : 0 < cap) (hq : s.u.inQ = []) (hw : s.u.pInW = true) : ∃ s', GStep s s' := by
  have hp : s.pPhase = .writing := by
    by_cases e : s.pPhase = .writing
    · exact e
    · have := h.a.closed_in e; rw [hw] at this; cases this
  rcases parent_writing hp with r | ⟨_, _, _, _, hf⟩
  · exact r
  · have := h.u.cap_eq
    rw [hq] at hf; simp at hf; omega

/-- the child's write is blocked on a full stdout pipe: the parent can move -/
theorem unblock_out {cap mask : Nat} {P : List Nat} {prog0 : List CAct} {code : Nat} {s : G}
    (h : GInv cap mask P prog0 code s) (hcap : 0 < cap) (hF : Fits cap P prog0) (hj : s.pPhase ≠ .joined)
    {d : List Nat} {r : List CAct} (hprog : s.prog = .writeOut d :: r) (hd : d ≠ []) (hw : s.u.cOutW = true)
    (hfull : s.u.cap ≤ s.u.outQ.length) : ∃ s', GStep s s' := by
  have hc := h.u.cap_eq
  have hr := h.a.writers.1 hw
  cases hp : s.pPhase with
  | joined => exact absurd hp hj
  | draining => exact ⟨_, GStep.pReadOut s 1 hp hr (by omega) (by omega)⟩
  | writing =>
    rcases parent_writing hp with r | ⟨_, hts, hpw, hcr, hf⟩
    · exact r
    · rcases hF with hP | ⟨hO, _⟩
      · exact (blocked_small h hP hts hf).elim
      · have he : s.u.inEof = false := by
          cases e : s.u.inEof with
          | false => rfl
          | true => have := (h.u.eofIn e).2; rw [hpw] at this; cases this
        have hb := h.b.outBudget hcr he
        rw [hprog] at hb
        simp only [inputPhase, outBytes] at hb
        have h1 := congrArg List.length h.u.fifoOut
        simp only [List.length_append] at h1
        have h2 := pos_of_ne_nil hd
        omega

theorem unblock_err {cap mask : Nat} {P : List Nat} {prog0 : List CAct} {code : Nat} {s : G}
    (h : GInv cap mask P prog0 code s) (hcap : 0 < cap) (hF : Fits cap P prog0) (hj : s.pPhase ≠ .joined)
    {d : List Nat} {r : List CAct} (hprog : s.prog = .writeErr d :: r) (hd : d ≠ []) (hw : s.u.cErrW = true)
    (hfull : s.u.cap ≤ s.u.errQ.length) : ∃ s', GStep s s' := by
  have hc := h.u.cap_eq
  have hr := h.a.writers.2 hw
  cases hp : s.pPhase with
  | joined => exact absurd hp hj
  | draining => exact ⟨_, GStep.pReadErr s 1 hp hr (by omega) (by omega)⟩
  | writing =>
    rcases parent_writing hp with r | ⟨_, hts, hpw, hcr, hf⟩
    · exact r
    · rcases hF with hP | ⟨_, hE⟩
      · exact (blocked_small h hP hts hf).elim
      · have he : s.u.inEof = false := by
          cases e : s.u.inEof with
          | false => rfl
          | true => have := (h.u.eofIn e).2; rw [hpw] at this; cases this
        have hb := h.b.errBudget hcr he
        rw [hprog] at hb
        simp only [inputPhase, errBytes] at hb
        have h1 := congrArg List.length h.u.fifoErr
        simp only [List.length_append] at h1
        have h2 := pos_of_ne_nil hd
        omega

/-- no deadlock: as long as `join` has not returned, some process can take a step -/
theorem gprogress {cap mask : Nat} {P : List Nat} {prog0 : List CAct} {code : Nat} {s : G}
    (h : GInv cap mask P prog0 code s) (hcap : 0 < cap) (hF : Fits cap P prog0) (hj : s.pPhase ≠ .joined) :
    ∃ s', GStep s s' := by
  rcases h.a.alive with hrun | ⟨hnil, hex⟩
  · cases hprog : s.prog with
    | nil => exact ⟨_, GStep.cExit s hrun hprog⟩
    | cons a r =>
      cases a with
      | closeIn => exact ⟨_, GStep.cCloseIn s r hrun hprog⟩
      | closeOut => exact ⟨_, GStep.cCloseOut s r hrun hprog⟩
      | closeErr => exact ⟨_, GStep.cCloseErr s r hrun hprog⟩
      | readIn n =>
        cases hr : s.u.cInR with
        | false => exact ⟨_, GStep.cReadInSkip s n r hrun hprog (.inl hr)⟩
        | true =>
          by_cases hn : n = 0
          · exact ⟨_, GStep.cReadInSkip s n r hrun hprog (.inr hn)⟩
          · by_cases hq : s.u.inQ = []
            · cases hw : s.u.pInW with
              | false => exact ⟨_, GStep.cReadInEof s n r hrun hprog hr (by omega) hq hw⟩
              | true => exact feed h hcap hq hw
            · exact ⟨_, GStep.cReadIn s n r 1 hrun hprog hr (by omega) (by omega) (pos_of_ne_nil hq)⟩
      | readAll =>
        cases hr : s.u.cInR with
        | false => exact ⟨_, GStep.cReadAllSkip s r hrun hprog hr⟩
        | true =>
          by_cases hq : s.u.inQ = []
          · cases hw : s.u.pInW with
            | false => exact ⟨_, GStep.cReadAllEof s r hrun hprog hr hq hw⟩
            | true => exact feed h hcap hq hw
          · exact ⟨_, GStep.cReadAll s r 1 hrun hprog hr (by omega) (pos_of_ne_nil hq)⟩
      | writeOut d =>
        cases hw : s.u.cOutW with
        | false => exact ⟨_, GStep.cWriteOutSkip s d r hrun hprog hw⟩
        | true =>
          by_cases hd : d = []
          · subst hd; exact ⟨_, GStep.cWriteOutDone s r hrun hprog⟩
          · by_cases hfull : s.u.outQ.length < s.u.cap
            · exact ⟨_, GStep.cWriteOut s d r 1 hrun hprog hw (h.a.writers.1 hw) (by omega) (pos_of_ne_nil hd) (by omega)⟩
            · exact unblock_out h hcap hF hj hprog hd hw (by omega)
      | writeErr d =>
        cases hw : s.u.cErrW with
        | false => exact ⟨_, GStep.cWriteErrSkip s d r hrun hprog hw⟩
        | true =>
          by_cases hd : d = []
          · subst hd; exact ⟨_, GStep.cWriteErrDone s r hrun hprog⟩
          · by_cases hfull : s.u.errQ.length < s.u.cap
            · exact ⟨_, GStep.cWriteErr s d r 1 hrun hprog hw (h.a.writers.2 hw) (by omega) (pos_of_ne_nil hd) (by omega)⟩
            · exact unblock_err h hcap hF hj hprog hd hw (by omega)
  · obtain ⟨hci, hco, hce⟩ := h.u.dead (by rw [hex]; simp)
    cases hp : s.pPhase with
    | joined => exact absurd hp hj
    | writing =>
      rcases parent_writing hp with r | ⟨_, _, _, hcr, _⟩
      · exact r
      · rw [hci] at hcr; cases hcr
    | draining =>
      rcases drain_out hp hco with r | ho
      · exact r
      · rcases drain_err hp hce with r | he
        · exact r
        · exact ⟨_, GStep.pJoin s code hp ho he hex (h.a.not_reaped hj)⟩

/-- what has arrived when `join` has returned -/
theorem gdelivered {cap mask : Nat} {P : List Nat} {prog0 : List CAct} {code : Nat} {s : G}
    (h : GInv cap mask P prog0 code s) (hj : s.pPhase = .joined) :
    s.u.reaped = some code ∧ s.u.child = .exited code ∧
    s.u.gotOut = (if bit mask 1 = true then outData prog0 else []) ∧
    s.u.gotErr = (if bit mask 2 = true then errData prog0 else []) ∧
    (bit mask 4 = true → wantsAll prog0 = true → s.u.gotIn = P) := by
  obtain ⟨hr, hex, ho, he⟩ := h.a.joined hj
  obtain ⟨hci, hco, hce⟩ := h.u.dead (by rw [hex]; simp)
  have hob := h.b.outB
  have heb := h.b.errB
  rw [hco] at hob
  rw [hce] at heb
  simp only [Bool.false_eq_true, if_false, List.append_nil] at hob heb
  refine ⟨hr, hex, ?_, ?_, fun hm hw => ?_⟩
  · rcases ho with ho | ho
    · have hq := (h.u.eofOut ho).1
      have := h.u.fifoOut
      rw [hq, List.append_nil] at this
      rw [← this, hob]
    · have hb : bit mask 1 = false := by rw [← h.a.pOutR_eq]; exact ho
      rw [hb] at hob ⊢
      simp only [Bool.false_eq_true, if_false] at hob ⊢
      have := h.u.fifoOut
      rw [hob] at this
      exact (List.append_eq_nil_iff.mp this.symm).1
  · rcases he with he | he
    · have hq := (h.u.eofErr he).1
      have := h.u.fifoErr
      rw [hq, List.append_nil] at this
      rw [← this, heb]
    · have hb : bit mask 2 = false := by rw [← h.a.pErrR_eq]; exact he
      rw [hb] at heb ⊢
      simp only [Bool.false_eq_true, if_false] at heb ⊢
      have := h.u.fifoErr
      rw [heb] at this
      exact (List.append_eq_nil_iff.mp this.symm).1
  · rcases h.c hm hw with ⟨_, hc, _⟩ | hg
    · rw [hci] at hc; cases hc
    · exact hg

/-- what the child has read is always a prefix of the payload -/
theorem gprefix {cap mask : Nat} {P : List Nat} {prog0 : List CAct} {code : Nat} {s : G}
    (h : GInv cap mask P prog0 code s) : s.u.gotIn ++ (s.u.inQ ++ s.toSend) = P := by
  have := h.b.inB
  rw [h.u.fifoIn, List.append_assoc] at this
  exact this

theorem G.init_measure (cap mask : Nat) (P : List Nat) (prog : List CAct) (code : Nat) :
    (G.init cap mask P prog code).measure = 2 * P.length + progCost prog + 6 := by
  simp [G.measure, G.init, U.init, Kernel.pRank, Kernel.b2n, childRank]

/-- from every reachable state a state in which `join` has returned can be reached (by any maximal run) -/
theorem exists_joined {cap mask : Nat} {P : List Nat} {prog : List CAct} {code : Nat} (hcap : 0 < cap)
    (hF : Fits cap P prog) : ∀ (m : Nat) (s : G), s.measure ≤ m → GReach (G.init cap mask P prog code) s →
    ∃ s', GReach (G.init cap mask P prog code) s' ∧ s'.pPhase = .joined := by
  intro m
  induction m with
  | zero =>
    intro s hm hr
    by_cases hj : s.pPhase = .joined
    · exact ⟨s, hr, hj⟩
    · obtain ⟨s', hs⟩ := gprogress (GInv.reach hr) hcap hF hj
      have := gstep_decreases hs
      omega
  | succ m ih =>
    intro s hm hr
    by_cases hj : s.pPhase = .joined
    · exact ⟨s, hr, hj⟩
    · obtain ⟨s', hs⟩ := gprogress (GInv.reach hr) hcap hF hj
      have := gstep_decreases hs
      exact ih s' (by omega) (.step hr hs)

end Nstd.Args.Pipes
