import Nstd.Args.Wait
/-
  Invariants of the wait/interrupt/join system (Nstd/Args/Wait.lean) and the lemmas behind PropsWait.lean.
-/
namespace Nstd.Args.Wait

structure Inv (s : St) : Prop where
  objOk : ∀ i, (s.objs i).1 ≠ 0 → ∃ st, s.procs (s.objs i).1 = some ((s.objs i).2, st)
  objInj : ∀ i j, (s.objs i).1 ≠ 0 → (s.objs i).1 = (s.objs j).1 → i = j
  sigOk : ∀ p, s.sig = .pid p → p ≠ 0 ∧ ∃ st, s.procs p = some (s.dcid, some st)
  sigDisj : ∀ p i, s.sig = .pid p → (s.objs i).1 ≠ p
  held : ∀ p c st, s.procs p = some (c, st) → p ≠ 0 ∧ ((∃ i, (s.objs i).1 = p) ∨ s.sig = .pid p)
  pidsOk : ∀ p, s.procs p ≠ none → p ∈ s.pids
  cidLt : ∀ p c st, s.procs p = some (c, st) → c < s.nextCid
  cidInj : ∀ p q c st st', s.procs p = some (c, st) → s.procs q = some (c, st') → p = q
  reapedLt : ∀ c ∈ s.reaped, c < s.nextCid
  reapedDead : ∀ c ∈ s.reaped, ∀ p st, s.procs p ≠ some (c, st)
  reapedNodup : s.reaped.Nodup
  cidCover : ∀ c, c < s.nextCid → (∃ p st, s.procs p = some (c, st)) ∨ c ∈ s.reaped
  noMis : s.mismatch = false
  postOk : ∀ l pid, s.pc = .post l pid → ∃ c st, s.procs pid = some (c, some st)
  condOk : s.pc = .cond → s.waitState = 1 ∧ ∀ p, s.sig ≠ .pid p
  waitidOk : ∀ l, s.pc = .inWaitid l → s.waitState = 2 ∧ s.sig ≠ .minus

theorem ex_some {α : Type} (o : Option α) (h : o.isSome = true) : ∃ x, o = some x := by
  cases o with
  | none => simp at h
  | some x => exact ⟨x, rfl⟩

theorem Inv.init : Inv St.init := by
  constructor <;> simp [St.init]

theorem upd_same {β : Type} (f : Nat → β) (a : Nat) (b : β) : upd f a b a = b := by simp [upd]
theorem upd_other {β : Type} (f : Nat → β) (a x : Nat) (b : β) (h : x ≠ a) : upd f a b x = f x := by simp [upd, h]

theorem Inv.start {s s' : St} (h : Inv s) (i p : Nat) (hs : start s i p = some s') : Inv s' := by
  unfold Wait.start at hs
  split at hs
  · rename_i hc
    obtain ⟨hpc, hi0, hp0, hfree⟩ := hc
    cases hs
    -- no object and not the dummy holds p
    have hnoobj : ∀ j, (s.objs j).1 ≠ p := by
      intro j hj
      have := h.objOk j (by rw [hj]; exact hp0)
      rw [hj, hfree] at this; simp at this
    have hnosig : s.sig ≠ .pid p := by
      intro hsg; have := (h.sigOk p hsg).2; rw [hfree] at this; simp at this
    constructor
    case objOk =>
      intro j hj
      by_cases hji : j = i
      · subst hji; simp [upd]
      · simp only [upd, hji, if_false] at hj ⊢
        have hne := hnoobj j
        simp only [hne, if_false]
        exact h.objOk j hj
    case cidCover =>
      intro c hc
      by_cases hcn : c = s.nextCid
      · left; exact ⟨p, none, by simp [upd, hcn]⟩
      · rcases h.cidCover c (by show c < s.nextCid; have : c < s.nextCid + 1 := hc; omega) with ⟨q, st, hq⟩ | hr
        · left; refine ⟨q, st, ?_⟩
          have hqp : q ≠ p := by intro e; subst e; rw [hfree] at hq; cases hq
          simp only [upd, hqp, if_false]; exact hq
        · right; exact hr
    all_goals (simp only [upd] <;> grind [Inv])
  · cases hs

theorem Inv.childExit {s s' : St} (h : Inv s) (p st : Nat) (hs : childExit s p st = some s') : Inv s' := by
  unfold Wait.childExit at hs
  split at hs
  · rename_i c hpc
    cases hs
    constructor <;> simp only [upd] <;> grind [Inv]
  · cases hs

theorem Inv.join {s s' : St} (h : Inv s) (i c : Nat) (hs : join s i = some (s', c)) : Inv s' := by
  unfold Wait.join at hs
  split at hs
  · rename_i hc
    split at hs
    · rename_i c' st hp
      cases hs
      have hcc : c' = (s.objs i).2 := by
        obtain ⟨st', hst'⟩ := h.objOk i hc.2
        rw [hp] at hst'; simp at hst'; exact hst'.1
      constructor <;> simp only [upd] <;> grind [Inv]
    · cases hs
  · cases hs

theorem Inv.kill {s s' : St} (h : Inv s) (i : Nat) (hs : kill s i = some s') : Inv s' := by
  unfold Wait.kill at hs
  split at hs
  · rename_i hc
    split at hs
    · rename_i c' st hp
      cases hs
      have hcc : c' = (s.objs i).2 := by
        obtain ⟨st', hst'⟩ := h.objOk i hc.2
        rw [hp] at hst'; simp at hst'; exact hst'.1
      constructor <;> simp only [upd] <;> grind [Inv]
    · cases hs
  · cases hs

theorem Inv.interrupt {s s' : St} (h : Inv s) (p : Nat) (hs : interrupt s p = some s') : Inv s' := by
  unfold Wait.interrupt at hs
  split at hs
  · rename_i hz
    split at hs
    · rename_i hw
      split at hs
      · rename_i hc
        cases hs
        have hsig : ∀ q, Sig.pid p = Sig.pid q → q ≠ 0 ∧ ∃ st, upd s.procs p (some (s.nextCid, some 0)) q = some (s.nextCid, some st) := by
          intro q hq; cases hq; exact ⟨hc.1, 0, by simp [upd]⟩
        constructor
        case sigOk => exact hsig
        all_goals (simp only [upd] <;> grind [Inv])
      · cases hs
    · rename_i hw
      cases hs
      constructor <;> grind [Inv]
  · cases hs; exact h

theorem Inv.waitCall {s s' : St} (h : Inv s) (l : List Nat) (hs : waitCall s l = some s') : Inv s' := by
  unfold Wait.waitCall at hs
  split at hs
  · cases hs; constructor <;> grind [Inv]
  · cases hs

/-- reaping the dummy child in a state where `sig = .pid p` -/
theorem reapDummy_eq {s : St} (h : Inv s) (p : Nat) (hp : s.sig = .pid p) :
    ∃ st, s.procs p = some (s.dcid, some st) ∧
      reapDummy s p = { s with procs := upd s.procs p none, sig := .zero, reaped := s.dcid :: s.reaped } := by
  obtain ⟨_, st, hst⟩ := h.sigOk p hp
  refine ⟨st, hst, ?_⟩
  unfold reapDummy
  rw [hst]
  simp [h.noMis]

theorem Inv.waiter {s s' : St} (h : Inv s) (pick : Nat) (hs : waiterStep s pick = some s') : Inv s' := by
  unfold waiterStep at hs
  split at hs
  · cases hs
  · -- entry
    rename_i l hpc
    split at hs
    · split at hs <;> (cases hs; constructor <;> grind [Inv])
    · cases hs; constructor <;> grind [Inv]
    · rename_i p hp
      obtain ⟨st, hst, he⟩ := reapDummy_eq h p hp
      rw [he] at hs
      cases hs
      constructor <;> simp only [upd] <;> grind [Inv]
  · -- cond
    split at hs
    · cases hs; constructor <;> grind [Inv]
    · cases hs
  · -- inWaitid
    rename_i l hpc
    split at hs
    · cases hs; constructor <;> grind [Inv]
    · split at hs
      · rename_i c st hp
        cases hs
        constructor <;> grind [Inv]
      · cases hs
  · -- post
    rename_i l pid hpc
    split at hs
    · cases hs; constructor <;> grind [Inv]
    · split at hs
      · rename_i hp
        obtain ⟨st, hst, he⟩ := reapDummy_eq h pid hp
        rw [he] at hs
        cases hs
        constructor <;> simp only [upd] <;> grind [Inv]
      · cases hs; constructor <;> grind [Inv]

theorem Inv.step {s s' : St} (h : Inv s) (hs : Step s s') : Inv s' := by
  cases hs with
  | start i p e => exact h.start i p e
  | childExit p st e => exact h.childExit p st e
  | join i c e => exact h.join i c e
  | kill i e => exact h.kill i e
  | interrupt p e => exact h.interrupt p e
  | waitCall l e => exact h.waitCall l e
  | waiter pick e => exact h.waiter pick e

theorem Inv.reach {s : St} (h : Reach s) : Inv s := by
  induction h with
  | init => exact Inv.init
  | step _ hs ih => exact ih.step hs

end Nstd.Args.Wait
