/-
  Tie by translation, property C20: `Process::read(void* buffer, usize length, uint& streams)` (POSIX branch), translated by
  tools/gen_args.py from the CURRENT src/Process.cpp into Nstd/Generated/ArgsSel.lean, IS the hand-written model `ReadSel.read3`
  that the theorems of PropsRead.lean speak about -- for every object, request, length and `select` oracle.
  Assumed: the semantics of the translated subset and of `select` / `::read` (CSemSel.lean = the assumed kernel of ReadSel.lean).
-/
import Nstd.Generated.ArgsSel
import Nstd.Args.PropsProc
import Nstd.Args.PropsRead

set_option linter.unusedSimpArgs false

namespace Nstd.Args.Tie
open Nstd.Args Nstd.Args.C Nstd.Args.ReadSel

/-- agreement of a result of the translated function with a result of the model (`s0` = the object before the call) -/
def AgreeSel (s0 : GenS.RD) : Option (Ctl GenS.RD Int) → ReadSel.Res → Prop
  | some (.ret v s'), .einval => v = -1 ∧ s'.errno = EINVAL ∧ s'.kr = s0.kr ∧ s'.streams = s0.streams
  | some (.ret v _), .blocked => v = blockedCode
  | some (.ret v _), .hang => v = hangCode
  | some (.ret v s'), .minus1 => v = -1 ∧ s'.kr = s0.kr
  | some (.ret v s'), .got st b kr' =>
    v = (b.length : Int) ∧ s'.streams = st ∧ s'.buffer = b ∧ s'.kr = kr' ∧
      s'.fdStdOutRead = s0.fdStdOutRead ∧ s'.fdStdErrRead = s0.fdStdErrRead
  | _, _ => False

theorem rbit_one (n : Nat) : (n &&& 1 = 0) ↔ ReadSel.bit n 1 = false := by
  have := and_pow_zero n 0
  simp only [Nat.pow_zero, Nat.div_one] at this
  unfold ReadSel.bit; rw [Nat.div_one]; exact this

theorem rbit_two (n : Nat) : (n &&& 2 = 0) ↔ ReadSel.bit n 2 = false := by
  have := and_pow_zero n 1
  simp only [Nat.pow_one] at this
  unfold ReadSel.bit; exact this

/-- does the loop reach a `select` that returns with a readable examined descriptor -/
def scan (kr : RS) (streams nfds : Nat) : List Ev → Bool
  | [] => false
  | .timeout :: r => scan kr streams nfds r
  | .eintr :: r => scan kr streams nfds r
  | .ready :: _ => examinedReady kr nfds (arm kr streams)

theorem selectLoop_scan (kr : RS) (length streams nfds : Nat) (evs : List Ev) :
    selectLoop kr length streams nfds evs =
      if scan kr streams nfds evs then afterSelect kr length streams (selected kr nfds (arm kr streams)) else .blocked := by
  induction evs with
  | nil => rfl
  | cons e r ih => cases e <;> simp only [selectLoop, scan] <;> first | exact ih | rfl

theorem readyCount_pos (kr : RS) (n : Nat) (set : List Nat) (h : examinedReady kr n set = true) :
    0 < readyCount kr n set := by
  unfold examinedReady at h
  unfold readyCount
  rw [List.any_eq_true] at h
  obtain ⟨x, hx, hp⟩ := h
  exact List.length_pos_of_mem (List.mem_filter.mpr ⟨hx, hp⟩)

/-- the set the loop body arms is the model's `arm` -/
theorem armed_eq (kr : RS) (sm : Nat) :
    ((if sm &&& 1 = 0 then ([] : List Nat) else if kr.fdOut = 0 then [] else [] ++ [kr.fdOut]) ++
      (if sm &&& 2 = 0 then [] else if kr.fdErr = 0 then [] else [kr.fdErr])) = arm kr sm := by
  unfold arm wantOut wantErr
  simp only [rbit_one, rbit_two]
  cases ReadSel.bit sm 1 <;> cases ReadSel.bit sm 2 <;> by_cases ho : kr.fdOut = 0 <;> by_cases he : kr.fdErr = 0 <;> simp [ho, he]

/-- the loop body up to the call of `select`: the set is armed as the model's `arm` says -/
theorem body_armed (E : Env) (f : Nat) (k : RS) (fi pid ln st : Nat) (fdr : List Nat) (mx : Int) (tv : Nat) (i : Int) (en : Nat)
    (buf : List Nat) (ev : List Ev) :
    GenS.read3_body1 E f ⟨k.fdOut, k.fdErr, fi, pid, ln, st, fdr, mx, tv, i, en, buf, k, ev⟩ =
      GenS.read3_b3 E f ⟨k.fdOut, k.fdErr, fi, pid, ln, st, arm k st, mx, tv, i, en, buf, k, ev⟩ := by
  rw [← armed_eq k st]
  simp only [GenS.read3_body1, GenS.read3_b4]
  by_cases c1 : st &&& 1 = 0 <;> by_cases c2 : st &&& 2 = 0 <;> by_cases ho : k.fdOut = 0 <;> by_cases he : k.fdErr = 0 <;>
    simp only [c1, c2, ho, he, if_true, if_false, List.nil_append, List.append_nil, List.cons_append]

/-- the loop: it either never returns from `select` (result code `blockedCode`) or leaves with the set `selected .. (arm ..)`;
    members, parameters and the kernel are untouched -/
theorem loop_spec (E : Env) (kr : RS) (sm len M : Nat) :
    ∀ (evs : List Ev) (f : Nat) (s : GenS.RD), s.evs = evs → s.kr = kr → s.fdStdOutRead = kr.fdOut → s.fdStdErrRead = kr.fdErr →
      s.streams = sm → s.length = len → s.maxFd = (M : Int) → evs.length < f →
      if scan kr sm (M + 1) evs then
        ∃ s', GenS.read3_loop1 E f s = some (.next s') ∧ s'.fdr = selected kr (M + 1) (arm kr sm) ∧ s'.kr = kr ∧
          s'.fdStdOutRead = kr.fdOut ∧ s'.fdStdErrRead = kr.fdErr ∧ s'.streams = sm ∧ s'.length = len
      else ∃ s', GenS.read3_loop1 E f s = some (.ret blockedCode s') := by
  intro evs
  induction evs with
  | nil =>
    intro f s h1 h2 h3 h4 h5 h6 h7 hf
    obtain ⟨fo, fe, fi, pid, ln, st, fdr, mx, tv, i, en, buf, k, ev⟩ := s
    simp only at h1 h2 h3 h4 h5 h6 h7
    subst h1 h2 h3 h4 h5 h6 h7
    match f, hf with
    | f + 1, _ =>
      simp only [scan, Bool.false_eq_true, if_false, GenS.read3_loop1, body_armed, GenS.read3_b3, sysSelect]
      exact ⟨_, rfl⟩
  | cons e r ih =>
    intro f s h1 h2 h3 h4 h5 h6 h7 hf
    obtain ⟨fo, fe, fi, pid, ln, st, fdr, mx, tv, i, en, buf, k, ev⟩ := s
    simp only at h1 h2 h3 h4 h5 h6 h7
    subst h1 h2 h3 h4 h5 h6 h7
    match f, hf with
    | f + 1, hf =>
      have hf' : r.length < f := by simp at hf; omega
      have hn : ((M : Int) + 1).toNat = M + 1 := by omega
      simp only [GenS.read3_loop1, body_armed, GenS.read3_b3, GenS.read3_b2, sysSelect, hn]
      cases e with
      | timeout =>
        simp only [scan, if_true]
        exact ih f _ rfl rfl rfl rfl rfl rfl rfl hf'
      | eintr =>
        simp only [scan, Option.getD_some, show ((-1 : Int) = 0) = False by simp, if_false, if_true]
        exact ih f _ rfl rfl rfl rfl rfl rfl rfl hf'
      | ready =>
        simp only [scan]
        by_cases hr : examinedReady k (M + 1) (arm k st) = true
        · have hp := readyCount_pos k (M + 1) (arm k st) hr
          have h0 : ¬ ((readyCount k (M + 1) (arm k st) : Int) = 0) := by omega
          have h1 : ¬ ((readyCount k (M + 1) (arm k st) : Int) = -1) := by omega
          simp only [hr, if_true, Option.getD_none, h0, h1, if_false]
          exact ⟨_, rfl, rfl, rfl, rfl, rfl, rfl, rfl⟩
        · simp only [hr, Bool.false_eq_true, if_false]
          exact ⟨_, rfl⟩

/-- `read(buffer, length, streams)` as translated is the model's `read3`: for every object whose two descriptor members are
    the kernel's read ends (distinct: `Wf`), every request mask, length, every `select` oracle and every fuel above its length:
    EINVAL ↔ EINVAL, never-returning `select` ↔ `blocked`, a `::read` that would block ↔ `hang`, -1 ↔ `minus1`, and a
    delivery of the same bytes from the same stream (`streams` set to it) with the same kernel state afterwards -/
theorem translated_read3_eq_model (E : Env) (s : GenS.RD) (f : Nat) (ho : s.fdStdOutRead = s.kr.fdOut)
    (he : s.fdStdErrRead = s.kr.fdErr) (hwf : Wf s.kr) (hf : s.evs.length < f) :
    AgreeSel s (GenS.read3 E f s) (read3 s.kr s.length s.streams s.evs) := by
  obtain ⟨fo, fe, fi, pid, ln, st, fdr, mx, tv, i, en, buf, k, ev⟩ := s
  simp only at ho he hwf hf
  subst ho he
  -- the prologue computes the model's maxFd
  have hpro : ∃ (fdr' : List Nat) (mx' : Int),
      GenS.read3 E f ⟨k.fdOut, k.fdErr, fi, pid, ln, st, fdr, mx, tv, i, en, buf, k, ev⟩ =
        GenS.read3_b6 E f ⟨k.fdOut, k.fdErr, fi, pid, ln, st, fdr', mx', tv, i, en, buf, k, ev⟩ ∧ mx' = (maxFd k st : Int) := by
    rcases Bool.eq_false_or_eq_true (ReadSel.bit st 1) with b1 | b1 <;>
    rcases Bool.eq_false_or_eq_true (ReadSel.bit st 2) with b2 | b2 <;>
    by_cases h1 : k.fdOut = 0 <;> by_cases h2 : k.fdErr = 0 <;> by_cases hlt : k.fdOut < k.fdErr <;> by_cases hp : 0 < k.fdErr
    all_goals
      have c1 : (st &&& 1 = 0) = (ReadSel.bit st 1 = false) := propext (rbit_one st)
      have c2 : (st &&& 2 = 0) = (ReadSel.bit st 2 = false) := propext (rbit_two st)
      have hlt' : ((k.fdOut : Int) < (k.fdErr : Int)) = (k.fdOut < k.fdErr) := propext Int.ofNat_lt
      have h0lt : ((0 : Int) < (k.fdErr : Int)) = (0 < k.fdErr) := propext (by omega)
      simp only [GenS.read3, GenS.read3_b7, c1, c2, b1, b2, h1, h2, hlt, hlt', h0lt, hp, if_true, if_false, reduceCtorEq,
        Bool.true_eq_false, Bool.false_eq_true]
      refine ⟨_, _, rfl, ?_⟩
      simp [maxFd, wantOut, wantErr, b1, b2, h1, h2, hlt, hp] <;> omega
  obtain ⟨fdr', mx', hp, hmx⟩ := hpro
  rw [hp]; subst hmx
  unfold read3
  simp only [GenS.read3_b6]
  by_cases hz : maxFd k st = 0
  · have hz' : ((maxFd k st : Nat) : Int) = 0 := by omega
    simp [hz, hz', AgreeSel]
  · have hz' : ¬ (((maxFd k st : Nat) : Int) = 0) := by omega
    simp only [hz, hz', if_false, GenS.read3_b5, selectLoop_scan]
    have hl := loop_spec E k st ln (maxFd k st) ev f
      ⟨k.fdOut, k.fdErr, fi, pid, ln, st, fdr', (maxFd k st : Int), tv, i, en, buf, k, ev⟩ rfl rfl rfl rfl rfl rfl rfl hf
    by_cases hs : scan k st (maxFd k st + 1) ev = true
    · simp only [hs, if_true] at hl ⊢
      obtain ⟨s', e1, e2, e3, e4, e5, e6, e7⟩ := hl
      rw [e1]
      obtain ⟨fo2, fe2, fi2, pid2, ln2, st2, fdr2, mx2, tv2, i2, en2, buf2, k2, ev2⟩ := s'
      simp only at e2 e3 e4 e5 e6 e7
      subst e2 e3 e4 e5 e6 e7
      generalize selected k2 (maxFd k2 st2 + 1) (arm k2 st2) = set
      have c1 : (st2 &&& 1 = 0) = (ReadSel.bit st2 1 = false) := propext (rbit_one st2)
      have c2 : (st2 &&& 2 = 0) = (ReadSel.bit st2 2 = false) := propext (rbit_two st2)
      have rdOut : k2.fdOut ≠ 0 → sysReadPipe k2 k2.fdOut ln2 = rdOf (doRead k2 1 ln2) := by
        intro h; simp [sysReadPipe, h]
      have rdErr : k2.fdErr ≠ 0 → sysReadPipe k2 k2.fdErr ln2 = rdOf (doRead k2 2 ln2) := by
        intro h
        have hne : ¬ (k2.fdErr = k2.fdOut) := fun heq => hwf (by rw [← heq]; exact h) heq.symm
        simp [sysReadPipe, h, hne]
      rcases Bool.eq_false_or_eq_true (ReadSel.bit st2 1) with b1 | b1 <;>
      rcases Bool.eq_false_or_eq_true (ReadSel.bit st2 2) with b2 | b2 <;>
      by_cases h1 : k2.fdOut = 0 <;> by_cases h2 : k2.fdErr = 0 <;>
      rcases Bool.eq_false_or_eq_true (set.contains k2.fdOut) with hc1 | hc1 <;>
      rcases Bool.eq_false_or_eq_true (set.contains k2.fdErr) with hc2 | hc2
      all_goals
        simp only [GenS.read3_b1, afterSelect, wantOut, wantErr, c1, c2, b1, b2, h1, h2, hc1, hc2, if_true, if_false,
          Bool.true_eq_false, Bool.false_eq_true, bne_self_eq_false, Bool.and_false, Bool.and_true, Bool.false_and, Bool.true_and,
          bne_iff_ne, ne_eq, not_true_eq_false, not_false_eq_true, decide_true, decide_false]
        first
          | (simp [AgreeSel]; done)
          | (simp only [rdOut, rdErr, h1, h2, ne_eq, not_false_eq_true, doRead]
             cases hq : k2.outQ.isEmpty <;> cases hw : k2.outW <;> cases hq2 : k2.errQ.isEmpty <;> cases hw2 : k2.errW <;>
               simp [rdOf, AgreeSel, hq, hw, hq2, hw2, hangCode])
    · simp only [Bool.not_eq_true] at hs
      simp only [hs, Bool.false_eq_true, if_false] at hl ⊢
      obtain ⟨s', e1⟩ := hl
      rw [e1]
      simp [AgreeSel]

/-- consequence for the TRANSLATED code (with `read3_never_hangs_never_falls_through` of PropsRead.lean): for every object with
    distinct read ends, every request, length and `select` oracle the call returns a value (or never returns from `select`),
    it never calls `::read` on a descriptor that would block, and it returns -1 only as EINVAL (no requested stream is open) --
    the final `return -1` is never reached -/
theorem translated_read3_never_hangs_never_falls_through (E : Env) (s : GenS.RD) (f : Nat) (ho : s.fdStdOutRead = s.kr.fdOut)
    (he : s.fdStdErrRead = s.kr.fdErr) (hwf : Wf s.kr) (hf : s.evs.length < f) :
    ∃ v s', GenS.read3 E f s = some (.ret v s') ∧ v ≠ hangCode ∧
      (v = -1 → s'.errno = EINVAL ∧ read3 s.kr s.length s.streams s.evs = .einval) := by
  have ha := translated_read3_eq_model E s f ho he hwf hf
  have hm := read3_never_hangs_never_falls_through s.kr hwf s.length s.streams s.evs _ rfl
  revert ha hm
  generalize read3 s.kr s.length s.streams s.evs = r
  intro ha hm
  cases hg : GenS.read3 E f s with
  | none => rw [hg] at ha; cases r <;> simp [AgreeSel] at ha
  | some c =>
    rw [hg] at ha
    cases c with
    | next s' => cases r <;> simp [AgreeSel] at ha
    | brk s' => cases r <;> simp [AgreeSel] at ha
    | fuel => cases r <;> simp [AgreeSel] at ha
    | ret v s' =>
      refine ⟨v, s', rfl, ?_, ?_⟩
      · cases r <;> simp [AgreeSel, hangCode, blockedCode] at ha hm ⊢ <;> omega
      · intro hv
        cases r <;> simp [AgreeSel, hangCode, blockedCode] at ha hm ⊢ <;> first | omega | (exact ha.2.1)

-- a concrete run: stdout (descriptor 5) holds 3 bytes, stderr (7) nothing; request both, length 2, one time-out first
example : (match GenS.read3 ⟨[], [], []⟩ 3 ⟨5, 7, 0, 9, 2, 3, [], 0, 0, 0, 0, [], ⟨5, 7, [1, 2, 3], [], true, true⟩, [.timeout, .ready]⟩ with
    | some (.ret v s) => some (v, s.streams, s.buffer, s.kr.outQ) | _ => none) = some (2, 1, [1, 2], [3]) := by decide

end Nstd.Args.Tie
