/-
  Semantics of the system calls in the translation of `Process::read(void* buffer, usize length, uint& streams)`
  (tools/gen_args.py -> Nstd/Generated/ArgsSel.lean).  The kernel side is the ASSUMED kernel of ReadSel.lean: the
  state `ReadSel.RS` says which descriptor is which pipe, what is queued and whether a writer is left; what `select`
  does at each call is the oracle list `List Ev`:
  * `select(nfds, &set, 0, 0, &tv)`: `timeout` -> 0, the examined bits cleared; `eintr` -> -1, errno = EINTR, set untouched;
    `ready` -> the number of readable examined descriptors (>= 1) and the set `ReadSel.selected`, or the call never returns
    when no examined descriptor is readable; an exhausted oracle: the call never returns;
  * `::read(fd, buffer, length)` on a pipe end: `ReadSel.doRead` of the pipe the descriptor names; a descriptor that is no
    pipe end of the object: fault;
  * a call that never returns ends the function with the result code `blockedCode` (select) / `hangCode` (::read) -- the
    real return values are >= -1.
  `fd_set` = the list of descriptors whose bit is set.  Core Lean only.
-/
import Nstd.Args.CSemProc
import Nstd.Args.ReadSel

namespace Nstd.Args.C
open Nstd.Args.ReadSel

def EINTR : Nat := 4
def blockedCode : Int := -2
def hangCode : Int := -3

inductive SelRes where
  | blocked
  | ret (i : Int) (set : List Nat) (errno : Option Nat) (evs : List Ev)

/-- the readable descriptors `select` examined -/
def readyCount (kr : RS) (nfds : Nat) (set : List Nat) : Nat :=
  (set.filter (fun fd => fd < nfds && fdReadable kr fd)).length

def sysSelect (kr : RS) (evs : List Ev) (nfds : Int) (set : List Nat) : SelRes :=
  match evs with
  | [] => .blocked
  | .timeout :: r => .ret 0 (set.filter (fun fd => !(fd < nfds.toNat))) none r
  | .eintr :: r => .ret (-1) set (some EINTR) r
  | .ready :: r =>
    if examinedReady kr nfds.toNat set then .ret (readyCount kr nfds.toNat set) (selected kr nfds.toNat set) none r
    else .blocked

inductive RdRes where
  | bad
  | hang
  | got (bytes : List Nat) (kr : RS)

def rdOf : ReadSel.Res → RdRes
  | .got _ b kr => .got b kr
  | .hang => .hang
  | _ => .bad

def sysReadPipe (kr : RS) (fd len : Nat) : RdRes :=
  if fd ≠ 0 ∧ fd = kr.fdOut then rdOf (doRead kr 1 len)
  else if fd ≠ 0 ∧ fd = kr.fdErr then rdOf (doRead kr 2 len)
  else .bad

end Nstd.Args.C
