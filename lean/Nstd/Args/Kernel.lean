/-
  Abstract kernel model for the run-time half of property C20 (NOT the real kernel: an explicit
  model whose adequacy is an assumption, cross-checked by the run/io/exit/execfail streams of the
  correspondence run).

  Part 1: descriptor tables.  `open()` (Process.cpp:596-735) as the sequence of pipe / vfork / dup2 /
  close calls it makes; the result is who holds which end of which pipe.
  Part 2: pipes as bounded FIFO byte queues with partial transfers, end-of-file when no writer is
  left, and the transition system "parent protocol ∥ child program" over them.
-/
namespace Nstd.Args.Kernel

/-! ### Part 1: descriptor tables -/

/-- what a descriptor refers to -/
inductive Obj where
  | rd (pipe : Nat)        -- read end of a pipe
  | wr (pipe : Nat)        -- write end of a pipe
  | other (tag : Nat)      -- terminal, file, socket ... of the parent
  deriving Repr, DecidableEq

abbrev FdTable := Nat → Option Obj

def close (fd : Nat) (t : FdTable) : FdTable := fun x => if x = fd then none else t x
def dup2 (old new : Nat) (t : FdTable) : FdTable := fun x => if x = new then t old else t x
/-- `pipe(fds)` for pipe number `p`, the kernel choosing descriptors `r` and `w` -/
def mkPipe (p r w : Nat) (t : FdTable) : FdTable :=
  fun x => if x = r then some (.rd p) else if x = w then some (.wr p) else t x

/-- the descriptors the three `pipe()` calls return (only those of requested streams are used) -/
structure Fresh where
  outR : Nat
  outW : Nat
  errR : Nat
  errW : Nat
  inR : Nat
  inW : Nat

def bit (mask k : Nat) : Bool := mask / k % 2 == 1

/-- "create pipes": `int stdoutFds[2] = {}` ... `if (streams & stdoutStream) pipe(stdoutFds)` ... -/
def createPipes (streams : Nat) (f : Fresh) (t : FdTable) : FdTable × (Nat × Nat) × (Nat × Nat) × (Nat × Nat) :=
  let (t, o) := if bit streams 1 then (mkPipe 0 f.outR f.outW t, (f.outR, f.outW)) else (t, (0, 0))
  let (t, e) := if bit streams 2 then (mkPipe 1 f.errR f.errW t, (f.errR, f.errW)) else (t, (0, 0))
  let (t, i) := if bit streams 4 then (mkPipe 2 f.inR f.inW t, (f.inR, f.inW)) else (t, (0, 0))
  (t, o, e, i)

def closeIf (fd : Nat) (t : FdTable) : FdTable := if fd ≠ 0 then close fd t else t
def dupCloseIf (fd std : Nat) (t : FdTable) : FdTable := if fd ≠ 0 then close fd (dup2 fd std t) else t

structure Opened where
  parent : FdTable
  child : FdTable
  fdStdOutRead : Nat
  fdStdErrRead : Nat
  fdStdInWrite : Nat

/-- `open(...)` after argument preparation: pipes, vfork (the child gets a copy of the table),
    the parent branch and the child branch up to `execvpe` -/
def openFds (streams : Nat) (f : Fresh) (t : FdTable) : Opened :=
  let (t, o, e, i) := createPipes streams f t
  -- parent
  let p := closeIf i.1 (closeIf e.2 (closeIf o.2 t))
  -- child
  let c := dupCloseIf i.1 0 (dupCloseIf e.2 2 (dupCloseIf o.2 1 t))
  let c := closeIf i.2 (closeIf e.1 (closeIf o.1 c))
  { parent := p, child := c, fdStdOutRead := o.1, fdStdErrRead := e.1, fdStdInWrite := i.2 }

/-- the `error:` path of `open()` taken when vfork fails (repaired code): both ends of every pipe created are closed -/
def closeBothIf (p : Nat × Nat) (t : FdTable) : FdTable := if p.1 ≠ 0 then close p.2 (close p.1 t) else t

def openFdsFailed (streams : Nat) (f : Fresh) (t : FdTable) : FdTable :=
  let (t, o, e, i) := createPipes streams f t
  closeBothIf i (closeBothIf e (closeBothIf o t))

/-- the descriptors returned by `pipe()` are unused, pairwise different and none of 0, 1, 2
    (the standard descriptors of the parent are open) -/
def Fresh.Ok (f : Fresh) (t : FdTable) : Prop :=
  [f.outR, f.outW, f.errR, f.errW, f.inR, f.inW].Pairwise (· ≠ ·) ∧
  (∀ x ∈ [f.outR, f.outW, f.errR, f.errW, f.inR, f.inW], 2 < x ∧ t x = none)

/-- the parent's table holds no pipe ends of the pipes about to be created -/
def Plain (t : FdTable) : Prop := ∀ x p, t x ≠ some (.rd p) ∧ t x ≠ some (.wr p)


/-! ### Part 2: pipes and the protocol "write the input, close it, read both outputs to end-of-file, join"

  A pipe is a FIFO byte queue of capacity `cap`; `write` transfers any non-empty part of the data that
  fits (partial writes), blocks when the pipe is full; `read` returns any non-empty prefix of the queued
  bytes (partial reads), blocks on an empty pipe while a write end is open and returns 0 (end-of-file)
  when none is.  By part 1 the parent holds the only write end of the stdin pipe and the child the only
  write ends of the stdout/stderr pipes, so "no write end left" = parent closed stdin / child exited.
  The child is the helper of the correspondence run (`@io`): it reads stdin to end-of-file, writes its
  stdout data, then its stderr data, then exits; the parent is the harness: it writes the payload with
  `Process::write` until everything is taken, `close(stdinStream)`, `Process::read(buf, len, streams)`
  (select) until both streams reported end-of-file, `join`.  A stream that is not redirected behaves like
  a pipe with empty data.  The scheduler is arbitrary: any enabled step of either process may be taken. -/

inductive PPhase where
  | writing | draining | joined
  deriving Repr, DecidableEq

inductive CPhase where
  | reading | writingOut | writingErr | exited
  deriving Repr, DecidableEq

structure Sys where
  cap : Nat
  -- pipes
  inQ : List Nat
  inOpen : Bool              -- the parent's write end of the stdin pipe is open
  outQ : List Nat
  errQ : List Nat
  -- parent
  pPhase : PPhase
  toSend : List Nat
  gotOut : List Nat
  gotErr : List Nat
  outEof : Bool
  errEof : Bool
  code : Option Nat          -- what join delivered
  -- child
  cPhase : CPhase
  gotIn : List Nat
  toOut : List Nat
  toErr : List Nat
  exitCode : Nat

def Sys.init (cap : Nat) (payload out err : List Nat) (exitCode : Nat) : Sys :=
  { cap := cap, inQ := [], inOpen := true, outQ := [], errQ := [], pPhase := .writing, toSend := payload,
    gotOut := [], gotErr := [], outEof := false, errEof := false, code := none, cPhase := .reading,
    gotIn := [], toOut := out, toErr := err, exitCode := exitCode }

inductive Step : Sys → Sys → Prop where
  | pWrite (s : Sys) (k : Nat) : s.pPhase = .writing → 0 < k → k ≤ s.toSend.length → s.inQ.length + k ≤ s.cap →
      Step s { s with inQ := s.inQ ++ s.toSend.take k, toSend := s.toSend.drop k }
  | pClose (s : Sys) : s.pPhase = .writing → s.toSend = [] →
      Step s { s with inOpen := false, pPhase := .draining }
  | pReadOut (s : Sys) (k : Nat) : s.pPhase = .draining → 0 < k → k ≤ s.outQ.length →
      Step s { s with gotOut := s.gotOut ++ s.outQ.take k, outQ := s.outQ.drop k }
  | pEofOut (s : Sys) : s.pPhase = .draining → s.outQ = [] → s.cPhase = .exited → s.outEof = false →
      Step s { s with outEof := true }
  | pReadErr (s : Sys) (k : Nat) : s.pPhase = .draining → 0 < k → k ≤ s.errQ.length →
      Step s { s with gotErr := s.gotErr ++ s.errQ.take k, errQ := s.errQ.drop k }
  | pEofErr (s : Sys) : s.pPhase = .draining → s.errQ = [] → s.cPhase = .exited → s.errEof = false →
      Step s { s with errEof := true }
  | pJoin (s : Sys) : s.pPhase = .draining → s.outEof = true → s.errEof = true → s.cPhase = .exited →
      Step s { s with pPhase := .joined, code := some s.exitCode }
  | cRead (s : Sys) (k : Nat) : s.cPhase = .reading → 0 < k → k ≤ s.inQ.length →
      Step s { s with gotIn := s.gotIn ++ s.inQ.take k, inQ := s.inQ.drop k }
  | cEofIn (s : Sys) : s.cPhase = .reading → s.inQ = [] → s.inOpen = false →
      Step s { s with cPhase := .writingOut }
  | cWriteOut (s : Sys) (k : Nat) : s.cPhase = .writingOut → 0 < k → k ≤ s.toOut.length → s.outQ.length + k ≤ s.cap →
      Step s { s with outQ := s.outQ ++ s.toOut.take k, toOut := s.toOut.drop k }
  | cDoneOut (s : Sys) : s.cPhase = .writingOut → s.toOut = [] →
      Step s { s with cPhase := .writingErr }
  | cWriteErr (s : Sys) (k : Nat) : s.cPhase = .writingErr → 0 < k → k ≤ s.toErr.length → s.errQ.length + k ≤ s.cap →
      Step s { s with errQ := s.errQ ++ s.toErr.take k, toErr := s.toErr.drop k }
  | cExit (s : Sys) : s.cPhase = .writingErr → s.toErr = [] →
      Step s { s with cPhase := .exited }

inductive Reach (s0 : Sys) : Sys → Prop where
  | init : Reach s0 s0
  | step {s s' : Sys} : Reach s0 s → Step s s' → Reach s0 s'

/-- reachable in exactly `n` steps -/
inductive ReachN (s0 : Sys) : Nat → Sys → Prop where
  | init : ReachN s0 0 s0
  | step {n : Nat} {s s' : Sys} : ReachN s0 n s → Step s s' → ReachN s0 (n + 1) s'

def pRank : PPhase → Nat
  | .writing => 2 | .draining => 1 | .joined => 0
def cRank : CPhase → Nat
  | .reading => 3 | .writingOut => 2 | .writingErr => 1 | .exited => 0
def b2n (b : Bool) : Nat := if b then 0 else 1

/-- every step decreases this: bytes still to move (twice for those not yet in a pipe), phases, end-of-file flags -/
def Sys.measure (s : Sys) : Nat :=
  2 * s.toSend.length + s.inQ.length + 2 * s.toOut.length + s.outQ.length + 2 * s.toErr.length + s.errQ.length +
    pRank s.pPhase + cRank s.cPhase + b2n s.outEof + b2n s.errEof


/-! ### Part 2b: the parent's and the child's moves derived from the API calls as coded

  `Process::write(buf, len)` is one `::write(fdStdInWrite, buf, len)`: it blocks while the pipe is full, otherwise
  transfers what fits.  `Process::close(stdinStream)` closes the write end.  `Process::read(buf, len, streams)`
  (Process.cpp:870-914) selects on the open selected descriptors and, when one is readable (data, or end-of-file
  because no write end is left), reads stdout if that is readable, else stderr; the result 0 means end-of-file and
  the caller (harness `drain`) stops selecting that stream.  `Process::join` waits for the child.  The harness
  (`opIo`) calls `write` in a loop until everything is taken, then `close(stdinStream)`, then `read` until both
  streams reported end-of-file, then `join`.  The `@io` child calls `read(0, buf, len)` until it returns 0, then
  `write(1, ...)` in a loop, then `write(2, ...)`, then exits.  `len` is the callers' buffer size. -/

/-- the parent's next move; `none` = blocked in the kernel (or finished) -/
def parentNext (len : Nat) (s : Sys) : Option Sys :=
  match s.pPhase with
  | .writing =>
    if s.toSend.isEmpty then some { s with inOpen := false, pPhase := .draining }           -- close(stdinStream)
    else
      let k := min (min len s.toSend.length) (s.cap - s.inQ.length)
      if k = 0 then none                                                                   -- write blocks: pipe full
      else some { s with inQ := s.inQ ++ s.toSend.take k, toSend := s.toSend.drop k }        -- Process::write
  | .draining =>
    -- Process::read(buf, len, streams) with streams = the ones that have not reported end-of-file yet
    if s.outEof = false ∧ s.outQ ≠ [] then
      some { s with gotOut := s.gotOut ++ s.outQ.take (min len s.outQ.length), outQ := s.outQ.drop (min len s.outQ.length) }
    else if s.outEof = false ∧ s.cPhase = .exited then some { s with outEof := true }        -- read returned 0 on stdout
    else if s.errEof = false ∧ s.errQ ≠ [] then
      some { s with gotErr := s.gotErr ++ s.errQ.take (min len s.errQ.length), errQ := s.errQ.drop (min len s.errQ.length) }
    else if s.errEof = false ∧ s.cPhase = .exited then some { s with errEof := true }
    else if s.outEof = true ∧ s.errEof = true ∧ s.cPhase = .exited then
      some { s with pPhase := .joined, code := some s.exitCode }                            -- Process::join
    else none                                                                              -- select / waitpid blocks
  | .joined => none

/-- the `@io` child's next move -/
def childNext (len : Nat) (s : Sys) : Option Sys :=
  match s.cPhase with
  | .reading =>
    if s.inQ ≠ [] then
      some { s with gotIn := s.gotIn ++ s.inQ.take (min len s.inQ.length), inQ := s.inQ.drop (min len s.inQ.length) }
    else if s.inOpen = false then some { s with cPhase := .writingOut }                      -- read returned 0
    else none
  | .writingOut =>
    if s.toOut.isEmpty then some { s with cPhase := .writingErr }
    else
      let k := min (min len s.toOut.length) (s.cap - s.outQ.length)
      if k = 0 then none else some { s with outQ := s.outQ ++ s.toOut.take k, toOut := s.toOut.drop k }
  | .writingErr =>
    if s.toErr.isEmpty then some { s with cPhase := .exited }
    else
      let k := min (min len s.toErr.length) (s.cap - s.errQ.length)
      if k = 0 then none else some { s with errQ := s.errQ ++ s.toErr.take k, toErr := s.toErr.drop k }
  | .exited => none

/-- a run of the two programs under a scheduler given as a list of choices (true = parent) -/
def runCoded (len : Nat) : List Bool → Sys → Sys
  | [], s => s
  | b :: r, s =>
    match (if b then parentNext len s else childNext len s) with
    | some s' => runCoded len r s'
    | none => runCoded len r s           -- the chosen process is blocked: nothing happens

/-! ### Part 3: `join()` while the child is still reading its input and going to write ("join first")

  The parent calls `join()` (or the destructor does) without having closed the redirected stdin and
  without having read the redirected output streams.  `join()` is the sequence of actions of
  Process.cpp:421-447 AS CODED (repaired, fixes/args/0008): the write end of the stdin pipe is closed
  first, then `waitpid`, then the read ends of the stdout and stderr pipes are closed; each close is
  guarded by `if(fd)`, i.e. closing an end that is not held does nothing.  The child optionally reads
  its stdin to end-of-file, then writes its stdout data, then its stderr data (partial transfers,
  blocking on a full pipe), then exits with its code.  A write to a pipe whose read end nobody holds
  any more terminates the child by SIGPIPE (`signalled`); `WEXITSTATUS` of a signalled child is 0.
  Nobody reads the outputs: they have to fit into the pipes. -/

inductive JAct where
  | wait | closeOut | closeErr | closeIn
  deriving Repr, DecidableEq

/-- `Process::join(uint32&)` after the pid check -/
def joinProgram : List JAct := [.closeIn, .wait, .closeOut, .closeErr]

/-- what the members `fdStdOutRead != 0`, `fdStdErrRead != 0`, `fdStdInWrite != 0` are after the actions -/
def actsOnFlags : List JAct → Bool × Bool × Bool → Bool × Bool × Bool
  | [], f => f
  | .wait :: r, f => actsOnFlags r f
  | .closeOut :: r, (_, e, i) => actsOnFlags r (false, e, i)
  | .closeErr :: r, (o, _, i) => actsOnFlags r (o, false, i)
  | .closeIn :: r, (o, e, _) => actsOnFlags r (o, e, false)

inductive JPhase where
  | reading | writingOut | writingErr | exited | signalled
  deriving Repr, DecidableEq

structure SysJ where
  cap : Nat
  inQ : List Nat            -- bytes the parent wrote before join() that the child has not read yet
  inWr : Bool               -- the parent holds the write end of the stdin pipe
  outQ : List Nat
  errQ : List Nat
  outRd : Bool              -- the parent holds the read end of the stdout pipe
  errRd : Bool
  prog : List JAct          -- what is left of join()
  reaped : Option Nat       -- the exit code join() stored (WEXITSTATUS)
  cPhase : JPhase
  gotIn : List Nat
  toOut : List Nat
  toErr : List Nat
  exitCode : Nat

/-- the moment `join()` is entered: `pending` = input already written, `inp/out/err` = which pipe ends the
    Process object holds, `reads` = the child reads its stdin to end-of-file before it writes -/
def SysJ.init (cap : Nat) (prog : List JAct) (inp out err reads : Bool) (pending dout derr : List Nat) (exitCode : Nat) : SysJ :=
  { cap := cap, inQ := pending, inWr := inp, outQ := [], errQ := [], outRd := out, errRd := err, prog := prog,
    reaped := none, cPhase := if reads then .reading else .writingOut, gotIn := [], toOut := dout, toErr := derr,
    exitCode := exitCode }

inductive StepJ : SysJ → SysJ → Prop where
  | cRead (s : SysJ) (k : Nat) : s.cPhase = .reading → 0 < k → k ≤ s.inQ.length →
      StepJ s { s with gotIn := s.gotIn ++ s.inQ.take k, inQ := s.inQ.drop k }
  | cEofIn (s : SysJ) : s.cPhase = .reading → s.inQ = [] → s.inWr = false → StepJ s { s with cPhase := .writingOut }
  | cWriteOut (s : SysJ) (k : Nat) : s.cPhase = .writingOut → s.outRd = true → 0 < k → k ≤ s.toOut.length →
      s.outQ.length + k ≤ s.cap → StepJ s { s with outQ := s.outQ ++ s.toOut.take k, toOut := s.toOut.drop k }
  | cPipeOut (s : SysJ) : s.cPhase = .writingOut → s.outRd = false → s.toOut ≠ [] →
      StepJ s { s with cPhase := .signalled }
  | cDoneOut (s : SysJ) : s.cPhase = .writingOut → s.toOut = [] → StepJ s { s with cPhase := .writingErr }
  | cWriteErr (s : SysJ) (k : Nat) : s.cPhase = .writingErr → s.errRd = true → 0 < k → k ≤ s.toErr.length →
      s.errQ.length + k ≤ s.cap → StepJ s { s with errQ := s.errQ ++ s.toErr.take k, toErr := s.toErr.drop k }
  | cPipeErr (s : SysJ) : s.cPhase = .writingErr → s.errRd = false → s.toErr ≠ [] →
      StepJ s { s with cPhase := .signalled }
  | cExit (s : SysJ) : s.cPhase = .writingErr → s.toErr = [] → StepJ s { s with cPhase := .exited }
  | pWaitExited (s : SysJ) (r : List JAct) : s.prog = .wait :: r → s.cPhase = .exited →
      StepJ s { s with prog := r, reaped := some s.exitCode }
  | pWaitSignalled (s : SysJ) (r : List JAct) : s.prog = .wait :: r → s.cPhase = .signalled →
      StepJ s { s with prog := r, reaped := some 0 }
  | pCloseOut (s : SysJ) (r : List JAct) : s.prog = .closeOut :: r → StepJ s { s with prog := r, outRd := false }
  | pCloseErr (s : SysJ) (r : List JAct) : s.prog = .closeErr :: r → StepJ s { s with prog := r, errRd := false }
  | pCloseIn (s : SysJ) (r : List JAct) : s.prog = .closeIn :: r → StepJ s { s with prog := r, inWr := false }

inductive ReachJ (s0 : SysJ) : SysJ → Prop where
  | init : ReachJ s0 s0
  | step {s s' : SysJ} : ReachJ s0 s → StepJ s s' → ReachJ s0 s'

def jRank : JPhase → Nat
  | .reading => 3 | .writingOut => 2 | .writingErr => 1 | .exited => 0 | .signalled => 0

def SysJ.measure (s : SysJ) : Nat :=
  s.inQ.length + s.toOut.length + s.toErr.length + jRank s.cPhase + s.prog.length

/-- executable run with the scheduler that lets the parent act whenever it can (the schedule that
    exposes a premature close); used by the driver of the correspondence run.  Returns the exit code
    `join()` stored (`none` = join() never returns) and whether the child completed. -/
def SysJ.exec : Nat → SysJ → Option Nat × Bool
  | 0, s => (s.reaped, s.cPhase == .exited)
  | f + 1, s =>
    match s.prog with
    | .closeOut :: r => SysJ.exec f { s with prog := r, outRd := false }
    | .closeErr :: r => SysJ.exec f { s with prog := r, errRd := false }
    | .closeIn :: r => SysJ.exec f { s with prog := r, inWr := false }
    | .wait :: r =>
      match s.cPhase with
      | .exited => SysJ.exec f { s with prog := r, reaped := some s.exitCode }
      | .signalled => SysJ.exec f { s with prog := r, reaped := some 0 }
      | .reading =>
        if !s.inQ.isEmpty then SysJ.exec f { s with gotIn := s.gotIn ++ s.inQ.take 1, inQ := s.inQ.drop 1 }
        else if !s.inWr then SysJ.exec f { s with cPhase := .writingOut }
        else (none, false)                        -- blocked for ever: the child waits for end-of-file, the parent for the child
      | .writingOut =>
        if s.toOut.isEmpty then SysJ.exec f { s with cPhase := .writingErr }
        else if !s.outRd then SysJ.exec f { s with cPhase := .signalled }
        else if s.outQ.length < s.cap then
          SysJ.exec f { s with outQ := s.outQ ++ s.toOut.take 1, toOut := s.toOut.drop 1 }
        else (none, false)                        -- blocked for ever: pipe full, nobody reads
      | .writingErr =>
        if s.toErr.isEmpty then SysJ.exec f { s with cPhase := .exited }
        else if !s.errRd then SysJ.exec f { s with cPhase := .signalled }
        else if s.errQ.length < s.cap then
          SysJ.exec f { s with errQ := s.errQ ++ s.toErr.take 1, toErr := s.toErr.drop 1 }
        else (none, false)
    | [] => (s.reaped, s.cPhase == .exited)

end Nstd.Args.Kernel
