/-
  Tie by translation, the core of C20's "exact argument vector": the "prepare argv of child" statement of
  `Process::start(program, argc, argv, environment)` and of `Process::open(executable, argc, argv, streams, environment)`
  (the statement behind `const char** args;`), translated by tools/gen_args.py from the CURRENT src/Process.cpp into
  Nstd/Generated/ArgsVec.lean, IS the model's `prepareArgv` (Model.lean) that `argv_env_exact*` speak about: for every program,
  every argc and every pointer vector -- same fault (a read outside the vector), same resulting vector `args`.
  Assumed: the semantics of the translated subset and of pointer vectors (CSemVec.lean).
-/
import Nstd.Generated.ArgsVec

set_option linter.unusedSimpArgs false

namespace Nstd.Args.Tie
open Nstd.Args Nstd.Args.C

theorem take_set_succ {α} (l : List α) (j : Nat) (a : α) (h : j < l.length) : (l.set j a).take (j + 1) = l.take j ++ [a] := by
  rw [List.take_add_one, List.take_set, List.getElem?_set_self (by simpa using h)]
  have : ((List.take j l).set j a) = List.take j l := List.set_eq_of_length_le (by simp; omega)
  rw [this]; rfl

theorem vecGet_nat (v : Vec) (j : Nat) : vecGet v (j : Int) = v[j]? := by
  unfold vecGet
  have : ¬ ((j : Int) < 0) := by omega
  simp [this]

theorem vecSet_nat (v : Vec) (j : Nat) (x : Option Str) (h : j < v.length) : vecSet v (j : Int) x = some (v.set j x) := by
  unfold vecSet
  have h1 : ¬ ((j : Int) < 0) := by omega
  have h2 : ¬ (v.length ≤ j) := by omega
  simp [h1, h2]

/-- the copy loop `for (int i = 1; i < argc; ++i) args[i] = argv[i];` against `copyArgs` -/
theorem start_loop (E : Env) (argv : Vec) (prog : List Nat) (A : Nat) :
    ∀ (m j f : Nat) (args : Vec), j + m = A → args.length = A + 1 → m < f →
      match copyArgs argv j m with
      | none => GenV.startPrep_loop1 E f ⟨A, argv, args, prog, j⟩ = none
      | some r => GenV.startPrep_loop1 E f ⟨A, argv, args, prog, j⟩ =
          some (.next ⟨A, argv, args.take j ++ r ++ args.drop A, prog, A⟩) := by
  intro m
  induction m with
  | zero =>
    intro j f args hj hl hf
    match f, hf with
    | f + 1, _ =>
      have : j = A := by omega
      subst this
      simp [copyArgs, GenV.startPrep_loop1]
  | succ m ih =>
    intro j f args hj hl hf
    match f, hf with
    | f + 1, hf =>
      have hlt : ((j : Int) < (A : Int)) := by omega
      simp only [copyArgs, GenV.startPrep_loop1, hlt, if_true, GenV.startPrep_body1, vecGet_nat]
      cases ha : argv[j]? with
      | none => simp
      | some a =>
        have hjl : j < args.length := by omega
        simp only [vecSet_nat args j a hjl]
        have := ih (j + 1) f (args.set j a) (by omega) (by simp; omega) (by omega)
        have hcast : ((j : Int) + 1) = ((j + 1 : Nat) : Int) := by omega
        revert this
        cases copyArgs argv (j + 1) m with
        | none => intro h; rw [← hcast] at h; simp [h]
        | some r =>
          intro h
          rw [← hcast] at h
          simp only [h, Option.map_some]
          rw [take_set_succ args j a hjl, List.drop_set_of_lt (by omega)]
          simp

/-- the "prepare argv of child" statement of `start(program, argc, argv, ..)` is `prepareArgv` -/
theorem translated_startPrep_eq_model (E : Env) (prog : List Nat) (argc : Nat) (argv args0 : Vec) (i0 : Int) (f : Nat) (hf : argc < f) :
    match prepareArgv prog argc argv with
    | none => GenV.startPrep E f ⟨argc, argv, args0, prog, i0⟩ = none
    | some v => ∃ s', GenV.startPrep E f ⟨argc, argv, args0, prog, i0⟩ = some (.ret () s') ∧ s'.args = v ∧ s'.argv = argv ∧ s'.program = prog := by
  have hrep : ∀ n : Nat, (List.replicate (n + 2) (none : Option Str)).set (n + 1) none = List.replicate (n + 2) none := by
    intro n
    apply List.ext_getElem?
    intro k
    by_cases hk : k = n + 1
    · subst hk; simp
    · rw [List.getElem?_set_ne (by omega)]
  have h1 : ((1 : Nat) : Int) = 1 := rfl
  cases argc with
  | zero =>
    match f, hf with
    | f + 1, _ =>
      refine ⟨⟨1, argv, [some prog, none], prog, 1⟩, ?_, rfl, rfl, rfl⟩
      simp [GenV.startPrep, GenV.startPrep_b2, GenV.startPrep_b1, GenV.startPrep_loop1, vecAlloc, vecSet]
  | succ n =>
    have hne : ¬ (((n + 1 : Nat) : Int) = 0) := by omega
    have hidx : (((n + 1 : Nat) : Int) - 1) = ((n : Nat) : Int) := by omega
    simp only [prepareArgv, ne_eq, Nat.add_one_ne_zero, not_false_eq_true, if_true, Nat.add_sub_cancel, GenV.startPrep, hne, if_false,
      hidx, vecGet_nat]
    cases hlast : argv[n]? with
    | none => simp
    | some last =>
      cases last with
      | none => simp
      | some x =>
        have hall : ((n + 1 : Nat) : Int) + 1 = ((n + 2 : Nat) : Int) := by omega
        simp only [reduceCtorEq, if_false, GenV.startPrep_b2, hne, GenV.startPrep_b1, vecAlloc, hall, Int.toNat_natCast,
          vecSet_nat _ (n + 1) none (by simp : n + 1 < (List.replicate (n + 2) (none : Option Str)).length), hrep n]
        have hl := start_loop E argv prog (n + 1) n 1 f (List.replicate (n + 2) none) (by omega) (by simp) (by omega)
        rw [h1] at hl
        revert hl
        cases copyArgs argv 1 n with
        | none => intro hl; simp only at hl; rw [hl]; rfl
        | some r =>
          intro hl
          simp only at hl
          simp only [Option.map_some]
          have h0 : ¬ ((0 : Int) < 0) := by omega
          refine ⟨⟨((n + 1 : Nat) : Int), argv, some prog :: r ++ [none], prog, ((n + 1 : Nat) : Int)⟩, ?_, rfl, rfl, rfl⟩
          rw [hl]
          simp [vecSet, List.take_replicate, List.drop_replicate]

/-- (the same block in `open`) the copy loop `for (int i = 1; i < argc; ++i) args[i] = argv[i];` against `copyArgs` -/
theorem open_loop (E : Env) (argv : Vec) (prog : List Nat) (A : Nat) :
    ∀ (m j f : Nat) (args : Vec), j + m = A → args.length = A + 1 → m < f →
      match copyArgs argv j m with
      | none => GenV.openPrep_loop1 E f ⟨A, argv, args, prog, j⟩ = none
      | some r => GenV.openPrep_loop1 E f ⟨A, argv, args, prog, j⟩ =
          some (.next ⟨A, argv, args.take j ++ r ++ args.drop A, prog, A⟩) := by
  intro m
  induction m with
  | zero =>
    intro j f args hj hl hf
    match f, hf with
    | f + 1, _ =>
      have : j = A := by omega
      subst this
      simp [copyArgs, GenV.openPrep_loop1]
  | succ m ih =>
    intro j f args hj hl hf
    match f, hf with
    | f + 1, hf =>
      have hlt : ((j : Int) < (A : Int)) := by omega
      simp only [copyArgs, GenV.openPrep_loop1, hlt, if_true, GenV.openPrep_body1, vecGet_nat]
      cases ha : argv[j]? with
      | none => simp
      | some a =>
        have hjl : j < args.length := by omega
        simp only [vecSet_nat args j a hjl]
        have := ih (j + 1) f (args.set j a) (by omega) (by simp; omega) (by omega)
        have hcast : ((j : Int) + 1) = ((j + 1 : Nat) : Int) := by omega
        revert this
        cases copyArgs argv (j + 1) m with
        | none => intro h; rw [← hcast] at h; simp [h]
        | some r =>
          intro h
          rw [← hcast] at h
          simp only [h, Option.map_some]
          rw [take_set_succ args j a hjl, List.drop_set_of_lt (by omega)]
          simp

/-- the "prepare argv of child" statement of `open(executable, argc, argv, streams, ..)` is `prepareArgv` -/
theorem translated_openPrep_eq_model (E : Env) (prog : List Nat) (argc : Nat) (argv args0 : Vec) (i0 : Int) (f : Nat) (hf : argc < f) :
    match prepareArgv prog argc argv with
    | none => GenV.openPrep E f ⟨argc, argv, args0, prog, i0⟩ = none
    | some v => ∃ s', GenV.openPrep E f ⟨argc, argv, args0, prog, i0⟩ = some (.ret () s') ∧ s'.args = v ∧ s'.argv = argv ∧ s'.program = prog := by
  have hrep : ∀ n : Nat, (List.replicate (n + 2) (none : Option Str)).set (n + 1) none = List.replicate (n + 2) none := by
    intro n
    apply List.ext_getElem?
    intro k
    by_cases hk : k = n + 1
    · subst hk; simp
    · rw [List.getElem?_set_ne (by omega)]
  have h1 : ((1 : Nat) : Int) = 1 := rfl
  cases argc with
  | zero =>
    match f, hf with
    | f + 1, _ =>
      refine ⟨⟨1, argv, [some prog, none], prog, 1⟩, ?_, rfl, rfl, rfl⟩
      simp [GenV.openPrep, GenV.openPrep_b2, GenV.openPrep_b1, GenV.openPrep_loop1, vecAlloc, vecSet]
  | succ n =>
    have hne : ¬ (((n + 1 : Nat) : Int) = 0) := by omega
    have hidx : (((n + 1 : Nat) : Int) - 1) = ((n : Nat) : Int) := by omega
    simp only [prepareArgv, ne_eq, Nat.add_one_ne_zero, not_false_eq_true, if_true, Nat.add_sub_cancel, GenV.openPrep, hne, if_false,
      hidx, vecGet_nat]
    cases hlast : argv[n]? with
    | none => simp
    | some last =>
      cases last with
      | none => simp
      | some x =>
        have hall : ((n + 1 : Nat) : Int) + 1 = ((n + 2 : Nat) : Int) := by omega
        simp only [reduceCtorEq, if_false, GenV.openPrep_b2, hne, GenV.openPrep_b1, vecAlloc, hall, Int.toNat_natCast,
          vecSet_nat _ (n + 1) none (by simp : n + 1 < (List.replicate (n + 2) (none : Option Str)).length), hrep n]
        have hl := open_loop E argv prog (n + 1) n 1 f (List.replicate (n + 2) none) (by omega) (by simp) (by omega)
        rw [h1] at hl
        revert hl
        cases copyArgs argv 1 n with
        | none => intro hl; simp only at hl; rw [hl]; rfl
        | some r =>
          intro hl
          simp only at hl
          simp only [Option.map_some]
          have h0 : ¬ ((0 : Int) < 0) := by omega
          refine ⟨⟨((n + 1 : Nat) : Int), argv, some prog :: r ++ [none], prog, ((n + 1 : Nat) : Int)⟩, ?_, rfl, rfl, rfl⟩
          rw [hl]
          simp [vecSet, List.take_replicate, List.drop_replicate]

-- a concrete run: argv = {"x", "a", "b"} (not terminated), argc = 3, program "p": the child gets {"p", "a", "b", null}
example : (match GenV.startPrep ⟨[], [], []⟩ 4 ⟨3, [some [120], some [97], some [98]], [], [112], 0⟩ with
    | some (.ret _ s) => some s.args | _ => none) = some [some [112], some [97], some [98], none] := by decide

end Nstd.Args.Tie
