import Nstd.Args.LemmasSplit
/-
  What `start` / `open` hand to `execvpe`.
-/
namespace Nstd.Args
open Spec

theorem upToNull_map_some (l : List Str) (r : List (Option Str)) :
    upToNull (l.map some ++ none :: r) = some l := by
  induction l with
  | nil => simp [upToNull]
  | cons a t ih => simp [upToNull, ih]

theorem copyArgs_map_some (l : List Str) : ∀ (i n : Nat), i + n = l.length →
    copyArgs (l.map some) i n = some ((l.drop i).map some) := by
  intro i n
  induction n generalizing i with
  | zero => intro h; have : l.drop i = [] := by simp; omega
            simp [copyArgs, this]
  | succ n ih =>
    intro h
    have hi : i < l.length := by omega
    have hd : l.drop i = l[i] :: l.drop (i + 1) := by simp
    rw [copyArgs]
    simp only [List.getElem?_map, List.getElem?_eq_getElem hi, Option.map_some]
    rw [ih (i + 1) (by omega), hd]
    simp only [Option.map_some, List.map_cons]

/-- the expected record -/
def execOf (file : Str) (argv : List Str) (streams : Nat) (env : List (Str × Str)) : Exec :=
  { file := file, argv := argv,
    env := if env = [] then none else some (env.map (fun kv => kv.1 ++ [61] ++ kv.2)),
    pipes := streams % 8 }

theorem envOf_eq (env : List (Str × Str)) :
    envOf env = if env = [] then none else some (env.map (fun kv => kv.1 ++ [61] ++ kv.2)) := by
  cases env <;> simp [envOf, prepareEnv]

/-- a vector of `argc` non-null pointers: argv[0] is replaced by the executable, the others are passed on -/
theorem openArgv_plain (program : Str) (args : List Str) (streams : Nat) (env : List (Str × Str)) :
    openArgv program args.length (args.map some) streams env =
      some (execOf program (program :: args.drop 1) streams env) := by
  unfold openArgv prepareArgv execOf
  cases args with
  | nil => simp [upToNull, envOf_eq]
  | cons a t =>
    have hlt : (a :: t).length - 1 < (a :: t).length := by simp
    have hlast : ((a :: t).map some)[(a :: t).length - 1]? = some (some ((a :: t)[(a :: t).length - 1])) := by
      rw [List.getElem?_map, List.getElem?_eq_getElem hlt]; rfl
    rw [hlast]
    simp only [List.length_cons, Nat.add_one_ne_zero, ne_eq, not_false_eq_true, if_true]
    have hc := copyArgs_map_some (a :: t) 1 t.length (by simp; omega)
    simp only [List.length_cons, Nat.add_sub_cancel] at hc ⊢
    rw [hc]
    simp only [Option.map_some, List.drop_succ_cons, List.drop_zero]
    have := upToNull_map_some (program :: t) []
    simp only [List.map_cons, List.cons_append] at this
    simp [this, envOf_eq]

/-- a vector that already ends in a null pointer is handed to execvpe as it is -/
theorem openArgv_terminated (program : Str) (args : List Str) (streams : Nat) (env : List (Str × Str)) :
    openArgv program (args.length + 1) (args.map some ++ [none]) streams env =
      some (execOf program args streams env) := by
  unfold openArgv prepareArgv execOf
  have hlast : (args.map some ++ [none])[args.length + 1 - 1]? = some none := by
    simp [List.getElem?_append_right]
  simp only [hlast, Nat.add_one_ne_zero, ne_eq, not_false_eq_true, if_true]
  rw [upToNull_map_some args []]
  simp [envOf_eq]


theorem find_envRemove (k : Str) (e : PEnv) (k' : Str) :
    (envRemove k e).find? (fun kv => kv.1 == k') = if k' = k then none else e.find? (fun kv => kv.1 == k') := by
  unfold envRemove
  rw [List.find?_filter]
  by_cases hkk : k' = k
  · subst hkk
    simp only [if_true]
    apply List.find?_eq_none.mpr
    intro a _
    by_cases h : a.1 = k' <;> simp [h]
  · simp only [hkk, if_false]
    have : (fun a : Str × Str => decide ((a.1 != k) = true ∧ (a.1 == k') = true)) = (fun a => a.1 == k') := by
      funext a
      by_cases h : a.1 = k'
      · simp [h, hkk]
      · simp [h]
    rw [this]

end Nstd.Args
