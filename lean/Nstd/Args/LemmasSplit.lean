import Nstd.Args.Model
import Nstd.Args.Spec
/-
  splitCommandLine (pointer loop over a terminated buffer) refines the reference tokenizer.
-/
namespace Nstd.Args
open Spec

theorem drop_cons_step {α} {l : List α} {p : Nat} {c : α} {r : List α} (h : l.drop p = c :: r) :
    l[p]? = some c ∧ l.drop (p + 1) = r := by
  induction p generalizing l with
  | zero => cases l <;> simp_all
  | succ n ih => cases l with
    | nil => simp at h
    | cons a t => simpa using ih (l := t) (by simpa using h)

theorem tok_true_quote (cs : List Nat) (cur : Word) : tok true (34 :: cs) cur = tok false cs cur := by
  cases cs <;> simp [tok]

theorem tok_true_other {c : Nat} (cs : List Nat) (cur : Word) (h1 : c ≠ 34) (h2 : c ≠ 92) :
    tok true (c :: cs) cur = tok true cs (cur ++ [c]) := by
  cases cs <;> simp [tok, h1, h2]

theorem splitLoop_nil (s : Buf) (fuel : Nat) (q : Bool) (p : Nat) (arg : List Nat) (cmd : List (List Nat))
    {junk : List Nat} (hd : s.drop p = 0 :: junk) (hf : 2 ≤ fuel) :
    splitLoop s fuel q p arg cmd = .done (cmd ++ tok q [] arg) := by
  have h0 := drop_cons_step hd
  match fuel, hf with
  | f + 2, _ =>
    cases q with
    | false =>
      simp only [splitLoop, h0.1, tok]
      by_cases ha : arg.isEmpty <;> simp [ha]
    | true =>
      simp only [splitLoop, h0.1, tok]
      by_cases ha : arg.isEmpty <;> simp [ha]

/-- the loop invariant: with `s.drop p = rest ++ 0 :: junk` and enough fuel the loop delivers what the
    reference tokenizer delivers for `rest` -/
theorem splitLoop_spec (s : Buf) (junk : List Nat) :
    ∀ (n : Nat) (rest : List Nat) (fuel : Nat) (q : Bool) (p : Nat) (arg : List Nat) (cmd : List (List Nat)),
      rest.length ≤ n → (∀ c ∈ rest, c ≠ 0) → s.drop p = rest ++ 0 :: junk → rest.length + 2 ≤ fuel →
      splitLoop s fuel q p arg cmd = .done (cmd ++ tok q rest arg) := by
  intro n
  induction n with
  | zero =>
    intro rest fuel q p arg cmd hl _ hd hf
    have : rest = [] := by cases rest <;> simp_all
    subst this
    exact splitLoop_nil s fuel q p arg cmd (by simpa using hd) (by simpa using hf)
  | succ n ih =>
    intro rest fuel q p arg cmd hl hnz hd hf
    cases rest with
    | nil => exact splitLoop_nil s fuel q p arg cmd (by simpa using hd) (by simpa using hf)
    | cons c cs =>
    have hc : c ≠ 0 := hnz c (by simp)
    have hnz' : ∀ x ∈ cs, x ≠ 0 := fun x hx => hnz x (by simp [hx])
    have hl' : cs.length ≤ n := by simp at hl; omega
    have h0 := drop_cons_step (by simpa using hd : s.drop p = c :: (cs ++ 0 :: junk))
    match fuel, hf with
    | f + 1, hf =>
      have hf' : cs.length + 2 ≤ f := by simp at hf; omega
      cases q with
      | false =>
        simp only [splitLoop, h0.1, tok, hc, if_false]
        by_cases h34 : c = 34
        · simp only [h34, if_true]; exact ih cs f true (p + 1) arg cmd hl' hnz' h0.2 hf'
        · simp only [h34, if_false]
          by_cases h32 : c = 32
          · simp only [h32, if_true]
            rw [ih cs f false (p + 1) [] (cmd ++ [arg]) hl' hnz' h0.2 hf']; simp
          · simp only [h32, if_false]; exact ih cs f false (p + 1) (arg ++ [c]) cmd hl' hnz' h0.2 hf'
      | true =>
        simp only [splitLoop, h0.1, hc, if_false]
        by_cases h34 : c = 34
        · simp only [h34, if_true, tok_true_quote]; exact ih cs f false (p + 1) arg cmd hl' hnz' h0.2 hf'
        · simp only [h34, if_false]
          by_cases h92 : c = 92
          · simp only [h92, if_true]
            cases cs with
            | nil =>
              have h1 := drop_cons_step (by simpa using h0.2 : s.drop (p + 1) = 0 :: junk)
              simp only [h1.1]
              have := ih [] f true (p + 1) (arg ++ [92]) cmd hl' hnz' h0.2 hf'
              simpa [tok, h92] using this
            | cons d cs' =>
              have h1 := drop_cons_step (by simpa using h0.2 : s.drop (p + 1) = d :: (cs' ++ 0 :: junk))
              simp only [h1.1]
              by_cases hd34 : d = 34
              · simp only [hd34, if_true]
                have hf'' : cs'.length + 2 ≤ f := by simp at hf'; omega
                have hnz'' : ∀ x ∈ cs', x ≠ 0 := fun x hx => hnz' x (by simp [hx])
                have hl'' : cs'.length ≤ n := by simp at hl'; omega
                have := ih cs' f true (p + 2) (arg ++ [34]) cmd hl'' hnz'' h1.2 hf''
                simpa [tok, h92, hd34] using this
              · simp only [hd34, if_false]
                have := ih (d :: cs') f true (p + 1) (arg ++ [92]) cmd hl' hnz' h0.2 hf'
                simpa [tok, h92, hd34] using this
          · simp only [h92, if_false, tok_true_other cs arg h34 h92]; exact ih cs f true (p + 1) (arg ++ [c]) cmd hl' hnz' h0.2 hf'

/-- every command line buffer whose string part is `str` (no NUL inside, a NUL behind it, anything
    behind that) is split into the reference tokenizer's words; the fuel `length + 2` suffices -/
theorem splitCommandLine_spec (str junk : List Nat) (h : ∀ c ∈ str, c ≠ 0) :
    splitCommandLine (str ++ 0 :: junk) = .done (tokenize str) := by
  unfold splitCommandLine tokenize
  have := splitLoop_spec (str ++ 0 :: junk) junk str.length str ((str ++ 0 :: junk).length + 2) false 0 [] []
    (Nat.le_refl _) h (by simp) (by simp)
  simpa using this


/-- the loops end on EVERY buffer (terminated or not, NUL bytes anywhere): each iteration moves the
    pointer forward, except the one that leaves a quoted segment at the terminator, which is followed
    by the final iteration -/
theorem splitLoop_ends (s : Buf) : ∀ (fuel : Nat) (q : Bool) (p : Nat) (arg : List Nat) (cmd : List (List Nat)),
    s.length - p + 1 ≤ fuel → splitLoop s fuel q p arg cmd ≠ .fuel := by
  intro fuel
  induction fuel with
  | zero => intro q p arg cmd h; omega
  | succ f ih =>
    intro q p arg cmd h
    cases hc : s[p]? with
    | none => cases q <;> simp [splitLoop, hc]
    | some c =>
      have hp : p < s.length := (List.getElem?_eq_some_iff.mp hc).1
      have hf : s.length - (p + 1) + 1 ≤ f := by omega
      have hf2 : s.length - (p + 2) + 1 ≤ f := by omega
      cases q with
      | false =>
        simp only [splitLoop, hc]
        by_cases h0 : c = 0
        · simp [h0]
        · simp only [h0, if_false]
          by_cases h34 : c = 34
          · simp only [h34, if_true]; exact ih _ _ _ _ hf
          · simp only [h34, if_false]
            by_cases h32 : c = 32
            · simp only [h32, if_true]; exact ih _ _ _ _ hf
            · simp only [h32, if_false]; exact ih _ _ _ _ hf
      | true =>
        simp only [splitLoop, hc]
        by_cases h0 : c = 0
        · simp only [h0, if_true]
          match f, hf with
          | g + 1, _ => simp [splitLoop, hc, h0]
        · simp only [h0, if_false]
          by_cases h34 : c = 34
          · simp only [h34, if_true]; exact ih _ _ _ _ hf
          · simp only [h34, if_false]
            by_cases h92 : c = 92
            · simp only [h92, if_true]
              cases hd : s[p + 1]? with
              | none => simp
              | some d =>
                by_cases hd34 : d = 34
                · simp only [hd34, if_true]; exact ih _ _ _ _ hf2
                · simp only [hd34, if_false]; exact ih _ _ _ _ hf
            · simp only [h92, if_false]; exact ih _ _ _ _ hf

theorem splitCommandLine_ends (s : Buf) : splitCommandLine s ≠ .fuel :=
  splitLoop_ends s _ _ _ _ _ (by omega)

/-! ### writing a word list as a command line and reading it back (specification level) -/

theorem tok_escape (w : Word) : ∀ (cur : Word) (rest : List Nat), w.getLast? ≠ some 92 →
    tok true (escape w ++ 34 :: rest) cur = tok false rest (cur ++ w) := by
  induction w with
  | nil => intro cur rest _; simp [escape, tok_true_quote]
  | cons c cs ih =>
    intro cur rest hl
    have hcs : cs.getLast? ≠ some 92 := by
      cases cs with
      | nil => simp
      | cons d ds => simpa [List.getLast?_cons_cons] using hl
    by_cases h34 : c = 34
    · subst h34
      simp only [escape, if_true, List.cons_append]
      rw [tok]
      simp only [show ¬ (92 : Nat) = 34 by decide, if_false, if_true]
      rw [ih _ _ hcs]; simp
    · by_cases h92 : c = 92
      · subst h92
        cases cs with
        | nil => simp at hl
        | cons d ds =>
          have step : ∀ (x : Nat) (xs : List Nat), x ≠ 34 →
              tok true (92 :: x :: xs) cur = tok true (x :: xs) (cur ++ [92]) := by
            intro x xs hx; rw [tok]; simp [hx]
          by_cases hd : d = 34
          · subst hd
            have e : escape (92 :: 34 :: ds) ++ 34 :: rest = 92 :: (92 :: 34 :: (escape ds ++ 34 :: rest)) := by
              simp [escape]
            have e2 : escape (34 :: ds) ++ 34 :: rest = 92 :: 34 :: (escape ds ++ 34 :: rest) := by
              simp [escape]
            rw [e, step 92 _ (by decide), ← e2, ih _ _ hcs]; simp
          · have e : escape (92 :: d :: ds) ++ 34 :: rest = 92 :: (d :: (escape ds ++ 34 :: rest)) := by
              simp [escape, hd]
            have e2 : escape (d :: ds) ++ 34 :: rest = d :: (escape ds ++ 34 :: rest) := by
              simp [escape, hd]
            rw [e, step d _ hd, ← e2, ih _ _ hcs]; simp
      · simp only [escape, h34, if_false, List.cons_append]
        rw [tok_true_other _ _ h34 h92, ih _ _ hcs]; simp

theorem tok_joinWords (ws : List Word) : (∀ w ∈ ws, w.getLast? ≠ some 92) → ws.getLast? ≠ some [] →
    tok false (joinWords ws) [] = ws := by
  induction ws with
  | nil => intro _ _; simp [joinWords, tok]
  | cons w ws ih =>
    intro hw hl
    have hw0 := hw w (by simp)
    cases ws with
    | nil =>
      have hne : w ≠ [] := by simpa using hl
      have : tok false (joinWords [w]) [] = tok true (escape w ++ 34 :: []) [] := by
        simp [joinWords, quoteWord, tok]
      rw [this, tok_escape w [] [] hw0]
      cases w with
      | nil => exact absurd rfl hne
      | cons a as => simp [tok]
    | cons w' ws' =>
      have : tok false (joinWords (w :: w' :: ws')) [] =
          tok true (escape w ++ 34 :: (32 :: joinWords (w' :: ws'))) [] := by
        simp [joinWords, quoteWord, tok]
      rw [this, tok_escape w [] _ hw0]
      have ih' := ih (fun x hx => hw x (by simp [hx])) (by simpa [List.getLast?_cons_cons] using hl)
      simp only [tok, show ¬ (32 : Nat) = 34 by decide, if_false, if_true, List.nil_append]
      rw [ih']


/-! ### the universal rendering (mixed quoting) -/

theorem tok_encChar (c : Nat) (rest : List Nat) (cur : Word) :
    tok false (encChar c ++ rest) cur = tok false rest (cur ++ [c]) := by
  unfold encChar
  by_cases h32 : c = 32
  · subst h32
    simp only [if_true, List.cons_append, List.nil_append]
    rw [tok]; simp only [show ¬ (34 : Nat) ≠ 34 ↔ True by decide, if_true]
    rw [tok_true_other _ _ (by decide) (by decide), tok_true_quote]
  · by_cases h34 : c = 34
    · subst h34
      simp only [h32, if_false, if_true, List.cons_append, List.nil_append]
      rw [tok]; simp only [if_true]
      rw [tok]; simp only [show ¬ (92 : Nat) = 34 by decide, if_false, if_true]
      rw [tok_true_quote]
    · simp only [h32, h34, if_false, List.cons_append, List.nil_append]
      rw [tok]; simp [h32, h34]

theorem tok_flatMap_enc (w : Word) : ∀ (rest : List Nat) (cur : Word),
    tok false (w.flatMap encChar ++ rest) cur = tok false rest (cur ++ w) := by
  induction w with
  | nil => intro rest cur; simp
  | cons c cs ih =>
    intro rest cur
    simp only [List.flatMap_cons, List.append_assoc]
    rw [tok_encChar, ih]; simp

theorem tok_renderWord (w : Word) (rest : List Nat) (cur : Word) :
    tok false (renderWord w ++ rest) cur = tok false rest (cur ++ w) := by
  unfold renderWord
  cases w with
  | nil =>
    simp only [List.isEmpty_nil, if_true, List.cons_append, List.nil_append, List.append_nil]
    rw [tok]; simp only [if_true]; rw [tok_true_quote]
  | cons c cs => simp only [List.isEmpty_cons, Bool.false_eq_true, if_false]; exact tok_flatMap_enc _ _ _

theorem tok_joinTerminated (ws : List Word) : tok false (joinTerminated ws) [] = ws := by
  induction ws with
  | nil => simp [joinTerminated, tok]
  | cons w ws ih =>
    have : joinTerminated (w :: ws) = renderWord w ++ (32 :: joinTerminated ws) := by simp [joinTerminated]
    rw [this, tok_renderWord, tok]
    simp only [show ¬ (32 : Nat) = 34 by decide, if_false, if_true, List.nil_append, ih]

theorem tok_joinSeparated (ws : List Word) (hl : ws.getLast? ≠ some []) : tok false (joinSeparated ws) [] = ws := by
  induction ws with
  | nil => simp [joinSeparated, tok]
  | cons w ws ih =>
    cases ws with
    | nil =>
      have hne : w ≠ [] := by simpa using hl
      have := tok_renderWord w [] []
      simp only [List.append_nil, List.nil_append] at this
      simp only [joinSeparated, this]
      cases w with
      | nil => exact absurd rfl hne
      | cons a as => simp [tok]
    | cons w' ws' =>
      have ih' := ih (by simpa [List.getLast?_cons_cons] using hl)
      simp only [joinSeparated]
      rw [tok_renderWord, tok]
      simp only [show ¬ (32 : Nat) = 34 by decide, if_false, if_true, List.nil_append]
      rw [ih']

theorem encChar_nonul (c : Nat) (h : c ≠ 0) : ∀ x ∈ encChar c, x ≠ 0 := by
  unfold encChar
  intro x hx
  by_cases h32 : c = 32
  · simp [h32] at hx; omega
  · by_cases h34 : c = 34
    · simp [h34] at hx; omega
    · simp [h32, h34] at hx; subst hx; exact h

theorem renderWord_nonul (w : Word) (h : ∀ c ∈ w, c ≠ 0) : ∀ x ∈ renderWord w, x ≠ 0 := by
  unfold renderWord
  intro x hx
  cases w with
  | nil => simp at hx; subst hx; decide
  | cons a as =>
    simp only [List.isEmpty_cons, Bool.false_eq_true, if_false, List.mem_flatMap] at hx
    obtain ⟨c, hc, hxc⟩ := hx
    exact encChar_nonul c (h c hc) x hxc

theorem joinTerminated_nonul (ws : List Word) (h : ∀ w ∈ ws, ∀ c ∈ w, c ≠ 0) : ∀ x ∈ joinTerminated ws, x ≠ 0 := by
  intro x hx
  simp only [joinTerminated, List.mem_flatMap, List.mem_append, List.mem_singleton] at hx
  obtain ⟨w, hw, hx | hx⟩ := hx
  · exact renderWord_nonul w (h w hw) x hx
  · subst hx; decide

theorem joinSeparated_nonul (ws : List Word) (h : ∀ w ∈ ws, ∀ c ∈ w, c ≠ 0) : ∀ x ∈ joinSeparated ws, x ≠ 0 := by
  induction ws with
  | nil => intro x hx; simp [joinSeparated] at hx
  | cons w ws ih =>
    cases ws with
    | nil => intro x hx; exact renderWord_nonul w (h w (by simp)) x (by simpa [joinSeparated] using hx)
    | cons w' ws' =>
      intro x hx
      simp only [joinSeparated, List.mem_append, List.mem_cons] at hx
      rcases hx with hx | hx | hx
      · exact renderWord_nonul w (h w (by simp)) x hx
      · subst hx; decide
      · exact ih (fun y hy => h y (by simp [hy])) x hx

end Nstd.Args
