/-
  Descriptor-table model (Part 1 of `Nstd.Args.Kernel`) of three further paths of Process.cpp:

  A. a failing `pipe()` inside `open(executable, argc, argv, streams, env)` (Process.cpp:611-628 and the
     `error:` path 717-735),
  B. `start(program, argc, argv, env)` (Process.cpp:264-323), which creates no descriptor at all,
  C. `daemonize(logFile)` (Process.cpp:1175-1195).

  As in `Kernel.lean` this is an explicit model of the kernel calls the code makes, not the real kernel.
-/
import Nstd.Args.Kernel
namespace Nstd.Args.Kernel

/-! ### A. a failing `pipe()` in `open()` -/

/-- the local state of `open()` while it creates its pipes: the descriptor table, the three arrays
    `stdoutFds`, `stderrFds`, `stdinFds` and the number of `pipe()` calls made so far -/
structure PipeSt where
  t : FdTable
  o : Nat × Nat
  e : Nat × Nat
  i : Nat × Nat
  calls : Nat

/-- `int stdoutFds[2] = {}; int stderrFds[2] = {}; int stdinFds[2] = {};` -/
def PipeSt.init (t : FdTable) : PipeSt := { t := t, o := (0, 0), e := (0, 0), i := (0, 0), calls := 0 }

/-- `if (streams & s) { if (pipe(fds) != 0) goto error; }`: when the stream is requested, a `pipe()`
    call is made; it is call number `calls + 1`; if that is the failing call `k` the state is left
    untouched (a failing `pipe()` does not write its array) and control jumps to `error:`
    (`Except.error`); otherwise `succ` records the new pipe in the table and the array. -/
def tryPipe (req : Bool) (k : Nat) (succ : PipeSt → PipeSt) (s : PipeSt) : Except PipeSt PipeSt :=
  if req then
    (if s.calls + 1 = k then .error s else .ok (succ { s with calls := s.calls + 1 }))
  else .ok s

/-- Process.cpp:611-628 with the `k`-th `pipe()` call failing: `.error s` = jumped to `error:` in state
    `s`; `.ok s` = all requested pipes were created (the failing call was never made). -/
def pipesUntilFailure (streams k : Nat) (f : Fresh) (t : FdTable) : Except PipeSt PipeSt :=
  tryPipe (bit streams 1) k (fun s => { s with t := mkPipe 0 f.outR f.outW s.t, o := (f.outR, f.outW) }) (PipeSt.init t) >>=
  tryPipe (bit streams 2) k (fun s => { s with t := mkPipe 1 f.errR f.errW s.t, e := (f.errR, f.errW) }) >>=
  tryPipe (bit streams 4) k (fun s => { s with t := mkPipe 2 f.inR f.inW s.t, i := (f.inR, f.inW) })

/-- the `error:` path (Process.cpp:717-735): for each array whose `[0]` is non-zero both descriptors
    are closed -/
def errorPath (s : PipeSt) : FdTable := closeBothIf s.i (closeBothIf s.e (closeBothIf s.o s.t))

/-- `open()` when the `k`-th (1-based, counting only the calls actually made) `pipe()` call fails:
    `none` when fewer than `k` calls are made, otherwise the table after the `error:` path -/
def openFdsPipeFailed (streams k : Nat) (f : Fresh) (t : FdTable) : Option FdTable :=
  match pipesUntilFailure streams k f t with
  | .error s => some (errorPath s)
  | .ok _ => none

/-- number of `pipe()` calls `open()` makes when none fails -/
def pipeCalls (streams : Nat) : Nat :=
  (if bit streams 1 then 1 else 0) + (if bit streams 2 then 1 else 0) + (if bit streams 4 then 1 else 0)

theorem closeBothIf_apply' (p : Nat × Nat) (t : FdTable) (x : Nat) :
    closeBothIf p t x = if p.1 ≠ 0 then (if x = p.2 then none else if x = p.1 then none else t x) else t x := by
  unfold closeBothIf close; split <;> simp

theorem openFdsPipeFailed_none_iff (streams k : Nat) (f : Fresh) (t : FdTable) :
    openFdsPipeFailed streams k f t = none ↔ (k = 0 ∨ k > pipeCalls streams) := by
  unfold openFdsPipeFailed pipesUntilFailure tryPipe pipeCalls PipeSt.init
  cases bit streams 1 <;> cases bit streams 2 <;> cases bit streams 4 <;>
    rcases k with _ | _ | _ | _ | k <;>
    simp [bind, Except.bind]

theorem openFdsPipeFailed_restores (streams k : Nat) (f : Fresh) (t t' : FdTable) (hf : f.Ok t)
    (h : openFdsPipeFailed streams k f t = some t') (x : Nat) : t' x = t x := by
  obtain ⟨hp, hx⟩ := hf
  simp only [List.pairwise_cons, List.mem_cons, List.not_mem_nil, or_false, forall_eq_or_imp, forall_eq] at hp hx
  revert h
  unfold openFdsPipeFailed pipesUntilFailure tryPipe PipeSt.init errorPath
  cases bit streams 1 <;> cases bit streams 2 <;> cases bit streams 4 <;>
    rcases k with _ | _ | _ | _ | k <;>
    simp [bind, Except.bind] <;>
    (intro h; subst h; simp only [closeBothIf_apply', mkPipe] <;> grind)

/-! ### B. `start(program, argc, argv, env)` -/

/-- `start()` up to `execvpe`: (parent table, child table).  Between entry and `vfork()` and between
    `vfork()` and `execvpe` no descriptor is created, closed or duplicated; the child gets a copy. -/
def startFds (t : FdTable) : FdTable × FdTable := (t, t)

/-- `start()` when `vfork()` returns -1: `return 0`, nothing was opened and nothing is closed -/
def startFdsFailed (t : FdTable) : FdTable := t

/-! ### C. `daemonize(logFile)` -/

/-- `::open(logFile, ...)` returning descriptor `fd` for the log file `tag` -/
def openFile (fd tag : Nat) (t : FdTable) : FdTable := fun x => if x = fd then some (.other tag) else t x

inductive DaemonOutcome where
  | openFailed      -- `::open` returned -1
  | forkFailed      -- `fork()` returned -1
  | daemon          -- the forked child, which returns `true`; the original process calls `exit(0)`
  deriving Repr, DecidableEq

/-- `fd = ::open(logFile); dup2(fd, 1); dup2(fd, 2); ::close(fd);` -/
def redirected (fd tag : Nat) (t : FdTable) : FdTable := close fd (dup2 fd 2 (dup2 fd 1 (openFile fd tag t)))

/-- the table of the process that returns from `daemonize`, and the returned Boolean.
    `openFailed`: nothing happened.  `forkFailed`: the caller itself returns `false`, its standard
    output and error are already redirected.  `daemon`: the forked child (its table is a copy of the
    parent's at `fork()`; `setsid()` touches no descriptor) returns `true`. -/
def daemonizeFds (fd tag : Nat) (out : DaemonOutcome) (t : FdTable) : FdTable × Bool :=
  match out with
  | .openFailed => (t, false)
  | .forkFailed => (redirected fd tag t, false)
  | .daemon => (redirected fd tag t, true)

/-- the redirected table for an arbitrary `fd` (also `fd ∈ {0, 1, 2}`): `fd` is closed again, 1 and 2
    refer to the log file unless one of them is `fd` itself -/
theorem redirected_apply (fd tag : Nat) (t : FdTable) (x : Nat) :
    redirected fd tag t x = if x = fd then none else if x = 1 ∨ x = 2 then some (.other tag) else t x := by
  unfold redirected close dup2 openFile
  grind

end Nstd.Args.Kernel
