/-
  Tie by translation: `Process::daemonize(const String& logFile)`, translated by tools/gen_args.py from the CURRENT
  src/Process.cpp into Nstd/Generated/ArgsDmn.lean, against the descriptor-table model `Kernel.daemonizeFds` (KernelFail.lean)
  that the `daemonize_*` theorems of PropsFds.lean speak about.
  Assumed: the semantics of the translated subset and of `::open` / `dup2` / `::close` / `fork` / `setsid` / `exit` (CSemDmn.lean).
-/
import Nstd.Generated.ArgsDmn

set_option linter.unusedSimpArgs false

namespace Nstd.Args.Tie
open Nstd.Args Nstd.Args.C Nstd.Args.Kernel

/-- for every descriptor table, log-file tag, answer of `::open` and answer of `fork()`:
    `::open` fails -> false, the table untouched (`openFailed`);
    `fork()` fails -> false with stdout/stderr already redirected (`forkFailed`);
    in the child (`fork() = 0`) -> true, the redirected table, `setsid()` called (`daemon`);
    in the parent -> `exit(0)` is called (the function does not return), nothing but the redirection happened -/
theorem translated_daemonize_eq_model (E : Env) (s : GenD.DS) :
    (s.openRes = none →
      ∃ s', GenD.daemonize E s = some (.ret (daemonizeFds 0 s.tag .openFailed s.tbl).2 s') ∧
        s'.tbl = (daemonizeFds 0 s.tag .openFailed s.tbl).1 ∧ s'.exited = s.exited ∧ s'.sid = s.sid) ∧
    (∀ fd, s.openRes = some fd → s.forkRes = -1 →
      ∃ s', GenD.daemonize E s = some (.ret (daemonizeFds fd s.tag .forkFailed s.tbl).2 s') ∧
        s'.tbl = (daemonizeFds fd s.tag .forkFailed s.tbl).1 ∧ s'.exited = s.exited ∧ s'.sid = s.sid) ∧
    (∀ fd, s.openRes = some fd → s.forkRes = 0 →
      ∃ s', GenD.daemonize E s = some (.ret (daemonizeFds fd s.tag .daemon s.tbl).2 s') ∧
        s'.tbl = (daemonizeFds fd s.tag .daemon s.tbl).1 ∧ s'.exited = s.exited ∧ s'.sid = true) ∧
    (∀ fd, s.openRes = some fd → s.forkRes ≠ -1 → s.forkRes ≠ 0 →
      ∃ s', GenD.daemonize E s = some (.ret false s') ∧ s'.exited = some 0 ∧ s'.tbl = redirected fd s.tag s.tbl ∧ s'.sid = s.sid) := by
  obtain ⟨fd0, cp, t, tag, ores, fres, ex, sid⟩ := s
  refine ⟨?_, ?_, ?_, ?_⟩
  · intro h; simp only at h; subst h
    exact ⟨_, rfl, rfl, rfl, rfl⟩
  · intro fd h hf; simp only at h hf; subst h hf
    have hne : ¬ ((fd : Int) = -1) := by omega
    refine ⟨⟨(fd : Int), -1, redirected fd tag t, tag, some fd, -1, ex, sid⟩, ?_, ?_, rfl, rfl⟩
    · simp [GenD.daemonize, GenD.daemonize_b3, sysOpen, hne, daemonizeFds, redirected, sysDup2, sysClose, STDOUT_FILENO, STDERR_FILENO]
    · simp [daemonizeFds]
  · intro fd h hf; simp only at h hf; subst h hf
    have hne : ¬ ((fd : Int) = -1) := by omega
    refine ⟨⟨(fd : Int), 0, redirected fd tag t, tag, some fd, 0, ex, true⟩, ?_, ?_, rfl, rfl⟩
    · simp [GenD.daemonize, GenD.daemonize_b3, GenD.daemonize_b2, GenD.daemonize_b1, sysOpen, hne, daemonizeFds, redirected, sysDup2,
        sysClose, STDOUT_FILENO, STDERR_FILENO]
    · simp [daemonizeFds]
  · intro fd h hf1 hf0; simp only at h hf1 hf0; subst h
    have hne : ¬ ((fd : Int) = -1) := by omega
    refine ⟨⟨(fd : Int), fres, redirected fd tag t, tag, some fd, fres, some 0, sid⟩, ?_, rfl, rfl, rfl⟩
    simp [GenD.daemonize, GenD.daemonize_b3, GenD.daemonize_b2, sysOpen, hne, hf1, hf0, redirected, sysDup2, sysClose, STDOUT_FILENO,
      STDERR_FILENO]

end Nstd.Args.Tie
