import Nstd.Str.LemmasStep
import Nstd.Str.LemmasTotal2
import Nstd.Str.LemmasView
import Nstd.Str.LemmasAlias
/-!
  Property C06 — String is an independent byte-string value matching a reference model.

  Model: `Nstd.Str.Model` (copy-on-write heap of blocks with reference counts, read-only foreign
  regions for literals / attached memory, slots = String variables + the temporaries the C++ code
  creates).  Specification: `Nstd.Str.Spec` (one byte list per variable).  `run s ops = some s'`
  means: the history `ops` executed from `s` without a fault of the checked memory model and
  ended in `s'`.  `Good s` is the invariant of the reachable states (heap invariant + empty temporaries):
  `reach_good` shows every reachable state is `Good` (reachable = by any history of the 41 calls of `Op`), `good_closed` that `Good` is kept by every call of the
  model (mutating calls, extended operations, read-only calls with their C string views, own-pointer calls);
  the theorems assume `Good s` only, so they apply after any mixed history.  All theorems quantify over every number of variables, every content of the
  foreign regions and every history.
-/
namespace Nstd.Str
open Spec (splitRef splitOut)

/-- the states reachable from the initial state by any history of API calls -/
def Reach (n : Nat) (regs : Nat → List Nat) (s : St) : Prop := ∃ ops, run (init n regs) ops = some s

/-- every reachable state satisfies the heap invariant -/
theorem reach_good {n : Nat} {regs : Nat → List Nat} {s : St} (r : Reach n regs s) : Good s := by
  obtain ⟨ops, e⟩ := r
  exact good_run (good_init n regs) e

/-- **`Good` is closed under every call of the model**, so the theorems below (which assume `Good s` only — by
    `reach_good` this covers every reachable state) chain over histories that mix mutating calls, the extended
    operations, read-only calls (whose C string views change the state) and own-pointer calls: the state after
    any of them is `Good` again, with the same variables and the same foreign memory. -/
theorem good_closed {s : St} (g : Good s) :
    (∀ op s', step s op = some s' → Good s' ∧ s'.n = s.n ∧ s'.regs = s.regs) ∧
    (∀ toks op x', xstep { st := s, toks := toks } op = some x' → Good x'.st ∧ x'.st.n = s.n ∧ x'.st.regs = s.regs) ∧
    (∀ v w, validVar s v = true → validVar s w = true → ∀ s',
      ((∃ nd r, findS s v nd = some (s', r)) ∨ (∃ nd r, findLastS s v nd = some (s', r)) ∨
       (∃ nd r, findOneOf s v nd = some (s', r)) ∨ (∃ nd r, findLastOf s v nd = some (s', r)) ∨
       (∃ nd st r, findSFrom s v nd st = some (s', r)) ∨ (∃ nd st r, findOneOfFrom s v nd st = some (s', r)) ∨
       (∃ c st r, findCFrom s v c st = some (s', r)) ∨ (∃ r, compareS s v w = some (s', r)) ∨
       (∃ k r, compareN s v w k = some (s', r)) ∨ (∃ r, compareIC s v w = some (s', r)) ∨
       (∃ k r, compareICN s v w k = some (s', r)) ∨ (∃ r, equalsIC s v w = some (s', r)) ∨
       (∃ r, toBool s v = some (s', r)) ∨ (∃ r, hash s v = some (s', r)) ∨
       (∃ seps skip r, split s v seps skip = some (s', r))) →
      Good s' ∧ s'.n = s.n ∧ s'.regs = s.regs ∧ ∀ u, absVar s' u = absVar s u) ∧
    (∀ v off len s', validVar s v = true →
      (appendAlias s v off len = some s' → (∃ L C, Excl s v L C ∧ off + len ≤ L ∧ L + len ≤ C) → Good s') ∧
      (prependAlias s v off len (userVars s) = some s' → Good s')) := by
  refine ⟨?_, ?_, ?_, ?_⟩
  · intro op s' e
    obtain ⟨_, E, _⟩ := step_ok g e
    exact ⟨good_step g e, E.n, E.regs⟩
  · intro toks op x' e
    obtain ⟨g', r, n', _⟩ := xstep_ok (x := { st := s, toks := toks }) g e
    exact ⟨g', n', r⟩
  · intro v w hv hw s' hq
    obtain ⟨q1, q2, q3, q4, q5, q6, q7, q8, q9, q10, q11, q12, q13, q14, q15⟩ :=
      queries_silent g.inv (valid_facts hv).1 (valid_facts hw).1
    have S : Silent s s' := by
      rcases hq with ⟨a, r, e⟩ | ⟨a, r, e⟩ | ⟨a, r, e⟩ | ⟨a, r, e⟩ | ⟨a, b, r, e⟩ | ⟨a, b, r, e⟩ | ⟨a, b, r, e⟩ |
        ⟨r, e⟩ | ⟨a, r, e⟩ | ⟨r, e⟩ | ⟨a, r, e⟩ | ⟨r, e⟩ | ⟨r, e⟩ | ⟨r, e⟩ | ⟨a, b, r, e⟩
      · exact q1 _ _ _ e
      · exact q2 _ _ _ e
      · exact q3 _ _ _ e
      · exact q4 _ _ _ e
      · exact q5 _ _ _ _ e
      · exact q6 _ _ _ _ e
      · exact q7 _ _ _ _ e
      · exact q8 _ _ e
      · exact q9 _ _ _ e
      · exact q10 _ _ e
      · exact q11 _ _ _ e
      · exact q12 _ _ e
      · exact q13 _ _ e
      · exact q14 _ _ e
      · exact q15 _ _ _ _ e
    exact ⟨good_of_silent g S, S.n, S.regs, S.abs⟩
  · intro v off len s' hv
    have V := valid_facts hv
    constructor
    · intro e ⟨L, C, X, h1, h2⟩
      obtain ⟨s2, e2, E⟩ := eff_appendAlias_reserved g.inv V.1 X h1 h2
      rw [e] at e2; injection e2 with e2; subst e2
      exact good_of_eff g E hv
    · intro e
      exact good_of_eff g (eff_prependAlias g.inv V.1 V.2.2.2.2.1 V.2.1 (g.temps _ (Nat.le_refl _)) e) hv

/-- **Reference counts are exact** (the part of the model C09 builds on): in every reachable state the
    count stored in a live block equals the number of String variables pointing at it and is positive
    (a block disappears exactly with its last handle), and every variable points at a live block. -/
theorem refcount_exact {n : Nat} {regs : Nat → List Nat} {s : St} (r : Reach n regs s) :
    (∀ b blk, s.heap b = some blk → blk.ref = handlesOf s.n s.vars b ∧ 0 < blk.ref) ∧
    (∀ v b, s.vars v = .blk b → ∃ blk, s.heap b = some blk) :=
  ⟨(reach_good r).inv.cnt, (reach_good r).inv.live⟩

/-- **Refinement**: after any history every variable holds exactly the bytes the reference byte list
    (`Spec.run`: one independent `List Byte` per variable) holds.  `Spec.run … = some σ'` says that the
    history stays inside the domain of the specification: the calls that branch on chars (char maps, trim,
    token, replace(String,String)) are applied to values whose chars are all specified, the C-string
    based ones (token, replace) to NUL-free values, `token(const char*, start)` with `start ≤ length()`.
    All other calls (constructors, attach, assignment, detach, resize/reserve, append/prepend in all
    forms incl. self arguments, substr, join, printf) are specified for every state. -/
theorem refines {s s' : St} (g : Good s) : ∀ {ops : List Op} {σ' : Nat → List Byte},
    run s ops = some s' → Spec.run s.regs (absVar s) ops = some σ' → ∀ w, absVar s' w = σ' w
  | [], σ', e, es => by
    simp only [run, Option.some.injEq] at e; subst e
    simp only [Spec.run, Option.some.injEq] at es; subst es
    intro w; rfl
  | op :: ops, σ', e, es => by
    simp only [run, Option.bind_eq_some_iff] at e
    obtain ⟨s1, h1, e⟩ := e
    simp only [Spec.run, Option.bind_eq_some_iff, Spec.step, Option.map_eq_some_iff] at es
    obtain ⟨σ1, ⟨val, hval, rfl⟩, es⟩ := es
    obtain ⟨val', E, hx⟩ := step_ok g h1
    have hv := hx val hval
    subst hv
    have eqf : absVar s1 = upd (absVar s) op.target val' := by
      funext w
      by_cases c : w = op.target
      · subst c; rw [upd_same]; exact E.self
      · rw [upd_other _ _ _ _ c]; exact E.other w c
    have := refines (good_step g h1) e (σ' := σ') (by rw [E.regs, eqf]; exact es)
    exact this

theorem refines_from_init (n : Nat) (regs : Nat → List Nat) (ops : List Op) (s : St)
    (σ : Nat → List Byte) (e : run (init n regs) ops = some s)
    (es : Spec.run regs (fun _ => []) ops = some σ) : ∀ w, absVar s w = σ w := by
  have h0 : absVar (init n regs) = fun _ => [] := by funext w; simp [absVar, init]
  exact refines (good_init n regs) e (by rw [h0]; exact es)

/-- **Independence**: a call changes the value of its target variable only — whatever block sharing
    (lazy copies) exists between the variables, and also when an argument is the target itself. -/
theorem independent {s s' : St} (g : Good s) {op : Op}
    (e : step s op = some s') : ∀ w, w ≠ op.target → absVar s' w = absVar s w := by
  obtain ⟨_, E, _⟩ := step_ok g e
  exact E.other

/-- **Foreign memory is never written**: no call changes a byte of a literal or of attached memory
    (including the guard byte behind it).  (In the model a store through a pointer that is not an
    exclusively owned heap block is a fault, so a stray store attempt would show as `step … = none`.) -/
theorem foreign_untouched {n : Nat} {regs : Nat → List Nat} {s : St} (r : Reach n regs s) : s.regs = regs := by
  obtain ⟨ops, e⟩ := r
  have : ∀ {ops : List Op} {s0 : St}, Good s0 → run s0 ops = some s → s.regs = s0.regs := by
    intro ops
    induction ops with
    | nil => intro s0 _ e; simp only [run, Option.some.injEq] at e; subst e; rfl
    | cons op ops ih =>
      intro s0 g e
      simp only [run, Option.bind_eq_some_iff] at e
      obtain ⟨s1, h1, e⟩ := e
      obtain ⟨_, E, _⟩ := step_ok g h1
      rw [ih (good_step g h1) e, E.regs]
  exact this (good_init n regs) e

/-- **Owned text is always terminated**: in every reachable state a String that owns its block has
    `str[length()] == 0`. -/
theorem owned_terminated {s : St} (g : Good s) {v b : Nat}
    (hv : s.vars v = .blk b) : termByte s v = some (some 0) := by
  have h := g.inv
  obtain ⟨blk, hb⟩ := h.live v b hv
  simp only [termByte, desc_blk hv hb, memOf, hb, Option.bind_eq_bind, Option.bind_some, Option.map_some, Nat.zero_add]
  exact (h.wf b blk hb).2.2

/-- **The C string view is NUL-terminated at `length()`** — for every variable in every reachable
    state (empty, literal, attached without terminator, owned, shared), and taking the view does not
    change any value. -/
theorem cstr_terminated {s s' : St} (g : Good s) {v : Nat}
    (e : step s (.cview v) = some s') :
    termByte s' v = some (some 0) ∧ ∀ w, absVar s' w = absVar s w := by
  simp only [step] at e
  split at e
  · rename_i c
    have V := valid_facts c
    obtain ⟨E, t⟩ := eff_cview g.inv V.1 e
    exact ⟨t, E.silent.abs⟩
  · cases e

/-- **No fault**: in every reachable state every mutating call whose arguments are valid (`ValidArgs`: the
    variables exist, `attach` gets a range with one readable byte behind it, the copy constructor is
    applied to another object) and which lies in the domain of the specification (`Spec.newVal … ≠ none`:
    calls that branch on chars get specified chars, the C-string based ones NUL-free values,
    `token(const char*, start)` has `start ≤ length()`) performs only in-range loads, branches only on
    initialised chars, stores only into a block the variable owns exclusively and its loops terminate
    (the fuel of `replace` suffices) — for all arguments, including the variable itself. -/
theorem no_fault {s : St} (g : Good s) {op : Op}
    (va : ValidArgs s op) (dom : (Spec.newVal s.regs (absVar s) op).isSome = true) : ∃ s', step s op = some s' :=
  step_total_all g va dom

/-- **Specified histories run to the specified state**: a history with valid arguments that the
    specification accepts executes on the model without any fault, and ends with every variable holding
    the reference bytes (no_fault and refines together, from the initial state). -/
theorem run_total {s : St} (g : Good s) : ∀ {ops : List Op} {σ' : Nat → List Byte},
    (∀ op ∈ ops, ValidArgs s op) → Spec.run s.regs (absVar s) ops = some σ' →
    ∃ s', run s ops = some s' ∧ ∀ w, absVar s' w = σ' w
  | [], σ', _, es => by
    simp only [Spec.run, Option.some.injEq] at es; subst es
    exact ⟨s, rfl, fun _ => rfl⟩
  | op :: ops, σ', va, es => by
    simp only [Spec.run, Option.bind_eq_some_iff, Spec.step, Option.map_eq_some_iff] at es
    obtain ⟨σ1, ⟨val, hval, rfl⟩, es⟩ := es
    obtain ⟨s1, h1⟩ := step_total_all g (va op (by simp)) (by rw [hval]; rfl)
    obtain ⟨val', E, hx⟩ := step_ok g h1
    have hv := hx val hval
    subst hv
    have eqf : absVar s1 = upd (absVar s) op.target val' := by
      funext w
      by_cases c : w = op.target
      · subst c; rw [upd_same]; exact E.self
      · rw [upd_other _ _ _ _ c]; exact E.other w c
    obtain ⟨s', hr, hw⟩ := run_total (good_step g h1) (ops := ops) (σ' := σ')
      (fun o ho => (validArgs_congr E.n E.regs o).mpr (va o (by simp [ho])))
      (by rw [E.regs, eqf]; exact es)
    exact ⟨s', by simp only [run, h1, Option.bind_some]; exact hr, hw⟩

/-- **No fault, queries**: on variables whose chars are specified and NUL-free the comparisons, the
    searches, `split`, `find(char)` and `operator==` perform no out-of-range or uninitialised read
    (their C string views included) — for any two variables, also the same one twice. -/
theorem no_fault_queries {s : St} (g : Good s) {v w : Nat}
    (hv : validVar s v = true) (hw : validVar s w = true) {a b : List Nat}
    (ha : allSome (absVar s v) = some a) (hb : allSome (absVar s w) = some b)
    (hza : ∀ x ∈ a, x ≠ 0) (hzb : ∀ x ∈ b, x ≠ 0) (k : Nat) (needle : List Nat) (skip : Bool) (c : Nat) :
    (compareS s v w).isSome ∧ (compareN s v w k).isSome ∧ (compareIC s v w).isSome ∧ (compareICN s v w k).isSome ∧
    (findS s v needle).isSome ∧ (findLastS s v needle).isSome ∧ (findOneOf s v needle).isSome ∧
    (findLastOf s v needle).isSome ∧ (split s v needle skip).isSome ∧
    (findC s v c).isSome ∧ (findLastC s v c).isSome ∧ (equalS s v w).isSome :=
  queries_total g.inv (valid_facts hv).1 (valid_facts hw).1 ha hb hza hzb k needle skip c

/-- the same for `startsWith`, `endsWith` and the searches with a start index (any `start`) -/
theorem no_fault_queries_from {s : St} (g : Good s) {v w : Nat}
    (hv : validVar s v = true) {a b : List Nat} (ha : allSome (absVar s v) = some a)
    (hb : allSome (absVar s w) = some b) (hza : 0 ∉ a) (needle : List Nat) (c st : Nat) :
    (startsWith s v w).isSome ∧ (endsWith s v w).isSome ∧ (findSFrom s v needle st).isSome ∧
    (findOneOfFrom s v needle st).isSome ∧ (findCFrom s v c st).isSome :=
  queries_total2 g.inv (valid_facts hv).1 ha hb hza needle c st

/-- and for `toBool`, `equalsIgnoreCase`, `hash` — with these every read-only call of the model is covered -/
theorem no_fault_queries_rest {s : St} (g : Good s) {v w : Nat}
    (hv : validVar s v = true) (hw : validVar s w = true) {a b : List Nat}
    (ha : allSome (absVar s v) = some a) (hb : allSome (absVar s w) = some b)
    (hza : ∀ x ∈ a, x ≠ 0) (hzb : ∀ x ∈ b, x ≠ 0) :
    (toBool s v).isSome ∧ (equalsIC s v w).isSome ∧ (hash s v).isSome :=
  queries_total3 g.inv (valid_facts hv).1 (valid_facts hw).1 ha hb hza hzb

/-! ### query lemmas: the answers are the libc reference functions applied to the values -/

/-- `find(const char*)`: the first occurrence of the needle in the value (NUL-free, specified chars) -/
theorem find_spec {s s' : St} (g : Good s) {v : Nat}
    (hv : validVar s v = true) {needle c : List Nat} {res : Option Nat}
    (e : findS s v needle = some (s', res)) (hc : allSome (absVar s v) = some c) (hz : ∀ x ∈ c, x ≠ 0) :
    (∀ w, absVar s' w = absVar s w) ∧ FirstMatch c needle res := by
  obtain ⟨rfl, ab⟩ := findS_eq g.inv (valid_facts hv).1 e hc hz
  exact ⟨ab, strstr_first c needle⟩

/-- `findLast(const char*)` (repaired, D7): the last occurrence; for the empty needle the offset of the terminator -/
theorem findLastStr_spec {s s' : St} (g : Good s) {v : Nat}
    (hv : validVar s v = true) {needle c : List Nat} {res : Option Nat}
    (e : findLastS s v needle = some (s', res)) (hc : allSome (absVar s v) = some c) (hz : ∀ x ∈ c, x ≠ 0) :
    (∀ w, absVar s' w = absVar s w) ∧ LastMatch c needle res ∧ (needle = [] → res = some c.length) := by
  have g := g.inv
  have V := valid_facts hv
  obtain ⟨lm, ab⟩ := findLastS_eq g V.1 e hc hz
  refine ⟨ab, lm, ?_⟩
  intro hn; subst hn
  simp only [findLastS, Option.bind_eq_bind, Option.bind_eq_some_iff, Option.pure_def, Option.some.injEq,
    Prod.mk.injEq] at e
  obtain ⟨s1, h1, hh, h2, _, rfl⟩ := e
  obtain ⟨E, t⟩ := eff_cview g V.1 h1
  have := cstrVar_eq E.inv t (by rw [E.self]; exact hc) hz
  rw [this] at h2; injection h2 with h2; subst h2
  exact findLast_empty_needle _

/-- `findOneOf(const char*)`: the first char of the value that is in the set -/
theorem findOneOf_spec {s s' : St} (g : Good s) {v : Nat}
    (hv : validVar s v = true) {chars c : List Nat} {res : Option Nat}
    (e : findOneOf s v chars = some (s', res)) (hc : allSome (absVar s v) = some c) (hz : ∀ x ∈ c, x ≠ 0) :
    (∀ w, absVar s' w = absVar s w) ∧ FirstOf c chars res := by
  obtain ⟨rfl, ab⟩ := findOneOf_eq g.inv (valid_facts hv).1 e hc hz
  exact ⟨ab, strpbrk_first c chars⟩

/-- `compare(other)`: zero iff the values are equal, negative iff the first is lexicographically smaller
    (unsigned chars) — also when both arguments are the same variable or share a block -/
theorem compare_spec {s s' : St} (g : Good s) {v w : Nat}
    (hv : validVar s v = true) (hw : validVar s w = true) {res : Int} {a b : List Nat}
    (e : compareS s v w = some (s', res)) (ha : allSome (absVar s v) = some a) (hb : allSome (absVar s w) = some b)
    (hza : ∀ x ∈ a, x ≠ 0) (hzb : ∀ x ∈ b, x ≠ 0) :
    (∀ u, absVar s' u = absVar s u) ∧ (res = 0 ↔ a = b) ∧ (res < 0 ↔ a < b) := by
  obtain ⟨rfl, ab⟩ := compareS_eq g.inv (valid_facts hv).1 (valid_facts hw).1 e ha hb hza hzb
  exact ⟨ab, strcmp_eq_zero hza hzb, strcmp_neg hza hzb⟩

/-- `compare(other, n)` compares the first `n` chars; `compareIgnoreCase` compares the ASCII-lowered values:
    zero iff these are equal, negative iff lexicographically smaller -/
theorem compareN_IC_spec {s : St} (g : Good s) {v w : Nat}
    (hv : validVar s v = true) (hw : validVar s w = true) {a b : List Nat}
    (ha : allSome (absVar s v) = some a) (hb : allSome (absVar s w) = some b)
    (hza : ∀ x ∈ a, x ≠ 0) (hzb : ∀ x ∈ b, x ≠ 0) :
    (∀ k s' res, compareN s v w k = some (s', res) →
      (res = 0 ↔ a.take k = b.take k) ∧ (res < 0 ↔ a.take k < b.take k)) ∧
    (∀ s' res, compareIC s v w = some (s', res) →
      (res = 0 ↔ a.map toLower = b.map toLower) ∧ (res < 0 ↔ a.map toLower < b.map toLower)) := by
  have g := g.inv
  have V := valid_facts hv
  have W := valid_facts hw
  constructor
  · intro k s' res e
    obtain ⟨rfl, _⟩ := compareN_eq g V.1 W.1 e ha hb hza hzb
    have h1 : ∀ x ∈ a.take k, x ≠ 0 := fun x hx => hza x (List.mem_of_mem_take hx)
    have h2 : ∀ x ∈ b.take k, x ≠ 0 := fun x hx => hzb x (List.mem_of_mem_take hx)
    exact ⟨strcmp_eq_zero h1 h2, strcmp_neg h1 h2⟩
  · intro s' res e
    obtain ⟨rfl, _⟩ := compareIC_eq g V.1 W.1 e ha hb hza hzb
    have h1 : ∀ x ∈ a.map toLower, x ≠ 0 := by
      intro x hx; obtain ⟨y, hy, rfl⟩ := List.mem_map.mp hx; exact toLower_ne_zero (hza y hy)
    have h2 : ∀ x ∈ b.map toLower, x ≠ 0 := by
      intro x hx; obtain ⟨y, hy, rfl⟩ := List.mem_map.mp hx; exact toLower_ne_zero (hzb y hy)
    exact ⟨strcmp_eq_zero h1 h2, strcmp_neg h1 h2⟩

/-- `equalsIgnoreCase`: true iff the ASCII-lowered values are equal -/
theorem equalsIgnoreCase_spec {s s' : St} (g : Good s) {v w : Nat}
    (hv : validVar s v = true) (hw : validVar s w = true) {res : Bool} {a b : List Nat}
    (e : equalsIC s v w = some (s', res)) (ha : allSome (absVar s v) = some a) (hb : allSome (absVar s w) = some b)
    (hza : ∀ x ∈ a, x ≠ 0) (hzb : ∀ x ∈ b, x ≠ 0) :
    (res = true ↔ a.map toLower = b.map toLower) ∧ ∀ u, absVar s' u = absVar s u :=
  equalsIC_eq g.inv (valid_facts hv).1 (valid_facts hw).1 e ha hb hza hzb

/-- `toBool()`: false exactly for "", "0", "false" in any letter case, and for zeros around a single
    decimal point with at least one zero; true for every other value -/
theorem toBool_state_spec {s s' : St} (g : Good s) {v : Nat}
    (hv : validVar s v = true) {res : Bool} {c : List Nat}
    (e : toBool s v = some (s', res)) (hc : allSome (absVar s v) = some c) (hz : ∀ x ∈ c, x ≠ 0) :
    (res = false ↔ toBoolFalse c) ∧ ∀ u, absVar s' u = absVar s u :=
  toBool_eq g.inv (valid_facts hv).1 e hc hz

/-- `compareIgnoreCase(other, n)`: the comparison of the first `n` ASCII-lowered chars -/
theorem compareICN_spec {s s' : St} (g : Good s) {v w : Nat}
    (hv : validVar s v = true) (hw : validVar s w = true) {res : Int} {k : Nat} {a b : List Nat}
    (e : compareICN s v w k = some (s', res)) (ha : allSome (absVar s v) = some a)
    (hb : allSome (absVar s w) = some b) (hza : ∀ x ∈ a, x ≠ 0) (hzb : ∀ x ∈ b, x ≠ 0) :
    (res = 0 ↔ (a.map toLower).take k = (b.map toLower).take k) ∧
    (res < 0 ↔ (a.map toLower).take k < (b.map toLower).take k) ∧ ∀ u, absVar s' u = absVar s u := by
  obtain ⟨rfl, ab⟩ := compareICN_eq g.inv (valid_facts hv).1 (valid_facts hw).1 e ha hb hza hzb
  have h1 : ∀ x ∈ (a.map toLower).take k, x ≠ 0 := by
    intro x hx; obtain ⟨y, hy, rfl⟩ := List.mem_map.mp (List.mem_of_mem_take hx); exact toLower_ne_zero (hza y hy)
  have h2 : ∀ x ∈ (b.map toLower).take k, x ≠ 0 := by
    intro x hx; obtain ⟨y, hy, rfl⟩ := List.mem_map.mp (List.mem_of_mem_take hx); exact toLower_ne_zero (hzb y hy)
  exact ⟨strcmp_eq_zero h1 h2, strcmp_neg h1 h2, ab⟩

/-- `hash(const String&)`: the 64-bit mix `hashL` of the length and the chars `s[0]`, `s[len/2]`, `s[len-1]`
    (signed chars) of the value; it depends on nothing else, and taking it changes no value -/
theorem hash_spec {s s' : St} (g : Good s) {v : Nat}
    (hv : validVar s v = true) {res : Nat} {a : List Nat} (e : hash s v = some (s', res))
    (ha : allSome (absVar s v) = some a) :
    res = hashL a.length (a ++ [0]) ∧ (∀ u, absVar s' u = absVar s u) ∧
    ∀ b : List Nat, a.length = b.length → a.getD 0 0 = b.getD 0 0 →
      a.getD (a.length / 2) 0 = b.getD (a.length / 2) 0 → a.getD (a.length - 1) 0 = b.getD (a.length - 1) 0 →
      res = hashL b.length (b ++ [0]) := by
  obtain ⟨rfl, ab⟩ := hash_eq g.inv (valid_facts hv).1 e ha
  exact ⟨rfl, ab, fun b hl h0 hm he => hashL_depends a b hl h0 hm he⟩

/-- the case maps of the current String.cpp (regenerated by tools/gen_str.py on every run): `toLowerCase`
    maps 'A'..'Z' to 'a'..'z', `toUpperCase` maps 'a'..'z' to 'A'..'Z', every other char to itself -/
theorem case_maps : (∀ c, c < 256 → toLower c = if 65 ≤ c ∧ c ≤ 90 then c + 32 else c) ∧
    (∀ c, c < 256 → toUpper c = if 97 ≤ c ∧ c ≤ 122 then c - 32 else c) :=
  ⟨lower_map, upper_map⟩

/-- **`token(separator, start)` — the iteration contract.**  On a specified NUL-free value `c` of `w` the call
    `v = w.token(sep, start)` gives `v` the chars from `start` up to the first separator (or the rest), changes no
    other value, and leaves `start` = index behind that separator, or `length()` when there is none (also when
    `start ≥ length()` for the char form; the `const char*` form requires `start ≤ length()`). -/
theorem token_spec {s : St} (g : Good s) {v w : Nat} (hv : validVar s v = true) (hw : validVar s w = true)
    {c : List Nat} (hc : allSome (absVar s w) = some c) (hz : 0 ∉ c) (st : Nat) :
    (∀ sep s' r, tokenC s v w sep st (userVars s) = some (s', r) →
      r = (if st ≥ c.length then c.length else Spec.tokenNext c st (strchrL (c.drop st) sep)) ∧
      Eff s s' v ((if st ≥ c.length then [] else Spec.tokenL c st (strchrL (c.drop st) sep)).map some)) ∧
    (∀ seps s' r, st ≤ c.length → tokenS s v w seps st (userVars s) = some (s', r) →
      r = Spec.tokenNext c st (strpbrkL (c.drop st) seps) ∧
      Eff s s' v ((Spec.tokenL c st (strpbrkL (c.drop st) seps)).map some)) := by
  have V := valid_facts hv
  have W := valid_facts hw
  have t0 := g.temps _ (Nat.le_refl (userVars s))
  exact ⟨fun sep s' r e => ⟨tokenC_start g.inv W.1 hc hz e,
      eff_tokenC g.inv V.1 W.1 V.2.2.2.2.1 V.2.1 t0 hc hz e⟩,
    fun seps s' r hst e => ⟨tokenS_start g.inv W.1 hc hz hst e,
      eff_tokenS g.inv V.1 W.1 V.2.2.2.2.1 V.2.1 t0 hc hz hst e⟩⟩

/-- … and iterating it: `start = 0; while(start < length()) tokens += token(seps, start);` (`Spec.tokenIter`,
    built from exactly the token value and the new `start` of `token_spec`) delivers the pieces `split` delivers
    without `skipEmpty` (`splitRef`), except a final empty piece (behind a trailing separator / of the empty
    string), which the loop condition cuts off. -/
theorem token_iteration_spec (seps c : List Nat) :
    Spec.tokenIter seps c (c.length + 1) 0 = dropLastEmpty (Spec.splitRef seps c) :=
  token_iteration seps c

/-- **`substr(start, length)`, stated independently of the model's arithmetic**: a negative `start` counts
    from the end (clamped to 0), a `start` behind the end is the end; a negative `length` means "to the end",
    otherwise the end is `start + length` clamped to `length()`.  (`Spec.newVal (.substr …)` is `subList`.) -/
theorem substr_spec (c : List Byte) (st ln : Int) :
    subList c st ln =
      (c.drop (if st < 0 then max 0 ((c.length : Int) + st) else min st c.length).toNat).take
        ((if ln < 0 then (c.length : Int)
          else min (c.length : Int) ((if st < 0 then max 0 ((c.length : Int) + st) else min st c.length) + ln)).toNat
         - (if st < 0 then max 0 ((c.length : Int) + st) else min st c.length).toNat) :=
  subList_spec c st ln

/-- the range `trim` keeps (as computed by the two scanning loops of the C++ code) is the value
    without its leading and trailing chars of the set -/
theorem trim_spec (chars c : List Nat) :
    (c.drop (c.takeWhile (inSet chars)).length).take
        (c.length - ((c.drop (c.takeWhile (inSet chars)).length).reverse.takeWhile (inSet chars)).length
          - (c.takeWhile (inSet chars)).length)
      = ((c.dropWhile (inSet chars)).reverse.dropWhile (inSet chars)).reverse :=
  trim_range _ c

/-- `split(tokens, separators, skipEmpty)`: the tokens are the pieces of the value between separator
    chars (`splitRef`), all of them or — with `skipEmpty` — the non-empty ones; the value is unchanged -/
theorem split_spec {s s' : St} (g : Good s) {v : Nat}
    (hv : validVar s v = true) {seps c : List Nat} {skip : Bool} {toks : List (List Byte)}
    (e : split s v seps skip = some (s', toks)) (hc : allSome (absVar s v) = some c) (hz : ∀ x ∈ c, x ≠ 0) :
    toks = splitOut skip (splitRef seps c) ∧ ∀ w, absVar s' w = absVar s w :=
  split_eq g.inv (valid_facts hv).1 e hc hz

/-- `find(char)` / `findLast(char)`: first / last index holding the char; `findLast(char)` finds nothing
    exactly when the char does not occur -/
theorem findChar_spec {s : St} (g : Good s) {v c : Nat} {a : List Nat}
    (ha : allSome (absVar s v) = some a) :
    (∀ res, findC s v c = some res → res = a.findIdx? (· == c)) ∧
    (∀ res i, findLastC s v c = some res → res = some i →
      ∃ hi : i < a.length, a[i] = c ∧ ∀ j (hj : j < a.length), i < j → a[j] ≠ c) ∧
    (∀ res, findLastC s v c = some res → res = none → c ∉ a) ∧
    (∀ res, findLastC s v c = some res → c ∈ a → ∃ i, res = some i) := by
  have g := g.inv
  refine ⟨fun res e => findC_eq g e ha, ?_, ?_, ?_⟩
  · intro res i e hi
    have := findLastC_eq g e ha
    rw [hi] at this
    exact findLastIdx_some this.symm
  · intro res e hn
    have := findLastC_eq g e ha
    rw [hn] at this
    exact findLastIdx_none this.symm
  · intro res e hc
    have := findLastC_eq g e ha
    cases res with
    | some i => exact ⟨i, rfl⟩
    | none => exact absurd hc (findLastIdx_none this.symm)

/-- `operator==` and `startsWith` decide equality / the prefix relation of the values, whatever blocks
    the two variables share (they may be the same variable) -/
theorem equal_startsWith_spec {s : St} (g : Good s) {v w : Nat}
    {a b : List Nat} (ha : allSome (absVar s v) = some a) (hb : allSome (absVar s w) = some b) :
    (∀ res, equalS s v w = some res → (res = true ↔ a = b)) ∧
    (∀ res, startsWith s v w = some res → (res = true ↔ b <+: a)) :=
  ⟨fun _ e => equalS_eq g.inv e ha hb, fun _ e => startsWith_eq g.inv e ha hb⟩

/-- `endsWith` decides the suffix relation of the values; `findLastOf(chars)` returns the last char of the
    value that is in the set -/
theorem endsWith_findLastOf_spec {s : St} (g : Good s) {v w : Nat}
    (hv : validVar s v = true) {a b : List Nat} (ha : allSome (absVar s v) = some a)
    (hb : allSome (absVar s w) = some b) (hza : ∀ x ∈ a, x ≠ 0) :
    (∀ res, endsWith s v w = some res → (res = true ↔ b <:+ a)) ∧
    (∀ chars s' res, findLastOf s v chars = some (s', res) → LastOf a chars res ∧ ∀ u, absVar s' u = absVar s u) :=
  ⟨fun _ e => endsWith_eq g.inv e ha hb,
   fun _ _ _ e => findLastOf_eq g.inv (valid_facts hv).1 e ha hza⟩

/-- `find(str, start)`, `findOneOf(chars, start)`, `find(char, start)`: nothing is found at or behind the end,
    otherwise the search runs over the rest of the value from `start` and the offset is counted from the
    beginning (`find(char, start)` with the NUL char finds the terminator) -/
theorem findFrom_spec {s : St} (g : Good s) {v : Nat}
    (hv : validVar s v = true) {c : List Nat} (hc : allSome (absVar s v) = some c) (hz : 0 ∉ c)
    (needle : List Nat) (ch st : Nat) :
    (∀ s' res, findSFrom s v needle st = some (s', res) →
      res = (if st ≥ c.length then none else (strstrL (c.drop st) needle).map (· + st)) ∧ ∀ w, absVar s' w = absVar s w) ∧
    (∀ s' res, findOneOfFrom s v needle st = some (s', res) →
      res = (if st ≥ c.length then none else (strpbrkL (c.drop st) needle).map (· + st)) ∧ ∀ w, absVar s' w = absVar s w) ∧
    (∀ s' res, findCFrom s v ch st = some (s', res) →
      res = (if st ≥ c.length then none else (strchrL (c.drop st) ch).map (· + st)) ∧ ∀ w, absVar s' w = absVar s w) := by
  have g := g.inv
  have V := valid_facts hv
  obtain ⟨a, b⟩ := findFrom_eq g V.1 hc hz needle st
  refine ⟨a, b, ?_⟩
  intro s' res e
  obtain ⟨S, hr⟩ := findCFrom_eq g V.1 hc hz e
  exact ⟨hr, S.abs⟩

/-! ### the token list, String operands built from (ptr, len) -/

/-- **Refinement of the extended operations**: histories that also use `split(tokens, …)` / `join(tokens, …)`
    over one token list and `append/prepend(String(ptr, len))` end — if the model runs them and the
    specification accepts them — in the specified variables *and* the specified token list; the heap
    invariant holds and foreign memory is unchanged throughout. -/
theorem xrefines (n : Nat) (regs : Nat → List Nat) (ops : List XOp) (x : XSt)
    (e : xrun { st := init n regs, toks := [] } ops = some x) :
    Good x.st ∧ x.st.regs = regs ∧
    ∀ X, Spec.xrun regs { σ := fun _ => [], toks := [] } ops = some X → X.σ = absVar x.st ∧ X.toks = x.toks := by
  obtain ⟨g, r, sp⟩ := xrun_ok (x := { st := init n regs, toks := [] }) (good_init n regs) e
  refine ⟨g, r, ?_⟩
  intro X hX
  have h0 : xabs { st := init n regs, toks := [] } = { σ := fun _ => [], toks := [] } := by
    simp only [xabs]; congr 1
  have := sp X (by rw [h0]; exact hX)
  subst this
  exact ⟨rfl, rfl⟩

/-! ### pointer arguments into the string's own storage

    String.hpp documents nothing about passing `(const char*)s + off` back into a mutating call of `s`.  All
    theorems above take the chars of `(ptr, len)` / `const char*` arguments *by value*: the **precondition** is
    that such a pointer does not point into the storage of the String the call modifies.  The three theorems
    below say what happens without it. -/

/-- `s.prepend((const char*)s + off, len)` is nevertheless safe and gives the expected value: the local
    `String copy(*this)` keeps the old storage alive while it is read -/
theorem prepend_alias_safe {s s' : St} (g : Good s) {v off len : Nat}
    (hv : validVar s v = true) (e : prependAlias s v off len (userVars s) = some s') :
    Eff s s' v (((absVar s v).drop off).take len ++ absVar s v) := by
  have V := valid_facts hv
  exact eff_prependAlias g.inv V.1 V.2.2.2.2.1 V.2.1 (g.temps _ (Nat.le_refl _)) e

/-- `s.append((const char*)s + off, len)` is safe when nothing is reallocated: `s` owns its block exclusively
    and the capacity suffices (e.g. after `reserve`) -/
theorem append_alias_reserved {s : St} (g : Good s) {v off len L C : Nat}
    (hv : validVar s v = true) (X : Excl s v L C) (hol : off + len ≤ L) (hC : L + len ≤ C) :
    ∃ s', appendAlias s v off len = some s' ∧ Eff s s' v (absVar s v ++ ((absVar s v).drop off).take len) :=
  eff_appendAlias_reserved g.inv (valid_facts hv).1 X hol hC

/-- … and it is a use-after-free otherwise: `String s("abcd", 4); s.append((const char*)s, 4)` reallocates,
    deletes the block and then copies from it (fault of the model; heap-use-after-free of the real code) —
    while the same call after `s.reserve(8)` is fine.  The precondition cannot be dropped. -/
theorem alias_append_faults :
    ((run (init 7 (fun _ => [])) [.ctorPtr 0 [97, 98, 99, 100]]).bind (fun s => appendAlias s 0 0 4)).isSome = false ∧
    ((run (init 7 (fun _ => [])) [.ctorPtr 0 [97, 98, 99, 100], .reserve 0 8]).bind
      (fun s => appendAlias s 0 0 4)).isSome = true := by
  decide

/-! ### non-vacuity: a concrete history with literal and unterminated attached memory, lazy copies,
    self arguments, temporaries and C-string based calls meets every hypothesis used above -/

def exampleRegs : Nat → List Nat
  | 0 => [97, 98, 0]                -- literal "ab"
  | 1 => [97, 98, 47, 32, 0xEE]     -- attached "ab/ " followed by a guard byte that is not NUL
  | _ => []

def exampleProg : List Op :=
  [.attach 0 0 0 2, .assign 1 0, .attach 2 1 0 4, .appendS 2 2, .prependS 1 1, .assign 3 1, .cview 2,
   .replaceL 1 [98] [120, 121], .tokenC 0 1 121 0, .upper 3, .trim 2 [97, 32], .resize 0 1,
   .substr 0 0 (-1) (-1), .plus 0 3 3, .plusLit 0 0 0 2, .plusEqS 0 0, .plusEqC 0 33, .fromD 2 (-7), .fromBool 2 true,
   .fromCStr 2 [97, 0, 98], .fromPrintf 2 [.lit [120], .u 5, .s [97, 98]], .plus 2 2 0]

example : ∀ op ∈ exampleProg, ValidArgs (init 7 exampleRegs) op := by
  simp [exampleProg, ValidArgs, validVar, userVars, init, exampleRegs]

example : ∃ σ, Spec.run exampleRegs (fun _ => []) exampleProg = some σ ∧
    σ 1 = [some 97, some 120, some 121, some 97, some 120, some 121] ∧
    σ 2 = [some 120, some 53, some 97, some 98] ++ σ 0 ∧ σ 3 = [some 65, some 66, some 65, some 66] ∧
    σ 0 = ([65, 66, 65, 66, 65, 66, 65, 66, 97, 98, 65, 66, 65, 66, 65, 66, 65, 66, 97, 98, 33] : List Nat).map some :=
  ⟨_, rfl, by decide, by decide, by decide, by decide⟩

/-- hence (by `run_total`) the model executes this history without fault and ends in these values,
    and the final state is a `Reach` state to which all theorems above apply -/
example : ∃ s, Reach 7 exampleRegs s ∧ absVar s 3 = [some 65, some 66, some 65, some 66] ∧ s.regs = exampleRegs := by
  have h0 : absVar (init 7 exampleRegs) = fun _ => [] := by funext w; simp [absVar, init]
  obtain ⟨s, hr, hw⟩ := run_total (good_init 7 exampleRegs) (ops := exampleProg)
    (σ' := (Spec.run exampleRegs (fun _ => []) exampleProg).getD (fun _ => []))
    (by simp [exampleProg, ValidArgs, validVar, userVars, init, exampleRegs])
    (by rw [h0]; rfl)
  refine ⟨s, ⟨exampleProg, hr⟩, ?_, foreign_untouched ⟨exampleProg, hr⟩⟩
  rw [hw 3]; decide

example : subList [some 97, some 98, some 99, some 100] (-2) (-1) = [some 99, some 100] ∧
    subList [some 97, some 98, some 99] 1 5 = [some 98, some 99] ∧ subList [some 97] 7 (-1) = [] := by decide

example : Spec.tokenIter [47] [97, 47, 47, 98, 47] 6 0 = [[97], [], [98]] ∧
    Spec.splitRef [47] [97, 47, 47, 98, 47] = [[97], [], [98], []] := by decide

example : strstrL [97, 98, 97, 98] [98, 97] = some 1 ∧ findLastLoop [97, 98, 97, 98] [97, 98] 5 0 none = some 2 ∧
    findLastLoop [97, 98] [] 3 0 none = some 2 ∧ strcmpL [97, 98] [97, 128] < 0 := by decide

/-! ### extension round: further read-only calls, capacity, static helpers, own-pointer attach / printf -/

/-- **The further read-only calls**: `operator< <= > >=` decide the lexicographic order of the values (unsigned chars),
    `operator!=` their difference, `equalsIgnoreCase(other, n)` the equality of the first `n` ASCII-lowered chars,
    `isEmpty()` emptiness, `split(HashSet<String>&, …)` delivers the pieces of `split` without later duplicates; the
    calls that take C string views keep the invariant and every value. -/
theorem queries_more_spec {s : St} (g : Good s) {v w : Nat}
    (hv : validVar s v = true) (hw : validVar s w = true) {a b : List Nat}
    (ha : allSome (absVar s v) = some a) (hb : allSome (absVar s w) = some b)
    (hza : ∀ x ∈ a, x ≠ 0) (hzb : ∀ x ∈ b, x ≠ 0) :
    (∀ k s' res, relS s v w k = some (s', res) →
      (res = true ↔ match k with | .lt => a < b | .le => a < b ∨ a = b | .gt => ¬ (a < b ∨ a = b) | .ge => ¬ a < b) ∧
      Good s' ∧ ∀ u, absVar s' u = absVar s u) ∧
    (∀ res, notEqualS s v w = some res → (res = true ↔ a ≠ b)) ∧
    (∀ n s' res, equalsICN s v w n = some (s', res) →
      (res = true ↔ (a.map toLower).take n = (b.map toLower).take n) ∧ Good s' ∧ ∀ u, absVar s' u = absVar s u) ∧
    (∀ res, isEmpty s v = some res → (res = true ↔ a = [])) ∧
    (∀ seps skip s' toks, splitSet s v seps skip = some (s', toks) →
      toks = dedupToks (splitOut skip (splitRef seps a)) ∧ Good s' ∧ ∀ u, absVar s' u = absVar s u) := by
  have h := g.inv
  have V := valid_facts hv
  have W := valid_facts hw
  obtain ⟨q1, q2, q3, q4, q5, q6, q7, q8, q9, q10, q11, q12, q13, q14, q15⟩ := queries_silent h V.1 W.1
  refine ⟨?_, ?_, ?_, ?_, ?_⟩
  · intro k s' res e
    simp only [relS, Option.bind_eq_bind, Option.bind_eq_some_iff, Option.pure_def, Option.some.injEq, Prod.mk.injEq] at e
    obtain ⟨⟨s1, r⟩, h1, rfl, rfl⟩ := e
    obtain ⟨rfl, ab⟩ := compareS_eq h V.1 W.1 h1 ha hb hza hzb
    have z := strcmp_eq_zero hza hzb
    have n := strcmp_neg hza hzb
    refine ⟨?_, good_of_silent g (q8 _ _ h1), ab⟩
    cases k <;> simp only [Rel.holds, decide_eq_true_eq]
    · exact n
    · rw [← z, ← n]; omega
    · rw [← z, ← n]; omega
    · rw [← n]; omega
  · intro res e
    obtain ⟨dv, hdv⟩ := desc_some h v
    obtain ⟨dw, hdw⟩ := desc_some h w
    have lv : dv.len = a.length := by rw [desc_len h hdv, allSome_eq ha, List.length_map]
    have lw : dw.len = b.length := by rw [desc_len h hdw, allSome_eq hb, List.length_map]
    simp only [notEqualS, hdv, hdw, Option.bind_eq_bind, Option.bind_some, contentVal_eq h, ha, hb] at e
    by_cases c : dv.len ≠ dw.len
    · simp only [c, ne_eq, not_false_eq_true, if_true, Option.pure_def, Option.some.injEq] at e
      subst e
      simp only [true_iff]
      intro x; subst x; omega
    · simp only [c, if_false, Option.pure_def, Option.some.injEq] at e
      subst e
      simp
  · intro n s' res e
    simp only [equalsICN, Option.bind_eq_bind, Option.bind_eq_some_iff, Option.pure_def, Option.some.injEq, Prod.mk.injEq] at e
    obtain ⟨⟨s1, r⟩, h1, rfl, rfl⟩ := e
    obtain ⟨rfl, ab⟩ := compareICN_eq h V.1 W.1 h1 ha hb hza hzb
    have h1' : ∀ x ∈ (a.map toLower).take n, x ≠ 0 := by
      intro x hx; obtain ⟨y, hy, rfl⟩ := List.mem_map.mp (List.mem_of_mem_take hx); exact toLower_ne_zero (hza y hy)
    have h2' : ∀ x ∈ (b.map toLower).take n, x ≠ 0 := by
      intro x hx; obtain ⟨y, hy, rfl⟩ := List.mem_map.mp (List.mem_of_mem_take hx); exact toLower_ne_zero (hzb y hy)
    refine ⟨?_, good_of_silent g (q11 _ _ _ h1), ab⟩
    rw [← strcmp_eq_zero h1' h2']
    simp
  · intro res e
    obtain ⟨dv, hdv⟩ := desc_some h v
    have lv : dv.len = a.length := by rw [desc_len h hdv, allSome_eq ha, List.length_map]
    simp only [isEmpty, hdv, Option.bind_eq_bind, Option.bind_some, Option.pure_def, Option.some.injEq] at e
    subst e
    rw [lv]
    cases a <;> simp
  · intro seps skip s' toks e
    simp only [splitSet, Option.bind_eq_bind, Option.bind_eq_some_iff, Option.pure_def, Option.some.injEq, Prod.mk.injEq] at e
    obtain ⟨⟨s1, t⟩, h1, rfl, rfl⟩ := e
    obtain ⟨rfl, ab⟩ := split_eq h V.1 h1 ha hza
    exact ⟨rfl, good_of_silent g (q15 _ _ _ _ h1), ab⟩

/-- **`capacity()` / `reserve`**: `capacity()` is 0 or at least `length()`; after `reserve(n)` (and likewise after every
    call that detaches) the String owns its block exclusively and `capacity() ≥ max n length()`. -/
theorem capacity_spec {s : St} (g : Good s) {v : Nat} :
    (∀ c, capacity s v = some c → c = 0 ∨ (absVar s v).length ≤ c) ∧
    (∀ n s', validVar s v = true → step s (.reserve v n) = some s' →
      ∃ c, capacity s' v = some c ∧ n ≤ c ∧ (absVar s' v).length ≤ c ∧ absVar s' v = absVar s v) := by
  have h := g.inv
  constructor
  · intro c e
    obtain ⟨d, hd⟩ := desc_some h v
    simp only [capacity, hd, Option.bind_eq_bind, Option.bind_some, Option.pure_def, Option.some.injEq] at e
    by_cases r1 : d.ref = 1
    · simp only [r1, if_true] at e
      subst e
      right
      cases hloc : s.vars v with
      | empty => rw [desc_empty hloc] at hd; injection hd with hd; subst hd; simp at r1
      | foreign r off len => rw [desc_foreign hloc] at hd; injection hd with hd; subst hd; simp at r1
      | blk b =>
        obtain ⟨blk, hb⟩ := h.live v b hloc
        rw [desc_blk hloc hb] at hd; injection hd with hd; subst hd
        have W := h.wf b blk hb
        simp only [absVar, hloc, hb, List.length_take]
        omega
    · simp only [r1, if_false] at e
      exact Or.inl e.symm
  · intro n s' hv e
    have V := valid_facts hv
    simp only [step, hv, if_true] at e
    obtain ⟨d, hd⟩ := desc_some h v
    have hlen := desc_len h hd
    have E := eff_reserve h V.1 e
    simp only [reserve, hd, Option.bind_eq_bind, Option.bind_some] at e
    obtain ⟨_, bk, blk, hloc, hb, r1, hl, hC⟩ := eff_detach h V.1 e
    have W := E.inv.wf bk blk hb
    refine ⟨blk.cap, by simp [capacity, desc_blk hloc hb, r1], ?_, ?_, E.self⟩
    · split at hC <;> omega
    · simp only [absVar, hloc, hb, List.length_take]; omega

/-- **The static helpers on C strings** (`a`, `b` = the chars in front of the NUL, NUL-free): `compare` is zero
    exactly on equal strings and negative exactly on lexicographically smaller ones (unsigned chars), `length` is the
    number of chars, `find(in, str)` / `findOneOf` / `findLast` / `findLastOf` return the first / last match,
    `find(in, c)` / `findLast(in, c)` the first / last index of a non-NUL char. -/
theorem static_helpers_spec {a b : List Nat} (hza : ∀ x ∈ a, x ≠ 0) (hzb : ∀ x ∈ b, x ≠ 0) :
    (sCompare a b = 0 ↔ a = b) ∧ (sCompare a b < 0 ↔ a < b) ∧
    (sCompareIC a b = 0 ↔ a.map toLower = b.map toLower) ∧ cstrLen a = a.length ∧
    FirstMatch a b (sFind a b) ∧ FirstOf a b (sFindOneOf a b) ∧ LastMatch a b (sFindLast a b) ∧
    LastOf a b (sFindLastOf a b) ∧
    (∀ c, c ≠ 0 → sFindC a c = a.findIdx? (· == c)) ∧ sFindC a 0 = none ∧ sFindLastC a 0 = none := by
  have h1 : ∀ x ∈ a.map toLower, x ≠ 0 := by
    intro x hx; obtain ⟨y, hy, rfl⟩ := List.mem_map.mp hx; exact toLower_ne_zero (hza y hy)
  have h2 : ∀ x ∈ b.map toLower, x ≠ 0 := by
    intro x hx; obtain ⟨y, hy, rfl⟩ := List.mem_map.mp hx; exact toLower_ne_zero (hzb y hy)
  refine ⟨strcmp_eq_zero hza hzb, strcmp_neg hza hzb, strcmp_eq_zero h1 h2, ?_, strstr_first a b, strpbrk_first a b,
    findLastLoop_spec a b _ 0 none (Nat.zero_le _) (by omega) ?_, findLastOfLoop_spec a b _ 0 none (Nat.zero_le _) (by omega) ?_,
    fun c hc => by simp [sFindC, hc], by simp [sFindC], by simp [sFindLastC]⟩
  · unfold cstrLen
    congr 1
    exact takeWhile_all _ a (fun x hx => by simpa using hza x hx)
  · simp [LastBelow]
  · simp [LastOfBelow]

/-- `s.attach((const char*)s + off, n)`: when the model executes it (the pointer points into memory the String never
    owned — a literal or attached memory with a NUL behind the range — or the string is empty) the String becomes a
    descriptor of exactly that sub-range and nothing else changes; a pointer into the String's own heap block is a
    fault (`alias_attach_printf_cases`). -/
theorem attach_alias_spec {s s' : St} (g : Good s) {v off n : Nat} (hv : validVar s v = true)
    (e : attachAlias s v off n = some s') : Eff s s' v (((absVar s v).drop off).take n) ∧ Good s' := by
  have V := valid_facts hv
  have h := g.inv
  suffices E : Eff s s' v (((absVar s v).drop off).take n) from ⟨E, good_of_eff g E hv⟩
  simp only [attachAlias, Option.bind_eq_bind, Option.bind_eq_some_iff] at e
  obtain ⟨s1, h1, d0, hd0, e⟩ := e
  obtain ⟨E1, _⟩ := eff_cview h V.1 h1
  have hv1 : v < s1.n := by rw [E1.n]; exact V.1
  by_cases c : off + n > d0.len
  · simp [c] at e
  · simp only [c, if_false] at e
    cases hloc : s1.vars v with
    | empty =>
      rw [desc_empty hloc] at hd0; injection hd0 with hd0; subst hd0
      simp only [Option.some.injEq] at e
      subst e
      have E2 := eff_setEmpty E1.inv hv1
      have z : absVar s1 v = [] := by simp [absVar, hloc]
      have : ((absVar s v).drop off).take n = [] := by rw [← E1.self, z]; simp
      rw [this]
      exact E1.trans E2
    | foreign r o l =>
      rw [desc_foreign hloc] at hd0; injection hd0 with hd0; subst hd0
      simp only [Option.some.injEq] at e
      subst e
      have fr := E1.inv.frg v r o l hloc
      simp only at c
      have E2 := eff_attach E1.inv hv1 (r := r) (off := o + off) (len := n) (by omega)
      have z : absVar s1 v = (((s1.regs r).map some).drop o).take l := by simp [absVar, hloc]
      have : ((absVar s v).drop off).take n = (((s1.regs r).map some).drop (o + off)).take n := by
        rw [← E1.self, z, List.drop_take, List.take_take, List.drop_drop]
        congr 1
        omega
      rw [this]
      exact E1.trans E2
    | blk b =>
      obtain ⟨blk, hb⟩ := E1.inv.live v b hloc
      rw [desc_blk hloc hb] at hd0; injection hd0 with hd0; subst hd0
      simp at e

/-- The own-pointer forms of `attach` and `printf`, case by case (all over `String s("abcd", 4)` / the literal "ab"):
    `s.attach((const char*)s + 1, 2)` on an owned String is a fault (the descriptor would point into the block the
    call deletes); on a literal it is the sub-range.  `s.printf("<%s>", (const char*)s)` is a fault when `s` owns its
    block exclusively (the first `detach(0, 200)` deletes the block the argument points into — or, with capacity ≥ 200,
    keeps it and `vsnprintf` writes over its own argument); it gives `<ab>` when the pointer is into a literal and
    `<abcd>` when another String keeps the old block alive. -/
theorem alias_attach_printf_cases :
    ((run (init 7 (fun _ => [])) [.ctorPtr 0 [97, 98, 99, 100]]).bind (fun s => attachAlias s 0 1 2)).isSome = false ∧
    ((run (init 7 exampleRegs) [.attach 0 0 0 2]).bind (fun s => attachAlias s 0 1 1)).map (fun s => absVar s 0) = some [some 98] ∧
    ((run (init 7 (fun _ => [])) [.ctorPtr 0 [97, 98, 99, 100]]).bind (fun s => printfAlias s 0 [60] [62])).isSome = false ∧
    ((run (init 7 (fun _ => [])) [.ctorPtr 0 [97, 98, 99, 100], .reserve 0 300]).bind
      (fun s => printfAlias s 0 [60] [62])).isSome = false ∧
    ((run (init 7 exampleRegs) [.attach 0 0 0 2]).bind (fun s => printfAlias s 0 [60] [62])).map (fun r => absVar r.1 0)
      = some [some 60, some 97, some 98, some 62] ∧
    ((run (init 7 (fun _ => [])) [.ctorPtr 0 [97, 98, 99, 100], .assign 1 0]).bind
      (fun s => printfAlias s 0 [60] [62])).map (fun r => (absVar r.1 0, absVar r.1 1))
      = some ([some 60, some 97, some 98, some 99, some 100, some 62], [some 97, some 98, some 99, some 100]) := by
  decide +kernel


/-- **The `(n)` forms of the static comparisons** on NUL-free C strings: `compare(s1, s2, n)` compares the first `n`
    chars, `compareIgnoreCase(s1, s2, n)` the first `n` ASCII-lowered chars. -/
theorem static_compareN_spec {a b : List Nat} (hza : ∀ x ∈ a, x ≠ 0) (hzb : ∀ x ∈ b, x ≠ 0) (n : Nat) :
    (sCompareN a b n = 0 ↔ a.take n = b.take n) ∧ (sCompareN a b n < 0 ↔ a.take n < b.take n) ∧
    (sCompareICN a b n = 0 ↔ (a.map toLower).take n = (b.map toLower).take n) ∧
    (sCompareICN a b n < 0 ↔ (a.map toLower).take n < (b.map toLower).take n) := by
  have h1 : ∀ x ∈ a.map toLower, x ≠ 0 := by
    intro x hx; obtain ⟨y, hy, rfl⟩ := List.mem_map.mp hx; exact toLower_ne_zero (hza y hy)
  have h2 : ∀ x ∈ b.map toLower, x ≠ 0 := by
    intro x hx; obtain ⟨y, hy, rfl⟩ := List.mem_map.mp hx; exact toLower_ne_zero (hzb y hy)
  have t : ∀ {l : List Nat}, (∀ x ∈ l, x ≠ 0) → ∀ x ∈ l.take n, x ≠ 0 := fun h x hx => h x (List.mem_of_mem_take hx)
  unfold sCompareN sCompareICN
  rw [strncmp_take n a b hza, strncmp_take n _ _ h1]
  exact ⟨strcmp_eq_zero (t hza) (t hzb), strcmp_neg (t hza) (t hzb), strcmp_eq_zero (t h1) (t h2), strcmp_neg (t h1) (t h2)⟩

/-- **static `startsWith(const char* in, const String& str)`** decides whether the value of `str` is a prefix of the C
    string (both NUL-free); **`operator==` / `operator!=` with a literal** decide equality with the chars of the literal
    (everything in front of its NUL) -/
theorem static_startsWith_literal_spec {s : St} (g : Good s) {v w r : Nat} {a b : List Nat}
    (ha : allSome (absVar s v) = some a) (hb : allSome (absVar s w) = some b) :
    (∀ inp res, (∀ x ∈ inp, x ≠ 0) → (∀ x ∈ b, x ≠ 0) → sStartsWith s inp w = some res → (res = true ↔ b <+: inp)) ∧
    (∀ res, equalLit s v r = some res → (res = true ↔ a = (s.regs r).take ((s.regs r).length - 1))) ∧
    (∀ res, notEqualLit s v r = some res → (res = true ↔ a ≠ (s.regs r).take ((s.regs r).length - 1))) := by
  have h := g.inv
  refine ⟨?_, ?_, ?_⟩
  · intro inp res hz hzb e
    simp only [sStartsWith, contentVal_eq h, hb, Option.bind_eq_bind, Option.bind_some, Option.pure_def,
      Option.some.injEq] at e
    subst e
    rw [strncmp_take _ _ _ hz, List.take_length]
    simp only [beq_iff_eq]
    rw [strcmp_eq_zero (fun x hx => hz x (List.mem_of_mem_take hx)) hzb, List.prefix_iff_eq_take]
    exact eq_comm
  · intro res e
    obtain ⟨dv, hdv⟩ := desc_some h v
    have lv : dv.len = a.length := by rw [desc_len h hdv, allSome_eq ha, List.length_map]
    simp only [equalLit, hdv, Option.bind_eq_bind, Option.bind_some, contentVal_eq h, ha] at e
    by_cases c : dv.len ≠ (s.regs r).length - 1
    · simp only [c, ne_eq, not_false_eq_true, if_true, Option.pure_def, Option.some.injEq] at e
      subst e
      simp only [Bool.false_eq_true, false_iff]
      intro x
      have := congrArg List.length x
      simp only [List.length_take] at this
      omega
    · simp only [c, if_false, Option.pure_def, Option.some.injEq] at e
      subst e
      simp
  · intro res e
    obtain ⟨dv, hdv⟩ := desc_some h v
    have lv : dv.len = a.length := by rw [desc_len h hdv, allSome_eq ha, List.length_map]
    simp only [notEqualLit, hdv, Option.bind_eq_bind, Option.bind_some, contentVal_eq h, ha] at e
    by_cases c : dv.len ≠ (s.regs r).length - 1
    · simp only [c, ne_eq, not_false_eq_true, if_true, Option.pure_def, Option.some.injEq] at e
      subst e
      simp only [true_iff]
      intro x
      have := congrArg List.length x
      simp only [List.length_take] at this
      omega
    · simp only [c, if_false, Option.pure_def, Option.some.injEq] at e
      subst e
      simp

/-- **`isSpace` and the `<cctype>` wrappers for every byte** (`isSpace` over the bounds read from String.hpp; the others
    are the "C"-locale definitions the model assumes, shown here to be the usual classes): white space is TAB…CR and
    the blank; digits, upper, lower, alpha = upper ∪ lower, alnum = alpha ∪ digit, hex digits, printable = 0x20…0x7E,
    punctuation = printable without alnum and blank; nothing above 0x7F belongs to any class. -/
theorem char_classes_spec :
    (∀ c, c < 256 → (isSpaceC c = true ↔ (9 ≤ c ∧ c ≤ 13) ∨ c = 32)) ∧
    (∀ c, c < 256 → ((isDigitC c = true ↔ 48 ≤ c ∧ c ≤ 57) ∧ (isUpperC c = true ↔ 65 ≤ c ∧ c ≤ 90) ∧
      (isLowerC c = true ↔ 97 ≤ c ∧ c ≤ 122))) ∧
    (∀ c, c < 256 → (isAlphaC c = (isUpperC c || isLowerC c) ∧ isAlnumC c = (isAlphaC c || isDigitC c))) ∧
    (∀ c, c < 256 → (isXDigitC c = true ↔ (48 ≤ c ∧ c ≤ 57) ∨ (65 ≤ c ∧ c ≤ 70) ∨ (97 ≤ c ∧ c ≤ 102))) ∧
    (∀ c, c < 256 → ((isPrintC c = true ↔ 32 ≤ c ∧ c ≤ 126) ∧
      (isPunctC c = true ↔ isPrintC c = true ∧ isAlnumC c = false ∧ c ≠ 32))) ∧
    (∀ c, c < 256 → 128 ≤ c →
      isSpaceC c = false ∧ isAlnumC c = false ∧ isPrintC c = false ∧ isPunctC c = false ∧ isXDigitC c = false) ∧
    (∀ c, c < 256 → isUpperC c = true → toLower c = c + 32 ∧ isLowerC (toLower c) = true) ∧
    (∀ c, c < 256 → isLowerC c = true → toUpper c = c - 32 ∧ isUpperC (toUpper c) = true) := by
  refine ⟨by decide +kernel, by decide +kernel, by decide +kernel, by decide +kernel, by decide +kernel,
    by decide +kernel, ?_, ?_⟩
  · unfold toLower; decide +kernel
  · unfold toUpper; decide +kernel

/-! ### own-pointer `printf`: the general statement -/

/-- **`s.printf("<pre>%s<post>", (const char*)s)` in general.**  Let the value `c` of `s` be specified and NUL-free.
    * If, once the pointer has been taken, `s` owns its block exclusively — it did before, or the C string view had to
      copy unterminated attached memory — the call is a **fault**: `detach(0, 200)` deletes the block the argument points
      into (use after free) or keeps it and `vsnprintf` writes over its own argument.
    * Otherwise (empty string, literal / attached memory with its NUL, block shared with another String) the call
      returns `pre ++ c ++ post` — exactly as if the argument had been copied first — its length as result, changes
      no other variable and keeps the invariant. -/
theorem printf_alias_spec {s : St} (g : Good s) {v : Nat} (hv : validVar s v = true) {c : List Nat}
    (hc : allSome (absVar s v) = some c) (hz : ∀ x ∈ c, x ≠ 0) (pre post : List Nat) :
    ((OwnsExcl s v ∨ termByte s v ≠ some (some 0)) → printfAlias s v pre post = none) ∧
    (¬ OwnsExcl s v → termByte s v = some (some 0) →
      ∃ s', printfAlias s v pre post = some (s', (pre ++ c ++ post).length) ∧
        Eff s s' v ((pre ++ c ++ post).map some) ∧ Good s') := by
  have V := valid_facts hv
  -- the part after the pointer has been taken, on a state `s1` that owns exclusively: fault
  have core_fault : ∀ s1 : St, Inv s1 → OwnsExcl s1 v →
      (do
        let d0 ← desc s1 v
        let s ← detach s1 v 0 Generated.printfBuf
        let d1 ← desc s v
        if d1.base = d0.base then none
        else do
          let arg ← cstrAt s d0.base d0.off
          printfTail s v (pre ++ arg ++ post)) = none := by
    intro s1 h1 ⟨b, blk, hloc, hb, r1⟩
    simp only [desc_blk hloc hb, Option.bind_eq_bind, Option.bind_some]
    cases h3 : detach s1 v 0 Generated.printfBuf with
    | none => rfl
    | some s2 =>
      simp only [Option.bind_some]
      rcases detach_cases (desc_blk hloc hb) h3 with ⟨_, _, bytes, hw⟩ | ⟨_, bytes, cap, rfl⟩
      · obtain ⟨b', blk', hv', hb', _, rfl⟩ := writeOwn_eq hw
        rw [hloc] at hv'; injection hv' with hv'; subst hv'
        have : desc { s1 with heap := upd s1.heap b (some { blk' with bytes := bytes, len := 0 }) } v
            = some ⟨.blk b, 0, 0, blk'.cap, blk'.ref⟩ := by simp [desc, hloc, upd_same]
        simp only [this, Option.bind_some, if_true]
      · have F := release_fields s1 v
        have hd1 : desc (allocSet s1 v bytes 0 cap) v = some ⟨.blk s1.next, 0, 0, cap, 1⟩ := by
          simp [desc, allocSet, setEmpty, setVar, upd_same, F.2.1]
        have hne : (Base.blk s1.next) ≠ Base.blk b := by
          intro x; injection x with x; have := h1.bound hloc; omega
        simp only [hd1, Option.bind_some, hne, if_false]
        have hm : memOf (allocSet s1 v bytes 0 cap) (.blk b) = none := by
          have hb2 : b ≠ (setEmpty s1 v).next := by
            simp only [setEmpty, setVar, F.2.1]; have := h1.bound hloc; omega
          simp only [memOf, allocSet, upd_other _ _ _ _ hb2]
          simp only [setEmpty, setVar, release, hloc, hb, r1, if_true, upd_same, Option.map_none]
        simp only [cstrAt, hm, Option.bind_eq_bind, Option.bind_none]
  constructor
  · intro hbad
    obtain ⟨s1, h1⟩ := cview_some g.inv v
    obtain ⟨E1, t1⟩ := eff_cview g.inv V.1 h1
    have X1 : OwnsExcl s1 v := by
      rcases hbad with x | x
      · -- owned text is terminated: the view changes nothing
        obtain ⟨b, blk, hloc, hb, r1⟩ := x
        have := cview_terminated (owned_terminated g hloc)
        rw [this] at h1; injection h1 with h1; subst h1
        exact ⟨b, blk, hloc, hb, r1⟩
      · -- unterminated: the view detaches
        obtain ⟨d, hd⟩ := desc_some g.inv v
        simp only [cview, hd, Option.bind_eq_bind, Option.bind_some, Option.bind_eq_some_iff] at h1
        obtain ⟨t, ht, h1⟩ := h1
        by_cases t0 : t = 0
        · exfalso
          subst t0
          apply x
          simp only [termByte, hd, Option.bind_eq_bind, Option.bind_some]
          simp only [rdVal, Option.bind_eq_bind, Option.bind_eq_some_iff] at ht
          obtain ⟨m, hm, ht⟩ := ht
          simp only [hm, Option.bind_some]
          cases hx : m[d.off + d.len]? with
          | none => simp [hx] at ht
          | some y =>
            cases y with
            | none => simp [hx] at ht
            | some z => simp only [hx, Option.some.injEq] at ht; rw [ht]
        · simp only [ne_eq, t0, not_false_eq_true, if_true] at h1
          obtain ⟨_, b, blk, hloc, hb, r1, _, _⟩ := eff_detach g.inv V.1 h1
          exact ⟨b, blk, hloc, hb, r1⟩
    simp only [printfAlias, h1, Option.bind_eq_bind, Option.bind_some]
    exact core_fault s1 E1.inv X1
  · intro hne ht
    have h := g.inv
    have hcv := cview_terminated ht
    obtain ⟨d0, hd0⟩ := desc_some h v
    obtain ⟨s2, h2⟩ := detach_some h v (c := 0) (m := Generated.printfBuf) (Nat.zero_le _)
    obtain ⟨E2, X2⟩ := eff_detach h V.1 h2
    have hv2 : v < s2.n := by rw [E2.n]; exact V.1
    have F := release_fields s v
    rcases detach_cases hd0 h2 with ⟨r1, _, _⟩ | ⟨_, bytes, cap, rfl⟩
    · exfalso
      apply hne
      cases hloc : s.vars v with
      | empty => rw [desc_empty hloc] at hd0; injection hd0 with hd0; subst hd0; simp at r1
      | foreign r off len => rw [desc_foreign hloc] at hd0; injection hd0 with hd0; subst hd0; simp at r1
      | blk b =>
        obtain ⟨blk, hb⟩ := h.live v b hloc
        rw [desc_blk hloc hb] at hd0; injection hd0 with hd0; subst hd0
        exact ⟨b, blk, hloc, hb, r1⟩
    · have hd1 : desc (allocSet s v bytes 0 cap) v = some ⟨.blk s.next, 0, 0, cap, 1⟩ := by
        simp [desc, allocSet, setEmpty, setVar, upd_same, F.2.1]
      -- the old storage: not the new block, and still readable
      have hp : ∀ b, d0.base = .blk b → b < s.next ∧ ∀ blk, s.vars v = .blk b → s.heap b = some blk → blk.ref ≠ 1 := by
        intro b hb0
        cases hloc : s.vars v with
        | empty => rw [desc_empty hloc] at hd0; injection hd0 with hd0; subst hd0; cases hb0
        | foreign r off len => rw [desc_foreign hloc] at hd0; injection hd0 with hd0; subst hd0; cases hb0
        | blk bv =>
          obtain ⟨blk, hbv⟩ := h.live v bv hloc
          rw [desc_blk hloc hbv] at hd0; injection hd0 with hd0; subst hd0
          injection hb0 with hb0; subst hb0
          refine ⟨h.bound hloc, ?_⟩
          intro blk' _ hb' r1
          exact hne ⟨_, blk', hloc, hb', r1⟩
      have hbase : (Base.blk s.next) ≠ d0.base := by
        intro x
        have := (hp s.next x.symm).1
        omega
      have harg : cstrAt (allocSet s v bytes 0 cap) d0.base d0.off = some c := by
        have := cstrVar_eq h ht hc hz
        simp only [cstrVar, hd0, Option.bind_eq_bind, Option.bind_some, Nat.add_zero] at this
        simp only [cstrAt, memOf_allocSet h bytes 0 cap hp] at this ⊢
        exact this
      obtain ⟨⟨s3, r⟩, h3⟩ := printfTail_some E2.inv hv2 X2 (pre ++ c ++ post)
      obtain ⟨E3, hr⟩ := eff_printfTail E2.inv hv2 X2 h3
      subst hr
      have E := E2.trans E3
      refine ⟨s3, ?_, E, good_of_eff g E hv⟩
      simp only [printfAlias, hcv, hd0, h2, hd1, hbase, harg, h3, Option.bind_eq_bind, Option.bind_some, if_false]

/-- **`s.attach((const char*)s + off, n)`: the precise fault condition** (for `off + n ≤ length()`): the call is a fault
    exactly when, once the pointer has been taken, `s` holds a heap block (it did before, or the C string view had to copy
    unterminated attached memory); otherwise it is executed (and `attach_alias_spec` gives the resulting sub-range). -/
theorem attach_alias_cases {s : St} (g : Good s) {v off n : Nat} (hv : validVar s v = true)
    (hon : off + n ≤ (absVar s v).length) :
    (((∃ b, s.vars v = .blk b) ∨ termByte s v ≠ some (some 0)) → attachAlias s v off n = none) ∧
    ((¬ ∃ b, s.vars v = .blk b) → termByte s v = some (some 0) → ∃ s', attachAlias s v off n = some s') := by
  have V := valid_facts hv
  have h := g.inv
  constructor
  · intro hbad
    obtain ⟨s1, h1⟩ := cview_some h v
    obtain ⟨E1, t1⟩ := eff_cview h V.1 h1
    have X1 : ∃ b, s1.vars v = .blk b := by
      rcases hbad with ⟨b, hloc⟩ | x
      · have := cview_terminated (owned_terminated g hloc)
        rw [this] at h1; injection h1 with h1; subst h1
        exact ⟨b, hloc⟩
      · by_cases ht : termByte s v = some (some 0)
        · exact absurd ht x
        · obtain ⟨d, hd⟩ := desc_some h v
          simp only [cview, hd, Option.bind_eq_bind, Option.bind_some, Option.bind_eq_some_iff] at h1
          obtain ⟨t, htv, h1⟩ := h1
          by_cases t0 : t = 0
          · exfalso
            subst t0
            apply ht
            simp only [termByte, hd, Option.bind_eq_bind, Option.bind_some]
            simp only [rdVal, Option.bind_eq_bind, Option.bind_eq_some_iff] at htv
            obtain ⟨m, hm, htv⟩ := htv
            simp only [hm, Option.bind_some]
            cases hx : m[d.off + d.len]? with
            | none => simp [hx] at htv
            | some y =>
              cases y with
              | none => simp [hx] at htv
              | some z => simp only [hx, Option.some.injEq] at htv; rw [htv]
          · simp only [ne_eq, t0, not_false_eq_true, if_true] at h1
            obtain ⟨_, b, blk, hloc, _⟩ := eff_detach h V.1 h1
            exact ⟨b, hloc⟩
    obtain ⟨b, hloc⟩ := X1
    obtain ⟨blk, hb⟩ := E1.inv.live v b hloc
    simp only [attachAlias, h1, desc_blk hloc hb, Option.bind_eq_bind, Option.bind_some]
    split <;> rfl
  · intro hnb ht
    obtain ⟨d0, hd0⟩ := desc_some h v
    have hl := desc_len h hd0
    have c : ¬ off + n > d0.len := by omega
    simp only [attachAlias, cview_terminated ht, hd0, Option.bind_eq_bind, Option.bind_some, c, if_false]
    cases hloc : s.vars v with
    | empty => rw [desc_empty hloc] at hd0; injection hd0 with hd0; subst hd0; exact ⟨_, rfl⟩
    | foreign r o l => rw [desc_foreign hloc] at hd0; injection hd0 with hd0; subst hd0; exact ⟨_, rfl⟩
    | blk b => exact absurd ⟨b, hloc⟩ hnb

/-- `split(HashSet<String>&, …)`: what the set holds (`dedupToks`) has no duplicates and the same members as the list -/
theorem dedupToks_spec (l : List (List Byte)) : (dedupToks l).Nodup ∧ ∀ t, t ∈ dedupToks l ↔ t ∈ l := by
  have gen : ∀ (l acc : List (List Byte)), acc.Nodup →
      (l.foldl (fun acc t => if acc.contains t then acc else acc ++ [t]) acc).Nodup ∧
      ∀ t, t ∈ l.foldl (fun acc t => if acc.contains t then acc else acc ++ [t]) acc ↔ t ∈ acc ∨ t ∈ l := by
    intro l
    induction l with
    | nil => intro acc ha; exact ⟨ha, fun t => by simp⟩
    | cons x r ih =>
      intro acc ha
      simp only [List.foldl_cons]
      by_cases c : acc.contains x = true
      · simp only [c, if_true]
        obtain ⟨n1, m1⟩ := ih acc ha
        refine ⟨n1, fun t => ?_⟩
        rw [m1 t]
        have hx : x ∈ acc := by simpa using c
        constructor
        · rintro (a | a)
          · exact Or.inl a
          · exact Or.inr (List.mem_cons_of_mem _ a)
        · rintro (a | a)
          · exact Or.inl a
          · rcases List.mem_cons.mp a with rfl | a
            · exact Or.inl hx
            · exact Or.inr a
      · simp only [c, Bool.false_eq_true, if_false]
        have hx : x ∉ acc := by simpa using c
        obtain ⟨n1, m1⟩ := ih (acc ++ [x]) (by
          rw [List.nodup_append]
          refine ⟨ha, by simp, ?_⟩
          intro a ha' b hb
          simp only [List.mem_singleton] at hb
          subst hb
          intro e; subst e; exact hx ha')
        refine ⟨n1, fun t => ?_⟩
        rw [m1 t]
        simp only [List.mem_append, List.mem_cons, List.not_mem_nil, or_false]
        constructor
        · rintro ((a | a) | a)
          · exact Or.inl a
          · exact Or.inr (Or.inl a)
          · exact Or.inr (Or.inr a)
        · rintro (a | a | a)
          · exact Or.inl (Or.inl a)
          · exact Or.inl (Or.inr a)
          · exact Or.inr a
  obtain ⟨n1, m1⟩ := gen l [] List.nodup_nil
  exact ⟨n1, fun t => by rw [dedupToks, m1 t]; simp⟩

/-- **`printf` relative to the libc formatter — capacity handling for every result length.**  Whatever text `out` the
    formatter produces for the format and its arguments (`%f`, widths, precisions, `%x`, …; any length, below, at and
    above the 200-char first buffer and the current capacity), the call runs without fault — both `vsnprintf`
    attempts store inside the block, the reallocation in between restores the invariant — the String then holds exactly
    `out`, no other variable and no foreign byte changes, the invariant holds (so the C string view is terminated:
    `cstr_terminated`) and the capacity is at least the length.  `String::fromDouble` (`Op.fromOut`) likewise. -/
theorem printf_any_output {s : St} (g : Good s) {v : Nat} (hv : validVar s v = true) (out : List Nat) :
    (∃ s', step s (.printfO v out) = some s' ∧ absVar s' v = out.map some ∧ (∀ w, w ≠ v → absVar s' w = absVar s w) ∧
      Good s' ∧ s'.regs = s.regs ∧ ∀ c, capacity s' v = some c → c = 0 ∨ out.length ≤ c) ∧
    (∃ s', step s (.fromOut v out) = some s' ∧ absVar s' v = out.map some ∧ (∀ w, w ≠ v → absVar s' w = absVar s w) ∧
      Good s' ∧ s'.regs = s.regs) := by
  constructor
  · obtain ⟨s', e⟩ := no_fault g (op := .printfO v out) hv rfl
    obtain ⟨val, E, hx⟩ := step_ok g e
    have := hx _ rfl
    subst this
    have g' := good_step g e
    refine ⟨s', e, E.self, E.other, g', E.regs, ?_⟩
    intro c hc
    have := (capacity_spec g' (v := v)).1 c hc
    have hs : absVar s' v = out.map some := E.self
    rw [hs, List.length_map] at this
    exact this
  · obtain ⟨s', e⟩ := no_fault g (op := .fromOut v out) hv rfl
    obtain ⟨val, E, hx⟩ := step_ok g e
    have := hx _ rfl
    subst this
    exact ⟨s', e, E.self, E.other, good_step g e, E.regs⟩

end Nstd.Str
