import Nstd.Str.Model
namespace Nstd.Str
theorem placeholder : (init 7 (fun _ => [])).n = 7 := rfl
end Nstd.Str
