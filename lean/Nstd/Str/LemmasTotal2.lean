import Nstd.Str.LemmasTotal
/-!
  Absence of faults: under the heap invariant the memory accesses of the calls below are all in
  range, read initialised chars where they branch, and store only into exclusively owned blocks.
-/
namespace Nstd.Str
/-! ### the remaining calls -/

theorem rd_some {s : St} (h : Inv s) {w : Nat} {d : Desc} (hd : desc s w = some d) {a k : Nat}
    (hk : a + k ≤ d.len) : ∃ src, rdRange s d.base (d.off + a) k = some src := by
  have hall := rd_all h hd
  simp only [rdRange, Option.bind_eq_bind] at hall ⊢
  cases hm : memOf s d.base with
  | none => simp [hm] at hall
  | some mm =>
    simp only [hm, Option.bind_some, rdList] at hall ⊢
    split at hall
    · rename_i c
      have : d.off + a + k ≤ mm.length := by omega
      simp only [this, if_true]; exact ⟨_, rfl⟩
    · cases hall

theorem substrRange_fst_le (len : Nat) (start length : Int) : (substrRange len start length).1 ≤ len := by
  unfold substrRange
  simp only
  by_cases c : start < 0
  · simp only [c, if_true]
    by_cases c2 : (len : Int) + start < 0
    · simp only [c2, if_true]; omega
    · simp only [c2, if_false]; omega
  · simp only [c, if_false]
    by_cases c2 : start.toNat > len
    · simp only [c2, if_true]; omega
    · simp only [c2, if_false]; omega

theorem rd_sub_some {s : St} (h : Inv s) {w : Nat} {d : Desc} (hd : desc s w = some d) (a b : Int) :
    ∃ src, rdRange s d.base (d.off + (substrRange d.len a b).1)
      ((substrRange d.len a b).2 - (substrRange d.len a b).1) = some src := by
  apply rd_some h hd
  have := substrRange_fst_le d.len a b
  have := substrRange_le d.len a b
  omega

theorem assignTemp_some {s : St} (h : Inv s) {tmp : Nat} (ht : tmp < s.n) (v : Nat) (src : List Byte) :
    ∃ s', assignTemp s v src tmp = some s' := by
  obtain ⟨s1, h1⟩ := ctorPtr_some s tmp src
  have E1 := eff_ctorPtr h ht h1
  obtain ⟨s2, h2⟩ := assign_some E1.inv v tmp
  simp only [assignTemp, h1, h2, Option.bind_eq_bind, Option.bind_some, Option.pure_def]
  exact ⟨_, rfl⟩

theorem substr_some {s : St} (h : Inv s) {tmp : Nat} (ht : tmp < s.n) (v w : Nat) (a b : Int) :
    ∃ s', substr s v w a b tmp = some s' := by
  obtain ⟨d, hd⟩ := desc_some h w
  obtain ⟨src, hr⟩ := rd_sub_some h hd a b
  simp only [substr, hd, Option.bind_eq_bind, Option.bind_some, hr]
  exact assignTemp_some h ht v src

theorem fillFrom_some {s : St} (h : Inv s) {v : Nat} (hv : v < s.n) (from_ c : Nat) :
    ∃ s', fillFrom s v from_ c = some s' := by
  obtain ⟨s1, h1⟩ := mview_some h v
  obtain ⟨E1, X⟩ := eff_mview h hv h1
  obtain ⟨bk, blk, hloc, hb, r1, hl, hcap⟩ := X
  have W := E1.inv.wf bk blk hb
  simp only [fillFrom, h1, Option.bind_eq_bind, Option.bind_some, desc_blk hloc hb, memOf, hb, Option.map_some]
  obtain ⟨m', hm⟩ := wr_some (m := blk.bytes) (off := if from_ < blk.len then from_ else blk.len)
    (d := List.replicate (blk.len - from_) (some c)) (by simp only [List.length_replicate]; split <;> omega)
  simp only [hm, Option.bind_some]
  exact writeOwn_some hloc hb r1 _ _

theorem prependS_some {s : St} (h : Inv s) {v tmp : Nat} (hv : v < s.n) (ht : tmp < s.n) (hne : v ≠ tmp) (w : Nat) :
    ∃ s', prependS s v w tmp = some s' := by
  obtain ⟨s1, h1⟩ := ctorCopy_some h tmp v
  have E1 := eff_ctorCopy h ht h1
  have hv1 : v < s1.n := by rw [E1.n]; exact hv
  simp only [prependS, h1, Option.bind_eq_bind, Option.bind_some, Option.pure_def]
  have hw' : (if w = v then tmp else w) ≠ v := by
    split
    · exact fun x => hne x.symm
    · assumption
  generalize (if w = v then tmp else w) = w' at hw' ⊢
  obtain ⟨dw, hdw⟩ := desc_some E1.inv w'
  obtain ⟨dc, hdc⟩ := desc_some E1.inv tmp
  simp only [hdw, hdc, Option.bind_some]
  obtain ⟨s2, h2⟩ := detach_some E1.inv v (c := 0) (m := dw.len + dc.len) (Nat.zero_le _)
  obtain ⟨E2, X⟩ := eff_detach E1.inv hv1 h2
  simp only [h2, Option.bind_some, content_eq E2.inv]
  have la : (absVar s2 w').length = dw.len := by rw [E2.other w' hw', ← desc_len E1.inv hdw]
  have lb : (absVar s2 tmp).length = dc.len := by
    rw [E2.other tmp (fun x => hne x.symm), ← desc_len E1.inv hdc]
  obtain ⟨bk, blk, hloc, hb, r1, hl, hcap⟩ := X
  have W := E2.inv.wf bk blk hb
  simp only [desc_blk hloc hb, memOf, hb, Option.bind_some, Option.map_some]
  obtain ⟨m1, hm1⟩ := wr_some (m := blk.bytes) (off := 0) (d := absVar s2 w') (by omega)
  simp only [hm1, Option.bind_some]
  obtain ⟨m2, hm2⟩ := wr_some (m := m1) (off := (absVar s2 w').length) (d := absVar s2 tmp)
    (by rw [wr_length hm1]; omega)
  simp only [hm2, Option.bind_some]
  obtain ⟨m3, hm3⟩ := wr_some (m := m2) (off := dw.len + dc.len) (d := [some 0])
    (by simp only [List.length_cons, List.length_nil, wr_length hm2, wr_length hm1]; omega)
  simp only [hm3, Option.bind_some]
  obtain ⟨s3, h3⟩ := writeOwn_some hloc hb r1 m3 (dw.len + dc.len)
  simp only [h3, Option.bind_some]
  exact ⟨_, rfl⟩

theorem prependP_some {s : St} (h : Inv s) {v tmp : Nat} (hv : v < s.n) (ht : tmp < s.n) (hne : v ≠ tmp)
    (a : List Byte) : ∃ s', prependP s v a tmp = some s' := by
  obtain ⟨s1, h1⟩ := ctorCopy_some h tmp v
  have E1 := eff_ctorCopy h ht h1
  have hv1 : v < s1.n := by rw [E1.n]; exact hv
  simp only [prependP, h1, Option.bind_eq_bind, Option.bind_some, Option.pure_def]
  obtain ⟨dc, hdc⟩ := desc_some E1.inv tmp
  simp only [hdc, Option.bind_some]
  obtain ⟨s2, h2⟩ := detach_some E1.inv v (c := 0) (m := a.length + dc.len) (Nat.zero_le _)
  obtain ⟨E2, X⟩ := eff_detach E1.inv hv1 h2
  simp only [h2, Option.bind_some, content_eq E2.inv]
  have lb : (absVar s2 tmp).length = dc.len := by
    rw [E2.other tmp (fun x => hne x.symm), ← desc_len E1.inv hdc]
  obtain ⟨bk, blk, hloc, hb, r1, hl, hcap⟩ := X
  have W := E2.inv.wf bk blk hb
  simp only [desc_blk hloc hb, memOf, hb, Option.bind_some, Option.map_some]
  obtain ⟨m1, hm1⟩ := wr_some (m := blk.bytes) (off := 0) (d := a) (by omega)
  simp only [hm1, Option.bind_some]
  obtain ⟨m2, hm2⟩ := wr_some (m := m1) (off := a.length) (d := absVar s2 tmp)
    (by rw [wr_length hm1]; omega)
  simp only [hm2, Option.bind_some]
  obtain ⟨m3, hm3⟩ := wr_some (m := m2) (off := a.length + dc.len) (d := [some 0])
    (by simp only [List.length_cons, List.length_nil, wr_length hm2, wr_length hm1]; omega)
  simp only [hm3, Option.bind_some]
  obtain ⟨s3, h3⟩ := writeOwn_some hloc hb r1 m3 (a.length + dc.len)
  simp only [h3, Option.bind_some]
  exact ⟨_, rfl⟩

/-- `data ++ NUL` fits into an exclusively owned block of sufficient capacity -/
theorem store_some {s : St} (h : Inv s) {v L C : Nat} (X : Excl s v L C) {data : List Byte}
    (hC : data.length ≤ C) : ∃ d m m' s', desc s v = some d ∧ memOf s d.base = some m ∧
      wr m 0 (data ++ [some 0]) = some m' ∧ writeOwn s v m' data.length = some s' ∧ d.cap ≥ C := by
  obtain ⟨bk, blk, hloc, hb, r1, hl, hcap⟩ := X
  have W := h.wf bk blk hb
  obtain ⟨m', hm⟩ := wr_some (m := blk.bytes) (off := 0) (d := data ++ [some 0])
    (by simp only [List.length_append, List.length_cons, List.length_nil]; omega)
  obtain ⟨s', hs⟩ := writeOwn_some hloc hb r1 m' data.length
  exact ⟨_, _, _, _, desc_blk hloc hb, by simp [memOf, hb], hm, hs, hcap⟩

theorem detach_dirty_some {s : St} {v bk : Nat} {blk : Block} (hloc : s.vars v = .blk bk) (r1 : blk.ref = 1)
    {m1 : List Byte} (hl : 0 < m1.length) (k : Nat) :
    ∃ s2, detach { s with heap := upd s.heap bk (some { blk with bytes := m1, len := 0 }) } v 0 k = some s2 := by
  have hd : desc { s with heap := upd s.heap bk (some { blk with bytes := m1, len := 0 }) } v
      = some ⟨.blk bk, 0, 0, blk.cap, 1⟩ := by
    simp [desc, hloc, upd_same, r1]
  obtain ⟨d, hd, hdb, hdo, hdl, hdc, hdr⟩ : ∃ d, desc { s with heap := upd s.heap bk (some { blk with bytes := m1, len := 0 }) } v
      = some d ∧ d.base = .blk bk ∧ d.off = 0 ∧ d.len = 0 ∧ d.cap = blk.cap ∧ d.ref = 1 := ⟨_, hd, rfl, rfl, rfl, rfl, rfl⟩
  simp only [detach, hd, Option.bind_eq_bind, Option.bind_some]
  by_cases fast : d.ref = 1 ∧ k ≤ d.cap
  · simp only [fast, and_self, if_true, hdb, hdl, memOf, upd_same, Option.map_some, Option.bind_some]
    have hp : poison m1 0 0 = m1 := by simp [poison]
    rw [hp]
    obtain ⟨m2, hm2⟩ := wr_some (m := m1) (off := 0) (d := [some 0]) (by simp only [List.length_cons, List.length_nil]; omega)
    simp only [hm2, Option.bind_some, writeOwn, hloc, upd_same, r1, if_true]
    exact ⟨_, rfl⟩
  · simp only [fast, if_false, hdb, hdl, hdo, Nat.lt_irrefl, rdRange, memOf, upd_same, Option.map_some,
      Option.bind_eq_bind, Option.bind_some]
    have hr : rdList m1 0 0 = some [] := by simp [rdList]
    rw [hr]
    simp only [Option.bind_some]
    obtain ⟨m3, hm3⟩ := wr_some (m := fresh (capRule k + 1)) (off := 0) (d := []) (by simp)
    have hl3 : m3.length = capRule k + 1 := by rw [wr_length hm3, length_fresh]
    obtain ⟨m4, hm4⟩ := wr_some (m := m3) (off := 0) (d := [some 0]) (by simp only [List.length_cons, List.length_nil]; omega)
    simp only [hm3, hm4, Option.bind_some, Option.pure_def]
    exact ⟨_, rfl⟩

/-- both `vsnprintf` attempts run on an exclusively owned, empty block of any capacity -/
theorem printfTail_some {s : St} (h : Inv s) {v : Nat} (hv : v < s.n) {C : Nat} (X : Excl s v 0 C) (out : List Nat) :
    ∃ r, printfTail s v out = some r := by
  obtain ⟨bk, blk, hloc, hb, r1, hl0, hC⟩ := X
  have W := h.wf bk blk hb
  have hmem : memOf s (.blk bk) = some blk.bytes := by simp [memOf, hb]
  simp only [printfTail, desc_blk hloc hb, hmem, Option.bind_eq_bind, Option.bind_some]
  obtain ⟨m1, hm1⟩ : ∃ m1, vsnStore blk.bytes blk.cap out = some m1 := by
    unfold vsnStore
    split
    · exact ⟨_, rfl⟩
    · exact wr_some (by simp only [List.length_append, List.length_map, List.length_take, List.length_cons,
        List.length_nil]; omega)
  simp only [hm1, Option.bind_some]
  by_cases c : out.length < blk.cap
  · simp only [c, if_true]
    obtain ⟨s2, h2⟩ := writeOwn_some hloc hb r1 m1 out.length
    simp only [h2, Option.bind_some, Option.pure_def]
    exact ⟨_, rfl⟩
  · simp only [c, if_false]
    obtain ⟨s1, h1⟩ := writeOwn_some hloc hb r1 m1 blk.len
    simp only [h1, Option.bind_some]
    obtain ⟨b', blk', hv', hb', _, rfl⟩ := writeOwn_eq h1
    rw [hloc] at hv'; injection hv' with hv'; subst hv'
    rw [hb] at hb'; injection hb' with hb'; subst hb'
    have hlen1 := vsnStore_length hm1
    rw [hl0]
    obtain ⟨s2, h2⟩ := detach_dirty_some (s := s) hloc r1 (m1 := m1) (by rw [hlen1, W.1]; omega) out.length
    obtain ⟨E2, X2⟩ := eff_detach_dirty h hv hloc hb r1 hlen1 h2
    simp only [h2, Option.bind_some]
    obtain ⟨d, m, m', s3, hd, hm, hw, hs, _⟩ := store_some E2.inv X2 (data := out.map some) (by simp)
    simp only [List.length_map] at hs
    simp only [hd, hm, vsnStore_fits (Nat.lt_add_one _), hw, hs, Option.bind_some, Option.pure_def]
    exact ⟨_, rfl⟩

/-- **capacity handling for every result length**: whatever the formatter produces, both attempts run -/
theorem printfOut_some {s : St} (h : Inv s) {v : Nat} (hv : v < s.n) (out : List Nat) :
    ∃ r, printfOut s v out = some r := by
  obtain ⟨s1, h1⟩ := detach_some h v (c := 0) (m := Generated.printfBuf) (Nat.zero_le _)
  obtain ⟨E1, X1⟩ := eff_detach h hv h1
  simp only [printfOut, h1, Option.bind_eq_bind, Option.bind_some]
  exact printfTail_some E1.inv (by rw [E1.n]; exact hv) X1 _

theorem printf_some {s : St} (h : Inv s) {v : Nat} (hv : v < s.n) (f : List Fmt) :
    ∃ r, printf s v f = some r := printfOut_some h hv _

theorem mapUntilNul_some {f : Nat → Nat} : ∀ {m : List Byte} {L : Nat} {c : List Nat},
    m.take L = c.map some → m[L]? = some (some 0) → ∃ m', mapUntilNul f m = some m'
  | [], L, c, _, hL => by simp at hL
  | none :: r, L, c, ht, hL => by
    cases L with
    | zero => simp at hL
    | succ k =>
      cases c with
      | nil => simp at ht
      | cons x t => simp at ht
  | some x :: r, L, c, ht, hL => by
    simp only [mapUntilNul]
    by_cases x0 : x = 0
    · simp only [x0, if_true]; exact ⟨_, rfl⟩
    · simp only [x0, if_false]
      cases L with
      | zero => simp at hL; exact absurd hL x0
      | succ k =>
        cases c with
        | nil => simp at ht
        | cons y t =>
          simp only [List.take_succ_cons, List.map_cons, List.cons.injEq] at ht
          simp only [List.getElem?_cons_succ] at hL
          obtain ⟨m', hm'⟩ := mapUntilNul_some (f := f) ht.2 hL
          simp only [hm', Option.map_some]; exact ⟨_, rfl⟩

theorem mapChars_some {s : St} (h : Inv s) {v : Nat} (hv : v < s.n) (f : Nat → Nat) {c : List Nat}
    (hc : allSome (absVar s v) = some c) : ∃ s', mapChars s v f = some s' := by
  obtain ⟨s1, h1⟩ := mview_some h v
  obtain ⟨E1, X⟩ := eff_mview h hv h1
  obtain ⟨bk, blk, hloc, hb, r1, hl, hcap⟩ := X
  have W := E1.inv.wf bk blk hb
  simp only [mapChars, h1, Option.bind_eq_bind, Option.bind_some, desc_blk hloc hb, memOf, hb, Option.map_some]
  have ha : blk.bytes.take blk.len = c.map some := by
    have : absVar s1 v = blk.bytes.take blk.len := by simp [absVar, hloc, hb]
    rw [← this, E1.self, allSome_eq hc]
  obtain ⟨m', hm'⟩ := mapUntilNul_some (f := f) ha W.2.2
  simp only [hm', Option.bind_some]
  exact writeOwn_some hloc hb r1 _ _

theorem trim_some {s : St} (h : Inv s) {v tmp : Nat} (ht : tmp < s.n) (chars : List Nat) {c : List Nat}
    (hc : allSome (absVar s v) = some c) : ∃ s', trim s v chars tmp = some s' := by
  obtain ⟨d, hd⟩ := desc_some h v
  simp only [trim, hd, Option.bind_eq_bind, Option.bind_some]
  by_cases l0 : d.len = 0
  · simp only [l0, if_true, Option.pure_def]; exact ⟨_, rfl⟩
  · simp only [l0, if_false, contentVal_eq h v, hc, Option.bind_some]
    split
    · obtain ⟨src, hr⟩ := rd_sub_some h hd ((c.takeWhile (inSet chars)).length : Int)
        ((c.length - ((c.drop (c.takeWhile (inSet chars)).length).reverse.takeWhile (inSet chars)).length
          - (c.takeWhile (inSet chars)).length : Nat) : Int)
      simp only [hr, Option.bind_some]
      exact assignTemp_some h ht v src
    · exact ⟨_, rfl⟩

theorem tokenC_some {s : St} (h : Inv s) {v w tmp : Nat} (hw : w < s.n) (ht : tmp < s.n) (sep st : Nat)
    {c : List Nat} (hc : allSome (absVar s w) = some c) (hz : 0 ∉ c) : ∃ r, tokenC s v w sep st tmp = some r := by
  obtain ⟨d, hd⟩ := desc_some h w
  have hlen := desc_len h hd
  have hcl : c.length = d.len := by rw [hlen, allSome_eq hc, List.length_map]
  -- findCFrom succeeds
  have hf : ∃ s1 f, findCFrom s w sep st = some (s1, f) ∧ Silent s s1 := by
    simp only [findCFrom, hd, Option.bind_eq_bind, Option.bind_some]
    by_cases c1 : st ≥ d.len
    · simp only [c1, if_true, Option.pure_def]; exact ⟨_, _, rfl, Silent.refl h⟩
    · simp only [c1, if_false]
      obtain ⟨s1, h1⟩ := cview_some h w
      obtain ⟨E, t⟩ := eff_cview h hw h1
      have := cstrVar_from E.inv t (by rw [E.self]; exact hc) (nulFree_of hz) (start := st) (by omega)
      simp only [h1, this, Option.bind_some, Option.pure_def]
      exact ⟨_, _, rfl, E.silent⟩
  obtain ⟨s1, f, h1, S⟩ := hf
  obtain ⟨d1, hd1⟩ := desc_some S.inv w
  simp only [tokenC, h1, hd1, Option.bind_eq_bind, Option.bind_some]
  have ht1 : tmp < s1.n := by rw [S.n]; exact ht
  cases f with
  | none =>
    obtain ⟨src, hr⟩ := rd_sub_some S.inv hd1 (st : Int) (-1)
    obtain ⟨s2, h2⟩ := assignTemp_some S.inv ht1 v src
    simp only [hr, h2, Option.bind_some, Option.pure_def]; exact ⟨_, rfl⟩
  | some e =>
    obtain ⟨src, hr⟩ := rd_sub_some S.inv hd1 (st : Int) ((e - st : Nat) : Int)
    obtain ⟨s2, h2⟩ := assignTemp_some S.inv ht1 v src
    simp only [hr, h2, Option.bind_some, Option.pure_def]; exact ⟨_, rfl⟩

theorem tokenS_some {s : St} (h : Inv s) {v w tmp : Nat} (hw : w < s.n) (ht : tmp < s.n) (seps : List Nat)
    {st : Nat} {c : List Nat} (hc : allSome (absVar s w) = some c) (hz : 0 ∉ c) (hst : st ≤ c.length) :
    ∃ r, tokenS s v w seps st tmp = some r := by
  obtain ⟨s1, h1⟩ := cview_some h w
  obtain ⟨E, t⟩ := eff_cview h hw h1
  have S := E.silent
  have hcs := cstrVar_from E.inv t (by rw [E.self]; exact hc) (nulFree_of hz) hst
  obtain ⟨d1, hd1⟩ := desc_some S.inv w
  simp only [tokenS, h1, hcs, hd1, Option.bind_eq_bind, Option.bind_some]
  have ht1 : tmp < s1.n := by rw [S.n]; exact ht
  cases hf : strpbrkL (c.drop st) seps with
  | none =>
    obtain ⟨src, hr⟩ := rd_sub_some S.inv hd1 (st : Int) (-1)
    obtain ⟨s2, h2⟩ := assignTemp_some S.inv ht1 v src
    simp only [hr, h2, Option.bind_some, Option.pure_def]; exact ⟨_, rfl⟩
  | some k =>
    obtain ⟨src, hr⟩ := rd_sub_some S.inv hd1 (st : Int) (k : Int)
    obtain ⟨s2, h2⟩ := assignTemp_some S.inv ht1 v src
    simp only [hr, h2, Option.bind_some, Option.pure_def]; exact ⟨_, rfl⟩

theorem joinLoop_some {v sep : Nat} : ∀ (toks : List (List Byte)) {s : St}, Inv s → v < s.n →
    ∃ s', joinLoop s v sep toks = some s'
  | [], s, _, _ => ⟨s, rfl⟩
  | [t], s, h, hv => by simp only [joinLoop]; exact appendP_some h hv t
  | t :: t2 :: rest, s, h, hv => by
    obtain ⟨s1, h1⟩ := appendP_some h hv t
    have E1 := eff_appendP h hv h1
    have hv1 : v < s1.n := by rw [E1.n]; exact hv
    obtain ⟨s2, h2⟩ := appendP_some E1.inv hv1 [some sep]
    have E2 := eff_appendP E1.inv hv1 h2
    have hv2 : v < s2.n := by rw [E2.n]; exact hv1
    obtain ⟨s3, h3⟩ := joinLoop_some (t2 :: rest) E2.inv hv2
    simp only [joinLoop, h1, appendC, h2, Option.bind_eq_bind, Option.bind_some]
    exact ⟨s3, h3⟩

theorem join_some {s : St} (h : Inv s) {v : Nat} (hv : v < s.n) (toks : List (List Byte)) (sep : Nat) :
    ∃ s', join s v toks sep = some s' := by
  obtain ⟨s1, h1⟩ := clear_some h v
  have E1 := eff_clear h hv h1
  simp only [join, h1, Option.bind_eq_bind, Option.bind_some]
  exact joinLoop_some toks E1.inv (by rw [E1.n]; exact hv)


theorem replaceLoop_some {hh nn : List Nat} {c : List Byte} {wr_ tmp : Nat} (hnn : nn ≠ []) :
    ∀ (fuel : Nat) {s : St} (pos m : Nat), Inv s → tmp < s.n → pos ≤ m →
      strstrL (hh.drop pos) nn = some (m - pos) → hh.length + 1 ≤ fuel + pos →
      ∃ s', replaceLoop hh nn c wr_ tmp fuel s pos m = some s'
  | 0, s, pos, m, _, _, _, hs, hf => by
    have : hh.drop pos = [] := List.drop_of_length_le (by omega)
    rw [this] at hs
    cases nn with
    | nil => exact absurd rfl hnn
    | cons a r => simp [strstrL] at hs
  | fuel + 1, s, pos, m, h, ht, hpm, hs, hf => by
    obtain ⟨s1, h1⟩ := appendP_some h ht ((c.drop pos).take (m - pos))
    have E1 := eff_appendP h ht h1
    have ht1 : tmp < s1.n := by rw [E1.n]; exact ht
    obtain ⟨s2, h2⟩ := appendS_some E1.inv ht1 wr_
    have E2 := eff_appendS E1.inv ht1 h2
    have ht2 : tmp < s2.n := by rw [E2.n]; exact ht1
    simp only [replaceLoop, h1, h2, Option.bind_eq_bind, Option.bind_some]
    have hn1 : 1 ≤ nn.length := by
      cases nn with
      | nil => exact absurd rfl hnn
      | cons a r => simp
    cases hf2 : strstrL (List.drop (m + nn.length) hh) nn with
    | none => simp only; exact appendP_some E2.inv ht2 _
    | some k =>
      simp only
      exact replaceLoop_some hnn fuel (m + nn.length) (m + nn.length + k) E2.inv ht2 (by omega)
        (by rw [hf2]; congr 1; omega) (by omega)

theorem replaceS_some {s : St} (h : Inv s) {v wn tmp : Nat} (hv : v < s.n) (hwn : wn < s.n) (ht : tmp < s.n)
    (wr_ : Nat) {c nd : List Nat} (hc : allSome (absVar s v) = some c) (hn : allSome (absVar s wn) = some nd)
    (hzc : 0 ∉ c) (hzn : 0 ∉ nd) : ∃ s', replaceS s v wn wr_ tmp = some s' := by
  obtain ⟨dn, hdn⟩ := desc_some h wn
  have hlenn := desc_len h hdn
  have hndl : nd.length = dn.len := by rw [hlenn, allSome_eq hn, List.length_map]
  simp only [replaceS, hdn, Option.bind_eq_bind, Option.bind_some]
  by_cases l0 : dn.len = 0
  · simp only [l0, if_true, Option.pure_def]; exact ⟨_, rfl⟩
  · have hnd : nd ≠ [] := by intro x; subst x; simp at hndl; omega
    simp only [l0, if_false]
    obtain ⟨s1, h1⟩ := cview_some h v
    obtain ⟨E1, t1⟩ := eff_cview h hv h1
    have S1 := E1.silent
    have hwn1 : wn < s1.n := by rw [S1.n]; exact hwn
    obtain ⟨s2, h2⟩ := cview_some S1.inv wn
    obtain ⟨E2, t2⟩ := eff_cview S1.inv hwn1 h2
    have S := S1.trans E2.silent
    have tv := term_after_cview S1.inv hwn1 t1 h2
    have ehh := cstrVar_eq S.inv tv (by rw [S.abs]; exact hc) (nulFree_of hzc)
    have enn := cstrVar_eq S.inv t2 (by rw [S.abs]; exact hn) (nulFree_of hzn)
    simp only [h1, h2, ehh, enn, Option.bind_some]
    cases hf : strstrL c nd with
    | none => simp only [Option.pure_def]; exact ⟨_, rfl⟩
    | some m =>
      obtain ⟨dv, hdv⟩ := desc_some S.inv v
      obtain ⟨dr, hdr⟩ := desc_some S.inv wr_
      have ht2 : tmp < s2.n := by rw [S.n]; exact ht
      obtain ⟨s3, h3⟩ := ctorCap_some s2 tmp (dv.len + dr.len * Generated.replaceSlack)
      have E3 := eff_ctorCap S.inv ht2 h3
      have ht3 : tmp < s3.n := by rw [E3.n]; exact ht2
      obtain ⟨s4, h4⟩ := replaceLoop_some (c := absVar s2 v) (wr_ := wr_) hnd (c.length + 1) 0 m E3.inv ht3
        (Nat.zero_le _) (by simpa using hf) (by omega)
      obtain ⟨E4v, E4⟩ := eff_replaceLoop (c.length + 1) 0 m E3.inv ht3 h4
      obtain ⟨s5, h5⟩ := assign_some E4.inv v tmp
      simp only [hdv, hdr, content_eq S.inv, h3, h4, h5, Option.bind_some, Option.pure_def]
      exact ⟨_, rfl⟩

/-! ### the calls that return a String by value -/

theorem plusS_some {s : St} (h : Inv s) {v t0 t1 : Nat} (h0n : t0 < s.n) (h1n : t1 < s.n) (a b : Nat) :
    ∃ s', plusS s v a b t0 t1 = some s' := by
  obtain ⟨s1, e1⟩ := ctorCopy_some h t0 a
  have E1 := eff_ctorCopy h h0n e1
  obtain ⟨s2, e2⟩ := appendS_some E1.inv (v := t0) (by rw [E1.n]; exact h0n) b
  have E2 := eff_appendS E1.inv (by rw [E1.n]; exact h0n) e2
  obtain ⟨s3, e3⟩ := ctorCopy_some E2.inv t1 t0
  have E3 := eff_ctorCopy E2.inv (v := t1) (by rw [E2.n, E1.n]; exact h1n) e3
  have E4 := eff_setEmpty E3.inv (v := t0) (by rw [E3.n, E2.n, E1.n]; exact h0n)
  obtain ⟨s5, e5⟩ := assign_some E4.inv v t1
  simp only [plusS, e1, e2, e3, e5, Option.bind_eq_bind, Option.bind_some, Option.pure_def]
  exact ⟨_, rfl⟩

theorem plusLit_some {s : St} (h : Inv s) {v t0 t1 t2 : Nat} (h0n : t0 < s.n) (h1n : t1 < s.n) (h2n : t2 < s.n)
    (a : Nat) {r len : Nat} (hr : len < (s.regs r).length) : ∃ s', plusLit s v a r len t0 t1 t2 = some s' := by
  have E0 := eff_attach h h2n (r := r) (off := 0) (len := len) (by omega)
  obtain ⟨s1, e1⟩ := plusS_some E0.inv (v := v) (t0 := t0) (t1 := t1) (by rw [E0.n]; exact h0n) (by rw [E0.n]; exact h1n) a t2
  simp only [plusLit, e1, Option.bind_eq_bind, Option.bind_some, Option.pure_def]
  exact ⟨_, rfl⟩

theorem fromFmt_some {s : St} (h : Inv s) {tmp : Nat} (ht : tmp < s.n) (v : Nat) (f : List Fmt) :
    ∃ s', fromFmt s v f tmp = some s' := by
  obtain ⟨⟨s1, r⟩, h1⟩ := printf_some h ht f
  have E1 := eff_printf h ht h1
  obtain ⟨s2, h2⟩ := assign_some E1.inv v tmp
  simp only [fromFmt, h1, h2, Option.bind_eq_bind, Option.bind_some, Option.pure_def]
  exact ⟨_, rfl⟩

theorem fromOut_some {s : St} (h : Inv s) {tmp : Nat} (ht : tmp < s.n) (v : Nat) (out : List Nat) :
    ∃ s', fromOut s v out tmp = some s' := by
  obtain ⟨⟨s1, r⟩, h1⟩ := printfOut_some h ht out
  have E1 := (eff_printfOut h ht h1).1
  obtain ⟨s2, h2⟩ := assign_some E1.inv v tmp
  simp only [fromOut, h1, h2, Option.bind_eq_bind, Option.bind_some, Option.pure_def]
  exact ⟨_, rfl⟩

theorem fromPrintf_some {s : St} (h : Inv s) {tmp : Nat} (ht : tmp < s.n) (v : Nat) (f : List Fmt) :
    ∃ s', fromPrintf s v f tmp = some s' := by
  obtain ⟨s0, h0⟩ := ctorCap_some s tmp Generated.fromPrintfBuf
  have E0 := eff_ctorCap h ht h0
  have ht0 : tmp < s0.n := by rw [E0.n]; exact ht
  obtain ⟨⟨s1, r⟩, h1⟩ := printfTail_some E0.inv ht0 (excl_ctorCap h0) (render f)
  have E1 := (eff_printfTail E0.inv ht0 (excl_ctorCap h0) h1).1
  obtain ⟨s2, h2⟩ := assign_some E1.inv v tmp
  simp only [fromPrintf, h0, h1, h2, Option.bind_eq_bind, Option.bind_some, Option.pure_def]
  exact ⟨_, rfl⟩

/-- what every call requires of its arguments: the variables exist; `attach` gets a range with one
    readable byte behind it; the copy constructor builds a *new* object from another one -/
def ValidArgs (s : St) : Op → Prop
  | .ctorEmpty v | .ctorPtr v _ | .ctorFill v _ _ | .ctorCap v _ | .clear v | .detach v | .cview v | .resize v _
  | .reserve v _ | .fillFrom v _ _ | .appendP v _ | .appendC v _ | .prependP v _ | .replaceC v _ _ | .lower v
  | .upper v | .trim v _ | .join v _ _ | .replaceL v _ _ | .printf v _ | .plusEqC v _ | .fromCStr v _ | .fromCStrN v _
  | .fromBool v _ | .fromD v _ | .fromU v _ | .fromPrintf v _ | .printfO v _ | .fromOut v _ => validVar s v = true
  | .attach v r off len => validVar s v = true ∧ off + len < (s.regs r).length
  | .ctorCopy v w => validVar s v = true ∧ validVar s w = true ∧ v ≠ w
  | .assign v w | .appendS v w | .prependS v w | .substr v w _ _ | .tokenC v w _ _ | .tokenS v w _ _ | .plusEqS v w =>
    validVar s v = true ∧ validVar s w = true
  | .plus v a b => validVar s v = true ∧ validVar s a = true ∧ validVar s b = true
  | .plusLit v a r len => validVar s v = true ∧ validVar s a = true ∧ len < (s.regs r).length
  | .replaceS v wn wr_ => validVar s v = true ∧ validVar s wn = true ∧ validVar s wr_ = true

theorem step_total_all {s : St} (g : Good s) {op : Op} (va : ValidArgs s op)
    (dom : (Spec.newVal s.regs (absVar s) op).isSome = true) : ∃ s', step s op = some s' := by
  have h := g.inv
  have T := g.temps
  cases op with
  | ctorEmpty v => exact step_total g (op := .ctorEmpty v) va
  | attach v r off len => exact step_total g (op := .attach v r off len) va
  | ctorCopy v w => exact step_total g (op := .ctorCopy v w) va
  | ctorPtr v src => exact step_total g (op := .ctorPtr v src) va
  | ctorFill v n c => exact step_total g (op := .ctorFill v n c) va
  | ctorCap v cap => exact step_total g (op := .ctorCap v cap) va
  | assign v w => exact step_total g (op := .assign v w) va
  | clear v => exact step_total g (op := .clear v) va
  | detach v => exact step_total g (op := .detach v) va
  | cview v => exact step_total g (op := .cview v) va
  | resize v n => exact step_total g (op := .resize v n) va
  | reserve v n => exact step_total g (op := .reserve v n) va
  | appendS v w => exact step_total g (op := .appendS v w) va
  | appendP v src => exact step_total g (op := .appendP v src) va
  | appendC v c => exact step_total g (op := .appendC v c) va
  | fillFrom v f c =>
    simp only [ValidArgs] at va; have V := valid_facts va
    simp only [step, va, if_true]; exact fillFrom_some h V.1 f c
  | prependS v w =>
    simp only [ValidArgs] at va; have V := valid_facts va.1
    simp only [step, va, and_self, if_true]; exact prependS_some h V.1 V.2.2.2.2.1 V.2.1 w
  | prependP v src =>
    simp only [ValidArgs] at va; have V := valid_facts va
    simp only [step, va, if_true]; exact prependP_some h V.1 V.2.2.2.2.1 V.2.1 _
  | replaceC v a b =>
    simp only [ValidArgs] at va; have V := valid_facts va
    simp only [step, va, if_true]
    cases hc : allSome (absVar s v) with
    | none => simp [Spec.newVal, hc] at dom
    | some c => exact mapChars_some h V.1 _ hc
  | lower v =>
    simp only [ValidArgs] at va; have V := valid_facts va
    simp only [step, va, if_true]
    cases hc : allSome (absVar s v) with
    | none => simp [Spec.newVal, hc] at dom
    | some c => exact mapChars_some h V.1 _ hc
  | upper v =>
    simp only [ValidArgs] at va; have V := valid_facts va
    simp only [step, va, if_true]
    cases hc : allSome (absVar s v) with
    | none => simp [Spec.newVal, hc] at dom
    | some c => exact mapChars_some h V.1 _ hc
  | substr v w st ln =>
    simp only [ValidArgs] at va; have V := valid_facts va.1
    simp only [step, va, and_self, if_true]; exact substr_some h V.2.2.2.2.1 v w st ln
  | trim v chars =>
    simp only [ValidArgs] at va; have V := valid_facts va
    simp only [step, va, if_true]
    cases hc : allSome (absVar s v) with
    | none => simp [Spec.newVal, hc] at dom
    | some c => exact trim_some h V.2.2.2.2.1 chars hc
  | tokenC v w sep st =>
    simp only [ValidArgs] at va; have V := valid_facts va.1; have Vw := valid_facts va.2
    simp only [step, va, and_self, if_true]
    cases hc : allSome (absVar s w) with
    | none => simp [Spec.newVal, hc] at dom
    | some c =>
      by_cases hz : 0 ∉ c
      · obtain ⟨r, hr⟩ := tokenC_some (v := v) h Vw.1 V.2.2.2.2.1 sep st hc hz
        simp only [hr, Option.map_some]; exact ⟨_, rfl⟩
      · simp [Spec.newVal, hc, hz] at dom
  | tokenS v w seps st =>
    simp only [ValidArgs] at va; have V := valid_facts va.1; have Vw := valid_facts va.2
    simp only [step, va, and_self, if_true]
    cases hc : allSome (absVar s w) with
    | none => simp [Spec.newVal, hc] at dom
    | some c =>
      by_cases hz : 0 ∉ c ∧ st ≤ c.length
      · obtain ⟨r, hr⟩ := tokenS_some (v := v) h Vw.1 V.2.2.2.2.1 seps hc hz.1 hz.2
        simp only [hr, Option.map_some]; exact ⟨_, rfl⟩
      · simp only [Spec.newVal, hc, Option.bind_some, hz, if_false] at dom
        cases dom
  | join v toks sep =>
    simp only [ValidArgs] at va; have V := valid_facts va
    simp only [step, va, if_true]; exact join_some h V.1 _ sep
  | replaceS v wn wr_ =>
    simp only [ValidArgs] at va; have V := valid_facts va.1; have Vn := valid_facts va.2.1
    simp only [step, va, and_self, if_true]
    cases hc : allSome (absVar s v) with
    | none => simp [Spec.newVal, hc] at dom
    | some c =>
      cases hn : allSome (absVar s wn) with
      | none => simp [Spec.newVal, hc, hn] at dom
      | some nd =>
        by_cases hz : 0 ∉ c ∧ 0 ∉ nd
        · exact replaceS_some h V.1 Vn.1 V.2.2.2.2.1 wr_ hc hn hz.1 hz.2
        · simp only [Spec.newVal, hc, hn, Option.bind_some, hz, if_false] at dom
          cases dom
  | replaceL v nd rp =>
    simp only [ValidArgs] at va
    obtain ⟨hv, n0, n1, n2, t0, t1, t2⟩ := valid_facts va
    simp only [step, va, if_true]
    cases hc : allSome (absVar s v) with
    | none => simp [Spec.newVal, hc] at dom
    | some c =>
      by_cases hz : 0 ∉ c ∧ 0 ∉ nd
      · obtain ⟨s1, h1⟩ := ctorPtr_some s (userVars s + 1) (nd.map some)
        have E1 := eff_ctorPtr h t1 h1
        obtain ⟨s2, h2⟩ := ctorPtr_some s1 (userVars s + 2) (rp.map some)
        have E2 := eff_ctorPtr E1.inv (by rw [E1.n]; exact t2) h2
        have av : absVar s2 v = absVar s v := by rw [E2.other v n2, E1.other v n1]
        have an : absVar s2 (userVars s + 1) = nd.map some := by rw [E2.other _ (by omega), E1.self]
        obtain ⟨s3, h3⟩ := replaceS_some E2.inv (v := v) (wn := userVars s + 1) (tmp := userVars s)
          (by rw [E2.n, E1.n]; exact hv) (by rw [E2.n, E1.n]; exact t1) (by rw [E2.n, E1.n]; exact t0)
          (userVars s + 2) (c := c) (nd := nd) (by rw [av]; exact hc) (by rw [an]; exact allSome_map nd) hz.1 hz.2
        simp only [h1, h2, h3, Option.bind_eq_bind, Option.bind_some, Option.pure_def]
        exact ⟨_, rfl⟩
      · simp only [Spec.newVal, hc, Option.bind_some, hz, if_false] at dom
        cases dom
  | printf v f =>
    simp only [ValidArgs] at va; have V := valid_facts va
    simp only [step, va, if_true]
    obtain ⟨r, hr⟩ := printf_some h V.1 f
    simp only [hr, Option.map_some]; exact ⟨_, rfl⟩
  | plusEqS v w =>
    simp only [ValidArgs] at va; have V := valid_facts va.1
    simp only [step, va, and_self, if_true]; exact appendS_some h V.1 w
  | plusEqC v c =>
    simp only [ValidArgs] at va; have V := valid_facts va
    simp only [step, va, if_true]; exact appendP_some h V.1 _
  | plus v a b =>
    simp only [ValidArgs] at va; have V := valid_facts va.1
    simp only [step, va, and_self, if_true]; exact plusS_some h V.2.2.2.2.1 V.2.2.2.2.2.1 a b
  | plusLit v a r len =>
    simp only [ValidArgs] at va; have V := valid_facts va.1
    simp only [step, va, and_self, if_true]
    exact plusLit_some h V.2.2.2.2.1 V.2.2.2.2.2.1 V.2.2.2.2.2.2 a va.2.2
  | fromCStr v src =>
    simp only [ValidArgs] at va; have V := valid_facts va
    simp only [step, va, if_true]; exact assignTemp_some h V.2.2.2.2.1 v _
  | fromCStrN v src =>
    simp only [ValidArgs] at va; have V := valid_facts va
    simp only [step, va, if_true]; exact assignTemp_some h V.2.2.2.2.1 v _
  | fromBool v b =>
    simp only [ValidArgs] at va
    simp only [step, va, if_true]; exact ctorPtr_some s v _
  | fromD v x =>
    simp only [ValidArgs] at va; have V := valid_facts va
    simp only [step, va, if_true]; exact fromFmt_some h V.2.2.2.2.1 v _
  | fromU v x =>
    simp only [ValidArgs] at va; have V := valid_facts va
    simp only [step, va, if_true]; exact fromFmt_some h V.2.2.2.2.1 v _
  | fromPrintf v f =>
    simp only [ValidArgs] at va; have V := valid_facts va
    simp only [step, va, if_true]; exact fromPrintf_some h V.2.2.2.2.1 v f
  | printfO v out =>
    simp only [ValidArgs] at va; have V := valid_facts va
    simp only [step, va, if_true]
    obtain ⟨r, hr⟩ := printfOut_some h V.1 out
    simp only [hr, Option.map_some]; exact ⟨_, rfl⟩
  | fromOut v out =>
    simp only [ValidArgs] at va; have V := valid_facts va
    simp only [step, va, if_true]; exact fromOut_some h V.2.2.2.2.1 v out

/-! ### the invariant along histories -/

theorem good_step {s s' : St} (g : Good s) {op : Op} (e : step s op = some s') : Good s' := by
  obtain ⟨val, E, _⟩ := step_ok g e
  have hu : userVars s' = userVars s := by simp only [userVars, E.n]
  refine ⟨E.inv, fun u hu' => ?_⟩
  rw [hu] at hu'
  have hne : u ≠ op.target := by
    intro x; subst x
    -- the target of a call that did not fail is a user variable
    have : validVar s op.target = true := by
      cases op <;> simp only [step] at e <;> split at e <;> first | (rename_i c; first | exact c.1 | exact c) | cases e
    have := (valid_facts this).2.1
    have : op.target < userVars s := by
      have h2 : validVar s op.target = true := by assumption
      unfold validVar at h2; exact of_decide_eq_true h2
    omega
  rw [E.other u hne]; exact g.temps u hu'

theorem good_run {s s' : St} (g : Good s) : ∀ {ops : List Op}, run s ops = some s' → Good s'
  | [], e => by simp only [run, Option.some.injEq] at e; subst e; exact g
  | op :: ops, e => by
    simp only [run, Option.bind_eq_some_iff] at e
    obtain ⟨s1, h1, e⟩ := e
    exact good_run (good_step g h1) e


theorem validArgs_congr {s s1 : St} (hn : s1.n = s.n) (hr : s1.regs = s.regs) (op : Op) :
    ValidArgs s1 op ↔ ValidArgs s op := by
  cases op <;> simp only [ValidArgs, validVar, userVars, hn, hr] <;> exact Iff.rfl


end Nstd.Str
