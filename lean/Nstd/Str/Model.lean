import Nstd.Generated.StrTables
/-
  Executable model of `String` (include/nstd/String.hpp, src/String.cpp, with the repairs of
  fixes/str/ applied), method by method, over *checked* memory.  Core Lean only.

  Memory
    * heap block `b`      – one `new char[capacity + 1 + sizeof(Data)]`: the `Data` header
                            (`len`, `capacity`, `ref`) and the `capacity + 1` chars behind it.
                            A char is `none` while it is uninitialised.
    * foreign region `r`  – memory the String never owns: a string literal (with its NUL) or
                            attached caller memory (with one readable guard byte behind it).
    * `nul`               – `emptyData.str` (points at a zero word).
  A String variable (`slot`) holds `data`: `&emptyData`, a heap block, or its inline `_data`
  descriptor `(region, offset, length)` with `ref = 0`.

  Every load is checked (range; decisions need initialised bytes), every store goes through
  `writeOwn`, which *faults* unless the slot holds the only reference to a heap block: a store
  into literal / attached / shared memory is a fault of the model (`none`).

  Model conventions (the model is stricter than the C++ code, never weaker):
    * bytes that come into view when a block grows in place are marked uninitialised
      (the C++ code leaves stale chars there; the specification calls them unspecified);
    * `memcpy` may copy uninitialised bytes, every comparison/branch on one is a fault.
  Temporaries of the C++ code (`String copy(*this)`, `String result(n)`, the value returned
  by `substr`) live in slots behind the user variables, so each API function is a composition
  of the same few primitives (`setEmpty`, `setForeign`, `share`, `allocSet`, `writeOwn`).
-/
namespace Nstd.Str

abbrev Byte := Option Nat

structure Block where
  bytes : List Byte
  len : Nat
  cap : Nat
  ref : Nat
  deriving Repr, Inhabited

inductive Loc where
  | empty
  | blk (b : Nat)
  | foreign (r off len : Nat)
  deriving DecidableEq, Repr, Inhabited

structure St where
  n : Nat                       -- number of slots (user variables + temporaries)
  heap : Nat → Option Block     -- `none` = never allocated / deleted
  next : Nat                    -- first unused block id
  vars : Nat → Loc
  regs : Nat → List Nat         -- foreign memory, byte by byte (all initialised)

def upd {α : Type} (f : Nat → α) (i : Nat) (x : α) : Nat → α := fun j => if j = i then x else f j

inductive Base where
  | blk (b : Nat)
  | reg (r : Nat)
  | nul
  deriving DecidableEq, Repr, Inhabited

/-- what `data->str`, `data->len`, `data->capacity`, `data->ref` evaluate to -/
structure Desc where
  base : Base
  off : Nat
  len : Nat
  cap : Nat
  ref : Nat
  deriving Repr, Inhabited

def desc (s : St) (v : Nat) : Option Desc :=
  match s.vars v with
  | .empty => some ⟨.nul, 0, 0, 0, 0⟩
  | .foreign r off len => some ⟨.reg r, off, len, 0, 0⟩
  | .blk b =>
    match s.heap b with
    | some blk => some ⟨.blk b, 0, blk.len, blk.cap, blk.ref⟩
    | none => none                        -- dangling `data`

/-! ### checked memory -/

def memOf (s : St) : Base → Option (List Byte)
  | .blk b => (s.heap b).map (·.bytes)
  | .reg r => some ((s.regs r).map some)
  | .nul => some [some 0]

/-- `n` bytes at offset `off` (may be uninitialised: `memcpy` source) -/
def rdList (m : List Byte) (off n : Nat) : Option (List Byte) :=
  if off + n ≤ m.length then some ((m.drop off).take n) else none

def wr (m : List Byte) (off : Nat) (d : List Byte) : Option (List Byte) :=
  if off + d.length ≤ m.length then some (m.take off ++ d ++ m.drop (off + d.length)) else none

def rdRange (s : St) (p : Base) (off n : Nat) : Option (List Byte) := do
  let m ← memOf s p
  rdList m off n

/-- all bytes initialised -/
def allSome : List Byte → Option (List Nat)
  | [] => some []
  | none :: _ => none
  | some x :: r => (allSome r).map (x :: ·)

/-- a load whose value is branched on -/
def rdVal (s : St) (p : Base) (off : Nat) : Option Nat := do
  let m ← memOf s p
  match m[off]? with
  | some (some x) => some x
  | _ => none

/-- the NUL-terminated string starting at the head of `m` (without the NUL); running off the
    block or onto an uninitialised byte is a fault -/
def cstrOf : List Byte → Option (List Nat)
  | [] => none
  | none :: _ => none
  | some x :: r => if x = 0 then some [] else (cstrOf r).map (x :: ·)

def cstrAt (s : St) (p : Base) (off : Nat) : Option (List Nat) := do
  let m ← memOf s p
  if off ≤ m.length then cstrOf (m.drop off) else none

def fresh (n : Nat) : List Byte := List.replicate n none

/-- `capacity | 0x3` -/
def capRule (n : Nat) : Nat := n ||| Generated.capMask

/-- `length | 0x3` of the copying constructors and `operator=` -/
def ctorRule (n : Nat) : Nat := n ||| Generated.ctorMask

/-! ### the heap primitives -/

/-- `if(data->ref && Atomic::decrement(data->ref) == 0) delete[] (char*)data;` -/
def release (s : St) (v : Nat) : St :=
  match s.vars v with
  | .blk b =>
    match s.heap b with
    | none => s
    | some blk =>
      if blk.ref = 1 then { s with heap := upd s.heap b none }
      else { s with heap := upd s.heap b (some { blk with ref := blk.ref - 1 }) }
  | _ => s

def setVar (s : St) (v : Nat) (l : Loc) : St := { s with vars := upd s.vars v l }

/-- release, `data = &emptyData` -/
def setEmpty (s : St) (v : Nat) : St := setVar (release s v) v .empty

/-- release, `data = &_data; _data = {str, len, ref = 0}` -/
def setForeign (s : St) (v : Nat) (r off len : Nat) : St := setVar (release s v) v (.foreign r off len)

/-- `Atomic::increment(other->ref); release; data = other` -/
def share (s : St) (v : Nat) (b : Nat) : Option St :=
  match s.heap b with
  | none => none
  | some blk =>
    let s1 : St := { s with heap := upd s.heap b (some { blk with ref := blk.ref + 1 }) }
    some (setVar (release s1 v) v (.blk b))

/-- a new block with the given chars, `ref = 1`; release; `data = newData` -/
def allocSet (s : St) (v : Nat) (bytes : List Byte) (len cap : Nat) : St :=
  let s1 := setEmpty s v
  { s1 with heap := upd s1.heap s1.next (some ⟨bytes, len, cap, 1⟩), next := s1.next + 1,
            vars := upd s1.vars v (.blk s1.next) }

/-- stores through `(char*)data->str` and `data->len = …`; only legal on an exclusively owned block -/
def writeOwn (s : St) (v : Nat) (bytes : List Byte) (len : Nat) : Option St :=
  match s.vars v with
  | .blk b =>
    match s.heap b with
    | some blk =>
      if blk.ref = 1 then some { s with heap := upd s.heap b (some { blk with bytes := bytes, len := len }) }
      else none
    | none => none
  | _ => none

/-! ### constructors, destructor, assignment -/

/-- destructor followed by `String()` -/
def ctorEmpty (s : St) (v : Nat) : St := setEmpty s v

/-- `String(const char (&str)[N])` / `attach(str, length)` -/
def attach (s : St) (v : Nat) (r off len : Nat) : St := setForeign s v r off len

/-- the block `String(const char* str, usize length)` builds: chars, NUL, capacity `length | 3` -/
def mkBlock (src : List Byte) : Option (List Byte) :=
  wr (fresh (ctorRule src.length + 1)) 0 (src ++ [some 0])

/-- `String(const char* str, usize length)` into an empty slot -/
def ctorPtr (s : St) (v : Nat) (src : List Byte) : Option St := do
  let m ← mkBlock src
  pure (allocSet s v m src.length (ctorRule src.length))

/-- `String(usize length, char c)` -/
def ctorFill (s : St) (v : Nat) (n c : Nat) : Option St := ctorPtr s v (List.replicate n (some c))

/-- `explicit String(usize capacity)` -/
def ctorCap (s : St) (v : Nat) (cap : Nat) : Option St := do
  let m ← wr (fresh (cap + 1)) 0 [some 0]
  pure (allocSet s v m 0 cap)

/-- `String(const String& other)` into the (empty) slot `v` -/
def ctorCopy (s : St) (v w : Nat) : Option St := do
  let d ← desc s w
  match s.vars w with
  | .blk b => share s v b
  | .empty => pure (setEmpty s v)
  | .foreign _ _ _ => do
    let src ← rdRange s d.base d.off d.len
    ctorPtr s v src

/-- `operator=(const String& other)` -/
def assign (s : St) (v w : Nat) : Option St := do
  let d ← desc s w
  match s.vars w with
  | .blk b => share s v b
  | _ => do
    let src ← rdRange s d.base d.off d.len
    ctorPtr s v src

/-! ### detach and the C string views -/

/-- the chars `[from, to)` become unspecified (model convention for in-place growth) -/
def poison (m : List Byte) (a b : Nat) : List Byte :=
  if a < b ∧ b ≤ m.length then m.take a ++ fresh (b - a) ++ m.drop b else m

/-- `detach(usize copyLength, usize minCapacity)` -/
def detach (s : St) (v : Nat) (copyLen minCap : Nat) : Option St := do
  let d ← desc s v
  if d.ref = 1 ∧ minCap ≤ d.cap then do
    let m ← memOf s d.base
    let m ← wr (poison m d.len copyLen) copyLen [some 0]
    writeOwn s v m copyLen
  else do
    let cap := capRule minCap
    let src ← rdRange s d.base d.off (if d.len < copyLen then d.len else copyLen)
    let m ← wr (fresh (cap + 1)) 0 src
    let m ← wr m copyLen [some 0]
    pure (allocSet s v m copyLen cap)

/-- `operator const char*()`: `if(data->str[data->len]) detach(data->len, data->len);` -/
def cview (s : St) (v : Nat) : Option St := do
  let d ← desc s v
  let t ← rdVal s d.base (d.off + d.len)
  if t ≠ 0 then detach s v d.len d.len else pure s

/-- `operator char*()` / `detach()` -/
def mview (s : St) (v : Nat) : Option St := do
  let d ← desc s v
  detach s v d.len d.len

/-- the chars `data->str[0 .. data->len)` -/
def content (s : St) (v : Nat) : Option (List Byte) := do
  let d ← desc s v
  rdRange s d.base d.off d.len

/-- the NUL-terminated string at `data->str + start` -/
def cstrVar (s : St) (v : Nat) (start : Nat) : Option (List Nat) := do
  let d ← desc s v
  cstrAt s d.base (d.off + start)

/-! ### simple mutators -/

def clear (s : St) (v : Nat) : Option St := do
  let d ← desc s v
  if d.ref = 1 then do
    let m ← memOf s d.base
    let m ← wr m 0 [some 0]
    writeOwn s v m 0
  else pure (setEmpty s v)

def resize (s : St) (v : Nat) (n : Nat) : Option St := detach s v n n

def reserve (s : St) (v : Nat) (n : Nat) : Option St := do
  let d ← desc s v
  detach s v d.len (if n < d.len then d.len else n)

/-- the tail shared by `append`/`prepend`: `src` goes to `data->str + at`, NUL at `newLen`, `data->len = newLen` -/
def putTail (s : St) (v : Nat) (at_ : Nat) (src : List Byte) (newLen : Nat) : Option St := do
  let d ← desc s v
  let m ← memOf s d.base
  let m ← wr m (d.off + at_) src
  let m ← wr m (d.off + newLen) [some 0]
  writeOwn s v m newLen

/-- `append(const String& str)` (`str` may be `*this`: it is read after the detach) -/
def appendS (s : St) (v w : Nat) : Option St := do
  let dv ← desc s v
  let dw ← desc s w
  let newLen := dv.len + dw.len
  let s ← detach s v dv.len newLen
  let dv ← desc s v
  let src ← content s w
  putTail s v dv.len src newLen

/-- `append(const char* str, usize len)`; `str` outside the string's own block -/
def appendP (s : St) (v : Nat) (src : List Byte) : Option St := do
  let dv ← desc s v
  let newLen := dv.len + src.length
  let s ← detach s v dv.len newLen
  let dv ← desc s v
  putTail s v dv.len src newLen

def appendC (s : St) (v : Nat) (c : Nat) : Option St := appendP s v [some c]

/-- `prepend(const String& other)` (repaired: the argument may be `*this`); `tmp` = slot of `copy` -/
def prependS (s : St) (v w tmp : Nat) : Option St := do
  let s ← ctorCopy s tmp v
  let w := if w = v then tmp else w
  let dw ← desc s w
  let dc ← desc s tmp
  let newLen := dw.len + dc.len
  let s ← detach s v 0 newLen
  let a ← content s w
  let b ← content s tmp
  let dv ← desc s v
  let m ← memOf s dv.base
  let m ← wr m 0 a
  let m ← wr m a.length b
  let m ← wr m newLen [some 0]
  let s ← writeOwn s v m newLen
  pure (setEmpty s tmp)

/-- `prepend(const char* str, usize len)` -/
def prependP (s : St) (v : Nat) (a : List Byte) (tmp : Nat) : Option St := do
  let s ← ctorCopy s tmp v
  let dc ← desc s tmp
  let newLen := a.length + dc.len
  let s ← detach s v 0 newLen
  let b ← content s tmp
  let dv ← desc s v
  let m ← memOf s dv.base
  let m ← wr m 0 a
  let m ← wr m a.length b
  let m ← wr m newLen [some 0]
  let s ← writeOwn s v m newLen
  pure (setEmpty s tmp)

/-- `for(char* str = data->str; *str; ++str) *str = f(*str)` -/
def mapUntilNul (f : Nat → Nat) : List Byte → Option (List Byte)
  | [] => none
  | none :: _ => none
  | some x :: r => if x = 0 then some (some 0 :: r) else (mapUntilNul f r).map (some (f x) :: ·)

def mapChars (s : St) (v : Nat) (f : Nat → Nat) : Option St := do
  let s ← mview s v
  let d ← desc s v
  let m ← memOf s d.base
  let m ← mapUntilNul f m
  writeOwn s v m d.len

/-- `lowerCaseMap[(uchar)c]` / `upperCaseMap[(uchar)c]`: the tables are regenerated from String.cpp -/
def toLower (c : Nat) : Nat := Generated.lowerCaseMap.getD c c
def toUpper (c : Nat) : Nat := Generated.upperCaseMap.getD c c

def replaceC (s : St) (v : Nat) (a b : Nat) : Option St := mapChars s v (fun c => if c = a then b else c)
def lowerCase (s : St) (v : Nat) : Option St := mapChars s v toLower
def upperCase (s : St) (v : Nat) : Option St := mapChars s v toUpper

/-- `((char*)s)[i] = c` for `from ≤ i < length()` (what a caller does after a growing `resize`) -/
def fillFrom (s : St) (v : Nat) (from_ c : Nat) : Option St := do
  let s ← mview s v
  let d ← desc s v
  let m ← memOf s d.base
  let m ← wr m (if from_ < d.len then from_ else d.len) (List.replicate (d.len - from_) (some c))
  writeOwn s v m d.len

/-! ### substr and everything that assigns a temporary -/

/-- `[start, end)` as `substr(ssize start, ssize length)` computes it -/
def substrRange (len : Nat) (start length : Int) : Nat × Nat :=
  let st : Nat := if start < 0 then (if (len : Int) + start < 0 then 0 else ((len : Int) + start).toNat)
                  else if start.toNat > len then len else start.toNat
  let en : Nat := if length ≥ 0 then (if st + length.toNat > len then len else st + length.toNat) else len
  (st, en)

/-- `v = <temporary String(ptr, len)>`: construct in `tmp`, assign, destroy the temporary -/
def assignTemp (s : St) (v : Nat) (src : List Byte) (tmp : Nat) : Option St := do
  let s ← ctorPtr s tmp src
  let s ← assign s v tmp
  pure (setEmpty s tmp)

/-- `v = w.substr(start, length)` -/
def substr (s : St) (v w : Nat) (start length : Int) (tmp : Nat) : Option St := do
  let d ← desc s w
  let (st, en) := substrRange d.len start length
  let src ← rdRange s d.base (d.off + st) (en - st)
  assignTemp s v src tmp

/-! ### libc on NUL-terminated, NUL-free strings (assumptions: C standard behaviour) -/

def strstrL : List Nat → List Nat → Option Nat
  | [], n => if n.isEmpty then some 0 else none
  | x :: t, n => if n.isPrefixOf (x :: t) then some 0 else (strstrL t n).map (· + 1)

def strpbrkL (h cs : List Nat) : Option Nat := h.findIdx? (fun c => cs.contains c)

/-- `strchr(h, c)`: `c = 0` finds the terminator -/
def strchrL (h : List Nat) (c : Nat) : Option Nat :=
  if c = 0 then some h.length else h.findIdx? (· == c)

/-- `strchr(chars, c) != 0` as `trim` uses it -/
def inSet (chars : List Nat) (c : Nat) : Bool := c == 0 || chars.contains c

def strcmpL : List Nat → List Nat → Int
  | [], [] => 0
  | [], y :: _ => - (y : Int)
  | x :: _, [] => (x : Int)
  | x :: xs, y :: ys => if x = y then strcmpL xs ys else (x : Int) - (y : Int)

/-- `compare(s1, s2, len)` -/
def strncmpL : List Nat → List Nat → Nat → Int
  | _, _, 0 => 0
  | [], b, _ + 1 => - ((b.headD 0 : Nat) : Int)
  | x :: xs, b, n + 1 => if x = b.headD 0 then strncmpL xs b.tail n else (x : Int) - ((b.headD 0 : Nat) : Int)

/-! ### queries -/

def compareS (s : St) (v w : Nat) : Option (St × Int) := do
  let s ← cview s v
  let s ← cview s w
  let a ← cstrVar s v 0
  let b ← cstrVar s w 0
  pure (s, strcmpL a b)

def compareN (s : St) (v w : Nat) (n : Nat) : Option (St × Int) := do
  let s ← cview s v
  let s ← cview s w
  let a ← cstrVar s v 0
  let b ← cstrVar s w 0
  pure (s, strncmpL a b n)

def compareIC (s : St) (v w : Nat) : Option (St × Int) := do
  let s ← cview s v
  let s ← cview s w
  let a ← cstrVar s v 0
  let b ← cstrVar s w 0
  pure (s, strcmpL (a.map toLower) (b.map toLower))

def compareICN (s : St) (v w : Nat) (n : Nat) : Option (St × Int) := do
  let s ← cview s v
  let s ← cview s w
  let a ← cstrVar s v 0
  let b ← cstrVar s w 0
  pure (s, strncmpL (a.map toLower) (b.map toLower) n)

def contentVal (s : St) (v : Nat) : Option (List Nat) := do
  let c ← content s v
  allSome c

/-- `operator==`: lengths, then `memcmp` over the first string's length -/
def equalS (s : St) (v w : Nat) : Option Bool := do
  let dv ← desc s v
  let dw ← desc s w
  if dv.len ≠ dw.len then pure false
  else do
    let a ← contentVal s v
    let b ← contentVal s w
    pure (a == b)

def equalsIC (s : St) (v w : Nat) : Option (St × Bool) := do
  let dv ← desc s v
  let dw ← desc s w
  if dv.len ≠ dw.len then pure (s, false)
  else do
    let (s, r) ← compareIC s v w
    pure (s, r == 0)

def startsWith (s : St) (v w : Nat) : Option Bool := do
  let dv ← desc s v
  let dw ← desc s w
  if dv.len < dw.len then pure false
  else do
    let a ← rdRange s dv.base dv.off dw.len
    let a ← allSome a
    let b ← contentVal s w
    pure (a == b)

def endsWith (s : St) (v w : Nat) : Option Bool := do
  let dv ← desc s v
  let dw ← desc s w
  if dv.len < dw.len then pure false
  else do
    let a ← rdRange s dv.base (dv.off + dv.len - dw.len) dw.len
    let a ← allSome a
    let b ← contentVal s w
    pure (a == b)

/-- `find(char c)`: the loop over `[0, len)` -/
def findC (s : St) (v : Nat) (c : Nat) : Option (Option Nat) := do
  let a ← contentVal s v
  pure (a.findIdx? (· == c))

def findLastIdx (a : List Nat) (c : Nat) : Option Nat :=
  match a.reverse.findIdx? (· == c) with
  | some i => some (a.length - 1 - i)
  | none => none

def findLastC (s : St) (v : Nat) (c : Nat) : Option (Option Nat) := do
  let a ← contentVal s v
  pure (findLastIdx a c)

/-- `find(char c, usize start)` -/
def findCFrom (s : St) (v : Nat) (c start : Nat) : Option (St × Option Nat) := do
  let d ← desc s v
  if start ≥ d.len then pure (s, none)
  else do
    let s ← cview s v
    let h ← cstrVar s v start
    pure (s, (strchrL h c).map (· + start))

/-- `find(const char* str)` -/
def findS (s : St) (v : Nat) (needle : List Nat) : Option (St × Option Nat) := do
  let s ← cview s v
  let h ← cstrVar s v 0
  pure (s, strstrL h needle)

def findSFrom (s : St) (v : Nat) (needle : List Nat) (start : Nat) : Option (St × Option Nat) := do
  let d ← desc s v
  if start ≥ d.len then pure (s, none)
  else do
    let s ← cview s v
    let h ← cstrVar s v start
    pure (s, (strstrL h needle).map (· + start))

def findOneOf (s : St) (v : Nat) (chars : List Nat) : Option (St × Option Nat) := do
  let s ← cview s v
  let h ← cstrVar s v 0
  pure (s, strpbrkL h chars)

def findOneOfFrom (s : St) (v : Nat) (chars : List Nat) (start : Nat) : Option (St × Option Nat) := do
  let d ← desc s v
  if start ≥ d.len then pure (s, none)
  else do
    let s ← cview s v
    let h ← cstrVar s v start
    pure (s, (strpbrkL h chars).map (· + start))

/-- the loop of `String::findLast(const char* in, const char* str)` (repaired: stops at the
    terminator); `pos` = offset the next `strstr` starts at -/
def findLastLoop (h n : List Nat) : Nat → Nat → Option Nat → Option Nat
  | 0, _, result => result
  | fuel + 1, pos, result =>
    match strstrL (h.drop pos) n with
    | none => result
    | some k =>
      let m := pos + k
      if m ≥ h.length then some m else findLastLoop h n fuel (m + 1) (some m)

def findLastS (s : St) (v : Nat) (needle : List Nat) : Option (St × Option Nat) := do
  let s ← cview s v
  let h ← cstrVar s v 0
  pure (s, findLastLoop h needle (h.length + 1) 0 none)

def findLastOfLoop (h cs : List Nat) : Nat → Nat → Option Nat → Option Nat
  | 0, _, result => result
  | fuel + 1, pos, result =>
    match strpbrkL (h.drop pos) cs with
    | none => result
    | some k => findLastOfLoop h cs fuel (pos + k + 1) (some (pos + k))

def findLastOf (s : St) (v : Nat) (chars : List Nat) : Option (St × Option Nat) := do
  let s ← cview s v
  let h ← cstrVar s v 0
  pure (s, findLastOfLoop h chars (h.length + 1) 0 none)

/-- `toBool()` on the content `c` and the C string `a` -/
def toBoolL (c a : List Nat) : Bool :=
  if c.length = 0 ∨ (c.length = Generated.toBoolFalseLit.length ∧ strcmpL (a.map toLower) Generated.toBoolFalseLit = 0) ∨
      c = Generated.toBoolZeroLit then false
  else
    match a.dropWhile (· == 48) with
    | 46 :: q =>
      if (q.dropWhile (· == 48)).isEmpty ∧ (¬ q.isEmpty ∨ c.head? = some 48) then false else true
    | _ => true

def toBool (s : St) (v : Nat) : Option (St × Bool) := do
  let d ← desc s v
  if d.len = 0 then pure (s, false)
  else do
    -- `*this == "0"`: length test, then `memcmp` on `data->str` — no C string view is taken for it
    -- (`equalsIgnoreCase("false")` before it looks only at strings of length 5 and takes the views then;
    --  that case goes on to `const char* p = *this` below and yields the same state and result)
    let z ← (if d.len = Generated.toBoolZeroLit.length then (contentVal s v).map (fun c => c == Generated.toBoolZeroLit)
             else some false)
    if z then pure (s, false)
    else do
      let s ← cview s v
      let c ← contentVal s v
      let a ← cstrVar s v 0
      pure (s, toBoolL c a)

def sext (b : Nat) : Nat := if b ≥ 128 then b + (2 ^ 64 - 256) else b

/-- `hash(const String&)` with 64-bit `usize` and signed `char` -/
def hashL (len : Nat) (a : List Nat) : Nat :=
  let m := 2 ^ 64
  let h := len
  let h := (h * Generated.hashMul) % m
  let h := h ^^^ sext (a.getD 0 0)
  let h := (h * Generated.hashMul) % m
  let h := h ^^^ sext (a.getD (len / 2) 0)
  let h := (h * Generated.hashMul) % m
  h ^^^ sext (a.getD (len - (if len ≠ 0 then 1 else 0)) 0)

def hash (s : St) (v : Nat) : Option (St × Nat) := do
  let s ← cview s v
  let d ← desc s v
  let c ← rdRange s d.base d.off (d.len + 1)
  let c ← allSome c
  pure (s, hashL d.len c)

/-! ### token, split, join, trim, replace -/

/-- `v = w.token(char separator, start)`; returns the new `start` -/
def tokenC (s : St) (v w : Nat) (sep start : Nat) (tmp : Nat) : Option (St × Nat) := do
  let (s, e) ← findCFrom s w sep start
  let d ← desc s w
  match e with
  | some e =>
    let len := e - start
    let (st, en) := substrRange d.len (start : Int) (len : Int)
    let src ← rdRange s d.base (d.off + st) (en - st)
    let s ← assignTemp s v src tmp
    pure (s, start + len + 1)
  | none =>
    let (st, en) := substrRange d.len (start : Int) (-1)
    let src ← rdRange s d.base (d.off + st) (en - st)
    let s ← assignTemp s v src tmp
    pure (s, d.len)

/-- `v = w.token(const char* separators, start)` (`start ≤ length()` is the caller's duty) -/
def tokenS (s : St) (v w : Nat) (seps : List Nat) (start : Nat) (tmp : Nat) : Option (St × Nat) := do
  let s ← cview s w
  let h ← cstrVar s w start
  let d ← desc s w
  match strpbrkL h seps with
  | some len =>
    let (st, en) := substrRange d.len (start : Int) (len : Int)
    let src ← rdRange s d.base (d.off + st) (en - st)
    let s ← assignTemp s v src tmp
    pure (s, start + len + 1)
  | none =>
    let (st, en) := substrRange d.len (start : Int) (-1)
    let src ← rdRange s d.base (d.off + st) (en - st)
    let s ← assignTemp s v src tmp
    pure (s, d.len)

/-- `substr` on a content list -/
def subList (c : List Byte) (start length : Int) : List Byte :=
  let (st, en) := substrRange c.length start length
  (c.drop st).take (en - st)

/-- the loop of `split`: `h` = C string, `c` = content, `p` = offset -/
def splitLoop (h : List Nat) (c : List Byte) (seps : List Nat) (skipEmpty : Bool) :
    Nat → Nat → List (List Byte) → List (List Byte)
  | 0, _, acc => acc
  | fuel + 1, p, acc =>
    match strpbrkL (h.drop p) seps with
    | some len =>
      if len ≠ 0 then splitLoop h c seps skipEmpty fuel (p + len + 1) (acc ++ [subList c p len])
      else splitLoop h c seps skipEmpty fuel (p + 1) (if skipEmpty then acc else acc ++ [[]])
    | none =>
      if p < c.length then acc ++ [subList c p (-1)]
      else if skipEmpty then acc else acc ++ [[]]

def split (s : St) (v : Nat) (seps : List Nat) (skipEmpty : Bool) : Option (St × List (List Byte)) := do
  let s ← cview s v
  let h ← cstrVar s v 0
  let c ← content s v
  pure (s, splitLoop h c seps skipEmpty (h.length + 2) 0 [])

def joinLoop (s : St) (v : Nat) (sep : Nat) : List (List Byte) → Option St
  | [] => some s
  | [t] => appendP s v t
  | t :: rest => do
    let s ← appendP s v t
    let s ← appendC s v sep
    joinLoop s v sep rest

/-- `join(const List<String>& tokens, char separator)` (the tokens are not the string itself) -/
def join (s : St) (v : Nat) (toks : List (List Byte)) (sep : Nat) : Option St := do
  let s ← clear s v
  joinLoop s v sep toks

/-- `trim(const char* chars)` -/
def trim (s : St) (v : Nat) (chars : List Nat) (tmp : Nat) : Option St := do
  let d ← desc s v
  if d.len = 0 then pure s
  else do
    let c ← contentVal s v
    let p := (c.takeWhile (inSet chars)).length
    let e := c.length - ((c.drop p).reverse.takeWhile (inSet chars)).length
    let newLen := e - p
    if newLen ≠ d.len then do
      let (st, en) := substrRange d.len (p : Int) (newLen : Int)
      let src ← rdRange s d.base (d.off + st) (en - st)
      assignTemp s v src tmp
    else pure s

/-- the loop of `replace(needle, replacement)`; `h` = C string of `*this`, `c` = its content,
    `pos` = `p`, `m` = `match`; the result is built in slot `tmp` -/
def replaceLoop (h n : List Nat) (c : List Byte) (wr_ tmp : Nat) : Nat → St → Nat → Nat → Option St
  | 0, _, _, _ => none
  | fuel + 1, s, pos, m => do
    let s ← appendP s tmp ((c.drop pos).take (m - pos))
    let s ← appendS s tmp wr_
    let pos := m + n.length
    match strstrL (h.drop pos) n with
    | some k => replaceLoop h n c wr_ tmp fuel s pos (pos + k)
    | none => appendP s tmp ((c.drop pos).take (c.length - pos))

/-- `replace(const String& needle, const String& replacement)` (repaired) -/
def replaceS (s : St) (v wn wr_ tmp : Nat) : Option St := do
  let dn ← desc s wn
  if dn.len = 0 then pure s
  else do
    let s ← cview s v
    let s ← cview s wn
    let h ← cstrVar s v 0
    let n ← cstrVar s wn 0
    match strstrL h n with
    | none => pure s
    | some m =>
      let dv ← desc s v
      let dr ← desc s wr_
      let c ← content s v
      let s ← ctorCap s tmp (dv.len + dr.len * Generated.replaceSlack)
      let s ← replaceLoop h n c wr_ tmp (h.length + 1) s 0 m
      let s ← assign s v tmp
      pure (setEmpty s tmp)

/-! ### printf -/

inductive Fmt where
  | lit (bs : List Nat)        -- plain chars (no `%`, no NUL)
  | d (x : Int)                -- %d / %lld
  | u (x : Nat)                -- %u / %llu
  | s (bs : List Nat)          -- %s
  | c (x : Nat)                -- %c
  deriving Repr

def natBytes (n : Nat) : List Nat := (Nat.toDigits 10 n).map Char.toNat

/-- what `vsnprintf` produces (C standard behaviour for the supported directives) -/
def render : List Fmt → List Nat
  | [] => []
  | .lit bs :: r => bs ++ render r
  | .d x :: r => (if x < 0 then 45 :: natBytes x.natAbs else natBytes x.natAbs) ++ render r
  | .u x :: r => natBytes x ++ render r
  | .s bs :: r => bs ++ render r
  | .c x :: r => x :: render r

/-- what `vsnprintf(buf, size, …)` stores for the output `out`: at most `size - 1` chars and a NUL
    (nothing at all when `size = 0`) -/
def vsnStore (m : List Byte) (size : Nat) (out : List Nat) : Option (List Byte) :=
  if size = 0 then some m else wr m 0 ((out.take (size - 1)).map some ++ [some 0])

/-- the two attempts of `printf` / `fromPrintf` on the exclusively owned, empty block of `v`:
    `vsnprintf(str, capacity, …)` (the size passed is `capacity`, not `capacity + 1`); when the output did not
    fit the truncated text and its NUL *stay in the block while `data->len` is still 0*, then `detach(0, result)`
    (in place when `result == capacity`, else a new block) and `vsnprintf(str, result + 1, …)` -/
def printfTail (s : St) (v : Nat) (out : List Nat) : Option (St × Nat) := do
  let d ← desc s v
  let m ← memOf s d.base
  let m ← vsnStore m d.cap out
  if out.length < d.cap then do
    let s ← writeOwn s v m out.length
    pure (s, out.length)
  else do
    let s ← writeOwn s v m d.len
    let s ← detach s v 0 out.length
    let d ← desc s v
    let m ← memOf s d.base
    let m ← vsnStore m (out.length + 1) out
    let s ← writeOwn s v m out.length
    pure (s, out.length)

/-- `printf(format, …)` relative to the libc formatter: `out` is what `vsnprintf` produces for the format and the
    arguments (any NUL-free chars of any length — `%f`, widths, precisions, `%x` … are not interpreted by the model);
    `detach(0, 200)`, then the two attempts -/
def printfOut (s : St) (v : Nat) (out : List Nat) : Option (St × Nat) := do
  let s ← detach s v 0 Generated.printfBuf
  printfTail s v out

/-- `printf(format, …)` for the directives the model interprets (`render`) -/
def printf (s : St) (v : Nat) (f : List Fmt) : Option (St × Nat) := printfOut s v (render f)

/-! ### operators and static factories that return a String by value

    The slots `t0`, `t1`, `t2` are the temporaries of the C++ expression; the result is assigned to `v`
    (`v = <expression>`, as the harness does) and the temporaries are destroyed. -/

/-- `v = a + b`: `String(*this).append(other)` — the copy lives in `t0`, `append` returns a reference to it, the
    function result is copy-constructed from that reference (`t1`), `t0` dies, `v = t1`, `t1` dies -/
def plusS (s : St) (v a b t0 t1 : Nat) : Option St := do
  let s ← ctorCopy s t0 a
  let s ← appendS s t0 b
  let s ← ctorCopy s t1 t0
  let s := setEmpty s t0
  let s ← assign s v t1
  pure (setEmpty s t1)

/-- `v = a + "literal"`: the operand is the temporary `String(str)`, a descriptor of the literal (slot `t2`) -/
def plusLit (s : St) (v a r len t0 t1 t2 : Nat) : Option St := do
  let s := attach s t2 r 0 len
  let s ← plusS s v a t2 t0 t1
  pure (setEmpty s t2)

/-- `static usize length(const char* s)`: the loop up to the NUL of the C string `src ++ [0]` -/
def cstrLen (src : List Nat) : Nat := (src.takeWhile (· ≠ 0)).length

/-- `v = String::fromCString(str)` = `String(str, length(str))` -/
def fromCStr (s : St) (v : Nat) (src : List Nat) (tmp : Nat) : Option St :=
  assignTemp s v ((src.take (cstrLen src)).map some) tmp

/-- `v = String::fromBool(b)`: the temporary `String("true")` / `String("false")` is a descriptor (`ref == 0`) of a
    literal outside the modelled regions, so `operator=` takes its deep-copy branch: release, new block with the
    chars of the literal (the literals come from String.hpp through the translator) -/
def fromBool (s : St) (v : Nat) (b : Bool) : Option St :=
  ctorPtr s v ((if b then Generated.trueLit else Generated.falseLit).map some)

/-- `fromInt/fromUInt/fromInt64/fromUInt64`: `String result; result.printf(fmt, value); return result;` (named
    return value, no copy), then `v = <result>` -/
def fromFmt (s : St) (v : Nat) (f : List Fmt) (tmp : Nat) : Option St := do
  let (s, _) ← printf s tmp f
  let s ← assign s v tmp
  pure (setEmpty s tmp)

/-- `fromDouble` (and any factory of the shape `String result; result.printf(fmt, value); return result;`) relative to
    the libc formatter: `out` is the formatted text -/
def fromOut (s : St) (v : Nat) (out : List Nat) (tmp : Nat) : Option St := do
  let (s, _) ← printfOut s tmp out
  let s ← assign s v tmp
  pure (setEmpty s tmp)

/-- `v = String::fromPrintf(format, …)`: `String s(200)` (capacity exactly 200, no mask), the two attempts, `v = s` -/
def fromPrintf (s : St) (v : Nat) (f : List Fmt) (tmp : Nat) : Option St := do
  let s ← ctorCap s tmp Generated.fromPrintfBuf
  let (s, _) ← printfTail s tmp (render f)
  let s ← assign s v tmp
  pure (setEmpty s tmp)

/-! ### observations -/

/-- the abstract value of a slot: its `length()` chars -/
def absVar (s : St) (v : Nat) : List Byte :=
  match s.vars v with
  | .empty => []
  | .foreign r off len => (((s.regs r).map some).drop off).take len
  | .blk b =>
    match s.heap b with
    | some blk => blk.bytes.take blk.len
    | none => []

/-- `data->str[data->len]` as stored (no view taken) -/
def termByte (s : St) (v : Nat) : Option Byte := do
  let d ← desc s v
  let m ← memOf s d.base
  m[d.off + d.len]?

def owned (s : St) (v : Nat) : Bool :=
  match s.vars v with
  | .blk _ => true
  | _ => false

def init (n : Nat) (regs : Nat → List Nat) : St :=
  { n := n, heap := fun _ => none, next := 0, vars := fun _ => .empty, regs := regs }

/-! ### operations of the line protocol as one type (what the theorems quantify over) -/

inductive Op where
  | ctorEmpty (v : Nat)
  | attach (v r off len : Nat)
  | ctorCopy (v w : Nat)
  | ctorPtr (v : Nat) (src : List Nat)
  | ctorFill (v n c : Nat)
  | ctorCap (v cap : Nat)
  | assign (v w : Nat)
  | clear (v : Nat)
  | detach (v : Nat)
  | cview (v : Nat)
  | resize (v n : Nat)
  | reserve (v n : Nat)
  | fillFrom (v from_ c : Nat)
  | appendS (v w : Nat)
  | appendP (v : Nat) (src : List Nat)
  | appendC (v c : Nat)
  | prependS (v w : Nat)
  | prependP (v : Nat) (src : List Nat)
  | replaceC (v a b : Nat)
  | lower (v : Nat)
  | upper (v : Nat)
  | substr (v w : Nat) (start length : Int)
  | trim (v : Nat) (chars : List Nat)
  | tokenC (v w sep start : Nat)
  | tokenS (v w : Nat) (seps : List Nat) (start : Nat)
  | join (v : Nat) (toks : List (List Nat)) (sep : Nat)
  | replaceS (v wn wr_ : Nat)
  | replaceL (v : Nat) (needle repl : List Nat)
  | printf (v : Nat) (f : List Fmt)
  | plusEqS (v w : Nat)                      -- `v += w`
  | plusEqC (v c : Nat)                      -- `v += c`
  | plus (v a b : Nat)                       -- `v = a + b`
  | plusLit (v a r len : Nat)                -- `v = a + "literal"` (region `r` holds the literal and its NUL)
  | fromCStr (v : Nat) (src : List Nat)      -- `v = String::fromCString(str)`, `str` = `src` followed by a NUL
  | fromCStrN (v : Nat) (src : List Nat)     -- `v = String::fromCString(str, len)`
  | fromBool (v : Nat) (b : Bool)            -- `v = String::fromBool(b)`
  | fromD (v : Nat) (x : Int)                -- `v = String::fromInt(x)` / `fromInt64(x)`
  | fromU (v : Nat) (x : Nat)                -- `v = String::fromUInt(x)` / `fromUInt64(x)`
  | fromPrintf (v : Nat) (f : List Fmt)      -- `v = String::fromPrintf(format, …)`
  | printfO (v : Nat) (out : List Nat)       -- `v.printf(format, …)` with any format: `out` = the libc formatter's output
  | fromOut (v : Nat) (out : List Nat)       -- `v = String::fromDouble(x)`: `out` = the text `%f` gives
  deriving Repr

/-- user variables are `0 .. nu-1`, temporaries `nu`, `nu+1`, `nu+2` -/
def userVars (s : St) : Nat := s.n - 3

def validVar (s : St) (v : Nat) : Bool := v < userVars s

/-- one mutating API call; `none` = fault (or an op the harness rejects: unknown variable) -/
def step (s : St) (op : Op) : Option St :=
  let t := userVars s
  match op with
  | .ctorEmpty v => if validVar s v then some (ctorEmpty s v) else none
  | .attach v r off len =>
    -- `str[len]` must be readable (contract of `attach`; a literal has its NUL there)
    if validVar s v ∧ off + len < (s.regs r).length then some (attach s v r off len) else none
  | .ctorCopy v w => if validVar s v ∧ validVar s w ∧ v ≠ w then ctorCopy (setEmpty s v) v w else none
  | .ctorPtr v src => if validVar s v then ctorPtr (setEmpty s v) v (src.map some) else none
  | .ctorFill v n c => if validVar s v then ctorFill (setEmpty s v) v n c else none
  | .ctorCap v cap => if validVar s v then ctorCap (setEmpty s v) v cap else none
  | .assign v w => if validVar s v ∧ validVar s w then assign s v w else none
  | .clear v => if validVar s v then clear s v else none
  | .detach v => if validVar s v then mview s v else none
  | .cview v => if validVar s v then cview s v else none
  | .resize v n => if validVar s v then resize s v n else none
  | .reserve v n => if validVar s v then reserve s v n else none
  | .fillFrom v f c => if validVar s v then fillFrom s v f c else none
  | .appendS v w => if validVar s v ∧ validVar s w then appendS s v w else none
  | .appendP v src => if validVar s v then appendP s v (src.map some) else none
  | .appendC v c => if validVar s v then appendC s v c else none
  | .prependS v w => if validVar s v ∧ validVar s w then prependS s v w t else none
  | .prependP v src => if validVar s v then prependP s v (src.map some) t else none
  | .replaceC v a b => if validVar s v then replaceC s v a b else none
  | .lower v => if validVar s v then lowerCase s v else none
  | .upper v => if validVar s v then upperCase s v else none
  | .substr v w st ln => if validVar s v ∧ validVar s w then substr s v w st ln t else none
  | .trim v chars => if validVar s v then trim s v chars t else none
  | .tokenC v w sep st => if validVar s v ∧ validVar s w then (tokenC s v w sep st t).map (·.1) else none
  | .tokenS v w seps st => if validVar s v ∧ validVar s w then (tokenS s v w seps st t).map (·.1) else none
  | .join v toks sep => if validVar s v then join s v (toks.map (·.map some)) sep else none
  | .replaceS v wn wr_ => if validVar s v ∧ validVar s wn ∧ validVar s wr_ then replaceS s v wn wr_ t else none
  | .replaceL v nd rp =>
    if validVar s v then do
      let s ← ctorPtr s (t + 1) (nd.map some)
      let s ← ctorPtr s (t + 2) (rp.map some)
      let s ← replaceS s v (t + 1) (t + 2) t
      pure (setEmpty (setEmpty s (t + 1)) (t + 2))
    else none
  | .printf v f => if validVar s v then (printf s v f).map (·.1) else none
  | .plusEqS v w => if validVar s v ∧ validVar s w then appendS s v w else none
  | .plusEqC v c => if validVar s v then appendC s v c else none
  | .plus v a b => if validVar s v ∧ validVar s a ∧ validVar s b then plusS s v a b t (t + 1) else none
  | .plusLit v a r len =>
    if validVar s v ∧ validVar s a ∧ len < (s.regs r).length then plusLit s v a r len t (t + 1) (t + 2) else none
  | .fromCStr v src => if validVar s v then fromCStr s v src t else none
  | .fromCStrN v src => if validVar s v then assignTemp s v (src.map some) t else none
  | .fromBool v b => if validVar s v then fromBool s v b else none
  | .fromD v x => if validVar s v then fromFmt s v [.d x] t else none
  | .fromU v x => if validVar s v then fromFmt s v [.u x] t else none
  | .fromPrintf v f => if validVar s v then fromPrintf s v f t else none
  | .printfO v out => if validVar s v then (printfOut s v out).map (·.1) else none
  | .fromOut v out => if validVar s v then fromOut s v out t else none

def run (s : St) : List Op → Option St
  | [] => some s
  | op :: ops => (step s op).bind (fun s => run s ops)

/-! ### the token list and String operands built from (ptr, len)

    `split` fills a `List<String>` that `join` reads; `append/prepend(const String&)` are also called with a
    temporary `String(ptr, len)`.  The extended state carries the token list beside the String variables. -/

structure XSt where
  st : St
  toks : List (List Byte)

inductive XOp where
  | base (op : Op)
  | split (v : Nat) (seps : List Nat) (skipEmpty : Bool)     -- `v.split(tokens, seps, skipEmpty)`
  | joinT (v : Nat) (sep : Nat)                               -- `v.join(tokens, sep)`
  | appendL (v : Nat) (src : List Nat)                        -- `v.append(String(ptr, len))`
  | prependL (v : Nat) (src : List Nat)                       -- `v.prepend(String(ptr, len))`

def xstep (x : XSt) : XOp → Option XSt
  | .base op => (step x.st op).map (fun s => { x with st := s })
  | .split v seps skip =>
    if validVar x.st v then (split x.st v seps skip).map (fun r => { st := r.1, toks := r.2 }) else none
  | .joinT v sep =>
    if validVar x.st v then (join x.st v x.toks sep).map (fun s => { x with st := s }) else none
  | .appendL v src =>
    if validVar x.st v then do
      let t := userVars x.st
      let s ← ctorPtr x.st (t + 1) (src.map some)
      let s ← appendS s v (t + 1)
      pure { x with st := setEmpty s (t + 1) }
    else none
  | .prependL v src =>
    if validVar x.st v then do
      let t := userVars x.st
      let s ← ctorPtr x.st (t + 1) (src.map some)
      let s ← prependS s v (t + 1) t
      pure { x with st := setEmpty s (t + 1) }
    else none

def xrun (x : XSt) : List XOp → Option XSt
  | [] => some x
  | op :: ops => (xstep x op).bind (fun x => xrun x ops)

/-! ### pointer arguments into the string's own storage

    The header documents nothing about `s.append((const char*)s + off, len)` and relatives; the code takes the
    pointer, detaches (which may delete the block the pointer points into) and then copies from the pointer.
    These functions model exactly that (the pointer is the pair (`base`, offset) the C string view returned);
    Props.lean states when they are safe and shows that in general they are not (`alias_append_faults`). -/

/-- `s.append((const char*)s + off, len)` with `off + len ≤ length()` -/
def appendAlias (s : St) (v off len : Nat) : Option St := do
  let s ← cview s v
  let d0 ← desc s v
  if off + len > d0.len then none
  else do
    let newLen := d0.len + len
    let s ← detach s v d0.len newLen
    let dv ← desc s v
    let src ← rdRange s d0.base (d0.off + off) len      -- the OLD storage: a deleted block is a fault
    putTail s v dv.len src newLen

/-- the two `Memory::copy`s and the terminator of `prepend` into the detached block -/
def putFront (s : St) (v : Nat) (a b : List Byte) : Option St := do
  let dv ← desc s v
  let m ← memOf s dv.base
  let m ← wr m 0 a
  let m ← wr m a.length b
  let m ← wr m (a.length + b.length) [some 0]
  writeOwn s v m (a.length + b.length)

/-- `s.prepend((const char*)s + off, len)` with `off + len ≤ length()` -/
def prependAlias (s : St) (v off len tmp : Nat) : Option St := do
  let s ← cview s v
  let d0 ← desc s v
  if off + len > d0.len then none
  else do
    let s ← ctorCopy s tmp v
    let dc ← desc s tmp
    let s ← detach s v 0 (len + dc.len)
    let a ← rdRange s d0.base (d0.off + off) len      -- the OLD storage, kept alive by `copy`
    let b ← content s tmp
    let s ← putFront s v a b
    pure (setEmpty s tmp)

/-! ### further read-only calls -/

/-- `capacity()`: the capacity of an exclusively owned block, else 0 -/
def capacity (s : St) (v : Nat) : Option Nat := do
  let d ← desc s v
  pure (if d.ref = 1 then d.cap else 0)

/-- `isEmpty()` -/
def isEmpty (s : St) (v : Nat) : Option Bool := do
  let d ← desc s v
  pure (d.len == 0)

/-- `operator!=`: lengths differ, or `memcmp` over the first string's length is not 0 -/
def notEqualS (s : St) (v w : Nat) : Option Bool := do
  let dv ← desc s v
  let dw ← desc s w
  if dv.len ≠ dw.len then pure true
  else do
    let a ← contentVal s v
    let b ← contentVal s w
    pure (a != b)

/-- `operator==(const char (&str)[N])` with the literal of region `r` (`N - 1` chars and the NUL) -/
def equalLit (s : St) (v r : Nat) : Option Bool := do
  let d ← desc s v
  let n := (s.regs r).length - 1
  if d.len ≠ n then pure false
  else do
    let a ← contentVal s v
    pure (a == (s.regs r).take n)

/-- `operator!=(const char (&str)[N])` -/
def notEqualLit (s : St) (v r : Nat) : Option Bool := do
  let d ← desc s v
  let n := (s.regs r).length - 1
  if d.len ≠ n then pure true
  else do
    let a ← contentVal s v
    pure (a != (s.regs r).take n)

inductive Rel where
  | lt | le | gt | ge
  deriving DecidableEq, Repr

def Rel.holds : Rel → Int → Bool
  | .lt, r => r < 0
  | .le, r => r ≤ 0
  | .gt, r => r > 0
  | .ge, r => r ≥ 0

/-- `operator<`, `operator<=`, `operator>`, `operator>=`: `compare(other) <rel> 0` -/
def relS (s : St) (v w : Nat) (k : Rel) : Option (St × Bool) := do
  let (s, r) ← compareS s v w
  pure (s, k.holds r)

/-- `equalsIgnoreCase(other, len)` -/
def equalsICN (s : St) (v w : Nat) (n : Nat) : Option (St × Bool) := do
  let (s, r) ← compareICN s v w n
  pure (s, r == 0)

/-- `HashSet<String>::append`: a token equal to an earlier one is not inserted again (insertion order is kept) -/
def dedupToks (toks : List (List Byte)) : List (List Byte) :=
  toks.foldl (fun acc t => if acc.contains t then acc else acc ++ [t]) []

/-- `split(HashSet<String>& tokens, separators, skipEmpty)`: the loop of `split(List<String>&, …)` over a set -/
def splitSet (s : St) (v : Nat) (seps : List Nat) (skipEmpty : Bool) : Option (St × List (List Byte)) := do
  let (s, toks) ← split s v seps skipEmpty
  pure (s, dedupToks toks)

/-! ### the static helpers on C strings (arguments = the chars in front of the NUL) -/

def sCompare (a b : List Nat) : Int := strcmpL a b
def sCompareN (a b : List Nat) (n : Nat) : Int := strncmpL a b n
def sCompareIC (a b : List Nat) : Int := strcmpL (a.map toLower) (b.map toLower)
def sCompareICN (a b : List Nat) (n : Nat) : Int := strncmpL (a.map toLower) (b.map toLower) n
/-- `static const char* find(const char* in, char c)`: the loop stops at the NUL, so `c = 0` is never found -/
def sFindC (a : List Nat) (c : Nat) : Option Nat := if c = 0 then none else a.findIdx? (· == c)
def sFindLastC (a : List Nat) (c : Nat) : Option Nat := if c = 0 then none else findLastIdx a c
def sFind (a n : List Nat) : Option Nat := strstrL a n
def sFindOneOf (a cs : List Nat) : Option Nat := strpbrkL a cs
def sFindLast (a n : List Nat) : Option Nat := findLastLoop a n (a.length + 1) 0 none
def sFindLastOf (a cs : List Nat) : Option Nat := findLastOfLoop a cs (a.length + 1) 0 none

/-- `static bool startsWith(const char* in, const String& str)`: `compare(in, str.data->str, str.data->len) == 0`
    (no C string view of `str` is taken) -/
def sStartsWith (s : St) (inp : List Nat) (w : Nat) : Option Bool := do
  let b ← contentVal s w
  pure (strncmpL inp b b.length == 0)

/-- a `char` as the signed value the comparisons of `isSpace` see -/
def schar (c : Nat) : Int := if c ≥ 128 then (c : Int) - 256 else c

/-- `isSpace(c)`: `(c >= 9 && c <= 13) || c == 32` with the bounds of the current String.hpp -/
def isSpaceC (c : Nat) : Bool :=
  ((Generated.isSpaceLo : Int) ≤ schar c ∧ schar c ≤ (Generated.isSpaceHi : Int)) ∨ schar c = (Generated.isSpaceX : Int)

/-! `<cctype>` in the "C" locale on `(uchar)c` (assumption: C standard) -/
def isDigitC (c : Nat) : Bool := 48 ≤ c ∧ c ≤ 57
def isUpperC (c : Nat) : Bool := 65 ≤ c ∧ c ≤ 90
def isLowerC (c : Nat) : Bool := 97 ≤ c ∧ c ≤ 122
def isAlphaC (c : Nat) : Bool := isUpperC c || isLowerC c
def isAlnumC (c : Nat) : Bool := isAlphaC c || isDigitC c
def isXDigitC (c : Nat) : Bool := isDigitC c || (65 ≤ c ∧ c ≤ 70) || (97 ≤ c ∧ c ≤ 102)
def isPrintC (c : Nat) : Bool := 32 ≤ c ∧ c ≤ 126
def isPunctC (c : Nat) : Bool := isPrintC c && !isAlnumC c && c != 32

/-! ### own-pointer arguments of `attach` and `printf` -/

/-- `s.attach((const char*)s + off, n)` with `off + n ≤ length()`: the pointer is taken through the C string view;
    `attach` releases the old data and stores a descriptor of the pointer.  Memory the String never owned (a
    literal / attached memory that was terminated) stays valid: the result is a descriptor of the sub-range.  A
    pointer into a heap block the call itself releases (or that another String may release later) has no
    representation in the model: fault. -/
def attachAlias (s : St) (v off n : Nat) : Option St := do
  let s ← cview s v
  let d0 ← desc s v
  if off + n > d0.len then none
  else
    match d0.base with
    | .reg r => some (setForeign s v r (d0.off + off) n)
    | .nul => some (setEmpty s v)          -- a descriptor of `emptyData`'s zero word: observably the empty string
    | .blk _ => none

/-- `s.printf("<pre>%s<post>", (const char*)s)`: the pointer is taken first, `detach(0, 200)` may release the block it
    points into (fault), or keep the same block (the output buffer then overlaps the argument: undefined by the C
    standard, fault); otherwise `vsnprintf` reads the old storage -/
def printfAlias (s : St) (v : Nat) (pre post : List Nat) : Option (St × Nat) := do
  let s ← cview s v
  let d0 ← desc s v
  let s ← detach s v 0 Generated.printfBuf
  let d1 ← desc s v
  if d1.base = d0.base then none
  else do
    let arg ← cstrAt s d0.base d0.off
    printfTail s v (pre ++ arg ++ post)

end Nstd.Str
