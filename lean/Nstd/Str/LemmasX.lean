import Nstd.Str.LemmasView
/-!
  The extended operations: the token list shared by `split` and `join`, and `append/prepend` with a
  temporary `String(ptr, len)` operand.  Refinement to `Spec.xstep`.
-/
namespace Nstd.Str
open Spec (splitRef splitOut)

/-- the abstract view of an extended state -/
def xabs (x : XSt) : Spec.XState := { σ := absVar x.st, toks := x.toks }

theorem good_of_eff {s s' : St} (g : Good s) {v : Nat} {val : List Byte} (E : Eff s s' v val)
    (hv : validVar s v = true) : Good s' := by
  have V := valid_facts hv
  have hu : userVars s' = userVars s := by simp only [userVars, E.n]
  refine ⟨E.inv, fun u hu' => ?_⟩
  rw [hu] at hu'
  have hlt : v < userVars s := by unfold validVar at hv; exact of_decide_eq_true hv
  rw [E.other u (by omega)]; exact g.temps u hu'

theorem good_of_silent {s s' : St} (g : Good s) (S : Silent s s') : Good s' := by
  have hu : userVars s' = userVars s := by simp only [userVars, S.n]
  exact ⟨S.inv, fun u hu' => by rw [S.abs]; exact g.temps u (by rw [← hu]; exact hu')⟩

theorem silent_split {s s' : St} (h : Inv s) {v : Nat} (hv : v < s.n) {seps : List Nat} {skip : Bool}
    {toks : List (List Byte)} (e : split s v seps skip = some (s', toks)) : Silent s s' := by
  simp only [split, Option.bind_eq_bind, Option.bind_eq_some_iff, Option.pure_def, Option.some.injEq,
    Prod.mk.injEq] at e
  obtain ⟨s1, h1, _, _, _, _, rfl, _⟩ := e
  exact silent_cview h hv h1

/-- `v.append(String(ptr, len))`: the temporary lives in slot `t + 1` -/
theorem eff_appendL {s s' : St} (g : Good s) {v : Nat} (hv : validVar s v = true) {src : List Byte}
    (e : (do
      let s1 ← ctorPtr s (userVars s + 1) src
      let s2 ← appendS s1 v (userVars s + 1)
      pure (setEmpty s2 (userVars s + 1))) = some s') : Eff s s' v (absVar s v ++ src) := by
  obtain ⟨hvn, n0, n1, n2, t0, t1, t2⟩ := valid_facts hv
  simp only [Option.bind_eq_bind, Option.bind_eq_some_iff, Option.pure_def, Option.some.injEq] at e
  obtain ⟨s1, h1, s2, h2, rfl⟩ := e
  have E1 := eff_ctorPtr g.inv t1 h1
  have E2 := eff_appendS E1.inv (by rw [E1.n]; exact hvn) h2
  have E3 := eff_setEmpty E2.inv (v := userVars s + 1) (by rw [E2.n, E1.n]; exact t1)
  refine ⟨E3.inv, by rw [E3.n, E2.n, E1.n], by rw [E3.regs, E2.regs, E1.regs], ?_, ?_⟩
  · rw [E3.other v n1, E2.self, E1.other v n1, E1.self]
  · intro u hu
    by_cases c : u = userVars s + 1
    · subst c; rw [E3.self]; exact (g.temps _ (by omega)).symm
    · rw [E3.other u c, E2.other u hu, E1.other u c]

theorem eff_prependL {s s' : St} (g : Good s) {v : Nat} (hv : validVar s v = true) {src : List Byte}
    (e : (do
      let s1 ← ctorPtr s (userVars s + 1) src
      let s2 ← prependS s1 v (userVars s + 1) (userVars s)
      pure (setEmpty s2 (userVars s + 1))) = some s') : Eff s s' v (src ++ absVar s v) := by
  obtain ⟨hvn, n0, n1, n2, t0, t1, t2⟩ := valid_facts hv
  simp only [Option.bind_eq_bind, Option.bind_eq_some_iff, Option.pure_def, Option.some.injEq] at e
  obtain ⟨s1, h1, s2, h2, rfl⟩ := e
  have E1 := eff_ctorPtr g.inv t1 h1
  have a0 : absVar s1 (userVars s) = [] := by rw [E1.other _ (by omega)]; exact g.temps _ (Nat.le_refl _)
  have E2 := eff_prependS E1.inv (v := v) (w := userVars s + 1) (tmp := userVars s) (by rw [E1.n]; exact hvn)
    (by rw [E1.n]; exact t0) n0 (by omega) a0 h2
  have E3 := eff_setEmpty E2.inv (v := userVars s + 1) (by rw [E2.n, E1.n]; exact t1)
  refine ⟨E3.inv, by rw [E3.n, E2.n, E1.n], by rw [E3.regs, E2.regs, E1.regs], ?_, ?_⟩
  · rw [E3.other v n1, E2.self, E1.other v n1, E1.self]
  · intro u hu
    by_cases c : u = userVars s + 1
    · subst c; rw [E3.self]; exact (g.temps _ (by omega)).symm
    · rw [E3.other u c, E2.other u hu, E1.other u c]

theorem absVar_of_eff {s s' : St} {v : Nat} {val : List Byte} (E : Eff s s' v val) :
    absVar s' = upd (absVar s) v val := by
  funext w
  by_cases c : w = v
  · subst c; rw [upd_same]; exact E.self
  · rw [upd_other _ _ _ _ c]; exact E.other w c

/-- one extended step: the invariant is kept, foreign memory untouched, and if the specification
    accepts the step its result is the abstract view of the new state -/
theorem xstep_ok {x x' : XSt} (g : Good x.st) {op : XOp} (e : xstep x op = some x') :
    Good x'.st ∧ x'.st.regs = x.st.regs ∧ x'.st.n = x.st.n ∧
    ∀ X', Spec.xstep x.st.regs (xabs x) op = some X' → X' = xabs x' := by
  cases op with
  | base op =>
    simp only [xstep, Option.map_eq_some_iff] at e
    obtain ⟨s1, h1, rfl⟩ := e
    obtain ⟨val, E, hx⟩ := step_ok g h1
    refine ⟨good_step g h1, E.regs, E.n, ?_⟩
    intro X' hX
    simp only [Spec.xstep, xabs, Spec.step, Option.map_eq_some_iff] at hX
    obtain ⟨σ1, ⟨val', hv', rfl⟩, rfl⟩ := hX
    have := hx val' hv'
    subst this
    simp only [xabs, absVar_of_eff E]
  | split v seps skip =>
    simp only [xstep] at e
    split at e
    · rename_i hv
      simp only [Option.map_eq_some_iff] at e
      obtain ⟨⟨s1, toks⟩, h1, rfl⟩ := e
      have V := valid_facts hv
      have S := silent_split g.inv V.1 h1
      refine ⟨good_of_silent g S, S.regs, S.n, ?_⟩
      intro X' hX
      simp only [Spec.xstep, xabs, Option.bind_eq_some_iff] at hX
      obtain ⟨c, hc, hX⟩ := hX
      split at hX
      · rename_i hz
        injection hX with hX
        obtain ⟨ht, _⟩ := split_eq g.inv V.1 h1 hc (nulFree_of hz)
        subst hX
        have : absVar s1 = absVar x.st := funext S.abs
        simp only [xabs, this, ht]
      · cases hX
    · cases e
  | joinT v sep =>
    simp only [xstep] at e
    split at e
    · rename_i hv
      simp only [Option.map_eq_some_iff] at e
      obtain ⟨s1, h1, rfl⟩ := e
      have E := eff_join g.inv (valid_facts hv).1 h1
      refine ⟨good_of_eff g E hv, E.regs, E.n, ?_⟩
      intro X' hX
      simp only [Spec.xstep, xabs, Option.some.injEq] at hX
      subst hX
      simp only [xabs, absVar_of_eff E]
    · cases e
  | appendL v src =>
    simp only [xstep] at e
    split at e
    · rename_i hv
      simp only [Option.bind_eq_bind, Option.bind_eq_some_iff, Option.pure_def, Option.some.injEq] at e
      obtain ⟨s1, h1, s2, h2, rfl⟩ := e
      have E := eff_appendL g hv (src := src.map some) (s' := setEmpty s2 (userVars x.st + 1)) (by
        simp only [h1, h2, Option.bind_eq_bind, Option.bind_some, Option.pure_def])
      refine ⟨good_of_eff g E hv, E.regs, E.n, ?_⟩
      intro X' hX
      simp only [Spec.xstep, xabs, Option.some.injEq] at hX
      subst hX
      simp only [xabs, absVar_of_eff E]
    · cases e
  | prependL v src =>
    simp only [xstep] at e
    split at e
    · rename_i hv
      simp only [Option.bind_eq_bind, Option.bind_eq_some_iff, Option.pure_def, Option.some.injEq] at e
      obtain ⟨s1, h1, s2, h2, rfl⟩ := e
      have E := eff_prependL g hv (src := src.map some) (s' := setEmpty s2 (userVars x.st + 1)) (by
        simp only [h1, h2, Option.bind_eq_bind, Option.bind_some, Option.pure_def])
      refine ⟨good_of_eff g E hv, E.regs, E.n, ?_⟩
      intro X' hX
      simp only [Spec.xstep, xabs, Option.some.injEq] at hX
      subst hX
      simp only [xabs, absVar_of_eff E]
    · cases e

theorem xrun_ok {x x' : XSt} (g : Good x.st) : ∀ {ops : List XOp}, xrun x ops = some x' →
    Good x'.st ∧ x'.st.regs = x.st.regs ∧
    ∀ X', Spec.xrun x.st.regs (xabs x) ops = some X' → X' = xabs x'
  | [], e => by
    simp only [xrun, Option.some.injEq] at e; subst e
    exact ⟨g, rfl, fun X' h => by simp only [Spec.xrun, Option.some.injEq] at h; exact h.symm⟩
  | op :: ops, e => by
    simp only [xrun, Option.bind_eq_some_iff] at e
    obtain ⟨x1, h1, e⟩ := e
    obtain ⟨g1, r1, _, sp1⟩ := xstep_ok g h1
    obtain ⟨g2, r2, sp2⟩ := xrun_ok g1 e
    refine ⟨g2, by rw [r2, r1], ?_⟩
    intro X' hX
    simp only [Spec.xrun, Option.bind_eq_some_iff] at hX
    obtain ⟨X1, hX1, hX⟩ := hX
    have := sp1 X1 hX1
    subst this
    exact sp2 X' (by rw [r1]; exact hX)

end Nstd.Str
