import Nstd.Generated.StrBody
import Nstd.Str.Lemmas
/-!
  Helper lemmas for `PropsBody.lean` (the translated bodies of String.hpp against the model steps).
-/
set_option linter.unusedSimpArgs false
namespace Nstd.Str
open Mach Generated

theorem St.ext' {a b : St} (h1 : a.n = b.n) (h2 : a.heap = b.heap) (h3 : a.next = b.next) (h4 : a.vars = b.vars)
    (h5 : a.regs = b.regs) : a = b := by
  cases a; cases b; simp_all

theorem upd_upd_same {α} (f : Nat → α) (i : Nat) (x y : α) : upd (upd f i x) i y = upd f i y := by
  funext j; by_cases h : j = i <;> simp [upd, h]

theorem upd_self {α} (f : Nat → α) (i : Nat) (x : α) (h : f i = x) : upd f i x = f := by
  funext j; simp only [upd]; split
  · next e => rw [e, h]
  · rfl

theorem upd_comm {α} (f : Nat → α) (i j : Nat) (x y : α) (h : i ≠ j) : upd (upd f i x) j y = upd (upd f j y) i x := by
  funext k
  by_cases h1 : k = i
  · subst h1; simp [upd, h]
  · by_cases h2 : k = j
    · subst h2; simp [upd, h1]
    · simp [upd, h1, h2]

def inPlace (s : St) (v m : Nat) : Bool :=
  match desc s v with
  | some d => decide (d.ref = 1 ∧ m ≤ d.cap)
  | none => false

def lenOf (s : St) (v : Nat) : Nat := ((desc s v).map (·.len)).getD 0


/-- what the equalities of `PropsBody` need of a state; all three are part of the heap invariant `Inv` -/
structure Sane (s : St) : Prop where
  fresh : s.heap s.next = none
  pos : ∀ b blk, s.heap b = some blk → blk.ref ≠ 0
  live : ∀ v b, s.vars v = .blk b → (s.heap b).isSome

theorem Sane.desc {s : St} (h : Sane s) (v : Nat) : (desc s v).isSome := by
  unfold Nstd.Str.desc
  cases hloc : s.vars v with
  | empty => rfl
  | foreign r off len => rfl
  | blk b =>
    have := h.live v b hloc
    cases hb : s.heap b with
    | none => rw [hb] at this; cases this
    | some blk => simp [hb]

theorem sane_of_inv {s : St} (h : Inv s) : Sane s :=
  ⟨h.fresh _ (Nat.le_refl _), fun b blk hb => by have := (h.cnt b blk hb).2; omega,
   fun v b hv => by obtain ⟨blk, hb⟩ := h.live v b hv; rw [hb]; rfl⟩

theorem expose_noop (s : St) (v a c : Nat) (h : c ≤ a) (hd : (desc s v).isSome) (hi : inPlace s v m = true) :
    expose s v a c = some s := by
  unfold expose
  cases hloc : s.vars v with
  | empty => simp [inPlace, desc, hloc] at hi
  | foreign r off len => simp [inPlace, desc, hloc] at hi
  | blk b =>
    cases hb : s.heap b with
    | none => simp [desc, hloc, hb] at hd
    | some blk =>
      have : ¬ (a < c ∧ c ≤ blk.bytes.length) := by omega
      simp only [hb, poison, this, if_false, Option.some.injEq]
      apply St.ext' <;> simp
      exact upd_self _ _ _ hb

theorem lenOf_eq {s : St} {v : Nat} {d : Desc} (h : desc s v = some d) : lenOf s v = d.len := by
  simp [lenOf, h]

theorem rdList_length {m : List Byte} {off n : Nat} {src : List Byte} (h : rdList m off n = some src) : src.length = n := by
  unfold rdList at h
  split at h
  · injection h with h; subst h; simp; omega
  · cases h

theorem wr_append_one (m a : List Byte) (x : Byte) :
    wr m 0 (a ++ [x]) = (wr m 0 a).bind (fun m' => wr m' a.length [x]) := by
  unfold wr
  by_cases h : a.length + 1 ≤ m.length
  · have h' : a.length ≤ m.length := by omega
    have e : (a ++ List.drop a.length m).length = m.length := by simp; omega
    simp [h, h', e]
  · by_cases h' : a.length ≤ m.length
    · have e : (a ++ List.drop a.length m).length = m.length := by simp; omega
      simp [h, h', e]
    · simp [h, h']

open Lean.Parser.Tactic in
macro "mach_simp" "[" ts:simpLemma,* "]" : tactic =>
  `(tactic| simp [desc, dRef, dLen, dCap, dStr, newData, charsOf, setStr, memCopy, rdRange, memOf, storeChar, setLen, setRef, setCap, updBlk,
      atomicInc, atomicDec, deleteData, setData, endLife, capRule, ctorRule, Generated.capMask, Generated.ctorMask, allocSet,
      setEmpty, release, setVar, share, ctorPtr, mkBlock, wr_append_one, upd_upd_same, Option.bind_assoc, $ts,*])


theorem dLen_desc (s : St) (v : Nat) : dLen s (s.vars v) = (desc s v).map (·.len) := by
  unfold dLen desc
  cases s.vars v with
  | empty => rfl
  | foreign r off len => rfl
  | blk b => cases hb : s.heap b <;> simp [hb]

theorem dStr_desc (s : St) (v : Nat) : dStr s (s.vars v) = (desc s v).map (fun d => ⟨d.base, d.off⟩) := by
  unfold dStr desc
  cases s.vars v with
  | empty => rfl
  | foreign r off len => rfl
  | blk b => cases hb : s.heap b <;> simp [hb]

/-- after a successful `detach` the String owns a block exclusively and has the requested length -/
theorem detach_excl {s s' : St} {v c m : Nat} (e : detach s v c m = some s') :
    ∃ b blk, s'.vars v = .blk b ∧ s'.heap b = some blk ∧ blk.ref = 1 ∧ blk.len = c := by
  unfold detach at e
  cases hd : desc s v with
  | none => simp [hd] at e
  | some d =>
    simp only [hd, Option.bind_eq_bind, Option.bind_some] at e
    by_cases fast : d.ref = 1 ∧ m ≤ d.cap
    · simp only [fast, and_self, if_true, Option.bind_eq_some_iff] at e
      obtain ⟨m0, _, m1, _, e⟩ := e
      unfold writeOwn at e
      cases hloc : s.vars v with
      | empty => simp [hloc] at e
      | foreign r off len => simp [hloc] at e
      | blk b =>
        cases hb : s.heap b with
        | none => simp [hloc, hb] at e
        | some blk =>
          by_cases r1 : blk.ref = 1
          · simp [hloc, hb, r1] at e
            subst e
            exact ⟨b, ⟨m1, c, blk.cap, blk.ref⟩, hloc, by simp [r1], r1, rfl⟩
          · simp [hloc, hb, r1] at e
    · simp only [fast, if_false, Option.bind_eq_some_iff, Option.pure_def, Option.some.injEq] at e
      obtain ⟨src, _, m0, _, m1, _, e⟩ := e
      subst e
      exact ⟨(setEmpty s v).next, ⟨m1, c, capRule m, 1⟩, by simp [allocSet], by simp [allocSet], rfl, rfl⟩


end Nstd.Str
