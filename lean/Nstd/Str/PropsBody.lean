import Nstd.Str.LemmasBody
/-!
  **Tie by translation** (property C06).  `tools/gen_str.py` translates the bodies of
  `~String()`, `detach(usize, usize)`, `String(const String&)`, `operator=(const String&)`, `operator const char*()` (both),
  `operator char*()`, `detach()`, `resize`, `reserve`, `append` (x3), `prepend` (x2, `PropsBody2.lean`) of the CURRENT include/nstd/String.hpp
  statement by statement into `Nstd.Str.Generated.Body.*` (over the load/store semantics of `Mach.lean`).  The theorems of
  this file show that the translated bodies ARE the hand-written model steps of `Model.lean` the other Props theorems speak
  about, on every state `Sane s` (unused next block id, live blocks have a positive count, no dangling `data` — all part of the
  heap invariant `Inv`, `sane_of_inv`; every reachable state satisfies `Inv`: `reach_good`).  A change of one of these C++
  bodies changes the generated definition and the equality fails to check.
-/
set_option linter.unusedSimpArgs false
namespace Nstd.Str
open Mach Generated

/-- `~String()` is the model's `release` -/
theorem dtor_translated {s : St} (h : Sane s) (v : Nat) : Body.dtor s v = some (release s v) := by
  have hd := h.desc v
  unfold Body.dtor release
  cases hloc : s.vars v with
  | empty => simp [dRef]
  | foreign r off len => simp [dRef]
  | blk b =>
    cases hb : s.heap b with
    | none => simp [desc, hloc, hb] at hd
    | some blk =>
      have r0 := h.pos b blk hb
      by_cases r1 : blk.ref = 1
      · simp [dRef, hb, r0, r1, atomicDec, deleteData, hloc, upd_upd_same]
      · have : blk.ref - 1 ≠ 0 := by omega
        simp [dRef, hb, r0, r1, atomicDec, deleteData, hloc, this]

/-- **`detach(copyLength, minCapacity)`**: the model's `detach` is the translated body, preceded — when the String grows in
    place (`ref == 1 && minCapacity <= capacity`) — by the model's convention step `expose` that marks the chars
    `[length(), copyLength)` unspecified (the C++ code leaves stale chars there; that step is not C++). -/
theorem detach_translated {s : St} (h : Sane s) (v c m : Nat) :
    detach s v c m = (if inPlace s v m then expose s v (lenOf s v) c else some s).bind (fun t => Body.detach t v c m) := by
  have hf := h.fresh
  unfold Body.detach detach inPlace lenOf
  cases hloc : s.vars v with
  | empty =>
    by_cases hc : 0 < c <;>
    simp [desc, hloc, dRef, dLen, dStr, newData, charsOf, setStr, memCopy, rdRange, memOf, storeChar, setLen, setRef, setCap, updBlk,
      capRule, Generated.capMask, allocSet, setEmpty, release, setVar, setData, upd_upd_same, hc, Option.bind_assoc]
  | foreign r off len => 
    by_cases hc : len < c <;>
    simp [desc, hloc, dRef, dLen, dStr, newData, charsOf, setStr, memCopy, rdRange, memOf, storeChar, setLen, setRef, setCap, updBlk,
      capRule, Generated.capMask, allocSet, setEmpty, release, setVar, setData, upd_upd_same, hc, Option.bind_assoc]
  | blk b =>
    cases hb : s.heap b with
    | none => simp [desc, hloc, hb, dRef]
    | some blk =>
      have hne : b ≠ s.next := by intro e; rw [e, hf] at hb; cases hb
      by_cases r1 : blk.ref = 1
      · by_cases hm : m ≤ blk.cap
        · simp [desc, hloc, hb, dRef, dCap, dStr, r1, hm, memOf, setLen, updBlk, storeChar, writeOwn, expose,
            Option.bind_assoc, upd_upd_same]
        · by_cases hc : blk.len < c <;>
          simp [desc, hloc, hb, dRef, dCap, dLen, dStr, r1, hm, newData, charsOf, setStr, memCopy, rdRange, memOf, storeChar, setLen, setRef, setCap, updBlk,
            capRule, Generated.capMask, allocSet, setEmpty, release, setVar, setData, upd_upd_same, hc, Option.bind_assoc,
            hne, atomicDec, deleteData, upd_comm s.heap b s.next _ _ hne]
      · have cm := fun x y => upd_comm s.heap b s.next x y hne
        by_cases r0 : blk.ref = 0
        · have hz : s.heap b = some { bytes := blk.bytes, len := blk.len, cap := blk.cap, ref := 0 } := by rw [hb, ← r0]
          by_cases hc : blk.len < c <;>
          simp [desc, hloc, hb, dRef, dCap, dLen, dStr, r1, r0, newData, charsOf, setStr, memCopy, rdRange, memOf, storeChar, setLen, setRef, setCap, updBlk,
            capRule, Generated.capMask, allocSet, setEmpty, release, setVar, setData, upd_upd_same, hc, Option.bind_assoc,
            hne, upd_self _ _ _ hz]
        · have hz : blk.ref - 1 ≠ 0 := by omega
          by_cases hc : blk.len < c <;>
          simp [desc, hloc, hb, dRef, dCap, dLen, dStr, r1, r0, newData, charsOf, setStr, memCopy, rdRange, memOf, storeChar, setLen, setRef, setCap, updBlk,
            capRule, Generated.capMask, allocSet, setEmpty, release, setVar, setData, upd_upd_same, hc, Option.bind_assoc,
            hne, atomicDec, deleteData, cm, hz]

/-- without growth in place (`copyLength ≤ length()`, or the reallocating path) the translated `detach` IS the model's -/
theorem detach_translated_eq {s : St} (hs : Sane s) (v c m : Nat)
    (h : c ≤ lenOf s v ∨ inPlace s v m = false) : Body.detach s v c m = detach s v c m := by
  rw [detach_translated hs v c m]
  by_cases hi : inPlace s v m = true
  · rcases h with h | h
    · have hd : (desc s v).isSome := by
        unfold inPlace at hi
        cases hd : desc s v <;> simp [hd] at hi ⊢
      simp [hi, expose_noop s v _ c h hd hi]
    · rw [h] at hi; cases hi
  · simp [hi]

/-- both `operator const char*` bodies are the model's `cview` -/
theorem cview_translated {s : St} (h : Sane s) (v : Nat) :
    Body.cview s v = cview s v ∧ Body.cviewConst s v = cview s v := by
  unfold Body.cview Body.cviewConst cview
  cases hd : desc s v with
  | none =>
    cases hloc : s.vars v with
    | empty => simp [desc, hloc] at hd
    | foreign r off len => simp [desc, hloc] at hd
    | blk b =>
      cases hb : s.heap b with
      | none => simp [dStr, hloc, hb]
      | some blk => simp [desc, hloc, hb] at hd
  | some d =>
    have hl := lenOf_eq hd
    have e := detach_translated_eq h v d.len d.len (Or.inl (by omega))
    cases hloc : s.vars v with
    | empty => simp [desc, hloc] at hd; subst hd; simp [dStr, dLen, hloc, loadChar, e] at e ⊢
    | foreign r off len => simp [desc, hloc] at hd; subst hd; simp [dStr, dLen, hloc, loadChar, e] at e ⊢
    | blk b =>
      cases hb : s.heap b with
      | none => simp [desc, hloc, hb] at hd
      | some blk => simp [desc, hloc, hb] at hd; subst hd; simp [dStr, dLen, hloc, hb, loadChar, e] at e ⊢

/-- `operator char*()` and `detach()` are the model's `mview` -/
theorem mview_translated {s : St} (h : Sane s) (v : Nat) :
    Body.mview s v = mview s v ∧ Body.detach0 s v = mview s v := by
  unfold Body.mview Body.detach0 mview
  cases hloc : s.vars v with
  | empty =>
    have e := detach_translated_eq h v 0 0 (Or.inl (by omega))
    simp [desc, dLen, hloc, e]
  | foreign r off len =>
    have e := detach_translated_eq h v len len (Or.inl (by simp [lenOf, desc, hloc]))
    simp [desc, dLen, hloc, e]
  | blk b =>
    cases hb : s.heap b with
    | none => simp [desc, dLen, hloc, hb]
    | some blk =>
      have e := detach_translated_eq h v blk.len blk.len (Or.inl (by simp [lenOf, desc, hloc, hb]))
      simp [desc, dLen, hloc, hb, e]

/-- `reserve(n)` is the model's `reserve` -/
theorem reserve_translated {s : St} (h : Sane s) (v n : Nat) : Body.reserve s v n = reserve s v n := by
  unfold Body.reserve reserve
  cases hloc : s.vars v with
  | empty =>
    have e := detach_translated_eq h v 0 n (Or.inl (by omega))
    simp [desc, dLen, hloc, e]
  | foreign r off len =>
    have e := fun k => detach_translated_eq h v len k (Or.inl (by simp [lenOf, desc, hloc]))
    by_cases c : n < len <;> simp [desc, dLen, hloc, e, c]
  | blk b =>
    cases hb : s.heap b with
    | none => simp [desc, dLen, hloc, hb]
    | some blk =>
      have e := fun k => detach_translated_eq h v blk.len k (Or.inl (by simp [lenOf, desc, hloc, hb]))
      by_cases c : n < blk.len <;> simp [desc, dLen, hloc, hb, e, c]

/-- `resize(n)`: the translated body after the model's convention step for growth in place -/
theorem resize_translated {s : St} (h : Sane s) (v n : Nat) :
    resize s v n = (if inPlace s v n then expose s v (lenOf s v) n else some s).bind (fun t => Body.resize t v n) := by
  unfold Body.resize resize
  simp [detach_translated h v n n]

/-- `String(const String& other)` into a slot that holds no object -/
theorem ctorCopy_translated {s : St} (h : Sane s) (v w : Nat) (hv : s.vars v = .empty) :
    Body.ctorCopy s v w = ctorCopy s v w := by
  unfold Body.ctorCopy ctorCopy
  cases hloc : s.vars w with
  | empty => simp [desc, hloc, dRef, setData, setEmpty, release, hv, setVar]
  | foreign r off len =>
    have e : w ≠ v := by intro e; subst e; rw [hv] at hloc; cases hloc
    have e' := upd_other s.vars v w (Loc.blk s.next) e
    simp only [desc, hloc, rdRange, memOf, Option.bind_eq_bind, Option.bind_some]
    cases hs : rdList (List.map some (s.regs r)) off len with
    | none => simp [dRef, dLen, dStr, newData, charsOf, setStr, memCopy, rdRange, memOf, hs, setData, hloc, e']
    | some src =>
      have hl := rdList_length hs
      simp [dRef, dLen, dStr, newData, charsOf, setStr, memCopy, rdRange, memOf, hs, setData, ctorPtr, mkBlock, wr_append_one, hl,
        storeChar, setLen, setRef, setCap, updBlk, ctorRule, Generated.ctorMask, allocSet, setEmpty, release, hv, setVar,
        upd_upd_same, Option.bind_assoc, hloc, e']
  | blk b =>
    have e : w ≠ v := by intro e; subst e; rw [hv] at hloc; cases hloc
    cases hb : s.heap b with
    | none => simp [desc, hloc, hb, dRef]
    | some blk =>
      have r0 := h.pos b blk hb
      simp [desc, hloc, hb, dRef, r0, setData, atomicInc, updBlk, share, release, hv, setVar, upd_other _ _ _ _ e]

set_option maxHeartbeats 1000000 in
/-- `operator=(const String& other)` (`other` may be the String itself) -/
theorem assign_translated {s : St} (h : Sane s) (v w : Nat) :
    Body.assign s v w = assign s v w := by
  have hf := h.fresh
  have hp := h.pos
  have hdv := h.desc v
  unfold Body.assign assign
  cases hloc : s.vars w with
  | blk b =>
    cases hb : s.heap b with
    | none => mach_simp [hloc, hb]
    | some blk =>
      have r0 := hp b blk hb
      cases hv : s.vars v with
      | empty => mach_simp [hloc, hb, r0, hv]
      | foreign r off len => mach_simp [hloc, hb, r0, hv]
      | blk b' =>
        by_cases e : b' = b
        · subst e
          mach_simp [hloc, hb, r0, hv]
        · cases hb' : s.heap b' with
          | none => simp [desc, hv, hb'] at hdv
          | some blk' =>
            have r0' := hp b' blk' hb'
            have e' : b ≠ b' := fun x => e x.symm
            by_cases r1 : blk'.ref = 1
            · mach_simp [hloc, hb, r0, hv, hb', e, e', r1]
            · have : blk'.ref - 1 ≠ 0 := by omega
              mach_simp [hloc, hb, r0, hv, hb', e, e', r1, r0', this]
  | empty =>
    cases hv : s.vars v with
    | empty => mach_simp [hloc, hv, rdList, fresh]
    | foreign r off len => mach_simp [hloc, hv, rdList, fresh]
    | blk b' =>
      cases hb' : s.heap b' with
      | none => simp [desc, hv, hb'] at hdv
      | some blk' =>
        have r0' := hp b' blk' hb'
        have hne : b' ≠ s.next := by intro e; rw [e, hf] at hb'; cases hb'
        by_cases r1 : blk'.ref = 1
        · mach_simp [hloc, hv, hb', r1, hne, rdList, fresh]
        · have : blk'.ref - 1 ≠ 0 := by omega
          mach_simp [hloc, hv, hb', r1, r0', this, hne, rdList, fresh]
  | foreign r off len =>
    cases hs : rdList (List.map some (s.regs r)) off len with
    | none =>
      cases hv : s.vars v with
      | empty => mach_simp [hloc, hv, hs]
      | foreign r off len => mach_simp [hloc, hv, hs]
      | blk b' =>
        cases hb' : s.heap b' with
        | none => simp [desc, hv, hb'] at hdv
        | some blk' =>
          have r0' := hp b' blk' hb'
          by_cases r1 : blk'.ref = 1
          · mach_simp [hloc, hv, hb', r1, hs]
          · have : blk'.ref - 1 ≠ 0 := by omega
            mach_simp [hloc, hv, hb', r1, r0', this, hs]
    | some src =>
      have hl := rdList_length hs
      cases hv : s.vars v with
      | empty => mach_simp [hloc, hv, hs, hl]
      | foreign r off len => mach_simp [hloc, hv, hs, hl]
      | blk b' =>
        cases hb' : s.heap b' with
        | none => simp [desc, hv, hb'] at hdv
        | some blk' =>
          have r0' := hp b' blk' hb'
          have hne : b' ≠ s.next := by intro e; rw [e, hf] at hb'; cases hb'
          by_cases r1 : blk'.ref = 1
          · mach_simp [hloc, hv, hb', r1, hs, hl, hne]
          · have : blk'.ref - 1 ≠ 0 := by omega
            mach_simp [hloc, hv, hb', r1, r0', this, hs, hl, hne]

/-- `append(const String& str)` is the model's `appendS` — `str` may be the String itself (it is read after the `detach`) -/
theorem appendS_translated {s : St} (h : Sane s) (v w : Nat) : Body.appendS s v w = appendS s v w := by
  unfold Body.appendS appendS
  simp only [dLen_desc, dStr_desc]
  cases hdv : desc s v with
  | none => simp
  | some dv =>
    cases hdw : desc s w with
    | none => simp
    | some dw =>
      have e := detach_translated_eq h v dv.len (dv.len + dw.len) (Or.inl (by rw [lenOf_eq hdv]; omega))
      simp only [Option.map_some, Option.bind_eq_bind, Option.bind_some, e, Option.pure_def]
      cases hdet : detach s v dv.len (dv.len + dw.len) with
      | none => simp
      | some s1 =>
        obtain ⟨b, blk, hv1, hb1, r1, hl⟩ := detach_excl hdet
        have hd1 : desc s1 v = some ⟨.blk b, 0, blk.len, blk.cap, blk.ref⟩ := by simp [desc, hv1, hb1]
        simp only [Option.bind_some, hd1, Option.map_some, content]
        cases hdw1 : desc s1 w with
        | none => simp
        | some dw1 =>
          simp only [Option.map_some, Option.bind_some, memCopy, padd, Nat.mul_one, Option.bind_eq_bind]
          cases hsrc : rdRange s1 dw1.base dw1.off dw1.len with
          | none => simp
          | some src =>
            simp [putTail, hd1, memOf, hb1, hv1, writeOwn, r1, setLen, updBlk, storeChar, upd_upd_same, Option.bind_assoc, hl, desc]

/-- `append(const char* str, usize len)` for ANY pointer (also one into the String's own storage): the chars are read after
    the `detach` -/
theorem appendP_translated {s : St} (h : Sane s) (v : Nat) (p : CPtr) (len : Nat) :
    Body.appendP s v p len = (do
      let dv ← desc s v
      let s1 ← detach s v dv.len (dv.len + len)
      let dv1 ← desc s1 v
      let src ← rdRange s1 p.base p.off len
      putTail s1 v dv1.len src (dv.len + len)) := by
  unfold Body.appendP
  simp only [dLen_desc, dStr_desc]
  cases hdv : desc s v with
  | none => simp
  | some dv =>
    have e := detach_translated_eq h v dv.len (dv.len + len) (Or.inl (by rw [lenOf_eq hdv]; omega))
    simp only [Option.map_some, Option.bind_eq_bind, Option.bind_some, e, Option.pure_def]
    cases hdet : detach s v dv.len (dv.len + len) with
    | none => simp
    | some s1 =>
      obtain ⟨b, blk, hv1, hb1, r1, hl⟩ := detach_excl hdet
      have hd1 : desc s1 v = some ⟨.blk b, 0, blk.len, blk.cap, blk.ref⟩ := by simp [desc, hv1, hb1]
      simp only [Option.bind_some, hd1, Option.map_some, memCopy, padd, Nat.mul_one, Option.bind_eq_bind]
      cases hsrc : rdRange s1 p.base p.off len with
      | none => simp
      | some src =>
        simp [putTail, hd1, memOf, hb1, hv1, writeOwn, r1, setLen, updBlk, storeChar, upd_upd_same, Option.bind_assoc, hl, desc]

/-- `append(char)` is the model's `appendC` -/
theorem appendC_translated {s : St} (h : Sane s) (v c : Nat) : Body.appendC s v c = appendC s v c := by
  unfold Body.appendC appendC appendP
  simp only [dLen_desc, dStr_desc]
  cases hdv : desc s v with
  | none => simp
  | some dv =>
    have e := detach_translated_eq h v dv.len (dv.len + 1) (Or.inl (by rw [lenOf_eq hdv]; omega))
    simp only [Option.map_some, Option.bind_eq_bind, Option.bind_some, e, Option.pure_def, List.length_singleton]
    cases hdet : detach s v dv.len (dv.len + 1) with
    | none => simp
    | some s1 =>
      obtain ⟨b, blk, hv1, hb1, r1, hl⟩ := detach_excl hdet
      have hd1 : desc s1 v = some ⟨.blk b, 0, blk.len, blk.cap, blk.ref⟩ := by simp [desc, hv1, hb1]
      simp [putTail, hd1, memOf, hb1, hv1, writeOwn, r1, setLen, updBlk, storeChar, upd_upd_same, Option.bind_assoc, hl, desc]

/-- `s.append((const char*)s + off, len)` (the model's `appendAlias`) is the translated `append(const char*, usize)` called
    with the pointer the C string view returned -/
theorem appendAlias_translated (s : St) (v off len : Nat) (hs : ∀ s1, cview s v = some s1 → Sane s1) :
    appendAlias s v off len = (do
      let s1 ← cview s v
      let d0 ← desc s1 v
      if off + len > d0.len then none else Body.appendP s1 v ⟨d0.base, d0.off + off⟩ len) := by
  unfold appendAlias
  cases hc : cview s v with
  | none => simp
  | some s1 =>
    have h1 := hs s1 hc
    simp only [Option.bind_eq_bind, Option.bind_some]
    cases hd : desc s1 v with
    | none => simp
    | some d0 =>
      simp only [Option.bind_some]
      by_cases g : off + len > d0.len
      · simp [g]
      · simp [g, appendP_translated h1, hd]


end Nstd.Str

namespace Nstd.Str
open Mach Generated

/-- non-vacuity: the initial state is `Sane`, and so is every state with the heap invariant -/
example (n : Nat) (regs : Nat → List Nat) : Sane (init n regs) := sane_of_inv (inv_init n regs)

/-- the translated bodies compute: `String a("ab"); String b(a); b.detach(3, 3)` (copy of a literal grown in place: the exposed char is the stale
    NUL the C++ code leaves there — the model's `expose` step would mark it unspecified), `a = b; b = b` -/
example :
    let s0 := attach (init 4 (fun _ => [97, 98, 0])) 0 0 0 2
    (((Body.ctorCopy s0 1 0).bind (fun s => Body.detach s 1 3 3)).map (fun s => (absVar s 1, absVar s 0))
      = some ([some 97, some 98, some 0], [some 97, some 98])) ∧
    ((((Body.ctorCopy s0 1 0).bind (fun s => Body.assign s 0 1)).bind (fun s => Body.assign s 1 1)).bind
        (fun s => Body.cview s 0)).map (fun s => (absVar s 0, absVar s 1, s.vars 0 == s.vars 1))
      = some ([some 97, some 98], [some 97, some 98], true) := by
  decide

end Nstd.Str
